(* Generic driver for the extracted model: reads "op sexpr" lines, prints one sexpr per line.
   The oracle (white space, word characters, lower-case map of the running Python) is loaded from
   the table file given as first argument. *)
open Model

let rec pos_of_int (n : int) : positive =
  if n = 1 then XH else if n land 1 = 0 then XO (pos_of_int (n lsr 1)) else XI (pos_of_int (n lsr 1))
let rec int_of_pos (p : positive) : int =
  match p with XH -> 1 | XO q -> 2 * int_of_pos q | XI q -> 2 * int_of_pos q + 1
let n_of_int n = if n = 0 then N0 else Npos (pos_of_int n)
let int_of_n = function N0 -> 0 | Npos p -> int_of_pos p
let z_of_int n = if n = 0 then Z0 else if n > 0 then Zpos (pos_of_int n) else Zneg (pos_of_int (- n))
let int_of_z = function Z0 -> 0 | Zpos p -> int_of_pos p | Zneg p -> - (int_of_pos p)

(* ---- s-expressions over integers ---- *)
let parse_data (s : string) (i0 : int) : data * int =
  let n = String.length s in
  let rec skip i = if i < n && (s.[i] = ' ' || s.[i] = '\n' || s.[i] = '\r') then skip (i + 1) else i in
  let rec item i =
    let i = skip i in
    if i >= n then failwith "eof"
    else if s.[i] = '(' then begin
      let rec items i acc =
        let i = skip i in
        if i >= n then failwith "eof in list"
        else if s.[i] = ')' then (DL (List.rev acc), i + 1)
        else let (d, j) = item i in items j (d :: acc) in
      items (i + 1) []
    end else begin
      let j = ref i in
      if !j < n && s.[!j] = '-' then incr j;
      while !j < n && s.[!j] >= '0' && s.[!j] <= '9' do incr j done;
      (DI (z_of_int (int_of_string (String.sub s i (!j - i)))), !j)
    end in
  item i0

let rec print_data buf (d : data) =
  match d with
  | DI z -> Buffer.add_string buf (string_of_int (int_of_z z))
  | DL l ->
      Buffer.add_char buf '(';
      List.iteri (fun i x -> if i > 0 then Buffer.add_char buf ' '; print_data buf x) l;
      Buffer.add_char buf ')'

(* ---- oracle tables ---- *)
let spaces : (int, unit) Hashtbl.t = Hashtbl.create 64
let lowers : (int, n list) Hashtbl.t = Hashtbl.create 2048
let word_ranges : (int * int) array ref = ref [||]

let load_tables file =
  let ic = open_in file in
  let wr = ref [] in
  (try while true do
     let line = input_line ic in
     match String.split_on_char ' ' (String.trim line) with
     | "S" :: c :: [] -> Hashtbl.replace spaces (int_of_string c) ()
     | "W" :: a :: b :: [] -> wr := (int_of_string a, int_of_string b) :: !wr
     | "L" :: c :: rest -> Hashtbl.replace lowers (int_of_string c) (List.map (fun x -> n_of_int (int_of_string x)) rest)
     | _ -> ()
   done with End_of_file -> ());
  close_in ic;
  word_ranges := Array.of_list (List.rev !wr)

let is_wordch c =
  let a = !word_ranges in
  let lo = ref 0 and hi = ref (Array.length a - 1) and res = ref false in
  while not !res && !lo <= !hi do
    let mid = (!lo + !hi) / 2 in
    let (x, y) = a.(mid) in
    if c < x then hi := mid - 1 else if c > y then lo := mid + 1 else res := true
  done;
  !res

let oracle =
  { is_space = (fun c -> Hashtbl.mem spaces (int_of_n c));
    is_wordch = (fun c -> is_wordch (int_of_n c));
    lower_ch = (fun c -> match Hashtbl.find_opt lowers (int_of_n c) with Some l -> l | None -> [c]) }

let () =
  load_tables Sys.argv.(1);
  let buf = Buffer.create 65536 in
  (try while true do
     let line = input_line stdin in
     if String.length line > 0 then begin
       let sp = String.index line ' ' in
       let op = int_of_string (String.sub line 0 sp) in
       let (d, _) = parse_data line (sp + 1) in
       let r = (try dispatch oracle (z_of_int op) d with Stack_overflow -> DL [DI (z_of_int (-2))]) in
       Buffer.clear buf; print_data buf r; Buffer.add_char buf '\n';
       print_string (Buffer.contents buf)
     end
   done with End_of_file -> ());
  flush stdout
