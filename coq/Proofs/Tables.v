(* C14: validate_symbols reports an error exactly for ambiguous tables. *)
Require Import Model.Base Model.Expr Model.LicTok Model.Licensing.
Require Import Proofs.Symbol Proofs.OU.
From Coq Require Import Lia.

Section Tables.
Variable O : oracle.

Definition keyl (e : entry) : str := lower O (strip O (ekey e)).
Notation names := (entry_names O).

Lemma names_nodup e : NoDup (names e).
Proof. unfold entry_names. apply (ou_nodup str_eqb str_eqb_eq). constructor. Qed.

Lemma keyl_in_names e : In (keyl e) (names e).
Proof. unfold entry_names. apply (ou_in str_eqb str_eqb_eq). right. apply in_or_app. right. left. reflexivity. Qed.

(* the rule, unfolded along the list: [earlier] are the entries already seen *)
Definition bad_here (earlier : list entry) (e : entry) : Prop :=
  (exists e', In e' earlier /\ keyl e' = keyl e) \/
  (exists a, In a (names e) /\ is_keyword_str a = true) \/
  (exists e' a, In e' earlier /\ In a (names e') /\ In a (names e) /\ keyl e' <> keyl e).
Fixpoint bad (earlier T : list entry) : Prop :=
  match T with
  | [] => False
  | e :: T' => bad_here earlier e \/ bad (earlier ++ [e]) T'
  end.

(* ---- the alias loop of one entry ---- *)
Definition nonempty (k : str) : bool := negb (match k with [] => true | _ => false end).
Definition flag (kl : str) (seen : list (str * str)) (a : str) : bool :=
  is_keyword_str a ||
  match assoc_get a seen with Some k => nonempty k && negb (str_eqb k kl) | None => false end.

Lemma assoc_get_app_notin a loc seen : ~ In a (map fst loc) -> assoc_get a (loc ++ seen) = assoc_get a seen.
Proof.
  induction loc as [|[a' k'] loc IH]; intro H; [reflexivity|]. simpl.
  destruct (str_eqb a a') eqn:E; [apply str_eqb_eq in E; subst; exfalso; apply H; left; reflexivity|].
  apply IH. intro Hin. apply H. right; exact Hin.
Qed.

Lemma alias_loop_distinct kl : forall todo loc seen err,
  NoDup todo -> (forall a, In a todo -> ~ In a (map fst loc)) ->
  alias_loop kl todo (loc ++ seen) err =
  (err || existsb (flag kl seen) todo, rev (map (fun a => (a, kl)) todo) ++ loc ++ seen).
Proof.
  induction todo as [|a todo IH]; intros loc seen err Hnd Hloc; simpl.
  - rewrite orb_false_r. reflexivity.
  - inversion Hnd as [|? ? Ha Hnd']; subst. unfold assoc_set.
    rewrite (assoc_get_app_notin a loc seen) by (apply Hloc; left; reflexivity).
    change ((a, kl) :: loc ++ seen) with (((a, kl) :: loc) ++ seen).
    rewrite IH; [|exact Hnd'|].
    + f_equal.
      * cbn [existsb]. unfold flag at 2. unfold nonempty.
        destruct (assoc_get a seen) as [k|]; destruct err, (is_keyword_str a), (existsb (flag kl seen) todo);
          try reflexivity; destruct (negb match k with [] => true | _ :: _ => false end && negb (str_eqb k kl)); reflexivity.
      * simpl. rewrite <- app_assoc. reflexivity.
    + intros b Hb [Hin|Hin]; [simpl in Hin; subst; contradiction | apply (Hloc b); [right; exact Hb | exact Hin]].
Qed.

(* ---- the table loop ---- *)
Definition seen_ok (earlier : list entry) (seen : list (str * str)) : Prop :=
  (forall a k, assoc_get a seen = Some k -> exists e', In e' earlier /\ In a (names e') /\ keyl e' = k) /\
  (forall e' a, In e' earlier -> In a (names e') -> exists k, assoc_get a seen = Some k).

Lemma assoc_get_rev_map kl l a seen :
  assoc_get a (rev (map (fun x => (x, kl)) l) ++ seen) = if existsb (str_eqb a) l then Some kl else assoc_get a seen.
Proof.
  induction l as [|x l IH] using rev_ind; [reflexivity|].
  rewrite map_app, rev_app_distr. simpl. rewrite existsb_app. simpl. rewrite orb_false_r.
  destruct (str_eqb a x) eqn:E; [rewrite orb_true_r; reflexivity|]. rewrite orb_false_r. exact IH.
Qed.

Lemma existsb_str_in a l : existsb (str_eqb a) l = true <-> In a l.
Proof.
  rewrite existsb_exists. split; [intros [x [Hx E]]; apply str_eqb_eq in E; subst; exact Hx | intro H; exists a; split; [exact H | apply str_eqb_refl]].
Qed.

Lemma seen_ok_step earlier seen e : seen_ok earlier seen ->
  seen_ok (earlier ++ [e]) (rev (map (fun a => (a, keyl e)) (names e)) ++ seen).
Proof.
  intros [S1 S2]. split.
  - intros a k H. rewrite assoc_get_rev_map in H. destruct (existsb (str_eqb a) (names e)) eqn:E.
    + inversion H; subst. apply existsb_str_in in E. exists e. split; [apply in_or_app; right; left; reflexivity|]. split; [exact E | reflexivity].
    + destruct (S1 a k H) as [e' [H1 [H2 H3]]]. exists e'. split; [apply in_or_app; left; exact H1|]. split; assumption.
  - intros e' a Hin Ha. rewrite assoc_get_rev_map. destruct (existsb (str_eqb a) (names e)) eqn:E; [exists (keyl e); reflexivity|].
    apply in_app_or in Hin as [Hin|[<-|[]]]; [apply (S2 e' a Hin Ha)|].
    apply existsb_str_in in Ha. congruence.
Qed.

Lemma bad_here_iff earlier seen e :
  seen_ok earlier seen -> (forall e', In e' earlier -> keyl e' <> []) ->
  (existsb (str_eqb (keyl e)) (map keyl earlier) || is_keyword_str (keyl e) || existsb (flag (keyl e) seen) (names e) = true
   <-> bad_here earlier e).
Proof.
  intros [S1 S2] Hk. unfold bad_here. rewrite !orb_true_iff. split.
  - intros [[H|H]|H].
    + left. apply existsb_str_in in H. apply in_map_iff in H as [e' [E Hin]]. exists e'. split; [exact Hin | exact E].
    + right. left. exists (keyl e). split; [apply keyl_in_names | exact H].
    + apply existsb_exists in H as [a [Ha F]]. unfold flag in F. apply orb_true_iff in F as [F|F].
      * right. left. exists a. split; assumption.
      * destruct (assoc_get a seen) as [k|] eqn:G; [|discriminate]. apply andb_true_iff in F as [_ F].
        destruct (S1 a k G) as [e' [H1 [H2 H3]]]. right. right. exists e', a. repeat split; try assumption.
        intro E. assert (Hk2 : k = keyl e) by congruence. rewrite Hk2, str_eqb_refl in F. discriminate.
  - intros [[e' [Hin E]]|[[a [Ha Hkw]]|[e' [a [Hin [Ha' [Ha Hne]]]]]]].
    + left. left. apply existsb_str_in. rewrite <- E. apply in_map. exact Hin.
    + right. apply existsb_exists. exists a. split; [exact Ha|]. unfold flag. rewrite Hkw. reflexivity.
    + destruct (S2 e' a Hin Ha') as [k G]. destruct (S1 a k G) as [e2 [H1 [H2 H3]]].
      destruct (str_eqb k (keyl e)) eqn:E.
      * left. left. apply str_eqb_eq in E. apply existsb_str_in. rewrite <- E, <- H3. apply in_map. exact H1.
      * right. apply existsb_exists. exists a. split; [exact Ha|]. unfold flag. rewrite G, E.
        assert (Hn : nonempty k = true).
        { unfold nonempty. destruct k; [|reflexivity]. exfalso. apply (Hk e2 H1). exact H3. }
        rewrite Hn. apply orb_true_r.
Qed.

Lemma bool_eq_iff' (a b : bool) : (a = true <-> b = true) -> a = b.
Proof. destruct a, b; intros [H1 H2]; try reflexivity; [symmetry; apply H1; reflexivity | apply H2; reflexivity]. Qed.

Lemma vs_loop_spec : forall T earlier seen err,
  seen_ok earlier seen -> (forall e', In e' (earlier ++ T) -> keyl e' <> []) ->
  (vs_loop O T (rev (map keyl earlier)) seen err = true <-> err = true \/ bad earlier T).
Proof.
  induction T as [|e T IH]; intros earlier seen err S Hk; cbn [vs_loop bad].
  - tauto.
  - fold (keyl e).
    pose proof (alias_loop_distinct (keyl e) (names e) [] seen false (names_nodup e) ltac:(intros ? ? [])) as AL.
    simpl in AL. rewrite AL.
    replace (keyl e :: rev (map keyl earlier)) with (rev (map keyl (earlier ++ [e])))
      by (rewrite map_app, rev_app_distr; reflexivity).
    rewrite IH.
    + rewrite ?app_nil_r.
      assert (Hb := bad_here_iff earlier seen e S ltac:(intros e' H; apply Hk; apply in_or_app; left; exact H)).
      assert (Hm : existsb (str_eqb (keyl e)) (rev (map keyl earlier)) = existsb (str_eqb (keyl e)) (map keyl earlier)).
      { apply bool_eq_iff'. rewrite !existsb_str_in. rewrite <- in_rev. tauto. }
      rewrite Hm. rewrite <- Hb. rewrite !orb_true_iff. tauto.
    + rewrite ?app_nil_r. apply seen_ok_step; exact S.
    + intros e' H. apply Hk. rewrite <- app_assoc in H. exact H.
Qed.

Theorem validate_symbols_iff T : (forall e, In e T -> keyl e <> []) ->
  (validate_symbols_err O T = true <-> bad [] T).
Proof.
  intro Hk. unfold validate_symbols_err.
  rewrite (vs_loop_spec T [] [] false); [split; [intros [H|H]; [discriminate | exact H] | intro H; right; exact H] | | exact Hk].
  split; [intros a k H; discriminate | intros e' a []].
Qed.

(* the unfolded rule says: some pair of different entries clashes, or some name is a keyword *)
Definition two_entries (T : list entry) (e1 e2 : entry) : Prop :=
  exists l1 l2 l3, T = l1 ++ e1 :: l2 ++ e2 :: l3.
Definition ambiguous (T : list entry) : Prop :=
  (exists e1 e2, two_entries T e1 e2 /\ keyl e1 = keyl e2) \/
  (exists e a, In e T /\ In a (names e) /\ is_keyword_str a = true) \/
  (exists e1 e2 a, two_entries T e1 e2 /\ In a (names e1) /\ In a (names e2) /\ keyl e1 <> keyl e2).

Lemma bad_ambiguous : forall T earlier,
  bad earlier T <->
  (exists e1 e2, ((In e1 earlier /\ In e2 T) \/ two_entries T e1 e2) /\ keyl e1 = keyl e2) \/
  (exists e a, In e T /\ In a (names e) /\ is_keyword_str a = true) \/
  (exists e1 e2 a, ((In e1 earlier /\ In e2 T) \/ two_entries T e1 e2) /\ In a (names e1) /\ In a (names e2) /\ keyl e1 <> keyl e2).
Proof.
  induction T as [|e T IH]; intro earlier; cbn [bad].
  - split; [intros [] |].
    intros [[e1 [e2 [[[_ []]|[l1 [l2 [l3 H]]]] _]]]|[[e [a [[] _]]]|[e1 [e2 [a [[[_ []]|[l1 [l2 [l3 H]]]] _]]]]]];
      destruct l1; discriminate.
  - rewrite IH. unfold bad_here. split.
    + intros [[[e' [Hin E]]|[[a [Ha Hkw]]|[e' [a [Hin [Ha' [Ha Hne]]]]]]]|[[e1 [e2 [Hp E]]]|[[e0 [a [Hin [Ha Hkw]]]]|[e1 [e2 [a [Hp [H1 [H2 Hne]]]]]]]]].
      * left. exists e', e. split; [left; split; [exact Hin | left; reflexivity] | exact E].
      * right. left. exists e, a. split; [left; reflexivity | split; assumption].
      * right. right. exists e', e, a. split; [left; split; [exact Hin | left; reflexivity] | repeat split; assumption].
      * left. exists e1, e2. split; [|exact E]. destruct Hp as [[H1 H2]|[l1 [l2 [l3 H]]]].
        -- apply in_app_or in H1 as [H1|[<-|[]]]; [left; split; [exact H1 | right; exact H2]|].
           right. apply in_split in H2 as [l2 [l3 ->]]. exists [], l2, l3. reflexivity.
        -- right. exists (e :: l1), l2, l3. rewrite H. reflexivity.
      * right. left. exists e0, a. split; [right; exact Hin | split; assumption].
      * right. right. exists e1, e2, a. split; [|repeat split; assumption]. destruct Hp as [[H3 H4]|[l1 [l2 [l3 H]]]].
        -- apply in_app_or in H3 as [H3|[<-|[]]]; [left; split; [exact H3 | right; exact H4]|].
           right. apply in_split in H4 as [l2 [l3 ->]]. exists [], l2, l3. reflexivity.
        -- right. exists (e :: l1), l2, l3. rewrite H. reflexivity.
    + intros [[e1 [e2 [Hp E]]]|[[e0 [a [Hin [Ha Hkw]]]]|[e1 [e2 [a [Hp [H1 [H2 Hne]]]]]]]].
      * destruct Hp as [[H3 [<-|H4]]|[l1 [l2 [l3 H]]]].
        -- left. left. exists e1. split; assumption.
        -- right. left. exists e1, e2. split; [left; split; [apply in_or_app; left; exact H3 | exact H4] | exact E].
        -- destruct l1 as [|x l1]; simpl in H; inversion H; subst.
           ++ right. left. exists e1, e2. split; [|exact E]. left. split; [apply in_or_app; right; left; reflexivity|].
              apply in_or_app. right. left. reflexivity.
           ++ right. left. exists e1, e2. split; [|exact E]. right. exists l1, l2, l3. reflexivity.
      * destruct Hin as [<-|Hin].
        -- left. right. left. exists a. split; assumption.
        -- right. right. left. exists e0, a. repeat split; assumption.
      * destruct Hp as [[H3 [<-|H4]]|[l1 [l2 [l3 H]]]].
        -- left. right. right. exists e1, a. repeat split; assumption.
        -- right. right. right. exists e1, e2, a. split; [left; split; [apply in_or_app; left; exact H3 | exact H4] | repeat split; assumption].
        -- destruct l1 as [|x l1]; simpl in H; inversion H; subst.
           ++ right. right. right. exists e1, e2, a. split; [|repeat split; assumption]. left. split; [apply in_or_app; right; left; reflexivity|].
              apply in_or_app. right. left. reflexivity.
           ++ right. right. right. exists e1, e2, a. split; [|repeat split; assumption]. right. exists l1, l2, l3. reflexivity.
Qed.

Theorem validate_symbols_ambiguous T : (forall e, In e T -> keyl e <> []) ->
  (validate_symbols_err O T = true <-> ambiguous T).
Proof.
  intro Hk. rewrite (validate_symbols_iff T Hk), (bad_ambiguous T []). unfold ambiguous. split.
  - intros [[e1 [e2 [[[[] _]|H] E]]]|[H|[e1 [e2 [a [[[[] _]|H] R]]]]]].
    + left. exists e1, e2. split; assumption.
    + right. left. exact H.
    + right. right. exists e1, e2, a. split; assumption.
  - intros [[e1 [e2 [H E]]]|[H|[e1 [e2 [a [H R]]]]]].
    + left. exists e1, e2. split; [right; exact H | exact E].
    + right. left. exact H.
    + right. right. exists e1, e2, a. split; [right; exact H | exact R].
Qed.

(* Licensing(...) raises ValueError exactly then (for tables whose keys were accepted) *)
Theorem ctor_iff raw T : as_symbols O raw = Ok T -> (forall e, In e T -> keyl e <> []) ->
  (new_licensing O raw = ValueErr <-> ambiguous T) /\ (new_licensing O raw = Ok T <-> ~ ambiguous T).
Proof.
  intros HA Hk. unfold new_licensing. rewrite HA. cbn [obind].
  pose proof (validate_symbols_ambiguous T Hk) as V.
  destruct (validate_symbols_err O T); split; split; intro H; try reflexivity; try discriminate.
  - apply V. reflexivity.
  - exfalso. apply H. apply V. reflexivity.
  - apply V in H. discriminate.
  - intro A. apply V in A. discriminate.
Qed.

End Tables.
