(* C12 lifted to Licensing.parse: strictness only enters through replace_with. *)
Require Import Model.Base Model.Expr Model.Split Model.Trie Model.Overlap Model.LicTok Model.BoolParse Model.Licensing.
Require Import Proofs.WithGroup.

Section Strict.
Variable O : oracle.

(* the token groups of a text: everything in Licensing.tokenize before the WITH replacement *)
Definition token_groups (T : list entry) (simple : bool) (s : str) : outcome (list group) :=
  obind (if simple then simple_tokens O T (pieces O s) else Ok (t_tokenize O (build_trie O T) s)) (fun toks =>
  obind (build_unknown O [] toks) (fun toks1 => Ok (group_with (drop_blank O toks1)))).

Lemma lic_tokenize_groups T strict simple s : s <> [] ->
  lic_tokenize O T strict simple s = obind (token_groups T simple s) (replace_with O strict).
Proof.
  intro Hs. unfold lic_tokenize, token_groups. destruct s as [|c s]; [contradiction|].
  destruct (if simple then simple_tokens O T (pieces O (c :: s)) else Ok (t_tokenize O (build_trie O T) (c :: s)));
    try reflexivity. cbn [obind]. destruct (build_unknown O [] a); reflexivity.
Qed.

Theorem parse_strict_iff T simple s gs e : s <> [] -> token_groups T simple s = Ok gs ->
  (parse_tokens O T true simple s = Ok e <->
   parse_tokens O T false simple s = Ok e /\ roles_ok gs = true).
Proof.
  intros Hs Hg. unfold parse_tokens. rewrite !lic_tokenize_groups by exact Hs. rewrite Hg. cbn [obind]. split.
  - intro H. destruct (replace_with O true gs) as [r| | | | |] eqn:E; try discriminate.
    apply strict_iff in E as [E1 E2]. rewrite E1. split; [exact H | exact E2].
  - intros [H Hr]. destruct (replace_with O false gs) as [r| | | | |] eqn:E; try discriminate.
    assert (E' : replace_with O true gs = Ok r) by (apply strict_iff; split; assumption).
    rewrite E'. exact H.
Qed.

Theorem parse_strict_error T simple s gs e : s <> [] -> token_groups T simple s = Ok gs ->
  parse_tokens O T false simple s = Ok e -> roles_ok gs = false ->
  exists c tok pos, first_offender gs = Some (c, tok, pos) /\
                    parse_tokens O T true simple s = ParseErr c tok pos.
Proof.
  intros Hs Hg H Hr. unfold parse_tokens in *. rewrite lic_tokenize_groups in * by exact Hs. rewrite Hg in *.
  cbn [obind] in *. destruct (replace_with O false gs) as [r| | | | |] eqn:E; try discriminate.
  destruct (strict_error_where O gs r E Hr) as [c [tok [pos [F S]]]].
  exists c, tok, pos. split; [exact F|]. rewrite S. reflexivity.
Qed.

(* when the tokens cannot be built (a refused unknown key) strictness changes nothing *)
Theorem parse_strict_same_failure T simple s : s <> [] ->
  (forall gs, token_groups T simple s <> Ok gs) ->
  parse_tokens O T true simple s = parse_tokens O T false simple s.
Proof.
  intros Hs Hg. unfold parse_tokens. rewrite !lic_tokenize_groups by exact Hs.
  destruct (token_groups T simple s) as [gs| | | | |]; try reflexivity. exfalso. apply (Hg gs). reflexivity.
Qed.

Theorem strict_then_lenient T simple s e :
  parse_tokens O T true simple s = Ok e -> parse_tokens O T false simple s = Ok e.
Proof.
  destruct s as [|c s]; [intro H; exact H|].
  intro H. destruct (token_groups T simple (c :: s)) as [gs| | | | |] eqn:G.
  - assert (Hne : c :: s <> []) by discriminate.
    destruct (parse_strict_iff T simple (c :: s) gs e Hne G) as [K _]. destruct (K H) as [K1 _]. exact K1.
  - rewrite <- H. symmetry. apply parse_strict_same_failure; [discriminate | intros gs E; rewrite E in G; discriminate].
  - rewrite <- H. symmetry. apply parse_strict_same_failure; [discriminate | intros gs E; rewrite E in G; discriminate].
  - rewrite <- H. symmetry. apply parse_strict_same_failure; [discriminate | intros gs E; rewrite E in G; discriminate].
  - rewrite <- H. symmetry. apply parse_strict_same_failure; [discriminate | intros gs E; rewrite E in G; discriminate].
  - rewrite <- H. symmetry. apply parse_strict_same_failure; [discriminate | intros gs E; rewrite E in G; discriminate].
Qed.

Theorem parse_strict_then_lenient T simple s r :
  parse O T false true simple s = Ok r -> parse O T false false simple s = Ok r.
Proof.
  unfold parse. destruct (blank O s); [intro H; exact H|].
  destruct (parse_tokens O T true simple s) as [e| | | | |] eqn:P; simpl; try discriminate.
  intro H. rewrite (strict_then_lenient T simple s e P). exact H.
Qed.

End Strict.
