(* The matcher's words of a text depend only on its white-space separated parts: words s = the words of each part of
   s.split(), in order.  Hence ' '.join(s.split()) has the words of s (what Licensing stores for an alias has the words
   validate_symbols compared), whether or not the text bears parentheses. *)
Require Import Model.Base Model.Split.
Require Import Proofs.Strings Proofs.Split Proofs.Resplit.
From Coq Require Import Lia.

Ltac setif W v := match goal with |- context [if ?b then _ else _] => replace b with v by (symmetry; exact W) end.

Section WordsSpaces.
Variable O : oracle.
Hypothesis sp_is_space : is_space O 32%N = true.

(* the texts of the pieces, without their offsets *)
Fixpoint tsplit (k : cls) (acc : str) (s : str) : list str :=
  match s with
  | [] => [rev acc]
  | c :: s' =>
      if cls_eqb k (cls_of O c) && negb (cls_eqb k CParen)
      then tsplit k (c :: acc) s'
      else rev acc :: tsplit (cls_of O c) [c] s'
  end.

Lemma split_acc_texts : forall s start k acc pos, map ptext (split_acc O start k acc pos s) = tsplit k acc s.
Proof.
  induction s as [|c s IH]; intros start k acc pos; cbn [split_acc tsplit map ptext]; [reflexivity|].
  destruct (cls_eqb k (cls_of O c) && negb (cls_eqb k CParen)); [apply IH | cbn [map ptext]; f_equal; apply IH].
Qed.

Lemma filter_texts ps : map ptext (filter (is_word_piece O) ps) = filter (is_word_chunk O) (map ptext ps).
Proof.
  induction ps as [|p ps IH]; [reflexivity|]. cbn [filter map].
  change (is_word_chunk O (ptext p)) with (is_word_piece O p). destruct (is_word_piece O p); cbn [map]; rewrite IH; reflexivity.
Qed.

Definition wof (k : cls) (acc s : str) : list str := filter (is_word_chunk O) (tsplit k acc s).

Lemma words_wof c s : words O (c :: s) = wof (cls_of O c) [c] s.
Proof. unfold words, pieces, wof. rewrite filter_texts, split_acc_texts. reflexivity. Qed.

Lemma space_chunk acc : acc <> [] -> (forall c, In c acc -> is_space O c = true) -> is_word_chunk O (rev acc) = false.
Proof.
  intros Ha Hs. unfold is_word_chunk, wcls. destruct (rev acc) as [|x r] eqn:Er; [reflexivity|].
  assert (Hx : In x acc) by (apply in_rev; rewrite Er; left; reflexivity).
  unfold cls_of. rewrite (Hs x Hx). reflexivity.
Qed.

(* a run of white space being collected contributes no word *)
Lemma wof_space : forall s acc, acc <> [] -> (forall c, In c acc -> is_space O c = true) -> wof CSpace acc s = words O s.
Proof.
  induction s as [|d s IH]; intros acc Ha Hs.
  - unfold wof. cbn [tsplit filter]. setif (space_chunk acc Ha Hs) false. reflexivity.
  - unfold wof. cbn [tsplit]. destruct (is_space O d) eqn:Ed.
    + assert (Kd : cls_of O d = CSpace) by (unfold cls_of; rewrite Ed; reflexivity). rewrite Kd. cbn [cls_eqb andb negb].
      rewrite words_wof, Kd.
      change (wof CSpace (d :: acc) s = wof CSpace [d] s).
      rewrite (IH (d :: acc)), (IH [d]); [reflexivity | discriminate | intros c [<-|[]]; exact Ed | discriminate |].
      intros c [<-|Hc]; [exact Ed | apply Hs; exact Hc].
    + assert (Kd : cls_eqb CSpace (cls_of O d) = false) by (unfold cls_of; rewrite Ed; destruct (is_paren d); reflexivity).
      rewrite Kd. cbn [andb filter]. setif (space_chunk acc Ha Hs) false. rewrite words_wof. reflexivity.
Qed.

Lemma nonspace_cls d : is_space O d = false -> cls_of O d <> CSpace.
Proof. intro Ed. unfold cls_of. rewrite Ed. destruct (is_paren d); discriminate. Qed.

(* a space-free stretch followed by white space: the pieces of the stretch, then those of the rest *)
Lemma tsplit_word_space : forall u k acc c s, nospace O u -> is_space O c = true -> k <> CSpace ->
  tsplit k acc (u ++ c :: s) = tsplit k acc u ++ tsplit CSpace [c] s.
Proof.
  induction u as [|d u IH]; intros k acc c s Hu Hc Hk.
  - cbn [app tsplit]. assert (Kc : cls_of O c = CSpace) by (unfold cls_of; rewrite Hc; reflexivity). rewrite Kc.
    assert (E : cls_eqb k CSpace = false) by (destruct k; [contradiction | reflexivity | reflexivity]).
    rewrite E. reflexivity.
  - apply nospace_cons in Hu as [Hd Hu]. cbn [app tsplit].
    destruct (cls_eqb k (cls_of O d) && negb (cls_eqb k CParen)).
    + apply IH; assumption.
    + cbn [app]. f_equal. apply IH; [exact Hu | exact Hc | apply nonspace_cls; exact Hd].
Qed.

Lemma words_space_head c s : is_space O c = true -> words O (c :: s) = words O s.
Proof.
  intro Hc. rewrite words_wof. assert (Kc : cls_of O c = CSpace) by (unfold cls_of; rewrite Hc; reflexivity). rewrite Kc.
  apply wof_space; [discriminate | intros x [<-|[]]; exact Hc].
Qed.

Lemma words_word_space w c s : w <> [] -> nospace O w -> is_space O c = true -> words O (w ++ c :: s) = words O w ++ words O s.
Proof.
  intros Hw Hn Hc. destruct w as [|d u]; [contradiction|]. apply nospace_cons in Hn as [Hd Hu].
  cbn [app]. rewrite !words_wof. unfold wof. rewrite (tsplit_word_space u (cls_of O d) [d] c s Hu Hc (nonspace_cls d Hd)).
  rewrite filter_app. f_equal. apply (wof_space s [c]); [discriminate | intros x [<-|[]]; exact Hc].
Qed.

Lemma words_parts_acc : forall s acc, nospace O acc -> flat_map (words O) (split_ws_acc O acc s) = words O (rev acc ++ s).
Proof.
  induction s as [|c s IH]; intros acc Ha.
  - cbn [split_ws_acc]. rewrite app_nil_r. destruct acc as [|a acc']; [reflexivity|]. cbn [flat_map]. apply app_nil_r.
  - cbn [split_ws_acc]. destruct (is_space O c) eqn:Ec.
    + destruct acc as [|a acc'].
      * rewrite (IH [] Ha). change (rev [] ++ s) with s. change (rev [] ++ c :: s) with (c :: s). symmetry. apply words_space_head. exact Ec.
      * cbn [flat_map]. rewrite (IH [] eq_refl). change (rev [] ++ s) with s.
        symmetry. apply words_word_space; [|apply nospace_rev; exact Ha | exact Ec].
        intro E. apply (f_equal (@length N)) in E. rewrite rev_length in E. discriminate.
    + rewrite (IH (c :: acc)) by (apply nospace_cons; split; assumption). cbn [rev]. rewrite <- app_assoc. reflexivity.
Qed.

Theorem words_parts s : words O s = flat_map (words O) (split_ws O s).
Proof. unfold split_ws. rewrite (words_parts_acc s [] eq_refl). reflexivity. Qed.

Theorem words_join_parts ws : Forall (word O) ws -> words O (join_sp ws) = flat_map (words O) ws.
Proof. intro H. rewrite words_parts, (split_join O sp_is_space ws H). reflexivity. Qed.

(* ' '.join(s.split()) has the words of s *)
Theorem words_norm_spaces s : words O (norm_spaces O s) = words O s.
Proof. unfold norm_spaces. rewrite (words_join_parts _ (split_words O s)). symmetry. apply words_parts. Qed.

Corollary lwords_norm_spaces s : lwords O (norm_spaces O s) = lwords O s.
Proof. unfold lwords. rewrite words_norm_spaces. reflexivity. Qed.

End WordsSpaces.
