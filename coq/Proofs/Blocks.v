(* C02, from the segments to the parse: runs of unmatched pieces become one unknown license each, and
   a text whose blocks (stored names, unknown runs) spell a derivation of the grammar parses to its
   tree. *)
Require Import Model.Base Model.Expr Model.Split Model.Trie Model.Overlap Model.LicTok Model.BoolParse Model.Licensing.
Require Import Proofs.Symbol Proofs.Strings Proofs.Split Proofs.Overlap Proofs.Trie Proofs.Recognise Proofs.Cover Proofs.Select
               Proofs.WithGroup Proofs.SimpleAgree Proofs.Account Proofs.Segments Proofs.BoolParse.
From Coq Require Import Lia ZifyBool.
Open Scope Z_scope.

Section Blocks.
Variable O : oracle.
Hypothesis sp_is_space : is_space O 32%N = true.
Variable T : list entry.
Variable text : str.
Notation ltok := (Trie.tok kv).
Notation tr := (build_trie O T).
Notation P := (pieces O text).
Notation wps := (filter (is_word_piece O) (pieces O text)).

(* a stored name spelled by a run of pieces, or a run of pieces that no match touches *)
Inductive block := BM (g : list piece) (v : kv) | BU (g : list piece).
Definition bsegs (b : block) : list (@seg kv) := match b with BM g v => [SM g v] | BU g => map (@SU kv) g end.
Definition bpieces (b : block) : list piece := match b with BM g _ => g | BU g => g end.

Definition unk_tok (g : list piece) (sy : sym) : ltok :=
  {| tstart := lo g; tend := hi g; tstring := join_sp (map ptext g); tvalue := Some (VSym sy) |}.
Definition btok (b : block) : outcome ltok :=
  match b with
  | BM g v => Ok (occurrence_tok text g (last g dpiece) v)
  | BU g => obind (mk_symbol O (join_sp (map ptext g)) false) (fun sy => Ok (unk_tok g sy))
  end.

(* no two unknown runs in a row: an unknown run is maximal *)
Fixpoint separated (bs : list block) : Prop :=
  match bs with
  | BU _ :: ((BU _ :: _) as r) => False
  | _ :: r => separated r
  | [] => True
  end.

Definition run_ok (g : list piece) : Prop := g <> [] /\ Forall (wordp O text) g.

Lemma unmatched_nonblank p : wordp O text p -> tok_blank O (unmatched p : ltok) = false.
Proof.
  intro Hw. unfold tok_blank, unmatched. cbn [tstring]. destruct (wordp_word O text p Hw) as [Hne Hns].
  destruct (ptext p) as [|c r0]; [contradiction|]. unfold blank. cbn [forallb]. unfold nospace in Hns. cbn [forallb] in Hns.
  apply andb_true_iff in Hns as [Hc _]. apply negb_true_iff in Hc. rewrite Hc. reflexivity.
Qed.

(* pushing a run of unmatched tokens *)
Lemma push_run : forall g (ts unm : list ltok), Forall (wordp O text) g ->
  build_unknown O unm (map (fun p => unmatched p) g ++ ts) = build_unknown O (rev (map (fun p => unmatched p : ltok) g) ++ unm) ts.
Proof.
  induction g as [|p g IH]; intros ts unm Hw; [reflexivity|]. inversion Hw as [|? ? Hp Hg]; subst.
  cbn [map app].
  assert (E : build_unknown O unm ((unmatched p : ltok) :: map (fun p0 => unmatched p0) g ++ ts) =
              build_unknown O ((unmatched p : ltok) :: unm) (map (fun p0 => unmatched p0) g ++ ts)).
  { cbn [build_unknown]. change (tvalue (unmatched p : ltok)) with (@None kv). cbv iota.
    destruct unm; [rewrite (unmatched_nonblank p Hp); reflexivity | reflexivity]. }
  rewrite E. rewrite IH by exact Hg. cbn [rev]. rewrite <- app_assoc. reflexivity.
Qed.

(* flushing a pushed run gives the unknown license of the run *)
Lemma flush_run g : run_ok g ->
  flush_unknown O (rev (map (fun p => unmatched p : ltok) g)) =
  obind (mk_symbol O (join_sp (map ptext g)) false) (fun sy => Ok [unk_tok g sy]).
Proof.
  intros [Hne Hw]. destruct g as [|p0 g0] using rev_ind; [contradiction|]. clear IHg0.
  rewrite map_app, rev_app_distr. cbn [map rev app].
  rewrite flush_nonblank.
  - assert (Er : rev ((unmatched p0 : ltok) :: rev (map (fun p => unmatched p : ltok) g0)) = map (fun p => unmatched p : ltok) (g0 ++ [p0])).
    { cbn [rev]. rewrite rev_involutive, map_app. reflexivity. }
    rewrite Er. rewrite map_map. cbn [tstring unmatched].
    destruct (mk_symbol O (join_sp (map ptext (g0 ++ [p0]))) false) as [sy| | | | |]; try reflexivity. cbn [obind].
    unfold unk_tok, lo, hi. f_equal. f_equal. f_equal.
    + destruct g0; reflexivity.
    + rewrite last_last. reflexivity.
  - intros t Ht. rewrite Forall_forall in Hw. destruct Ht as [<-|Ht].
    + apply unmatched_nonblank. apply Hw. apply in_or_app. right; left; reflexivity.
    + apply in_rev in Ht. apply in_map_iff in Ht as [p [<- Hp]]. apply unmatched_nonblank. apply Hw. apply in_or_app. left; exact Hp.
Qed.

Lemma stok_bm g v : map (stok text) (bsegs (BM g v)) = [occurrence_tok text g (last g dpiece) v].
Proof. reflexivity. Qed.
Lemma stok_bu g : map (stok text) (bsegs (BU g)) = map (fun p => unmatched p : ltok) g.
Proof. cbn [bsegs]. rewrite map_map. reflexivity. Qed.

(* the unknown-run merger on the tokens of the blocks *)
Theorem build_unknown_blocks : forall n bs, (length bs <= n)%nat -> separated bs ->
  (forall g, In (BU g) bs -> run_ok g) ->
  build_unknown O [] (map (stok text) (flat_map bsegs bs)) = mapo btok bs.
Proof.
  induction n as [|n IH]; intros bs Hl Hs Hr.
  - destruct bs; [reflexivity | cbn in Hl; lia].
  - destruct bs as [|b bs]; [reflexivity|]. cbn [flat_map]. rewrite map_app.
    assert (Hl' : (length bs <= n)%nat) by (cbn in Hl; lia).
    destruct b as [g v|g].
    + rewrite stok_bm. cbn [app build_unknown tvalue occurrence_tok flush_unknown obind mapo btok].
      rewrite (IH bs Hl'); [|destruct bs as [|[]]; exact Hs | intros g' Hg'; apply Hr; right; exact Hg'].
      destruct (mapo btok bs); reflexivity.
    + assert (Hg : run_ok g) by (apply Hr; left; reflexivity). rewrite stok_bu.
      rewrite (push_run g _ [] (proj2 Hg)). rewrite app_nil_r.
      destruct bs as [|b' bs'].
      * cbn [flat_map map build_unknown mapo btok]. rewrite (flush_run g Hg).
        destruct (mk_symbol O (join_sp (map ptext g)) false); reflexivity.
      * destruct b' as [g' v'|g']; [|destruct Hs].
        cbn [flat_map]. rewrite map_app, stok_bm. cbn [app build_unknown tvalue occurrence_tok].
        rewrite (flush_run g Hg).
        rewrite (IH bs'); [|cbn in Hl; lia | destruct bs' as [|[]]; exact Hs | intros g0 Hg0; apply Hr; right; right; exact Hg0].
        cbn [mapo btok].
        destruct (mk_symbol O (join_sp (map ptext g)) false); try reflexivity. cbn [obind].
        destruct (mapo btok bs'); reflexivity.
Qed.


Lemma segs_pieces : forall bs, concat (map (@spieces kv) (flat_map bsegs bs)) = concat (map bpieces bs).
Proof.
  induction bs as [|b bs IH]; [reflexivity|]. cbn [flat_map map]. rewrite map_app, concat_app, IH. cbn [concat]. f_equal.
  destruct b as [g v|g]; cbn [bsegs bpieces map concat spieces]; [apply app_nil_r|].
  induction g as [|p g IHg]; [reflexivity|]. cbn [map concat spieces app]. rewrite IHg. reflexivity.
Qed.

Lemma in_segs_bm bs g v : In (SM g v) (flat_map bsegs bs) <-> In (BM g v) bs.
Proof.
  rewrite in_flat_map. split.
  - intros [b [Hb Hs]]. destruct b as [g' v'|g']; cbn [bsegs] in Hs.
    + destruct Hs as [E|[]]. inversion E; subst. exact Hb.
    + apply in_map_iff in Hs as [p [E _]]. discriminate.
  - intro H. exists (BM g v). split; [exact H | left; reflexivity].
Qed.

Lemma drop_blank_starts (l : list ltok) : (forall t, In t l -> starts_word O t) -> drop_blank O l = l.
Proof.
  intro H. unfold drop_blank. apply filter_all. intros t Ht. destruct (H t Ht) as [c0 [r0 [Es Hc]]]. rewrite Es.
  unfold tok_blank, blank. rewrite Es. cbn [forallb]. rewrite Hc. reflexivity.
Qed.

Lemma tok_or_nonempty : forall e, tok_or e <> [].
Proof.
  assert (Hp : forall p, tok_prim p <> []) by (intros [n i|il ir e]; cbn; discriminate).
  assert (Ha : forall a, tok_and a <> []).
  { intros [p|p i a]; cbn; [apply Hp|]. intro E. apply app_eq_nil in E as [_ E]. discriminate. }
  intros [a|a i e]; cbn; [apply Ha|]. intro E. apply app_eq_nil in E as [_ E]. discriminate.
Qed.

(* C02 at the level of the text: the blocks of the text spell a derivation of the grammar *)
Theorem parse_blocks_gen (blocks : list block) (ltoks : list ltok) (items : list item) (e0 : expr) :
  concat (map bpieces blocks) = wps ->
  (forall g v, In (BM g v) blocks -> g <> [] /\ exists sp, get_out (lws O g) (outs tr) = Some (sp, v)) ->
  (forall t, In t (t_iter O tr text) -> exists g v, In (BM g v) blocks /\ lo g <= tstart t /\ tend t <= hi g) ->
  (forall g, In (BU g) blocks -> g <> []) -> separated blocks ->
  mapo btok blocks = Ok ltoks -> ltoks = flat_map flat items -> Forall item_ok items ->
  blocks <> [] -> bparse (map (ptok_of O) items) = POk e0 ->
  parse_tokens O T false false text = Ok e0.
Proof.
  intros Hcat Hm Hin Hrun Hsep Htoks Hflat Hitems Hbne Hgram.
  set (segs := flat_map bsegs blocks).
  assert (S_cat : concat (map (@spieces kv) segs) = wps) by (unfold segs; rewrite segs_pieces; exact Hcat).
  assert (S_match : forall g v, In (SM g v) segs -> g <> [] /\ exists sp, get_out (lws O g) (outs tr) = Some (sp, v)).
  { intros g v H. apply in_segs_bm in H. apply Hm; exact H. }
  assert (S_inside : forall t, In t (t_iter O tr text) -> exists g v, In (SM g v) segs /\ lo g <= tstart t /\ tend t <= hi g).
  { intros t Ht. destruct (Hin t Ht) as [g [v [Hb R]]]. exists g, v. split; [apply in_segs_bm; exact Hb | exact R]. }
  pose proof (tokenize_segments O tr (build_trie_wf O T) text segs S_cat S_match S_inside) as Etok.
  (* the unknown runs are made of word pieces *)
  assert (Hruns : forall g, In (BU g) blocks -> run_ok g).
  { intros g Hg. split; [apply Hrun; exact Hg|]. apply Forall_forall. intros p Hp.
    assert (Hw : In p wps).
    { rewrite <- Hcat. apply in_concat. exists g. split; [|exact Hp]. change g with (bpieces (BU g)). apply in_map. exact Hg. }
    apply filter_In in Hw. exact Hw. }
  pose proof (build_unknown_blocks (length blocks) blocks (le_n _) Hsep Hruns) as Ebu. fold segs in Ebu. rewrite <- Etok in Ebu.
  (* every token after the merger starts with a non-space character *)
  assert (Hsw : forall t, In t ltoks -> starts_word O t).
  { intros t Ht. destruct (mapo_in btok blocks ltoks Htoks t Ht) as [b [Hb Eb]]. destruct b as [g v|g]; cbn [btok] in Eb.
    - inversion Eb; subst t.
      assert (Hit : In (occurrence_tok text g (last g dpiece) v) (t_iter O tr text)).
      { apply (seg_match_reported O tr (build_trie_wf O T) text segs S_cat S_match g v). apply in_segs_bm. exact Hb. }
      destruct (matched_group O tr (build_trie_wf O T) text _ Hit) as [_ [_ [_ [_ [_ [_ [Hs _]]]]]]]. exact Hs.
    - destruct (mk_symbol O (join_sp (map ptext g)) false) as [sy| | | | |]; try discriminate. cbn [obind] in Eb. inversion Eb; subst t.
      destruct (Hruns g Hb) as [Hne Hw].
      assert (Hww : Forall (word O) (map ptext g)).
      { apply Forall_forall. intros w Hin'. apply in_map_iff in Hin' as [p [<- Hp]]. apply (wordp_word O text). rewrite Forall_forall in Hw. apply Hw; exact Hp. }
      destruct (join_words_head O (map ptext g) Hww) as [c0 [r0 [Ej Hc0]]]; [destruct g; [contradiction | discriminate]|].
      exists c0, r0. cbn [tstring unk_tok]. split; assumption. }
  unfold parse_tokens, lic_tokenize.
  assert (Hne : text <> []).
  { intro E. assert (Hw : wps = []) by (rewrite E; reflexivity). rewrite <- Hcat in Hw.
    destruct blocks as [|b bs]; [contradiction|].
    - cbn [map concat] in Hw. apply app_eq_nil in Hw as [Hw _]. destruct b as [g v|g]; cbn [bpieces] in Hw.
      + apply (proj1 (Hm g v (or_introl eq_refl))). exact Hw.
      + apply (Hrun g (or_introl eq_refl)). exact Hw. }
  destruct text as [|c0 s0] eqn:Etext; [contradiction|]. rewrite <- Etext in *. cbn [obind].
  rewrite Ebu, Htoks. cbn [obind]. rewrite (drop_blank_starts ltoks Hsw). rewrite Hflat.
  rewrite (with_grouping_complete O items Hitems). cbn [obind]. rewrite Hgram. reflexivity.
Qed.

Theorem parse_blocks (blocks : list block) (ltoks : list ltok) (items : list item) (e : orx) :
  concat (map bpieces blocks) = wps ->
  (forall g v, In (BM g v) blocks -> g <> [] /\ exists sp, get_out (lws O g) (outs tr) = Some (sp, v)) ->
  (forall t, In t (t_iter O tr text) -> exists g v, In (BM g v) blocks /\ lo g <= tstart t /\ tend t <= hi g) ->
  (forall g, In (BU g) blocks -> g <> []) -> separated blocks ->
  mapo btok blocks = Ok ltoks -> ltoks = flat_map flat items -> Forall item_ok items ->
  map (ptok_of O) items = tok_or e ->
  parse_tokens O T false false text = Ok (tree_or e).
Proof.
  intros Hcat Hm Hin Hrun Hsep Htoks Hflat Hitems Hgram.
  apply (parse_blocks_gen blocks ltoks items (tree_or e)); try assumption.
  - intro E. subst blocks. cbn in Htoks. inversion Htoks as [Hl]. rewrite <- Hl in Hflat.
    destruct items as [|i items']; [cbn in Hgram; symmetry in Hgram; apply (tok_or_nonempty e Hgram)|].
    cbn in Hflat. destruct i; cbn in Hflat; discriminate.
  - rewrite Hgram. apply bparse_complete.
Qed.

End Blocks.
