(* C19: answers depend only on tables and inputs; expression objects are never changed. *)
Require Import Model.Base Model.Expr Model.Simplify Model.Split Model.Trie Model.Overlap Model.LicTok
               Model.BoolParse Model.Licensing Model.History.
From Coq Require Import Lia.

Section HistoryProofs.
Variable O : oracle.

Definition cache_ok (it : inst) : Prop := icache it = None \/ icache it = Some (build_trie O (itable it)).
Definition cache_inv (w : world) : Prop := Forall cache_ok (insts w).

Definition strip_inst (it : inst) : inst := {| itable := itable it; icache := None |}.
Definition strip (w : world) : world := {| insts := map strip_inst (insts w); exprs := exprs w |}.

Lemma strip_insts_idem l : map strip_inst (map strip_inst l) = map strip_inst l.
Proof. rewrite map_map. apply map_ext. reflexivity. Qed.
Lemma strip_idem w : strip (strip w) = strip w.
Proof. unfold strip. simpl. rewrite strip_insts_idem. reflexivity. Qed.

Lemma get_tokenizer_ok it : cache_ok it ->
  fst (get_tokenizer O it) = build_trie O (itable it) /\ cache_ok (snd (get_tokenizer O it)) /\
  itable (snd (get_tokenizer O it)) = itable it.
Proof.
  intros [H|H]; unfold get_tokenizer; rewrite H; simpl; repeat split; try reflexivity.
  - right. reflexivity.
  - right. exact H.
Qed.

Lemma nth_error_map_strip l i : nth_error (map strip_inst l) i = option_map strip_inst (nth_error l i).
Proof. revert i. induction l as [|x l IH]; intros [|i]; simpl; try reflexivity. apply IH. Qed.

Lemma set_nth_forall {A} (P : A -> Prop) : forall l n x, Forall P l -> P x -> Forall P (set_nth n x l).
Proof.
  induction l as [|y l IH]; intros n x H Hx; [destruct n; constructor|]. inversion H; subst.
  destruct n; simpl; constructor; try assumption. apply IH; assumption.
Qed.

Lemma set_nth_strip : forall l n it it', nth_error l n = Some it -> itable it' = itable it ->
  map strip_inst (set_nth n it' l) = map strip_inst l.
Proof.
  induction l as [|y l IH]; intros n it it' H Ht; [destruct n; discriminate|].
  destruct n; simpl in *.
  - inversion H; subst. unfold strip_inst. rewrite Ht. reflexivity.
  - f_equal. eapply IH; eassumption.
Qed.

Lemma push_expr_strip w ins ins' o :
  map strip_inst ins = map strip_inst ins' ->
  strip (fst (push_expr w ins o)) = strip (fst (push_expr (strip w) ins' o)) /\
  snd (push_expr w ins o) = snd (push_expr (strip w) ins' o).
Proof.
  intro H. destruct o as [[e|]| | | | |]; simpl; unfold strip; simpl; rewrite H; split; reflexivity.
Qed.

(* one step: same observation and same tables / expressions as on the cache-less world *)
Lemma step_strip w o : cache_inv w ->
  cache_inv (fst (step O w o)) /\
  strip (fst (step O w o)) = strip (fst (step O (strip w) o)) /\
  snd (step O w o) = snd (step O (strip w) o).
Proof.
  intro Inv. unfold cache_inv in *.
  assert (Same : Forall cache_ok (insts w) /\ strip w = strip (strip w) /\ forall ob : obs, ob = ob).
  { split; [exact Inv | split; [symmetry; apply strip_idem | reflexivity]]. }
  destruct o; cbn [step].
  - (* new instance *)
    destruct (new_licensing O raw) as [T| | | | |]; cbn [fst snd];
      try (split; [exact Inv | split; [symmetry; apply strip_idem | reflexivity]]).
    split; [apply Forall_app; split; [exact Inv | constructor; [left; reflexivity | constructor]]|].
    unfold strip. cbn [insts exprs]. rewrite !map_app, strip_insts_idem, map_length. split; reflexivity.
  - (* parse a text *)
    cbn [strip insts]. rewrite nth_error_map_strip. destruct (nth_error (insts w) i) as [it|] eqn:E; cbn [option_map].
    2:{ cbn [fst snd]. split; [exact Inv | split; [symmetry; apply (strip_idem w) | reflexivity]]. }
    assert (Hit : cache_ok it) by (rewrite Forall_forall in Inv; apply Inv; eapply nth_error_In; exact E).
    cbn [strip_inst itable].
    destruct (blank O s || simple || match s with [] => true | _ => false end) eqn:B.
    + destruct (push_expr_strip w (insts w) (map strip_inst (insts w)) (parse_tr O (itable it) (build_trie O (itable it)) validate strict simple s)) as [P1 P2].
      { symmetry. apply strip_insts_idem. }
      split; [|split; [exact P1 | exact P2]].
      destruct (parse_tr O (itable it) (build_trie O (itable it)) validate strict simple s) as [[e|]| | | | |]; exact Inv.
    + destruct (get_tokenizer_ok it Hit) as [G1 [G2 G3]].
      destruct (get_tokenizer O it) as [tr it'] eqn:EG. simpl in G1, G2, G3. subst tr.
      unfold get_tokenizer at 1. cbn [strip_inst icache itable].
      set (res := parse_tr O (itable it) (build_trie O (itable it)) validate strict simple s).
      destruct (push_expr_strip w (set_nth i it' (insts w))
                  (set_nth i {| itable := itable it; icache := Some (build_trie O (itable it)) |} (map strip_inst (insts w))) res) as [P1 P2].
      { rewrite (set_nth_strip (insts w) i it it' E G3).
        rewrite (set_nth_strip (map strip_inst (insts w)) i (strip_inst it) _).
        - symmetry. apply strip_insts_idem.
        - rewrite nth_error_map_strip, E. reflexivity.
        - reflexivity. }
      split; [|split; [exact P1 | exact P2]].
      assert (F : Forall cache_ok (set_nth i it' (insts w))) by (apply set_nth_forall; assumption).
      destruct res as [[e|]| | | | |]; exact F.
  - (* parse of an expression object *)
    cbn [strip insts exprs]. rewrite nth_error_map_strip. destruct (nth_error (insts w) i); cbn [option_map fst snd];
      destruct (nth_error (exprs w) h); cbn [fst snd]; (split; [exact Inv | split; [symmetry; apply (strip_idem w) | reflexivity]]).
  - cbn [strip insts exprs]. rewrite nth_error_map_strip. destruct (nth_error (insts w) i); cbn [option_map fst snd];
      destruct (nth_error (exprs w) h); cbn [fst snd]; (split; [exact Inv | split; [symmetry; apply (strip_idem w) | reflexivity]]).
  - cbn [strip insts exprs]. rewrite nth_error_map_strip. destruct (nth_error (insts w) i) as [it|]; cbn [option_map fst snd];
      destruct (nth_error (exprs w) h); cbn [fst snd strip_inst itable]; (split; [exact Inv | split; [symmetry; apply (strip_idem w) | reflexivity]]).
  - cbn [strip exprs]. destruct (nth_error (exprs w) h); cbn [fst snd];
      [|split; [exact Inv | split; [symmetry; apply (strip_idem w) | reflexivity]]].
    split; [exact Inv|]. unfold strip. cbn [insts exprs]. rewrite strip_insts_idem. split; reflexivity.
  - cbn [strip insts exprs]. rewrite nth_error_map_strip. destruct (nth_error (insts w) i) as [it|]; cbn [option_map];
      destruct (nth_error (exprs w) h) as [e|]; cbn [fst snd];
      try (split; [exact Inv | split; [symmetry; apply (strip_idem w) | reflexivity]]).
    destruct (push_expr_strip w (insts w) (map strip_inst (insts w)) (omap Some (dedup e))) as [P1 P2].
    { symmetry. apply strip_insts_idem. }
    split; [|split; [exact P1 | exact P2]].
    destruct (omap Some (dedup e)) as [[x|]| | | | |]; exact Inv.
  - cbn [strip insts exprs]. rewrite nth_error_map_strip. destruct (nth_error (insts w) i); cbn [option_map];
      destruct (nth_error (exprs w) h1); destruct (nth_error (exprs w) h2); cbn [fst snd];
      (split; [exact Inv | split; [symmetry; apply (strip_idem w) | reflexivity]]).
  - cbn [strip insts exprs]. rewrite nth_error_map_strip. destruct (nth_error (insts w) i); cbn [option_map];
      destruct (nth_error (exprs w) h1); destruct (nth_error (exprs w) h2); cbn [fst snd];
      (split; [exact Inv | split; [symmetry; apply (strip_idem w) | reflexivity]]).
  - cbn [strip exprs]. destruct (nth_error (exprs w) h); cbn [fst snd];
      (split; [exact Inv | split; [symmetry; apply (strip_idem w) | reflexivity]]).
Qed.

(* the system that never keeps a tokenizer: every call works on freshly built instances *)
Fixpoint run_fresh (w : world) (ops : list op) : list obs :=
  match ops with
  | [] => []
  | o :: ops' => let '(w1, ob) := step O (strip w) o in ob :: run_fresh w1 ops'
  end.

Lemma step_strip_eq w w' o : strip w = strip w' -> step O (strip w) o = step O (strip w') o.
Proof. intro H. rewrite H. reflexivity. Qed.

Lemma run_fresh_strip : forall ops w w', strip w = strip w' -> run_fresh w ops = run_fresh w' ops.
Proof.
  induction ops as [|o ops IH]; intros w w' H; [reflexivity|]. simpl. rewrite H. reflexivity.
Qed.

Theorem history_independent : forall ops w, cache_inv w -> snd (run O w ops) = run_fresh w ops.
Proof.
  induction ops as [|o ops IH]; intros w Inv; [reflexivity|].
  cbn [run run_fresh]. destruct (step_strip w o Inv) as [I1 [I2 I3]].
  destruct (step O w o) as [w1 ob] eqn:E1. destruct (step O (strip w) o) as [w1' ob'] eqn:E2.
  simpl in I1, I2, I3. subst ob'.
  destruct (run O w1 ops) as [w2 obs] eqn:E3. simpl. f_equal.
  rewrite <- (run_fresh_strip ops w1 w1' I2). rewrite <- IH by exact I1. rewrite E3. reflexivity.
Qed.

Corollary history_independent_init ops : snd (run O init ops) = run_fresh init ops.
Proof. apply history_independent. constructor. Qed.

(* expression objects: a step only appends; existing handles keep their value *)
Lemma push_expr_exprs w ins o : exists ext, exprs (fst (push_expr w ins o)) = exprs w ++ ext.
Proof. destruct o as [[e|]| | | | |]; simpl; try (exists []; rewrite app_nil_r; reflexivity). exists [e]. reflexivity. Qed.

Theorem exprs_append_only w o : exists ext, exprs (fst (step O w o)) = exprs w ++ ext.
Proof.
  destruct o; cbn [step].
  - destruct (new_licensing O raw); simpl; exists []; rewrite app_nil_r; reflexivity.
  - destruct (nth_error (insts w) i) as [it|]; [|exists []; rewrite app_nil_r; reflexivity].
    destruct (blank O s || simple || match s with [] => true | _ => false end); [apply push_expr_exprs|].
    destruct (get_tokenizer O it). apply push_expr_exprs.
  - destruct (nth_error (insts w) i), (nth_error (exprs w) h); exists []; rewrite app_nil_r; reflexivity.
  - destruct (nth_error (insts w) i), (nth_error (exprs w) h); exists []; rewrite app_nil_r; reflexivity.
  - destruct (nth_error (insts w) i), (nth_error (exprs w) h); exists []; rewrite app_nil_r; reflexivity.
  - destruct (nth_error (exprs w) h) as [e|]; [exists [simplify e]; reflexivity | exists []; rewrite app_nil_r; reflexivity].
  - destruct (nth_error (insts w) i), (nth_error (exprs w) h); try (exists []; rewrite app_nil_r; reflexivity). apply push_expr_exprs.
  - destruct (nth_error (insts w) i), (nth_error (exprs w) h1), (nth_error (exprs w) h2); exists []; rewrite app_nil_r; reflexivity.
  - destruct (nth_error (insts w) i), (nth_error (exprs w) h1), (nth_error (exprs w) h2); exists []; rewrite app_nil_r; reflexivity.
  - destruct (nth_error (exprs w) h); exists []; rewrite app_nil_r; reflexivity.
Qed.

Theorem exprs_immutable : forall ops w h e, nth_error (exprs w) h = Some e ->
  nth_error (exprs (fst (run O w ops))) h = Some e.
Proof.
  induction ops as [|o ops IH]; intros w h e H; [exact H|].
  cbn [run]. destruct (step O w o) as [w1 ob] eqn:E1. destruct (run O w1 ops) as [w2 obs] eqn:E2.
  simpl. specialize (IH w1 h e). rewrite E2 in IH. simpl in IH. apply IH.
  destruct (exprs_append_only w o) as [ext Hx]. rewrite E1 in Hx. simpl in Hx. rewrite Hx.
  rewrite nth_error_app1; [exact H | apply nth_error_Some; congruence].
Qed.

(* parsing an already parsed expression returns that very object and changes nothing *)
Theorem parse_identity w i h it e : nth_error (insts w) i = Some it -> nth_error (exprs w) h = Some e ->
  step O w (OParseExpr i h) = (w, ObExpr (Ok (Some h))).
Proof. intros H1 H2. cbn [step]. rewrite H1, H2. reflexivity. Qed.

End HistoryProofs.
