(* C06: simplify preserves the truth table and mentions no new license. *)
Require Import Model.Base Model.Expr Model.Simplify Proofs.Symbol Proofs.ExprEq.
From Coq Require Import Lia.

Definition evalop (v : atom -> bool) (o : bop) (xs : list expr) : bool :=
  match o with OpAnd => forallb (eval v) xs | OpOr => existsb (eval v) xs end.

Lemma eval_mk v o xs : eval v (mk o xs) = evalop v o xs.
Proof. destruct o; reflexivity. Qed.

Lemma evalop_app v o xs ys : evalop v o (xs ++ ys) = match o with OpAnd => evalop v o xs && evalop v o ys | OpOr => evalop v o xs || evalop v o ys end.
Proof. destruct o; simpl; [apply forallb_app | apply existsb_app]. Qed.

Lemma evalop_single v o x : evalop v o [x] = eval v x.
Proof. destruct o; simpl; [apply andb_true_r | apply orb_false_r]. Qed.

(* ---- flatten ---- *)
Lemma flatten_sound v o xs : evalop v o (flatten o xs) = evalop v o xs.
Proof.
  induction xs as [|x xs IH]; [reflexivity|].
  unfold flatten in *. simpl flat_map. rewrite evalop_app, IH.
  destruct o, x as [a|ys|ys]; simpl; rewrite ?andb_true_r, ?orb_false_r; reflexivity.
Qed.

(* ---- dedupe ---- *)
Lemma dedupe_acc_and v : forall xs acc,
  forallb (eval v) (dedupe_acc acc xs) = forallb (eval v) acc && forallb (eval v) xs.
Proof.
  induction xs as [|x xs IH]; intros acc; simpl; [rewrite andb_true_r; reflexivity|].
  destruct (existsb (fun y => expr_eqb y x) acc) eqn:E.
  - rewrite IH. apply existsb_exists in E as [y [Hy E]].
    destruct (forallb (eval v) acc) eqn:Ea; [|reflexivity]. simpl.
    rewrite forallb_forall in Ea. rewrite <- (expr_eqb_sound v y x E), (Ea y Hy). reflexivity.
  - rewrite IH, forallb_app. simpl. rewrite andb_true_r, andb_assoc. reflexivity.
Qed.
Lemma dedupe_acc_or v : forall xs acc,
  existsb (eval v) (dedupe_acc acc xs) = existsb (eval v) acc || existsb (eval v) xs.
Proof.
  induction xs as [|x xs IH]; intros acc; simpl; [rewrite orb_false_r; reflexivity|].
  destruct (existsb (fun y => expr_eqb y x) acc) eqn:E.
  - rewrite IH. apply existsb_exists in E as [y [Hy E]].
    destruct (eval v x) eqn:Ex; [|reflexivity]. simpl.
    assert (existsb (eval v) acc = true) as ->.
    { apply existsb_exists. exists y. split; [assumption|]. rewrite (expr_eqb_sound v y x E). exact Ex. }
    reflexivity.
  - rewrite IH, existsb_app. simpl. rewrite orb_false_r, orb_assoc. reflexivity.
Qed.
Lemma dedupe_sound v o xs : evalop v o (dedupe xs) = evalop v o xs.
Proof. destruct o; unfold dedupe; simpl; [rewrite dedupe_acc_and | rewrite dedupe_acc_or]; reflexivity. Qed.

(* ---- absorption ---- *)
Lemma existsb_eqb_eval v ys a :
  existsb (fun y => expr_eqb y a) ys = true -> exists y, In y ys /\ eval v y = eval v a.
Proof.
  intro H. apply existsb_exists in H as [y [Hy E]]. exists y. split; [exact Hy | apply expr_eqb_sound; exact E].
Qed.

Lemma absorbed_and v a t :
  absorbed_by OpAnd a t = true -> eval v a = true -> eval v t = true.
Proof.
  unfold absorbed_by. intros H Ha. apply andb_true_iff in H as [Hk Hin].
  destruct t as [ta|ys|ys]; simpl in Hk; try discriminate. simpl in Hin.
  apply orb_true_iff in Hin as [Hin|Hin].
  - destruct (existsb_eqb_eval v ys a Hin) as [y [Hy E]]. simpl. apply existsb_exists. exists y. split; [exact Hy | congruence].
  - destruct a as [aa|xs|xs]; try discriminate. simpl in Ha. apply existsb_exists in Ha as [x [Hx Ex]].
    rewrite forallb_forall in Hin. specialize (Hin x Hx).
    destruct (existsb_eqb_eval v ys x Hin) as [y [Hy E]]. simpl. apply existsb_exists. exists y. split; [exact Hy | congruence].
Qed.

Lemma absorbed_or v a t :
  absorbed_by OpOr a t = true -> eval v t = true -> eval v a = true.
Proof.
  unfold absorbed_by. intros H Ht. apply andb_true_iff in H as [Hk Hin].
  destruct t as [ta|ys|ys]; simpl in Hk; try discriminate. simpl in Hin. simpl in Ht. rewrite forallb_forall in Ht.
  apply orb_true_iff in Hin as [Hin|Hin].
  - destruct (existsb_eqb_eval v ys a Hin) as [y [Hy E]]. rewrite <- E. apply Ht; exact Hy.
  - destruct a as [aa|xs|xs]; try discriminate. simpl. apply forallb_forall. intros x Hx.
    rewrite forallb_forall in Hin. specialize (Hin x Hx).
    destruct (existsb_eqb_eval v ys x Hin) as [y [Hy E]]. rewrite <- E. apply Ht; exact Hy.
Qed.

Lemma filter_and_absorbed (f : expr -> bool) keep l fa :
  (forall t, In t l -> keep t = false -> fa = true -> f t = true) ->
  forallb f (filter keep l) && fa = forallb f l && fa.
Proof.
  intro H. destruct fa; [|rewrite !andb_false_r; reflexivity]. rewrite !andb_true_r.
  induction l as [|t l IH]; [reflexivity|]. simpl.
  destruct (keep t) eqn:K; simpl.
  - rewrite IH; [reflexivity|]. intros t' Ht'. apply H. right; exact Ht'.
  - rewrite (H t (or_introl eq_refl) K eq_refl). simpl. apply IH. intros t' Ht'. apply H. right; exact Ht'.
Qed.

Lemma filter_or_absorbed (f : expr -> bool) keep l fa :
  (forall t, In t l -> keep t = false -> f t = true -> fa = true) ->
  existsb f (filter keep l) || fa = existsb f l || fa.
Proof.
  intro H. destruct fa; [rewrite !orb_true_r; reflexivity|]. rewrite !orb_false_r.
  induction l as [|t l IH]; [reflexivity|]. simpl.
  destruct (keep t) eqn:K; simpl.
  - rewrite IH; [reflexivity|]. intros t' Ht'. apply H. right; exact Ht'.
  - destruct (f t) eqn:Ft.
    + specialize (H t (or_introl eq_refl) K Ft). discriminate.
    + simpl. apply IH. intros t' Ht'. apply H. right; exact Ht'.
Qed.

Lemma absorb_step_sound v o a done rest :
  let keep t := negb (absorbed_by o a t) in
  evalop v o ((filter keep done ++ [a]) ++ filter keep rest) = evalop v o (done ++ a :: rest).
Proof.
  intro keep. destruct o; simpl.
  - rewrite !forallb_app. simpl. rewrite andb_true_r.
    assert (K : forall l, forallb (eval v) (filter keep l) && eval v a = forallb (eval v) l && eval v a).
    { intro l. apply filter_and_absorbed. intros t _ Kt Ha. unfold keep in Kt. apply negb_false_iff in Kt.
      eapply absorbed_and; eassumption. }
    rewrite (K done). rewrite <- andb_assoc. rewrite (andb_comm (eval v a) (forallb (eval v) (filter keep rest))).
    rewrite (K rest). rewrite (andb_comm (forallb (eval v) rest)). reflexivity.
  - rewrite !existsb_app. simpl. rewrite orb_false_r.
    assert (K : forall l, existsb (eval v) (filter keep l) || eval v a = existsb (eval v) l || eval v a).
    { intro l. apply filter_or_absorbed. intros t _ Kt Ht. unfold keep in Kt. apply negb_false_iff in Kt.
      eapply absorbed_or; eassumption. }
    rewrite (K done). rewrite <- orb_assoc. rewrite (orb_comm (eval v a) (existsb (eval v) (filter keep rest))).
    rewrite (K rest). rewrite (orb_comm (existsb (eval v) rest)). reflexivity.
Qed.

Lemma absorb_loop_sound v o : forall fuel done todo,
  evalop v o (absorb_loop fuel o done todo) = evalop v o (done ++ todo).
Proof.
  induction fuel as [|fuel IH]; intros done todo; [reflexivity|].
  destruct todo as [|a rest]; [simpl; rewrite app_nil_r; reflexivity|].
  cbn [absorb_loop]. rewrite IH. apply absorb_step_sound.
Qed.

Lemma absorb_sound v o xs : evalop v o (absorb o xs) = evalop v o xs.
Proof. unfold absorb. rewrite absorb_loop_sound. reflexivity. Qed.

(* ---- sort ---- *)
Lemma insert_sorted_and (f : expr -> bool) x l : forallb f (insert_sorted x l) = f x && forallb f l.
Proof.
  induction l as [|y l IH]; [reflexivity|]. simpl. destruct (expr_ltb x y); simpl; [reflexivity|].
  rewrite IH. rewrite !andb_assoc. rewrite (andb_comm (f y)). reflexivity.
Qed.
Lemma insert_sorted_or (f : expr -> bool) x l : existsb f (insert_sorted x l) = f x || existsb f l.
Proof.
  induction l as [|y l IH]; [reflexivity|]. simpl. destruct (expr_ltb x y); simpl; [reflexivity|].
  rewrite IH. rewrite !orb_assoc. rewrite (orb_comm (f y)). reflexivity.
Qed.

Lemma sort_fold_and (f : expr -> bool) : forall xs acc,
  forallb f (fold_left (fun acc x => insert_sorted x acc) xs acc) = forallb f acc && forallb f xs.
Proof.
  induction xs as [|x xs IH]; intros acc; simpl; [rewrite andb_true_r; reflexivity|].
  rewrite IH, insert_sorted_and. rewrite (andb_comm (f x)), andb_assoc. reflexivity.
Qed.
Lemma sort_fold_or (f : expr -> bool) : forall xs acc,
  existsb f (fold_left (fun acc x => insert_sorted x acc) xs acc) = existsb f acc || existsb f xs.
Proof.
  induction xs as [|x xs IH]; intros acc; simpl; [rewrite orb_false_r; reflexivity|].
  rewrite IH, insert_sorted_or. rewrite (orb_comm (f x)), orb_assoc. reflexivity.
Qed.
Lemma sort_sound v o xs : evalop v o (sort_args xs) = evalop v o xs.
Proof. destruct o; unfold sort_args; simpl; [rewrite sort_fold_and | rewrite sort_fold_or]; reflexivity. Qed.

(* ---- one node ---- *)
Lemma finish_sound v o a1 :
  eval v (match absorb o a1 with [x] => x | a2 => mk o (sort_args a2) end) = evalop v o a1.
Proof.
  rewrite <- (absorb_sound v o a1). destruct (absorb o a1) as [|x [|y l]] eqn:E.
  - rewrite eval_mk. reflexivity.
  - symmetry. apply evalop_single.
  - rewrite eval_mk. apply sort_sound.
Qed.

Lemma simp_node_sound v o args : eval v (simp_node o args) = evalop v o args.
Proof.
  unfold simp_node.
  rewrite <- (flatten_sound v o args), <- (dedupe_sound v o (flatten o args)).
  destruct (dedupe (flatten o args)) as [|x [|y l]] eqn:E.
  - apply (finish_sound v o []).
  - symmetry. apply evalop_single.
  - apply (finish_sound v o (x :: y :: l)).
Qed.

Lemma evalop_map_ext v o (f : expr -> expr) xs :
  Forall (fun x => eval v (f x) = eval v x) xs -> evalop v o (map f xs) = evalop v o xs.
Proof.
  intro H. induction H as [|x xs Hx _ IH]; [reflexivity|].
  destruct o; simpl in *; rewrite Hx, IH; reflexivity.
Qed.

Theorem simplify_sound : forall v e, eval v (simplify e) = eval v e.
Proof.
  intro v. induction e as [a|xs IH|xs IH] using expr_ind'; [reflexivity| |].
  - cbn [simplify]. rewrite simp_node_sound. apply (evalop_map_ext v OpAnd simplify xs IH).
  - cbn [simplify]. rewrite simp_node_sound. apply (evalop_map_ext v OpOr simplify xs IH).
Qed.

(* ---- no new license ---- *)
Definition lits (xs : list expr) : list atom := flat_map literals xs.

Lemma literals_mk o xs : literals (mk o xs) = lits xs.
Proof. destruct o; reflexivity. Qed.

Lemma lits_incl xs ys : incl xs ys -> incl (lits xs) (lits ys).
Proof.
  intros H a Ha. apply in_flat_map in Ha as [x [Hx Ha]]. apply in_flat_map. exists x. split; [apply H; exact Hx | exact Ha].
Qed.

Lemma flatten_lits o xs : incl (lits (flatten o xs)) (lits xs).
Proof.
  induction xs as [|x xs IH]; [apply incl_refl|].
  unfold flatten, lits in *. simpl. rewrite flat_map_app. apply incl_app.
  - apply incl_appl. destruct (is_op o x) eqn:E.
    + destruct o, x; simpl in E; try discriminate; simpl; apply incl_refl.
    + simpl. rewrite app_nil_r. apply incl_refl.
  - apply incl_appr. exact IH.
Qed.

Lemma dedupe_acc_incl : forall xs acc, incl (dedupe_acc acc xs) (acc ++ xs).
Proof.
  induction xs as [|x xs IH]; intros acc; simpl.
  - rewrite app_nil_r. apply incl_refl.
  - destruct (existsb (fun y => expr_eqb y x) acc).
    + intros e He. apply IH in He. apply in_app_or in He as [He|He]; apply in_or_app; [left; exact He | right; right; exact He].
    + intros e He. apply IH in He. rewrite <- app_assoc in He. exact He.
Qed.
Lemma dedupe_incl xs : incl (dedupe xs) xs.
Proof. apply (dedupe_acc_incl xs []). Qed.

Lemma absorb_loop_incl o : forall fuel done todo, incl (absorb_loop fuel o done todo) (done ++ todo).
Proof.
  induction fuel as [|fuel IH]; intros done todo; [apply incl_refl|].
  destruct todo as [|a rest]; [simpl; rewrite app_nil_r; apply incl_refl|].
  cbn [absorb_loop]. intros e He. apply IH in He.
  apply in_app_or in He as [He|He].
  - apply in_app_or in He as [He|He].
    + apply filter_In in He as [He _]. apply in_or_app; left; exact He.
    + destruct He as [<-|[]]. apply in_or_app; right; left; reflexivity.
  - apply filter_In in He as [He _]. apply in_or_app; right; right; exact He.
Qed.
Lemma absorb_incl o xs : incl (absorb o xs) xs.
Proof. apply (absorb_loop_incl o (length xs) [] xs). Qed.

Lemma insert_sorted_incl x l : incl (insert_sorted x l) (x :: l).
Proof.
  induction l as [|y l IH]; [apply incl_refl|]. simpl. destruct (expr_ltb x y); [apply incl_refl|].
  intros e [<-|He]; [right; left; reflexivity|]. apply IH in He. destruct He as [<-|He]; [left; reflexivity | right; right; exact He].
Qed.
Lemma sort_fold_incl : forall xs acc, incl (fold_left (fun acc x => insert_sorted x acc) xs acc) (acc ++ xs).
Proof.
  induction xs as [|x xs IH]; intros acc; simpl; [rewrite app_nil_r; apply incl_refl|].
  intros e He. apply IH in He. apply in_app_or in He as [He|He].
  - apply insert_sorted_incl in He. destruct He as [<-|He]; apply in_or_app; [right; left; reflexivity | left; exact He].
  - apply in_or_app; right; right; exact He.
Qed.
Lemma sort_incl xs : incl (sort_args xs) xs.
Proof. apply (sort_fold_incl xs []). Qed.

Lemma finish_lits o a1 :
  incl (literals (match absorb o a1 with [x] => x | a2 => mk o (sort_args a2) end)) (lits a1).
Proof.
  pose proof (lits_incl _ _ (absorb_incl o a1)) as A2.
  destruct (absorb o a1) as [|x [|y l]] eqn:E.
  - rewrite literals_mk. intros ? [].
  - unfold lits in A2 at 1. simpl in A2. rewrite app_nil_r in A2. exact A2.
  - rewrite literals_mk. eapply incl_tran; [apply lits_incl, sort_incl | exact A2].
Qed.

Lemma simp_node_lits o args : incl (literals (simp_node o args)) (lits args).
Proof.
  unfold simp_node.
  assert (A1 : incl (lits (dedupe (flatten o args))) (lits args)).
  { eapply incl_tran; [apply lits_incl, dedupe_incl | apply flatten_lits]. }
  destruct (dedupe (flatten o args)) as [|x [|y l]] eqn:E.
  - eapply incl_tran; [apply (finish_lits o []) | exact A1].
  - unfold lits in A1 at 1. simpl in A1. rewrite app_nil_r in A1. exact A1.
  - eapply incl_tran; [apply (finish_lits o (x :: y :: l)) | exact A1].
Qed.

Theorem simplify_atoms : forall e, incl (literals (simplify e)) (literals e).
Proof.
  induction e as [a|xs IH|xs IH] using expr_ind'; [apply incl_refl| |].
  - cbn [simplify]. eapply incl_tran; [apply simp_node_lits|].
    simpl. unfold lits. rewrite flat_map_concat_map, map_map, <- flat_map_concat_map.
    intros a Ha. apply in_flat_map in Ha as [x [Hx Ha]]. apply in_flat_map. exists x. split; [exact Hx|].
    rewrite Forall_forall in IH. apply (IH x Hx). exact Ha.
  - cbn [simplify]. eapply incl_tran; [apply simp_node_lits|].
    simpl. unfold lits. rewrite flat_map_concat_map, map_map, <- flat_map_concat_map.
    intros a Ha. apply in_flat_map in Ha as [x [Hx Ha]]. apply in_flat_map. exists x. split; [exact Hx|].
    rewrite Forall_forall in IH. apply (IH x Hx). exact Ha.
Qed.
