(* C09: Licensing.dedup / combine_expressions on parsed expressions. *)
Require Import Model.Base Model.Expr Model.Simplify Model.LicTok Model.BoolParse Model.Licensing.
Require Import Proofs.Symbol.
From Coq Require Import Lia.

(* the children loop of dedup as a standalone function *)
Fixpoint dedup_children (l : list expr) : outcome (list expr) :=
  match l with
  | [] => Ok []
  | x :: l' => obind (match x with Lit _ => Ok x | _ => dedup x end) (fun x' =>
               obind (dedup_children l') (fun r => Ok (x' :: r)))
  end.

Lemma dedup_and xs : dedup (And xs) = obind (dedup_children xs) (fun ys => unsome (combine_parsed ys OpAnd true)).
Proof. reflexivity. Qed.
Lemma dedup_or xs : dedup (Or xs) = obind (dedup_children xs) (fun ys => unsome (combine_parsed ys OpOr true)).
Proof. reflexivity. Qed.

Lemma dedup_child_lit x : match x with Lit _ => Ok x | _ => dedup x end = dedup x.
Proof. destruct x; reflexivity. Qed.

Lemma nodup_snoc {A} (l : list A) x : NoDup l -> ~ In x l -> NoDup (l ++ [x]).
Proof.
  induction l as [|y l IH]; intros Hn Hx; simpl; [constructor; [intros [] | constructor]|].
  inversion Hn as [|? ? Hy Hl]; subst. constructor.
  - intro H. apply in_app_or in H as [H|[H|[]]]; [contradiction | subst; apply Hx; left; reflexivity].
  - apply IH; [exact Hl | intro H; apply Hx; right; exact H].
Qed.

(* ---- the dictionary keyed by rendering ---- *)
Definition keys (d : list (str * expr)) : list str := map fst d.

Lemma dict_by_str_spec : forall xs acc,
  NoDup (keys acc) -> (forall k x, In (k, x) acc -> render x = k) ->
  let d := dict_by_str acc xs in
  NoDup (keys d) /\ (forall k x, In (k, x) d -> render x = k) /\
  (forall k, In k (keys d) <-> In k (keys acc) \/ In k (map render xs)) /\
  (forall k x, In (k, x) d -> In (k, x) acc \/ In x xs) /\
  (length acc <= length d)%nat.
Proof.
  induction xs as [|x xs IH]; intros acc Hnd Hr; cbn [dict_by_str].
  - repeat split; auto; try tauto. intros [H|[]]; exact H.
  - set (k := render x).
    destruct (existsb (fun kv => str_eqb (fst kv) k) acc) eqn:E.
    + set (acc' := map (fun kv => if str_eqb (fst kv) k then (k, x) else kv) acc).
      assert (Hk' : keys acc' = keys acc).
      { unfold acc', keys. rewrite map_map. apply map_ext_in. intros [k0 x0] _. simpl.
        destruct (str_eqb k0 k) eqn:E0; [apply str_eqb_eq in E0; subst; reflexivity | reflexivity]. }
      assert (Hr' : forall k0 x0, In (k0, x0) acc' -> render x0 = k0).
      { intros k0 x0 Hin. unfold acc' in Hin. apply in_map_iff in Hin as [[k1 x1] [Heq Hin]]. simpl in Heq.
        destruct (str_eqb k1 k); inversion Heq; subst; [reflexivity | eapply Hr; exact Hin]. }
      assert (Hnd' : NoDup (keys acc')) by (rewrite Hk'; exact Hnd).
      destruct (IH acc' Hnd' Hr') as [I1 [I2 [I3 [I4 I5]]]]. repeat split; try assumption.
      * intro H. apply I3 in H as [H|H]; [left; rewrite <- Hk'; exact H | right; right; exact H].
      * intros [H|[H|H]].
        -- apply I3. left. rewrite Hk'. exact H.
        -- apply I3. left. rewrite Hk'. subst k0. apply existsb_exists in E as [[k1 x1] [Hin E1]]. simpl in E1.
           apply str_eqb_eq in E1. subst k1. unfold keys. apply in_map_iff. exists (k, x1). split; [reflexivity | exact Hin].
        -- apply I3. right. exact H.
      * intros k0 x0 Hin. apply I4 in Hin as [Hin|Hin]; [|right; right; exact Hin].
        unfold acc' in Hin. apply in_map_iff in Hin as [[k1 x1] [Heq Hin]]. simpl in Heq.
        destruct (str_eqb k1 k); inversion Heq; subst; [right; left; reflexivity | left; exact Hin].
      * unfold acc' in I5. rewrite map_length in I5. exact I5.
    + assert (Hnk : ~ In k (keys acc)).
      { intro Hin. unfold keys in Hin. apply in_map_iff in Hin as [[k1 x1] [Heq Hin]]. simpl in Heq. subst k1.
        assert (existsb (fun kv => str_eqb (fst kv) k) acc = true).
        { apply existsb_exists. exists (k, x1). split; [exact Hin | apply str_eqb_refl]. } congruence. }
      assert (Hnd' : NoDup (keys (acc ++ [(k, x)]))).
      { unfold keys. rewrite map_app. simpl. apply nodup_snoc; [exact Hnd | exact Hnk]. }
      assert (Hr' : forall k0 x0, In (k0, x0) (acc ++ [(k, x)]) -> render x0 = k0).
      { intros k0 x0 Hin. apply in_app_or in Hin as [Hin|[Heq|[]]]; [eapply Hr; exact Hin | inversion Heq; subst; reflexivity]. }
      destruct (IH (acc ++ [(k, x)]) Hnd' Hr') as [I1 [I2 [I3 [I4 I5]]]]. repeat split; try assumption.
      * intro H. apply I3 in H as [H|H]; [|right; right; exact H].
        unfold keys in H. rewrite map_app in H. apply in_app_or in H as [H|[H|[]]]; [left; exact H | right; left; exact H].
      * intros [H|[H|H]]; apply I3.
        -- left. unfold keys. rewrite map_app. apply in_or_app. left; exact H.
        -- left. unfold keys. rewrite map_app. apply in_or_app. right. left. exact H.
        -- right. exact H.
      * intros k0 x0 Hin. apply I4 in Hin as [Hin|Hin]; [|right; right; exact Hin].
        apply in_app_or in Hin as [Hin|[Heq|[]]]; [left; exact Hin | inversion Heq; subst; right; left; reflexivity].
      * rewrite app_length in I5. simpl in I5. lia.
Qed.

Lemma uniq_facts xs :
  NoDup (map render (uniq_by_str xs)) /\
  (forall y, In y (uniq_by_str xs) -> In y xs) /\
  (forall x, In x xs -> exists y, In y (uniq_by_str xs) /\ render y = render x) /\
  (xs <> [] -> uniq_by_str xs <> []).
Proof.
  unfold uniq_by_str.
  destruct (dict_by_str_spec xs [] (NoDup_nil _) ltac:(intros ? ? [])) as [I1 [I2 [I3 [I4 I5]]]].
  set (d := dict_by_str [] xs) in *.
  assert (Hk : map render (map snd d) = keys d).
  { unfold keys. rewrite map_map. apply map_ext_in. intros [k x] Hin. simpl. apply I2; exact Hin. }
  split; [rewrite Hk; exact I1|]. split; [|split].
  - intros y Hy. apply in_map_iff in Hy as [[k x] [<- Hin]]. simpl. apply I4 in Hin as [[]|Hin]; exact Hin.
  - intros x Hx. assert (Hin : In (render x) (keys d)) by (apply I3; right; apply in_map; exact Hx).
    unfold keys in Hin. apply in_map_iff in Hin as [[k y] [Hk1 Hin]]. simpl in Hk1. subst k.
    exists y. split; [apply in_map_iff; exists (render x, y); split; [reflexivity | exact Hin] | apply I2; exact Hin].
  - intros Hne E. destruct xs as [|x xs]; [contradiction|].
    assert (Hin : In (render x) (keys d)) by (apply I3; right; left; reflexivity).
    unfold keys in Hin. destruct d; [destruct Hin | discriminate].
Qed.

(* a list whose renderings are pairwise different is left as it is *)
Lemma dict_by_str_distinct : forall xs acc,
  NoDup (keys acc ++ map render xs) ->
  dict_by_str acc xs = acc ++ map (fun x => (render x, x)) xs.
Proof.
  induction xs as [|x xs IH]; intros acc H; cbn [dict_by_str map]; [rewrite app_nil_r; reflexivity|].
  assert (Hnk : ~ In (render x) (keys acc)).
  { intro Hin. apply NoDup_remove_2 in H. apply H. apply in_or_app. left; exact Hin. }
  assert (E : existsb (fun kv => str_eqb (fst kv) (render x)) acc = false).
  { destruct (existsb _ acc) eqn:E; [|reflexivity]. exfalso. apply Hnk.
    apply existsb_exists in E as [[k y] [Hin E1]]. simpl in E1. apply str_eqb_eq in E1. subst k.
    unfold keys. apply in_map_iff. exists (render x, y). split; [reflexivity | exact Hin]. }
  rewrite E. rewrite IH.
  - rewrite <- app_assoc. reflexivity.
  - unfold keys in *. rewrite map_app. simpl. rewrite <- app_assoc. simpl.
    replace (map fst acc ++ render x :: map render xs) with (map fst acc ++ [render x] ++ map render xs) in H by reflexivity.
    exact H.
Qed.

Lemma uniq_distinct xs : NoDup (map render xs) -> uniq_by_str xs = xs.
Proof.
  intro H. unfold uniq_by_str. rewrite dict_by_str_distinct by exact H. simpl.
  rewrite map_map. simpl. apply map_id.
Qed.

(* ---- truth tables: valuations that cannot tell identically rendered expressions apart ---- *)
Definition respects (v : atom -> bool) : Prop := forall x y, render x = render y -> eval v x = eval v y.

Lemma uniq_forallb v xs : respects v -> forallb (eval v) (uniq_by_str xs) = forallb (eval v) xs.
Proof.
  intro R. destruct (uniq_facts xs) as [_ [U2 [U3 _]]].
  destruct (forallb (eval v) xs) eqn:E.
  - apply forallb_forall. intros y Hy. rewrite forallb_forall in E. apply E, U2, Hy.
  - destruct (forallb (eval v) (uniq_by_str xs)) eqn:E2; [|reflexivity].
    assert (forallb (eval v) xs = true); [|congruence].
    apply forallb_forall. intros x Hx. destruct (U3 x Hx) as [y [Hy Hr]].
    rewrite forallb_forall in E2. rewrite <- (R y x Hr). apply E2, Hy.
Qed.
Lemma uniq_existsb v xs : respects v -> existsb (eval v) (uniq_by_str xs) = existsb (eval v) xs.
Proof.
  intro R. destruct (uniq_facts xs) as [_ [U2 [U3 _]]].
  destruct (existsb (eval v) xs) eqn:E.
  - apply existsb_exists in E as [x [Hx Ex]]. destruct (U3 x Hx) as [y [Hy Hr]].
    apply existsb_exists. exists y. split; [exact Hy | rewrite (R y x Hr); exact Ex].
  - destruct (existsb (eval v) (uniq_by_str xs)) eqn:E2; [|reflexivity].
    apply existsb_exists in E2 as [y [Hy Ey]].
    assert (existsb (eval v) xs = true) by (apply existsb_exists; exists y; split; [apply U2, Hy | exact Ey]). congruence.
Qed.

Lemma combine_eval v ys o e : respects v -> combine_parsed ys o true = Ok (Some e) ->
  eval v e = match o with OpAnd => forallb (eval v) ys | OpOr => existsb (eval v) ys end.
Proof.
  intros R H. unfold combine_parsed in H. destruct ys as [|y0 ys0]; [discriminate|].
  set (ys := y0 :: ys0) in *.
  assert (Hu : match o with OpAnd => forallb (eval v) (uniq_by_str ys) | OpOr => existsb (eval v) (uniq_by_str ys) end
               = match o with OpAnd => forallb (eval v) ys | OpOr => existsb (eval v) ys end).
  { destruct o; [apply uniq_forallb | apply uniq_existsb]; exact R. }
  rewrite <- Hu. destruct (uniq_by_str ys) as [|u [|u2 us]].
  - destruct o; simpl in H; discriminate.
  - inversion H; subst. destruct o; simpl; [rewrite andb_true_r | rewrite orb_false_r]; reflexivity.
  - destruct o; simpl in H; inversion H; subst; reflexivity.
Qed.

Lemma dedup_children_eval v : forall xs ys,
  Forall (fun x => forall x', dedup x = Ok x' -> eval v x' = eval v x) xs ->
  dedup_children xs = Ok ys ->
  forallb (eval v) ys = forallb (eval v) xs /\ existsb (eval v) ys = existsb (eval v) xs.
Proof.
  induction xs as [|x xs IH]; intros ys HF H; simpl in H.
  - inversion H; subst. split; reflexivity.
  - inversion HF as [|? ? Hx Hr]; subst. rewrite dedup_child_lit in H.
    destruct (dedup x) as [x'| | | | |] eqn:Ex; simpl in H; try discriminate.
    destruct (dedup_children xs) as [r| | | | |] eqn:Er; simpl in H; try discriminate.
    inversion H; subst. destruct (IH r Hr eq_refl) as [I1 I2]. simpl. rewrite (Hx x' eq_refl), I1, I2. split; reflexivity.
Qed.

Theorem dedup_truth v : respects v -> forall e e', dedup e = Ok e' -> eval v e' = eval v e.
Proof.
  intro R. induction e as [a|xs IH|xs IH] using expr_ind'; intros e' H.
  - simpl in H. inversion H; subst. reflexivity.
  - rewrite dedup_and in H. destruct (dedup_children xs) as [ys| | | | |] eqn:E; simpl in H; try discriminate.
    destruct (dedup_children_eval v xs ys IH E) as [I1 _].
    unfold unsome in H. destruct (combine_parsed ys OpAnd true) as [[c|]| | | | |] eqn:C; simpl in H; try discriminate.
    inversion H; subst. rewrite (combine_eval v ys OpAnd e' R C). simpl. exact I1.
  - rewrite dedup_or in H. destruct (dedup_children xs) as [ys| | | | |] eqn:E; simpl in H; try discriminate.
    destruct (dedup_children_eval v xs ys IH E) as [_ I2].
    unfold unsome in H. destruct (combine_parsed ys OpOr true) as [[c|]| | | | |] eqn:C; simpl in H; try discriminate.
    inversion H; subst. rewrite (combine_eval v ys OpOr e' R C). simpl. exact I2.
Qed.

(* the known finding: without that proviso the truth table can change *)
Example dedup_truth_refuted :
  let a := {| key := [97%N]; exc := false |} in
  let ax := {| key := [97%N]; exc := true |} in
  let e := Or [Lit (Plain ax); Lit (Plain a)] in
  let v := fun x => match x with Plain s => exc s | _ => false end in
  dedup e = Ok (Lit (Plain a)) /\ eval v e = true /\ eval v (Lit (Plain a)) = false.
Proof. vm_compute. repeat split. Qed.

(* ---- totality on well-formed expressions and idempotence ---- *)
Definition deduped_list (ys : list expr) : Prop := NoDup (map render ys).

Inductive deduped : expr -> Prop :=
  | dd_lit a : deduped (Lit a)
  | dd_and ys : (2 <= length ys)%nat -> deduped_list ys -> Forall deduped ys -> deduped (And ys)
  | dd_or ys : (2 <= length ys)%nat -> deduped_list ys -> Forall deduped ys -> deduped (Or ys).

Lemma combine_deduped ys o : ys <> [] -> Forall deduped ys ->
  exists e, combine_parsed ys o true = Ok (Some e) /\ deduped e.
Proof.
  intros Hne HF. unfold combine_parsed. destruct ys as [|y0 ys0]; [contradiction|]. set (ys := y0 :: ys0) in *.
  destruct (uniq_facts ys) as [U1 [U2 [_ U4]]]. specialize (U4 Hne).
  assert (HFu : Forall deduped (uniq_by_str ys)).
  { apply Forall_forall. intros y Hy. rewrite Forall_forall in HF. apply HF, U2, Hy. }
  destruct (uniq_by_str ys) as [|u [|u2 us]] eqn:Eu; [contradiction| |].
  - exists u. split; [reflexivity|]. inversion HFu; assumption.
  - destruct o; simpl.
    + exists (And (u :: u2 :: us)). split; [reflexivity|]. constructor; [simpl; lia | exact U1 | exact HFu].
    + exists (Or (u :: u2 :: us)). split; [reflexivity|]. constructor; [simpl; lia | exact U1 | exact HFu].
Qed.

Lemma dedup_children_total : forall xs,
  Forall (fun x => exists x', dedup x = Ok x' /\ deduped x') xs ->
  exists ys, dedup_children xs = Ok ys /\ Forall deduped ys /\ length ys = length xs.
Proof.
  induction xs as [|x xs IH]; intro HF; [exists []; repeat split; constructor|].
  inversion HF as [|? ? [x' [Hx Dx]] Hr]; subst. destruct (IH Hr) as [ys [E [D L]]].
  exists (x' :: ys). cbn [dedup_children]. rewrite dedup_child_lit, Hx. cbn [obind]. rewrite E. cbn [obind].
  repeat split; [constructor; assumption | simpl; lia].
Qed.

Theorem dedup_total : forall e, wf e = true -> exists e', dedup e = Ok e' /\ deduped e'.
Proof.
  induction e as [a|xs IH|xs IH] using expr_ind'; intro Wf.
  - exists (Lit a). split; [reflexivity | constructor].
  - cbn [wf] in Wf. apply andb_true_iff in Wf as [Wl Wx]. apply Nat.leb_le in Wl.
    assert (HF : Forall (fun x => exists x', dedup x = Ok x' /\ deduped x') xs).
    { apply Forall_forall. intros x Hx. rewrite Forall_forall in IH. apply IH; [exact Hx|]. rewrite forallb_forall in Wx. apply Wx, Hx. }
    destruct (dedup_children_total xs HF) as [ys [E [D L]]].
    destruct (combine_deduped ys OpAnd ltac:(destruct ys; [simpl in L; lia | discriminate]) D) as [e [C De]].
    exists e. rewrite dedup_and, E. cbn [obind]. unfold unsome. rewrite C. split; [reflexivity | exact De].
  - cbn [wf] in Wf. apply andb_true_iff in Wf as [Wl Wx]. apply Nat.leb_le in Wl.
    assert (HF : Forall (fun x => exists x', dedup x = Ok x' /\ deduped x') xs).
    { apply Forall_forall. intros x Hx. rewrite Forall_forall in IH. apply IH; [exact Hx|]. rewrite forallb_forall in Wx. apply Wx, Hx. }
    destruct (dedup_children_total xs HF) as [ys [E [D L]]].
    destruct (combine_deduped ys OpOr ltac:(destruct ys; [simpl in L; lia | discriminate]) D) as [e [C De]].
    exists e. rewrite dedup_or, E. cbn [obind]. unfold unsome. rewrite C. split; [reflexivity | exact De].
Qed.

Lemma dedup_children_fixed : forall ys, Forall (fun y => dedup y = Ok y) ys -> dedup_children ys = Ok ys.
Proof.
  induction ys as [|y ys IH]; intro HF; [reflexivity|]. inversion HF as [|? ? Hy Hr]; subst.
  cbn [dedup_children]. rewrite dedup_child_lit, Hy. cbn [obind]. rewrite (IH Hr). reflexivity.
Qed.

Theorem deduped_fixed : forall e, deduped e -> dedup e = Ok e.
Proof.
  induction e as [a|ys IH|ys IH] using expr_ind'; intro D; [reflexivity| |].
  - inversion D as [|? Hl Hd HF|]; subst. rewrite dedup_and.
    assert (HF' : Forall (fun y => dedup y = Ok y) ys).
    { apply Forall_forall. intros y Hy. rewrite Forall_forall in IH, HF. apply IH; [exact Hy | apply HF, Hy]. }
    rewrite (dedup_children_fixed ys HF'). cbn [obind]. unfold unsome, combine_parsed.
    destruct ys as [|y0 [|y1 ys']]; try (simpl in Hl; lia). rewrite (uniq_distinct _ Hd). reflexivity.
  - inversion D as [| |? Hl Hd HF]; subst. rewrite dedup_or.
    assert (HF' : Forall (fun y => dedup y = Ok y) ys).
    { apply Forall_forall. intros y Hy. rewrite Forall_forall in IH, HF. apply IH; [exact Hy | apply HF, Hy]. }
    rewrite (dedup_children_fixed ys HF'). cbn [obind]. unfold unsome, combine_parsed.
    destruct ys as [|y0 [|y1 ys']]; try (simpl in Hl; lia). rewrite (uniq_distinct _ Hd). reflexivity.
Qed.

Theorem dedup_idempotent e e' : wf e = true -> dedup e = Ok e' -> dedup e' = Ok e'.
Proof.
  intros Wf H. destruct (dedup_total e Wf) as [e2 [H2 D]]. rewrite H in H2. inversion H2; subst. apply deduped_fixed; exact D.
Qed.

(* in the result no node has two operands with the same rendering, at any depth *)
Theorem dedup_no_repeats e e' : wf e = true -> dedup e = Ok e' -> deduped e'.
Proof. intros Wf H. destruct (dedup_total e Wf) as [e2 [H2 D]]. rewrite H in H2. inversion H2; subst. exact D. Qed.

(* combine_expressions: relation other than AND / OR is refused with TypeError, never another error *)
Theorem combine_refuses O l u : l <> [] -> combine_texts O l RelBad u = TypeErr.
Proof. intro H. unfold combine_texts. destruct l; [contradiction | reflexivity]. Qed.
