(* C20: with the statement order "check, build locally, publish last", under every interleaving
   every completed call obtains a complete tokenizer. *)
Require Import Model.Base Model.Threads.
From Coq Require Import Lia Arith.

Lemma shape_form p : shape_safe p = true ->
  exists k, p = IRead :: IAlloc :: repeat IAdd (S k) ++ [IFinalize; IPublish; IReturn].
Proof.
  unfold shape_safe. destruct p as [|[] [|[] [|[] rest]]]; try discriminate.
  intro H. assert (G : exists k, rest = repeat IAdd k ++ [IFinalize; IPublish; IReturn]).
  { clear -H. induction rest as [|i rest IH]; [discriminate|]. destruct i; simpl in H.
    - discriminate.
    - discriminate.
    - destruct (IH H) as [k ->]. exists (S k). reflexivity.
    - destruct rest as [|[] [|[] [|? ?]]]; try discriminate. exists 0. reflexivity.
    - discriminate.
    - discriminate. }
  destruct G as [k ->]. exists k. reflexivity.
Qed.

Lemma upd_nth {A} : forall (l : list A) n f m,
  nth_error (upd n f l) m = if m =? n then option_map f (nth_error l m) else nth_error l m.
Proof.
  induction l as [|x l IH]; intros n f m; simpl.
  - destruct n; destruct (m =? _); destruct m; reflexivity.
  - destruct n as [|n]; destruct m as [|m]; simpl; try reflexivity. apply IH.
Qed.

Lemma Forall_upd {A} (Q : A -> Prop) : forall l n f, Forall Q l -> (forall x, nth_error l n = Some x -> Q (f x)) -> Forall Q (upd n f l).
Proof.
  induction l as [|x l IH]; intros n f H Hf; [destruct n; constructor|].
  inversion H; subst. destruct n; simpl; constructor; try assumption.
  - apply Hf. reflexivity.
  - apply IH; [assumption | intros y Hy; apply Hf; exact Hy].
Qed.

Section Safe.
Variable k : nat.
Definition P : prog := IRead :: IAlloc :: repeat IAdd (S k) ++ [IFinalize; IPublish; IReturn].

Lemma nadds_P : nadds P = S k.
Proof.
  unfold nadds, P. cbn [filter instr_eqb]. rewrite filter_app. cbn [filter instr_eqb]. rewrite app_nil_r.
  assert (H : forall j, filter (instr_eqb IAdd) (repeat IAdd j) = repeat IAdd j).
  { induction j as [|j IH]; [reflexivity|]. simpl. rewrite IH. reflexivity. }
  rewrite H, repeat_length. reflexivity.
Qed.

(* the statement at each program counter *)
Lemma nth_P_adds n : 2 <= n <= 2 + k -> nth_error P n = Some IAdd.
Proof.
  intro H. unfold P. destruct n as [|[|n]]; try lia. cbn [nth_error].
  rewrite nth_error_app1 by (rewrite repeat_length; lia).
  destruct (nth_error (repeat IAdd (S k)) n) eqn:E.
  - apply nth_error_In in E. apply repeat_spec in E. subst. reflexivity.
  - apply nth_error_None in E. rewrite repeat_length in E. lia.
Qed.
Lemma nth_P_tail n j : n = 3 + k + j -> nth_error P n = nth_error [IFinalize; IPublish; IReturn] j.
Proof.
  intro H. subst n. unfold P. change (nth_error (repeat IAdd (S k) ++ [IFinalize; IPublish; IReturn]) (S (k + j)) = nth_error [IFinalize; IPublish; IReturn] j).
  rewrite nth_error_app2 by (rewrite repeat_length; lia).
  rewrite repeat_length. replace (S (k + j) - S k) with j by lia. reflexivity.
Qed.

(* what the program counter of a thread says about its own tokenizer *)
Definition local_ok (th : thread) : Prop :=
  pc th <= 5 + k /\
  (2 <= pc th <= 3 + k -> allocated th = true /\ adds th = pc th - 2 /\ fin th = false) /\
  (4 + k <= pc th -> allocated th = true /\ adds th = S k /\ fin th = true) /\
  (result th = None \/ result th = Some true).

Definition inv (g : gstate) : Prop :=
  Forall local_ok (threads g) /\
  (forall j, slot g = Some j -> exists th, nth_error (threads g) j = Some th /\ 5 + k <= pc th).

Lemma complete_past th : local_ok th -> 4 + k <= pc th -> complete P th = true.
Proof.
  intros [_ [_ [H _]]] Hp. destruct (H Hp) as [A [B C]]. unfold complete. rewrite A, B, C, nadds_P, Nat.eqb_refl. reflexivity.
Qed.

Lemma inv_start n : inv (start n).
Proof.
  split; [|intros j H; discriminate]. apply Forall_forall. intros th Hin. apply repeat_spec in Hin. subst.
  unfold local_ok. simpl. repeat split; try lia. left; reflexivity.
Qed.

Theorem tstep_inv g t : inv g -> inv (tstep P g t).
Proof.
  intros [HL HS]. unfold tstep. destruct (nth_error (threads g) t) as [th|] eqn:Et; [|split; assumption].
  destruct (result th) eqn:Er; [split; assumption|].
  assert (Hth : local_ok th) by (rewrite Forall_forall in HL; apply HL; eapply nth_error_In; exact Et).
  destruct Hth as [Hpc [Hmid [Hend Hres]]].
  destruct (nth_error P (pc th)) as [i|] eqn:Ei; [|split; assumption].
  (* which statement is at pc *)
  assert (Cases : (pc th = 0 /\ i = IRead) \/ (pc th = 1 /\ i = IAlloc) \/ (2 <= pc th <= 2 + k /\ i = IAdd) \/
                  (pc th = 3 + k /\ i = IFinalize) \/ (pc th = 4 + k /\ i = IPublish) \/ (pc th = 5 + k /\ i = IReturn)).
  { destruct (pc th) as [|[|n]] eqn:Epc.
    - left. unfold P in Ei. simpl in Ei. inversion Ei. split; reflexivity.
    - right. left. unfold P in Ei. simpl in Ei. inversion Ei. split; reflexivity.
    - destruct (le_lt_dec (S (S n)) (2 + k)) as [L|L].
      + right. right. left. rewrite nth_P_adds in Ei by lia. inversion Ei. split; [lia | reflexivity].
      + right. right. right. rewrite (nth_P_tail (S (S n)) (S (S n) - (3 + k))) in Ei by lia.
        destruct (S (S n) - (3 + k)) as [|[|[|m]]] eqn:D; simpl in Ei; inversion Ei; subst.
        * left. split; [lia | reflexivity].
        * right. left. split; [lia | reflexivity].
        * right. right. split; [lia | reflexivity].
        * destruct m; discriminate. }
  (* slot facts survive an update of thread t that does not decrease its pc *)
  assert (Slot_keep : forall th', pc th <= pc th' ->
            forall j, slot g = Some j -> exists th2, nth_error (upd t (fun _ => th') (threads g)) j = Some th2 /\ 5 + k <= pc th2).
  { intros th' Hle j Hj. destruct (HS j Hj) as [thj [Hn Hp]]. rewrite upd_nth. destruct (Nat.eqb_spec j t) as [->|Ne].
    - rewrite Hn. simpl. exists th'. split; [reflexivity|]. rewrite Et in Hn. inversion Hn; subst. lia.
    - exists thj. split; assumption. }
  destruct Cases as [[Hp ->]|[[Hp ->]|[[Hp ->]|[[Hp ->]|[[Hp ->]|[Hp ->]]]]]].
  - (* IRead *)
    destruct (slot g) as [j|] eqn:Es.
    + split.
      * apply Forall_upd; [exact HL|]. intros x _. unfold local_ok. cbn [pc allocated adds fin result].
        split; [exact Hpc|]. split; [exact Hmid|]. split; [exact Hend|]. right. f_equal.
        destruct (HS j eq_refl) as [thj [Hn Hpj]]. unfold tok_complete. rewrite Hn.
        apply complete_past; [rewrite Forall_forall in HL; apply HL; eapply nth_error_In; exact Hn | lia].
      * cbn [slot threads]. apply Slot_keep. cbn [pc]. lia.
    + split.
      * apply Forall_upd; [exact HL|]. intros x _. unfold local_ok. cbn [pc allocated adds fin result].
        split; [lia|]. split; [intro; lia|]. split; [intro; lia | left; reflexivity].
      * cbn [slot]. intros j Hj. discriminate.
  - (* IAlloc *)
    split.
    + apply Forall_upd; [exact HL|]. intros x _. unfold local_ok. cbn [pc allocated adds fin result].
      split; [lia|]. split; [intros _; split; [reflexivity | split; [lia | reflexivity]]|].
      split; [intro; lia | left; reflexivity].
    + cbn [slot threads]. apply Slot_keep. cbn [pc]. lia.
  - (* IAdd *)
    destruct (Hmid ltac:(lia)) as [A [B C]].
    split.
    + apply Forall_upd; [exact HL|]. intros x _. unfold local_ok. cbn [pc allocated adds fin result].
      split; [lia|]. split; [intros _; split; [exact A | split; [lia | exact C]]|].
      split; [intro H; split; [exact A | split; [lia | lia]] | left; reflexivity].
    + cbn [slot threads]. apply Slot_keep. cbn [pc]. lia.
  - (* IFinalize *)
    destruct (Hmid ltac:(lia)) as [A [B C]].
    split.
    + apply Forall_upd; [exact HL|]. intros x _. unfold local_ok. cbn [pc allocated adds fin result].
      split; [lia|]. split; [intro H; lia|]. split; [intros _; split; [exact A | split; [lia | reflexivity]] | left; reflexivity].
    + cbn [slot threads]. apply Slot_keep. cbn [pc]. lia.
  - (* IPublish *)
    destruct (Hend ltac:(lia)) as [A [B C]].
    split.
    + cbn [threads]. apply Forall_upd; [exact HL|]. intros x _. unfold local_ok. cbn [pc allocated adds fin result].
      split; [lia|]. split; [intro H; lia|]. split; [intros _; split; [exact A | split; [exact B | exact C]] | left; reflexivity].
    + cbn [slot threads]. intros j Hj. inversion Hj; subst j. rewrite upd_nth, Nat.eqb_refl, Et. simpl.
      eexists. split; [reflexivity|]. cbn [pc]. lia.
  - (* IReturn *)
    split.
    + apply Forall_upd; [exact HL|]. intros x _. unfold local_ok. cbn [pc allocated adds fin result].
      split; [lia|]. split; [exact Hmid|]. split; [exact Hend|]. right. f_equal.
      apply complete_past; [unfold local_ok; split; [exact Hpc | split; [exact Hmid | split; [exact Hend | exact Hres]]] | lia].
    + cbn [slot threads]. apply Slot_keep. cbn [pc]. lia.
Qed.

Theorem run_inv : forall sched g, inv g -> inv (run_sched P g sched).
Proof.
  induction sched as [|t sched IH]; intros g H; [exact H|]. simpl. apply IH. apply tstep_inv. exact H.
Qed.

(* every call that has returned obtained a complete tokenizer, under every schedule *)
Theorem threads_safe_P n sched th : In th (threads (run_sched P (start n) sched)) ->
  result th = None \/ result th = Some true.
Proof.
  intro H. destruct (run_inv sched (start n) (inv_start n)) as [HL _].
  rewrite Forall_forall in HL. destruct (HL th H) as [_ [_ [_ R]]]. exact R.
Qed.

End Safe.

Theorem threads_safe p : shape_safe p = true -> forall n sched th,
  In th (threads (run_sched p (start n) sched)) -> result th = None \/ result th = Some true.
Proof.
  intro H. destruct (shape_form p H) as [k ->]. intros n sched th Hin. eapply threads_safe_P; exact Hin.
Qed.

(* the order of the unrepaired code (publish before filling) is not safe: a witness schedule *)
Example publish_first_refuted :
  let p := [IRead; IAlloc; IPublish; IAdd; IAdd; IFinalize; IReturn] in
  exists th, In th (threads (run_sched p (start 2) [0; 0; 0; 1])) /\ result th = Some false.
Proof. vm_compute. eexists. split; [right; left; reflexivity | reflexivity]. Qed.

(* progress: a thread run alone to the end returns *)
Example sequential_call_returns :
  let p := [IRead; IAlloc; IAdd; IAdd; IFinalize; IPublish; IReturn] in
  map result (threads (run_sched p (start 2) [0; 0; 0; 0; 0; 0; 0; 1])) = [Some true; Some true].
Proof. vm_compute. reflexivity. Qed.
