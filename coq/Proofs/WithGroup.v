(* WITH grouping (build_token_groups_for_with_subexpression) equals the greedy left-to-right rule;
   replace_with_subexpression_by_license_symbol: non-strict result on well-formed item lists (C02)
   and the strict-mode decision rule (C12). *)
Require Import Model.Base Model.Expr Model.Split Model.Trie Model.LicTok.
From Coq Require Import Lia.

(* the greedy rule: take SYM WITH SYM whenever it starts here, otherwise one token *)
Fixpoint greedy (ts : list ltok) : list group :=
  match ts with
  | [] => []
  | a :: rest =>
      match rest with
      | w :: b :: rest' => if is_with3 a w b then G3 a w b :: greedy rest' else G1 a :: greedy rest
      | _ => G1 a :: greedy rest
      end
  end.

Lemma greedy_short ts : (length ts < 3)%nat -> greedy ts = map G1 ts.
Proof.
  destruct ts as [|a [|b [|c ts]]]; simpl; intro H; try reflexivity. lia.
Qed.

Lemma group_go_greedy : forall ts win, (length win <= 3)%nat -> group_go win ts = greedy (win ++ ts).
Proof.
  induction ts as [|t ts IH]; intros win Hl.
  - rewrite app_nil_r. destruct win as [|a [|w [|b [|c win]]]]; simpl; try reflexivity.
    simpl in Hl. lia.
  - destruct win as [|a [|w [|b [|c win]]]]; cbn [group_go app].
    + rewrite (IH [t]) by (simpl; lia). reflexivity.
    + rewrite (IH [a; t]) by (simpl; lia). reflexivity.
    + rewrite (IH [a; w; t]) by (simpl; lia). reflexivity.
    + cbn [app greedy]. destruct (is_with3 a w b).
      * rewrite (IH [t]) by (simpl; lia). reflexivity.
      * rewrite (IH [w; b; t]) by (simpl; lia). reflexivity.
    + simpl in Hl. lia.
Qed.

Theorem group_with_greedy ts : group_with ts = greedy ts.
Proof.
  unfold group_with. destruct (Nat.ltb_spec (length ts) 3) as [H|H].
  - symmetry. apply greedy_short; exact H.
  - apply (group_go_greedy ts []). simpl; lia.
Qed.

(* ---- items: what a well-formed token stream consists of ---- *)
Inductive item :=
  | IKw (t : ltok) (k : kw)              (* and / or / ( / ) *)
  | ISym (t : ltok) (s : sym)            (* one license *)
  | IWith (a w b : ltok) (l r : sym).    (* license WITH license *)

Definition item_ok (i : item) : Prop :=
  match i with
  | IKw t k => tvalue t = Some (VKw k) /\ k <> KWith
  | ISym t s => tvalue t = Some (VSym s)
  | IWith a w b l r => tvalue a = Some (VSym l) /\ tvalue w = Some (VKw KWith) /\ tvalue b = Some (VSym r)
  end.

Definition flat (i : item) : list ltok :=
  match i with IKw t _ => [t] | ISym t _ => [t] | IWith a w b _ _ => [a; w; b] end.
Definition group_of (i : item) : group :=
  match i with IKw t _ => G1 t | ISym t _ => G1 t | IWith a w b _ _ => G3 a w b end.

Lemma is_with3_mid a w b : is_with3 a w b = true -> is_with_tok w = true.
Proof. unfold is_with3. intro H. apply andb_true_iff in H as [H _]. apply andb_true_iff in H as [_ H]. exact H. Qed.

Lemma first_tok_not_with i : item_ok i -> forall t rest, flat i = t :: rest -> is_with_tok t = false.
Proof.
  destruct i as [t k|t s|a w b l r]; simpl; intros H t0 rest E; inversion E; subst; unfold is_with_tok.
  - destruct H as [-> Hk]. destruct k; try reflexivity. contradiction.
  - rewrite H. reflexivity.
  - destruct H as [-> _]. reflexivity.
Qed.

(* in a stream of well-formed items no token directly after a single token is a WITH keyword *)
Lemma greedy_items : forall items, Forall item_ok items ->
  greedy (flat_map flat items) = map group_of items.
Proof.
  induction items as [|i items IH]; intro H; [reflexivity|].
  inversion H as [|? ? Hi Hr]; subst. specialize (IH Hr).
  destruct i as [t k|t s|a w b l r]; cbn [flat_map flat app map group_of].
  - (* keyword: never the start of a WITH triple *)
    cbn [greedy]. destruct (flat_map flat items) as [|x [|y rest]] eqn:E; try (rewrite <- IH; reflexivity).
    assert (Hf : is_with3 t x y = false).
    { unfold is_with3, is_sym_tok. destruct Hi as [-> _]. reflexivity. }
    rewrite Hf, <- IH. reflexivity.
  - (* a single license: the next token starts an item, so it is not WITH *)
    cbn [greedy]. destruct (flat_map flat items) as [|x [|y rest]] eqn:E; try (rewrite <- IH; reflexivity).
    assert (Hx : is_with_tok x = false).
    { destruct items as [|j items']; [discriminate|]. inversion Hr as [|? ? Hj _]; subst.
      simpl in E. destruct (flat j) as [|z zs] eqn:Ej; [destruct j; discriminate|].
      simpl in E. inversion E; subst. eapply first_tok_not_with; eassumption. }
    assert (Hf : is_with3 t x y = false).
    { destruct (is_with3 t x y) eqn:F; [|reflexivity]. apply is_with3_mid in F. congruence. }
    rewrite Hf, <- IH. reflexivity.
  - cbn [greedy]. destruct Hi as [Ha [Hw Hb]].
    assert (Hf : is_with3 a w b = true).
    { unfold is_with3, is_sym_tok, is_with_tok. rewrite Ha, Hw, Hb. reflexivity. }
    rewrite Hf, IH. reflexivity.
Qed.

(* ---- replace_with on items ---- *)
Section Replace.
Variable O : oracle.

Definition ptok_of (i : item) : ptok :=
  match i with
  | IKw t k => {| pt := match tk_of_kw k with Some ty => ty | None => TA end; pstr := tstring t; ppos := tstart t |}
  | ISym t s => {| pt := TS (Plain s); pstr := tstring t; ppos := tstart t |}
  | IWith a w b l r => {| pt := TS (With l r);
                          pstr := tstring a ++ sp ++ strip O (tstring w) ++ sp ++ tstring b;
                          ppos := tstart a |}
  end.

Lemma replace_with_items : forall items, Forall item_ok items ->
  replace_with O false (map group_of items) = Ok (map ptok_of items).
Proof.
  induction items as [|i items IH]; intro H; [reflexivity|].
  inversion H as [|? ? Hi Hr]; subst. specialize (IH Hr).
  destruct i as [t k|t s|a w b l r]; cbn [map group_of replace_with ptok_of].
  - destruct Hi as [-> Hk]. destruct k; try contradiction; cbn [tk_of_kw]; rewrite IH; reflexivity.
  - simpl in Hi. rewrite Hi. cbn [andb]. rewrite IH. reflexivity.
  - destruct Hi as [-> [_ ->]]. cbn [andb]. rewrite IH. reflexivity.
Qed.

(* Licensing.tokenize from the stream after the unknown merge, for a stream made of items *)
Theorem with_grouping_complete items : Forall item_ok items ->
  replace_with O false (group_with (flat_map flat items)) = Ok (map ptok_of items).
Proof. intro H. rewrite group_with_greedy, greedy_items by exact H. apply replace_with_items; exact H. Qed.

(* ---- strict mode (C12) ---- *)
Definition group_roles_ok (g : group) : bool :=
  match g with
  | G1 t => match tvalue t with Some (VSym s) => negb (exc s) | _ => true end
  | G3 a _ b =>
      match tvalue a, tvalue b with
      | Some (VSym l), Some (VSym r) => negb (exc l) && exc r
      | _, _ => true
      end
  end.
Definition roles_ok (gs : list group) : bool := forallb group_roles_ok gs.

(* the per-group part of replace_with *)
Definition head (strict : bool) (g : group) : outcome ptok :=
  match g with
  | G1 t =>
      match tvalue t with
      | Some (VKw k) =>
          match tk_of_kw k with
          | None => ParseErr PARSE_INVALID_EXPRESSION (tstring t) (tstart t)
          | Some ty => Ok {| pt := ty; pstr := tstring t; ppos := tstart t |}
          end
      | Some (VSym s) =>
          if strict && exc s then ParseErr PARSE_INVALID_EXCEPTION (tstring t) (tstart t)
          else Ok {| pt := TS (Plain s); pstr := tstring t; ppos := tstart t |}
      | None => Leak OtherExc
      end
  | G3 a w b =>
      match tvalue a, tvalue b with
      | Some (VSym l), Some (VSym r) =>
          if strict && exc l then ParseErr PARSE_INVALID_EXCEPTION (tstring a) (tstart a)
          else if strict && negb (exc r) then ParseErr PARSE_INVALID_SYMBOL_AS_EXCEPTION (tstring b) (tstart b)
          else Ok {| pt := TS (With l r);
                     pstr := tstring a ++ sp ++ strip O (tstring w) ++ sp ++ tstring b;
                     ppos := tstart a |}
      | _, _ => Leak OtherExc
      end
  end.

Lemma replace_with_cons strict g gs :
  replace_with O strict (g :: gs) =
  obind (head strict g) (fun p => obind (replace_with O strict gs) (fun r => Ok (p :: r))).
Proof.
  destruct g as [t|a w b]; cbn [replace_with head].
  - destruct (tvalue t) as [[k|s]|]; [| |reflexivity].
    + destruct (tk_of_kw k); reflexivity.
    + destruct (strict && exc s); reflexivity.
  - destruct (tvalue a) as [[ka|l]|]; try reflexivity.
    destruct (tvalue b) as [[kb|r]|]; try reflexivity.
    destruct (strict && exc l); [reflexivity|]. destruct (strict && negb (exc r)); reflexivity.
Qed.

Lemma head_strict_iff g p :
  head true g = Ok p <-> head false g = Ok p /\ group_roles_ok g = true.
Proof.
  destruct g as [t|a w b]; cbn [head group_roles_ok].
  - destruct (tvalue t) as [[k|s]|].
    + destruct (tk_of_kw k); split; try (intro H; split; [exact H | reflexivity]); try (intros [H _]; exact H).
    + cbn [andb]. destruct (exc s); cbn [negb].
      * split; [discriminate | intros [_ H]; discriminate].
      * split; [intro H; split; [exact H | reflexivity] | intros [H _]; exact H].
    + split; [discriminate | intros [H _]; discriminate].
  - destruct (tvalue a) as [[ka|l]|]; try (split; [discriminate | intros [H _]; discriminate]).
    destruct (tvalue b) as [[kb|r]|]; try (split; [discriminate | intros [H _]; discriminate]).
    cbn [andb]. destruct (exc l), (exc r); cbn [negb andb];
      try (split; [discriminate | intros [_ H]; discriminate]).
    split; [intro H; split; [exact H | reflexivity] | intros [H _]; exact H].
Qed.

Theorem strict_iff : forall gs r,
  replace_with O true gs = Ok r <-> replace_with O false gs = Ok r /\ roles_ok gs = true.
Proof.
  induction gs as [|g gs IH]; intro r.
  - simpl. split; [intro H; split; [exact H | reflexivity] | intros [H _]; exact H].
  - rewrite !replace_with_cons. cbn [roles_ok forallb]. fold (roles_ok gs). split.
    + intro H. destruct (head true g) as [p| | | | |] eqn:Eh; try discriminate. cbn [obind] in H.
      destruct (replace_with O true gs) as [r1| | | | |] eqn:Er; try discriminate. cbn [obind] in H.
      apply head_strict_iff in Eh as [Eh1 Eh2]. destruct (IH r1) as [I1 _]. destruct (I1 eq_refl) as [I2 I3].
      rewrite Eh1, I2, Eh2, I3. cbn [obind]. split; [exact H | reflexivity].
    + intros [H Hr]. apply andb_true_iff in Hr as [Hr1 Hr2].
      destruct (head false g) as [p| | | | |] eqn:Eh; try discriminate. cbn [obind] in H.
      destruct (replace_with O false gs) as [r1| | | | |] eqn:Er; try discriminate. cbn [obind] in H.
      assert (Eh' : head true g = Ok p) by (apply head_strict_iff; split; assumption).
      destruct (IH r1) as [_ I1]. rewrite Eh', (I1 (conj eq_refl Hr2)). cbn [obind]. exact H.
Qed.

(* the first license that breaks the roles: its text, start position and the error code *)
Fixpoint first_offender (gs : list group) : option (N * str * Z) :=
  match gs with
  | [] => None
  | G1 t :: gs' =>
      match tvalue t with
      | Some (VSym s) => if exc s then Some (PARSE_INVALID_EXCEPTION, tstring t, tstart t) else first_offender gs'
      | _ => first_offender gs'
      end
  | G3 a _ b :: gs' =>
      match tvalue a, tvalue b with
      | Some (VSym l), Some (VSym r) =>
          if exc l then Some (PARSE_INVALID_EXCEPTION, tstring a, tstart a)
          else if negb (exc r) then Some (PARSE_INVALID_SYMBOL_AS_EXCEPTION, tstring b, tstart b)
          else first_offender gs'
      | _, _ => first_offender gs'
      end
  end.

Definition group_offender (g : group) : option (N * str * Z) :=
  match g with
  | G1 t =>
      match tvalue t with
      | Some (VSym s) => if exc s then Some (PARSE_INVALID_EXCEPTION, tstring t, tstart t) else None
      | _ => None
      end
  | G3 a _ b =>
      match tvalue a, tvalue b with
      | Some (VSym l), Some (VSym r) =>
          if exc l then Some (PARSE_INVALID_EXCEPTION, tstring a, tstart a)
          else if negb (exc r) then Some (PARSE_INVALID_SYMBOL_AS_EXCEPTION, tstring b, tstart b)
          else None
      | _, _ => None
      end
  end.

Lemma first_offender_cons g gs :
  first_offender (g :: gs) = match group_offender g with Some x => Some x | None => first_offender gs end.
Proof.
  destruct g as [t|a w b]; cbn [first_offender group_offender].
  - destruct (tvalue t) as [[k|s]|]; try reflexivity. destruct (exc s); reflexivity.
  - destruct (tvalue a) as [[ka|l]|]; try reflexivity. destruct (tvalue b) as [[kb|r]|]; try reflexivity.
    destruct (exc l); [reflexivity|]. destruct (negb (exc r)); reflexivity.
Qed.

Lemma head_offender g p :
  head false g = Ok p ->
  (group_roles_ok g = true /\ group_offender g = None /\ head true g = Ok p) \/
  (group_roles_ok g = false /\ exists c tok pos, group_offender g = Some (c, tok, pos) /\ head true g = ParseErr c tok pos).
Proof.
  destruct g as [t|a w b]; cbn [head group_roles_ok group_offender].
  - destruct (tvalue t) as [[k|s]|]; try discriminate.
    + destruct (tk_of_kw k); [|discriminate]. intro H. left. repeat split; exact H.
    + cbn [andb]. destruct (exc s); cbn [negb]; intro H.
      * right. split; [reflexivity|]. do 3 eexists. split; reflexivity.
      * left. repeat split; exact H.
  - destruct (tvalue a) as [[ka|l]|]; try discriminate. destruct (tvalue b) as [[kb|r]|]; try discriminate.
    cbn [andb]. destruct (exc l), (exc r); cbn [negb andb]; intro H;
      try (right; split; [reflexivity|]; do 3 eexists; split; reflexivity).
    left. repeat split; exact H.
Qed.

Theorem strict_error_where : forall gs r,
  replace_with O false gs = Ok r -> roles_ok gs = false ->
  exists c tok pos, first_offender gs = Some (c, tok, pos) /\ replace_with O true gs = ParseErr c tok pos.
Proof.
  induction gs as [|g gs IH]; intros r H Hr; [discriminate|].
  rewrite replace_with_cons in H. rewrite replace_with_cons, first_offender_cons.
  cbn [roles_ok forallb] in Hr. fold (roles_ok gs) in Hr.
  destruct (head false g) as [p| | | | |] eqn:Eh; try discriminate. cbn [obind] in H.
  destruct (replace_with O false gs) as [r1| | | | |] eqn:Er; try discriminate.
  destruct (head_offender g p Eh) as [[G1 [G2 G3]]|[G1 [c [tok [pos [G2 G3]]]]]].
  - rewrite G1 in Hr. cbn [andb] in Hr. destruct (IH r1 eq_refl Hr) as [c [tok [pos [F S]]]].
    exists c, tok, pos. rewrite G2, G3, S. split; [exact F | reflexivity].
  - exists c, tok, pos. rewrite G2, G3. split; reflexivity.
Qed.

End Replace.

(* a WITH keyword that is not between two licenses is never accepted *)
Section Stray.
Variable O : oracle.
Lemma replace_with_ok_no_stray strict : forall gs r, replace_with O strict gs = Ok r ->
  Forall (fun g => match g with G1 t => is_with_tok t = false | G3 _ _ _ => True end) gs.
Proof.
  induction gs as [|g gs IH]; intros r H; [constructor|].
  rewrite replace_with_cons in H.
  destruct (head O strict g) as [p| | | | |] eqn:Eh; try discriminate. cbn [obind] in H.
  destruct (replace_with O strict gs) as [r1| | | | |] eqn:Er; try discriminate.
  constructor; [|eapply IH; reflexivity].
  destruct g as [t|a w b]; [|exact I]. cbn [head] in Eh. unfold is_with_tok.
  destruct (tvalue t) as [[k|s]|]; try reflexivity. destruct k; try reflexivity. discriminate.
Qed.
End Stray.
