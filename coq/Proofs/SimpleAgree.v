(* C18: on a table without aliases whose keys are single words, and a text in which no two unknown
   words are adjacent, the simple tokenizer and the default tokenizer produce the same token list
   (or the same error), hence the same parse outcome, strict or not. *)
Require Import Model.Base Model.Expr Model.Split Model.Trie Model.Overlap Model.LicTok Model.BoolParse Model.Licensing.
Require Import Proofs.Symbol Proofs.Split Proofs.Overlap Proofs.Trie Proofs.Recognise Proofs.Cover Proofs.Select.
From Coq Require Import Lia ZifyBool.
Open Scope Z_scope.

Section SortedUnique.
Context {V : Type}.
Notation tok := (Trie.tok V).

(* two position-ordered lists of well-formed tokens with the same members are the same list *)
Lemma chain_lists_equal : forall (L1 L2 : list tok),
  (forall t, In t L1 -> wf_tok t) -> (forall t, In t L2 -> wf_tok t) ->
  chain_after L1 -> chain_after L2 -> (forall t, In t L1 <-> In t L2) -> L1 = L2.
Proof.
  induction L1 as [|a L1 IH]; intros L2 W1 W2 C1 C2 Hm.
  - destruct L2 as [|b L2]; [reflexivity|]. exfalso. apply (proj2 (Hm b)). left; reflexivity.
  - destruct L2 as [|b L2]; [exfalso; apply (proj1 (Hm a)); left; reflexivity|].
    destruct C1 as [A1 C1]. destruct C2 as [A2 C2].
    assert (Hab : a = b).
    { destruct (proj1 (Hm a) (or_introl eq_refl)) as [E|Ha]; [symmetry; exact E|].
      destruct (proj2 (Hm b) (or_introl eq_refl)) as [E|Hb]; [exact E|].
      specialize (A2 a Ha). specialize (A1 b Hb). unfold is_after in *.
      pose proof (W1 a (or_introl eq_refl)). pose proof (W2 b (or_introl eq_refl)). unfold wf_tok in *. lia. }
    subst b. f_equal. apply IH.
    + intros t Ht. apply W1. right; exact Ht.
    + intros t Ht. apply W2. right; exact Ht.
    + exact C1.
    + exact C2.
    + intro t. split; intro Ht.
      * destruct (proj1 (Hm t) (or_intror Ht)) as [E|H]; [|exact H]. subst t. specialize (A1 a Ht).
        pose proof (W1 a (or_introl eq_refl)). unfold is_after, wf_tok in *. lia.
      * destruct (proj2 (Hm t) (or_intror Ht)) as [E|H]; [|exact H]. subst t. specialize (A2 a Ht).
        pose proof (W1 a (or_introl eq_refl)). unfold is_after, wf_tok in *. lia.
Qed.

End SortedUnique.

(* ---- the default tokenizer over single-word names is a per-word look-up ---- *)
Section SingleWord.
Context {V : Type}.
Variable O : oracle.
Variable tr : trie V.
Hypothesis W : wf_trie tr.
Hypothesis single : forall p o, In (p, o) (outs tr) -> length p = 1%nat.
Variable text : str.
Notation tok := (Trie.tok V).
Notation P := (pieces O text).
Notation wps := (filter (is_word_piece O) (pieces O text)).

Definition matched (p : piece) (v : V) : tok :=
  {| tstart := pstart p; tend := pend p; tstring := slice text (pstart p) (pend p); tvalue := Some v |}.
Definition dtok (p : piece) : tok :=
  match get_out [lower O (ptext p)] (outs tr) with
  | Some (_, v) => matched p v
  | None => unmatched p
  end.

Lemma wps_in p : In p wps -> In p P /\ is_word_piece O p = true.
Proof. intro H. apply filter_In in H. exact H. Qed.

Lemma piece_wf p : In p P -> pstart p <= pend p.
Proof. apply (incr_piece_nonempty P p (pieces_incr O text)). Qed.

Lemma dtok_span p : tstart (dtok p) = pstart p /\ tend (dtok p) = pend p.
Proof. unfold dtok. destruct (get_out _ _) as [[sp0 v]|]; split; reflexivity. Qed.

Lemma dtoks_chain : forall ps, incr ps -> chain_after (map dtok ps).
Proof.
  induction ps as [|p ps IH]; intro Hi; [exact I|]. destruct Hi as [_ [Hlt Hi]]. simpl. split; [|apply IH; exact Hi].
  intros y Hy. apply in_map_iff in Hy as [q [<- Hq]]. unfold is_after.
  destruct (dtok_span p) as [_ ->]. destruct (dtok_span q) as [-> _]. specialize (Hlt q Hq). lia.
Qed.

(* every reported match sits on one word piece *)
Lemma iter_is_matched t : In t (t_iter O tr text) <->
  exists p sp0 v, In p wps /\ get_out [lower O (ptext p)] (outs tr) = Some (sp0, v) /\ t = matched p v.
Proof. apply (single_word_scan O tr W text t single). Qed.

Lemma matched_kept p sp0 v : In p wps -> get_out [lower O (ptext p)] (outs tr) = Some (sp0, v) ->
  In (matched p v) (filter_overlapping (t_iter O tr text)).
Proof.
  intros Hp G. destruct (wps_in p Hp) as [HpP _].
  apply fo_keeps_apart.
  - unfold wf_tok, matched. cbn. apply piece_wf; exact HpP.
  - apply iter_is_matched. exists p, sp0, v. repeat split; assumption.
  - intros y Hy. apply iter_is_matched in Hy as [q [sq [vq [Hq [Gq ->]]]]]. destruct (wps_in q Hq) as [HqP _].
    pose proof (piece_wf p HpP) as Np. pose proof (piece_wf q HqP) as Nq.
    (* the same piece gives the same token; another piece is apart *)
    destruct (Z_lt_le_dec (pend p) (pstart q)) as [A|A].
    + right. split; [unfold wf_tok, matched; cbn; lia | left; unfold matched; cbn; lia].
    + destruct (Z_lt_le_dec (pend q) (pstart p)) as [B|B].
      * right. split; [unfold wf_tok, matched; cbn; lia | right; unfold matched; cbn; lia].
      * left.
        assert (E : p = q).
        { destruct (Z_le_gt_dec (pstart q) (pstart p)) as [C|C].
          - apply (incr_same P p q (pieces_incr O text) HpP HqP). lia.
          - symmetry. apply (incr_same P q p (pieces_incr O text) HqP HpP). lia. }
        subst q. rewrite G in Gq. inversion Gq; subst. reflexivity.
Qed.

Theorem single_word_tokenize : t_tokenize O tr text = map dtok wps.
Proof.
  apply chain_lists_equal.
  - intros t Ht. unfold t_tokenize in Ht. apply retok_from_word in Ht as [Hm|[p [Hp [_ ->]]]].
    + apply fo_sub in Hm. exact (proj2 (proj2 (proj2 (match_inside O tr W text t Hm)))).
    + unfold wf_tok, unmatched. cbn. apply piece_wf; exact Hp.
  - intros t Ht. apply in_map_iff in Ht as [p [<- Hp]]. destruct (wps_in p Hp) as [HpP _].
    unfold wf_tok. destruct (dtok_span p) as [-> ->]. apply piece_wf; exact HpP.
  - apply (tokenize_ordered_disjoint O tr W text).
  - apply dtoks_chain. apply word_pieces_incr.
  - intro t. split.
    + intro Ht. pose proof Ht as Ht0. unfold t_tokenize in Ht. apply retok_from_word in Ht as [Hm|[p [Hp [Hw ->]]]].
      * apply fo_sub in Hm. apply iter_is_matched in Hm as [p [sp0 [v [Hp [G ->]]]]].
        apply in_map_iff. exists p. split; [unfold dtok; rewrite G; reflexivity | exact Hp].
      * assert (Hpw : In p wps) by (apply filter_In; split; assumption).
        apply in_map_iff. exists p. split; [|exact Hpw]. unfold dtok.
        destruct (get_out [lower O (ptext p)] (outs tr)) as [[sp0 v]|] eqn:G; [|reflexivity]. exfalso.
        (* the match on this piece is kept and emitted: the piece would be covered twice *)
        pose proof (tokenize_keeps_matches O tr W text _ (matched_kept p sp0 v Hpw G)) as Hm.
        destruct (tokenize_covers_once O tr W text p Hp Hw) as [pre [t0 [post [E [Hc Hno]]]]].
        assert (Cu : covers (unmatched p : tok) p) by (unfold covers, unmatched; cbn; lia).
        assert (Cm : covers (matched p v) p) by (unfold covers, matched; cbn; lia).
        rewrite E in Ht0, Hm.
        assert (Eu : (unmatched p : tok) = t0).
        { apply in_app_or in Ht0 as [H|[H|H]]; [exfalso; apply (Hno _ (in_or_app _ _ _ (or_introl H)) Cu) | symmetry; exact H |
                                                exfalso; apply (Hno _ (in_or_app _ _ _ (or_intror H)) Cu)]. }
        assert (Em : matched p v = t0).
        { apply in_app_or in Hm as [H|[H|H]]; [exfalso; apply (Hno _ (in_or_app _ _ _ (or_introl H)) Cm) | symmetry; exact H |
                                               exfalso; apply (Hno _ (in_or_app _ _ _ (or_intror H)) Cm)]. }
        rewrite <- Eu in Em. discriminate.
    + intro Ht. apply in_map_iff in Ht as [p [<- Hp]]. destruct (wps_in p Hp) as [HpP Hw]. unfold dtok.
      destruct (get_out [lower O (ptext p)] (outs tr)) as [[sp0 v]|] eqn:G.
      * apply (tokenize_keeps_matches O tr W text). apply (matched_kept p sp0 v Hp G).
      * apply (tokenize_unmatched_word O tr W text p HpP Hw).
        intros t Ht [C1 C2]. apply fo_sub in Ht. apply iter_is_matched in Ht as [q [sq [vq [Hq [Gq ->]]]]].
        destruct (wps_in q Hq) as [HqP _]. unfold matched in C1, C2. cbn in C1, C2.
        assert (E : p = q) by (apply (incr_same P p q (pieces_incr O text) HpP HqP); pose proof (piece_wf p HpP); lia).
        subst q. rewrite G in Gq. discriminate.
Qed.

End SingleWord.

(* ---- classes of the pieces ---- *)
Section PieceClass.
Variable O : oracle.

Lemma split_acc_cls : forall s start k acc pos,
  acc <> [] -> (forall c, In c acc -> cls_of O c = k) -> (k = CParen -> length acc = 1%nat) ->
  forall p, In p (split_acc O start k acc pos s) ->
    (forall c, In c (ptext p) -> cls_of O c = piece_cls O p) /\ (piece_cls O p = CParen -> length (ptext p) = 1%nat).
Proof.
  assert (Hemit : forall start k acc, acc <> [] -> (forall c, In c acc -> cls_of O c = k) -> (k = CParen -> length acc = 1%nat) ->
            let p := {| pstart := start; ptext := rev acc |} in
            (forall c, In c (ptext p) -> cls_of O c = piece_cls O p) /\ (piece_cls O p = CParen -> length (ptext p) = 1%nat)).
  { intros start k acc Hne Hall Hpar p.
    assert (Hk : piece_cls O p = k).
    { unfold piece_cls, p. cbn [ptext]. destruct (rev acc) as [|c0 r] eqn:E.
      - apply (f_equal (@rev N)) in E. rewrite rev_involutive in E. contradiction.
      - apply Hall. apply in_rev. rewrite E. left; reflexivity. }
    rewrite Hk. split.
    - intros c Hc. apply Hall. apply in_rev. exact Hc.
    - intro E. unfold p. cbn [ptext]. rewrite rev_length. apply Hpar; exact E. }
  induction s as [|c s IH]; intros start k acc pos Hne Hall Hpar p Hp; cbn [split_acc] in Hp.
  - destruct Hp as [<-|[]]. apply (Hemit start k acc Hne Hall Hpar).
  - destruct (cls_eqb k (cls_of O c) && negb (cls_eqb k CParen)) eqn:E.
    + apply andb_true_iff in E as [E1 E2].
      assert (Ek : cls_of O c = k) by (destruct k, (cls_of O c); try discriminate; reflexivity).
      apply (IH start k (c :: acc) (pos + 1)); [discriminate | | | exact Hp].
      * intros x [<-|Hx]; [exact Ek | apply Hall; exact Hx].
      * intro Ep. rewrite Ep in E2. cbn in E2. discriminate.
    + destruct Hp as [<-|Hp]; [apply (Hemit start k acc Hne Hall Hpar)|].
      apply (IH pos (cls_of O c) [c] (pos + 1)); [discriminate | | | exact Hp].
      * intros x [<-|[]]. reflexivity.
      * intros _. reflexivity.
Qed.

Lemma piece_cls_spec s p : In p (pieces O s) ->
  (forall c, In c (ptext p) -> cls_of O c = piece_cls O p) /\ (piece_cls O p = CParen -> length (ptext p) = 1%nat).
Proof.
  destruct s as [|c s]; [intros []|]. unfold pieces.
  apply split_acc_cls; [discriminate | intros x [<-|[]]; reflexivity | intros _; reflexivity].
Qed.

End PieceClass.

(* ---- outcomes of a list, left to right ---- *)
Fixpoint mapo {A B} (f : A -> outcome B) (l : list A) : outcome (list B) :=
  match l with
  | [] => Ok []
  | a :: l' => obind (f a) (fun b => obind (mapo f l') (fun r => Ok (b :: r)))
  end.

Lemma obind_assoc {A B C} (x : outcome A) (f : A -> outcome B) (k : B -> outcome C) :
  obind (obind x f) k = obind x (fun a => obind (f a) k).
Proof. destruct x; reflexivity. Qed.

Lemma mapo_ext {A B} (f g : A -> outcome B) l : (forall a, In a l -> f a = g a) -> mapo f l = mapo g l.
Proof.
  induction l as [|a l IH]; intro H; [reflexivity|]. simpl. rewrite (H a (or_introl eq_refl)).
  rewrite IH; [reflexivity|]. intros b Hb. apply H. right; exact Hb.
Qed.

Lemma mapo_map {A B C} (g : A -> B) (f : B -> outcome C) l : mapo f (map g l) = mapo (fun a => f (g a)) l.
Proof. induction l as [|a l IH]; [reflexivity|]. simpl. rewrite IH. reflexivity. Qed.

Lemma mapo_in {A B} (f : A -> outcome B) : forall l r, mapo f l = Ok r -> forall b, In b r -> exists a, In a l /\ f a = Ok b.
Proof.
  induction l as [|a l IH]; intros r H b Hb; simpl in H.
  - inversion H; subst. destruct Hb.
  - destruct (f a) as [b0| | | | |] eqn:Ea; try discriminate. simpl in H.
    destruct (mapo f l) as [r0| | | | |] eqn:El; try discriminate. simpl in H. inversion H; subst.
    destruct Hb as [<-|Hb]; [exists a; split; [left; reflexivity | exact Ea]|].
    destruct (IH r0 eq_refl b Hb) as [a' [Ha' E']]. exists a'. split; [right; exact Ha' | exact E'].
Qed.

(* ---- build_symbols_from_unknown_tokens on the two token lists ---- *)
Section Unknowns.
Variable O : oracle.
Notation ltok := (Trie.tok kv).

(* one isolated unmatched token becomes one symbol token *)
Definition h_tok (t : ltok) : outcome ltok :=
  match tvalue t with
  | Some _ => Ok t
  | None => obind (mk_symbol O (tstring t) false) (fun sy =>
              Ok {| tstart := tstart t; tend := tend t; tstring := tstring t; tvalue := Some (VSym sy) |})
  end.

Lemma flush_one (t : ltok) : tok_blank O t = false ->
  flush_unknown O [t] = obind (mk_symbol O (tstring t) false) (fun sy =>
     Ok [{| tstart := tstart t; tend := tend t; tstring := tstring t; tvalue := Some (VSym sy) |}]).
Proof.
  intro Hb. unfold flush_unknown. cbn [split_trailing]. rewrite Hb. cbn [rev app filter map]. rewrite Hb. cbn [negb map].
  unfold join_sp. cbn [join]. destruct (mk_symbol O (tstring t) false); reflexivity.
Qed.

(* no two unmatched tokens in a row *)
Fixpoint alt (E : list ltok) : Prop :=
  match E with
  | a :: (b :: _) as r => (tvalue a = None -> tvalue b <> None) /\ alt r
  | _ => True
  end.

Lemma build_unknown_alt : forall E,
  alt E -> (forall t, In t E -> tvalue t = None -> tok_blank O t = false) ->
  build_unknown O [] E = mapo h_tok E /\
  (forall t, tvalue t = None -> tok_blank O t = false ->
     match E with [] => True | a :: _ => tvalue a <> None end ->
     build_unknown O [t] E = obind (h_tok t) (fun x => obind (mapo h_tok E) (fun r => Ok (x :: r)))).
Proof.
  induction E as [|a E IH]; intros Ha Hnb.
  - split; [reflexivity|]. intros t Hv Hb _. cbn [build_unknown mapo]. rewrite (flush_one t Hb).
    unfold h_tok. rewrite Hv. destruct (mk_symbol O (tstring t) false); reflexivity.
  - assert (HaE : alt E) by (destruct E; [exact I | destruct Ha as [_ H]; exact H]).
    assert (HnbE : forall t, In t E -> tvalue t = None -> tok_blank O t = false) by (intros t Ht; apply Hnb; right; exact Ht).
    destruct (IH HaE HnbE) as [I1 I2]. split.
    + cbn [build_unknown mapo]. destruct (tvalue a) as [v|] eqn:Ev.
      * cbn [flush_unknown obind]. rewrite I1.
        replace (h_tok a) with (Ok a) by (unfold h_tok; rewrite Ev; reflexivity). cbn [obind].
        destruct (mapo h_tok E); reflexivity.
      * rewrite (Hnb a (or_introl eq_refl) Ev). rewrite (I2 a Ev (Hnb a (or_introl eq_refl) Ev)); [reflexivity|].
        destruct E as [|b E]; [exact I|]. destruct Ha as [H _]. apply H; exact Ev.
    + intros t Hv Hb Hhead. cbn [build_unknown]. destruct (tvalue a) as [v|] eqn:Ev; [|contradiction].
      rewrite (flush_one t Hb). rewrite I1. cbn [mapo].
      replace (h_tok a) with (Ok a) by (unfold h_tok; rewrite Ev; reflexivity).
      replace (h_tok t) with (obind (mk_symbol O (tstring t) false) (fun sy =>
              Ok {| tstart := tstart t; tend := tend t; tstring := tstring t; tvalue := Some (VSym sy) |}))
        by (unfold h_tok; rewrite Hv; reflexivity).
      destruct (mk_symbol O (tstring t) false); try reflexivity. cbn [obind].
      destruct (mapo h_tok E); reflexivity.
Qed.

(* tokens that all carry a value or are blank pass through unchanged *)
Lemma build_unknown_valued : forall S, (forall t, In t S -> tvalue t = None -> tok_blank O t = true) ->
  build_unknown O [] S = Ok S.
Proof.
  induction S as [|a S IH]; intro H; [reflexivity|]. cbn [build_unknown].
  rewrite IH by (intros t Ht; apply H; right; exact Ht).
  destruct (tvalue a) eqn:Ev; [reflexivity|]. rewrite (H a (or_introl eq_refl) Ev). reflexivity.
Qed.

End Unknowns.

(* ---- the table: single-word keys, no aliases ---- *)
Section Table.
Variable O : oracle.
Variable T : list entry.
Notation ltok := (Trie.tok kv).
Notation tr := (build_trie O T).

(* oracle facts (checked on the interpreter's tables whenever the oracle table is dumped) *)
Hypothesis kw_plain : forall c, In c [97; 110; 100; 111; 114; 119; 105; 116; 104; 40; 41]%N ->
  is_space O c = false /\ lower_ch O c = [c].
Hypothesis lower_no_paren : forall c x, is_paren c = false -> In x (lower_ch O c) -> is_paren x = false.

Hypothesis noalias : forall e, In e T -> ealiases e = [].
Hypothesis single_keys : forall e, In e T ->
  ekey e <> [] /\ lwords O (ekey e) = [lower O (ekey e)] /\ is_keyword_str (lower O (ekey e)) = false.

Definition kw_of (l : str) : option kv :=
  if str_eqb l s_and then Some (VKw KAnd) else if str_eqb l s_or then Some (VKw KOr)
  else if str_eqb l s_with then Some (VKw KWith) else if str_eqb l s_lpar then Some (VKw KLp)
  else if str_eqb l s_rpar then Some (VKw KRp) else None.

Lemma split_acc_text : forall s acc start pos, (forall c, In c s -> cls_of O c = CText) ->
  split_acc O start CText acc pos s = [{| pstart := start; ptext := rev acc ++ s |}].
Proof.
  induction s as [|c s IH]; intros acc start pos H; cbn [split_acc]; [rewrite app_nil_r; reflexivity|].
  rewrite (H c (or_introl eq_refl)). cbn [cls_eqb andb negb]. rewrite IH by (intros x Hx; apply H; right; exact Hx).
  simpl. rewrite <- app_assoc. reflexivity.
Qed.

Lemma lower_plain : forall k, (forall c, In c k -> lower_ch O c = [c]) -> lower O k = k.
Proof.
  induction k as [|c k IH]; intro H; [reflexivity|]. unfold lower in *. cbn [flat_map].
  rewrite (H c (or_introl eq_refl)). rewrite IH by (intros x Hx; apply H; right; exact Hx). reflexivity.
Qed.

Lemma text_word_lwords k : k <> [] -> (forall c, In c k -> cls_of O c = CText /\ lower_ch O c = [c]) -> lwords O k = [k].
Proof.
  intros Hne H. destruct k as [|c k]; [contradiction|].
  unfold lwords, words, pieces. rewrite (proj1 (H c (or_introl eq_refl))).
  rewrite split_acc_text by (intros x Hx; apply H; right; exact Hx).
  cbn [rev app filter]. unfold is_word_piece, piece_cls. cbn [ptext]. rewrite (proj1 (H c (or_introl eq_refl))). cbn [cls_eqb negb map ptext].
  rewrite lower_plain by (intros x Hx; apply H; exact Hx). reflexivity.
Qed.

Lemma kw_char_text c : In c [97; 110; 100; 111; 114; 119; 105; 116; 104]%N -> cls_of O c = CText /\ lower_ch O c = [c].
Proof.
  intro Hc. assert (Hc' : In c [97; 110; 100; 111; 114; 119; 105; 116; 104; 40; 41]%N).
  { simpl in *. intuition. }
  destruct (kw_plain c Hc') as [Hs Hl]. split; [|exact Hl]. unfold cls_of. rewrite Hs.
  simpl in Hc. repeat (destruct Hc as [<-|Hc]; [reflexivity|]). destruct Hc.
Qed.

Lemma paren_lwords c : In c [40; 41]%N -> lwords O [c] = [[c]].
Proof.
  intro Hc. assert (Hc' : In c [97; 110; 100; 111; 114; 119; 105; 116; 104; 40; 41]%N) by (simpl in *; intuition).
  destruct (kw_plain c Hc') as [Hs Hl].
  unfold lwords, words, pieces. cbn [split_acc rev app filter]. unfold is_word_piece, piece_cls. cbn [ptext].
  unfold cls_of. rewrite Hs. unfold lower.
  destruct Hc as [<-|[<-|[]]]; cbn [is_paren N.eqb orb c_lpar c_rpar Pos.eqb cls_eqb negb map ptext flat_map]; rewrite Hl; reflexivity.
Qed.

Lemma kw_lwords k : In k [s_and; s_or; s_lpar; s_rpar; s_with] -> lwords O k = [k].
Proof.
  intros [<-|[<-|[<-|[<-|[<-|[]]]]]].
  - apply text_word_lwords; [discriminate|]. intros c Hc. apply kw_char_text. unfold s_and in Hc. simpl in *. intuition.
  - apply text_word_lwords; [discriminate|]. intros c Hc. apply kw_char_text. unfold s_or in Hc. simpl in *. intuition.
  - apply paren_lwords. left; reflexivity.
  - apply paren_lwords. right; left; reflexivity.
  - apply text_word_lwords; [discriminate|]. intros c Hc. apply kw_char_text. unfold s_with in Hc. simpl in *. intuition.
Qed.

Lemma path1_eqb l k : path_eqb [l] [k] = str_eqb l k.
Proof. cbn. rewrite andb_true_r. reflexivity. Qed.

(* what the five keyword additions store under a one-word path *)
Lemma stored_keywords l : option_map snd (stored O keyword_adds [l]) = kw_of l.
Proof.
  unfold keyword_adds. cbn [stored].
  rewrite !kw_lwords by (simpl; intuition).
  rewrite !path1_eqb. unfold kw_of.
  destruct (str_eqb l s_with) eqn:E5; [apply str_eqb_eq in E5; subst l; reflexivity|].
  destruct (str_eqb l s_rpar) eqn:E4; [apply str_eqb_eq in E4; subst l; reflexivity|].
  destruct (str_eqb l s_lpar) eqn:E3; [apply str_eqb_eq in E3; subst l; reflexivity|].
  destruct (str_eqb l s_or) eqn:E2; [apply str_eqb_eq in E2; subst l; reflexivity|].
  destruct (str_eqb l s_and) eqn:E1; reflexivity.
Qed.

Lemma entries_flat : forall T', (forall e, In e T' -> ealiases e = []) ->
  flat_map (entry_adds O) T' = map (fun e => (ekey e, VSym (entry_sym e))) T'.
Proof.
  induction T' as [|e T' IH]; intro H; [reflexivity|]. cbn [flat_map map]. unfold entry_adds at 1.
  rewrite (H e (or_introl eq_refl)). cbn [flat_map app]. rewrite IH by (intros x Hx; apply H; right; exact Hx). reflexivity.
Qed.

Lemma stored_entries : forall T', (forall e, In e T' -> In e T) -> forall l,
  option_map snd (stored O (map (fun e => (ekey e, VSym (entry_sym e))) T') [l]) = option_map VSym (lookup_lower O T' l).
Proof.
  induction T' as [|e T' IH]; intros Hsub l; [reflexivity|]. cbn [map stored lookup_lower].
  specialize (IH (fun x Hx => Hsub x (or_intror Hx)) l).
  destruct (stored O (map (fun e0 => (ekey e0, VSym (entry_sym e0))) T') [l]) as [o|] eqn:Es;
    destruct (lookup_lower O T' l) as [s|] eqn:El; cbn [option_map] in IH; try discriminate.
  - cbn [option_map]. exact IH.
  - destruct (single_keys e (Hsub e (or_introl eq_refl))) as [Hne [Hw _]].
    destruct (ekey e) as [|c0 k0] eqn:Ek; [contradiction|]. rewrite <- Ek in *. rewrite Hw. rewrite path1_eqb.
    rewrite (str_eqb_sym (lower O (ekey e)) l). destruct (str_eqb l (lower O (ekey e))); reflexivity.
Qed.

Lemma no_keyword_key l : kw_of l <> None -> lookup_lower O T l = None.
Proof.
  intro Hk. assert (G : forall T', (forall e, In e T' -> In e T) -> lookup_lower O T' l = None).
  { induction T' as [|e T' IH]; intro Hsub; [reflexivity|]. cbn [lookup_lower].
    rewrite IH by (intros x Hx; apply Hsub; right; exact Hx).
    destruct (str_eqb (lower O (ekey e)) l) eqn:E; [|reflexivity]. exfalso. apply str_eqb_eq in E.
    destruct (single_keys e (Hsub e (or_introl eq_refl))) as [_ [_ Hnk]]. rewrite E in Hnk.
    apply Hk. unfold kw_of. unfold is_keyword_str in Hnk.
    apply orb_false_iff in Hnk as [Hnk H5]. apply orb_false_iff in Hnk as [Hnk H4].
    apply orb_false_iff in Hnk as [Hnk H3]. apply orb_false_iff in Hnk as [H1 H2].
    rewrite H1, H2, H3, H4, H5. reflexivity. }
  apply G. intros e He; exact He.
Qed.

(* the value found by the default tokenizer's matcher for a one-word path *)
Lemma lookup_spec l : option_map snd (get_out [l] (outs tr)) =
  match lookup_lower O T l with Some s => Some (VSym s) | None => kw_of l end.
Proof.
  unfold build_trie. cbn [outs t_make_automaton].
  change (add_all O t_empty (keyword_adds ++ flat_map (entry_adds O) T)) with (add_ops O t_empty (keyword_adds ++ flat_map (entry_adds O) T)).
  rewrite (get_out_add_ops O _ t_empty [l] eq_refl). rewrite stored_app. rewrite (entries_flat T noalias).
  pose proof (stored_entries T (fun e H => H) l) as He. pose proof (stored_keywords l) as Hk.
  destruct (stored O (map (fun e => (ekey e, VSym (entry_sym e))) T) [l]) as [o|];
    destruct (lookup_lower O T l) as [s|]; cbn [option_map] in He; try discriminate.
  - exact He.
  - cbn [get_out t_empty outs]. destruct (stored O keyword_adds [l]); exact Hk.
Qed.

Lemma trie_single : forall p o, In (p, o) (outs tr) -> length p = 1%nat.
Proof.
  unfold build_trie. cbn [outs t_make_automaton].
  set (ops := keyword_adds ++ flat_map (entry_adds O) T).
  assert (Hops : forall n v, In (n, v) ops -> n <> [] -> length (lwords O n) = 1%nat).
  { intros n v Hin _. unfold ops in Hin. apply in_app_or in Hin as [Hin|Hin].
    - assert (In n [s_and; s_or; s_lpar; s_rpar; s_with]).
      { unfold keyword_adds in Hin. simpl in Hin. repeat (destruct Hin as [E|Hin]; [inversion E; subst; simpl; tauto|]). destruct Hin. }
      rewrite (kw_lwords n H). reflexivity.
    - rewrite (entries_flat T noalias) in Hin. apply in_map_iff in Hin as [e [E He]]. inversion E; subst.
      destruct (single_keys e He) as [_ [Hw _]]. rewrite Hw. reflexivity. }
  assert (G : forall l t, (forall n v, In (n, v) l -> n <> [] -> length (lwords O n) = 1%nat) ->
              (forall p o, In (p, o) (outs t) -> length p = 1%nat) ->
              forall p o, In (p, o) (outs (add_all O t l)) -> length p = 1%nat).
  { induction l as [|[n v] l IH]; intros t Hl Ht p o Hin; [apply (Ht p o Hin)|].
    cbn [add_all fold_left fst snd] in Hin. apply (IH _ (fun n0 v0 H => Hl n0 v0 (or_intror H)) ) with (o := o) in Hin; [exact Hin|].
    intros q o' Hq. unfold t_add in Hq. destruct (conv t); [apply (Ht q o' Hq)|].
    destruct n as [|c n]; [apply (Ht q o' Hq)|].
    destruct (lwords O (c :: n)) as [|w ws] eqn:Ew; [apply (Ht q o' Hq)|]. cbn [outs] in Hq.
    apply set_out_in in Hq as [[-> _]|Hq]; [|apply (Ht q o' Hq)].
    rewrite <- Ew. apply (Hl (c :: n) v (or_introl eq_refl)). discriminate. }
  intros p o Hin. apply (G ops t_empty Hops) with (o := o); [intros q o' [] | exact Hin].
Qed.


(* ---- one word piece under the two tokenizers ---- *)
Variable text : str.
Notation P := (pieces O text).
Notation wps := (filter (is_word_piece O) (pieces O text)).
Notation dt := (dtok O tr text).

Lemma word_piece_nonblank p : In p P -> is_word_piece O p = true -> ptext p <> [] /\ blank O (ptext p) = false.
Proof.
  intros Hp Hw. unfold is_word_piece, piece_cls in Hw. destruct (ptext p) as [|c r] eqn:E; [discriminate|].
  split; [discriminate|]. unfold blank. cbn [forallb]. unfold cls_of in Hw. destruct (is_space O c); [discriminate | reflexivity].
Qed.

Lemma text_piece_lower_no_paren p : In p P -> piece_cls O p = CText ->
  forall x, In x (lower O (ptext p)) -> is_paren x = false.
Proof.
  intros Hp Hc x Hx. unfold lower in Hx. apply in_flat_map in Hx as [c [Hcin Hxc]].
  destruct (piece_cls_spec O text p Hp) as [Hall _]. specialize (Hall c Hcin). rewrite Hc in Hall.
  apply (lower_no_paren c x); [|exact Hxc]. unfold cls_of in Hall. destruct (is_space O c); [discriminate|].
  destruct (is_paren c); [discriminate | reflexivity].
Qed.

Lemma get_out_value l v : option_map snd (get_out [l] (outs tr)) = Some v -> exists sp0, get_out [l] (outs tr) = Some (sp0, v).
Proof. destruct (get_out [l] (outs tr)) as [[sp0 v0]|]; cbn; intro H; inversion H; subst. exists sp0. reflexivity. Qed.

Lemma get_out_none l : option_map snd (get_out [l] (outs tr)) = None -> get_out [l] (outs tr) = None.
Proof. destruct (get_out [l] (outs tr)); cbn; intro H; [discriminate | reflexivity]. Qed.

Lemma dtok_matched p v : In p P -> option_map snd (get_out [lower O (ptext p)] (outs tr)) = Some v ->
  h_tok O (dt p) = Ok {| tstart := pstart p; tend := pend p; tstring := ptext p; tvalue := Some v |}.
Proof.
  intros Hp H. destruct (get_out_value _ _ H) as [sp0 G]. unfold dtok. rewrite G. unfold h_tok, matched. cbn [tvalue].
  rewrite <- (piece_is_slice O text p Hp). reflexivity.
Qed.

Theorem same_token p : In p P -> is_word_piece O p = true -> h_tok O (dt p) = simple_token O T p.
Proof.
  intros Hp Hw. unfold simple_token.
  destruct (piece_cls O p) eqn:Ec.
  - unfold is_word_piece in Hw. rewrite Ec in Hw. discriminate.
  - (* a parenthesis *)
    destruct (piece_cls_spec O text p Hp) as [Hall Hlen]. specialize (Hlen Ec).
    destruct (ptext p) as [|c [|c2 r]] eqn:Et; try discriminate.
    assert (Hcp : is_paren c = true).
    { specialize (Hall c (or_introl eq_refl)). rewrite Ec in Hall. unfold cls_of in Hall.
      destruct (is_space O c); [discriminate|]. destruct (is_paren c); [reflexivity | discriminate]. }
    assert (Hc : c = 40%N \/ c = 41%N).
    { unfold is_paren, c_lpar, c_rpar in Hcp. apply orb_true_iff in Hcp as [H|H]; apply N.eqb_eq in H; [left | right]; exact H. }
    assert (Hl : lower O [c] = [c]).
    { unfold lower. cbn [flat_map]. rewrite app_nil_r.
      assert (Hin : In c [97; 110; 100; 111; 114; 119; 105; 116; 104; 40; 41]%N) by (destruct Hc as [-> | ->]; simpl; tauto).
      exact (proj2 (kw_plain c Hin)). }
    assert (Hk : kw_of [c] = Some (VKw (if str_eqb [c] s_lpar then KLp else KRp))).
    { destruct Hc as [-> | ->]; reflexivity. }
    rewrite <- Et. apply dtok_matched; [exact Hp|]. rewrite Et, Hl, lookup_spec.
    rewrite (no_keyword_key [c]) by (rewrite Hk; discriminate). exact Hk.
  - (* a word *)
    set (l := lower O (ptext p)).
    assert (Hnp : str_eqb l s_lpar = false /\ str_eqb l s_rpar = false).
    { pose proof (text_piece_lower_no_paren p Hp Ec) as Hno. fold l in Hno. split; apply str_eqb_neq; intro E; rewrite E in Hno.
      - specialize (Hno 40%N (or_introl eq_refl)). discriminate.
      - specialize (Hno 41%N (or_introl eq_refl)). discriminate. }
    destruct Hnp as [N1 N2].
    pose proof (lookup_spec l) as Hs.
    destruct (str_eqb l s_and) eqn:E1.
    { apply dtok_matched; [exact Hp|]. fold l. rewrite Hs. rewrite (no_keyword_key l) by (unfold kw_of; rewrite E1; discriminate).
      unfold kw_of. rewrite E1. reflexivity. }
    destruct (str_eqb l s_or) eqn:E2.
    { apply dtok_matched; [exact Hp|]. fold l. rewrite Hs. rewrite (no_keyword_key l) by (unfold kw_of; rewrite E1, E2; discriminate).
      unfold kw_of. rewrite E1, E2. reflexivity. }
    destruct (str_eqb l s_with) eqn:E3.
    { apply dtok_matched; [exact Hp|]. fold l. rewrite Hs. rewrite (no_keyword_key l) by (unfold kw_of; rewrite E1, E2, E3; discriminate).
      unfold kw_of. rewrite E1, E2, E3. reflexivity. }
    destruct (lookup_lower O T l) as [s|] eqn:El.
    + apply dtok_matched; [exact Hp|]. fold l. exact Hs.
    + unfold kw_of in Hs. rewrite E1, E2, E3, N1, N2 in Hs. apply get_out_none in Hs.
      unfold dtok. fold l. rewrite Hs. unfold h_tok, unmatched. cbn [tvalue tstring tstart tend]. reflexivity.
Qed.

(* ---- the two token lists after the unknown-run merger and the blank filter ---- *)
Notation g := (simple_token O T).

Lemma simple_tokens_mapo : forall ps, simple_tokens O T ps = mapo g ps.
Proof. induction ps as [|p ps IH]; [reflexivity|]. cbn [simple_tokens mapo]. rewrite IH. reflexivity. Qed.

Lemma simple_token_shape p t : g p = Ok t -> tstring t = ptext p /\ (tvalue t = None -> piece_cls O p = CSpace).
Proof.
  unfold simple_token. destruct (piece_cls O p).
  - intro H; inversion H; subst. split; [reflexivity | reflexivity].
  - intro H; inversion H; subst. split; [reflexivity | discriminate].
  - destruct (str_eqb (lower O (ptext p)) s_and); [intro H; inversion H; subst; split; [reflexivity | discriminate]|].
    destruct (str_eqb (lower O (ptext p)) s_or); [intro H; inversion H; subst; split; [reflexivity | discriminate]|].
    destruct (str_eqb (lower O (ptext p)) s_with); [intro H; inversion H; subst; split; [reflexivity | discriminate]|].
    destruct (lookup_lower O T (lower O (ptext p))); [intro H; inversion H; subst; split; [reflexivity | discriminate]|].
    destruct (mk_symbol O (ptext p) false); cbn [obind]; intro H; inversion H; subst. split; [reflexivity | discriminate].
Qed.

Lemma space_piece_token p : In p P -> is_word_piece O p = false ->
  exists t, g p = Ok t /\ (tstring t = [] \/ tok_blank O t = true).
Proof.
  intros Hp Hw. unfold is_word_piece in Hw. apply negb_false_iff in Hw.
  assert (Ec : piece_cls O p = CSpace) by (destruct (piece_cls O p); try discriminate; reflexivity).
  unfold simple_token. rewrite Ec. eexists. split; [reflexivity|]. right. unfold tok_blank. cbn [tstring].
  unfold blank. apply forallb_forall. intros c Hc. destruct (piece_cls_spec O text p Hp) as [Hall _].
  specialize (Hall c Hc). rewrite Ec in Hall. unfold cls_of in Hall. destruct (is_space O c); [reflexivity|].
  destruct (is_paren c); discriminate.
Qed.

Lemma drop_blank_cons_keep (t : ltok) r : tstring t <> [] -> tok_blank O t = false -> drop_blank O (t :: r) = t :: drop_blank O r.
Proof. intros H1 H2. unfold drop_blank. cbn [filter]. destruct (tstring t); [contradiction|]. rewrite H2. reflexivity. Qed.

Lemma drop_blank_cons_drop (t : ltok) r : (tstring t = [] \/ tok_blank O t = true) -> drop_blank O (t :: r) = drop_blank O r.
Proof. intros [H|H]; unfold drop_blank; cbn [filter]; [rewrite H; reflexivity | destruct (tstring t); [reflexivity | rewrite H; reflexivity]]. Qed.

(* the blank filter after the simple tokenizer = the simple tokenizer on the non-blank pieces *)
Lemma simple_side {B} : forall ps, (forall p, In p ps -> In p P) -> forall (K : list ltok -> outcome B),
  obind (mapo g ps) (fun S => K (drop_blank O S)) = obind (mapo g (filter (is_word_piece O) ps)) K.
Proof.
  induction ps as [|p ps IH]; intros Hsub K; [reflexivity|].
  assert (Hsub' : forall q, In q ps -> In q P) by (intros q Hq; apply Hsub; right; exact Hq).
  cbn [mapo filter]. destruct (is_word_piece O p) eqn:Ew.
  - cbn [mapo]. destruct (g p) as [t| | | | |] eqn:Eg; try reflexivity. cbn [obind].
    destruct (simple_token_shape p t Eg) as [Hs _].
    destruct (word_piece_nonblank p (Hsub p (or_introl eq_refl)) Ew) as [Hne Hnb].
    specialize (IH Hsub' (fun r => K (t :: r))).
    rewrite !obind_assoc. cbn [obind]. rewrite <- IH.
    destruct (mapo g ps) as [S| | | | |] eqn:Em; try reflexivity. cbn [obind].
    rewrite drop_blank_cons_keep; [reflexivity | rewrite Hs; exact Hne | unfold tok_blank; rewrite Hs; exact Hnb].
  - destruct (space_piece_token p (Hsub p (or_introl eq_refl)) Ew) as [t [Eg Hb]]. rewrite Eg. cbn [obind].
    specialize (IH Hsub' K). rewrite obind_assoc. cbn [obind]. rewrite <- IH.
    destruct (mapo g ps) as [S| | | | |] eqn:Em; try reflexivity. cbn [obind].
    rewrite drop_blank_cons_drop by exact Hb. reflexivity.
Qed.

Lemma simple_valued : forall ps S, (forall p, In p ps -> In p P) -> mapo g ps = Ok S ->
  forall t, In t S -> tvalue t = None -> tok_blank O t = true.
Proof.
  intros ps S Hsub Hm t Ht Hv. destruct (mapo_in g ps S Hm t Ht) as [p [Hp Eg]].
  destruct (simple_token_shape p t Eg) as [Hs Hc]. specialize (Hc Hv).
  unfold tok_blank. rewrite Hs. unfold blank. apply forallb_forall. intros c Hcin.
  destruct (piece_cls_spec O text p (Hsub p Hp)) as [Hall _]. specialize (Hall c Hcin). rewrite Hc in Hall.
  unfold cls_of in Hall. destruct (is_space O c); [reflexivity|]. destruct (is_paren c); discriminate.
Qed.

Lemma word_tokens_kept : forall ps R, (forall p, In p ps -> In p P /\ is_word_piece O p = true) -> mapo g ps = Ok R ->
  drop_blank O R = R.
Proof.
  induction ps as [|p ps IH]; intros R Hall Hm; cbn [mapo] in Hm.
  - inversion Hm; subst. reflexivity.
  - destruct (g p) as [t| | | | |] eqn:Eg; try discriminate. cbn [obind] in Hm.
    destruct (mapo g ps) as [R0| | | | |] eqn:Em; try discriminate. cbn [obind] in Hm. inversion Hm; subst.
    destruct (Hall p (or_introl eq_refl)) as [Hp Hw]. destruct (word_piece_nonblank p Hp Hw) as [Hne Hnb].
    destruct (simple_token_shape p t Eg) as [Hs _].
    rewrite drop_blank_cons_keep; [|rewrite Hs; exact Hne | unfold tok_blank; rewrite Hs; exact Hnb].
    f_equal. apply (IH R0); [|reflexivity]. intros q Hq. apply Hall. right; exact Hq.
Qed.

(* ---- the agreement ---- *)
(* a word that is neither an operator nor a parenthesis *)
Definition plain_word (p : piece) : Prop := kw_of (lower O (ptext p)) = None.
(* the premise of the property on the text: no two such words next to each other *)
Definition no_adjacent_plain : Prop :=
  forall pre p q post, wps = pre ++ p :: q :: post -> ~ (plain_word p /\ plain_word q).

Lemma unmatched_is_plain p : tvalue (dt p) = None -> plain_word p.
Proof.
  unfold dtok. destruct (get_out [lower O (ptext p)] (outs tr)) as [[sp0 v]|] eqn:G; [discriminate|]. intros _.
  pose proof (lookup_spec (lower O (ptext p))) as Hs. rewrite G in Hs. cbn [option_map] in Hs.
  unfold plain_word. destruct (lookup_lower O T (lower O (ptext p))); [discriminate | symmetry; exact Hs].
Qed.

Lemma alt_from_text : no_adjacent_plain -> alt (map dt wps).
Proof.
  unfold no_adjacent_plain. generalize wps. intro ws.
  assert (G : forall pre l, ws = pre ++ l ->
              (forall pre0 p q post, ws = pre0 ++ p :: q :: post -> ~ (plain_word p /\ plain_word q)) -> alt (map dt l)).
  { intros pre l. revert pre. induction l as [|p l IH]; intros pre E H; [exact I|].
    destruct l as [|q l]; [exact I|]. cbn [map alt]. split.
    - intros Hp Hq. apply (H pre p q l E). split; apply unmatched_is_plain; assumption.
    - apply (IH (pre ++ [p])); [rewrite <- app_assoc; exact E | exact H]. }
  intro H. apply (G [] ws eq_refl H).
Qed.

Hypothesis isolated : alt (map dt wps).

Theorem tokenizers_agree strict : lic_tokenize O T strict false text = lic_tokenize O T strict true text.
Proof.
  unfold lic_tokenize. destruct text as [|c0 s0] eqn:Etext; [reflexivity|]. rewrite <- Etext in *.
  set (K0 := fun R : list ltok => replace_with O strict (group_with R)).
  (* the default tokenizer *)
  rewrite (single_word_tokenize O tr (build_trie_wf O T) trie_single text). cbn [obind].
  assert (Hnb : forall t, In t (map dt wps) -> tvalue t = None -> tok_blank O t = false).
  { intros t Ht Hv. apply in_map_iff in Ht as [p [<- Hp]]. apply filter_In in Hp as [Hp Hw].
    unfold dtok in *. destruct (get_out [lower O (ptext p)] (outs tr)) as [[sp0 v]|]; [discriminate|].
    unfold tok_blank, unmatched. cbn [tstring]. apply (word_piece_nonblank p Hp Hw). }
  destruct (build_unknown_alt O (map dt wps) isolated Hnb) as [Hbu _]. rewrite Hbu. rewrite mapo_map.
  rewrite (mapo_ext (fun p => h_tok O (dt p)) g wps) by (intros p Hp; apply filter_In in Hp as [Hp Hw]; apply same_token; assumption).
  (* the simple tokenizer *)
  rewrite simple_tokens_mapo.
  transitivity (obind (mapo g P) (fun S => K0 (drop_blank O S))).
  - rewrite (simple_side P (fun p H => H) K0).
    destruct (mapo g wps) as [R| | | | |] eqn:Em; try reflexivity. cbn [obind]. unfold K0.
    rewrite (word_tokens_kept wps R); [reflexivity | | exact Em]. intros p Hp. apply filter_In in Hp. exact Hp.
  - destruct (mapo g P) as [S| | | | |] eqn:Em; try reflexivity. cbn [obind].
    rewrite (build_unknown_valued O S (simple_valued P S (fun p H => H) Em)). reflexivity.
Qed.

Theorem parse_agrees validate strict :
  parse O T validate strict false text = parse O T validate strict true text.
Proof. unfold parse, parse_tokens. rewrite tokenizers_agree. reflexivity. Qed.

End Table.
