(* Every expression the boolean parser returns is well formed: every AND / OR it builds has two or more operands. *)
Require Import Model.Base Model.Expr Model.LicTok Model.BoolParse.
Require Import Proofs.ParseSound.
From Coq Require Import Lia.
Open Scope nat_scope.

Definition allwf (l : list expr) : Prop := Forall (fun e => wf e = true) l.
Definition inv (s : list frame) : Prop := Forall (fun f => allwf (snd f)) s.

Lemma allwf_forallb l : allwf l -> forallb wf l = true.
Proof. intro H. apply forallb_forall. intros x Hx. unfold allwf in H. rewrite Forall_forall in H. apply H; exact Hx. Qed.

Lemma mkf_wf o a e : allwf a -> mkf o a = Some e -> wf e = true.
Proof.
  intros Ha H. unfold mkf in H. destruct o; try discriminate.
  - destruct (Nat.ltb (length a) 2) eqn:E; [discriminate|]. inversion H; subst. cbn [wf].
    apply Nat.ltb_ge in E. apply andb_true_iff. split; [apply Nat.leb_le; exact E | apply allwf_forallb; exact Ha].
  - destruct (Nat.ltb (length a) 2) eqn:E; [discriminate|]. inversion H; subst. cbn [wf].
    apply Nat.ltb_ge in E. apply andb_true_iff. split; [apply Nat.leb_le; exact E | apply allwf_forallb; exact Ha].
Qed.

Lemma allwf_snoc a e : allwf a -> wf e = true -> allwf (a ++ [e]).
Proof. intros Ha He. apply Forall_app. split; [exact Ha | constructor; [exact He | constructor]]. Qed.

Lemma allwf_rev a : allwf a -> allwf (rev a).
Proof. intro H. apply Forall_rev. exact H. Qed.

Lemma start_op_wf o : forall fuel s s', inv s -> start_op fuel s o = SOk s' -> inv s'.
Proof.
  induction fuel as [|fuel IH]; intros s s' Hi H; [discriminate|]. cbn [start_op] in H.
  destruct s as [|[co a] rest]; [discriminate|]. pose proof Hi as Hi0. apply Forall_cons_iff in Hi as [Ha Hr]. cbn [snd] in Ha.
  assert (Gen : (if Nat.ltb (prec o) (prec co) then
       match rev a with
       | [] => SErr (PLeak IndexError)
       | x :: ra => SOk ((o, [x]) :: (co, rev ra) :: rest)
       end
     else if Nat.eqb (prec o) (prec co) then SOk ((co, a) :: rest)
     else match rest with
          | [] => match mkf co a with Some e => SOk [(o, [e])] | None => SErr PArity end
          | (po, pa) :: rest' =>
              match mkf co a with
              | Some e => start_op fuel ((po, pa ++ [e]) :: rest') o
              | None => SErr PArity
              end
          end) = SOk s' -> inv s').
  { intro G. destruct (Nat.ltb (prec o) (prec co)).
    - pose proof (allwf_rev a Ha) as Hra. destruct (rev a) as [|x ra] eqn:Er; [discriminate|]. inversion G; subst.
      inversion Hra as [|? ? Hx Hra']; subst.
      constructor; [cbn; constructor; [exact Hx | constructor]|]. constructor; [cbn; apply allwf_rev; exact Hra' | exact Hr].
    - destruct (Nat.eqb (prec o) (prec co)); [inversion G; subst; exact Hi0|].
      destruct rest as [|[po pa] rest'].
      + destruct (mkf co a) as [e|] eqn:Em; [|discriminate]. inversion G; subst.
        constructor; [cbn; constructor; [apply (mkf_wf co a e Ha Em) | constructor] | constructor].
      + destruct (mkf co a) as [e|] eqn:Em; [|discriminate]. refine (IH _ _ _ G).
        apply Forall_cons_iff in Hr as [Hpa Hr']. cbn [snd] in Hpa. constructor; [cbn; apply allwf_snoc; [exact Hpa | apply (mkf_wf co a e Ha Em)] | exact Hr']. }
  destruct co; [inversion H; subst; constructor; [exact Ha | exact Hr] | apply Gen; exact H | apply Gen; exact H | apply Gen; exact H].
Qed.

Lemma close_par_wf ts tp : forall fuel s s', inv s -> close_par fuel s ts tp = SOk s' -> inv s'.
Proof.
  induction fuel as [|fuel IH]; intros s s' Hi H; [discriminate|]. cbn [close_par] in H.
  destruct s as [|[co a] [|[po pa] rest]]; [discriminate | destruct co; discriminate |].
  apply Forall_cons_iff in Hi as [Ha Hr]. cbn [snd] in Ha. apply Forall_cons_iff in Hr as [Hpa Hr']. cbn [snd] in Hpa.
  destruct co.
  - discriminate.
  - destruct (mkf FAnd a) as [e|] eqn:Em; [|discriminate]. refine (IH _ _ _ H).
    constructor; [cbn; apply allwf_snoc; [exact Hpa | apply (mkf_wf FAnd a e Ha Em)] | exact Hr'].
  - destruct (mkf FOr a) as [e|] eqn:Em; [|discriminate]. refine (IH _ _ _ H).
    constructor; [cbn; apply allwf_snoc; [exact Hpa | apply (mkf_wf FOr a e Ha Em)] | exact Hr'].
  - destruct a as [|x a']; [discriminate|]. inversion H; subst. inversion Ha as [|? ? Hx _]; subst.
    constructor; [cbn; apply allwf_snoc; assumption | exact Hr'].
Qed.

Lemma step1_wf s prev t s' : inv s -> step1 s prev t = SOk s' -> inv s'.
Proof.
  intros Hi H. unfold step1 in H. destruct (check prev (pt t)); [discriminate|].
  destruct (pt t) as [a| | | |].
  - destruct s as [|[o args] rest]; [discriminate|]. inversion H; subst. apply Forall_cons_iff in Hi as [Ha Hr]. cbn [snd] in Ha.
    constructor; [cbn; apply allwf_snoc; [exact Ha | reflexivity] | exact Hr].
  - apply (start_op_wf FAnd _ _ _ Hi H).
  - apply (start_op_wf FOr _ _ _ Hi H).
  - destruct prev as [[a| | | |]|]; try discriminate; inversion H; subst; (constructor; [cbn; constructor | exact Hi]).
  - apply (close_par_wf _ _ _ _ _ Hi H).
Qed.

Lemma run_wf : forall ts s prev s' p', inv s -> run s prev ts = ROk s' p' -> inv s'.
Proof.
  induction ts as [|t ts IH]; intros s prev s' p' Hi H; cbn [run] in H; [inversion H; subst; exact Hi|].
  destruct (step1 s prev t) as [s1|e] eqn:E1; [|discriminate]. apply (IH _ _ _ _ (step1_wf _ _ _ _ Hi E1) H).
Qed.

Lemma finish_wf : forall fuel s e, inv s -> finish fuel s = POk e -> wf e = true.
Proof.
  induction fuel as [|fuel IH]; intros s e Hi H; [discriminate|]. cbn [finish] in H.
  destruct s as [|[co a] [|[po pa] rest]]; [discriminate | |].
  - apply Forall_cons_iff in Hi as [Ha _]. cbn [snd] in Ha. destruct co.
    + destruct a as [|x [|y a']]; try discriminate. inversion H; subst. inversion Ha; subst. assumption.
    + destruct (mkf FAnd a) as [e0|] eqn:Em; [|discriminate]. inversion H; subst. apply (mkf_wf FAnd a e Ha Em).
    + destruct (mkf FOr a) as [e0|] eqn:Em; [|discriminate]. inversion H; subst. apply (mkf_wf FOr a e Ha Em).
    + discriminate.
  - apply Forall_cons_iff in Hi as [Ha Hr]. cbn [snd] in Ha. apply Forall_cons_iff in Hr as [Hpa Hr']. cbn [snd] in Hpa.
    destruct co.
    + destruct (mkf FNone a) as [e0|] eqn:Em; [|discriminate]. unfold mkf in Em. discriminate.
    + destruct (mkf FAnd a) as [e0|] eqn:Em; [|discriminate]. refine (IH _ _ _ H).
      constructor; [cbn; apply allwf_snoc; [exact Hpa | apply (mkf_wf FAnd a e0 Ha Em)] | exact Hr'].
    + destruct (mkf FOr a) as [e0|] eqn:Em; [|discriminate]. refine (IH _ _ _ H).
      constructor; [cbn; apply allwf_snoc; [exact Hpa | apply (mkf_wf FOr a e0 Ha Em)] | exact Hr'].
    + discriminate.
Qed.

Theorem bparse_wf ts e : bparse ts = POk e -> wf e = true.
Proof.
  unfold bparse. destruct (run [(FNone, [])] None ts) as [s p|r] eqn:R.
  - intro F. assert (I0 : inv [(FNone, [])]) by (constructor; [cbn; constructor | constructor]).
    apply (finish_wf _ _ _ (run_wf _ _ _ _ _ I0 R) F).
  - intro H. subst r. exfalso. eapply run_err. exact R.
Qed.
