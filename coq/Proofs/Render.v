(* C05: the token sequence of a rendered expression re-parses to the expression. *)
Require Import Model.Base Model.Expr Model.LicTok Model.BoolParse.
Require Import Proofs.BoolParse.
From Coq Require Import Lia.
Open Scope nat_scope.

Section Render.
Variable i0 : info.            (* token strings / positions are irrelevant to the result *)
Variable wrap_with : bool.     (* render_as_readable: WITH pairs in parentheses *)

Definition dummy_prim : prim := PA (Plain {| key := []; exc := false |}) i0.

Fixpoint list_and (ps : list prim) : andx :=
  match ps with
  | [] => A1 dummy_prim
  | [p] => A1 p
  | p :: ps' => ACons p i0 (list_and ps')
  end.
Fixpoint list_or (ps : list prim) : orx :=
  match ps with
  | [] => O1 (A1 dummy_prim)
  | [p] => O1 (A1 p)
  | p :: ps' => OCons (A1 p) i0 (list_or ps')
  end.

Definition atom_prim (a : atom) : prim :=
  match a with
  | With _ _ => if wrap_with then PP i0 i0 (O1 (A1 (PA a i0))) else PA a i0
  | Plain _ => PA a i0
  end.

(* an operand of AND / OR: a license, or a parenthesised compound *)
Fixpoint to_prim (e : expr) : prim :=
  match e with
  | Lit a => atom_prim a
  | And xs => PP i0 i0 (O1 (list_and (map to_prim xs)))
  | Or xs => PP i0 i0 (list_or (map to_prim xs))
  end.

(* the surface syntax of render(e) *)
Definition to_or (e : expr) : orx :=
  match e with
  | Lit a => O1 (A1 (atom_prim a))
  | And xs => O1 (list_and (map to_prim xs))
  | Or xs => list_or (map to_prim xs)
  end.

Lemma trees_list_and ps : ps <> [] -> trees_and (list_and ps) = map tree_prim ps.
Proof.
  induction ps as [|p ps IH]; intro H; [contradiction|]. destruct ps as [|q ps]; [reflexivity|].
  change (trees_and (ACons p i0 (list_and (q :: ps))) = tree_prim p :: map tree_prim (q :: ps)).
  cbn [trees_and]. f_equal. apply IH; discriminate.
Qed.

Lemma trees_list_or ps : ps <> [] -> trees_or (list_or ps) = map tree_prim ps.
Proof.
  induction ps as [|p ps IH]; intro H; [contradiction|]. destruct ps as [|q ps]; [reflexivity|].
  change (trees_or (OCons (A1 p) i0 (list_or (q :: ps))) = tree_prim p :: map tree_prim (q :: ps)).
  cbn [trees_or trees_and]. unfold mkAnd at 1. f_equal. apply IH; discriminate.
Qed.

Lemma tree_atom_prim a : tree_prim (atom_prim a) = Lit a.
Proof. destruct a; [reflexivity|]. unfold atom_prim. destruct wrap_with; reflexivity. Qed.

Lemma map_id_on {A} (f : A -> A) l : Forall (fun x => f x = x) l -> map f l = l.
Proof. intro H. induction H as [|x l Hx _ IH]; [reflexivity|]. simpl. rewrite Hx, IH. reflexivity. Qed.

Lemma tree_to_prim : forall e, wf e = true -> tree_prim (to_prim e) = e.
Proof.
  induction e as [a|xs IH|xs IH] using expr_ind'; intro W.
  - apply tree_atom_prim.
  - cbn [wf] in W. apply andb_true_iff in W as [Wl Wx]. apply Nat.leb_le in Wl.
    cbn [to_prim tree_prim trees_or]. rewrite trees_list_and by (destruct xs; [simpl in Wl; lia | discriminate]).
    rewrite map_map. rewrite (map_id_on (fun x => tree_prim (to_prim x)) xs).
    + rewrite mkAnd_2 by exact Wl. reflexivity.
    + apply Forall_forall. intros x Hx. rewrite Forall_forall in IH. apply IH; [exact Hx|]. rewrite forallb_forall in Wx. apply Wx, Hx.
  - cbn [wf] in W. apply andb_true_iff in W as [Wl Wx]. apply Nat.leb_le in Wl.
    cbn [to_prim tree_prim]. rewrite trees_list_or by (destruct xs; [simpl in Wl; lia | discriminate]).
    rewrite map_map. rewrite (map_id_on (fun x => tree_prim (to_prim x)) xs).
    + rewrite mkOr_2 by exact Wl. reflexivity.
    + apply Forall_forall. intros x Hx. rewrite Forall_forall in IH. apply IH; [exact Hx|]. rewrite forallb_forall in Wx. apply Wx, Hx.
Qed.

Lemma tree_to_or e : wf e = true -> tree_or (to_or e) = e.
Proof.
  intro W. destruct e as [a|xs|xs].
  - destruct a; unfold to_or, atom_prim; [reflexivity|]. destruct wrap_with; reflexivity.
  - pose proof (tree_to_prim (And xs) W) as H. cbn [to_prim tree_prim trees_or] in H. exact H.
  - pose proof (tree_to_prim (Or xs) W) as H. cbn [to_prim tree_prim] in H. exact H.
Qed.

(* the rendered token sequence parses back to the expression *)
Theorem render_tokens_roundtrip e : wf e = true -> bparse (tok_or (to_or e)) = POk e.
Proof. intro W. rewrite bparse_complete, tree_to_or by exact W. reflexivity. Qed.

End Render.

(* ---- the token strings of the rendering: operators, parentheses and licenses in order ---- *)
Inductive rtok := RSym (a : atom) | RAnd | ROr | RLp | RRp.

Definition kind_of (t : ptok) : rtok :=
  match pt t with TS a => RSym a | TA => RAnd | TO => ROr | TL => RLp | TR => RRp end.

(* what render_with writes, as a sequence of items (a license item stands for the template applied
   to the license; WITH pairs are one item) *)
Definition atom_items (wrap : bool) (a : atom) : list rtok :=
  match a with
  | With _ _ => if wrap then [RLp; RSym a; RRp] else [RSym a]
  | Plain _ => [RSym a]
  end.
Fixpoint intersperse (sep : rtok) (l : list (list rtok)) : list rtok :=
  match l with
  | [] => []
  | [x] => x
  | x :: l' => x ++ sep :: intersperse sep l'
  end.
Fixpoint render_items (wrap : bool) (e : expr) : list rtok :=
  match e with
  | Lit a => atom_items wrap a
  | And xs => intersperse RAnd (map (fun x => if is_lit x then render_items wrap x else RLp :: render_items wrap x ++ [RRp]) xs)
  | Or xs => intersperse ROr (map (fun x => if is_lit x then render_items wrap x else RLp :: render_items wrap x ++ [RRp]) xs)
  end.

(* the rendered string is the concatenation of the items' strings: operators and parentheses are
   fixed texts, every license is the template [f] applied to it *)
Definition item_str (f : sym -> str) (t : rtok) : str :=
  match t with
  | RSym (Plain s) => f s
  | RSym (With l r) => f l ++ s_WITH_sp ++ f r
  | RAnd => s_AND_sp
  | ROr => s_OR_sp
  | RLp => [c_lpar]
  | RRp => [c_rpar]
  end.

Lemma flat_map_app' {A B} (g : A -> list B) l1 l2 : flat_map g (l1 ++ l2) = flat_map g l1 ++ flat_map g l2.
Proof. induction l1 as [|x l1 IH]; [reflexivity|]. simpl. rewrite IH, app_assoc. reflexivity. Qed.

Lemma join_intersperse f (sepstr : str) (sep : rtok) (strs : list str) (items : list (list rtok)) :
  item_str f sep = sepstr -> map (flat_map (item_str f)) items = strs ->
  join sepstr strs = flat_map (item_str f) (intersperse sep items).
Proof.
  intros Hsep. revert strs. induction items as [|x items IH]; intros strs H; simpl in H; subst strs; [reflexivity|].
  destruct items as [|y items]; [reflexivity|].
  change (join sepstr (flat_map (item_str f) x :: map (flat_map (item_str f)) (y :: items)))
    with (flat_map (item_str f) x ++ sepstr ++ join sepstr (map (flat_map (item_str f)) (y :: items))).
  rewrite (IH _ eq_refl). cbn [intersperse]. rewrite flat_map_app'. cbn [flat_map]. rewrite Hsep. reflexivity.
Qed.

Theorem render_is_items f wrap : forall e, render_with f wrap e = flat_map (item_str f) (render_items wrap e).
Proof.
  induction e as [a|xs IH|xs IH] using expr_ind'.
  - destruct a as [s|l r]; simpl; [rewrite app_nil_r; reflexivity|].
    destruct wrap; simpl; rewrite ?app_nil_r; [|reflexivity]. unfold paren. simpl. rewrite <- !app_assoc. reflexivity.
  - cbn [render_with render_items]. apply join_intersperse; [reflexivity|].
    rewrite map_map. apply map_ext_in. intros x Hx. rewrite Forall_forall in IH. cbn zeta.
    destruct (is_lit x); [symmetry; apply IH; exact Hx|]. unfold paren. cbn [flat_map item_str]. rewrite flat_map_app'.
    rewrite <- (IH x Hx). simpl. rewrite ?app_nil_r. reflexivity.
  - cbn [render_with render_items]. apply join_intersperse; [reflexivity|].
    rewrite map_map. apply map_ext_in. intros x Hx. rewrite Forall_forall in IH. cbn zeta.
    destruct (is_lit x); [symmetry; apply IH; exact Hx|]. unfold paren. cbn [flat_map item_str]. rewrite flat_map_app'.
    rewrite <- (IH x Hx). simpl. rewrite ?app_nil_r. reflexivity.
Qed.

(* hence: rendering with a template is the default rendering with every license key replaced by the
   template applied to that license, operators and parentheses untouched *)
Corollary render_template f wrap e :
  render_with f wrap e = flat_map (item_str f) (render_items wrap e) /\
  render_with key wrap e = flat_map (item_str key) (render_items wrap e).
Proof. split; apply render_is_items. Qed.
