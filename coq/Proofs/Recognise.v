(* C04 / C15: a text that spells one stored name (any case, any white space, also around
   parentheses) is tokenized to exactly one token - the whole-span match with that name's value -
   and parsed to that symbol. *)
Require Import Model.Base Model.Expr Model.Split Model.Trie Model.Overlap Model.LicTok Model.BoolParse Model.Licensing.
Require Import Proofs.Symbol Proofs.Split Proofs.Overlap Proofs.Trie.
Require Proofs.WithGroup Proofs.Strict.
From Coq Require Import Lia ZifyBool.
Open Scope Z_scope.

Section FilterSingle.
Context {V : Type}.
Notation tok := (Trie.tok V).

(* Token.sort puts a key-minimal token first *)
Definition key_le (a b : tok) : Prop := key_ltb b a = false.
Fixpoint sorted_key (l : list tok) : Prop :=
  match l with
  | [] => True
  | a :: l' => (forall b, In b l' -> key_le a b) /\ sorted_key l'
  end.

Lemma insert_tok_sorted_key (x : tok) l : sorted_key l -> sorted_key (insert_tok x l).
Proof.
  induction l as [|y l IH]; intro H; simpl; [split; [intros b []|exact I]|].
  destruct H as [Hy Hl]. destruct (key_ltb x y) eqn:E.
  - simpl. split; [|split; assumption].
    intros b [<-|Hb]; unfold key_le, key_ltb, tok_len in *; [lia|]. specialize (Hy b Hb). lia.
  - simpl. split; [|apply IH; exact Hl].
    intros b Hb. apply insert_tok_in in Hb as [<-|Hb]; [exact E | apply Hy; exact Hb].
Qed.

Lemma sort_tokens_sorted_key (l : list tok) : sorted_key (sort_tokens l).
Proof.
  unfold sort_tokens. assert (G : forall l acc, sorted_key acc -> sorted_key (fold_left (fun acc x => insert_tok x acc) l acc)).
  { induction l0 as [|x l0 IH]; intros acc H; simpl; [exact H | apply IH, insert_tok_sorted_key, H]. }
  apply G. exact I.
Qed.

Lemma fo_inner_all_contained (c : tok) : forall rest,
  (forall n, In n rest -> tcontains c n = true /\ tstart n <= tend n) ->
  fo_inner c [] rest = (true, []).
Proof.
  induction rest as [|n rest IH]; intro H; [reflexivity|]. simpl.
  destruct (H n (or_introl eq_refl)) as [Hc Hn].
  assert (Ha : is_after n c = false) by (unfold is_after, tcontains in *; lia).
  rewrite Ha, Hc. apply IH. intros m Hm. apply H. right; exact Hm.
Qed.

(* a token that contains all the others, and is the only one with its span, is what remains *)
Theorem fo_single (l : list tok) (c : tok) :
  In c l ->
  (forall t, In t l -> tcontains c t = true /\ tstart t <= tend t) ->
  (forall t, In t l -> tstart t = tstart c -> tend t = tend c -> t = c) ->
  filter_overlapping l = [c].
Proof.
  intros Hc Hall Huniq. unfold filter_overlapping.
  pose proof (sort_tokens_sorted_key l) as Hs.
  assert (Hin : forall t, In t (sort_tokens l) <-> In t l) by (intro t; apply sort_tokens_in).
  destruct (sort_tokens l) as [|h rest] eqn:E.
  - exfalso. apply (proj2 (Hin c)) in Hc. destruct Hc.
  - destruct Hs as [Hh Hrest].
    assert (Hhc : h = c).
    { assert (Hhl : In h l) by (apply Hin; left; reflexivity).
      destruct (Hall h Hhl) as [C1 C2].
      assert (Hcin : In c (h :: rest)) by (apply Hin; exact Hc).
      destruct Hcin as [->|Hcr]; [reflexivity|].
      specialize (Hh c Hcr). apply Huniq; [exact Hhl | |]; unfold key_le, key_ltb, tcontains, tok_len in *; lia. }
    subst h. cbn [length fo_outer]. destruct rest as [|n rest']; [reflexivity|].
    rewrite fo_inner_all_contained.
    + destruct (length rest'); reflexivity.
    + intros m Hm. apply Hall. apply Hin. right; exact Hm.
Qed.

End FilterSingle.

Section Alone.
Context {V : Type}.
Variable O : oracle.
Variable tr : trie V.
Hypothesis W : wf_trie tr.
Variable text : str.
Notation tok := (Trie.tok V).

Definition dpiece : piece := {| pstart := 0; ptext := [] |}.
Notation wps := (filter (is_word_piece O) (pieces O text)).

Lemma occ_start (mid : list piece) lastp (v : V) : mid <> [] ->
  tstart (occurrence_tok text mid lastp v) = pstart (hd dpiece mid).
Proof. destruct mid; [contradiction | reflexivity]. Qed.

Lemma hd_in {A} (d : A) l : l <> [] -> In (hd d l) l.
Proof. destruct l; [contradiction | left; reflexivity]. Qed.
Lemma last_in {A} (d : A) l : l <> [] -> In (last l d) l.
Proof.
  induction l as [|x l IH]; [contradiction|]. intros _. destruct l as [|y l]; [left; reflexivity|].
  right. apply IH. discriminate.
Qed.

Lemma incr_hd_le_last ps : incr ps -> ps <> [] -> pstart (hd dpiece ps) <= pend (last ps dpiece).
Proof.
  intros H Hne. destruct (incr_first_last ps dpiece H Hne (hd dpiece ps) (hd_in dpiece ps Hne)) as [_ I2].
  assert (Hp : pstart (hd dpiece ps) <= pend (hd dpiece ps)).
  { destruct ps as [|p ps]; [contradiction|]. destruct H as [H1 _]. exact H1. }
  lia.
Qed.

Lemma incr_last_nonempty l : incr l -> l <> [] -> pstart (last l dpiece) <= pend (last l dpiece).
Proof.
  induction l as [|a l IH]; intros H Hne; [contradiction|].
  destruct H as [H1 [_ H3]]. destruct l as [|b l]; [exact H1 | apply IH; [exact H3 | discriminate]].
Qed.

(* every reported match lies inside the span of the word pieces and is not empty *)
Lemma match_inside (t : tok) : In t (t_iter O tr text) ->
  wps <> [] /\ pstart (hd dpiece wps) <= tstart t /\ tend t <= pend (last wps dpiece) /\ tstart t <= tend t.
Proof.
  intro H. apply (scan_exact O tr W text) in H as [pre [mid [post [sp [v [E [Hne [G ->]]]]]]]].
  pose proof (word_pieces_incr O text) as I. rewrite E in I.
  assert (Hw : wps <> []) by (rewrite E; destruct pre; [destruct mid; [contradiction | discriminate] | discriminate]).
  split; [exact Hw|].
  assert (Hm : forall q, In q mid -> In q wps) by (intros q Hq; rewrite E; apply in_or_app; right; apply in_or_app; left; exact Hq).
  rewrite <- E in I.
  destruct (incr_first_last wps dpiece I Hw (hd dpiece mid) (Hm _ (hd_in dpiece mid Hne))) as [A1 _].
  destruct (incr_first_last wps dpiece I Hw (last mid dpiece) (Hm _ (last_in dpiece mid Hne))) as [_ A2].
  rewrite occ_start by exact Hne. cbn [tend occurrence_tok].
  split; [exact A1|]. split; [exact A2|].
  rewrite E in I. apply incr_app in I as [_ [I2 _]]. apply incr_app in I2 as [I3 _].
  apply incr_hd_le_last; assumption.
Qed.

(* the only match that spans all word pieces is the one for the whole word sequence *)
Lemma full_span_unique (t : tok) sp v :
  get_out (lwords O text) (outs tr) = Some (sp, v) ->
  In t (t_iter O tr text) ->
  tstart t = pstart (hd dpiece wps) -> tend t = pend (last wps dpiece) ->
  t = occurrence_tok text wps (last wps dpiece) v.
Proof.
  intros G H Hs He. apply (scan_exact O tr W text) in H as [pre [mid [post [sp' [v' [E [Hne [G' Ht]]]]]]]].
  pose proof (word_pieces_incr O text) as I.
  assert (Hpre : pre = []).
  { destruct pre as [|p pre]; [reflexivity|]. exfalso. rewrite E in I, Hs.
    subst t. rewrite occ_start in Hs by exact Hne. cbn [app hd] in Hs.
    cbn [app] in I. destruct I as [I1 [I2 _]].
    specialize (I2 (hd dpiece mid)). assert (In (hd dpiece mid) (pre ++ mid ++ post)).
    { apply in_or_app. right. apply in_or_app. left. apply hd_in; exact Hne. }
    specialize (I2 H). lia. }
  subst pre. cbn [app] in E.
  assert (Hpost : post = []).
  { destruct post as [|p post]; [reflexivity|]. exfalso. rewrite E in I.
    apply incr_app in I as [_ [_ I3]].
    specialize (I3 (last mid dpiece) (last (p :: post) dpiece) (last_in dpiece mid Hne) (last_in dpiece (p :: post) ltac:(discriminate))).
    subst t. cbn [tend occurrence_tok] in He. rewrite E in He.
    assert (L : last (mid ++ p :: post) dpiece = last (p :: post) dpiece).
    { clear. induction mid as [|m mid IH]; [reflexivity|]. cbn [app]. destruct (mid ++ p :: post) as [|x l] eqn:X; [destruct mid; discriminate|].
      change (last (m :: x :: l) dpiece) with (last (x :: l) dpiece). exact IH. }
    rewrite L in He.
    pose proof (word_pieces_incr O text) as I'. rewrite E in I'. apply incr_app in I' as [_ [I4 _]].
    assert (Hq : pstart (last (p :: post) dpiece) <= pend (last (p :: post) dpiece)).
    { apply incr_last_nonempty; [exact I4 | discriminate]. }
    unfold dpiece in *. lia. }
  subst post. rewrite app_nil_r in E. subst t. rewrite <- E.
  assert (Ew : lws O wps = lwords O text) by (unfold lws, lwords, words; rewrite map_map; reflexivity).
  rewrite <- E in G'. rewrite Ew, G in G'. inversion G'; subst. reflexivity.
Qed.

(* Trie.iter followed by the overlap filter leaves exactly the whole-span match *)
Theorem filter_leaves_whole_match sp v :
  get_out (lwords O text) (outs tr) = Some (sp, v) ->
  filter_overlapping (t_iter O tr text) = [occurrence_tok text wps (last wps dpiece) v].
Proof.
  intro G. set (c := occurrence_tok text wps (last wps dpiece) v).
  pose proof (whole_text_matched O tr W text sp v G) as Hc. fold c in Hc.
  destruct (match_inside c Hc) as [Hw _].
  assert (Cs : tstart c = pstart (hd dpiece wps)) by (apply occ_start; exact Hw).
  apply fo_single.
  - exact Hc.
  - intros t Ht. destruct (match_inside t Ht) as [_ [A1 [A2 A3]]]. split; [|exact A3].
    unfold tcontains. rewrite Cs. cbn [tend c occurrence_tok]. lia.
  - intros t Ht Hs He. apply (full_span_unique t sp v G Ht); [rewrite Hs; exact Cs | rewrite He; reflexivity].
Qed.

End Alone.

(* ---- the gap-filling walk of Trie.tokenize with a single kept match ---- *)
Section RetokSingle.
Context {V : Type}.
Variable O : oracle.
Notation tok := (Trie.tok V).

Lemma retok_nil_nonwords : forall ps, (forall p, In p ps -> is_word_piece O p = false) -> retok O ps ([] : list tok) = [].
Proof.
  induction ps as [|p ps IH]; intro H; [reflexivity|]. simpl.
  rewrite (H p (or_introl eq_refl)). apply IH. intros q Hq. apply H. right; exact Hq.
Qed.

(* pieces after the start of the match: those up to its end are covered, later ones are blank *)
Lemma retok_inside (c : tok) : forall ps, incr ps ->
  (forall p, In p ps -> tstart c < pstart p) ->
  (forall p, In p ps -> is_word_piece O p = true -> pstart p <= tend c) ->
  retok O ps [c] = [].
Proof.
  induction ps as [|p ps IH]; intros Hi Hs Hw; [reflexivity|].
  destruct Hi as [H1 [H2 H3]]. cbn [retok drop_ended].
  destruct (tend c <? pstart p) eqn:E.
  - (* past the end of the match: nothing but blank pieces can follow *)
    assert (Hp : is_word_piece O p = false).
    { destruct (is_word_piece O p) eqn:Wp; [|reflexivity]. specialize (Hw p (or_introl eq_refl) Wp). lia. }
    rewrite Hp. apply retok_nil_nonwords. intros q Hq.
    destruct (is_word_piece O q) eqn:Wq; [|reflexivity]. specialize (Hw q (or_intror Hq) Wq). specialize (H2 q Hq). lia.
  - pose proof (Hs p (or_introl eq_refl)) as Hsp.
    assert (A : (tstart c <=? pstart p) = true) by lia. assert (B : (tstart c =? pstart p) = false) by lia.
    rewrite A, B. apply IH; [exact H3 | intros q Hq; apply Hs; right; exact Hq | intros q Hq; apply Hw; right; exact Hq].
Qed.

Definition first_word (ps : list piece) : option piece := find (is_word_piece O) ps.

Lemma retok_single (c : tok) : forall ps p0, incr ps ->
  first_word ps = Some p0 -> tstart c = pstart p0 -> tstart c <= tend c ->
  (forall p, In p ps -> is_word_piece O p = true -> pstart p <= tend c) ->
  retok O ps [c] = [c].
Proof.
  induction ps as [|p ps IH]; intros p0 Hi Hf Hs Hc Hw; [discriminate|].
  destruct Hi as [H1 [H2 H3]]. unfold first_word in Hf. cbn [find] in Hf. cbn [retok drop_ended].
  destruct (is_word_piece O p) eqn:Wp.
  - inversion Hf; subst p0.
    assert (A : (tend c <? pstart p) = false) by lia. rewrite A.
    assert (B : (tstart c <=? pstart p) = true) by lia. assert (C : (tstart c =? pstart p) = true) by lia.
    rewrite B, C. f_equal. apply retok_inside; [exact H3 | | intros q Hq; apply Hw; right; exact Hq].
    intros q Hq. specialize (H2 q Hq). lia.
  - assert (Hin : In p0 ps) by (apply find_some in Hf; destruct Hf; assumption).
    specialize (H2 p0 Hin).
    assert (A : (tend c <? pstart p) = false) by lia. rewrite A.
    assert (B : (tstart c <=? pstart p) = false) by lia. rewrite B.
    apply (IH p0); [exact H3 | exact Hf | exact Hs | exact Hc | intros q Hq; apply Hw; right; exact Hq].
Qed.
End RetokSingle.

(* ---- from the single token to the parsed symbol ---- *)
Section ParseAlone.
Variable O : oracle.

Lemma find_hd_filter {A} (f : A -> bool) l : find f l = hd_error (filter f l).
Proof. induction l as [|x l IH]; [reflexivity|]. simpl. destruct (f x); [reflexivity | exact IH]. Qed.

Lemma slice_head s a b1 b2 c0 r1 : slice s a b1 = c0 :: r1 -> a <= b2 -> exists r2, slice s a b2 = c0 :: r2.
Proof.
  unfold slice. intros H Hb. destruct (skipn (Z.to_nat a) s) as [|x rest]; [rewrite firstn_nil in H; discriminate|].
  destruct (Z.to_nat (b1 + 1 - a)) as [|n1]; [discriminate|]. simpl in H. inversion H; subst.
  destruct (Z.to_nat (b2 + 1 - a)) as [|n2] eqn:E; [lia|]. simpl. eexists. reflexivity.
Qed.

Lemma word_piece_head p : is_word_piece O p = true -> exists c0 r, ptext p = c0 :: r /\ is_space O c0 = false.
Proof.
  unfold is_word_piece, piece_cls. destruct (ptext p) as [|c0 r]; [discriminate|]. intro H.
  exists c0, r. split; [reflexivity|]. unfold cls_of in H. destruct (is_space O c0); [discriminate | reflexivity].
Qed.

Lemma blank_no_word_piece text : blank O text = true -> filter (is_word_piece O) (pieces O text) = [].
Proof.
  intro B. destruct (filter (is_word_piece O) (pieces O text)) as [|p l] eqn:E; [reflexivity|]. exfalso.
  assert (Hp : In p (filter (is_word_piece O) (pieces O text))) by (rewrite E; left; reflexivity).
  apply filter_In in Hp as [Hin Hw]. destruct (word_piece_head p Hw) as [c0 [r [Ht Hs]]].
  assert (Hc : In c0 text).
  { rewrite <- (pieces_concat O text). unfold texts. apply in_concat. exists (ptext p). split; [apply in_map; exact Hin | rewrite Ht; left; reflexivity]. }
  unfold blank in B. rewrite forallb_forall in B. rewrite (B c0 Hc) in Hs. discriminate.
Qed.

Variable T : list entry.
Notation tr := (build_trie O T).

Lemma build_trie_wf : wf_trie tr.
Proof. unfold build_trie. apply wf_make. apply (wf_add_ops O). apply wf_empty. Qed.

(* Trie.tokenize on a text that spells one stored name: one token *)
Theorem tokenize_alone text sp v :
  get_out (lwords O text) (outs tr) = Some (sp, v) ->
  let wps := filter (is_word_piece O) (pieces O text) in
  t_tokenize O tr text = [occurrence_tok text wps (last wps dpiece) v].
Proof.
  intros G wps. unfold t_tokenize. rewrite (filter_leaves_whole_match O tr build_trie_wf text sp v G). fold wps.
  set (c := occurrence_tok text wps (last wps dpiece) v).
  pose proof (whole_text_matched O tr build_trie_wf text sp v G) as Hc. fold wps in Hc. fold c in Hc.
  destruct (match_inside O tr build_trie_wf text c Hc) as [Hw [_ [_ Hle]]]. fold wps in Hw.
  pose proof (word_pieces_incr O text) as Iw. fold wps in Iw.
  assert (Cs : tstart c = pstart (hd dpiece wps)) by (apply occ_start; exact Hw).
  apply (retok_single O c (pieces O text) (hd dpiece wps)).
  - eapply contig_incr. apply pieces_contig.
  - unfold first_word. rewrite find_hd_filter. fold wps. destruct wps; [contradiction | reflexivity].
  - exact Cs.
  - exact Hle.
  - intros p Hp Wp. assert (Hin : In p wps) by (apply filter_In; split; assumption).
    destruct (incr_first_last wps dpiece Iw Hw p Hin) as [_ A2].
    assert (Hpp : pstart p <= pend p).
    { clear -Iw Hin. induction wps as [|q l IH]; [destruct Hin|]. destruct Iw as [I1 [_ I3]].
      destruct Hin as [<-|Hin]; [exact I1 | apply IH; assumption]. }
    cbn [tend c occurrence_tok]. lia.
Qed.

(* Licensing.parse of a text that spells one known name, whatever the case and the white space *)
Theorem recognise_alone text sp s :
  get_out (lwords O text) (outs tr) = Some (sp, VSym s) ->
  parse O T false false false text = Ok (Some (Lit (Plain s))).
Proof.
  intro G. set (wps := filter (is_word_piece O) (pieces O text)).
  pose proof (tokenize_alone text sp (VSym s) G) as Htok. fold wps in Htok.
  set (c := occurrence_tok text wps (last wps dpiece) (VSym s)) in *.
  pose proof (whole_text_matched O tr build_trie_wf text sp (VSym s) G) as Hc. fold wps in Hc. fold c in Hc.
  destruct (match_inside O tr build_trie_wf text c Hc) as [Hw [_ [_ Hle]]]. fold wps in Hw.
  (* the text is not blank and the token string starts with a non-space character *)
  assert (Hb : blank O text = false).
  { destruct (blank O text) eqn:B; [|reflexivity]. apply blank_no_word_piece in B. fold wps in B. contradiction. }
  assert (Hne : text <> []) by (intro E; subst text; discriminate Hb).
  assert (Hstr : exists c0 r, tstring c = c0 :: r /\ is_space O c0 = false).
  { assert (Hp0 : In (hd dpiece wps) (pieces O text)).
    { assert (In (hd dpiece wps) wps) by (apply hd_in; exact Hw). apply filter_In in H. destruct H; assumption. }
    assert (Wp0 : is_word_piece O (hd dpiece wps) = true).
    { assert (In (hd dpiece wps) wps) by (apply hd_in; exact Hw). apply filter_In in H. destruct H; assumption. }
    destruct (word_piece_head _ Wp0) as [c0 [r [Ht Hs]]].
    pose proof (piece_is_slice O text _ Hp0) as Sl. rewrite Ht in Sl. symmetry in Sl.
    assert (Cs : tstart c = pstart (hd dpiece wps)) by (apply occ_start; exact Hw).
    destruct (slice_head text (pstart (hd dpiece wps)) _ (tend c) c0 r Sl ltac:(lia)) as [r2 E2].
    exists c0, r2. split; [|exact Hs]. cbn [tstring c occurrence_tok]. fold c. rewrite <- Cs in E2.
    cbn [tend c occurrence_tok] in E2. destruct wps; [contradiction | exact E2]. }
  destruct Hstr as [c0 [r [Hts Hsp]]].
  unfold parse. rewrite Hb. unfold parse_tokens, lic_tokenize. destruct text as [|x text']; [contradiction|].
  cbn [obind]. rewrite Htok.
  assert (Hv : tvalue c = Some (VSym s)) by reflexivity.
  fold c. cbn [build_unknown]. rewrite Hv. cbn [flush_unknown obind app].
  assert (Hd : drop_blank O [c] = [c]).
  { unfold drop_blank. cbn [filter]. rewrite Hts. unfold tok_blank, blank. rewrite Hts. cbn [forallb]. rewrite Hsp. reflexivity. }
  rewrite Hd. cbn [group_with length Nat.ltb Nat.leb map replace_with]. rewrite Hv. cbn [andb obind].
  reflexivity.
Qed.

(* strict parsing gives the same for a license that is not an exception *)
Theorem recognise_alone_strict text sp s :
  get_out (lwords O text) (outs tr) = Some (sp, VSym s) -> exc s = false ->
  parse O T false true false text = Ok (Some (Lit (Plain s))).
Proof.
  intros G He. pose proof (recognise_alone text sp s G) as H.
  unfold parse in *. destruct (blank O text); [discriminate|].
  destruct (parse_tokens O T false false text) as [e| | | | |] eqn:P; cbn [obind] in H; try discriminate.
  inversion H; subst e. clear H.
  destruct text as [|x text']; [unfold parse_tokens, lic_tokenize in P; simpl in P; discriminate|].
  destruct (Proofs.Strict.token_groups O T false (x :: text')) as [gs| | | | |] eqn:TG.
  - assert (R : Proofs.WithGroup.roles_ok gs = true).
    { (* the only group is the single license, which is not an exception *)
      unfold Proofs.Strict.token_groups in TG. cbn [obind] in TG.
      rewrite (tokenize_alone (x :: text') sp (VSym s) G) in TG. cbn [build_unknown tvalue occurrence_tok flush_unknown obind app] in TG.
      destruct (drop_blank O _) as [|t [|t2 l]] eqn:D; inversion TG; subst gs; try reflexivity.
      + unfold drop_blank in D. cbn [filter] in D. destruct (match tstring _ with [] => false | _ => _ end) in D; inversion D; subst t.
        cbn [group_with length Nat.ltb Nat.leb map Proofs.WithGroup.roles_ok forallb Proofs.WithGroup.group_roles_ok tvalue occurrence_tok].
        rewrite He. reflexivity.
      + unfold drop_blank in D. cbn [filter] in D. destruct (match tstring _ with [] => false | _ => _ end) in D; discriminate. }
    assert (Hne : x :: text' <> []) by discriminate.
    destruct (Proofs.Strict.parse_strict_iff O T false (x :: text') gs (Lit (Plain s)) Hne TG) as [_ K].
    rewrite (K (conj P R)). reflexivity.
  - exfalso. unfold parse_tokens in P. rewrite (Proofs.Strict.lic_tokenize_groups O T false false (x :: text')) in P by discriminate. rewrite TG in P. discriminate.
  - exfalso. unfold parse_tokens in P. rewrite (Proofs.Strict.lic_tokenize_groups O T false false (x :: text')) in P by discriminate. rewrite TG in P. discriminate.
  - exfalso. unfold parse_tokens in P. rewrite (Proofs.Strict.lic_tokenize_groups O T false false (x :: text')) in P by discriminate. rewrite TG in P. discriminate.
  - exfalso. unfold parse_tokens in P. rewrite (Proofs.Strict.lic_tokenize_groups O T false false (x :: text')) in P by discriminate. rewrite TG in P. discriminate.
  - exfalso. unfold parse_tokens in P. rewrite (Proofs.Strict.lic_tokenize_groups O T false false (x :: text')) in P by discriminate. rewrite TG in P. discriminate.
Qed.

End ParseAlone.

(* in terms of the names of the table: the words of the text are those of a key or alias, and [s] is
   the symbol of the last entry that was added under these words *)
Theorem recognise_name O T text sp s :
  stored O (keyword_adds ++ flat_map (entry_adds O) T) (lwords O text) = Some (sp, VSym s) ->
  parse O T false false false text = Ok (Some (Lit (Plain s))) /\ render (Lit (Plain s)) = key s.
Proof.
  intro H. split; [|reflexivity]. apply (recognise_alone O T text sp s).
  unfold build_trie. cbn [t_make_automaton outs].
  change (add_all O t_empty (keyword_adds ++ flat_map (entry_adds O) T))
    with (add_ops O t_empty (keyword_adds ++ flat_map (entry_adds O) T)).
  rewrite (get_out_add_ops O _ t_empty _ eq_refl). rewrite H. reflexivity.
Qed.
