(* C04 / C15: a text that spells one stored name (any case, any white space, also around
   parentheses) is tokenized to exactly one token - the whole-span match with that name's value -
   and parsed to that symbol. *)
Require Import Model.Base Model.Expr Model.Split Model.Trie Model.Overlap Model.LicTok Model.BoolParse Model.Licensing.
Require Import Proofs.Symbol Proofs.Split Proofs.Overlap Proofs.Trie.
From Coq Require Import Lia ZifyBool.
Open Scope Z_scope.

Section FilterSingle.
Context {V : Type}.
Notation tok := (Trie.tok V).

(* Token.sort puts a key-minimal token first *)
Definition key_le (a b : tok) : Prop := key_ltb b a = false.
Fixpoint sorted_key (l : list tok) : Prop :=
  match l with
  | [] => True
  | a :: l' => (forall b, In b l' -> key_le a b) /\ sorted_key l'
  end.

Lemma insert_tok_sorted_key (x : tok) l : sorted_key l -> sorted_key (insert_tok x l).
Proof.
  induction l as [|y l IH]; intro H; simpl; [split; [intros b []|exact I]|].
  destruct H as [Hy Hl]. destruct (key_ltb x y) eqn:E.
  - simpl. split; [|split; assumption].
    intros b [<-|Hb]; unfold key_le, key_ltb, tok_len in *; [lia|]. specialize (Hy b Hb). lia.
  - simpl. split; [|apply IH; exact Hl].
    intros b Hb. apply insert_tok_in in Hb as [<-|Hb]; [exact E | apply Hy; exact Hb].
Qed.

Lemma sort_tokens_sorted_key (l : list tok) : sorted_key (sort_tokens l).
Proof.
  unfold sort_tokens. assert (G : forall l acc, sorted_key acc -> sorted_key (fold_left (fun acc x => insert_tok x acc) l acc)).
  { induction l0 as [|x l0 IH]; intros acc H; simpl; [exact H | apply IH, insert_tok_sorted_key, H]. }
  apply G. exact I.
Qed.

Lemma fo_inner_all_contained (c : tok) : forall rest,
  (forall n, In n rest -> tcontains c n = true /\ tstart n <= tend n) ->
  fo_inner c [] rest = (true, []).
Proof.
  induction rest as [|n rest IH]; intro H; [reflexivity|]. simpl.
  destruct (H n (or_introl eq_refl)) as [Hc Hn].
  assert (Ha : is_after n c = false) by (unfold is_after, tcontains in *; lia).
  rewrite Ha, Hc. apply IH. intros m Hm. apply H. right; exact Hm.
Qed.

(* a token that contains all the others, and is the only one with its span, is what remains *)
Theorem fo_single (l : list tok) (c : tok) :
  In c l ->
  (forall t, In t l -> tcontains c t = true /\ tstart t <= tend t) ->
  (forall t, In t l -> tstart t = tstart c -> tend t = tend c -> t = c) ->
  filter_overlapping l = [c].
Proof.
  intros Hc Hall Huniq. unfold filter_overlapping.
  pose proof (sort_tokens_sorted_key l) as Hs.
  assert (Hin : forall t, In t (sort_tokens l) <-> In t l) by (intro t; apply sort_tokens_in).
  destruct (sort_tokens l) as [|h rest] eqn:E.
  - exfalso. apply (proj2 (Hin c)) in Hc. destruct Hc.
  - destruct Hs as [Hh Hrest].
    assert (Hhc : h = c).
    { assert (Hhl : In h l) by (apply Hin; left; reflexivity).
      destruct (Hall h Hhl) as [C1 C2].
      assert (Hcin : In c (h :: rest)) by (apply Hin; exact Hc).
      destruct Hcin as [->|Hcr]; [reflexivity|].
      specialize (Hh c Hcr). apply Huniq; [exact Hhl | |]; unfold key_le, key_ltb, tcontains, tok_len in *; lia. }
    subst h. cbn [length fo_outer]. destruct rest as [|n rest']; [reflexivity|].
    rewrite fo_inner_all_contained.
    + destruct (length rest'); reflexivity.
    + intros m Hm. apply Hall. apply Hin. right; exact Hm.
Qed.

End FilterSingle.

Section Alone.
Context {V : Type}.
Variable O : oracle.
Variable tr : trie V.
Hypothesis W : wf_trie tr.
Variable text : str.
Notation tok := (Trie.tok V).

Definition dpiece : piece := {| pstart := 0; ptext := [] |}.
Notation wps := (filter (is_word_piece O) (pieces O text)).

Lemma occ_start (mid : list piece) lastp (v : V) : mid <> [] ->
  tstart (occurrence_tok text mid lastp v) = pstart (hd dpiece mid).
Proof. destruct mid; [contradiction | reflexivity]. Qed.

Lemma hd_in {A} (d : A) l : l <> [] -> In (hd d l) l.
Proof. destruct l; [contradiction | left; reflexivity]. Qed.
Lemma last_in {A} (d : A) l : l <> [] -> In (last l d) l.
Proof.
  induction l as [|x l IH]; [contradiction|]. intros _. destruct l as [|y l]; [left; reflexivity|].
  right. apply IH. discriminate.
Qed.

Lemma incr_hd_le_last ps : incr ps -> ps <> [] -> pstart (hd dpiece ps) <= pend (last ps dpiece).
Proof.
  intros H Hne. destruct (incr_first_last ps dpiece H Hne (hd dpiece ps) (hd_in dpiece ps Hne)) as [_ I2].
  assert (Hp : pstart (hd dpiece ps) <= pend (hd dpiece ps)).
  { destruct ps as [|p ps]; [contradiction|]. destruct H as [H1 _]. exact H1. }
  lia.
Qed.

Lemma incr_last_nonempty l : incr l -> l <> [] -> pstart (last l dpiece) <= pend (last l dpiece).
Proof.
  induction l as [|a l IH]; intros H Hne; [contradiction|].
  destruct H as [H1 [_ H3]]. destruct l as [|b l]; [exact H1 | apply IH; [exact H3 | discriminate]].
Qed.

(* every reported match lies inside the span of the word pieces and is not empty *)
Lemma match_inside (t : tok) : In t (t_iter O tr text) ->
  wps <> [] /\ pstart (hd dpiece wps) <= tstart t /\ tend t <= pend (last wps dpiece) /\ tstart t <= tend t.
Proof.
  intro H. apply (scan_exact O tr W text) in H as [pre [mid [post [sp [v [E [Hne [G ->]]]]]]]].
  pose proof (word_pieces_incr O text) as I. rewrite E in I.
  assert (Hw : wps <> []) by (rewrite E; destruct pre; [destruct mid; [contradiction | discriminate] | discriminate]).
  split; [exact Hw|].
  assert (Hm : forall q, In q mid -> In q wps) by (intros q Hq; rewrite E; apply in_or_app; right; apply in_or_app; left; exact Hq).
  rewrite <- E in I.
  destruct (incr_first_last wps dpiece I Hw (hd dpiece mid) (Hm _ (hd_in dpiece mid Hne))) as [A1 _].
  destruct (incr_first_last wps dpiece I Hw (last mid dpiece) (Hm _ (last_in dpiece mid Hne))) as [_ A2].
  rewrite occ_start by exact Hne. cbn [tend occurrence_tok].
  split; [exact A1|]. split; [exact A2|].
  rewrite E in I. apply incr_app in I as [_ [I2 _]]. apply incr_app in I2 as [I3 _].
  apply incr_hd_le_last; assumption.
Qed.

(* the only match that spans all word pieces is the one for the whole word sequence *)
Lemma full_span_unique (t : tok) sp v :
  get_out (lwords O text) (outs tr) = Some (sp, v) ->
  In t (t_iter O tr text) ->
  tstart t = pstart (hd dpiece wps) -> tend t = pend (last wps dpiece) ->
  t = occurrence_tok text wps (last wps dpiece) v.
Proof.
  intros G H Hs He. apply (scan_exact O tr W text) in H as [pre [mid [post [sp' [v' [E [Hne [G' Ht]]]]]]]].
  pose proof (word_pieces_incr O text) as I.
  assert (Hpre : pre = []).
  { destruct pre as [|p pre]; [reflexivity|]. exfalso. rewrite E in I, Hs.
    subst t. rewrite occ_start in Hs by exact Hne. cbn [app hd] in Hs.
    cbn [app] in I. destruct I as [I1 [I2 _]].
    specialize (I2 (hd dpiece mid)). assert (In (hd dpiece mid) (pre ++ mid ++ post)).
    { apply in_or_app. right. apply in_or_app. left. apply hd_in; exact Hne. }
    specialize (I2 H). lia. }
  subst pre. cbn [app] in E.
  assert (Hpost : post = []).
  { destruct post as [|p post]; [reflexivity|]. exfalso. rewrite E in I.
    apply incr_app in I as [_ [_ I3]].
    specialize (I3 (last mid dpiece) (last (p :: post) dpiece) (last_in dpiece mid Hne) (last_in dpiece (p :: post) ltac:(discriminate))).
    subst t. cbn [tend occurrence_tok] in He. rewrite E in He.
    assert (L : last (mid ++ p :: post) dpiece = last (p :: post) dpiece).
    { clear. induction mid as [|m mid IH]; [reflexivity|]. cbn [app]. destruct (mid ++ p :: post) as [|x l] eqn:X; [destruct mid; discriminate|].
      change (last (m :: x :: l) dpiece) with (last (x :: l) dpiece). exact IH. }
    rewrite L in He.
    pose proof (word_pieces_incr O text) as I'. rewrite E in I'. apply incr_app in I' as [_ [I4 _]].
    assert (Hq : pstart (last (p :: post) dpiece) <= pend (last (p :: post) dpiece)).
    { apply incr_last_nonempty; [exact I4 | discriminate]. }
    unfold dpiece in *. lia. }
  subst post. rewrite app_nil_r in E. subst t. rewrite <- E.
  assert (Ew : lws O wps = lwords O text) by (unfold lws, lwords, words; rewrite map_map; reflexivity).
  rewrite <- E in G'. rewrite Ew, G in G'. inversion G'; subst. reflexivity.
Qed.

(* Trie.iter followed by the overlap filter leaves exactly the whole-span match *)
Theorem filter_leaves_whole_match sp v :
  get_out (lwords O text) (outs tr) = Some (sp, v) ->
  filter_overlapping (t_iter O tr text) = [occurrence_tok text wps (last wps dpiece) v].
Proof.
  intro G. set (c := occurrence_tok text wps (last wps dpiece) v).
  pose proof (whole_text_matched O tr W text sp v G) as Hc. fold c in Hc.
  destruct (match_inside c Hc) as [Hw _].
  assert (Cs : tstart c = pstart (hd dpiece wps)) by (apply occ_start; exact Hw).
  apply fo_single.
  - exact Hc.
  - intros t Ht. destruct (match_inside t Ht) as [_ [A1 [A2 A3]]]. split; [|exact A3].
    unfold tcontains. rewrite Cs. cbn [tend c occurrence_tok]. lia.
  - intros t Ht Hs He. apply (full_span_unique t sp v G Ht); [rewrite Hs; exact Cs | rewrite He; reflexivity].
Qed.

End Alone.
