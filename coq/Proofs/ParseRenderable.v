(* C05: the licenses of an expression that parse returns over a table without operator words are renderable:
   an unknown license is a run of unmatched words between two operator words (or the ends of the text), and no
   stored name occurs among them - the longest, leftmost such occurrence would have been kept by the overlap
   filter and emitted as a token of its own. *)
Require Import Model.Base Model.Expr Model.Split Model.Trie Model.Overlap Model.LicTok Model.BoolParse Model.Licensing.
Require Import Proofs.Symbol Proofs.Strings Proofs.Split Proofs.Overlap Proofs.Trie Proofs.Recognise Proofs.Cover Proofs.Select
               Proofs.WithGroup Proofs.SimpleAgree Proofs.Account Proofs.Segments Proofs.BoolParse Proofs.Blocks
               Proofs.Render Proofs.Kinds Proofs.RenderKinds Proofs.Resplit Proofs.RenderWords Proofs.Reparse
               Proofs.ParseSound Proofs.ParseLits.
From Coq Require Import Lia ZifyBool.
Open Scope Z_scope.

Section Positions.

Lemma incr_tri : forall l p q, incr l -> In p l -> In q l -> p = q \/ pend p < pstart q \/ pend q < pstart p.
Proof.
  induction l as [|a l IH]; intros p q Hi Hp Hq; [destruct Hp|]. destruct Hi as [_ [H2 H3]].
  destruct Hp as [<-|Hp]; destruct Hq as [<-|Hq].
  - left; reflexivity.
  - right; left. apply H2; exact Hq.
  - right; right. apply H2; exact Hp.
  - apply IH; assumption.
Qed.

(* a run of an increasing list: what stands before ends before it, what stands after starts after it *)
Lemma run_positions pre mid post : incr (pre ++ mid ++ post) -> mid <> [] ->
  (forall p, In p pre -> pend p < pstart (hd dpiece mid)) /\
  (forall p, In p post -> pend (last mid dpiece) < pstart p) /\
  (forall p, In p mid -> pstart (hd dpiece mid) <= pstart p /\ pend p <= pend (last mid dpiece)) /\ incr mid.
Proof.
  intros Hi Hne. apply incr_app in Hi as [_ [Hi2 H12]]. apply incr_app in Hi2 as [Hm [_ H23]].
  split; [|split; [|split]].
  - intros p Hp. apply H12; [exact Hp|]. apply in_or_app. left. apply hd_in. exact Hne.
  - intros p Hp. apply H23; [apply last_in; exact Hne | exact Hp].
  - intros p Hp. apply (incr_first_last mid dpiece Hm Hne p Hp).
  - exact Hm.
Qed.

End Positions.

Section PR.
Variable O : oracle.
Hypothesis sp_is_space : is_space O 32%N = true.
Hypothesis lower_kw : lower O S_AND = s_and /\ lower O S_OR = s_or /\ lower O S_WITH = s_with /\
                      lower O s_lpar = s_lpar /\ lower O s_rpar = s_rpar.
Hypothesis kw_plain : forall c, In c [97; 110; 100; 111; 114; 119; 105; 116; 104; 40; 41]%N ->
  is_space O c = false /\ lower_ch O c = [c].
Variable T : list entry.
Hypothesis names_opfree : forall n v, In (n, v) (flat_map (entry_adds O) T) ->
  forall w, In w (lwords O n) -> is_keyword_str w = false.
Variable text : str.
Notation ltok := (Trie.tok kv).
Notation tr := (build_trie O T).
Notation P := (pieces O text).
Notation wps := (filter (is_word_piece O) (pieces O text)).
Notation M := (t_iter O tr text).
Notation look := (look O T).

Definition kwp (p : piece) : Prop := is_keyword_str (lower O (ptext p)) = true.

Lemma kw_of w : is_keyword_str w = true -> exists k, w = kw_str k.
Proof.
  unfold is_keyword_str. intro H.
  destruct (str_eqb w s_and) eqn:E1; [exists KAnd; apply str_eqb_eq; exact E1|].
  destruct (str_eqb w s_or) eqn:E2; [exists KOr; apply str_eqb_eq; exact E2|].
  destruct (str_eqb w s_with) eqn:E3; [exists KWith; apply str_eqb_eq; exact E3|].
  destruct (str_eqb w s_lpar) eqn:E4; [exists KLp; apply str_eqb_eq; exact E4|].
  destruct (str_eqb w s_rpar) eqn:E5; [exists KRp; apply str_eqb_eq; exact E5|]. discriminate.
Qed.

Lemma kw_str_inj k k' : kw_str k = kw_str k' -> k = k'.
Proof. destruct k, k'; cbn; intro H; try reflexivity; discriminate. Qed.

(* the two kinds of reported match: one operator word, or a run without operator words *)
Lemma match_shape y : In y M ->
  exists pre mid post sp v, wps = pre ++ mid ++ post /\ mid <> [] /\ look (lws O mid) = Some (sp, v) /\
    y = occurrence_tok text mid (last mid dpiece) v /\
    ((exists k q, v = VKw k /\ mid = [q] /\ lower O (ptext q) = kw_str k) \/
     (forall p, In p mid -> is_keyword_str (lower O (ptext p)) = false)).
Proof.
  intro Hy. apply (scan_exact O tr (build_trie_wf O T) text) in Hy as [pre [mid [post [sp [v [E [Hne [G Ey]]]]]]]].
  change {| pstart := 0; ptext := [] |} with dpiece in *.
  exists pre, mid, post, sp, v. split; [exact E|]. split; [exact Hne|]. split; [exact G|]. split; [exact Ey|].
  destruct (table_opfree O lower_kw kw_plain T names_opfree (lws O mid) sp v G) as [[k [-> Ep]]|Hfree].
  - left. destruct mid as [|q [|q2 mid']]; try discriminate. cbn [lws map] in Ep. injection Ep as Ep.
    exists k, q. split; [reflexivity|]. split; [reflexivity | exact Ep].
  - right. intros p Hp. apply Hfree. unfold lws. apply in_map_iff. exists p. split; [reflexivity | exact Hp].
Qed.

Lemma occ_span mid (v : kv) : mid <> [] ->
  tstart (occurrence_tok text mid (last mid dpiece) v) = pstart (hd dpiece mid) /\
  tend (occurrence_tok text mid (last mid dpiece) v) = pend (last mid dpiece).
Proof. intro Hne. split; [apply occ_start; exact Hne | reflexivity]. Qed.

Lemma wps_incr : incr wps. Proof. apply word_pieces_incr. Qed.

(* an operator word of the text is always a token *)
Lemma kw_piece_kept p : In p wps -> kwp p ->
  exists k, In (occurrence_tok text [p] p (VKw k)) (filter_overlapping M).
Proof.
  intros Hp Hk. destruct (kw_of _ Hk) as [k Ek]. exists k.
  destruct (table_keywords O kw_plain T names_opfree k) as [sp0 L0].
  set (x := occurrence_tok text [p] p (VKw k)).
  assert (Hx : In x M).
  { apply (scan_exact O tr (build_trie_wf O T) text). apply in_split in Hp as [pre [post E]].
    exists pre, [p], post, sp0, (VKw k). split; [exact E|]. split; [discriminate|]. split; [|reflexivity].
    unfold lws. cbn [map]. rewrite Ek. exact L0. }
  assert (Hpp : pstart p <= pend p) by (apply (incr_piece_nonempty wps p wps_incr Hp)).
  apply fo_keeps_apart; [unfold wf_tok; cbn; exact Hpp | exact Hx|].
  intros y Hy. destruct (match_shape y Hy) as [pre [mid [post [sp [v [E [Hne [G [Ey Hs]]]]]]]]].
  pose proof wps_incr as Hi. rewrite E in Hi. destruct (run_positions pre mid post Hi Hne) as [R1 [R2 [R3 Rm]]].
  destruct (occ_span mid v Hne) as [S1 S2].
  assert (Hwy : wf_tok y).
  { unfold wf_tok. rewrite Ey, S1, S2. destruct (R3 (hd dpiece mid) (hd_in dpiece mid Hne)) as [_ A].
    pose proof (incr_piece_nonempty mid _ Rm (hd_in dpiece mid Hne)). lia. }
  assert (Hin : In p (pre ++ mid ++ post)) by (rewrite <- E; exact Hp).
  destruct Hs as [[k' [q [-> [-> Eq]]]]|Hfree].
  - (* another operator word, or the same piece *)
    assert (Hq : In q wps) by (rewrite E; apply in_or_app; right; left; reflexivity).
    destruct (incr_tri wps p q wps_incr Hp Hq) as [<-|[A|A]].
    + left. rewrite Ek in Eq. apply kw_str_inj in Eq. subst k'. exact Ey.
    + right. split; [exact Hwy|]. unfold apart. rewrite Ey. cbn. left. exact A.
    + right. split; [exact Hwy|]. unfold apart. rewrite Ey. cbn. right. exact A.
  - right. split; [exact Hwy|]. unfold apart. rewrite Ey, S1, S2. cbn [tstart tend x occurrence_tok].
    apply in_app_or in Hin as [Hin|Hin]; [left; apply R1; exact Hin|].
    apply in_app_or in Hin as [Hin|Hin]; [|right; apply R2; exact Hin].
    exfalso. specialize (Hfree p Hin). unfold kwp in Hk. rewrite Hk in Hfree. discriminate.
Qed.

(* a word left unmatched by Trie.tokenize lies in no kept match *)
Lemma unmatched_not_covered p : In p P -> is_word_piece O p = true -> unm_p O T text p ->
  forall x, In x (filter_overlapping M) -> ~ covers x p.
Proof.
  intros Hp Hw Hu x Hx Hc.
  destruct (tokenize_covers_once O tr (build_trie_wf O T) text p Hp Hw) as [pre [t [post [E [Ct Hno]]]]].
  assert (Hxt : In x (t_tokenize O tr text)) by (apply (tokenize_keeps_matches O tr (build_trie_wf O T) text); exact Hx).
  assert (Cu : covers (unmatched p : ltok) p) by (unfold covers, unmatched; cbn; lia).
  assert (Ex : x = t).
  { rewrite E in Hxt. apply in_app_or in Hxt as [H|[H|H]]; [exfalso; apply (Hno x); [apply in_or_app; left; exact H | exact Hc] | symmetry; exact H |].
    exfalso. apply (Hno x); [apply in_or_app; right; exact H | exact Hc]. }
  assert (Eu : (unmatched p : ltok) = t).
  { unfold unm_p in Hu. rewrite E in Hu. apply in_app_or in Hu as [H|[H|H]]; [exfalso; apply (Hno _ (in_or_app _ _ _ (or_introl H))); exact Cu | symmetry; exact H |].
    exfalso. apply (Hno _ (in_or_app _ _ _ (or_intror H))); exact Cu. }
  apply fo_sub in Hx. destruct (match_shape x Hx) as [_ [mid [_ [_ [v [_ [_ [_ [Ey _]]]]]]]]].
  rewrite Ex, <- Eu in Ey. unfold unmatched, occurrence_tok in Ey. discriminate.
Qed.

(* a word of the text lying within the span of a run belongs to the run *)
Lemma in_run pre mid post q : wps = pre ++ mid ++ post -> mid <> [] -> In q wps ->
  pstart (hd dpiece mid) <= pstart q -> pend q <= pend (last mid dpiece) -> In q mid.
Proof.
  intros E Hne Hq A B. pose proof wps_incr as Hi. rewrite E in Hi.
  pose proof (filter_window pre mid post _ _ Hi Hne eq_refl eq_refl) as F. rewrite <- F, <- E.
  apply filter_In. split; [exact Hq|]. apply andb_true_iff. split; lia.
Qed.

(* two reported matches over the same span are the same token *)
Lemma same_span y1 y2 : In y1 M -> In y2 M -> tstart y1 = tstart y2 -> tend y1 = tend y2 -> y1 = y2.
Proof.
  intros H1 H2 Es Ee.
  destruct (match_shape y1 H1) as [pre1 [mid1 [post1 [sp1 [v1 [E1 [N1 [G1 [Ey1 _]]]]]]]]].
  destruct (match_shape y2 H2) as [pre2 [mid2 [post2 [sp2 [v2 [E2 [N2 [G2 [Ey2 _]]]]]]]]].
  destruct (occ_span mid1 v1 N1) as [A1 B1]. destruct (occ_span mid2 v2 N2) as [A2 B2].
  rewrite Ey1, Ey2, A1, A2 in Es. rewrite Ey1, Ey2, B1, B2 in Ee.
  pose proof wps_incr as Hi1. pose proof wps_incr as Hi2. rewrite E1 in Hi1. rewrite E2 in Hi2.
  pose proof (filter_window pre1 mid1 post1 _ _ Hi1 N1 eq_refl eq_refl) as F1.
  pose proof (filter_window pre2 mid2 post2 _ _ Hi2 N2 eq_refl eq_refl) as F2.
  rewrite <- E1 in F1. rewrite <- E2 in F2. rewrite Es, Ee in F1. rewrite F1 in F2. subst mid2.
  unfold look, Reparse.look in *. rewrite G1 in G2. inversion G2; subst. reflexivity.
Qed.

(* a best element of a non-empty list of tokens: the longest, the leftmost among the longest *)
Lemma best_exists : forall l : list ltok, l <> [] ->
  exists x, In x l /\ forall y, In y l -> tok_len y < tok_len x \/ (tok_len y = tok_len x /\ tstart x <= tstart y).
Proof.
  induction l as [|a l IH]; intro H; [contradiction|]. destruct l as [|b l'].
  - exists a. split; [left; reflexivity|]. intros y [<-|[]]. right. split; lia.
  - destruct (IH ltac:(discriminate)) as [x [Hx Hb]].
    destruct (Z_lt_le_dec (tok_len x) (tok_len a)) as [L|L].
    + exists a. split; [left; reflexivity|]. intros y [<-|Hy]; [right; split; lia|]. destruct (Hb y Hy) as [A|[A B]]; left; lia.
    + destruct (Z.eq_dec (tok_len x) (tok_len a)) as [Eq|Ne].
      * destruct (Z_le_gt_dec (tstart a) (tstart x)) as [S|S].
        -- exists a. split; [left; reflexivity|]. intros y [<-|Hy]; [right; split; lia|].
           destruct (Hb y Hy) as [A|[A B]]; [left; lia | right; split; lia].
        -- exists x. split; [right; exact Hx|]. intros y [<-|Hy]; [right; split; lia | apply Hb; exact Hy].
      * exists x. split; [right; exact Hx|]. intros y [<-|Hy]; [left; lia | apply Hb; exact Hy].
Qed.

(* ---- a run of unmatched words between two operator words holds no stored name ---- *)
Section Run.
Variables a g c : list piece.
Hypothesis E : wps = a ++ g ++ c.
Hypothesis Gne : g <> [].
Hypothesis La : a = [] \/ kwp (last a dpiece).
Hypothesis Lc : c = [] \/ kwp (hd dpiece c).
Hypothesis Gu : forall p, In p g -> unm_p O T text p.

Lemma g_in_wps p : In p g -> In p wps.
Proof. intro H. rewrite E. apply in_or_app. right. apply in_or_app. left. exact H. Qed.

Lemma g_word p : In p g -> In p P /\ is_word_piece O p = true.
Proof. intro H. apply g_in_wps in H. apply filter_In in H. exact H. Qed.

Lemma run_no_keyword p : In p g -> is_keyword_str (lower O (ptext p)) = false.
Proof.
  intro Hp. destruct (is_keyword_str (lower O (ptext p))) eqn:K; [|reflexivity]. exfalso.
  destruct (kw_piece_kept p (g_in_wps p Hp) K) as [k Hk].
  destruct (g_word p Hp) as [HP Hw].
  apply (unmatched_not_covered p HP Hw (Gu p Hp) _ Hk). unfold covers. cbn. lia.
Qed.

Definition inside_g (y : ltok) : Prop := pstart (hd dpiece g) <= tstart y /\ tend y <= pend (last g dpiece).
Definition apart_g (y : ltok) : Prop := tend y < pstart (hd dpiece g) \/ pend (last g dpiece) < tstart y.

Lemma positions :
  (forall p, In p a -> pend p < pstart (hd dpiece g)) /\ (forall p, In p c -> pend (last g dpiece) < pstart p) /\
  (forall p, In p g -> pstart (hd dpiece g) <= pstart p /\ pend p <= pend (last g dpiece)).
Proof.
  pose proof wps_incr as Hi. rewrite E in Hi. destruct (run_positions a g c Hi Gne) as [R1 [R2 [R3 _]]].
  split; [exact R1|]. split; [exact R2 | exact R3].
Qed.

Lemma g_span : pstart (hd dpiece g) <= pend (last g dpiece).
Proof.
  pose proof wps_incr as Hi. rewrite E in Hi. destruct (run_positions a g c Hi Gne) as [_ [_ [_ Ig]]].
  apply incr_hd_le_last; assumption.
Qed.

(* every reported match lies inside the run or apart from it *)
Lemma inside_or_apart y : In y M -> inside_g y \/ apart_g y.
Proof.
  intro Hy. destruct (match_shape y Hy) as [pre [mid [post [sp [v [Em [Hne [G [Ey Hs]]]]]]]]].
  destruct positions as [Pa [Pc Pg]]. pose proof g_span as Gs.
  destruct (occ_span mid v Hne) as [S1 S2]. unfold inside_g, apart_g. rewrite Ey, S1, S2.
  pose proof wps_incr as Hi. rewrite Em in Hi. destruct (run_positions pre mid post Hi Hne) as [R1 [R2 [R3 Rm]]].
  assert (Hh : In (hd dpiece mid) wps) by (rewrite Em; apply in_or_app; right; apply in_or_app; left; apply hd_in; exact Hne).
  assert (Hl : In (last mid dpiece) wps) by (rewrite Em; apply in_or_app; right; apply in_or_app; left; apply last_in; exact Hne).
  assert (Hnk : forall p, In p mid -> kwp p -> In p g -> False).
  { intros p _ K Hg. unfold kwp in K. rewrite (run_no_keyword p Hg) in K. discriminate. }
  assert (Hhl : pstart (hd dpiece mid) <= pstart (last mid dpiece) /\ pend (hd dpiece mid) <= pend (last mid dpiece)).
  { destruct (R3 _ (last_in dpiece mid Hne)) as [A _]. destruct (R3 _ (hd_in dpiece mid Hne)) as [_ B]. split; assumption. }
  assert (Hhne : pstart (hd dpiece mid) <= pend (hd dpiece mid)) by (apply (incr_piece_nonempty mid _ Rm (hd_in dpiece mid Hne))).
  assert (Hlne : pstart (last mid dpiece) <= pend (last mid dpiece)) by (apply (incr_piece_nonempty mid _ Rm (last_in dpiece mid Hne))).
  (* where the first and the last piece of the match stand *)
  rewrite E in Hh, Hl.
  apply in_app_or in Hh as [Hh|Hh]; [|apply in_app_or in Hh as [Hh|Hh]].
  - (* starts before the run *)
    apply in_app_or in Hl as [Hl|Hl]; [right; left; apply Pa; exact Hl|]. exfalso.
    destruct La as [Ea|Ka]; [subst a; destruct Hh|].
    assert (Ane : a <> []) by (intro Ea; subst a; destruct Hh).
    assert (Hka : In (last a dpiece) wps) by (rewrite E; apply in_or_app; left; apply last_in; exact Ane).
    pose proof wps_incr as Hi2. rewrite E in Hi2. apply incr_app in Hi2 as [Ia _].
    destruct (incr_first_last a dpiece Ia Ane _ Hh) as [_ B1].
    assert (B0 : pstart (hd dpiece mid) <= pstart (last a dpiece)).
    { destruct (incr_tri a (hd dpiece mid) (last a dpiece) Ia Hh (last_in dpiece a Ane)) as [->|[A|A]]; [lia | |].
      - pose proof (incr_piece_nonempty a _ Ia (last_in dpiece a Ane)). lia.
      - pose proof (incr_piece_nonempty a _ Ia Hh). lia. }
    assert (B2 : pend (last a dpiece) <= pend (last mid dpiece)).
    { pose proof (Pa _ (last_in dpiece a Ane)) as A.
      apply in_app_or in Hl as [Hl|Hl]; [destruct (Pg _ Hl); lia | pose proof (Pc _ Hl); destruct (Pg _ (last_in dpiece g Gne)); pose proof (incr_piece_nonempty g _ ltac:(pose proof wps_incr as X; rewrite E in X; apply incr_app in X as [_ [X _]]; apply incr_app in X as [X _]; exact X) (last_in dpiece g Gne)); lia]. }
    pose proof (in_run pre mid post _ Em Hne Hka B0 B2) as Hin.
    destruct Hs as [[k [q [-> [-> Eq]]]]|Hfree].
    + destruct Hin as [Eq2|[]]. subst q. cbn [hd last] in *.
      (* the single operator piece is the last piece of a and also stands in g or c: impossible by positions *)
      apply in_app_or in Hl as [Hl|Hl]; [destruct (Pg _ Hl); pose proof (Pa _ Hh); lia | pose proof (Pc _ Hl); pose proof (Pa _ Hh); destruct (Pg _ (hd_in dpiece g Gne)); destruct (Pg _ (last_in dpiece g Gne)); lia].
    + specialize (Hfree _ Hin). unfold kwp in Ka. rewrite Ka in Hfree. discriminate.
  - (* starts inside the run *)
    apply in_app_or in Hl as [Hl|Hl]; [exfalso; pose proof (Pa _ Hl); destruct (Pg _ Hh); lia|].
    apply in_app_or in Hl as [Hl|Hl]; [left; split; [apply (Pg _ Hh) | apply (Pg _ Hl)]|]. exfalso.
    destruct Lc as [Ec|Kc]; [subst c; destruct Hl|].
    assert (Cne : c <> []) by (intro Ec; subst c; destruct Hl).
    assert (Hkc : In (hd dpiece c) wps) by (rewrite E; apply in_or_app; right; apply in_or_app; right; apply hd_in; exact Cne).
    pose proof wps_incr as Hi2. rewrite E in Hi2. apply incr_app in Hi2 as [_ [Hi2 _]]. apply incr_app in Hi2 as [_ [Ic _]].
    destruct (incr_first_last c dpiece Ic Cne _ Hl) as [B1 _].
    assert (B2 : pend (hd dpiece c) <= pend (last mid dpiece)).
    { destruct (incr_tri c (hd dpiece c) (last mid dpiece) Ic (hd_in dpiece c Cne) Hl) as [->|[A|A]]; [lia | |].
      - lia.
      - pose proof (incr_piece_nonempty c _ Ic (hd_in dpiece c Cne)). lia. }
    assert (B0 : pstart (hd dpiece mid) <= pstart (hd dpiece c)).
    { pose proof (Pc _ (hd_in dpiece c Cne)). destruct (Pg _ Hh). lia. }
    pose proof (in_run pre mid post _ Em Hne Hkc B0 B2) as Hin.
    destruct Hs as [[k [q [-> [-> Eq]]]]|Hfree].
    + destruct Hin as [Eq2|[]]. subst q. cbn [hd last] in *. pose proof (Pc _ Hl). destruct (Pg _ Hh). lia.
    + specialize (Hfree _ Hin). unfold kwp in Kc. rewrite Kc in Hfree. discriminate.
  - (* starts after the run *)
    right; right. apply Pc. exact Hh.
Qed.

Theorem run_clean : forall a' m c', g = a' ++ m ++ c' -> m <> [] -> look (lws O m) = None.
Proof.
  intros a' m c' Eg Hm. destruct (look (lws O m)) as [[sp v]|] eqn:L; [|reflexivity]. exfalso.
  destruct positions as [Pa [Pc Pg]].
  (* the occurrence is a reported match inside the run *)
  set (y0 := occurrence_tok text m (last m dpiece) v).
  assert (Em : wps = (a ++ a') ++ m ++ (c' ++ c)) by (rewrite E, Eg, <- !app_assoc; reflexivity).
  assert (Hy0 : In y0 M).
  { apply (scan_exact O tr (build_trie_wf O T) text). exists (a ++ a'), m, (c' ++ c), sp, v. split; [exact Em|]. split; [exact Hm|]. split; [exact L | reflexivity]. }
  assert (Iy0 : inside_g y0).
  { unfold inside_g. destruct (occ_span m v Hm) as [S1 S2]. unfold y0. rewrite S1, S2.
    assert (H1 : In (hd dpiece m) g) by (rewrite Eg; apply in_or_app; right; apply in_or_app; left; apply hd_in; exact Hm).
    assert (H2 : In (last m dpiece) g) by (rewrite Eg; apply in_or_app; right; apply in_or_app; left; apply last_in; exact Hm).
    split; [apply (Pg _ H1) | apply (Pg _ H2)]. }
  (* the best match inside the run *)
  set (inb := fun y : ltok => (pstart (hd dpiece g) <=? tstart y) && (tend y <=? pend (last g dpiece))).
  assert (Hne : filter inb M <> []).
  { intro F. assert (Hin : In y0 (filter inb M)) by (apply filter_In; split; [exact Hy0 | unfold inb; destruct Iy0; apply andb_true_iff; split; lia]).
    rewrite F in Hin. destruct Hin. }
  destruct (best_exists (filter inb M) Hne) as [x [Hx Hbest]].
  apply filter_In in Hx as [HxM Hxi]. unfold inb in Hxi. apply andb_true_iff in Hxi as [X1 X2].
  destruct (match_shape x HxM) as [prex [midx [postx [spx [vx [Ex [Nx [Gx [Eyx _]]]]]]]]].
  destruct (occ_span midx vx Nx) as [Sx1 Sx2].
  pose proof wps_incr as Hix. rewrite Ex in Hix. destruct (run_positions prex midx postx Hix Nx) as [_ [_ [Rx3 Rxm]]].
  assert (Hwx : wf_tok x).
  { unfold wf_tok. rewrite Eyx, Sx1, Sx2. destruct (Rx3 _ (hd_in dpiece midx Nx)) as [_ A].
    pose proof (incr_piece_nonempty midx _ Rxm (hd_in dpiece midx Nx)). lia. }
  assert (Hkept : In x (filter_overlapping M)).
  { apply fo_keeps_dominant_tie; [exact Hwx | exact HxM|]. intros y Hy.
    destruct (match_shape y Hy) as [prey [midy [posty [spy [vy [Ey [Ny [Gy [Eyy _]]]]]]]]].
    destruct (occ_span midy vy Ny) as [Sy1 Sy2].
    pose proof wps_incr as Hiy. rewrite Ey in Hiy. destruct (run_positions prey midy posty Hiy Ny) as [_ [_ [Ry3 Rym]]].
    assert (Hwy : wf_tok y).
    { unfold wf_tok. rewrite Eyy, Sy1, Sy2. destruct (Ry3 _ (hd_in dpiece midy Ny)) as [_ A].
      pose proof (incr_piece_nonempty midy _ Rym (hd_in dpiece midy Ny)). lia. }
    destruct (inside_or_apart y Hy) as [[I1 I2]|Ap].
    - assert (Hyf : In y (filter inb M)) by (apply filter_In; split; [exact Hy | unfold inb; apply andb_true_iff; split; lia]).
      destruct (Hbest y Hyf) as [A|[A B]]; [right; split; [exact Hwy | right; left; exact A]|].
      destruct (Z.eq_dec (tstart x) (tstart y)) as [Es|Ns].
      + left. symmetry. apply same_span; [exact HxM | exact Hy | exact Es|]. unfold tok_len in A. lia.
      + right. split; [exact Hwy|]. right; right. split; [exact A | lia].
    - right. split; [exact Hwy|]. left. unfold apart, apart_g in *. apply Z.leb_le in X1. apply Z.leb_le in X2. unfold wf_tok in *. lia. }
  (* but its first word is an unmatched word of the run *)
  assert (Hh : In (hd dpiece midx) wps) by (rewrite Ex; apply in_or_app; right; apply in_or_app; left; apply hd_in; exact Nx).
  apply Z.leb_le in X1. apply Z.leb_le in X2. rewrite Eyx, Sx1 in X1. rewrite Eyx, Sx2 in X2.
  assert (Hg : In (hd dpiece midx) g).
  { apply (in_run a g c _ E Gne Hh X1). destruct (Rx3 _ (hd_in dpiece midx Nx)) as [_ A]. lia. }
  destruct (g_word _ Hg) as [HP Hw].
  apply (unmatched_not_covered _ HP Hw (Gu _ Hg) x Hkept).
  unfold covers. rewrite Eyx, Sx1, Sx2. destruct (Rx3 _ (hd_in dpiece midx Nx)) as [_ A]. lia.
Qed.

End Run.

(* ---- from the accounting of a successful parse to the licenses of its result ---- *)
Notation pacc := (ptok_acc O text (kw_acc O) (sym_acc O T text)).
Definition kwords (s : sym) : list str := words O (key s).

Lemma kw_group k g : kw_acc O k g -> exists p, g = [p] /\ kwp p.
Proof.
  intros [name [Hin El]].
  assert (Hn : In name [s_and; s_or; s_lpar; s_rpar; s_with]).
  { unfold keyword_adds in Hin. simpl in Hin. simpl.
    repeat (destruct Hin as [Hin|Hin]; [inversion Hin; tauto|]). destruct Hin. }
  rewrite (kw_lwords O kw_plain name Hn) in El.
  destruct g as [|p [|q g']]; try discriminate. exists p. split; [reflexivity|]. cbn [lws map] in El. injection El as El.
  unfold kwp. rewrite El. simpl in Hn. repeat (destruct Hn as [<-|Hn]; [reflexivity|]). destruct Hn.
Qed.

Lemma op_group t g : pacc t g -> is_symt (pt t) = false -> exists p, g = [p] /\ kwp p.
Proof.
  intros [_ [_ [_ Hv]]] Hs. destruct (pt t) as [a0| | | |]; [discriminate | | | |]; eapply kw_group; exact Hv.
Qed.

Lemma adj_split : forall l1 prev t l2, adj_all prev (l1 ++ t :: l2) = true ->
  (l1 <> [] -> adj_ok (Some (last l1 TA)) t = true) /\ (forall t2 r, l2 = t2 :: r -> adj_ok (Some t) t2 = true).
Proof.
  induction l1 as [|x l1 IH]; intros prev t l2 H.
  - cbn [app adj_all] in H. apply andb_true_iff in H as [_ H]. split; [intro C; contradiction|].
    intros t2 r ->. cbn [adj_all] in H. apply andb_true_iff in H as [H _]. exact H.
  - cbn [app adj_all] in H. apply andb_true_iff in H as [_ H]. destruct l1 as [|y l1'].
    + cbn [app] in H. pose proof H as H0. cbn [adj_all] in H0. apply andb_true_iff in H0 as [H0 _].
      destruct (IH (Some x) t l2 H) as [_ I2]. split; [intros _; exact H0 | exact I2].
    + destruct (IH (Some x) t l2 H) as [I1 I2]. split; [intros _; apply I1; discriminate | exact I2].
Qed.

Lemma after_symbol_is_op t t2 : is_symt t = true -> adj_ok (Some t) t2 = true -> is_symt t2 = false.
Proof. intros Hs H. unfold adj_ok in H. rewrite Hs in H. cbn [orb] in H. destruct t2; try reflexivity. discriminate. Qed.

Lemma before_symbol_is_op t' t : is_symt t = true -> adj_ok (Some t') t = true -> is_symt t' = false.
Proof.
  intros Hs H. unfold adj_ok in H. destruct (is_symt t') eqn:E; [|reflexivity]. cbn [orb] in H.
  destruct t; try discriminate.
Qed.

Lemma left_boundary : forall (p1 : list ptok) g1, Forall2 pacc p1 g1 -> p1 <> [] ->
  is_symt (last (map (fun t => pt t) p1) TA) = false -> concat g1 <> [] /\ kwp (last (concat g1) dpiece).
Proof.
  intros p1 g1 HF Hne Hs. destruct (exists_last Hne) as [p1' [t' E]]. subst p1.
  apply Forall2_app_inv_l in HF as [g1' [gl [_ [Hl ->]]]]. inversion Hl as [|? g' ? ? Ht' Hnil]; subst. inversion Hnil; subst.
  rewrite map_app in Hs. cbn [map] in Hs. rewrite last_last in Hs.
  destruct (op_group t' g' Ht' Hs) as [p' [-> Hk]].
  rewrite concat_app. cbn [concat app]. split; [intro C; apply app_eq_nil in C as [_ C]; discriminate|].
  rewrite last_last. exact Hk.
Qed.

Lemma right_boundary t2 (p2 : list ptok) g2 : Forall2 pacc (t2 :: p2) g2 -> is_symt (pt t2) = false ->
  concat g2 <> [] /\ kwp (hd dpiece (concat g2)).
Proof.
  intros HF Hs. inversion HF as [|? g' ? g2' Ht' _]; subst. destruct (op_group t2 g' Ht' Hs) as [p' [-> Hk]].
  cbn [concat app]. split; [discriminate | exact Hk].
Qed.

(* the words of a key made of plain words *)
Lemma words_join ws : Forall (ctext_word O) ws -> words O (join_sp ws) = ws.
Proof.
  intro H. rewrite <- (concat_chunks ws). rewrite (words_chunks O _ (proj1 (canon_words O sp_is_space ws H))).
  apply (filter_words_chunks O sp_is_space ws H).
Qed.

(* an unknown license between two operator words is renderable *)
Lemma unknown_ok a g c s : wps = a ++ g ++ c -> (a = [] \/ kwp (last a dpiece)) -> (c = [] \/ kwp (hd dpiece c)) ->
  exc s = false -> key s = join_sp (map ptext g) -> Forall (wordp O text) g -> g <> [] -> Forall (unm_p O T text) g ->
  mk_key O (key s) = Ok (key s) -> sym_ok O T kwords s.
Proof.
  intros E La Lc Hx Hk Hw Gne Hu Hmk.
  assert (Gu : forall p, In p g -> unm_p O T text p) by (rewrite Forall_forall in Hu; exact Hu).
  pose proof (run_no_keyword a g c E Gu) as Hnk.
  pose proof (run_clean a g c E Gne La Lc Gu) as Hcl.
  (* the pieces are plain words *)
  assert (Hct : Forall (ctext_word O) (map ptext g)).
  { apply Forall_forall. intros w Hin. apply in_map_iff in Hin as [p [<- Hp]].
    rewrite Forall_forall in Hw. destruct (Hw p Hp) as [HP Hwp].
    destruct (piece_cls_spec O text p HP) as [Hall Hlen].
    destruct (wordp_word O text p (conj HP Hwp)) as [Hne _]. split; [exact Hne|].
    intros ch Hch. rewrite (Hall ch Hch). unfold is_word_piece in Hwp.
    destruct (piece_cls O p) eqn:Ec; [discriminate | | reflexivity]. exfalso.
    specialize (Hlen eq_refl). destruct (ptext p) as [|c0 [|c1 r]] eqn:Et; try discriminate.
    pose proof (Hall c0 (or_introl eq_refl)) as Hc0. try rewrite Ec in Hc0. unfold cls_of in Hc0.
    destruct (is_space O c0); [discriminate|]. destruct (is_paren c0) eqn:Ep; [|discriminate].
    assert (Hin2 : In c0 [97; 110; 100; 111; 114; 119; 105; 116; 104; 40; 41]%N).
    { unfold is_paren, c_lpar, c_rpar in Ep. apply orb_true_iff in Ep as [Ep|Ep]; apply N.eqb_eq in Ep; subst c0; simpl; tauto. }
    destruct (kw_plain c0 Hin2) as [_ Hl].
    specialize (Hnk p Hp). rewrite Et in Hnk. unfold lower in Hnk. cbn [flat_map] in Hnk. rewrite Hl in Hnk. cbn [app] in Hnk.
    unfold is_paren, c_lpar, c_rpar in Ep. apply orb_true_iff in Ep as [Ep|Ep]; apply N.eqb_eq in Ep; subst c0; discriminate Hnk. }
  assert (Ekw : kwords s = map ptext g) by (unfold kwords; rewrite Hk; apply words_join; exact Hct).
  assert (Elw : map (lower O) (kwords s) = lws O g) by (rewrite Ekw; unfold lws; rewrite map_map; reflexivity).
  split; [|split].
  - split; [rewrite Ekw; exact Hk|]. split; [rewrite Ekw; destruct g; [contradiction | discriminate] | rewrite Ekw; exact Hct].
  - intros w Hin. rewrite Ekw in Hin. apply in_map_iff in Hin as [p [<- Hp]]. apply Hnk. exact Hp.
  - rewrite Elw. rewrite (Hcl [] g [] ltac:(rewrite app_nil_r; reflexivity) Gne).
    split; [exact Hx|]. split; [exact Hmk|].
    intros a' m c' Es Hm. unfold lws in Es. apply map_eq_app in Es as [ga [gr [Eg [Ea Er]]]].
    apply map_eq_app in Er as [gm [gc [Eg2 [Em Ec]]]]. subst gr.
    rewrite <- Em. apply (Hcl ga gm gc Eg). intro C. subst gm. cbn in Em. subst m. contradiction.
Qed.

Lemma tok_atoms_in : forall (ts : list ptok) a, In a (tok_atoms ts) -> exists p1 t p2, ts = p1 ++ t :: p2 /\ pt t = TS a.
Proof.
  induction ts as [|t ts IH]; intros a H; [destruct H|]. cbn [tok_atoms] in H.
  destruct (pt t) as [a0| | | |] eqn:Et.
  - destruct H as [<-|H]; [exists [], t, ts; split; [reflexivity | exact Et]|].
    destruct (IH a H) as [p1 [t' [p2 [E R]]]]. exists (t :: p1), t', p2. split; [rewrite E; reflexivity | exact R].
  - destruct (IH a H) as [p1 [t' [p2 [E R]]]]. exists (t :: p1), t', p2. split; [rewrite E; reflexivity | exact R].
  - destruct (IH a H) as [p1 [t' [p2 [E R]]]]. exists (t :: p1), t', p2. split; [rewrite E; reflexivity | exact R].
  - destruct (IH a H) as [p1 [t' [p2 [E R]]]]. exists (t :: p1), t', p2. split; [rewrite E; reflexivity | exact R].
  - destruct (IH a H) as [p1 [t' [p2 [E R]]]]. exists (t :: p1), t', p2. split; [rewrite E; reflexivity | exact R].
Qed.

(* every license of the table is renderable: its key is made of plain words, none an operator word, and the table
   stores these words as this very symbol *)
Hypothesis table_ok : forall n s, In (n, VSym s) (flat_map (entry_adds O) T) -> sym_ok O T kwords s.

Theorem parse_renderable e : parse_tokens O T false false text = Ok e -> renderable O T kwords e.
Proof.
  unfold parse_tokens. destruct (lic_tokenize O T false false text) as [ptoks| | | | |] eqn:Et; try discriminate. cbn [obind].
  intro Hb. assert (Hp : bparse ptoks = POk e) by (destruct (bparse ptoks); cbn in Hb; try discriminate; inversion Hb; reflexivity).
  destruct (words_accounted O sp_is_space T text false ptoks Et) as [gs [Ecat HF]].
  destruct (bparse_sound ptoks e Hp) as [Hadj _].
  pose proof (bparse_literals ptoks e Hp) as Hl.
  intros a Ha s Hs. rewrite Hl in Ha.
  destruct (tok_atoms_in ptoks a Ha) as [p1 [t [p2 [Ep Ept]]]]. subst ptoks.
  apply Forall2_app_inv_l in HF as [g1 [gr [HF1 [HFr ->]]]]. inversion HFr as [|? gt ? g2 Ht HF2]; subst.
  rewrite concat_app in Ecat. cbn [concat] in Ecat. symmetry in Ecat.
  rewrite map_app in Hadj. cbn [map] in Hadj. rewrite Ept in Hadj.
  destruct (adj_split (map (fun x => pt x) p1) None (TS a) (map (fun x => pt x) p2) Hadj) as [A1 A2].
  assert (La : concat g1 = [] \/ kwp (last (concat g1) dpiece)).
  { destruct p1 as [|x p1']; [inversion HF1; left; reflexivity|]. right.
    apply (left_boundary (x :: p1') g1 HF1 ltac:(discriminate)).
    apply (before_symbol_is_op _ (TS a) eq_refl). apply A1. discriminate. }
  assert (Lc : concat g2 = [] \/ kwp (hd dpiece (concat g2))).
  { destruct p2 as [|t2 p2']; [inversion HF2; left; reflexivity|]. right.
    apply (right_boundary t2 p2' g2 HF2). apply (after_symbol_is_op (TS a) _ eq_refl). apply (A2 (pt t2) (map (fun x => pt x) p2')). reflexivity. }
  destruct Ht as [Hne [_ [_ Hv]]]. rewrite Ept in Hv.
  destruct a as [s0|l r]; cbn [decompose] in Hs.
  - destruct Hs as [<-|[]]. destruct Hv as [[name [Hin _]]|[Hx [Hk [Hw [Gne [Hu Hmk]]]]]]; [apply (table_ok name s0 Hin)|].
    apply (unknown_ok (concat g1) gt (concat g2) s0 Ecat La Lc Hx Hk Hw Gne Hu Hmk).
  - destruct Hv as [gl [gw [gr [Eg [Kw [Al Ar]]]]]]. destruct (kw_group KWith gw Kw) as [pw [-> Kp]].
    destruct Hs as [<-|[<-|[]]].
    + destruct Al as [[name [Hin _]]|[Hx [Hk [Hw [Gne [Hu Hmk]]]]]]; [apply (table_ok name l Hin)|].
      apply (unknown_ok (concat g1) gl ([pw] ++ gr ++ concat g2) l); try assumption.
      * rewrite Ecat, Eg, <- !app_assoc. reflexivity.
      * right. exact Kp.
    + destruct Ar as [[name [Hin _]]|[Hx [Hk [Hw [Gne [Hu Hmk]]]]]]; [apply (table_ok name r Hin)|].
      apply (unknown_ok (concat g1 ++ gl ++ [pw]) gr (concat g2) r); try assumption.
      * rewrite Ecat, Eg, <- !app_assoc. reflexivity.
      * right. rewrite !app_assoc, last_last. exact Kp.
Qed.

End PR.

(* ---- C05 without the premise on the expression: what parse returns renders to a text that parses back to it ---- *)
Require Import Proofs.ParseWf.

Section RoundTrip.
Variable O : oracle.
Hypothesis sp_is_space : is_space O 32%N = true.
Hypothesis upper_plain : forall c, In c [65; 78; 68; 79; 82; 87; 73; 84; 72; 40; 41]%N -> is_space O c = false.
Hypothesis lower_kw : lower O S_AND = s_and /\ lower O S_OR = s_or /\ lower O S_WITH = s_with /\
                      lower O s_lpar = s_lpar /\ lower O s_rpar = s_rpar.
Hypothesis kw_plain : forall c, In c [97; 110; 100; 111; 114; 119; 105; 116; 104; 40; 41]%N ->
  is_space O c = false /\ lower_ch O c = [c].
Variable T : list entry.
Hypothesis names_opfree : forall n v, In (n, v) (flat_map (entry_adds O) T) ->
  forall w, In w (lwords O n) -> is_keyword_str w = false.
Hypothesis table_ok : forall n s, In (n, VSym s) (flat_map (entry_adds O) T) -> sym_ok O T (kwords O) s.

Lemma parse_tokens_wf text e : parse_tokens O T false false text = Ok e -> wf e = true.
Proof.
  unfold parse_tokens. destruct (lic_tokenize O T false false text) as [ptoks| | | | |]; try discriminate. cbn [obind].
  intro Hb. apply (bparse_wf ptoks). destruct (bparse ptoks); cbn in Hb; try discriminate. inversion Hb; reflexivity.
Qed.

Theorem parse_render_parse text wrap e : parse_tokens O T false false text = Ok e ->
  parse_tokens O T false false (render_with key wrap e) = Ok e.
Proof.
  intro H. apply (render_parse_roundtrip O sp_is_space upper_plain lower_kw kw_plain T names_opfree (kwords O) wrap e).
  - apply (parse_tokens_wf text e H).
  - apply (parse_renderable O sp_is_space lower_kw kw_plain T names_opfree text table_ok e H).
Qed.

(* anything well formed made of the licenses of a parse result (what simplify, dedup and combine return) *)
Theorem derived_render_parse text wrap e e' : parse_tokens O T false false text = Ok e ->
  wf e' = true -> incl (literals e') (literals e) ->
  parse_tokens O T false false (render_with key wrap e') = Ok e'.
Proof.
  intros H W I. apply (render_parse_roundtrip O sp_is_space upper_plain lower_kw kw_plain T names_opfree (kwords O) wrap e' W).
  apply (renderable_incl O T (kwords O) e e' I).
  apply (parse_renderable O sp_is_space lower_kw kw_plain T names_opfree text table_ok e H).
Qed.

End RoundTrip.
