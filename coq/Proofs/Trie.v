(* C16: the matcher as a map (add / get / exists / is_prefix / items, before and after
   finalisation) and the Aho-Corasick scan: Trie.iter reports exactly the occurrences of the stored
   names in the word sequence of the text. *)
Require Import Model.Base Model.Split Model.Trie.
Require Import Proofs.Symbol Proofs.ACCore.
From Coq Require Import Lia.
Open Scope Z_scope.

Lemma path_eqb_eq a : forall b, path_eqb a b = true <-> a = b.
Proof.
  induction a as [|x a IH]; destruct b as [|y b]; simpl; split; intro H; try reflexivity; try discriminate.
  - apply andb_true_iff in H as [H1 H2]. apply str_eqb_eq in H1. apply IH in H2. congruence.
  - inversion H; subst. rewrite str_eqb_refl. simpl. apply IH. reflexivity.
Qed.
Lemma path_eqb_refl a : path_eqb a a = true. Proof. apply path_eqb_eq. reflexivity. Qed.

Lemma is_prefix_of_spec p : forall q, is_prefix_of p q = true <-> exists r, q = p ++ r.
Proof.
  induction p as [|x p IH]; intros q; simpl.
  - split; [intros _; exists q; reflexivity | reflexivity].
  - destruct q as [|y q]; [split; [discriminate | intros [r H]; discriminate]|].
    rewrite andb_true_iff, str_eqb_eq, IH. split.
    + intros [-> [r ->]]. exists r. reflexivity.
    + intros [r H]. inversion H; subst. split; [reflexivity | exists r; reflexivity].
Qed.

Section TrieProofs.
Context {V : Type}.
Variable O : oracle.
Notation trie := (Trie.trie V).

(* ---- the map view ---- *)
Lemma get_set_out p q (o : str * V) l :
  get_out p (set_out q o l) = if path_eqb p q then Some o else get_out p l.
Proof.
  induction l as [|[r o'] l IH]; simpl.
  - destruct (path_eqb p q); reflexivity.
  - destruct (path_eqb q r) eqn:E; simpl.
    + apply path_eqb_eq in E. subst r. destruct (path_eqb p q); reflexivity.
    + destruct (path_eqb p r) eqn:E2; [|exact IH].
      apply path_eqb_eq in E2. subst r. destruct (path_eqb p q) eqn:E3; [|reflexivity].
      apply path_eqb_eq in E3. subst q. rewrite path_eqb_refl in E. discriminate.
Qed.

(* what a sequence of add() calls stores under a path: the last name with these words *)
Fixpoint stored (ops : list (str * V)) (p : path) : option (str * V) :=
  match ops with
  | [] => None
  | (n, v) :: ops' =>
      match stored ops' p with
      | Some o => Some o
      | None => match n with
                | [] => None
                | _ => match lwords O n with [] => None | ws => if path_eqb p ws then Some (n, v) else None end
                end
      end
  end.

Definition add_ops (t : trie) (ops : list (str * V)) : trie :=
  fold_left (fun t nv => match t_add O t (fst nv) (snd nv) with Added t' => t' | Refused => t end) ops t.

Lemma add_ops_conv : forall ops t, conv t = false -> conv (add_ops t ops) = false.
Proof.
  induction ops as [|[n v] ops IH]; intros t H; [exact H|]. simpl. apply IH.
  unfold t_add. rewrite H. destruct n; [exact H|]. destruct (lwords O (n :: n0)); [exact H | reflexivity].
Qed.

Lemma stored_app ops1 ops2 p :
  stored (ops1 ++ ops2) p = match stored ops2 p with Some o => Some o | None => stored ops1 p end.
Proof.
  induction ops1 as [|[n v] ops1 IH]; simpl; [destruct (stored ops2 p); reflexivity|].
  rewrite IH. destruct (stored ops2 p); reflexivity.
Qed.

Theorem get_out_add_ops : forall ops t p, conv t = false ->
  get_out p (outs (add_ops t ops)) = match stored ops p with Some o => Some o | None => get_out p (outs t) end.
Proof.
  induction ops as [|[n v] ops IH] using rev_ind; intros t p H; [reflexivity|].
  unfold add_ops in *. rewrite fold_left_app. simpl.
  set (t1 := fold_left _ ops t). assert (H1 : conv t1 = false) by (apply add_ops_conv; exact H).
  rewrite stored_app. simpl. unfold t_add. rewrite H1.
  destruct n as [|c n].
  - apply IH; exact H.
  - destruct (lwords O (c :: n)) as [|w ws] eqn:E.
    + apply IH; exact H.
    + simpl. rewrite get_set_out. destruct (path_eqb p (w :: ws)); [reflexivity|]. apply IH; exact H.
Qed.

(* get / exists on a trie built by adds: the stored binding, whatever the case and spacing of the
   look-up name (only its lower-cased words matter), before and after make_automaton *)
Lemma get_out_in p (l : list (path * (str * V))) o : get_out p l = Some o -> In (p, o) l.
Proof.
  induction l as [|[q o2] l IH]; [discriminate|]. simpl. destruct (path_eqb p q) eqn:E.
  - apply path_eqb_eq in E. subst q. intro H. inversion H; subst. left; reflexivity.
  - intro H. right. apply IH; exact H.
Qed.

Lemma is_prefix_of_refl p : is_prefix_of p p = true.
Proof. apply is_prefix_of_spec. exists []. rewrite app_nil_r. reflexivity. Qed.

Lemma stored_in_nodes (t : trie) p o : get_out p (outs t) = Some o -> in_nodes t p = true.
Proof.
  intro H. apply get_out_in in H. destruct p as [|w p]; [reflexivity|].
  unfold in_nodes. apply existsb_exists. exists (w :: p, o). split; [exact H | apply is_prefix_of_refl].
Qed.

Theorem get_after_adds ops name :
  t_get O (add_ops t_empty ops) name = match name with [] => None | _ => stored ops (lwords O name) end.
Proof.
  unfold t_get, t_node. destruct name as [|c name]; [reflexivity|].
  pose proof (get_out_add_ops ops t_empty (lwords O (c :: name)) eq_refl) as G. simpl in G.
  destruct (in_nodes (add_ops t_empty ops) (lwords O (c :: name))) eqn:E.
  - rewrite G. destruct (stored ops _); reflexivity.
  - destruct (stored ops (lwords O (c :: name))) as [o|] eqn:S; [|reflexivity].
    assert (get_out (lwords O (c :: name)) (outs (add_ops t_empty ops)) = Some o) by (rewrite G; reflexivity).
    apply stored_in_nodes in H. congruence.
Qed.

Theorem finalise_keeps_map (t : trie) name :
  t_get O (t_make_automaton t) name = t_get O t name /\
  t_is_prefix O (t_make_automaton t) name = t_is_prefix O t name /\
  t_items (t_make_automaton t) = t_items t.
Proof. repeat split. Qed.

Theorem add_after_finalise_refused (t : trie) name v : t_add O (t_make_automaton t) name v = Refused.
Proof. reflexivity. Qed.

(* ---- well-formed tries: stored paths are non-empty and made of known words ---- *)
Definition wf_trie (t : trie) : Prop :=
  forall p o, In (p, o) (outs t) -> p <> [] /\ Forall (fun w => existsb (str_eqb w) (known t) = true) p.

Lemma set_out_in p (o : str * V) l q o' : In (q, o') (set_out p o l) -> (q = p /\ o' = o) \/ In (q, o') l.
Proof.
  induction l as [|[r o2] l IH]; simpl.
  - intros [H|[]]. inversion H; subst. left; split; reflexivity.
  - destruct (path_eqb p r) eqn:E.
    + apply path_eqb_eq in E. subst r. intros [H|H]; [inversion H; subst; left; split; reflexivity | right; right; exact H].
    + intros [H|H]; [right; left; exact H|]. destruct (IH H) as [H1|H1]; [left; exact H1 | right; right; exact H1].
Qed.

Lemma existsb_app_known w (l1 l2 : list str) :
  existsb (str_eqb w) (l1 ++ l2) = existsb (str_eqb w) l1 || existsb (str_eqb w) l2.
Proof. apply existsb_app. Qed.

Lemma wf_add (t : trie) name v t' : wf_trie t -> t_add O t name v = Added t' -> wf_trie t'.
Proof.
  intros W H. unfold t_add in H. destruct (conv t); [discriminate|].
  destruct name as [|c name]; [inversion H; subst; exact W|].
  destruct (lwords O (c :: name)) as [|w ws] eqn:E; [inversion H; subst; exact W|].
  inversion H; subst. clear H. intros p o Hin. simpl in Hin. simpl.
  apply set_out_in in Hin as [[-> ->]|Hin].
  - split; [discriminate|]. apply Forall_forall. intros x Hx. rewrite existsb_app_known. apply orb_true_iff. right.
    apply existsb_exists. exists x. split; [exact Hx | apply str_eqb_refl].
  - destruct (W p o Hin) as [W1 W2]. split; [exact W1|].
    apply Forall_forall. intros x Hx. rewrite Forall_forall in W2. rewrite existsb_app_known, (W2 x Hx). reflexivity.
Qed.

Lemma wf_empty : wf_trie (t_empty : trie).
Proof. intros p o []. Qed.

Lemma wf_add_ops : forall ops t, wf_trie t -> wf_trie (add_ops t ops).
Proof.
  induction ops as [|[n v] ops IH]; intros t W; [exact W|]. simpl. apply IH.
  destruct (t_add O t n v) as [t'|] eqn:E; [eapply wf_add; eassumption | exact W].
Qed.

Lemma wf_make (t : trie) : wf_trie t -> wf_trie (t_make_automaton t).
Proof. intro W. exact W. Qed.

(* ---- the node set is prefix closed ---- *)
Lemma nodes_root (t : trie) : in_nodes t [] = true. Proof. reflexivity. Qed.

Lemma nodes_prefix (t : trie) p w : in_nodes t (p ++ [w]) = true -> in_nodes t p = true.
Proof.
  intro H. destruct p as [|x p]; [reflexivity|]. unfold in_nodes in *. cbn [app] in H.
  apply existsb_exists in H as [e [He Hp]]. apply existsb_exists. exists e. split; [exact He|].
  apply is_prefix_of_spec in Hp as [r Hr]. apply is_prefix_of_spec. exists ([w] ++ r).
  rewrite Hr. simpl. rewrite <- app_assoc. reflexivity.
Qed.

Lemma node_length (t : trie) p : in_nodes t p = true -> (length p <= max_depth t)%nat.
Proof.
  intro H. destruct p as [|x p]; [simpl; lia|]. unfold in_nodes in H. apply existsb_exists in H as [e [He Hp]].
  apply is_prefix_of_spec in Hp as [r Hr].
  assert (L : (length (fst e) <= max_depth t)%nat).
  { unfold max_depth. clear -He. induction (outs t) as [|y l IH]; [destruct He|]. cbn [fold_right].
    destruct He as [->|He]; [apply Nat.le_max_l | etransitivity; [apply IH; exact He | apply Nat.le_max_r]]. }
  rewrite Hr in L. rewrite app_length in L. lia.
Qed.

(* ---- the scan ---- *)
Variable tr : trie.
Hypothesis W : wf_trie tr.

Notation inP := (in_nodes tr).
Notation md := (max_depth tr).
Notation f := (failn inP md).

Definition knownb (w : str) : bool := existsb (str_eqb w) (known tr).
Definition lws (ps : list piece) : list str := map (fun p => lower O (ptext p)) ps.

Lemma Proot : inP [] = true. Proof. reflexivity. Qed.
Lemma Pprefix : forall p w, inP (p ++ [w]) = true -> inP p = true. Proof. apply nodes_prefix. Qed.

Lemma f_is_lps s : (length s <= md)%nat -> f s = lps inP s.
Proof. intro H. apply (failn_lps inP Proot Pprefix). exact H. Qed.

Lemma ls_len t : (length (ls inP t) <= md)%nat.
Proof. apply node_length. apply (ls_inP inP Proot). Qed.

(* one scanned known word: the new state is the longest suffix that is a node *)
Lemma step_known t w : climb inP f md (ls inP t) w = ls inP (t ++ [w]).
Proof.
  apply (step_lemma inP Proot Pprefix f md (ls inP t) t w).
  - intros s' Hl Hin _. apply f_is_lps. apply node_length. exact Hin.
  - reflexivity.
  - apply ls_len.
Qed.

Lemma chain_members s u : inP s = true ->
  In u (chain f md s) <-> (suffix u s /\ inP u = true).
Proof.
  intro Hs. apply (chain_spec inP Proot f md s).
  - intros s' Hl Hin _. apply f_is_lps. apply node_length. exact Hin.
  - exact Hs.
  - apply node_length. exact Hs.
Qed.

(* the maximal suffix made of known words: an unknown word resets the automaton *)
Definition seg (ws : list str) : list str :=
  fold_left (fun a w => if knownb w then a ++ [w] else []) ws [].

Lemma seg_snoc ws w : seg (ws ++ [w]) = if knownb w then seg ws ++ [w] else [].
Proof. unfold seg. rewrite fold_left_app. reflexivity. Qed.

Lemma seg_suffix ws : suffix (seg ws) ws.
Proof.
  induction ws as [|w ws IH] using rev_ind; [apply suffix_refl|].
  rewrite seg_snoc. destruct (knownb w); [apply suffix_snoc; exact IH | apply suffix_nil].
Qed.

Lemma seg_known_suffix : forall ws u, suffix u ws -> Forall (fun w => knownb w = true) u -> suffix u (seg ws).
Proof.
  induction ws as [|w ws IH] using rev_ind; intros u Hs Hk.
  - apply suffix_nil_inv in Hs. subst. apply suffix_nil.
  - apply suffix_snoc_inv in Hs as [->|[u' [-> Hs']]]; [apply suffix_nil|].
    apply Forall_app in Hk as [Hk1 Hk2]. inversion Hk2 as [|? ? Hw _]; subst.
    rewrite seg_snoc, Hw. apply suffix_snoc. apply IH; assumption.
Qed.

Variable text : str.

(* the tokens reported when the word piece [p] has been read after [done] *)
Definition found_at (done : list piece) (p : piece) : list (Trie.tok V) :=
  flat_map (fun node =>
              match get_out node (outs tr) with
              | Some (_, v) =>
                  let st := nth (length node - 1) (rev (map pstart (done ++ [p]))) (-1) in
                  [ {| tstart := st; tend := pend p; tstring := slice text st (pend p); tvalue := Some v |} ]
              | None => []
              end)
           (chain f md (ls inP (seg (lws (done ++ [p]))))).

Fixpoint iter_all (done rest : list piece) : list (Trie.tok V) :=
  match rest with
  | [] => []
  | p :: rest' => (if knownb (lower O (ptext p)) then found_at done p else []) ++ iter_all (done ++ [p]) rest'
  end.

Lemma lws_snoc done p : lws (done ++ [p]) = lws done ++ [lower O (ptext p)].
Proof. unfold lws. rewrite map_app. reflexivity. Qed.

Lemma iter_go_eq : forall rest done, Forall (fun p => is_word_piece O p = true) rest ->
  iter_go O tr text md (ls inP (seg (lws done))) (rev (map pstart done)) rest = iter_all done rest.
Proof.
  induction rest as [|p rest IH]; intros done Hw; [reflexivity|].
  inversion Hw as [|? ? Hp Hr]; subst. cbn [iter_go iter_all]. rewrite Hp. cbn [negb].
  assert (Est : pstart p :: rev (map pstart done) = rev (map pstart (done ++ [p]))).
  { rewrite map_app, rev_app_distr. reflexivity. }
  unfold knownb. destruct (existsb (str_eqb (lower O (ptext p))) (known tr)) eqn:K; cbn [negb].
  - rewrite step_known. unfold found_at. rewrite lws_snoc, seg_snoc. unfold knownb. rewrite K.
    rewrite Est. f_equal.
    specialize (IH (done ++ [p]) Hr). rewrite lws_snoc, seg_snoc in IH. unfold knownb in IH. rewrite K in IH.
    exact IH.
  - specialize (IH (done ++ [p]) Hr). rewrite lws_snoc, seg_snoc in IH. unfold knownb in IH. rewrite K in IH.
    rewrite <- Est in IH. simpl in IH. simpl. exact IH.
Qed.

(* paths with an output are non-empty and made of known words *)
Lemma out_known node o : get_out node (outs tr) = Some o ->
  node <> [] /\ Forall (fun w => knownb w = true) node /\ inP node = true.
Proof.
  intro H. assert (Hin : exists o', In (node, o') (outs tr)) by (exists o; apply get_out_in; exact H).
  destruct Hin as [o' Ho']. destruct (W node o' Ho') as [W1 W2]. split; [exact W1|]. split; [exact W2|].
  eapply stored_in_nodes; exact H.
Qed.

Lemma suffix_map {A} (g : A -> str) : forall (l : list A) u, suffix u (map g l) -> exists pre mid, l = pre ++ mid /\ map g mid = u.
Proof.
  intros l u [v Hv]. revert l Hv. induction v as [|b v IH]; intros l Hv.
  - exists [], l. split; [reflexivity | exact Hv].
  - destruct l as [|a l]; [discriminate|]. simpl in Hv. inversion Hv; subst.
    destruct (IH l H1) as [pre [mid [-> Hm]]]. exists (a :: pre), mid. split; [reflexivity | exact Hm].
Qed.

Lemma nth_first_of_rev (pre mid : list piece) : mid <> [] ->
  nth (length mid - 1) (rev (map pstart (pre ++ mid))) (-1) = match mid with q :: _ => pstart q | [] => -1 end.
Proof.
  intro Hne. destruct mid as [|q mid]; [contradiction|].
  rewrite map_app, rev_app_distr. simpl map. simpl rev.
  rewrite app_nth1 by (rewrite app_length, rev_length, map_length; simpl; lia).
  rewrite app_nth2 by (rewrite rev_length, map_length; simpl; lia).
  rewrite rev_length, map_length. replace (length (q :: mid) - 1 - length mid)%nat with 0%nat by (simpl; lia). reflexivity.
Qed.

Definition occurrence_tok (mid : list piece) (last : piece) (v : V) : Trie.tok V :=
  let st := match mid with q :: _ => pstart q | [] => -1 end in
  {| tstart := st; tend := pend last; tstring := slice text st (pend last); tvalue := Some v |}.

(* what is reported after reading [p]: one token per stored name whose words end here *)
Lemma found_at_spec done p t :
  In t (found_at done p) <->
  exists pre mid sp v, done ++ [p] = pre ++ mid /\ mid <> [] /\
                       get_out (lws mid) (outs tr) = Some (sp, v) /\ t = occurrence_tok mid p v.
Proof.
  unfold found_at. rewrite in_flat_map. split.
  - intros [node [Hc Ht]]. destruct (get_out node (outs tr)) as [[sp v]|] eqn:G; [|destruct Ht].
    destruct Ht as [<-|[]]. apply chain_members in Hc; [|apply (ls_inP inP Proot)].
    destruct Hc as [Hs _].
    assert (Hs2 : suffix node (lws (done ++ [p]))).
    { eapply suffix_trans; [exact Hs|]. eapply suffix_trans; [apply (ls_suffix inP Proot) | apply seg_suffix]. }
    destruct (suffix_map _ _ _ Hs2) as [pre [mid [E Hm]]].
    destruct (out_known node _ G) as [Hne _].
    assert (Hmne : mid <> []) by (intro; subst mid; simpl in Hm; congruence).
    exists pre, mid, sp, v. split; [exact E|]. split; [exact Hmne|]. split; [unfold lws; rewrite Hm; exact G|].
    unfold occurrence_tok. rewrite E. rewrite <- Hm. rewrite map_length.
    rewrite (nth_first_of_rev pre mid Hmne). reflexivity.
  - intros [pre [mid [sp [v [E [Hne [G ->]]]]]]]. exists (lws mid).
    destruct (out_known _ _ G) as [_ [Hk Hin]]. split.
    + apply chain_members; [apply (ls_inP inP Proot)|]. split; [|exact Hin].
      apply (ls_longest inP); [|exact Hin]. apply seg_known_suffix; [|exact Hk].
      rewrite E. unfold lws. rewrite map_app. exists (map (fun p0 => lower O (ptext p0)) pre). reflexivity.
    + rewrite G. left. unfold occurrence_tok.
      replace (length (lws mid)) with (length mid) by (unfold lws; rewrite map_length; reflexivity).
      rewrite E. rewrite (nth_first_of_rev pre mid Hne). reflexivity.
Qed.

Lemma iter_all_spec : forall rest done t,
  In t (iter_all done rest) <->
  exists r1 p r2 pre mid sp v, rest = r1 ++ p :: r2 /\ done ++ r1 ++ [p] = pre ++ mid /\ mid <> [] /\
      get_out (lws mid) (outs tr) = Some (sp, v) /\ t = occurrence_tok mid p v.
Proof.
  induction rest as [|p rest IH]; intros done t; cbn [iter_all].
  - split; [intros [] | intros [r1 [q [r2 [pre [mid [sp [v [E _]]]]]]]]; destruct r1; discriminate].
  - rewrite in_app_iff, IH. split.
    + intros [H|H].
      * destruct (knownb (lower O (ptext p))) eqn:K; [|destruct H].
        apply found_at_spec in H as [pre [mid [sp [v [E [Hne [G Ht]]]]]]].
        exists [], p, rest, pre, mid, sp, v. repeat split; assumption.
      * destruct H as [r1 [q [r2 [pre [mid [sp [v [E1 [E2 [Hne [G Ht]]]]]]]]]]].
        exists (p :: r1), q, r2, pre, mid, sp, v. split; [simpl; rewrite E1; reflexivity|].
        split; [rewrite <- E2, <- app_assoc; reflexivity|]. repeat split; assumption.
    + intros [r1 [q [r2 [pre [mid [sp [v [E1 [E2 [Hne [G Ht]]]]]]]]]]].
      destruct r1 as [|a r1].
      * simpl in E1. inversion E1; subst q r2. left.
        assert (K : knownb (lower O (ptext p)) = true).
        { destruct (out_known _ _ G) as [_ [Hk _]]. simpl in E2.
          assert (Hl : exists m', mid = m' ++ [p]).
          { destruct mid as [|x mid'] using rev_ind; [contradiction|]. rewrite app_assoc in E2.
            apply app_inj_tail in E2 as [_ <-]. exists mid'. reflexivity. }
          destruct Hl as [m' ->]. rewrite lws_snoc in Hk. apply Forall_app in Hk as [_ Hk]. inversion Hk; subst. assumption. }
        rewrite K. apply found_at_spec. exists pre, mid, sp, v. repeat split; assumption.
      * simpl in E1. inversion E1; subst a rest. right.
        exists r1, q, r2, pre, mid, sp, v. split; [reflexivity|].
        split; [rewrite <- app_assoc; exact E2|]. repeat split; assumption.
Qed.

Lemma iter_go_skip_spaces : forall ps state starts,
  iter_go O tr text md state starts ps = iter_go O tr text md state starts (filter (is_word_piece O) ps).
Proof.
  induction ps as [|p ps IH]; intros state starts; [reflexivity|].
  cbn [iter_go filter]. destruct (is_word_piece O p) eqn:E; cbn [negb].
  - cbn [iter_go]. rewrite E. cbn [negb].
    destruct (negb (existsb (str_eqb (lower O (ptext p))) (known tr))); [apply IH|]. f_equal. apply IH.
  - apply IH.
Qed.

(* Trie.iter reports exactly the occurrences of the stored names in the word sequence of the text *)
Theorem scan_exact (t : Trie.tok V) :
  let wps := filter (is_word_piece O) (pieces O text) in
  In t (t_iter O tr text) <->
  exists pre mid post sp v, wps = pre ++ mid ++ post /\ mid <> [] /\
      get_out (lws mid) (outs tr) = Some (sp, v) /\
      t = occurrence_tok mid (List.last mid {| pstart := 0; ptext := [] |}) v.
Proof.
  intro wps. unfold t_iter. rewrite iter_go_skip_spaces. fold wps.
  assert (Hw : Forall (fun p => is_word_piece O p = true) wps).
  { apply Forall_forall. intros p Hp. apply filter_In in Hp as [_ Hp]. exact Hp. }
  pose proof (iter_go_eq wps [] Hw) as E. simpl in E. rewrite E. rewrite iter_all_spec. split.
  - intros [r1 [p [r2 [pre [mid [sp [v [E1 [E2 [Hne [G Ht]]]]]]]]]]]. simpl in E2.
    exists pre, mid, r2, sp, v. split; [rewrite E1; rewrite app_assoc, <- E2, <- app_assoc; reflexivity|].
    split; [exact Hne|]. split; [exact G|]. rewrite Ht. f_equal.
    assert (Hl : exists m', mid = m' ++ [p]).
    { destruct mid as [|x mid'] using rev_ind; [contradiction|]. rewrite app_assoc in E2.
      apply app_inj_tail in E2 as [_ <-]. exists mid'. reflexivity. }
    destruct Hl as [m' ->]. rewrite last_last. reflexivity.
  - intros [pre [mid [post [sp [v [E1 [Hne [G Ht]]]]]]]].
    destruct mid as [|x mid'] using rev_ind; [contradiction|]. clear IHmid'.
    exists (pre ++ mid'), x, post, pre, (mid' ++ [x]), sp, v.
    split; [rewrite E1, <- !app_assoc; reflexivity|]. split; [simpl; rewrite <- app_assoc; reflexivity|].
    split; [exact Hne|]. split; [exact G|]. rewrite Ht, last_last. reflexivity.
Qed.

(* the whole text as one occurrence: a text whose lower-cased words are a stored name is matched
   from its first to its last word *)
Theorem whole_text_matched sp v :
  get_out (lwords O text) (outs tr) = Some (sp, v) ->
  let wps := filter (is_word_piece O) (pieces O text) in
  In (occurrence_tok wps (List.last wps {| pstart := 0; ptext := [] |}) v) (t_iter O tr text).
Proof.
  intros G wps. apply scan_exact. exists [], wps, [], sp, v. fold wps.
  assert (E : lws wps = lwords O text).
  { unfold lws, lwords, words, wps. rewrite map_map. reflexivity. }
  split; [rewrite app_nil_r; reflexivity|]. split.
  - intro H. destruct (out_known _ _ G) as [Hne _]. apply Hne. rewrite <- E, H. reflexivity.
  - split; [rewrite E; exact G | reflexivity].
Qed.

(* with single-word names only, the scan is a per-word look-up: one token for every word piece whose
   lower-cased text is stored, positioned on that piece *)
Theorem single_word_scan (t : Trie.tok V) :
  (forall p o, In (p, o) (outs tr) -> length p = 1%nat) ->
  (In t (t_iter O tr text) <->
   exists p sp v, In p (filter (is_word_piece O) (pieces O text)) /\
                  get_out [lower O (ptext p)] (outs tr) = Some (sp, v) /\
                  t = {| tstart := pstart p; tend := pend p; tstring := slice text (pstart p) (pend p); tvalue := Some v |}).
Proof.
  intro H1. rewrite scan_exact. split.
  - intros [pre [mid [post [sp [v [E [Hne [G Ht]]]]]]]].
    assert (L : length (lws mid) = 1%nat) by (apply (H1 _ (sp, v)); apply get_out_in; exact G).
    unfold lws in L. rewrite map_length in L. destruct mid as [|p [|q mid]]; try discriminate.
    exists p, sp, v. split; [rewrite E; apply in_or_app; right; left; reflexivity|]. split; [exact G | exact Ht].
  - intros [p [sp [v [Hin [G Ht]]]]]. apply in_split in Hin as [pre [post E]].
    exists pre, [p], post, sp, v. split; [exact E|]. split; [discriminate|]. split; [exact G | exact Ht].
Qed.

End TrieProofs.

(* what add() stored under a path is a name with exactly these lower-cased words *)
Lemma stored_words {V} O (ops : list (str * V)) p n v : stored O ops p = Some (n, v) -> lwords O n = p /\ In (n, v) ops.
Proof.
  induction ops as [|[n0 v0] ops IH]; [discriminate|]. simpl.
  destruct (stored O ops p) as [o|] eqn:S.
  - intro H. inversion H; subst. destruct (IH eq_refl) as [I1 I2]. split; [exact I1 | right; exact I2].
  - destruct n0 as [|c n0]; [discriminate|]. destruct (lwords O (c :: n0)) as [|w ws] eqn:E; [discriminate|].
    destruct (path_eqb p (w :: ws)) eqn:Ep; [|discriminate]. apply path_eqb_eq in Ep. intro H. inversion H; subst.
    split; [exact E | left; reflexivity].
Qed.
