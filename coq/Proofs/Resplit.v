(* C05: splitting a concatenation of chunks - space-free words, runs of white space, single
   parentheses, no two mergeable chunks adjacent - gives back exactly those chunks. *)
Require Import Model.Base Model.Split.
Require Import Proofs.Split.
From Coq Require Import Lia.
Open Scope Z_scope.

Section Resplit.
Variable O : oracle.

Definition wcls (w : str) : cls := match w with [] => CSpace | c :: _ => cls_of O c end.

Fixpoint canon (ws : list str) : Prop :=
  match ws with
  | [] => True
  | w :: ws' =>
      w <> [] /\ (forall c, In c w -> cls_of O c = wcls w) /\ (wcls w = CParen -> length w = 1%nat) /\
      match ws' with [] => True | w2 :: _ => ~ (wcls w2 = wcls w /\ wcls w <> CParen) end /\
      canon ws'
  end.

Lemma cls_eqb_refl k : cls_eqb k k = true. Proof. destruct k; reflexivity. Qed.
Lemma cls_eqb_eq a b : cls_eqb a b = true <-> a = b.
Proof. destruct a, b; cbn; split; intro H; try reflexivity; try discriminate. Qed.

(* a run of characters of the class being collected is collected *)
Lemma consume : forall r k acc start pos s', (forall c, In c r -> cls_of O c = k) -> (r <> [] -> k <> CParen) ->
  split_acc O start k acc pos (r ++ s') = split_acc O start k (rev r ++ acc) (pos + Z.of_nat (length r)) s'.
Proof.
  induction r as [|c r IH]; intros k acc start pos s' Hall Hk; [cbn; rewrite Z.add_0_r; reflexivity|].
  cbn [app split_acc]. rewrite (Hall c (or_introl eq_refl)). rewrite cls_eqb_refl.
  assert (Hnp : cls_eqb k CParen = false).
  { destruct (cls_eqb k CParen) eqn:E; [|reflexivity]. apply cls_eqb_eq in E. exfalso. apply Hk; [discriminate | exact E]. }
  rewrite Hnp. cbn [andb negb]. rewrite IH; [|intros x Hx; apply Hall; right; exact Hx | intros _; apply Hk; discriminate].
  cbn [rev length]. rewrite <- app_assoc. cbn [app]. f_equal. lia.
Qed.

Lemma resplit_aux : forall chunks c0 r start pos, canon ((c0 :: r) :: chunks) ->
  map ptext (split_acc O start (cls_of O c0) [c0] pos (r ++ concat chunks)) = (c0 :: r) :: chunks.
Proof.
  induction chunks as [|w chunks IH]; intros c0 r start pos Hc.
  - destruct Hc as [_ [Hall [Hpar _]]]. cbn [concat]. rewrite app_nil_r.
    rewrite <- (app_nil_r r) at 1. rewrite consume.
    + cbn [split_acc map ptext]. rewrite rev_app_distr, rev_involutive. reflexivity.
    + intros c Hc. cbn [wcls] in Hall. apply Hall. right; exact Hc.
    + intros Hne Ek. cbn [wcls] in Hpar. specialize (Hpar Ek). cbn in Hpar. destruct r; [contradiction | discriminate].
  - destruct Hc as [_ [Hall [Hpar [Hadj Hrest]]]]. cbn [wcls] in *.
    destruct w as [|c' r']; [destruct Hrest as [H _]; contradiction|].
    cbn [concat]. rewrite consume.
    + cbn [app split_acc]. 
      assert (E : cls_eqb (cls_of O c0) (cls_of O c') && negb (cls_eqb (cls_of O c0) CParen) = false).
      { destruct (cls_eqb (cls_of O c0) (cls_of O c')) eqn:E1; [|reflexivity].
        destruct (cls_eqb (cls_of O c0) CParen) eqn:E2; [reflexivity|]. exfalso. apply Hadj. cbn [wcls]. split.
        - apply cls_eqb_eq in E1. symmetry. exact E1.
        - intro E3. rewrite E3 in E2. discriminate. }
      rewrite E. cbn [map ptext]. rewrite rev_app_distr, rev_involutive. cbn [rev app]. f_equal.
      apply IH. exact Hrest.
    + intros c Hc. apply Hall. right; exact Hc.
    + intros Hne Ek. specialize (Hpar Ek). cbn in Hpar. destruct r; [contradiction | discriminate].
Qed.

Theorem resplit ws : canon ws -> map ptext (pieces O (concat ws)) = ws.
Proof.
  intro Hc. destruct ws as [|w ws]; [reflexivity|]. destruct w as [|c0 r]; [destruct Hc as [H _]; contradiction|].
  cbn [concat app]. unfold pieces. apply (resplit_aux ws c0 r 0 1 Hc).
Qed.

Definition is_word_chunk (w : str) : bool := negb (cls_eqb (wcls w) CSpace).

Corollary words_chunks ws : canon ws -> words O (concat ws) = filter is_word_chunk ws.
Proof.
  intro Hc. unfold words. rewrite <- (resplit ws Hc) at 2.
  induction (pieces O (concat ws)) as [|p l IH]; [reflexivity|]. cbn [filter map].
  change (is_word_chunk (ptext p)) with (is_word_piece O p). destruct (is_word_piece O p); cbn [map]; rewrite IH; reflexivity.
Qed.

End Resplit.
