(* C02 over tables without operator words: a text whose words spell, group by group, the items of a derivation of
   the grammar - operators and parentheses in any letter case, known licenses by any of their names in any case,
   any other run of words as an unknown license - parses to the tree of the derivation.  The "no crossing" premise
   of the general text theorem (parse_blocks) is not needed here: a name without operator words cannot match across
   an operator, and licenses are never adjacent in a derivation. *)
Require Import Model.Base Model.Expr Model.Split Model.Trie Model.Overlap Model.LicTok Model.BoolParse Model.Licensing.
Require Import Proofs.Symbol Proofs.Strings Proofs.Split Proofs.Overlap Proofs.Trie Proofs.Recognise Proofs.Cover Proofs.Select
               Proofs.WithGroup Proofs.SimpleAgree Proofs.Account Proofs.Segments Proofs.BoolParse Proofs.Blocks
               Proofs.Render Proofs.Kinds Proofs.RenderKinds Proofs.Resplit Proofs.RenderWords Proofs.Reparse.
From Coq Require Import Lia.
Open Scope Z_scope.

Section Layout.
Variable O : oracle.
Hypothesis sp_is_space : is_space O 32%N = true.
Variable T : list entry.
Variable text : str.
Notation ltok := (Trie.tok kv).
Notation tr := (build_trie O T).
Notation wps := (filter (is_word_piece O) (pieces O text)).
Notation look := (look O T).

(* the table as the trie sees it *)
Hypothesis KWS : forall k, exists sp, look [kw_str k] = Some (sp, VKw k).
Hypothesis OF : forall p sp v, look p = Some (sp, v) ->
  (exists k, v = VKw k /\ p = [kw_str k]) \/ (forall w, In w p -> is_keyword_str w = false).

(* the layout: the word pieces of the text cut into groups, one per unit of the derivation *)
Variable gus : list (list piece * unit_).
Hypothesis L1 : concat (map fst gus) = wps.
Hypothesis L2 : forall g k, In (g, UK k) gus -> exists p, g = [p] /\ lower O (ptext p) = kw_str k.
Definition known_group (g : list piece) (s : sym) : Prop := exists sp, look (lws O g) = Some (sp, VSym s).
Definition unknown_group (g : list piece) (s : sym) : Prop :=
  (forall a m c, g = a ++ m ++ c -> m <> [] -> look (lws O m) = None) /\
  mk_symbol O (join_sp (map ptext g)) false = Ok s.
Hypothesis L3 : forall g s, In (g, US s) gus ->
  g <> [] /\ (forall p, In p g -> is_keyword_str (lower O (ptext p)) = false) /\ (known_group g s \/ unknown_group g s).
Hypothesis L4 : alt sepu (map snd gus).
Variable items : list rtok.
Hypothesis L5 : map snd gus = flat_map units_of items.
Variable e : expr.
Hypothesis L6 : forall ts : list ptok, map kind_of ts = items -> bparse ts = POk e.

Definition kwp (p : piece) : Prop := is_keyword_str (lower O (ptext p)) = true.
Definition blocks : list block := map (ublock O T) gus.

Lemma blocks_cat : concat (map bpieces blocks) = wps.
Proof. unfold blocks. rewrite map_map. rewrite (map_ext _ fst (bpieces_ublock O T)). exact L1. Qed.

Lemma group_nonempty g u : In (g, u) gus -> g <> [].
Proof.
  destruct u as [k|s]; intro H.
  - destruct (L2 g k H) as [p [-> _]]. discriminate.
  - exact (proj1 (L3 g s H)).
Qed.

Lemma blocks_match g v : In (BM g v) blocks -> g <> [] /\ exists sp, get_out (lws O g) (outs tr) = Some (sp, v).
Proof.
  intro H. unfold blocks in H. apply in_map_iff in H as [[g0 u] [E Hin]]. destruct u as [k|s]; cbn [ublock fst snd] in E.
  - inversion E; subst g0 v. destruct (L2 g k Hin) as [p [-> Hp]]. split; [discriminate|].
    unfold lws. cbn [map]. rewrite Hp. apply KWS.
  - unfold blk in E. fold (look (lws O g0)) in E. destruct (look (lws O g0)) as [[sp v0]|] eqn:L; [|discriminate]. inversion E; subst g0 v0.
    split; [exact (group_nonempty g _ Hin) | exists sp; exact L].
Qed.

Lemma blocks_unknown g : In (BU g) blocks -> g <> [].
Proof.
  intro H. unfold blocks in H. apply in_map_iff in H as [[g0 u] [E Hin]]. destruct u as [k|s]; cbn [ublock fst snd] in E; [discriminate|].
  unfold blk in E. destruct (Reparse.look O T (lws O g0)) as [[sp v0]|]; [discriminate|]. inversion E; subst g0. exact (group_nonempty g _ Hin).
Qed.

Lemma blocks_separated : separated blocks.
Proof. unfold blocks. apply separated_units. exact L4. Qed.

Lemma incr_group g u : In (g, u) gus -> incr g.
Proof.
  intro H. pose proof (word_pieces_incr O text) as Hi. rewrite <- L1 in Hi.
  apply in_split in H as [l1 [l2 E]]. rewrite E, map_app, concat_app in Hi. cbn [map fst concat] in Hi.
  apply incr_app in Hi as [_ [Hi _]]. apply incr_app in Hi as [Hi _]. exact Hi.
Qed.

(* every match of the table lies inside a block that is a stored name *)
Lemma blocks_inside t : In t (t_iter O tr text) ->
  exists g v, In (BM g v) blocks /\ lo g <= tstart t /\ tend t <= hi g.
Proof.
  intro Ht. apply (scan_exact O tr (build_trie_wf O T) text) in Ht as [pre [mid [post [sp [v [E [Hne [G ->]]]]]]]].
  change {| pstart := 0; ptext := [] |} with dpiece in *.
  rewrite (occ_start text mid _ v Hne). cbn [tend occurrence_tok].
  destruct (OF (lws O mid) sp v G) as [[k [-> Ep]]|Hfree].
  - destruct mid as [|p0 [|q mid']]; try discriminate. clear Hne. cbn [lws map] in Ep. injection Ep as Ep.
    assert (Hin : In p0 (concat (map fst gus))) by (rewrite L1, E; apply in_or_app; right; left; reflexivity).
    apply in_concat in Hin as [g [Hg Hp]]. apply in_map_iff in Hg as [[g0 u] [Eg Hgu]]. cbn [fst] in Eg. subst g0.
    destruct u as [k'|s].
    + destruct (L2 g k' Hgu) as [p [-> Hpk]]. destruct Hp as [<-|[]].
      exists [p], (VKw k'). split; [unfold blocks; apply in_map_iff; exists ([p], UK k'); split; [reflexivity | exact Hgu]|].
      cbn [hd last]. unfold lo, hi. cbn [hd last]. lia.
    + exfalso. destruct (L3 g s Hgu) as [_ [Hnk _]]. specialize (Hnk p0 Hp). rewrite Ep, kw_str_keyword in Hnk. discriminate.
  - rewrite <- L1 in E.
    destruct (mid_in_group sepu kwp gus pre mid post E Hne) as [g [u [a [c [Hgu [Su Eg]]]]]].
    + intros p Hp Hk. unfold kwp in Hk. rewrite Hfree in Hk; [discriminate|]. unfold lws. apply in_map_iff. exists p. split; [reflexivity | exact Hp].
    + exact group_nonempty.
    + intros g u Hgu Su. destruct u as [k|s]; [|discriminate]. destruct (L2 g k Hgu) as [p [-> Hp]]. exists p. split; [reflexivity|].
      unfold kwp. rewrite Hp. apply kw_str_keyword.
    + exact L4.
    + destruct u as [k|s]; [discriminate|]. destruct (L3 g s Hgu) as [Hgne [_ [[spk Lk]|[Hno _]]]].
      * exists g, (VSym s). split.
        -- unfold blocks. apply in_map_iff. exists (g, US s). split; [|exact Hgu]. cbn [ublock fst snd]. unfold blk.
           fold (look (lws O g)). rewrite Lk. reflexivity.
        -- pose proof (incr_group g _ Hgu) as Hi.
           assert (H1 : In (hd dpiece mid) g) by (rewrite Eg; apply in_or_app; right; apply in_or_app; left; apply hd_in; exact Hne).
           assert (H2 : In (last mid dpiece) g) by (rewrite Eg; apply in_or_app; right; apply in_or_app; left; apply last_in; exact Hne).
           unfold lo, hi. split; [apply (incr_first_last g dpiece Hi Hgne _ H1) | apply (incr_first_last g dpiece Hi Hgne _ H2)].
      * exfalso. specialize (Hno a mid c Eg Hne). unfold Reparse.look in Hno. rewrite G in Hno. discriminate.
Qed.

(* one token per block, carrying the value of its unit *)
Lemma btok_ublock g u : In (g, u) gus -> exists t, btok O text (ublock O T (g, u)) = Ok t /\ tvalue t = Some (uval u).
Proof.
  intro H. destruct u as [k|s]; cbn [ublock fst snd].
  - eexists. split; reflexivity.
  - destruct (L3 g s H) as [Hgne [_ [[spk Lk]|[Hno Hmk]]]]; unfold blk; fold (look (lws O g)).
    + rewrite Lk. eexists. split; reflexivity.
    + rewrite (Hno [] g [] ltac:(rewrite app_nil_r; reflexivity) Hgne). cbn [btok]. rewrite Hmk. cbn [obind].
      eexists. split; reflexivity.
Qed.

Lemma tokens_exist : forall l, (forall g u, In (g, u) l -> In (g, u) gus) ->
  exists ts, mapo (btok O text) (map (ublock O T) l) = Ok ts /\ map (fun t => tvalue t) ts = map (fun u => Some (uval u)) (map snd l).
Proof.
  induction l as [|[g u] l IH]; intro Hl.
  - exists []. split; reflexivity.
  - destruct (btok_ublock g u (Hl g u (or_introl eq_refl))) as [t [Et Vt]].
    destruct IH as [ts [Ets Vts]]; [intros g0 u0 H0; apply Hl; right; exact H0|].
    exists (t :: ts). cbn [map mapo snd]. rewrite Et. cbn [obind]. rewrite Ets. cbn [obind]. split; [reflexivity|]. rewrite Vt, Vts. reflexivity.
Qed.

(* C02: the text parses to the tree of its derivation *)
Theorem layout_parses : gus <> [] -> parse_tokens O T false false text = Ok e.
Proof.
  intro Gne. destruct (tokens_exist gus (fun g u H => H)) as [ltoks [Etoks Vals]]. rewrite L5 in Vals.
  destruct (witems_spec O items ltoks Vals) as [I1 [I2 I3]].
  apply (parse_blocks_gen O sp_is_space T text blocks ltoks (witems items ltoks) e).
  - exact blocks_cat.
  - exact blocks_match.
  - exact blocks_inside.
  - exact blocks_unknown.
  - exact blocks_separated.
  - exact Etoks.
  - symmetry. exact I1.
  - exact I2.
  - unfold blocks. intro E. apply map_eq_nil in E. contradiction.
  - apply L6. exact I3.
Qed.

End Layout.

(* the same from a property of the table and for a derivation of the grammar *)
Section LayoutTable.
Variable O : oracle.
Hypothesis sp_is_space : is_space O 32%N = true.
Hypothesis lower_kw : lower O S_AND = s_and /\ lower O S_OR = s_or /\ lower O S_WITH = s_with /\
                      lower O s_lpar = s_lpar /\ lower O s_rpar = s_rpar.
Hypothesis kw_plain : forall c, In c [97; 110; 100; 111; 114; 119; 105; 116; 104; 40; 41]%N ->
  is_space O c = false /\ lower_ch O c = [c].
Variable T : list entry.
Hypothesis names_opfree : forall n v, In (n, v) (flat_map (entry_adds O) T) ->
  forall w, In w (lwords O n) -> is_keyword_str w = false.

Lemma kind_of_inj (a b : ptok) : kind_of a = kind_of b -> pt a = pt b.
Proof. unfold kind_of. destruct (pt a), (pt b); intro H; try discriminate; try reflexivity. inversion H. reflexivity. Qed.

Lemma kinds_pt : forall ts ts' : list ptok, map kind_of ts = map kind_of ts' -> map (fun t => pt t) ts = map (fun t => pt t) ts'.
Proof.
  induction ts as [|t ts IH]; intros [|t' ts'] H; try discriminate; [reflexivity|]. cbn [map] in *. injection H as Ht Hl.
  f_equal; [apply kind_of_inj; exact Ht | apply IH; exact Hl].
Qed.

Theorem layout_parses_derivation text (gus : list (list piece * unit_)) (d : orx) :
  concat (map fst gus) = filter (is_word_piece O) (pieces O text) ->
  (forall g k, In (g, UK k) gus -> exists p, g = [p] /\ lower O (ptext p) = kw_str k) ->
  (forall g s, In (g, US s) gus ->
     g <> [] /\ (forall p, In p g -> is_keyword_str (lower O (ptext p)) = false) /\ (known_group O T g s \/ unknown_group O T g s)) ->
  alt sepu (map snd gus) ->
  map snd gus = flat_map units_of (map kind_of (tok_or d)) ->
  parse_tokens O T false false text = Ok (tree_or d).
Proof.
  intros L1 L2 L3 L4 L5.
  apply (layout_parses O sp_is_space T text (table_keywords O kw_plain T names_opfree)
           (table_opfree O lower_kw kw_plain T names_opfree) gus L1 L2 L3 L4 (map kind_of (tok_or d)) L5 (tree_or d)).
  - intros ts H. apply (bparse_kinds (tok_or d) ts (tree_or d)); [symmetry; apply kinds_pt; exact H | apply bparse_complete].
  - intro E. subst gus. cbn in L5. destruct (tok_or d) as [|t l] eqn:Et; [apply (tok_or_nonempty d Et)|].
    cbn in L5. destruct (kind_of t) as [[s|l0 r]| | | |]; discriminate.
Qed.

End LayoutTable.
