(* C03: the boolean parser never lets a foreign exception escape (no Leak outcome) and accepts only
   token sequences without the malformations the property lists: every accepted sequence starts
   with a license or "(", every adjacent pair is allowed (no two operands without an operator, also
   across a parenthesis; no adjacent operators; no operator after "(" or before ")"; no "()"), and
   the parentheses are balanced. A single operator at the very end is the documented exception. *)
Require Import Model.Base Model.Expr Model.LicTok Model.BoolParse.
From Coq Require Import Lia Arith.
Open Scope nat_scope.

(* ---- allowed adjacencies ---- *)
Definition adj_ok (prev : option tk) (t : tk) : bool :=
  match prev with
  | None => is_symt t || is_tlt t
  | Some p =>
      if is_symt p || is_trt p then is_opt t || is_trt t        (* after an operand: operator or ")" *)
      else is_symt t || is_tlt t                                 (* after an operator or "(": operand *)
  end.

Fixpoint adj_all (prev : option tk) (ts : list tk) : bool :=
  match ts with
  | [] => true
  | t :: ts' => adj_ok prev t && adj_all (Some t) ts'
  end.

(* ---- parentheses ---- *)
Definition lpars (s : list frame) : nat := length (filter (fun f => match fst f with FLpar => true | _ => false end) s).

Fixpoint depth_ok (d : nat) (ts : list tk) : option nat :=
  match ts with
  | [] => Some d
  | TL :: ts' => depth_ok (S d) ts'
  | TR :: ts' => match d with 0 => None | S d' => depth_ok d' ts' end
  | _ :: ts' => depth_ok d ts'
  end.
(* balanced: never negative, zero at the end *)
Definition balanced (ts : list tk) : bool := match depth_ok 0 ts with Some 0 => true | _ => false end.

Lemma lpars_cons_other o a s : o <> FLpar -> lpars ((o, a) :: s) = lpars s.
Proof. intro H. unfold lpars. simpl. destruct o; try reflexivity. contradiction. Qed.
Lemma lpars_cons_lpar a s : lpars ((FLpar, a) :: s) = S (lpars s).
Proof. reflexivity. Qed.

Lemma lpars_same_op o a b s : lpars ((o, a) :: s) = lpars ((o, b) :: s).
Proof. unfold lpars. simpl. destruct o; reflexivity. Qed.

Lemma start_op_lpars o : o = FAnd \/ o = FOr -> forall fuel s s', start_op fuel s o = SOk s' -> lpars s' = lpars s.
Proof.
  intro Ho. induction fuel as [|fuel IH]; intros s s' H; [discriminate|].
  simpl in H. destruct s as [|[co a] rest]; [discriminate|].
  destruct co.
  - inversion H; subst. rewrite !lpars_cons_other by (destruct Ho; subst; discriminate). reflexivity.
  - (* top is FAnd *)
    destruct (Nat.ltb (prec o) (prec FAnd)) eqn:L.
    { destruct Ho; subst; simpl in L; discriminate. }
    destruct (Nat.eqb (prec o) (prec FAnd)) eqn:E; [inversion H; subst; reflexivity|].
    destruct rest as [|[po pa] rest'].
    + destruct (mkf FAnd a); [|discriminate]. inversion H; subst.
      rewrite !lpars_cons_other by (destruct Ho; subst; discriminate). reflexivity.
    + destruct (mkf FAnd a); [|discriminate]. apply IH in H. rewrite H.
      rewrite (lpars_cons_other FAnd) by discriminate. apply lpars_same_op.
  - (* top is FOr *)
    destruct (Nat.ltb (prec o) (prec FOr)) eqn:L.
    { destruct (rev a); [discriminate|]. inversion H; subst.
      rewrite (lpars_cons_other o) by (destruct Ho; subst; discriminate).
      rewrite !(lpars_cons_other FOr) by discriminate. reflexivity. }
    destruct (Nat.eqb (prec o) (prec FOr)) eqn:E; [inversion H; subst; reflexivity|].
    destruct Ho; subst; simpl in L, E; discriminate.
  - (* top is FLpar *)
    assert (L : Nat.ltb (prec o) (prec FLpar) = true) by (destruct Ho; subst; reflexivity).
    rewrite L in H. destruct (rev a); [discriminate|]. inversion H; subst.
    rewrite (lpars_cons_other o) by (destruct Ho; subst; discriminate). apply lpars_same_op.
Qed.

Lemma close_par_lpars ts tp : forall fuel s s', close_par fuel s ts tp = SOk s' -> lpars s = S (lpars s').
Proof.
  induction fuel as [|fuel IH]; intros s s' H; [discriminate|].
  simpl in H. destruct s as [|[co a] [|[po pa] rest']]; try discriminate; destruct co; try discriminate.
  - destruct (mkf FAnd a); [|discriminate]. apply IH in H.
    rewrite (lpars_cons_other FAnd) by discriminate. rewrite <- H. apply lpars_same_op.
  - destruct (mkf FOr a); [|discriminate]. apply IH in H.
    rewrite (lpars_cons_other FOr) by discriminate. rewrite <- H. apply lpars_same_op.
  - destruct a; [discriminate|]. inversion H; subst. rewrite lpars_cons_lpar. f_equal. apply lpars_same_op.
Qed.

Lemma step1_depth s prev t s' : step1 s prev t = SOk s' ->
  match pt t with
  | TL => lpars s' = S (lpars s)
  | TR => lpars s = S (lpars s')
  | _ => lpars s' = lpars s
  end.
Proof.
  unfold step1. destruct (check prev (pt t)); [discriminate|].
  destruct (pt t) as [a| | | |]; intro H.
  - destruct s as [|[o args] rest]; [discriminate|]. inversion H; subst. apply lpars_same_op.
  - eapply start_op_lpars; [left; reflexivity | exact H].
  - eapply start_op_lpars; [right; reflexivity | exact H].
  - destruct prev as [[pa| | | |]|]; try discriminate; inversion H; subst; reflexivity.
  - eapply close_par_lpars; exact H.
Qed.

Lemma run_depth : forall ts s prev s' p', run s prev ts = ROk s' p' -> depth_ok (lpars s) (map pt ts) = Some (lpars s').
Proof.
  induction ts as [|t ts IH]; intros s prev s' p' H.
  - simpl in H. inversion H; subst. reflexivity.
  - simpl in H. destruct (step1 s prev t) as [s1|e] eqn:E; [|discriminate].
    pose proof (step1_depth _ _ _ _ E) as D. apply IH in H. simpl.
    destruct (pt t) as [a| | | |].
    + rewrite <- D. exact H.
    + rewrite <- D. exact H.
    + rewrite <- D. exact H.
    + rewrite <- D. exact H.
    + rewrite D. exact H.
Qed.

Lemma finish_ok_no_lpar : forall fuel s e, finish fuel s = POk e -> lpars s = 0.
Proof.
  induction fuel as [|fuel IH]; intros s e H; [discriminate|].
  simpl in H. destruct s as [|[co a] rest]; [discriminate|].
  destruct rest as [|[po pa] rest'].
  - destruct co; try discriminate; reflexivity.
  - destruct co; try discriminate.
    + destruct (mkf FAnd a); [|discriminate]. apply IH in H. rewrite (lpars_cons_other FAnd) by discriminate.
      rewrite <- H. apply lpars_same_op.
    + destruct (mkf FOr a); [|discriminate]. apply IH in H. rewrite (lpars_cons_other FOr) by discriminate.
      rewrite <- H. apply lpars_same_op.
Qed.

(* ---- no foreign exception ---- *)
Definition top_nonempty (s : list frame) : Prop := match s with (_, a) :: _ => a <> [] | [] => False end.
Definition after_operand (prev : option tk) : Prop :=
  match prev with Some (TS _) | Some TR => True | _ => False end.

Definition inv (s : list frame) (prev : option tk) : Prop :=
  s <> [] /\ (after_operand prev -> top_nonempty s) /\ (prev = None -> s = [(FNone, [])]).

Lemma app_nonempty {A} (l : list A) x : l ++ [x] <> [].
Proof. destruct l; discriminate. Qed.

Lemma start_op_no_leak o : forall fuel s, length s <= fuel -> s <> [] -> top_nonempty s ->
  match start_op fuel s o with
  | SOk s' => s' <> [] /\ top_nonempty s'
  | SErr (PLeak _) => False
  | SErr _ => True
  end.
Proof.
  induction fuel as [|fuel IH]; intros s Hl Hne Ht.
  - destruct s; [contradiction | simpl in Hl; lia].
  - simpl. destruct s as [|[co a] rest]; [contradiction|]. simpl in Ht.
    assert (Hrev : rev a <> []).
    { intro E. apply (f_equal (@rev expr)) in E. rewrite rev_involutive in E. contradiction. }
    destruct co.
    + split; [discriminate | exact Ht].
    + destruct (Nat.ltb (prec o) (prec FAnd)).
      * destruct (rev a) eqn:Er; [contradiction|]. split; [discriminate | simpl; discriminate].
      * destruct (Nat.eqb (prec o) (prec FAnd)); [split; [discriminate | exact Ht]|].
        destruct rest as [|[po pa] rest'].
        -- destruct (mkf FAnd a); [split; [discriminate | simpl; discriminate] | exact I].
        -- destruct (mkf FAnd a); [|exact I]. apply IH; [simpl in *; lia | discriminate | simpl; apply app_nonempty].
    + destruct (Nat.ltb (prec o) (prec FOr)).
      * destruct (rev a) eqn:Er; [contradiction|]. split; [discriminate | simpl; discriminate].
      * destruct (Nat.eqb (prec o) (prec FOr)); [split; [discriminate | exact Ht]|].
        destruct rest as [|[po pa] rest'].
        -- destruct (mkf FOr a); [split; [discriminate | simpl; discriminate] | exact I].
        -- destruct (mkf FOr a); [|exact I]. apply IH; [simpl in *; lia | discriminate | simpl; apply app_nonempty].
    + destruct (Nat.ltb (prec o) (prec FLpar)).
      * destruct (rev a) eqn:Er; [contradiction|]. split; [discriminate | simpl; discriminate].
      * destruct (Nat.eqb (prec o) (prec FLpar)); [split; [discriminate | exact Ht]|].
        destruct rest as [|[po pa] rest']; unfold mkf; exact I.
Qed.

Lemma close_par_no_leak ts tp : forall fuel s, length s <= fuel -> s <> [] -> top_nonempty s ->
  match close_par fuel s ts tp with
  | SOk s' => s' <> [] /\ top_nonempty s'
  | SErr (PLeak _) => False
  | SErr _ => True
  end.
Proof.
  induction fuel as [|fuel IH]; intros s Hl Hne Ht.
  - destruct s; [contradiction | simpl in Hl; lia].
  - simpl. destruct s as [|[co a] rest]; [contradiction|]. simpl in Ht.
    destruct rest as [|[po pa] rest']; [destruct co; exact I|].
    destruct co.
    + exact I.
    + destruct (mkf FAnd a); [|exact I]. apply IH; [simpl in *; lia | discriminate | simpl; apply app_nonempty].
    + destruct (mkf FOr a); [|exact I]. apply IH; [simpl in *; lia | discriminate | simpl; apply app_nonempty].
    + destruct a; [contradiction|]. split; [discriminate | simpl; apply app_nonempty].
Qed.

Lemma step1_no_leak s prev t : inv s prev ->
  match step1 s prev t with
  | SOk s' => inv s' (Some (pt t))
  | SErr (PLeak _) => False
  | SErr _ => True
  end.
Proof.
  intros [Hne [Hop Hstart]]. unfold step1. destruct (check prev (pt t)) as [c|] eqn:C; [exact I|].
  destruct (pt t) as [a| | | |] eqn:Et.
  - destruct s as [|[o args] rest]; [contradiction|].
    split; [discriminate|]. split; [intros _; simpl; apply app_nonempty | discriminate].
  - (* AND: the previous token is an operand, otherwise check fails *)
    assert (Hprev : after_operand prev).
    { unfold check in C. destruct prev as [[pa| | | |]|]; simpl in *; try discriminate; exact I. }
    pose proof (start_op_no_leak FAnd (S (length s)) s ltac:(lia) Hne (Hop Hprev)) as G.
    destruct (start_op (S (length s)) s FAnd) as [s'|[| | |]]; try exact I; try contradiction.
    destruct G as [G1 G2]. split; [exact G1|]. split; [intros [] | discriminate].
  - assert (Hprev : after_operand prev).
    { unfold check in C. destruct prev as [[pa| | | |]|]; simpl in *; try discriminate; exact I. }
    pose proof (start_op_no_leak FOr (S (length s)) s ltac:(lia) Hne (Hop Hprev)) as G.
    destruct (start_op (S (length s)) s FOr) as [s'|[| | |]]; try exact I; try contradiction.
    destruct G as [G1 G2]. split; [exact G1|]. split; [intros [] | discriminate].
  - destruct prev as [[pa| | | |]|]; try exact I; (split; [discriminate|]; split; [intros [] | discriminate]).
  - (* ")" *)
    destruct prev as [[pa| | | |]|]; simpl in C; try discriminate.
    + pose proof (close_par_no_leak (pstr t) (ppos t) (S (length s)) s ltac:(lia) Hne (Hop I)) as G.
      destruct (close_par (S (length s)) s (pstr t) (ppos t)) as [s'|[| | |]]; try exact I; try contradiction.
      destruct G as [G1 G2]. split; [exact G1|]. split; [intros _; exact G2 | discriminate].
    + pose proof (close_par_no_leak (pstr t) (ppos t) (S (length s)) s ltac:(lia) Hne (Hop I)) as G.
      destruct (close_par (S (length s)) s (pstr t) (ppos t)) as [s'|[| | |]]; try exact I; try contradiction.
      destruct G as [G1 G2]. split; [exact G1|]. split; [intros _; exact G2 | discriminate].
    + (* first token: the stack is the bottom frame alone *)
      rewrite (Hstart eq_refl). simpl. exact I.
Qed.

Lemma run_no_leak : forall ts s prev, inv s prev ->
  match run s prev ts with
  | ROk s' p' => inv s' p'
  | RErr (PLeak _) => False
  | RErr _ => True
  end.
Proof.
  induction ts as [|t ts IH]; intros s prev Hi; [exact Hi|].
  simpl. pose proof (step1_no_leak s prev t Hi) as G.
  destruct (step1 s prev t) as [s1|[| | |]]; try exact I; try contradiction.
  apply IH; exact G.
Qed.

Lemma finish_no_leak : forall fuel s, length s <= fuel -> s <> [] -> forall e, finish fuel s <> PLeak e.
Proof.
  induction fuel as [|fuel IH]; intros s Hl Hne e.
  - destruct s; [contradiction | simpl in Hl; lia].
  - simpl. destruct s as [|[co a] rest]; [contradiction|].
    destruct rest as [|[po pa] rest'].
    + destruct co; try discriminate.
      * destruct a as [|x [|y l]]; discriminate.
      * destruct (mkf FAnd a); discriminate.
      * destruct (mkf FOr a); discriminate.
    + destruct co; try discriminate.
      * destruct (mkf FAnd a); [|discriminate]. apply IH; [simpl in *; lia | discriminate].
      * destruct (mkf FOr a); [|discriminate]. apply IH; [simpl in *; lia | discriminate].
Qed.

Theorem bparse_no_leak ts : forall e, bparse ts <> PLeak e.
Proof.
  intro e. unfold bparse.
  assert (I0 : inv [(FNone, [])] None).
  { split; [discriminate|]. split; [intros [] | reflexivity]. }
  pose proof (run_no_leak ts _ _ I0) as G.
  destruct (run [(FNone, [])] None ts) as [s p|[| | |]]; try discriminate; try contradiction.
  destruct G as [Hne _]. apply finish_no_leak; [lia | exact Hne].
Qed.

(* ---- adjacency of accepted sequences ---- *)
Lemma step1_adj s prev t s' : inv s prev -> step1 s prev t = SOk s' -> adj_ok prev (pt t) = true.
Proof.
  intros [_ [_ Hstart]]. unfold step1. destruct (check prev (pt t)) as [c|] eqn:C; [discriminate|]. intro H.
  unfold check in C.
  destruct prev as [[pa| | | |]|]; destruct (pt t) as [a| | | |]; simpl in *;
    try discriminate; try reflexivity.
  rewrite (Hstart eq_refl) in H. simpl in H. discriminate.
Qed.

Lemma run_adj : forall ts s prev s' p', inv s prev -> run s prev ts = ROk s' p' -> adj_all prev (map pt ts) = true.
Proof.
  induction ts as [|t ts IH]; intros s prev s' p' Hi H; [reflexivity|].
  simpl in H. pose proof (step1_no_leak s prev t Hi) as G.
  destruct (step1 s prev t) as [s1|e] eqn:E; [|discriminate].
  simpl. rewrite (step1_adj _ _ _ _ Hi E). simpl. eapply IH; [exact G | exact H].
Qed.

(* an error outcome of the machine is never a success value *)
Lemma start_op_err o e0 : forall fuel s, start_op fuel s o <> SErr (POk e0).
Proof.
  induction fuel as [|fuel IH]; intros s H; [discriminate|]. simpl in H.
  destruct s as [|[co a] rest]; [discriminate|].
  destruct co.
  - discriminate.
  - destruct (Nat.ltb (prec o) (prec FAnd)); [destruct (rev a); discriminate|].
    destruct (Nat.eqb (prec o) (prec FAnd)); [discriminate|].
    destruct rest as [|[po pa] rest']; destruct (mkf FAnd a); try discriminate. eapply IH; exact H.
  - destruct (Nat.ltb (prec o) (prec FOr)); [destruct (rev a); discriminate|].
    destruct (Nat.eqb (prec o) (prec FOr)); [discriminate|].
    destruct rest as [|[po pa] rest']; destruct (mkf FOr a); try discriminate. eapply IH; exact H.
  - destruct (Nat.ltb (prec o) (prec FLpar)); [destruct (rev a); discriminate|].
    destruct (Nat.eqb (prec o) (prec FLpar)); [discriminate|].
    destruct rest as [|[po pa] rest']; unfold mkf in H; discriminate.
Qed.

Lemma close_par_err ts tp e0 : forall fuel s, close_par fuel s ts tp <> SErr (POk e0).
Proof.
  induction fuel as [|fuel IH]; intros s H; [discriminate|]. simpl in H.
  destruct s as [|[co a] [|[po pa] rest']]; try discriminate; destruct co; try discriminate.
  - destruct (mkf FAnd a); [|discriminate]. eapply IH; exact H.
  - destruct (mkf FOr a); [|discriminate]. eapply IH; exact H.
  - destruct a; discriminate.
Qed.

Lemma step1_err s prev t e0 : step1 s prev t <> SErr (POk e0).
Proof.
  unfold step1. destruct (check prev (pt t)); [discriminate|].
  destruct (pt t).
  - destruct s as [|[o args] rest]; discriminate.
  - apply start_op_err.
  - apply start_op_err.
  - destruct prev as [[| | | |]|]; discriminate.
  - apply close_par_err.
Qed.

Lemma run_err : forall ts s prev e0, run s prev ts <> RErr (POk e0).
Proof.
  induction ts as [|t ts IH]; intros s prev e0 H; [discriminate|]. simpl in H.
  destruct (step1 s prev t) as [s1|r] eqn:E.
  - eapply IH; exact H.
  - inversion H; subst. eapply step1_err; exact E.
Qed.

(* what an accepted token sequence looks like *)
Theorem bparse_sound ts e : bparse ts = POk e ->
  adj_all None (map pt ts) = true /\ balanced (map pt ts) = true /\ ts <> [].
Proof.
  unfold bparse. destruct (run [(FNone, [])] None ts) as [s p|r] eqn:R.
  - intro F. split; [eapply run_adj; [|exact R]; split; [discriminate|]; split; [intros [] | reflexivity]|]. split.
    + unfold balanced. pose proof (run_depth _ _ _ _ _ R) as D. change (lpars [(FNone, [])]) with 0 in D.
      rewrite D. rewrite (finish_ok_no_lpar _ _ _ F). reflexivity.
    + intro E. subst ts. simpl in R. inversion R; subst. simpl in F. discriminate.
  - intro H. subst r. exfalso. eapply run_err; exact R.
Qed.
