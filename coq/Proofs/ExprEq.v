(* Properties of the set-based expression equality (Expression.__eq__): soundness for eval,
   reflexivity, symmetry, transitivity; literals of equal expressions. *)
Require Import Model.Base Model.Expr Model.Simplify Proofs.Symbol.
From Coq Require Import Lia.

Lemma bool_eq_iff (a b : bool) : (a = true <-> b = true) -> a = b.
Proof. destruct a, b; intros [H1 H2]; try reflexivity; [symmetry; apply H1; reflexivity | apply H2; reflexivity]. Qed.

Definition sub_eqb (xs ys : list expr) : bool := forallb (fun x => existsb (expr_eqb x) ys) xs.
Definition sup_eqb (xs ys : list expr) : bool := forallb (fun y => existsb (fun x => expr_eqb x y) xs) ys.

Lemma expr_eqb_and xs ys : expr_eqb (And xs) (And ys) = sub_eqb xs ys && sup_eqb xs ys.
Proof. reflexivity. Qed.
Lemma expr_eqb_or xs ys : expr_eqb (Or xs) (Or ys) = sub_eqb xs ys && sup_eqb xs ys.
Proof. reflexivity. Qed.

Lemma sub_eqb_spec xs ys :
  sub_eqb xs ys = true <-> (forall x, In x xs -> exists y, In y ys /\ expr_eqb x y = true).
Proof.
  unfold sub_eqb. rewrite forallb_forall. split; intros H x Hx.
  - apply H in Hx. apply existsb_exists in Hx. exact Hx.
  - apply existsb_exists. apply H; exact Hx.
Qed.
Lemma sup_eqb_spec xs ys :
  sup_eqb xs ys = true <-> (forall y, In y ys -> exists x, In x xs /\ expr_eqb x y = true).
Proof.
  unfold sup_eqb. rewrite forallb_forall. split; intros H y Hy.
  - apply H in Hy. apply existsb_exists in Hy. exact Hy.
  - apply existsb_exists. apply H; exact Hy.
Qed.

(* ---- reflexivity ---- *)
Lemma expr_eqb_refl : forall e, expr_eqb e e = true.
Proof.
  induction e as [a|xs IH|xs IH] using expr_ind'.
  - apply atom_eqb_refl.
  - rewrite expr_eqb_and. rewrite Forall_forall in IH. apply andb_true_iff; split.
    + apply sub_eqb_spec. intros x Hx. exists x. split; [exact Hx | apply IH; exact Hx].
    + apply sup_eqb_spec. intros x Hx. exists x. split; [exact Hx | apply IH; exact Hx].
  - rewrite expr_eqb_or. rewrite Forall_forall in IH. apply andb_true_iff; split.
    + apply sub_eqb_spec. intros x Hx. exists x. split; [exact Hx | apply IH; exact Hx].
    + apply sup_eqb_spec. intros x Hx. exists x. split; [exact Hx | apply IH; exact Hx].
Qed.

(* ---- symmetry ---- *)
Lemma expr_eqb_sym_imp : forall a b, expr_eqb a b = true -> expr_eqb b a = true.
Proof.
  induction a as [x|xs IH|xs IH] using expr_ind'; intros b H; destruct b as [y|ys|ys]; try discriminate.
  - simpl in *. rewrite atom_eqb_sym. exact H.
  - rewrite expr_eqb_and in *. rewrite Forall_forall in IH.
    apply andb_true_iff in H as [H1 H2]. rewrite sub_eqb_spec in H1. rewrite sup_eqb_spec in H2.
    apply andb_true_iff; split.
    + apply sub_eqb_spec. intros y Hy. destruct (H2 y Hy) as [x [Hx E]]. exists x. split; [exact Hx | apply IH; assumption].
    + apply sup_eqb_spec. intros x Hx. destruct (H1 x Hx) as [y [Hy E]]. exists y. split; [exact Hy | apply IH; assumption].
  - rewrite expr_eqb_or in *. rewrite Forall_forall in IH.
    apply andb_true_iff in H as [H1 H2]. rewrite sub_eqb_spec in H1. rewrite sup_eqb_spec in H2.
    apply andb_true_iff; split.
    + apply sub_eqb_spec. intros y Hy. destruct (H2 y Hy) as [x [Hx E]]. exists x. split; [exact Hx | apply IH; assumption].
    + apply sup_eqb_spec. intros x Hx. destruct (H1 x Hx) as [y [Hy E]]. exists y. split; [exact Hy | apply IH; assumption].
Qed.

Lemma expr_eqb_sym a b : expr_eqb a b = expr_eqb b a.
Proof. apply bool_eq_iff. split; apply expr_eqb_sym_imp. Qed.

(* ---- transitivity ---- *)
Lemma expr_eqb_trans : forall a b c, expr_eqb a b = true -> expr_eqb b c = true -> expr_eqb a c = true.
Proof.
  induction a as [x|xs IH|xs IH] using expr_ind'; intros b c H1 H2;
    destruct b as [y|ys|ys]; try discriminate; destruct c as [z|zs|zs]; try discriminate.
  - simpl in *. eapply atom_eqb_trans; eassumption.
  - rewrite expr_eqb_and in *. rewrite Forall_forall in IH.
    apply andb_true_iff in H1 as [A1 A2]. apply andb_true_iff in H2 as [B1 B2].
    rewrite sub_eqb_spec in A1, B1. rewrite sup_eqb_spec in A2, B2.
    apply andb_true_iff; split.
    + apply sub_eqb_spec. intros x Hx. destruct (A1 x Hx) as [y [Hy E1]]. destruct (B1 y Hy) as [z [Hz E2]].
      exists z. split; [exact Hz | eapply IH; eassumption].
    + apply sup_eqb_spec. intros z Hz. destruct (B2 z Hz) as [y [Hy E2]]. destruct (A2 y Hy) as [x [Hx E1]].
      exists x. split; [exact Hx | eapply IH; eassumption].
  - rewrite expr_eqb_or in *. rewrite Forall_forall in IH.
    apply andb_true_iff in H1 as [A1 A2]. apply andb_true_iff in H2 as [B1 B2].
    rewrite sub_eqb_spec in A1, B1. rewrite sup_eqb_spec in A2, B2.
    apply andb_true_iff; split.
    + apply sub_eqb_spec. intros x Hx. destruct (A1 x Hx) as [y [Hy E1]]. destruct (B1 y Hy) as [z [Hz E2]].
      exists z. split; [exact Hz | eapply IH; eassumption].
    + apply sup_eqb_spec. intros z Hz. destruct (B2 z Hz) as [y [Hy E2]]. destruct (A2 y Hy) as [x [Hx E1]].
      exists x. split; [exact Hx | eapply IH; eassumption].
Qed.

(* ---- soundness for eval ---- *)
Lemma forallb_sub v xs ys :
  (forall x, In x xs -> exists y, In y ys /\ eval v x = eval v y) ->
  forallb (eval v) ys = true -> forallb (eval v) xs = true.
Proof.
  intros H Hy. apply forallb_forall. intros x Hx. destruct (H x Hx) as [y [Hin ->]].
  rewrite forallb_forall in Hy. apply Hy, Hin.
Qed.
Lemma existsb_sub v xs ys :
  (forall x, In x xs -> exists y, In y ys /\ eval v x = eval v y) ->
  existsb (eval v) xs = true -> existsb (eval v) ys = true.
Proof.
  intros H Hx. apply existsb_exists in Hx as [x [Hin Hx]]. destruct (H x Hin) as [y [Hy E]].
  apply existsb_exists. exists y. split; [assumption | congruence].
Qed.

Lemma expr_eqb_sound v : forall a b, expr_eqb a b = true -> eval v a = eval v b.
Proof.
  induction a as [x|xs IH|xs IH] using expr_ind'; intros b H; destruct b as [y|ys|ys]; try discriminate.
  - simpl in H. apply atom_eqb_eq in H. subst. reflexivity.
  - rewrite expr_eqb_and in H. apply andb_true_iff in H as [H1 H2].
    rewrite sub_eqb_spec in H1. rewrite sup_eqb_spec in H2. rewrite Forall_forall in IH. simpl.
    assert (A1 : forall x, In x xs -> exists y, In y ys /\ eval v x = eval v y).
    { intros x Hx. destruct (H1 x Hx) as [y [Hy E]]. exists y. split; [assumption | apply IH; assumption]. }
    assert (A2 : forall y, In y ys -> exists x, In x xs /\ eval v y = eval v x).
    { intros y Hy. destruct (H2 y Hy) as [x [Hx E]]. exists x. split; [assumption | symmetry; apply IH; assumption]. }
    apply bool_eq_iff. split; apply forallb_sub; assumption.
  - rewrite expr_eqb_or in H. apply andb_true_iff in H as [H1 H2].
    rewrite sub_eqb_spec in H1. rewrite sup_eqb_spec in H2. rewrite Forall_forall in IH. simpl.
    assert (A1 : forall x, In x xs -> exists y, In y ys /\ eval v x = eval v y).
    { intros x Hx. destruct (H1 x Hx) as [y [Hy E]]. exists y. split; [assumption | apply IH; assumption]. }
    assert (A2 : forall y, In y ys -> exists x, In x xs /\ eval v y = eval v x).
    { intros y Hy. destruct (H2 y Hy) as [x [Hx E]]. exists x. split; [assumption | symmetry; apply IH; assumption]. }
    apply bool_eq_iff. split; apply existsb_sub; assumption.
Qed.

(* equal expressions mention the same licenses *)
Lemma expr_eqb_literals : forall a b, expr_eqb a b = true -> incl (literals a) (literals b).
Proof.
  induction a as [x|xs IH|xs IH] using expr_ind'; intros b H; destruct b as [y|ys|ys]; try discriminate.
  - simpl in H. apply atom_eqb_eq in H. subst. apply incl_refl.
  - rewrite expr_eqb_and in H. apply andb_true_iff in H as [H1 _]. rewrite sub_eqb_spec in H1.
    rewrite Forall_forall in IH. simpl. intros l Hl. apply in_flat_map in Hl as [x [Hx Hl]].
    destruct (H1 x Hx) as [y [Hy E]]. apply in_flat_map. exists y. split; [exact Hy|]. eapply IH; eassumption.
  - rewrite expr_eqb_or in H. apply andb_true_iff in H as [H1 _]. rewrite sub_eqb_spec in H1.
    rewrite Forall_forall in IH. simpl. intros l Hl. apply in_flat_map in Hl as [x [Hx Hl]].
    destruct (H1 x Hx) as [y [Hy E]]. apply in_flat_map. exists y. split; [exact Hy|]. eapply IH; eassumption.
Qed.
