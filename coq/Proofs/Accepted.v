(* C05 / C14: a table that Licensing() accepted and whose names hold no operator word has unambiguous names: no two names of
   different licenses (or a license and an operator) are stored under the same lower-cased words. This is the third condition
   of Proofs/TableOk.v, derived from what validate_symbols checks (Proofs/Tables.v). *)
Require Import Model.Base Model.Expr Model.Split Model.Trie Model.Overlap Model.LicTok Model.BoolParse Model.Licensing.
Require Import Proofs.WordsSpaces.
Require Import Proofs.Symbol Proofs.Strings Proofs.Split Proofs.OU Proofs.Tables Proofs.Resplit Proofs.RenderWords
               Proofs.ParseRenderable Proofs.TableOk.
From Coq Require Import Lia.
Open Scope Z_scope.

(* ---- a parenthesis of the text is one of its words ---- *)
Section ParenWord.
Variable O : oracle.

Lemma split_acc_paren_head start acc pos s :
  exists rest, split_acc O start CParen acc pos s = {| pstart := start; ptext := rev acc |} :: rest.
Proof.
  destruct s as [|c s]; cbn [split_acc]; [exists []; reflexivity|].
  replace (cls_eqb CParen (cls_of O c) && negb (cls_eqb CParen CParen)) with false by (cbn; rewrite andb_false_r; reflexivity).
  eexists. reflexivity.
Qed.

Lemma split_acc_paren : forall s start k acc pos c, In c s -> cls_of O c = CParen ->
  exists p, In p (split_acc O start k acc pos s) /\ ptext p = [c].
Proof.
  induction s as [|c0 s IH]; intros start k acc pos c Hin Hc; [destruct Hin|]. cbn [split_acc].
  destruct Hin as [<-|Hin].
  - rewrite Hc. replace (cls_eqb k CParen && negb (cls_eqb k CParen)) with false by (destruct k; reflexivity). cbv iota.
    destruct (split_acc_paren_head pos [c0] (pos + 1) s) as [rest E].
    exists {| pstart := pos; ptext := rev [c0] |}. split; [right | reflexivity].
    match goal with |- In _ ?l => change l with (split_acc O pos CParen [c0] (pos + 1) s) end. rewrite E. left; reflexivity.
  - destruct (cls_eqb k (cls_of O c0) && negb (cls_eqb k CParen)).
    + apply (IH _ _ _ _ c Hin Hc).
    + destruct (IH pos (cls_of O c0) [c0] (pos + 1) c Hin Hc) as [p [Hp Ep]]. exists p. split; [right; exact Hp | exact Ep].
Qed.

Lemma paren_is_word s c : In c s -> cls_of O c = CParen -> In [c] (words O s).
Proof.
  intros Hin Hc. assert (exists p, In p (pieces O s) /\ ptext p = [c]) as [p [Hp Ep]].
  { destruct s as [|c0 s]; [destruct Hin|]. unfold pieces. destruct Hin as [<-|Hin].
    - rewrite Hc. destruct (split_acc_paren_head 0 [c0] 1 s) as [rest E].
      exists {| pstart := 0; ptext := rev [c0] |}. split; [| reflexivity].
      match goal with |- In _ ?l => change l with (split_acc O 0 CParen [c0] 1 s) end. rewrite E. left; reflexivity.
    - apply (split_acc_paren s 0 (cls_of O c0) [c0] 1 c Hin Hc). }
  unfold words. rewrite <- Ep. apply in_map. apply filter_In. split; [exact Hp|].
  unfold is_word_piece, piece_cls. rewrite Ep, Hc. reflexivity.
Qed.
End ParenWord.

(* ---- lower-casing and splitting commute when lower-casing keeps white space and never makes any ---- *)
Section LowerSplit.
Variable O : oracle.
Hypothesis sp_is_space : is_space O 32%N = true.
Hypothesis lower_space : forall c, is_space O c = true -> lower_ch O c = [c].
Hypothesis lower_nospace : forall c, is_space O c = false -> lower_ch O c <> [] /\ nospace O (lower_ch O c).

Lemma lower_app a b : lower O (a ++ b) = lower O a ++ lower O b.
Proof. unfold lower. apply flat_map_app. Qed.

Lemma lower_nospace_word w : nospace O w -> nospace O (lower O w).
Proof.
  induction w as [|c w IH]; intro H; [reflexivity|]. apply nospace_cons in H as [Hc Hw].
  change (lower O (c :: w)) with (lower_ch O c ++ lower O w). apply nospace_app. split; [apply (lower_nospace c Hc) | apply IH; exact Hw].
Qed.

Lemma lower_nonempty w : w <> [] -> nospace O w -> lower O w <> [].
Proof.
  destruct w as [|c w]; [contradiction|]. intros _ H. apply nospace_cons in H as [Hc _].
  change (lower O (c :: w)) with (lower_ch O c ++ lower O w). destruct (lower_ch O c) eqn:E; [|discriminate].
  destruct (lower_nospace c Hc) as [N _]. contradiction.
Qed.

Lemma lower_word w : word O w -> word O (lower O w).
Proof. intros [Hn Hs]. split; [apply lower_nonempty; assumption | apply lower_nospace_word; exact Hs]. Qed.

Lemma rev_nil_iff {A} (l : list A) : rev l = [] <-> l = [].
Proof. split; intro H; [apply (f_equal (@rev A)) in H; rewrite rev_involutive in H; exact H | subst; reflexivity]. Qed.

Lemma split_nil_ne (acc : str) : acc <> [] -> split_ws_acc O acc [] = [rev acc].
Proof. destruct acc; [contradiction | reflexivity]. Qed.
Lemma split_space_ne (acc : str) c s : is_space O c = true -> acc <> [] ->
  split_ws_acc O acc (c :: s) = rev acc :: split_ws_acc O [] s.
Proof. intros Hc Ha. cbn [split_ws_acc]. rewrite Hc. destruct acc; [contradiction | reflexivity]. Qed.
Lemma rev_ne {A} (l : list A) : l <> [] -> rev l <> [].
Proof. intros H E. apply (proj1 (rev_nil_iff l)) in E. contradiction. Qed.

Lemma split_lower_acc : forall s w, nospace O w ->
  split_ws_acc O (rev (lower O w)) (lower O s) = map (lower O) (split_ws_acc O (rev w) s).
Proof.
  induction s as [|c s IH]; intros w Hw.
  - change (lower O []) with (@nil N). destruct w as [|c0 w0]; [reflexivity|].
    assert (Wn : c0 :: w0 <> []) by discriminate.
    rewrite (split_nil_ne _ (rev_ne _ (lower_nonempty _ Wn Hw))), (split_nil_ne _ (rev_ne _ Wn)), !rev_involutive. reflexivity.
  - change (lower O (c :: s)) with (lower_ch O c ++ lower O s). destruct (is_space O c) eqn:Ec.
    + rewrite (lower_space c Ec). cbn [app].
      pose proof (IH [] eq_refl) as IH0. cbn [rev lower flat_map] in IH0.
      destruct w as [|c0 w0].
      * cbn [rev lower flat_map split_ws_acc]. rewrite Ec. exact IH0.
      * assert (Wn : c0 :: w0 <> []) by discriminate.
        rewrite (split_space_ne _ c _ Ec (rev_ne _ (lower_nonempty _ Wn Hw))), (split_space_ne _ c _ Ec (rev_ne _ Wn)), !rev_involutive.
        cbn [map]. rewrite IH0. reflexivity.
    + destruct (lower_nospace c Ec) as [_ Hl]. rewrite (split_acc_word O (lower_ch O c) _ _ Hl).
      cbn [split_ws_acc]. rewrite Ec.
      assert (Hw' : nospace O (w ++ [c])) by (apply nospace_app; split; [exact Hw | apply nospace_cons; split; [exact Ec | reflexivity]]).
      pose proof (IH (w ++ [c]) Hw') as IH1. rewrite lower_app in IH1. cbn [lower flat_map] in IH1. rewrite app_nil_r in IH1.
      rewrite !rev_app_distr in IH1. cbn [rev app] in IH1. exact IH1.
Qed.

Theorem split_lower s : split_ws O (lower O s) = map (lower O) (split_ws O s).
Proof. unfold split_ws. apply (split_lower_acc s [] eq_refl). Qed.

Lemma lower_join : forall ws, lower O (join_sp ws) = join_sp (map (lower O) ws).
Proof.
  induction ws as [|w ws IH]; [reflexivity|]. destruct ws as [|w2 ws]; [reflexivity|].
  change (join_sp (w :: w2 :: ws)) with (w ++ sp ++ join_sp (w2 :: ws)).
  change (map (lower O) (w :: w2 :: ws)) with (lower O w :: map (lower O) (w2 :: ws)).
  change (join_sp (lower O w :: map (lower O) (w2 :: ws))) with (lower O w ++ sp ++ join_sp (map (lower O) (w2 :: ws))).
  rewrite !lower_app, IH. f_equal. f_equal. unfold sp, lower. cbn [flat_map]. rewrite (lower_space 32%N sp_is_space). reflexivity.
Qed.

(* ---- strip() removes white space only ---- *)
Lemma lstrip_split s : exists t, s = t ++ lstrip O s /\ blank O t = true.
Proof.
  induction s as [|c s [t [E B]]]; [exists []; split; reflexivity|]. cbn [lstrip]. destruct (is_space O c) eqn:Ec.
  - exists (c :: t). split; [cbn; f_equal; exact E | cbn; rewrite Ec; exact B].
  - exists []. split; reflexivity.
Qed.

Lemma blank_rev t : blank O (rev t) = blank O t.
Proof.
  unfold blank. destruct (forallb (is_space O) t) eqn:E.
  - apply forallb_forall. intros c Hc. rewrite forallb_forall in E. apply E. apply in_rev. exact Hc.
  - destruct (forallb (is_space O) (rev t)) eqn:E2; [|reflexivity]. rewrite forallb_forall in E2.
    assert (forallb (is_space O) t = true) by (apply forallb_forall; intros c Hc; apply E2; apply -> in_rev; exact Hc). congruence.
Qed.

Lemma rstrip_split s : exists t, s = rstrip O s ++ t /\ blank O t = true.
Proof.
  unfold rstrip. destruct (lstrip_split (rev s)) as [t [E B]]. exists (rev t). split; [|rewrite blank_rev; exact B].
  apply (f_equal (@rev N)) in E. rewrite rev_involutive, rev_app_distr in E. exact E.
Qed.

Lemma split_lead : forall t s, blank O t = true -> split_ws O (t ++ s) = split_ws O s.
Proof.
  induction t as [|c t IH]; intros s B; [reflexivity|]. cbn in B. apply andb_true_iff in B as [Bc Bt].
  unfold split_ws. cbn [app split_ws_acc]. rewrite Bc. apply (IH s Bt).
Qed.

Lemma split_trail1 : forall s acc c, is_space O c = true -> split_ws_acc O acc (s ++ [c]) = split_ws_acc O acc s.
Proof.
  induction s as [|d s IH]; intros acc c Hc.
  - cbn [app split_ws_acc]. rewrite Hc. destruct acc; reflexivity.
  - cbn [app split_ws_acc]. destruct (is_space O d); [destruct acc; rewrite IH by exact Hc; reflexivity | apply IH; exact Hc].
Qed.

Lemma split_trail : forall t s, blank O t = true -> split_ws O (s ++ t) = split_ws O s.
Proof.
  induction t as [|c t IH]; intros s B; [rewrite app_nil_r; reflexivity|]. cbn in B. apply andb_true_iff in B as [Bc Bt].
  replace (s ++ c :: t) with ((s ++ [c]) ++ t) by (rewrite <- app_assoc; reflexivity).
  rewrite (IH (s ++ [c]) Bt). unfold split_ws. apply split_trail1. exact Bc.
Qed.

Theorem split_strip s : split_ws O (strip O s) = split_ws O s.
Proof.
  unfold strip. destruct (lstrip_split s) as [t1 [E1 B1]]. destruct (rstrip_split (lstrip O s)) as [t2 [E2 B2]].
  rewrite E1 at 2. rewrite (split_lead t1 _ B1). rewrite E2 at 2. rewrite (split_trail t2 _ B2). reflexivity.
Qed.

(* ---- a text without parentheses: its words are what str.split() gives ---- *)
Ltac setw W v := match goal with |- context [if ?b then _ else _] => replace b with v by (symmetry; exact W) end.
Lemma words_split_acc : forall s start k acc pos,
  (forall c, In c s -> is_space O c = false -> is_paren c = false) ->
  (k = CText /\ acc <> [] /\ (forall c, In c acc -> cls_of O c = CText)) \/ (k = CSpace /\ acc <> [] /\ (forall c, In c acc -> is_space O c = true)) ->
  map ptext (filter (is_word_piece O) (split_acc O start k acc pos s)) =
  split_ws_acc O (match k with CText => acc | _ => [] end) s.
Proof.
  induction s as [|c s IH]; intros start k acc pos Hp Hk.
  - cbn [split_acc filter map split_ws_acc]. destruct Hk as [[-> [Ha Hc]]|[-> [Ha Hc]]].
    + assert (W : is_word_piece O {| pstart := start; ptext := rev acc |} = true).
      { unfold is_word_piece, piece_cls. cbn [ptext]. destruct (rev acc) as [|x r] eqn:Er; [exfalso; apply (rev_ne _ Ha); exact Er|].
        rewrite (Hc x) by (apply in_rev; rewrite Er; left; reflexivity). reflexivity. }
      setw W true. cbn [map ptext]. destruct acc; [contradiction | reflexivity].
    + assert (W : is_word_piece O {| pstart := start; ptext := rev acc |} = false).
      { unfold is_word_piece, piece_cls. cbn [ptext]. destruct (rev acc) as [|x r] eqn:Er; [reflexivity|].
        unfold cls_of. rewrite (Hc x) by (apply in_rev; rewrite Er; left; reflexivity). reflexivity. }
      setw W false. reflexivity.
  - assert (Hp' : forall d, In d s -> is_space O d = false -> is_paren d = false) by (intros d Hd; apply Hp; right; exact Hd).
    cbn [split_acc split_ws_acc]. destruct (is_space O c) eqn:Ec.
    + assert (Kc : cls_of O c = CSpace) by (unfold cls_of; rewrite Ec; reflexivity). rewrite Kc.
      destruct Hk as [[-> [Ha Hc]]|[-> [Ha Hc]]]; cbn [cls_eqb andb negb].
      * assert (W : is_word_piece O {| pstart := start; ptext := rev acc |} = true).
        { unfold is_word_piece, piece_cls. cbn [ptext]. destruct (rev acc) as [|x r] eqn:Er; [exfalso; apply (rev_ne _ Ha); exact Er|].
          rewrite (Hc x) by (apply in_rev; rewrite Er; left; reflexivity). reflexivity. }
        cbn [filter]. setw W true. cbn [map ptext]. destruct acc as [|a0 acc0]; [contradiction|]. f_equal.
        apply (IH pos CSpace [c] (pos + 1) Hp'). right. split; [reflexivity | split; [discriminate | intros d [<-|[]]; exact Ec]].
      * apply (IH start CSpace (c :: acc) (pos + 1) Hp'). right.
        split; [reflexivity | split; [discriminate | intros d [<-|Hd]; [exact Ec | apply Hc; exact Hd]]].
    + assert (Kc : cls_of O c = CText) by (unfold cls_of; rewrite Ec, (Hp c (or_introl eq_refl) Ec); reflexivity). rewrite Kc.
      destruct Hk as [[-> [Ha Hc]]|[-> [Ha Hc]]]; cbn [cls_eqb andb negb].
      * apply (IH start CText (c :: acc) (pos + 1) Hp'). left.
        split; [reflexivity | split; [discriminate | intros d [<-|Hd]; [exact Kc | apply Hc; exact Hd]]].
      * assert (W : is_word_piece O {| pstart := start; ptext := rev acc |} = false).
        { unfold is_word_piece, piece_cls. cbn [ptext]. destruct (rev acc) as [|x r] eqn:Er; [reflexivity|].
          unfold cls_of. rewrite (Hc x) by (apply in_rev; rewrite Er; left; reflexivity). reflexivity. }
        cbn [filter]. setw W false.
        apply (IH pos CText [c] (pos + 1) Hp'). left. split; [reflexivity | split; [discriminate | intros d [<-|[]]; exact Kc]].
Qed.

Theorem words_split s : (forall c, In c s -> is_space O c = false -> is_paren c = false) -> words O s = split_ws O s.
Proof.
  intro Hp. unfold words, pieces, split_ws. destruct s as [|c s]; [reflexivity|].
  assert (Hp' : forall d, In d s -> is_space O d = false -> is_paren d = false) by (intros d Hd; apply Hp; right; exact Hd).
  cbn [split_ws_acc]. destruct (is_space O c) eqn:Ec.
  - assert (Kc : cls_of O c = CSpace) by (unfold cls_of; rewrite Ec; reflexivity). rewrite Kc.
    apply (words_split_acc s 0 CSpace [c] 1 Hp'). right. split; [reflexivity | split; [discriminate | intros d [<-|[]]; exact Ec]].
  - assert (Kc : cls_of O c = CText) by (unfold cls_of; rewrite Ec, (Hp c (or_introl eq_refl) Ec); reflexivity). rewrite Kc.
    apply (words_split_acc s 0 CText [c] 1 Hp'). left. split; [reflexivity | split; [discriminate | intros d [<-|[]]; exact Kc]].
Qed.

(* within the quantifier of C14 (aliases without parentheses) the repaired normalisation is the one the property words:
   lower-case, strip, split on white space, join with one space *)
Theorem norm_alias_plain a : (forall c, In c a -> is_space O c = false -> is_paren c = false) ->
  norm_alias O a = norm_spaces O (strip O (lower O a)).
Proof.
  intro H. unfold norm_alias, lwords, norm_spaces. rewrite (words_split a H), split_strip, split_lower. reflexivity.
Qed.

(* every character of a text that is not white space is in one of its words *)
Lemma split_acc_covers : forall s acc c, In c acc \/ In c s -> is_space O c = false -> nospace O acc ->
  exists w, In w (split_ws_acc O acc s) /\ In c w.
Proof.
  induction s as [|d s IH]; intros acc c Hin Hc Ha; cbn [split_ws_acc].
  - destruct Hin as [Hin|[]]. destruct acc as [|a acc']; [destruct Hin|]. exists (rev (a :: acc')). split; [left; reflexivity | apply -> in_rev; exact Hin].
  - destruct (is_space O d) eqn:Ed.
    + destruct Hin as [Hin|[<-|Hin]].
      * destruct acc as [|a acc']; [destruct Hin|]. exists (rev (a :: acc')). split; [left; reflexivity | apply -> in_rev; exact Hin].
      * congruence.
      * destruct (IH [] c (or_intror Hin) Hc eq_refl) as [w [Hw Hcw]]. exists w. split; [|exact Hcw]. destruct acc; [exact Hw | right; exact Hw].
    + apply (IH (d :: acc) c); [|exact Hc | apply nospace_cons; split; assumption].
      destruct Hin as [Hin|[<-|Hin]]; [left; right; exact Hin | left; left; reflexivity | right; exact Hin].
Qed.

End LowerSplit.

(* ---- LicenseSymbol() applied to a key it returned gives that key again ---- *)
Section KeyIdem.
Variable O : oracle.
Hypothesis sp_is_space : is_space O 32%N = true.

Lemma split_acc_nil : forall s acc, split_ws_acc O acc s = [] -> acc = [] /\ blank O s = true.
Proof.
  induction s as [|c s IH]; intros acc H; cbn [split_ws_acc] in H.
  - destruct acc; [split; reflexivity | discriminate].
  - destruct (is_space O c) eqn:Ec.
    + destruct acc; [|discriminate]. destruct (IH [] H) as [_ B]. split; [reflexivity | cbn; rewrite Ec; exact B].
    + destruct (IH (c :: acc) H) as [C _]. discriminate.
Qed.

Lemma lstrip_blank s : blank O s = true -> lstrip O s = [].
Proof. induction s as [|c s IH]; intro B; [reflexivity|]. cbn in B. apply andb_true_iff in B as [Bc Bs]. cbn [lstrip]. rewrite Bc. apply IH; exact Bs. Qed.

Lemma split_acc_chars : forall s acc w c, In w (split_ws_acc O acc s) -> In c w -> In c acc \/ In c s.
Proof.
  induction s as [|d s IH]; intros acc w c Hw Hc; cbn [split_ws_acc] in Hw.
  - destruct acc as [|a acc]; [destruct Hw|]. destruct Hw as [<-|[]]. left. apply in_rev. exact Hc.
  - destruct (is_space O d).
    + destruct acc as [|a acc].
      * destruct (IH [] w c Hw Hc) as [[]|H]. right. right. exact H.
      * destruct Hw as [<-|Hw]; [left; apply in_rev; exact Hc|]. destruct (IH [] w c Hw Hc) as [[]|H]. right. right. exact H.
    + destruct (IH (d :: acc) w c Hw Hc) as [[<-|H]|H]; [right; left; reflexivity | left; exact H | right; right; exact H].
Qed.

Lemma join_chars_inv : forall ws c, In c (join_sp ws) -> c = 32%N \/ exists w, In w ws /\ In c w.
Proof.
  induction ws as [|x ws IH]; intros c Hc; [destruct Hc|]. destruct ws as [|y ws'].
  - right. exists x. split; [left; reflexivity | exact Hc].
  - change (join_sp (x :: y :: ws')) with (x ++ sp ++ join_sp (y :: ws')) in Hc.
    apply in_app_or in Hc as [Hc|Hc]; [right; exists x; split; [left; reflexivity | exact Hc]|].
    apply in_app_or in Hc as [Hc|Hc]; [left; destruct Hc as [<-|[]]; reflexivity|].
    destruct (IH c Hc) as [E|[w [Hw Hcw]]]; [left; exact E | right; exists w; split; [right; exact Hw | exact Hcw]].
Qed.

Theorem mk_key_idem k0 k : mk_key O k0 = Ok k -> mk_key O k = Ok k.
Proof.
  intro H. destruct (proj1 (mk_key_iff O k0 k) H) as [[Kne [Sne [Val Nkw]]] Ek].
  set (ws := split_ws O (strip O k0)) in *.
  assert (Hws : Forall (word O) ws) by apply split_words.
  assert (Ej : k = join_sp ws) by exact Ek.
  assert (Wne : ws <> []).
  { intro C. unfold ws in C. rewrite (split_strip O) in C. destruct (split_acc_nil k0 [] C) as [_ B].
    apply Sne. unfold strip. rewrite (lstrip_blank k0 B). reflexivity. }
  assert (Est : strip O k = k) by (rewrite Ej; apply (strip_join O ws Hws)).
  assert (Eno : norm_spaces O k = k) by (rewrite Ej; apply (norm_spaces_join O sp_is_space ws Hws)).
  apply (mk_key_iff O k k). split; [|rewrite Est, Eno; reflexivity].
  unfold key_accepted. rewrite Est, Eno. split; [rewrite Ej; apply (join_sp_nonempty O ws Hws Wne)|].
  split; [rewrite Ej; apply (join_sp_nonempty O ws Hws Wne)|]. split.
  - apply forallb_forall. intros c Hc. rewrite Ej in Hc. destruct (join_chars_inv ws c Hc) as [->|[w [Hw Hcw]]].
    + unfold valid_key_char. rewrite sp_is_space. rewrite orb_true_r. reflexivity.
    + rewrite forallb_forall in Val. apply Val. destruct (split_acc_chars (strip O k0) [] w c Hw Hcw) as [[]|Hin]. exact Hin.
  - rewrite Ek. exact Nkw.
Qed.

End KeyIdem.

(* ---- two members of a list: the same, or at two places ---- *)
Lemma in_two {A} : forall (T : list A) a b, In a T -> In b T ->
  a = b \/ (exists l1 l2 l3, T = l1 ++ a :: l2 ++ b :: l3) \/ (exists l1 l2 l3, T = l1 ++ b :: l2 ++ a :: l3).
Proof.
  induction T as [|x T IH]; intros a b Ha Hb; [destruct Ha|].
  destruct Ha as [<-|Ha], Hb as [<-|Hb].
  - left. reflexivity.
  - right. left. apply in_split in Hb as [l2 [l3 ->]]. exists [], l2, l3. reflexivity.
  - right. right. apply in_split in Ha as [l2 [l3 ->]]. exists [], l2, l3. reflexivity.
  - destruct (IH a b Ha Hb) as [E|[[l1 [l2 [l3 E]]]|[l1 [l2 [l3 E]]]]].
    + left. exact E.
    + right. left. exists (x :: l1), l2, l3. rewrite E. reflexivity.
    + right. right. exists (x :: l1), l2, l3. rewrite E. reflexivity.
Qed.

Section Accepted.
Variable O : oracle.
Hypothesis sp_is_space : is_space O 32%N = true.
Hypothesis lower_space : forall c, is_space O c = true -> lower_ch O c = [c].
Hypothesis lower_nospace : forall c, is_space O c = false -> lower_ch O c <> [] /\ nospace O (lower_ch O c).
Hypothesis kw_plain : forall c, In c [97; 110; 100; 111; 114; 119; 105; 116; 104; 40; 41]%N ->
  is_space O c = false /\ lower_ch O c = [c].
Hypothesis paren_not_word : is_wordch O 40%N = false /\ is_wordch O 41%N = false.
Variable T : list entry.
Hypothesis keys_valid : forall e, In e T -> mk_key O (ekey e) = Ok (ekey e).
Hypothesis accepted : validate_symbols_err O T = false.

Notation names := (entry_names O).

(* a name made of plain words: its words are these words *)
Lemma plain_words ws : Forall (word O) ws -> (forall c, In c (join_sp ws) -> is_paren c = false) ->
  Forall (ctext_word O) ws.
Proof.
  intros Hws Hp. apply Forall_forall. intros w Hw. rewrite Forall_forall in Hws. destruct (Hws w Hw) as [Wn Ns]. split; [exact Wn|].
  intros c Hc. unfold nospace in Ns. rewrite forallb_forall in Ns. specialize (Ns c Hc). apply negb_true_iff in Ns.
  unfold cls_of. rewrite Ns. rewrite (Hp c (join_chars ws w c Hw Hc)). reflexivity.
Qed.

Lemma key_words e : In e T -> exists ws, ekey e = join_sp ws /\ Forall (word O) ws /\ ws <> [].
Proof.
  intro He. destruct (proj1 (mk_key_iff O (ekey e) (ekey e)) (keys_valid e He)) as [[Kne _] Enorm].
  exists (split_ws O (strip O (ekey e))). split; [exact Enorm|]. split; [apply split_words|].
  intro C. unfold norm_spaces in Enorm. rewrite C in Enorm. cbn in Enorm. contradiction.
Qed.

(* a key LicenseSymbol() accepted holds no parenthesis: its words are plain words *)
Lemma key_plain_words e : In e T -> exists ws, ekey e = join_sp ws /\ Forall (word O) ws /\ ws <> [] /\ Forall (ctext_word O) ws.
Proof.
  intro He. set (k := ekey e).
  destruct (proj1 (mk_key_iff O k k) (keys_valid e He)) as [[Kne [Sne [Val Nkw]]] Enorm].
  set (ws := split_ws O (strip O k)).
  assert (Hws : Forall (word O) ws) by (apply split_words).
  assert (Ej : k = join_sp ws) by (rewrite Enorm at 1; reflexivity).
  assert (Wne : ws <> []) by (intro C; rewrite C in Ej; cbn in Ej; contradiction).
  assert (Estrip : strip O k = k) by (rewrite Ej at 1; rewrite (strip_join O ws Hws); symmetry; exact Ej).
  rewrite Estrip in Val.
  exists ws. split; [exact Ej|]. split; [exact Hws|]. split; [exact Wne|].
  apply Forall_forall. intros w Hw. rewrite Forall_forall in Hws. destruct (Hws w Hw) as [Wn Ns]. split; [exact Wn|].
  intros c Hc. assert (Hck : In c k) by (rewrite Ej; apply (join_chars ws w c Hw Hc)).
  rewrite forallb_forall in Val. specialize (Val c Hck).
  unfold nospace in Ns. rewrite forallb_forall in Ns. specialize (Ns c Hc). apply negb_true_iff in Ns.
  unfold cls_of. rewrite Ns. destruct (is_paren c) eqn:Ep; [|reflexivity]. exfalso.
  unfold valid_key_char in Val. rewrite Ns in Val. destruct paren_not_word as [P1 P2].
  unfold is_paren, c_lpar, c_rpar in Ep. apply orb_true_iff in Ep as [Ep|Ep]; apply N.eqb_eq in Ep; subst c;
    [rewrite P1 in Val | rewrite P2 in Val]; cbn in Val; discriminate.
Qed.

Lemma lower_ne w : w <> [] -> lower O w <> [].
Proof.
  destruct w as [|c w]; [contradiction|]. intros _. change (lower O (c :: w)) with (lower_ch O c ++ lower O w).
  destruct (is_space O c) eqn:Ec.
  - rewrite (lower_space c Ec). discriminate.
  - destruct (lower_nospace c Ec) as [Hn _]. destruct (lower_ch O c); [contradiction | discriminate].
Qed.

Lemma contig_nonempty : forall ps start p, contig start ps -> In p ps -> ptext p <> [].
Proof.
  induction ps as [|q ps IH]; intros start p Hc Hp; [destruct Hp|]. destruct Hc as [_ [Hq Hc]].
  destruct Hp as [<-|Hp]; [exact Hq | apply (IH _ p Hc Hp)].
Qed.

Lemma lwords_nonempty s w : In w (lwords O s) -> w <> [].
Proof.
  unfold lwords, words. intro Hw. apply in_map_iff in Hw as [w0 [<- Hw0]]. apply in_map_iff in Hw0 as [p [<- Hp]].
  apply filter_In in Hp as [Hp _]. apply lower_ne. apply (contig_nonempty (pieces O s) 0 p (pieces_contig O s) Hp).
Qed.

Lemma join_sp_ne ws : ws <> [] -> (forall w, In w ws -> w <> []) -> join_sp ws <> [].
Proof.
  destruct ws as [|x r]; [contradiction|]. intros _ H. pose proof (H x (or_introl eq_refl)) as Hx.
  unfold join_sp. cbn [join]. destruct r; [exact Hx|]. destruct x; [contradiction | discriminate].
Qed.

(* every stored name of an entry, seen through its lower-cased words, is one of the names validate_symbols compares
   (an alias is stored with its white space normalised: that keeps its words, parentheses or not) *)
Lemma stored_name_in_names e n v : In e T -> In (n, v) (entry_adds O e) -> lwords O n <> [] ->
  In (join_sp (lwords O n)) (names e).
Proof.
  intros He Hn Hne.
  unfold entry_adds in Hn. destruct Hn as [Hn|Hn].
  - inversion Hn; subst n v. destruct (key_plain_words e He) as [ws [Ek [Hws [Wne Hct]]]].
    assert (El : lwords O (ekey e) = map (lower O) ws) by (unfold lwords; rewrite Ek, (words_join O sp_is_space ws Hct); reflexivity).
    rewrite El. replace (join_sp (map (lower O) ws)) with (keyl O e); [apply keyl_in_names|].
    unfold keyl. rewrite Ek, (strip_join O ws Hws). apply (lower_join O sp_is_space lower_space).
  - apply in_flat_map in Hn as [a [Ha Hn]]. destruct a as [|a0 a1]; [destruct Hn|]. destruct Hn as [Hn|[]]. inversion Hn; subst n v.
    set (a := a0 :: a1) in *.
    rewrite (lwords_norm_spaces O sp_is_space a) in *.
    unfold entry_names. apply (ou_in str_eqb str_eqb_eq). right. apply in_or_app. left. apply filter_In. split.
    + change (join_sp (lwords O a)) with (norm_alias O a). apply in_map. exact Ha.
    + pose proof (join_sp_ne (lwords O a) Hne (lwords_nonempty a)) as J. destruct (join_sp (lwords O a)); [contradiction | reflexivity].
Qed.

Lemma keyl_nonempty e : In e T -> keyl O e <> [].
Proof.
  intro He. destruct (key_words e He) as [ws [Ek [Hws Wne]]]. unfold keyl. rewrite Ek, (strip_join O ws Hws).
  rewrite (lower_join O sp_is_space lower_space). apply (join_sp_nonempty O).
  - apply Forall_forall. intros w Hw. apply in_map_iff in Hw as [w0 [<- Hw0]]. rewrite Forall_forall in Hws.
    apply (lower_word O lower_nospace w0 (Hws w0 Hw0)).
  - destruct ws; [contradiction | discriminate].
Qed.

(* the five operator names: their lower-cased words are themselves *)
Lemma keyword_lwords n v : In (n, v) keyword_adds -> lwords O n = [n] /\ is_keyword_str n = true.
Proof.
  intro Hin.
  assert (text_kw : forall w, (forall c, In c w -> In c [97; 110; 100; 111; 114; 119; 105; 116; 104]%N) -> w <> [] -> lwords O w = [w]).
  { intros w Hw Wn.
    assert (Hct : Forall (ctext_word O) [w]).
    { constructor; [|constructor]. split; [exact Wn|]. intros c Hc. specialize (Hw c Hc).
      assert (H40 : In c [97; 110; 100; 111; 114; 119; 105; 116; 104; 40; 41]%N) by (simpl in Hw |- *; tauto).
      destruct (kw_plain c H40) as [Hs _]. unfold cls_of. rewrite Hs.
      replace (is_paren c) with false; [reflexivity|]. simpl in Hw. unfold is_paren, c_lpar, c_rpar.
      repeat (destruct Hw as [<-|Hw]; [reflexivity|]). destruct Hw. }
    unfold lwords. pose proof (words_join O sp_is_space [w] Hct) as E. cbn [join_sp join] in E. rewrite E. cbn [map]. f_equal.
    unfold lower. clear E Hct Wn. induction w as [|c w IH]; [reflexivity|]. cbn [flat_map].
    assert (H40 : In c [97; 110; 100; 111; 114; 119; 105; 116; 104; 40; 41]%N) by (specialize (Hw c (or_introl eq_refl)); simpl in Hw |- *; tauto).
    destruct (kw_plain c H40) as [_ Hl]. rewrite Hl. cbn [app]. f_equal. apply IH. intros d Hd. apply Hw. right. exact Hd. }
  assert (paren_kw : forall c, In c [40; 41]%N -> lwords O [c] = [[c]]).
  { intros c Hc. assert (H40 : In c [97; 110; 100; 111; 114; 119; 105; 116; 104; 40; 41]%N) by (simpl in Hc |- *; tauto).
    destruct (kw_plain c H40) as [Hs Hl].
    assert (Hcls : cls_of O c = CParen).
    { unfold cls_of. rewrite Hs. replace (is_paren c) with true; [reflexivity|]. simpl in Hc. destruct Hc as [<-|[<-|[]]]; reflexivity. }
    unfold lwords, words, pieces. cbn [split_acc rev app filter]. unfold is_word_piece, piece_cls. cbn [ptext]. rewrite Hcls. cbn [cls_eqb negb map ptext].
    unfold lower. cbn [flat_map]. rewrite Hl. reflexivity. }
  unfold keyword_adds in Hin. simpl in Hin.
  destruct Hin as [H|[H|[H|[H|[H|[]]]]]]; inversion H; subst n v; (split; [|reflexivity]).
  - apply text_kw; [intros c Hc; unfold s_and in Hc; simpl in Hc |- *; tauto | discriminate].
  - apply text_kw; [intros c Hc; unfold s_or in Hc; simpl in Hc |- *; tauto | discriminate].
  - apply paren_kw. simpl. tauto.
  - apply paren_kw. simpl. tauto.
  - apply text_kw; [intros c Hc; unfold s_with in Hc; simpl in Hc |- *; tauto | discriminate].
Qed.

Lemma keyword_value n v1 v2 : In (n, v1) keyword_adds -> In (n, v2) keyword_adds -> v1 = v2.
Proof.
  unfold keyword_adds. simpl. intros H1 H2.
  destruct H1 as [H1|[H1|[H1|[H1|[H1|[]]]]]]; inversion H1; subst n v1;
    destruct H2 as [H2|[H2|[H2|[H2|[H2|[]]]]]]; inversion H2; reflexivity.
Qed.

Theorem accepted_names_unambiguous : forall n1 v1 n2 v2,
  In (n1, v1) (keyword_adds ++ flat_map (entry_adds O) T) -> In (n2, v2) (keyword_adds ++ flat_map (entry_adds O) T) ->
  lwords O n1 <> [] -> lwords O n1 = lwords O n2 -> v1 = v2.
Proof.
  intros n1 v1 n2 v2 H1 H2 Hne E.
  apply in_app_or in H1 as [K1|E1]; apply in_app_or in H2 as [K2|E2].
  - destruct (keyword_lwords n1 v1 K1) as [L1 _], (keyword_lwords n2 v2 K2) as [L2 _]. rewrite L1, L2 in E. inversion E; subst n2.
    apply (keyword_value n1 v1 v2 K1 K2).
  - exfalso. destruct (keyword_lwords n1 v1 K1) as [L1 Kw]. rewrite L1 in E.
    apply in_flat_map in E2 as [e2 [He2 Hn2]].
    assert (Hne2 : lwords O n2 <> []) by (rewrite <- E; discriminate).
    pose proof (stored_name_in_names e2 n2 v2 He2 Hn2 Hne2) as A2. rewrite <- E in A2. cbn [join_sp join] in A2.
    assert (Amb : ambiguous O T) by (right; left; exists e2, n1; split; [exact He2 | split; [exact A2 | exact Kw]]).
    apply (validate_symbols_ambiguous O T keyl_nonempty) in Amb. rewrite accepted in Amb. discriminate.
  - exfalso. destruct (keyword_lwords n2 v2 K2) as [L2 Kw]. rewrite L2 in E.
    apply in_flat_map in E1 as [e1 [He1 Hn1]].
    pose proof (stored_name_in_names e1 n1 v1 He1 Hn1 Hne) as A1. rewrite E in A1. cbn [join_sp join] in A1.
    assert (Amb : ambiguous O T) by (right; left; exists e1, n2; split; [exact He1 | split; [exact A1 | exact Kw]]).
    apply (validate_symbols_ambiguous O T keyl_nonempty) in Amb. rewrite accepted in Amb. discriminate.
  - apply in_flat_map in E1 as [e1 [He1 Hn1]]. apply in_flat_map in E2 as [e2 [He2 Hn2]].
    rewrite (entry_value O e1 n1 v1 Hn1), (entry_value O e2 n2 v2 Hn2).
    pose proof (stored_name_in_names e1 n1 v1 He1 Hn1 Hne) as A1.
    assert (Hne2 : lwords O n2 <> []) by (rewrite <- E; exact Hne).
    pose proof (stored_name_in_names e2 n2 v2 He2 Hn2 Hne2) as A2. rewrite <- E in A2.
    destruct (in_two T e1 e2 He1 He2) as [Eq|Two]; [subst e2; reflexivity|]. exfalso.
    assert (Amb : ambiguous O T).
    { destruct (list_eq_dec N.eq_dec (keyl O e1) (keyl O e2)) as [Ek|Nk].
      - left. destruct Two as [Tw|Tw]; [exists e1, e2; split; [exact Tw | exact Ek] | exists e2, e1; split; [exact Tw | symmetry; exact Ek]].
      - right. right. destruct Two as [Tw|Tw].
        + exists e1, e2, (join_sp (lwords O n1)). split; [exact Tw|]. repeat split; assumption.
        + exists e2, e1, (join_sp (lwords O n1)). split; [exact Tw|]. repeat split; try assumption. intro C. apply Nk. symmetry. exact C. }
    apply (validate_symbols_ambiguous O T keyl_nonempty) in Amb. rewrite accepted in Amb. discriminate.
Qed.

End Accepted.

(* ---- C05 over the tables Licensing() accepts ---- *)
Section AcceptedTables.
Variable O : oracle.
Hypothesis sp_is_space : is_space O 32%N = true.
Hypothesis upper_plain : forall c, In c [65; 78; 68; 79; 82; 87; 73; 84; 72; 40; 41]%N -> is_space O c = false.
Hypothesis lower_kw : lower O S_AND = s_and /\ lower O S_OR = s_or /\ lower O S_WITH = s_with /\
                      lower O s_lpar = s_lpar /\ lower O s_rpar = s_rpar.
Hypothesis kw_plain : forall c, In c [97; 110; 100; 111; 114; 119; 105; 116; 104; 40; 41]%N ->
  is_space O c = false /\ lower_ch O c = [c].
Hypothesis paren_not_word : is_wordch O 40%N = false /\ is_wordch O 41%N = false.
(* lower-casing keeps white space as it is and never makes any; no character lower-cases to nothing *)
Hypothesis lower_space : forall c, is_space O c = true -> lower_ch O c = [c].
Hypothesis lower_nospace : forall c, is_space O c = false -> lower_ch O c <> [] /\ nospace O (lower_ch O c).

Lemma as_symbols_keys : forall raw T, as_symbols O raw = Ok T -> forall e, In e T -> mk_key O (ekey e) = Ok (ekey e).
Proof.
  induction raw as [|r raw IH]; intros T H e He; cbn [as_symbols] in H.
  - inversion H; subst. destruct He.
  - destruct (mk_key O (ekey r)) as [k| | | | |] eqn:Ek; try discriminate. cbn [obind] in H.
    destruct (as_symbols O raw) as [T'| | | | |] eqn:Er; try discriminate. cbn [obind] in H. inversion H; subst T.
    destruct He as [<-|He]; [cbn [ekey]; apply (mk_key_idem O sp_is_space _ _ Ek) | apply (IH T' eq_refl e He)].
Qed.

Variables (raw T : list entry).
(* Licensing(raw) was accepted and is the table T *)
Hypothesis built : new_licensing O raw = Ok T.
(* no name holds an operator word or a parenthesis *)
Hypothesis names_opfree : forall n v, In (n, v) (flat_map (entry_adds O) T) ->
  forall w, In w (lwords O n) -> is_keyword_str w = false.

Lemma built_parts : as_symbols O raw = Ok T /\ validate_symbols_err O T = false.
Proof.
  unfold new_licensing in built. destruct (as_symbols O raw) as [T'| | | | |]; try discriminate. cbn [obind] in built.
  destruct (validate_symbols_err O T') eqn:V; [discriminate|]. inversion built; subst T'. split; [reflexivity | exact V].
Qed.

Theorem accepted_table_round_trip text wrap e : parse_tokens O T false false text = Ok e ->
  parse_tokens O T false false (render_with key wrap e) = Ok e.
Proof.
  destruct built_parts as [HA HV]. pose proof (as_symbols_keys raw T HA) as KV.
  apply (plain_table_round_trip O sp_is_space upper_plain lower_kw kw_plain paren_not_word T names_opfree KV).
  apply (accepted_names_unambiguous O sp_is_space lower_space lower_nospace kw_plain paren_not_word T KV HV).
Qed.

Theorem accepted_table_round_trip_derived text wrap e e' : parse_tokens O T false false text = Ok e ->
  wf e' = true -> incl (literals e') (literals e) ->
  parse_tokens O T false false (render_with key wrap e') = Ok e'.
Proof.
  destruct built_parts as [HA HV]. pose proof (as_symbols_keys raw T HA) as KV.
  apply (plain_table_round_trip_derived O sp_is_space upper_plain lower_kw kw_plain paren_not_word T names_opfree KV).
  apply (accepted_names_unambiguous O sp_is_space lower_space lower_nospace kw_plain paren_not_word T KV HV).
Qed.

End AcceptedTables.

(* ---- every name of an accepted table is recognised and validates (C15, C04) ---- *)
Require Import Proofs.Trie Proofs.Recognise.
Section AcceptedNames.
Variable O : oracle.
Hypothesis sp_is_space : is_space O 32%N = true.
Hypothesis kw_plain : forall c, In c [97; 110; 100; 111; 114; 119; 105; 116; 104; 40; 41]%N ->
  is_space O c = false /\ lower_ch O c = [c].
Hypothesis paren_not_word : is_wordch O 40%N = false /\ is_wordch O 41%N = false.
Hypothesis lower_space : forall c, is_space O c = true -> lower_ch O c = [c].
Hypothesis lower_nospace : forall c, is_space O c = false -> lower_ch O c <> [] /\ nospace O (lower_ch O c).
Variables (raw T : list entry).
Hypothesis built : new_licensing O raw = Ok T.

(* the words of a name of the table are stored with the symbol of its entry *)
Theorem accepted_name_stored e n v : In e T -> In (n, v) (entry_adds O e) -> lwords O n <> [] ->
  exists sp, stored O (keyword_adds ++ flat_map (entry_adds O) T) (lwords O n) = Some (sp, VSym (entry_sym e)).
Proof.
  intros He Hn Hne. destruct (built_parts O raw T built) as [HA HV]. pose proof (as_symbols_keys O sp_is_space raw T HA) as KV.
  assert (Hflat : In (n, v) (flat_map (entry_adds O) T)) by (apply in_flat_map; exists e; split; assumption).
  rewrite (entry_value O e n v Hn) in Hflat.
  apply (stored_owner O (keyword_adds ++ flat_map (entry_adds O) T) n (VSym (entry_sym e))).
  - apply in_or_app. right. exact Hflat.
  - intro C. subst n. apply Hne. reflexivity.
  - exact Hne.
  - intros n' v' H' E'. apply (accepted_names_unambiguous O sp_is_space lower_space lower_nospace kw_plain paren_not_word T KV HV n' v' n _ H').
    + apply in_or_app. right. exact Hflat.
    + rewrite E'. exact Hne.
    + exact E'.
Qed.

Lemma known_key_entry e : In e T -> known_key T (ekey e) = true.
Proof. intro He. unfold known_key. apply existsb_exists. exists e. split; [exact He | apply str_eqb_refl]. Qed.

Lemma validate_of_name text s : parse O T false false false text = Ok (Some (Lit (Plain s))) -> known_key T (key s) = true ->
  validate O T false text = {| normalized := Some (key s); errors := []; invalid_symbols := [] |}.
Proof.
  intros Hp Hk. unfold validate. rewrite Hp.
  unfold unknown_license_keys, unknown_license_symbols, license_symbols. cbn [literals flat_map decompose map app filter is_unknown].
  rewrite Hk. reflexivity.
Qed.

(* a text that spells a name of the table - any letter case, any white space - is that license: it parses to the symbol of the
   entry, renders as the canonical key and validates without errors *)
Theorem accepted_name_resolves e n v text : In e T -> In (n, v) (entry_adds O e) -> lwords O n <> [] ->
  lwords O text = lwords O n ->
  parse O T false false false text = Ok (Some (Lit (Plain (entry_sym e)))) /\
  render (Lit (Plain (entry_sym e))) = ekey e /\
  validate O T false text = {| normalized := Some (ekey e); errors := []; invalid_symbols := [] |}.
Proof.
  intros He Hn Hne Et. destruct (accepted_name_stored e n v He Hn Hne) as [sp0 Es]. rewrite <- Et in Es.
  destruct (recognise_name O T text sp0 (entry_sym e) Es) as [Hp Hr]. split; [exact Hp|]. split; [exact Hr|].
  apply (validate_of_name text (entry_sym e) Hp). apply (known_key_entry e He).
Qed.

(* strict parsing gives the same for a name of a license that is not an exception *)
Theorem accepted_name_resolves_strict e n v text : In e T -> In (n, v) (entry_adds O e) -> lwords O n <> [] ->
  lwords O text = lwords O n -> eexc e = false ->
  parse O T false true false text = Ok (Some (Lit (Plain (entry_sym e)))).
Proof.
  intros He Hn Hne Et Hx. destruct (accepted_name_stored e n v He Hn Hne) as [sp0 Es]. rewrite <- Et in Es.
  apply (recognise_alone_strict O T text sp0 (entry_sym e)); [|exact Hx].
  unfold build_trie. cbn [t_make_automaton outs].
  change (add_all O t_empty (keyword_adds ++ flat_map (entry_adds O) T))
    with (add_ops O t_empty (keyword_adds ++ flat_map (entry_adds O) T)).
  rewrite (get_out_add_ops O _ t_empty _ eq_refl). rewrite Es. reflexivity.
Qed.

End AcceptedNames.

(* ---- C14 without the premise on the keys: the keys of a table that went through LicenseSymbol() are never empty ---- *)
Section CtorDecides.
Variable O : oracle.
Hypothesis sp_is_space : is_space O 32%N = true.
Hypothesis lower_space : forall c, is_space O c = true -> lower_ch O c = [c].
Hypothesis lower_nospace : forall c, is_space O c = false -> lower_ch O c <> [] /\ nospace O (lower_ch O c).

Lemma valid_key_keyl_nonempty e : mk_key O (ekey e) = Ok (ekey e) -> keyl O e <> [].
Proof.
  intro Hk. destruct (proj1 (mk_key_iff O (ekey e) (ekey e)) Hk) as [[Kne _] Enorm].
  set (ws := split_ws O (strip O (ekey e))) in *.
  assert (Hws : Forall (word O) ws) by apply split_words.
  assert (Ek : ekey e = join_sp ws) by exact Enorm.
  assert (Wne : ws <> []) by (intro C; rewrite C in Ek; cbn in Ek; contradiction).
  unfold keyl. rewrite Ek, (strip_join O ws Hws). rewrite (lower_join O sp_is_space lower_space). apply (join_sp_nonempty O).
  - apply Forall_forall. intros w Hw. apply in_map_iff in Hw as [w0 [<- Hw0]]. rewrite Forall_forall in Hws.
    apply (lower_word O lower_nospace w0 (Hws w0 Hw0)).
  - destruct ws; [contradiction | discriminate].
Qed.

Theorem ctor_decides raw T : as_symbols O raw = Ok T ->
  (new_licensing O raw = ValueErr <-> ambiguous O T) /\ (new_licensing O raw = Ok T <-> ~ ambiguous O T).
Proof.
  intro HA. apply (ctor_iff O raw T HA). intros e He. apply valid_key_keyl_nonempty. apply (as_symbols_keys O sp_is_space raw T HA e He).
Qed.

End CtorDecides.
