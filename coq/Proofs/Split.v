(* The splitter: pieces are non-empty, contiguous, and concatenate to the text; each piece is the
   slice of the text between its start and end offsets. *)
Require Import Model.Base Model.Split Model.Trie.
From Coq Require Import Lia.
Open Scope Z_scope.

Section SplitProofs.
Variable O : oracle.

Fixpoint contig (start : Z) (ps : list piece) : Prop :=
  match ps with
  | [] => True
  | p :: ps' => pstart p = start /\ ptext p <> [] /\ contig (start + Z.of_nat (length (ptext p))) ps'
  end.

Definition texts (ps : list piece) : str := concat (map ptext ps).

Lemma split_acc_spec : forall s start k acc pos,
  acc <> [] -> pos = start + Z.of_nat (length acc) ->
  contig start (split_acc O start k acc pos s) /\ texts (split_acc O start k acc pos s) = rev acc ++ s.
Proof.
  induction s as [|c s IH]; intros start k acc pos Hne Hpos; simpl.
  - split.
    + simpl. split; [reflexivity|]. split; [|exact I].
      intro E; apply (f_equal (@length N)) in E; rewrite rev_length in E; destruct acc; [contradiction|discriminate].
    + unfold texts. simpl. rewrite !app_nil_r. reflexivity.
  - destruct (cls_eqb k (cls_of O c) && negb (cls_eqb k CParen)).
    + specialize (IH start k (c :: acc) (pos + 1) ltac:(discriminate)).
      destruct IH as [I1 I2]; [simpl length; lia|]. split; [exact I1|]. rewrite I2. simpl. rewrite <- app_assoc. reflexivity.
    + specialize (IH pos (cls_of O c) [c] (pos + 1) ltac:(discriminate)).
      destruct IH as [I1 I2]; [simpl; lia|]. split.
      * simpl. split; [reflexivity|]. split.
        -- intro E; apply (f_equal (@length N)) in E; rewrite rev_length in E; destruct acc; [contradiction|discriminate].
        -- rewrite rev_length. rewrite <- Hpos. exact I1.
      * unfold texts in *. simpl. rewrite I2. simpl. reflexivity.
Qed.

Theorem pieces_contig s : contig 0 (pieces O s).
Proof.
  destruct s as [|c s]; [exact I|]. unfold pieces.
  apply (split_acc_spec s 0 (cls_of O c) [c] 1); [discriminate | reflexivity].
Qed.

Theorem pieces_concat s : texts (pieces O s) = s.
Proof.
  destruct s as [|c s]; [reflexivity|]. unfold pieces.
  destruct (split_acc_spec s 0 (cls_of O c) [c] 1) as [_ H]; [discriminate | reflexivity|]. exact H.
Qed.

(* a piece of a contiguous list is the slice of the concatenation at its offsets *)
Lemma contig_slice : forall ps start pre p,
  contig start ps -> In p ps -> Z.of_nat (length pre) = start -> 0 <= start ->
  ptext p = slice (pre ++ texts ps) (pstart p) (pend p).
Proof.
  induction ps as [|q ps IH]; intros start pre p Hc Hin Hpre Hs; [destruct Hin|].
  destruct Hc as [Hq [Hne Hc]]. destruct Hin as [<-|Hin].
  - unfold slice, pend. rewrite Hq, <- Hpre. rewrite Nat2Z.id.
    replace (Z.to_nat (Z.of_nat (length pre) + Z.of_nat (length (ptext q)) - 1 + 1 - Z.of_nat (length pre))) with (length (ptext q)) by lia.
    unfold texts. simpl. rewrite skipn_app, skipn_all, Nat.sub_diag. simpl.
    rewrite firstn_app, firstn_all, Nat.sub_diag. simpl. rewrite app_nil_r. reflexivity.
  - unfold texts in *. simpl. rewrite app_assoc. apply (IH (start + Z.of_nat (length (ptext q)))); try assumption.
    + rewrite app_length. lia.
    + lia.
Qed.

Theorem piece_is_slice s p : In p (pieces O s) -> ptext p = slice s (pstart p) (pend p).
Proof.
  intro H. rewrite <- (pieces_concat s) at 1.
  apply (contig_slice (pieces O s) 0 [] p (pieces_contig s) H); [reflexivity | lia].
Qed.

End SplitProofs.
