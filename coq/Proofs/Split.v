(* The splitter: pieces are non-empty, contiguous, and concatenate to the text; each piece is the
   slice of the text between its start and end offsets. *)
Require Import Model.Base Model.Split Model.Trie.
From Coq Require Import Lia.
Open Scope Z_scope.

Section SplitProofs.
Variable O : oracle.

Fixpoint contig (start : Z) (ps : list piece) : Prop :=
  match ps with
  | [] => True
  | p :: ps' => pstart p = start /\ ptext p <> [] /\ contig (start + Z.of_nat (length (ptext p))) ps'
  end.

Definition texts (ps : list piece) : str := concat (map ptext ps).

Lemma split_acc_spec : forall s start k acc pos,
  acc <> [] -> pos = start + Z.of_nat (length acc) ->
  contig start (split_acc O start k acc pos s) /\ texts (split_acc O start k acc pos s) = rev acc ++ s.
Proof.
  induction s as [|c s IH]; intros start k acc pos Hne Hpos; simpl.
  - split.
    + simpl. split; [reflexivity|]. split; [|exact I].
      intro E; apply (f_equal (@length N)) in E; rewrite rev_length in E; destruct acc; [contradiction|discriminate].
    + unfold texts. simpl. rewrite !app_nil_r. reflexivity.
  - destruct (cls_eqb k (cls_of O c) && negb (cls_eqb k CParen)).
    + specialize (IH start k (c :: acc) (pos + 1) ltac:(discriminate)).
      destruct IH as [I1 I2]; [simpl length; lia|]. split; [exact I1|]. rewrite I2. simpl. rewrite <- app_assoc. reflexivity.
    + specialize (IH pos (cls_of O c) [c] (pos + 1) ltac:(discriminate)).
      destruct IH as [I1 I2]; [simpl; lia|]. split.
      * simpl. split; [reflexivity|]. split.
        -- intro E; apply (f_equal (@length N)) in E; rewrite rev_length in E; destruct acc; [contradiction|discriminate].
        -- rewrite rev_length. rewrite <- Hpos. exact I1.
      * unfold texts in *. simpl. rewrite I2. simpl. reflexivity.
Qed.

Theorem pieces_contig s : contig 0 (pieces O s).
Proof.
  destruct s as [|c s]; [exact I|]. unfold pieces.
  apply (split_acc_spec s 0 (cls_of O c) [c] 1); [discriminate | reflexivity].
Qed.

Theorem pieces_concat s : texts (pieces O s) = s.
Proof.
  destruct s as [|c s]; [reflexivity|]. unfold pieces.
  destruct (split_acc_spec s 0 (cls_of O c) [c] 1) as [_ H]; [discriminate | reflexivity|]. exact H.
Qed.

(* a piece of a contiguous list is the slice of the concatenation at its offsets *)
Lemma contig_slice : forall ps start pre p,
  contig start ps -> In p ps -> Z.of_nat (length pre) = start -> 0 <= start ->
  ptext p = slice (pre ++ texts ps) (pstart p) (pend p).
Proof.
  induction ps as [|q ps IH]; intros start pre p Hc Hin Hpre Hs; [destruct Hin|].
  destruct Hc as [Hq [Hne Hc]]. destruct Hin as [<-|Hin].
  - unfold slice, pend. rewrite Hq, <- Hpre. rewrite Nat2Z.id.
    replace (Z.to_nat (Z.of_nat (length pre) + Z.of_nat (length (ptext q)) - 1 + 1 - Z.of_nat (length pre))) with (length (ptext q)) by lia.
    unfold texts. simpl. rewrite skipn_app, skipn_all, Nat.sub_diag. simpl.
    rewrite firstn_app, firstn_all, Nat.sub_diag. simpl. rewrite app_nil_r. reflexivity.
  - unfold texts in *. simpl. rewrite app_assoc. apply (IH (start + Z.of_nat (length (ptext q)))); try assumption.
    + rewrite app_length. lia.
    + lia.
Qed.

Theorem piece_is_slice s p : In p (pieces O s) -> ptext p = slice s (pstart p) (pend p).
Proof.
  intro H. rewrite <- (pieces_concat s) at 1.
  apply (contig_slice (pieces O s) 0 [] p (pieces_contig s) H); [reflexivity | lia].
Qed.

End SplitProofs.

(* ---- positions grow along the pieces ---- *)
Section Order.
Variable O : oracle.

(* every later piece starts after the end of an earlier one; every piece is non-empty *)
Fixpoint incr (ps : list piece) : Prop :=
  match ps with
  | [] => True
  | p :: ps' => pstart p <= pend p /\ (forall q, In q ps' -> pend p < pstart q) /\ incr ps'
  end.

Lemma contig_lower_bound : forall ps start q, contig start ps -> In q ps -> start <= pstart q.
Proof.
  induction ps as [|p ps IH]; intros start q Hc Hq; [destruct Hq|].
  destruct Hc as [Hp [Hne Hc]]. destruct Hq as [<-|Hq]; [lia|].
  specialize (IH _ q Hc Hq). lia.
Qed.

Lemma contig_incr : forall ps start, contig start ps -> incr ps.
Proof.
  induction ps as [|p ps IH]; intros start Hc; [exact I|].
  destruct Hc as [Hp [Hne Hc]]. simpl. unfold pend.
  assert (Hl : (0 < length (ptext p))%nat) by (destruct (ptext p); [contradiction | simpl; lia]).
  split; [lia|]. split; [|eapply IH; exact Hc].
  intros q Hq. pose proof (contig_lower_bound _ _ q Hc Hq). lia.
Qed.

Lemma incr_filter (f : piece -> bool) : forall ps, incr ps -> incr (filter f ps).
Proof.
  induction ps as [|p ps IH]; intro H; [exact I|]. destruct H as [H1 [H2 H3]]. simpl.
  destruct (f p); [|apply IH; exact H3]. simpl. split; [exact H1|]. split; [|apply IH; exact H3].
  intros q Hq. apply filter_In in Hq as [Hq _]. apply H2; exact Hq.
Qed.

Lemma incr_app l1 : forall l2, incr (l1 ++ l2) ->
  incr l1 /\ incr l2 /\ (forall p q, In p l1 -> In q l2 -> pend p < pstart q).
Proof.
  induction l1 as [|a l1 IH]; intros l2 H; simpl in *.
  - split; [exact I|]. split; [exact H|]. intros p q [].
  - destruct H as [H1 [H2 H3]]. destruct (IH l2 H3) as [I1 [I2 I3]]. split; [|split; [exact I2|]].
    + split; [exact H1|]. split; [|exact I1]. intros q Hq. apply H2. apply in_or_app. left; exact Hq.
    + intros p q [<-|Hp] Hq; [apply H2; apply in_or_app; right; exact Hq | apply I3; assumption].
Qed.

Lemma word_pieces_incr s : incr (filter (is_word_piece O) (pieces O s)).
Proof. apply incr_filter. eapply contig_incr. apply pieces_contig. Qed.

(* in an increasing list, the first piece starts first and the last one ends last *)
Lemma incr_first_last : forall ps d, incr ps -> ps <> [] ->
  forall q, In q ps -> pstart (hd d ps) <= pstart q /\ pend q <= pend (last ps d).
Proof.
  induction ps as [|p ps IH]; intros d H Hne q Hq; [contradiction|].
  destruct H as [H1 [H2 H3]]. destruct ps as [|p2 ps'].
  - destruct Hq as [<-|[]]. simpl. lia.
  - destruct Hq as [<-|Hq].
    + simpl hd. split; [lia|].
      destruct (IH d H3 ltac:(discriminate) p2 (or_introl eq_refl)) as [_ I2].
      specialize (H2 p2 (or_introl eq_refl)). destruct H3 as [H4 _].
      change (last (p :: p2 :: ps') d) with (last (p2 :: ps') d). lia.
    + destruct (IH d H3 ltac:(discriminate) q Hq) as [I1 I2]. simpl hd.
      specialize (H2 q Hq). change (last (p :: p2 :: ps') d) with (last (p2 :: ps') d).
      split; [lia | exact I2].
Qed.

End Order.
