(* ordered_unique: each item once, first occurrences first. *)
Require Import Model.Base Model.Expr Model.LicTok Model.Licensing.
From Coq Require Import Lia.

Section OrderedUnique.
Context {A : Type}.
Variable eqb : A -> A -> bool.
Hypothesis eqb_eq : forall a b, eqb a b = true <-> a = b.

Lemma existsb_eqb_in acc x : existsb (fun y => eqb y x) acc = true <-> In x acc.
Proof.
  rewrite existsb_exists. split; [intros [y [Hy E]]; apply eqb_eq in E; subst; exact Hy | intro H; exists x; split; [exact H | apply eqb_eq; reflexivity]].
Qed.

Lemma ou_in : forall l acc x, In x (ordered_unique eqb acc l) <-> In x acc \/ In x l.
Proof.
  induction l as [|y l IH]; intros acc x; simpl; [tauto|].
  destruct (existsb (fun z => eqb z y) acc) eqn:E.
  - rewrite IH. apply existsb_eqb_in in E. split; [tauto|]. intros [H|[<-|H]]; tauto.
  - rewrite IH, in_app_iff. simpl. tauto.
Qed.

Lemma ou_nodup : forall l acc, NoDup acc -> NoDup (ordered_unique eqb acc l).
Proof.
  induction l as [|y l IH]; intros acc H; simpl; [exact H|].
  destruct (existsb (fun z => eqb z y) acc) eqn:E; [apply IH; exact H|].
  apply IH. assert (Hn : ~ In y acc) by (intro Hin; apply existsb_eqb_in in Hin; congruence).
  clear -H Hn. induction acc as [|a acc IHa]; simpl; [constructor; [intros []|constructor]|].
  inversion H; subst. constructor.
  - intro Hin. apply in_app_or in Hin as [Hin|[<-|[]]]; [contradiction | apply Hn; left; reflexivity].
  - apply IHa; [assumption | intro Hin; apply Hn; right; exact Hin].
Qed.

(* the accumulator is a prefix of the result: earlier first occurrences stay in front *)
Lemma ou_prefix : forall l acc, exists r, ordered_unique eqb acc l = acc ++ r.
Proof.
  induction l as [|y l IH]; intros acc; simpl; [exists []; rewrite app_nil_r; reflexivity|].
  destruct (existsb (fun z => eqb z y) acc); [apply IH|].
  destruct (IH (acc ++ [y])) as [r Hr]. exists (y :: r). rewrite Hr, <- app_assoc. reflexivity.
Qed.

Lemma ou_filter (P : A -> bool) : forall l acc,
  ordered_unique eqb (filter P acc) (filter P l) = filter P (ordered_unique eqb acc l).
Proof.
  induction l as [|y l IH]; intros acc; simpl; [reflexivity|].
  destruct (P y) eqn:Py; simpl.
  - assert (E : existsb (fun z => eqb z y) (filter P acc) = existsb (fun z => eqb z y) acc).
    { destruct (existsb (fun z => eqb z y) acc) eqn:E1.
      - apply existsb_eqb_in in E1. apply existsb_eqb_in. apply filter_In. split; assumption.
      - destruct (existsb (fun z => eqb z y) (filter P acc)) eqn:E2; [|reflexivity].
        apply existsb_eqb_in in E2. apply filter_In in E2 as [E2 _]. apply existsb_eqb_in in E2. congruence. }
    rewrite E. destruct (existsb (fun z => eqb z y) acc); [apply IH|].
    rewrite <- IH. rewrite filter_app. simpl. rewrite Py. reflexivity.
  - destruct (existsb (fun z => eqb z y) acc); [apply IH|].
    rewrite <- IH. rewrite filter_app. simpl. rewrite Py, app_nil_r. reflexivity.
Qed.
End OrderedUnique.
