(* C07: simplify() returns one normal form per rewrite class.
   Stage 1: on canonical forms the set-based == is identity and the sort comparison is a strict
   total order.  Stage 2: sorting.  Stage 3: what absorption leaves.  Stage 4: the result of one
   node depends only on the set of its flattened operands.  Stage 5: idempotence.  Stage 6: the
   four rewrites. *)
Require Import Model.Base Model.Expr Model.Simplify Proofs.Symbol Proofs.ExprEq Proofs.SimplifySound Proofs.Canonical Proofs.Equiv.
From Coq Require Import Lia Permutation.

(* ---- generic: strictly sorted lists ---- *)
Section SSorted.
Variable A : Type.
Variable lt : A -> A -> bool.

Fixpoint ssorted (l : list A) : Prop :=
  match l with
  | [] => True
  | x :: l' => (forall y, In y l' -> lt x y = true) /\ ssorted l'
  end.

Lemma ssorted_unique : forall l1 l2,
  (forall x, In x l1 \/ In x l2 -> lt x x = false) ->
  (forall x y, In x l1 \/ In x l2 -> In y l1 \/ In y l2 -> lt x y = true -> lt y x = false) ->
  ssorted l1 -> ssorted l2 -> (forall x, In x l1 <-> In x l2) -> l1 = l2.
Proof.
  induction l1 as [|a l1 IH]; intros l2 Hirr Hasym S1 S2 Hm.
  - destruct l2 as [|b l2]; [reflexivity|]. exfalso. apply (proj2 (Hm b)). left; reflexivity.
  - destruct l2 as [|b l2]; [exfalso; apply (proj1 (Hm a)); left; reflexivity|].
    destruct S1 as [A1 S1]. destruct S2 as [A2 S2].
    assert (Hab : a = b).
    { destruct (proj1 (Hm a) (or_introl eq_refl)) as [E|Ha]; [symmetry; exact E|].
      destruct (proj2 (Hm b) (or_introl eq_refl)) as [E|Hb]; [exact E|].
      specialize (A2 a Ha). specialize (A1 b Hb).
      rewrite (Hasym a b) in A2; [discriminate | left; left; reflexivity | right; left; reflexivity | exact A1]. }
    subst b. f_equal. apply IH.
    + intros x [H|H]; apply Hirr; [left; right; exact H | right; right; exact H].
    + intros x y Hx Hy. apply Hasym; [destruct Hx as [H|H]; [left; right; exact H | right; right; exact H] |
                                      destruct Hy as [H|H]; [left; right; exact H | right; right; exact H]].
    + exact S1.
    + exact S2.
    + intro x. split; intro Hx.
      * destruct (proj1 (Hm x) (or_intror Hx)) as [E|H]; [|exact H]. subst x. specialize (A1 a Hx).
        rewrite (Hirr a) in A1; [discriminate | left; left; reflexivity].
      * destruct (proj2 (Hm x) (or_intror Hx)) as [E|H]; [|exact H]. subst x. specialize (A2 a Hx).
        rewrite (Hirr a) in A2; [discriminate | left; left; reflexivity].
Qed.

End SSorted.
Arguments ssorted {A} lt l.

(* ---- Stage 1 ---- *)
Definition eq_ok (a b : expr) : Prop := expr_eqb a b = true -> a = b.
Definition tri_ok (a b : expr) : Prop := a = b \/ expr_ltb a b = true \/ expr_ltb b a = true.
Definition trans_ok (a b c : expr) : Prop := expr_ltb a b = true -> expr_ltb b c = true -> expr_ltb a c = true.

Lemma list_sum_cons a l : list_sum (a :: l) = a + list_sum l.
Proof. reflexivity. Qed.

Lemma size_in x xs : In x xs -> size x <= list_sum (map size xs).
Proof.
  induction xs as [|y xs IH]; intro H; [destruct H|]. cbn [map]. rewrite list_sum_cons.
  destruct H as [<-|H]; [lia | specialize (IH H); lia].
Qed.

(* trichotomy of the lexicographic comparison from trichotomy and eq_ok on the elements *)
Lemma lex_tri : forall xs ys,
  (forall x y, In x xs -> In y ys -> tri_ok x y /\ eq_ok x y) ->
  xs = ys \/ lex_ltb xs ys = true \/ lex_ltb ys xs = true.
Proof.
  induction xs as [|x xs IH]; intros [|y ys] H; cbn [lex_ltb]; [left; reflexivity | right; left; reflexivity | right; right; reflexivity |].
  destruct (H x y (or_introl eq_refl) (or_introl eq_refl)) as [[E|[L|L]] Heq].
  - subst y. rewrite expr_eqb_refl.
    destruct (IH ys) as [E|[L|L]]; [intros a b Ha Hb; apply H; right; assumption | left; subst; reflexivity | right; left; exact L | right; right; exact L].
  - right. left. destruct (expr_eqb x y) eqn:E; [|exact L]. apply Heq in E. subst y. rewrite expr_ltb_irrefl in L. discriminate.
  - right. right. rewrite (expr_eqb_sym y x). destruct (expr_eqb x y) eqn:E; [|exact L]. apply Heq in E. subst y. rewrite expr_ltb_irrefl in L. discriminate.
Qed.

Lemma lex_trans : forall xs ys zs,
  (forall x y, In x xs \/ In x ys \/ In x zs -> In y xs \/ In y ys \/ In y zs -> eq_ok x y) ->
  (forall x y z, In x xs -> In y ys -> In z zs -> trans_ok x y z) ->
  lex_ltb xs ys = true -> lex_ltb ys zs = true -> lex_ltb xs zs = true.
Proof.
  induction xs as [|x xs IH]; intros [|y ys] [|z zs] Heq Htr L1 L2; cbn [lex_ltb] in *; try discriminate; try reflexivity.
  assert (IHt : lex_ltb xs ys = true -> lex_ltb ys zs = true -> lex_ltb xs zs = true).
  { apply IH.
    - intros a b Ha Hb. apply Heq; [destruct Ha as [H|[H|H]]; [left; right; exact H | right; left; right; exact H | right; right; right; exact H] |
                                     destruct Hb as [H|[H|H]]; [left; right; exact H | right; left; right; exact H | right; right; right; exact H]].
    - intros a b c Ha Hb Hc. apply Htr; right; assumption. }
  assert (Exy : eq_ok x y) by (apply Heq; [left; left; reflexivity | right; left; left; reflexivity]).
  assert (Eyz : eq_ok y z) by (apply Heq; [right; left; left; reflexivity | right; right; left; reflexivity]).
  assert (Exz : eq_ok x z) by (apply Heq; [left; left; reflexivity | right; right; left; reflexivity]).
  specialize (Htr x y z (or_introl eq_refl) (or_introl eq_refl) (or_introl eq_refl)).
  destruct (expr_eqb x y) eqn:E1; destruct (expr_eqb y z) eqn:E2.
  - apply Exy in E1. apply Eyz in E2. subst. rewrite expr_eqb_refl. apply IHt; assumption.
  - apply Exy in E1. subst y. rewrite E2. exact L2.
  - apply Eyz in E2. subst z. rewrite E1. exact L1.
  - pose proof (Htr L1 L2) as L3. destruct (expr_eqb x z) eqn:E3; [|exact L3].
    apply Exz in E3. subst z. rewrite (expr_ltb_asym _ _ L1) in L2. discriminate.
Qed.

(* adjacent order + distinctness + trichotomy + transitivity = strictly sorted *)
Lemma ordered_ssorted : forall xs,
  (forall x y, In x xs -> In y xs -> tri_ok x y) ->
  (forall x y z, In x xs -> In y xs -> In z xs -> trans_ok x y z) ->
  distinct xs -> ordered xs -> ssorted expr_ltb xs.
Proof.
  induction xs as [|x xs IH]; intros Htri Htr Hd Ho; [exact I|].
  inversion Hd as [|? ? Hx Hd']; subst.
  assert (Ho' : ordered xs) by (inversion Ho; subst; [constructor | assumption]).
  assert (IHs : ssorted expr_ltb xs).
  { apply IH; [intros a b Ha Hb; apply Htri; right; assumption | intros a b c Ha Hb Hc; apply Htr; right; assumption | exact Hd' | exact Ho']. }
  split; [|exact IHs].
  destruct xs as [|y xs]; [intros ? []|].
  assert (Lxy : expr_ltb x y = true).
  { inversion Ho as [| |? ? ? Hyx _]; subst.
    destruct (Htri x y (or_introl eq_refl) (or_intror (or_introl eq_refl))) as [E|[L|L]]; [|exact L | congruence].
    subst y. specialize (Hx x (or_introl eq_refl)). rewrite expr_eqb_refl in Hx. discriminate. }
  intros z [<-|Hz]; [exact Lxy|]. destruct IHs as [Hy _]. specialize (Hy z Hz).
  apply (Htr x y z (or_introl eq_refl) (or_intror (or_introl eq_refl)) (or_intror (or_intror Hz)) Lxy Hy).
Qed.

(* the arguments of a canonical node *)
Lemma canonical_node_inv o xs : canonical (mk o xs) ->
  2 <= length xs /\ distinct xs /\ ordered xs /\ Forall canonical xs /\ Forall (fun x => is_op o x = false) xs.
Proof. destruct o; intro H; inversion H; subst; repeat split; assumption. Qed.

Lemma size_mk o xs : size (mk o xs) = S (list_sum (map size xs)).
Proof. destruct o; reflexivity. Qed.

Lemma expr_eqb_mk o xs ys : expr_eqb (mk o xs) (mk o ys) = sub_eqb xs ys && sup_eqb xs ys.
Proof. destruct o; reflexivity. Qed.
Lemma expr_ltb_mk o xs ys : expr_ltb (mk o xs) (mk o ys) = lex_ltb xs ys.
Proof. destruct o; [apply ltb_and | apply ltb_or]. Qed.

(* same-kind nodes, given the three facts for all operands *)
Section SameKind.
Variable m : nat.
Hypothesis IH : forall a b c, size a <= m -> size b <= m -> size c <= m -> canonical a -> canonical b -> canonical c ->
  eq_ok a b /\ tri_ok a b /\ trans_ok a b c.

Lemma child_small o xs x : size (mk o xs) <= S m -> In x xs -> size x <= m.
Proof. rewrite size_mk. intros H Hx. pose proof (size_in x xs Hx). lia. Qed.

Lemma node_ssorted o xs : size (mk o xs) <= S m -> canonical (mk o xs) -> ssorted expr_ltb xs.
Proof.
  intros Hs Hc. destruct (canonical_node_inv o xs Hc) as [_ [Hd [Ho [Hcs _]]]]. rewrite Forall_forall in Hcs.
  apply ordered_ssorted; [| |exact Hd | exact Ho].
  - intros x y Hx Hy. destruct (IH x y x) as [_ [B _]]; [apply (child_small o xs); assumption | apply (child_small o xs); assumption
      | apply (child_small o xs); assumption | apply Hcs; exact Hx | apply Hcs; exact Hy | apply Hcs; exact Hx | exact B].
  - intros x y z Hx Hy Hz. destruct (IH x y z) as [_ [_ C]]; [apply (child_small o xs); assumption | apply (child_small o xs); assumption
      | apply (child_small o xs); assumption | apply Hcs; exact Hx | apply Hcs; exact Hy | apply Hcs; exact Hz | exact C].
Qed.

Lemma node_eq o xs ys : size (mk o xs) <= S m -> size (mk o ys) <= S m -> canonical (mk o xs) -> canonical (mk o ys) ->
  eq_ok (mk o xs) (mk o ys).
Proof.
  intros Sx Sy Cx Cy E. rewrite expr_eqb_mk in E. apply andb_true_iff in E as [E1 E2].
  destruct (canonical_node_inv o xs Cx) as [_ [_ [_ [Hcx _]]]]. destruct (canonical_node_inv o ys Cy) as [_ [_ [_ [Hcy _]]]].
  rewrite Forall_forall in Hcx, Hcy.
  assert (Hm : forall x, In x xs <-> In x ys).
  { intro x. split; intro Hx.
    - destruct (proj1 (sub_eqb_spec xs ys) E1 x Hx) as [y [Hy Exy]].
      assert (x = y).
      { destruct (IH x y x) as [A _]; [apply (child_small o xs); assumption | apply (child_small o ys); assumption | apply (child_small o xs); assumption
                                      | apply Hcx; exact Hx | apply Hcy; exact Hy | apply Hcx; exact Hx | apply A; exact Exy]. }
      subst y. exact Hy.
    - destruct (proj1 (sup_eqb_spec xs ys) E2 x Hx) as [y [Hy Exy]].
      assert (y = x).
      { destruct (IH y x x) as [A _]; [apply (child_small o xs); assumption | apply (child_small o ys); assumption | apply (child_small o ys); assumption
                                      | apply Hcx; exact Hy | apply Hcy; exact Hx | apply Hcy; exact Hx | apply A; exact Exy]. }
      subst y. exact Hy. }
  f_equal. apply (ssorted_unique expr expr_ltb).
  - intros x _. apply expr_ltb_irrefl.
  - intros x y _ _. apply expr_ltb_asym.
  - apply (node_ssorted o xs Sx Cx).
  - apply (node_ssorted o ys Sy Cy).
  - exact Hm.
Qed.

Lemma node_tri o xs ys : size (mk o xs) <= S m -> size (mk o ys) <= S m -> canonical (mk o xs) -> canonical (mk o ys) ->
  tri_ok (mk o xs) (mk o ys).
Proof.
  intros Sx Sy Cx Cy. unfold tri_ok. rewrite !expr_ltb_mk.
  destruct (canonical_node_inv o xs Cx) as [_ [_ [_ [Hcx _]]]]. destruct (canonical_node_inv o ys Cy) as [_ [_ [_ [Hcy _]]]].
  rewrite Forall_forall in Hcx, Hcy.
  destruct (lex_tri xs ys) as [E|[L|L]]; [|left; subst; reflexivity | right; left; exact L | right; right; exact L].
  intros x y Hx Hy.
  destruct (IH x y x) as [A [B _]]; [apply (child_small o xs); assumption | apply (child_small o ys); assumption | apply (child_small o xs); assumption
                                    | apply Hcx; exact Hx | apply Hcy; exact Hy | apply Hcx; exact Hx | split; assumption].
Qed.

Lemma node_trans o xs ys zs : size (mk o xs) <= S m -> size (mk o ys) <= S m -> size (mk o zs) <= S m ->
  canonical (mk o xs) -> canonical (mk o ys) -> canonical (mk o zs) -> trans_ok (mk o xs) (mk o ys) (mk o zs).
Proof.
  intros Sx Sy Sz Cx Cy Cz. unfold trans_ok. rewrite !expr_ltb_mk.
  destruct (canonical_node_inv o xs Cx) as [_ [_ [_ [Hcx _]]]]. destruct (canonical_node_inv o ys Cy) as [_ [_ [_ [Hcy _]]]].
  destruct (canonical_node_inv o zs Cz) as [_ [_ [_ [Hcz _]]]]. rewrite Forall_forall in Hcx, Hcy, Hcz.
  assert (Hsmall : forall x, In x xs \/ In x ys \/ In x zs -> size x <= m /\ canonical x).
  { intros x [H|[H|H]]; [split; [apply (child_small o xs); assumption | apply Hcx; exact H]
                         | split; [apply (child_small o ys); assumption | apply Hcy; exact H]
                         | split; [apply (child_small o zs); assumption | apply Hcz; exact H]]. }
  apply lex_trans.
  - intros x y Hx Hy. destruct (Hsmall x Hx) as [A1 A2]. destruct (Hsmall y Hy) as [B1 B2].
    destruct (IH x y x A1 B1 A1 A2 B2 A2) as [E _]. exact E.
  - intros x y z Hx Hy Hz. destruct (Hsmall x (or_introl Hx)) as [A1 A2]. destruct (Hsmall y (or_intror (or_introl Hy))) as [B1 B2].
    destruct (Hsmall z (or_intror (or_intror Hz))) as [C1 C2]. destruct (IH x y z A1 B1 C1 A2 B2 C2) as [_ [_ C]]. exact C.
Qed.

End SameKind.

Theorem canon_order : forall m a b c, size a <= m -> size b <= m -> size c <= m -> canonical a -> canonical b -> canonical c ->
  eq_ok a b /\ tri_ok a b /\ trans_ok a b c.
Proof.
  induction m as [|m IH]; intros a b c Sa Sb Sc Ca Cb Cc.
  - destruct a; cbn in Sa; lia.
  - assert (Mk : forall e, (exists x, e = Lit x) \/ (exists o xs, e = mk o xs)).
    { intros [x|xs|xs]; [left; eexists; reflexivity | right; exists OpAnd, xs; reflexivity | right; exists OpOr, xs; reflexivity]. }
    split; [|split].
    + (* == is identity *)
      destruct (Mk a) as [[x ->]|[o [xs ->]]]; destruct (Mk b) as [[y ->]|[o' [ys ->]]].
      * intro E. cbn in E. apply atom_eqb_eq in E. subst; reflexivity.
      * intro E. destruct o'; discriminate.
      * intro E. destruct o; discriminate.
      * destruct o, o'; try (intro E; discriminate); apply (node_eq m IH); assumption.
    + destruct (Mk a) as [[x ->]|[o [xs ->]]]; destruct (Mk b) as [[y ->]|[o' [ys ->]]].
      * unfold tri_ok. cbn [expr_ltb]. destruct (atom_eqb x y) eqn:E; [apply atom_eqb_eq in E; subst; left; reflexivity|].
        assert (x <> y) by (intro; subst; rewrite atom_eqb_refl in E; discriminate).
        destruct (atom_ltb_total x y H) as [L|L]; [right; left; exact L | right; right; exact L].
      * right. left. destruct o'; reflexivity.
      * right. right. destruct o; reflexivity.
      * destruct o, o'; [apply (node_tri m IH); assumption | right; left; reflexivity | right; right; reflexivity | apply (node_tri m IH); assumption].
    + destruct (Mk a) as [[x ->]|[o [xs ->]]]; destruct (Mk b) as [[y ->]|[o' [ys ->]]]; destruct (Mk c) as [[z ->]|[o'' [zs ->]]].
      * unfold trans_ok. cbn [expr_ltb]. apply atom_ltb_trans.
      * intros _ _. destruct o''; reflexivity.
      * intros _ L. destruct o'; discriminate.
      * intros _ _. destruct o''; reflexivity.
      * intros L _. destruct o; discriminate.
      * intros L _. destruct o; discriminate.
      * intros _ L. destruct o'; discriminate.
      * destruct o, o', o''; try (intros L1 L2; cbn in L1, L2; discriminate); try (intros _ _; reflexivity);
          apply (node_trans m IH); assumption.
Qed.

Corollary canon_eq a b : canonical a -> canonical b -> expr_eqb a b = true -> a = b.
Proof. intros Ca Cb. apply (canon_order (size a + size b) a b a); try lia; assumption. Qed.
Corollary canon_tri a b : canonical a -> canonical b -> a = b \/ expr_ltb a b = true \/ expr_ltb b a = true.
Proof. intros Ca Cb. apply (canon_order (size a + size b) a b a); try lia; assumption. Qed.
Corollary canon_trans a b c : canonical a -> canonical b -> canonical c ->
  expr_ltb a b = true -> expr_ltb b c = true -> expr_ltb a c = true.
Proof. intros Ca Cb Cc. apply (canon_order (size a + size b + size c) a b c); try lia; assumption. Qed.

(* ---- Stage 2: list.sort() on canonical operands ---- *)
Lemma insert_sorted_in x : forall l y, In y (insert_sorted x l) <-> y = x \/ In y l.
Proof.
  induction l as [|z l IH]; intro y; cbn [insert_sorted]; [cbn; intuition|].
  destruct (expr_ltb x z).
  - cbn [In]. intuition.
  - cbn [In]. rewrite IH. intuition.
Qed.

Lemma sort_fold_in : forall xs acc y, In y (fold_left (fun acc x => insert_sorted x acc) xs acc) <-> In y acc \/ In y xs.
Proof.
  induction xs as [|x xs IH]; intros acc y; cbn [fold_left]; [cbn; intuition|].
  rewrite IH, insert_sorted_in. cbn [In]. intuition.
Qed.

Lemma sort_in xs y : In y (sort_args xs) <-> In y xs.
Proof. unfold sort_args. rewrite sort_fold_in. cbn. intuition. Qed.

Lemma sort_ssorted xs : Forall canonical xs -> distinct xs -> ssorted expr_ltb (sort_args xs).
Proof.
  intros Hc Hd. rewrite Forall_forall in Hc.
  assert (Hc' : forall x, In x (sort_args xs) -> canonical x) by (intros x Hx; apply Hc; apply sort_in; exact Hx).
  apply ordered_ssorted.
  - intros x y Hx Hy. unfold tri_ok. apply canon_tri; apply Hc'; assumption.
  - intros x y z Hx Hy Hz. unfold trans_ok. apply canon_trans; apply Hc'; assumption.
  - apply sort_distinct; exact Hd.
  - apply sort_ordered.
Qed.

(* the sorted list depends only on the members *)
Theorem sort_unique xs ys : Forall canonical xs -> Forall canonical ys -> distinct xs -> distinct ys ->
  (forall x, In x xs <-> In x ys) -> sort_args xs = sort_args ys.
Proof.
  intros Cx Cy Dx Dy Hm. apply (ssorted_unique expr expr_ltb).
  - intros x _. apply expr_ltb_irrefl.
  - intros x y _ _. apply expr_ltb_asym.
  - apply sort_ssorted; assumption.
  - apply sort_ssorted; assumption.
  - intro x. rewrite !sort_in. apply Hm.
Qed.

(* a strictly sorted list is left as it is *)
Lemma insert_last x : forall l, (forall y, In y l -> expr_ltb x y = false) -> insert_sorted x l = l ++ [x].
Proof.
  induction l as [|z l IH]; intro H; [reflexivity|]. cbn [insert_sorted]. rewrite (H z (or_introl eq_refl)).
  cbn [app]. f_equal. apply IH. intros y Hy. apply H. right; exact Hy.
Qed.

Lemma sort_fold_sorted : forall xs acc, ssorted expr_ltb (acc ++ xs) ->
  fold_left (fun acc x => insert_sorted x acc) xs acc = acc ++ xs.
Proof.
  induction xs as [|x xs IH]; intros acc H; cbn [fold_left]; [rewrite app_nil_r; reflexivity|].
  rewrite insert_last.
  - rewrite IH; rewrite <- app_assoc; [reflexivity | exact H].
  - intros y Hy. apply expr_ltb_asym.
    clear IH. induction acc as [|a acc IHa]; [destruct Hy|]. cbn [app ssorted] in H. destruct H as [Ha Hs].
    destruct Hy as [<-|Hy]; [apply Ha; apply in_or_app; right; left; reflexivity | apply IHa; assumption].
Qed.

Theorem sort_sorted_id xs : ssorted expr_ltb xs -> sort_args xs = xs.
Proof. intro H. unfold sort_args. apply (sort_fold_sorted xs []). exact H. Qed.

(* ---- Stage 3: what absorption leaves ---- *)
Lemma eqb_iff_eq a b : canonical a -> canonical b -> (expr_eqb a b = true <-> a = b).
Proof. intros Ca Cb. split; [apply canon_eq; assumption | intros ->; apply expr_eqb_refl]. Qed.

Lemma existsb_eqb_in (ts : list expr) a : Forall canonical ts -> canonical a ->
  (existsb (fun y => expr_eqb y a) ts = true <-> In a ts).
Proof.
  intros Ht Ca. rewrite Forall_forall in Ht. rewrite existsb_exists. split.
  - intros [y [Hy E]]. apply (eqb_iff_eq y a (Ht y Hy) Ca) in E. subst y. exact Hy.
  - intro H. exists a. split; [exact H | apply expr_eqb_refl].
Qed.

Lemma is_op_mk o e : is_op o e = true -> exists xs, e = mk o xs.
Proof. destruct o, e; cbn; try discriminate; intros _; eexists; reflexivity. Qed.

Lemma is_op_mk_same o xs : is_op o (mk o xs) = true. Proof. destruct o; reflexivity. Qed.
Lemma is_op_mk_dual o xs : is_op o (mk (dual o) xs) = false. Proof. destruct o; reflexivity. Qed.

(* x in (d-node ts), for canonical operands *)
Lemma in_expr_node d ts a : Forall canonical ts -> canonical a ->
  (in_expr a (mk d ts) = true <-> In a ts \/ exists xs, a = mk d xs /\ incl xs ts).
Proof.
  intros Ht Ca.
  assert (Hsub : forall xs, Forall canonical xs ->
            (forallb (fun x => existsb (fun y => expr_eqb y x) ts) xs = true <-> incl xs ts)).
  { intros xs Hx. rewrite Forall_forall in Hx. rewrite forallb_forall. split.
    - intros H x Hin. apply (existsb_eqb_in ts x Ht (Hx x Hin)). apply H; exact Hin.
    - intros H x Hin. apply (existsb_eqb_in ts x Ht (Hx x Hin)). apply H; exact Hin. }
  destruct d; cbn [mk in_expr]; rewrite orb_true_iff, (existsb_eqb_in ts a Ht Ca).
  - split.
    + intros [H|H]; [left; exact H|]. destruct a as [x|xs|xs]; try discriminate. right. exists xs. split; [reflexivity|].
      apply Hsub; [inversion Ca; assumption | exact H].
    + intros [H|[xs [-> H]]]; [left; exact H | right]. cbn [mk]. apply Hsub; [inversion Ca; assumption | exact H].
  - split.
    + intros [H|H]; [left; exact H|]. destruct a as [x|xs|xs]; try discriminate. right. exists xs. split; [reflexivity|].
      apply Hsub; [inversion Ca; assumption | exact H].
    + intros [H|[xs [-> H]]]; [left; exact H | right]. cbn [mk]. apply Hsub; [inversion Ca; assumption | exact H].
Qed.

Definition abs (o : bop) (a t : expr) : Prop := absorbed_by o a t = true.

Lemma abs_iff o a t : canonical a -> canonical t ->
  (abs o a t <-> exists ts, t = mk (dual o) ts /\ (In a ts \/ exists xs, a = mk (dual o) xs /\ incl xs ts)).
Proof.
  intros Ca Ct. unfold abs, absorbed_by. rewrite andb_true_iff. split.
  - intros [Hop Hin]. destruct (is_op_mk _ _ Hop) as [ts ->]. exists ts. split; [reflexivity|].
    destruct (canonical_node_inv _ ts Ct) as [_ [_ [_ [Hts _]]]]. apply (in_expr_node (dual o) ts a Hts Ca). exact Hin.
  - intros [ts [-> H]]. split; [apply is_op_mk_same|].
    destruct (canonical_node_inv _ ts Ct) as [_ [_ [_ [Hts _]]]]. apply (in_expr_node (dual o) ts a Hts Ca). exact H.
Qed.

Lemma mk_inj o xs ys : mk o xs = mk o ys -> xs = ys.
Proof. destruct o; intro H; inversion H; reflexivity. Qed.

Lemma node_not_own_arg d ts : canonical (mk d ts) -> forall xs, ~ In (mk d xs) ts.
Proof.
  intros Ct xs Hin. destruct (canonical_node_inv d ts Ct) as [_ [_ [_ [_ Hno]]]]. rewrite Forall_forall in Hno.
  specialize (Hno _ Hin). rewrite is_op_mk_same in Hno. discriminate.
Qed.

Lemma abs_trans o b a t : canonical b -> canonical a -> canonical t -> abs o b a -> abs o a t -> abs o b t.
Proof.
  intros Cb Ca Ct Hba Hat.
  apply (abs_iff o b a Cb Ca) in Hba as [as_ [-> Hb]]. apply (abs_iff o _ t Ca Ct) in Hat as [ts [-> Ha]].
  apply (abs_iff o b _ Cb Ct). exists ts. split; [reflexivity|].
  destruct Ha as [Ha|[xs [E Ha]]]; [exfalso; apply (node_not_own_arg _ ts Ct as_ Ha)|]. apply mk_inj in E. subst xs.
  destruct Hb as [Hb|[bs [-> Hb]]]; [left; apply Ha; exact Hb | right; exists bs; split; [reflexivity|]; intros x Hx; apply Ha, Hb, Hx].
Qed.

Lemma abs_antisym o a t : canonical a -> canonical t -> abs o a t -> abs o t a -> a = t.
Proof.
  intros Ca Ct Hat Hta.
  apply (abs_iff o a t Ca Ct) in Hat as [ts [-> Ha]]. apply (abs_iff o _ a Ct Ca) in Hta as [as_ [-> Ht]].
  destruct Ha as [Ha|[xs [E Ha]]]; [exfalso; apply (node_not_own_arg _ ts Ct as_ Ha)|]. apply mk_inj in E. subst xs.
  destruct Ht as [Ht|[xs [E Ht]]]; [exfalso; apply (node_not_own_arg _ as_ Ca ts Ht)|]. apply mk_inj in E. subst xs.
  apply canon_eq; [exact Ca | exact Ct|]. rewrite expr_eqb_mk. apply andb_true_iff. split.
  - apply sub_eqb_spec. intros x Hx. exists x. split; [apply Ha; exact Hx | apply expr_eqb_refl].
  - apply sup_eqb_spec. intros y Hy. exists y. split; [apply Ht; exact Hy | apply expr_eqb_refl].
Qed.

Lemma distinct_NoDup l : distinct l -> NoDup l.
Proof.
  induction 1 as [|x l Hx _ IH]; constructor; [|exact IH]. intro Hin. specialize (Hx x Hin). rewrite expr_eqb_refl in Hx. discriminate.
Qed.

Section AbsorbLoop.
Variable o : bop.
Variable L0 : list expr.
Hypothesis L0_canon : forall x, In x L0 -> canonical x.

(* the elements that no other element absorbs *)
Definition unabsorbed (t : expr) : Prop := In t L0 /\ forall a, In a L0 -> a <> t -> ~ abs o a t.

Definition inv (done todo : list expr) : Prop :=
  NoDup (done ++ todo) /\ incl (done ++ todo) L0 /\
  (forall d x, In d done -> In x (done ++ todo) -> x <> d -> ~ abs o d x) /\
  (forall r, In r L0 -> ~ In r (done ++ todo) -> exists d, In d done /\ d <> r /\ abs o d r).

Lemma in_or_not (l : list expr) a : Forall canonical l -> canonical a -> In a l \/ ~ In a l.
Proof.
  intros Hl Ca. destruct (existsb (fun y => expr_eqb y a) l) eqn:E.
  - left. apply (existsb_eqb_in l a Hl Ca). exact E.
  - right. intro H. apply (existsb_eqb_in l a Hl Ca) in H. congruence.
Qed.

Lemma inv_final done t : inv done [] -> (In t done <-> unabsorbed t).
Proof.
  unfold inv. rewrite app_nil_r. intros [Hnd [Hin [H1 H2]]].
  assert (Hdc : Forall canonical done) by (apply Forall_forall; intros x Hx; apply L0_canon, Hin, Hx).
  split.
  - intro Ht. split; [apply Hin; exact Ht|]. intros a Ha Hne Habs.
    destruct (in_or_not done a Hdc (L0_canon a Ha)) as [Had|Had].
    + apply (H1 a t Had Ht); [intro E; apply Hne; symmetry; exact E | exact Habs].
    + destruct (H2 a Ha Had) as [d [Hd [Hda Habs']]].
      assert (Cd : canonical d) by (apply L0_canon, Hin, Hd).
      assert (Hdt : abs o d t) by (apply (abs_trans o d a t Cd (L0_canon a Ha) (L0_canon t (Hin t Ht)) Habs' Habs)).
      assert (Hne' : t <> d).
      { intro E. subst d. apply Hne. apply (abs_antisym o a t (L0_canon a Ha) Cd Habs Habs'). }
      apply (H1 d t Hd Ht Hne' Hdt).
  - intros [Ht Hun]. destruct (in_or_not done t Hdc (L0_canon t Ht)) as [H|H]; [exact H|]. exfalso.
    destruct (H2 t Ht H) as [d [Hd [Hne Habs]]]. apply (Hun d (Hin d Hd) Hne Habs).
Qed.

Lemma NoDup_app_inv' {A} : forall (l1 l2 : list A), NoDup (l1 ++ l2) ->
  NoDup l1 /\ NoDup l2 /\ (forall x, In x l1 -> In x l2 -> False).
Proof.
  induction l1 as [|a l1 IH]; intros l2 H; [split; [constructor | split; [exact H | intros x []]]|].
  cbn in H. inversion H as [|? ? Hna Hnd]; subst. destruct (IH l2 Hnd) as [N1 [N2 D]]. split; [|split; [exact N2|]].
  - constructor; [intro Hin; apply Hna; apply in_or_app; left; exact Hin | exact N1].
  - intros x [<-|Hx] Hy; [apply Hna; apply in_or_app; right; exact Hy | apply (D x Hx Hy)].
Qed.

Lemma NoDup_app_intro' {A} : forall (l1 l2 : list A), NoDup l1 -> NoDup l2 -> (forall x, In x l1 -> In x l2 -> False) -> NoDup (l1 ++ l2).
Proof.
  induction l1 as [|a l1 IH]; intros l2 N1 N2 D; [exact N2|]. inversion N1 as [|? ? Hna Hnd]; subst. cbn. constructor.
  - intro Hin. apply in_app_or in Hin as [Hin|Hin]; [apply Hna; exact Hin | apply (D a (or_introl eq_refl) Hin)].
  - apply IH; [exact Hnd | exact N2 | intros x Hx Hy; apply (D x (or_intror Hx) Hy)].
Qed.

Lemma filter_nodup {A} (f : A -> bool) l : NoDup l -> NoDup (filter f l).
Proof. induction 1 as [|x l Hx _ IH]; cbn; [constructor|]. destruct (f x); [constructor; [intro H; apply filter_In in H; tauto | exact IH] | exact IH]. Qed.

Lemma inv_step done a rest :
  inv done (a :: rest) ->
  let keep := fun t => negb (absorbed_by o a t) in
  inv (filter keep done ++ [a]) (filter keep rest).
Proof.
  intros [Hnd [Hin [H1 H2]]] keep.
  assert (Ha0 : In a L0) by (apply Hin; apply in_or_app; right; left; reflexivity).
  assert (Hnd' := Hnd). apply NoDup_remove in Hnd' as [Hnd1 Hna].
  assert (Hkeep : forall x, keep x = true <-> ~ abs o a x).
  { intro x. unfold keep, abs. destruct (absorbed_by o a x); cbn; split; intro H; try reflexivity; try discriminate; try (intro; discriminate). exfalso; apply H; reflexivity. }
  assert (Hsub : forall x, In x ((filter keep done ++ [a]) ++ filter keep rest) -> In x (done ++ a :: rest)).
  { intros x Hx. rewrite <- app_assoc in Hx. apply in_app_or in Hx as [Hx|[<-|Hx]].
    - apply filter_In in Hx as [Hx _]. apply in_or_app. left; exact Hx.
    - apply in_or_app. right. left. reflexivity.
    - apply filter_In in Hx as [Hx _]. apply in_or_app. right. right. exact Hx. }
  split; [|split; [|split]].
  - destruct (NoDup_app_inv' done rest Hnd1) as [Nd [Nr Dj]].
    rewrite <- app_assoc. cbn [app]. apply NoDup_app_intro'.
    + apply filter_nodup. exact Nd.
    + constructor; [intro H; apply filter_In in H as [H _]; apply Hna; apply in_or_app; right; exact H|].
      apply filter_nodup. exact Nr.
    + intros x Hx [<-|Hy].
      * apply filter_In in Hx as [Hx _]. apply Hna. apply in_or_app. left; exact Hx.
      * apply filter_In in Hx as [Hx _]. apply filter_In in Hy as [Hy _]. apply (Dj x Hx Hy).
  - intros x Hx. apply Hin. apply Hsub. exact Hx.
  - intros d x Hd Hx Hne Habs. apply in_app_or in Hd as [Hd|[<-|[]]].
    + apply filter_In in Hd as [Hd _]. apply (H1 d x Hd (Hsub x Hx) Hne Habs).
    + rewrite <- app_assoc in Hx. apply in_app_or in Hx as [Hx|[E|Hx]].
      * apply filter_In in Hx as [_ Hk]. apply (Hkeep x) in Hk. apply Hk. exact Habs.
      * apply Hne. symmetry. exact E.
      * apply filter_In in Hx as [_ Hk]. apply (Hkeep x) in Hk. apply Hk. exact Habs.
  - intros r Hr Hnot.
    assert (Ca : canonical a) by (apply L0_canon; exact Ha0).
    assert (Hra : r <> a) by (intro E; subst r; apply Hnot; apply in_or_app; left; apply in_or_app; right; left; reflexivity).
    assert (Hwit : abs o a r -> exists d, In d (filter keep done ++ [a]) /\ d <> r /\ abs o d r).
    { intro Habs. exists a. split; [apply in_or_app; right; left; reflexivity|]. split; [intro E; apply Hra; symmetry; exact E | exact Habs]. }
    assert (Hdone : Forall canonical (done ++ a :: rest)) by (apply Forall_forall; intros x Hx; apply L0_canon, Hin, Hx).
    destruct (in_or_not (done ++ a :: rest) r Hdone (L0_canon r Hr)) as [Hold|Hold].
    + (* removed at this step: a absorbs it *)
      apply Hwit. destruct (absorbed_by o a r) eqn:E; [exact E|]. exfalso. apply Hnot.
      assert (Hk : keep r = true) by (unfold keep; rewrite E; reflexivity).
      apply in_app_or in Hold as [Hold|[E2|Hold]].
      * apply in_or_app. left. apply in_or_app. left. apply filter_In. split; assumption.
      * exfalso. apply Hra. symmetry. exact E2.
      * apply in_or_app. right. apply filter_In. split; assumption.
    + destruct (H2 r Hr Hold) as [d [Hd [Hne Habs]]].
      destruct (absorbed_by o a d) eqn:E.
      * (* its absorber is removed now: a absorbs it too *)
        apply Hwit. apply (abs_trans o a d r Ca (L0_canon d (Hin d (in_or_app _ _ _ (or_introl Hd)))) (L0_canon r Hr)); [exact E | exact Habs].
      * exists d. split; [apply in_or_app; left; apply filter_In; split; [exact Hd | unfold keep; rewrite E; reflexivity]|]. split; assumption.
Qed.

Lemma absorb_loop_spec : forall fuel done todo, length todo <= fuel -> inv done todo ->
  forall t, In t (absorb_loop fuel o done todo) <-> unabsorbed t.
Proof.
  induction fuel as [|f IH]; intros done todo Hl Hinv t.
  - destruct todo; [|cbn in Hl; lia]. cbn [absorb_loop]. rewrite app_nil_r. apply inv_final; exact Hinv.
  - cbn [absorb_loop]. destruct todo as [|a rest]; [apply inv_final; exact Hinv|].
    apply IH; [|apply inv_step; exact Hinv]. cbn in Hl. pose proof (filter_len_le (fun t0 => negb (absorbed_by o a t0)) rest). lia.
Qed.

Lemma absorb_loop_final : forall fuel done todo, length todo <= fuel -> inv done todo -> inv (absorb_loop fuel o done todo) [].
Proof.
  induction fuel as [|f IH]; intros done todo Hl Hinv.
  - destruct todo; [|cbn in Hl; lia]. cbn [absorb_loop]. rewrite app_nil_r. exact Hinv.
  - cbn [absorb_loop]. destruct todo as [|a rest]; [exact Hinv|].
    apply IH; [|apply inv_step; exact Hinv]. cbn in Hl. pose proof (filter_len_le (fun t0 => negb (absorbed_by o a t0)) rest). lia.
Qed.

End AbsorbLoop.

(* an operand that absorption removes is absorbed by one that it leaves *)
Theorem absorb_dropped o xs r : Forall canonical xs -> distinct xs -> In r xs -> ~ In r (absorb o xs) ->
  exists d, In d (absorb o xs) /\ d <> r /\ abs o d r.
Proof.
  intros Hc Hd Hr Hn. rewrite Forall_forall in Hc. unfold absorb in *.
  assert (Hinv : inv o xs [] xs).
  { split; [cbn; apply distinct_NoDup; exact Hd|]. split; [cbn; apply incl_refl|]. split; [intros d x []|].
    intros r0 Hr0 Hn0. exfalso. apply Hn0. exact Hr0. }
  destruct (absorb_loop_final o xs Hc (length xs) [] xs (le_n _) Hinv) as [_ [_ [_ H2]]].
  rewrite app_nil_r in H2. apply (H2 r Hr Hn).
Qed.

Theorem absorb_spec o xs : Forall canonical xs -> distinct xs ->
  forall t, In t (absorb o xs) <-> (In t xs /\ forall a, In a xs -> a <> t -> ~ abs o a t).
Proof.
  intros Hc Hd t. rewrite Forall_forall in Hc. unfold absorb.
  apply (absorb_loop_spec o xs Hc (length xs) [] xs (le_n _)).
  split; [cbn; apply distinct_NoDup; exact Hd|]. split; [cbn; apply incl_refl|]. split.
  - intros d x [].
  - intros r Hr Hn. exfalso. apply Hn. exact Hr.
Qed.

(* ---- Stage 4: one node depends only on the members of its flattened operands ---- *)
Lemma dedupe_acc_in : forall xs acc, Forall canonical (acc ++ xs) ->
  forall x, In x (dedupe_acc acc xs) <-> In x acc \/ In x xs.
Proof.
  induction xs as [|y xs IH]; intros acc Hc x; cbn [dedupe_acc]; [cbn; intuition|].
  assert (Cacc : Forall canonical acc) by (apply Forall_app in Hc as [H _]; exact H).
  assert (Cy : canonical y) by (apply Forall_app in Hc as [_ H]; inversion H; assumption).
  assert (Cxs : Forall canonical xs) by (apply Forall_app in Hc as [_ H]; inversion H; assumption).
  destruct (existsb (fun z => expr_eqb z y) acc) eqn:E.
  - rewrite IH by (apply Forall_app; split; assumption). apply (existsb_eqb_in acc y Cacc Cy) in E. cbn [In]. split.
    + intros [H|H]; [left; exact H | right; right; exact H].
    + intros [H|[<-|H]]; [left; exact H | left; exact E | right; exact H].
  - rewrite IH by (rewrite <- app_assoc; cbn [app]; exact Hc). rewrite in_app_iff. cbn [In]. intuition.
Qed.

Lemma dedupe_in xs : Forall canonical xs -> forall x, In x (dedupe xs) <-> In x xs.
Proof. intros H x. unfold dedupe. rewrite (dedupe_acc_in xs [] H). cbn. intuition. Qed.

Lemma nodup_single {A} (l : list A) x : NoDup l -> (forall y, In y l <-> y = x) -> l = [x].
Proof.
  intros Hn Hm. destruct l as [|a [|b l]].
  - exfalso. apply (proj2 (Hm x) eq_refl).
  - f_equal. apply Hm. left; reflexivity.
  - exfalso. assert (a = x) by (apply Hm; left; reflexivity). assert (b = x) by (apply Hm; right; left; reflexivity). subst.
    inversion Hn as [|? ? Hna _]; subst. apply Hna. left; reflexivity.
Qed.

Lemma nodup_same_length {A} (l l' : list A) : NoDup l -> NoDup l' -> (forall x, In x l <-> In x l') -> length l = length l'.
Proof.
  intros N N' H. apply Nat.le_antisymm; apply NoDup_incl_length; try assumption; intros x Hx; apply H; exact Hx.
Qed.

(* the last steps of one node, on two operand lists with the same members *)
Lemma sorted_node_ext o a2 a2' : Forall canonical a2 -> Forall canonical a2' -> distinct a2 -> distinct a2' ->
  (forall x, In x a2 <-> In x a2') ->
  match a2 with [] => mk o (sort_args []) | [x] => x | x :: e :: l0 => mk o (sort_args (x :: e :: l0)) end =
  match a2' with [] => mk o (sort_args []) | [x] => x | x :: e :: l0 => mk o (sort_args (x :: e :: l0)) end.
Proof.
  intros C C' D D' Hm. pose proof (nodup_same_length a2 a2' (distinct_NoDup _ D) (distinct_NoDup _ D') Hm) as Hl.
  pose proof (sort_unique a2 a2' C C' D D' Hm) as Hs.
  destruct a2 as [|x [|y l]]; destruct a2' as [|x' [|y' l']]; try discriminate; try reflexivity.
  - assert (In x [x']) by (apply Hm; left; reflexivity). destruct H as [<-|[]]. reflexivity.
  - rewrite Hs. reflexivity.
Qed.

Section NodeM.
Variable o : bop.

(* members left by absorption, as a predicate on a list *)
Definition unabs (l : list expr) (t : expr) : Prop := In t l /\ forall a, In a l -> a <> t -> ~ abs o a t.

Lemma absorb_members l : Forall canonical l -> distinct l -> forall t, In t (absorb o l) <-> unabs l t.
Proof. intros C D t. apply (absorb_spec o l C D t). Qed.

(* dropping operands that a remaining operand absorbs does not change what absorption leaves *)
Lemma unabs_shrink (S S' : list expr) : Forall canonical S ->
  incl S' S -> (forall r, In r S -> ~ In r S' -> exists d, In d S' /\ d <> r /\ abs o d r) ->
  forall t, unabs S t <-> unabs S' t.
Proof.
  intros C Hsub Hdrop t. rewrite Forall_forall in C.
  assert (C' : Forall canonical S') by (apply Forall_forall; intros x Hx; apply C, Hsub, Hx).
  split.
  - intros [Ht Hun]. split.
    + destruct (in_or_not S' t C' (C t Ht)) as [H|H]; [exact H|]. exfalso.
      destruct (Hdrop t Ht H) as [d [Hd [Hne Habs]]]. apply (Hun d (Hsub d Hd) Hne Habs).
    + intros a Ha Hne. apply Hun; [apply Hsub; exact Ha | exact Hne].
  - intros [Ht Hun]. split; [apply Hsub; exact Ht|]. intros a Ha Hne Habs.
    destruct (in_or_not S' a C' (C a Ha)) as [H|H]; [apply (Hun a H Hne Habs)|].
    destruct (Hdrop a Ha H) as [d [Hd [Hne' Habs']]].
    assert (Hdt : abs o d t) by (apply (abs_trans o d a t (C d (Hsub d Hd)) (C a Ha) (C t (Hsub t Ht)) Habs' Habs)).
    assert (d <> t).
    { intro E. subst d. apply Hne. apply (abs_antisym o a t (C a Ha) (C t (Hsub t Ht)) Habs Habs'). }
    apply (Hun d Hd H0 Hdt).
Qed.

Theorem simp_node_shrink args args' : Forall canonical args -> Forall canonical args' ->
  incl (flatten o args') (flatten o args) ->
  (forall r, In r (flatten o args) -> ~ In r (flatten o args') -> exists d, In d (flatten o args') /\ d <> r /\ abs o d r) ->
  simp_node o args = simp_node o args'.
Proof.
  intros Ca Ca' Hsub Hdrop. unfold simp_node.
  set (S := flatten o args) in *. set (S' := flatten o args') in *.
  assert (GS : Forall (goodarg o) S) by (apply flatten_good; exact Ca).
  assert (GS' : Forall (goodarg o) S') by (apply flatten_good; exact Ca').
  assert (CS : Forall canonical S) by (apply Forall_forall; intros x Hx; rewrite Forall_forall in GS; apply GS; exact Hx).
  assert (CS' : Forall canonical S') by (apply Forall_forall; intros x Hx; rewrite Forall_forall in GS'; apply GS'; exact Hx).
  assert (Md : forall x, In x (dedupe S) <-> In x S) by (apply dedupe_in; exact CS).
  assert (Md' : forall x, In x (dedupe S') <-> In x S') by (apply dedupe_in; exact CS').
  pose proof (dedupe_distinct S) as Dd. pose proof (dedupe_distinct S') as Dd'.
  remember (dedupe S) as d eqn:Ed0. remember (dedupe S') as d' eqn:Ed0'. clear Ed0 Ed0'.
  assert (Cd : Forall canonical d) by (apply Forall_forall; intros x Hx; rewrite Forall_forall in CS; apply CS, Md, Hx).
  assert (Cd' : Forall canonical d') by (apply Forall_forall; intros x Hx; rewrite Forall_forall in CS'; apply CS', Md', Hx).
  (* what absorption leaves has the same members on both sides *)
  assert (HM : forall t, In t (absorb o d) <-> In t (absorb o d')).
  { intro t. rewrite (absorb_members d Cd Dd), (absorb_members d' Cd' Dd').
    assert (E1 : unabs d t <-> unabs S t).
    { unfold unabs. split; intros [A B]; (split; [apply Md; exact A | intros a Ha; apply B; apply Md; exact Ha]). }
    assert (E2 : unabs d' t <-> unabs S' t).
    { unfold unabs. split; intros [A B]; (split; [apply Md'; exact A | intros a Ha; apply B; apply Md'; exact Ha]). }
    rewrite E1, E2. apply (unabs_shrink S S' CS Hsub Hdrop). }
  assert (Ca2 : Forall canonical (absorb o d)) by (apply (Forall_incl _ _ _ (absorb_incl o d) Cd)).
  assert (Ca2' : Forall canonical (absorb o d')) by (apply (Forall_incl _ _ _ (absorb_incl o d') Cd')).
  pose proof (sorted_node_ext o (absorb o d) (absorb o d') Ca2 Ca2' (absorb_distinct o d Dd) (absorb_distinct o d' Dd') HM) as Hfin.
  (* a single operand is returned as it is: absorb o [x] computes to [x] *)
  destruct d as [|x [|y l]]; destruct d' as [|x' [|y' l']]; exact Hfin.
Qed.

(* in particular: same members, same result *)
Corollary simp_node_ext args args' : Forall canonical args -> Forall canonical args' ->
  (forall x, In x (flatten o args) <-> In x (flatten o args')) -> simp_node o args = simp_node o args'.
Proof.
  intros C C' H. apply simp_node_shrink; [exact C | exact C' | intros x Hx; apply H; exact Hx|].
  intros r Hr Hn. exfalso. apply Hn. apply H. exact Hr.
Qed.

End NodeM.

(* ---- Stage 6: the rewrites ---- *)
Lemma wf_mk o xs : wf (mk o xs) = true <-> 2 <= length xs /\ forall x, In x xs -> wf x = true.
Proof.
  destruct o; cbn [mk wf]; rewrite andb_true_iff, Nat.leb_le, forallb_forall; reflexivity.
Qed.

Lemma simplify_mk o xs : simplify (mk o xs) = simp_node o (map simplify xs).
Proof. destruct o; reflexivity. Qed.

Lemma children_canonical xs : (forall x, In x xs -> wf x = true) -> Forall canonical (map simplify xs).
Proof. intro H. apply Forall_forall. intros y Hy. apply in_map_iff in Hy as [x [<- Hx]]. apply simplify_canonical. apply H; exact Hx. Qed.

Definition flat1 (o : bop) (x : expr) : list expr := if is_op o x then args_of x else [x].

Lemma flatten_in o xs y : In y (flatten o xs) <-> exists x, In x xs /\ In y (flat1 o x).
Proof. unfold flatten. rewrite in_flat_map. reflexivity. Qed.

Lemma flatten_app o xs ys : flatten o (xs ++ ys) = flatten o xs ++ flatten o ys.
Proof. unfold flatten. apply flat_map_app. Qed.

(* reordering, repeating, dropping repeats: the same operands *)
Theorem simplify_same_operands o xs ys : wf (mk o xs) = true -> wf (mk o ys) = true ->
  (forall x, In x xs <-> In x ys) -> simplify (mk o xs) = simplify (mk o ys).
Proof.
  intros Wx Wy Hm. rewrite !simplify_mk. apply wf_mk in Wx as [_ Wx]. apply wf_mk in Wy as [_ Wy].
  apply simp_node_ext; [apply children_canonical; exact Wx | apply children_canonical; exact Wy|].
  intro y. rewrite !flatten_in. split; intros [x [Hx Hy]]; apply in_map_iff in Hx as [x0 [<- Hx0]];
    exists (simplify x0); (split; [apply in_map; apply Hm; exact Hx0 | exact Hy]).
Qed.

(* what one node looks like from the outside *)
Lemma simp_node_members o Y : Forall canonical Y ->
  let n := simp_node o Y in let F := flatten o Y in
  incl (flatten o [n]) F /\
  (forall r, In r F -> ~ In r (flatten o [n]) -> exists d, In d (flatten o [n]) /\ d <> r /\ abs o d r).
Proof.
  intros CY n F. unfold n, simp_node. fold F.
  assert (GF : Forall (goodarg o) F) by (apply flatten_good; exact CY).
  assert (CF : Forall canonical F) by (apply Forall_forall; intros x Hx; rewrite Forall_forall in GF; apply GF; exact Hx).
  assert (Md : forall x, In x (dedupe F) <-> In x F) by (apply dedupe_in; exact CF).
  pose proof (dedupe_distinct F) as Dd.
  assert (Cd : Forall canonical (dedupe F)) by (apply Forall_forall; intros x Hx; rewrite Forall_forall in CF; apply CF, Md, Hx).
  assert (Gd : forall x, In x (dedupe F) -> is_op o x = false) by (intros x Hx; rewrite Forall_forall in GF; apply GF, Md, Hx).
  assert (Fone : forall x, is_op o x = false -> flatten o [x] = [x]).
  { intros x Hx. unfold flatten. cbn [flat_map]. rewrite Hx. reflexivity. }
  assert (Fnode : forall l, flatten o [mk o l] = l).
  { intro l. unfold flatten. cbn [flat_map]. rewrite is_op_mk_same. rewrite app_nil_r. destruct o; reflexivity. }
  remember (dedupe F) as dd eqn:Edd. destruct dd as [|x [|y l]].
  - (* no operand at all *)
    change (absorb o []) with (@nil expr). cbv iota. rewrite Fnode. change (sort_args []) with (@nil expr).
    split; [intros z []|]. intros r Hr _. apply Md in Hr. destruct Hr.
  - (* one operand *)
    rewrite (Fone x (Gd x (or_introl eq_refl))). split.
    + intros z [<-|[]]. apply Md. left; reflexivity.
    + intros r Hr Hn. exfalso. apply Hn. apply Md in Hr. destruct Hr as [<-|[]]. left; reflexivity.
  - (* several: absorption, then sort *)
    set (dd := x :: y :: l) in *.
    assert (Ma : forall t, In t (absorb o dd) -> In t F) by (intros t Ht; apply Md; apply (absorb_incl o dd); exact Ht).
    assert (Drop : forall r, In r F -> ~ In r (absorb o dd) -> exists d, In d (absorb o dd) /\ d <> r /\ abs o d r).
    { intros r Hr Hn. apply (absorb_dropped o dd r Cd Dd); [apply Md; exact Hr | exact Hn]. }
    destruct (absorb o dd) as [|x2 [|y2 l2]] eqn:Ea.
    + rewrite Fnode. change (sort_args []) with (@nil expr). split; [intros z []|]. intros r Hr _. destruct (Drop r Hr (fun H => H)) as [d [[] _]].
    + assert (Hx2 : is_op o x2 = false) by (apply Gd; apply (absorb_incl o dd); rewrite Ea; left; reflexivity).
      rewrite (Fone x2 Hx2). split; [intros z [<-|[]]; apply Ma; left; reflexivity | exact Drop].
    + rewrite Fnode. split.
      * intros z Hz. apply (proj1 (sort_in _ z)) in Hz. apply Ma. exact Hz.
      * intros r Hr Hn. destruct (Drop r Hr) as [d [Hd R]]; [intro H; apply Hn; apply (proj2 (sort_in _ r)); exact H|].
        exists d. split; [apply (proj2 (sort_in _ d)); exact Hd | exact R].
Qed.

(* regrouping by associativity *)
Theorem simplify_group o l1 ys l2 : wf (mk o (l1 ++ ys ++ l2)) = true -> wf (mk o (l1 ++ [mk o ys] ++ l2)) = true ->
  simplify (mk o (l1 ++ ys ++ l2)) = simplify (mk o (l1 ++ [mk o ys] ++ l2)).
Proof.
  intros W1 W2. rewrite !simplify_mk. apply wf_mk in W1 as [_ W1]. apply wf_mk in W2 as [_ W2].
  rewrite !map_app. cbn [map]. rewrite simplify_mk.
  set (S1 := map simplify l1). set (S2 := map simplify l2). set (Y := map simplify ys).
  assert (C1 : Forall canonical S1) by (apply children_canonical; intros x Hx; apply W1; apply in_or_app; left; exact Hx).
  assert (C2 : Forall canonical S2) by (apply children_canonical; intros x Hx; apply W1; apply in_or_app; right; apply in_or_app; right; exact Hx).
  assert (CY : Forall canonical Y) by (apply children_canonical; intros x Hx; apply W1; apply in_or_app; right; apply in_or_app; left; exact Hx).
  assert (Cn : canonical (simp_node o Y)).
  { assert (H : canonical (simplify (mk o ys))) by (apply simplify_canonical; apply W2; apply in_or_app; right; left; reflexivity).
    rewrite simplify_mk in H. exact H. }
  destruct (simp_node_members o Y CY) as [Hin Hdrop].
  apply simp_node_shrink.
  - apply Forall_app; split; [exact C1 | apply Forall_app; split; [exact CY | exact C2]].
  - apply Forall_app; split; [exact C1 | apply Forall_app; split; [constructor; [exact Cn | constructor] | exact C2]].
  - rewrite !flatten_app. intros z Hz. apply in_app_or in Hz as [Hz|Hz]; [apply in_or_app; left; exact Hz|].
    apply in_or_app. right.
    apply in_app_or in Hz as [Hz|Hz]; apply in_or_app; [left; apply Hin; exact Hz | right; exact Hz].
  - rewrite !flatten_app.
    intros r Hr Hn. apply in_app_or in Hr as [Hr|Hr]; [exfalso; apply Hn; apply in_or_app; left; exact Hr|].
    apply in_app_or in Hr as [Hr|Hr]; [|exfalso; apply Hn; apply in_or_app; right; apply in_or_app; right; exact Hr].
    destruct (Hdrop r Hr) as [d [Hd R]]; [intro H; apply Hn; apply in_or_app; right; apply in_or_app; left; exact H|].
    exists d. split; [apply in_or_app; right; apply in_or_app; left; exact Hd | exact R].
Qed.

(* a node keeps a license among its operands, or collapses to it *)
Lemma simp_node_keeps_lit d args a : Forall canonical args -> In (Lit a) (flatten d args) ->
  simp_node d args = Lit a \/ exists ts, simp_node d args = mk d ts /\ In (Lit a) ts.
Proof.
  intros Ca Hin. unfold simp_node. set (F := flatten d args) in *.
  assert (GF : Forall (goodarg d) F) by (apply flatten_good; exact Ca).
  assert (CF : Forall canonical F) by (apply Forall_forall; intros x Hx; rewrite Forall_forall in GF; apply GF; exact Hx).
  assert (Md : forall x, In x (dedupe F) <-> In x F) by (apply dedupe_in; exact CF).
  pose proof (dedupe_distinct F) as Dd.
  assert (Cd : Forall canonical (dedupe F)) by (apply Forall_forall; intros x Hx; rewrite Forall_forall in CF; apply CF, Md, Hx).
  assert (Hdd : In (Lit a) (dedupe F)) by (apply Md; exact Hin).
  destruct (dedupe F) as [|x [|y l]] eqn:Edd; [destruct Hdd | destruct Hdd as [->|[]]; left; reflexivity |].
  assert (Ha2 : In (Lit a) (absorb d (x :: y :: l))).
  { apply (absorb_spec d (x :: y :: l) Cd Dd). split; [exact Hdd|]. intros b _ _ Habs. unfold abs, absorbed_by in Habs.
    destruct d; cbn in Habs; discriminate. }
  destruct (absorb d (x :: y :: l)) as [|x2 [|y2 l2]]; [destruct Ha2 | destruct Ha2 as [->|[]]; left; reflexivity |].
  right. exists (sort_args (x2 :: y2 :: l2)). split; [reflexivity | apply (proj2 (sort_in _ (Lit a))); exact Ha2].
Qed.

(* joining an operand that a license of the same node absorbs *)
Theorem simplify_absorbed o l1 l2 a ys : wf (mk o (l1 ++ l2)) = true -> wf (mk o (l1 ++ [mk (dual o) ys] ++ l2)) = true ->
  In (Lit a) (l1 ++ l2) -> In (Lit a) ys ->
  simplify (mk o (l1 ++ l2)) = simplify (mk o (l1 ++ [mk (dual o) ys] ++ l2)).
Proof.
  intros W1 W2 Ha Hay. rewrite !simplify_mk. apply wf_mk in W1 as [_ W1]. apply wf_mk in W2 as [_ W2].
  rewrite !map_app. cbn [map]. rewrite simplify_mk.
  set (S1 := map simplify l1). set (S2 := map simplify l2). set (Y := map simplify ys).
  assert (C1 : Forall canonical S1) by (apply children_canonical; intros x Hx; apply W1; apply in_or_app; left; exact Hx).
  assert (C2 : Forall canonical S2) by (apply children_canonical; intros x Hx; apply W1; apply in_or_app; right; exact Hx).
  assert (Wn : wf (mk (dual o) ys) = true) by (apply W2; apply in_or_app; right; left; reflexivity).
  assert (CY : Forall canonical Y) by (apply children_canonical; apply wf_mk in Wn as [_ H]; exact H).
  assert (Cn : canonical (simp_node (dual o) Y)) by (pose proof (simplify_canonical _ Wn) as H; rewrite simplify_mk in H; exact H).
  assert (HaS : In (Lit a) (flatten o (S1 ++ S2))).
  { apply flatten_in. exists (Lit a). split; [|unfold flat1; destruct o; cbn; left; reflexivity].
    unfold S1, S2. rewrite <- map_app. change (Lit a) with (simplify (Lit a)). apply in_map. exact Ha. }
  assert (HaY : In (Lit a) (flatten (dual o) Y)).
  { apply flatten_in. exists (Lit a). split; [|unfold flat1; destruct o; cbn; left; reflexivity].
    unfold Y. change (Lit a) with (simplify (Lit a)). apply in_map. exact Hay. }
  symmetry. apply simp_node_shrink.
  - apply Forall_app; split; [exact C1 | apply Forall_app; split; [constructor; [exact Cn | constructor] | exact C2]].
  - apply Forall_app; split; assumption.
  - rewrite !flatten_app.
    intros z Hz. apply in_app_or in Hz as [Hz|Hz]; apply in_or_app; [left; exact Hz | right; apply in_or_app; right; exact Hz].
  - rewrite !flatten_app.
    intros r Hr Hn. apply in_app_or in Hr as [Hr|Hr]; [exfalso; apply Hn; apply in_or_app; left; exact Hr|].
    apply in_app_or in Hr as [Hr|Hr]; [|exfalso; apply Hn; apply in_or_app; right; exact Hr].
    exists (Lit a). split; [rewrite <- flatten_app; exact HaS|].
    destruct (simp_node_keeps_lit (dual o) Y a CY HaY) as [E|[ts [E Hts]]].
    + rewrite E in Hr. unfold flatten in Hr. cbn in Hr. destruct o; cbn in Hr; destruct Hr as [<-|[]]; exfalso; apply Hn; rewrite <- flatten_app; exact HaS.
    + rewrite E in Hr. unfold flatten in Hr. cbn [flat_map] in Hr. rewrite is_op_mk_dual in Hr. cbn in Hr. destruct Hr as [<-|[]].
      split; [destruct o; discriminate|]. apply (abs_iff o (Lit a) (mk (dual o) ts)); [constructor | rewrite <- E; exact Cn|].
      exists ts. split; [reflexivity | left; exact Hts].
Qed.

(* the rewrites of the property, applied anywhere and in any sequence *)
Inductive rewrites : expr -> expr -> Prop :=
  | RW_operands o xs ys : wf (mk o xs) = true -> wf (mk o ys) = true -> (forall x, In x xs <-> In x ys) ->
      rewrites (mk o xs) (mk o ys)
  | RW_group o l1 ys l2 : wf (mk o (l1 ++ ys ++ l2)) = true -> wf (mk o (l1 ++ [mk o ys] ++ l2)) = true ->
      rewrites (mk o (l1 ++ ys ++ l2)) (mk o (l1 ++ [mk o ys] ++ l2))
  | RW_absorb o l1 l2 a ys : wf (mk o (l1 ++ l2)) = true -> wf (mk o (l1 ++ [mk (dual o) ys] ++ l2)) = true ->
      In (Lit a) (l1 ++ l2) -> In (Lit a) ys ->
      rewrites (mk o (l1 ++ l2)) (mk o (l1 ++ [mk (dual o) ys] ++ l2))
  | RW_child o l1 x x' l2 : rewrites x x' -> rewrites (mk o (l1 ++ x :: l2)) (mk o (l1 ++ x' :: l2))
  | RW_refl e : rewrites e e
  | RW_sym e e' : rewrites e e' -> rewrites e' e
  | RW_trans e1 e2 e3 : rewrites e1 e2 -> rewrites e2 e3 -> rewrites e1 e3.

Theorem simplify_rewrite_invariant e e' : rewrites e e' -> simplify e = simplify e'.
Proof.
  induction 1 as [o xs ys W1 W2 Hm | o l1 ys l2 W1 W2 | o l1 l2 a ys W1 W2 Ha Hy | o l1 x x' l2 _ IH | e | e e' _ IH | e1 e2 e3 _ IH1 _ IH2].
  - apply simplify_same_operands; assumption.
  - apply simplify_group; assumption.
  - apply (simplify_absorbed o l1 l2 a ys); assumption.
  - rewrite !simplify_mk. rewrite !map_app. cbn [map]. rewrite IH. reflexivity.
  - reflexivity.
  - symmetry; exact IH.
  - rewrite IH1; exact IH2.
Qed.

(* ---- Stage 5: idempotence ---- *)
(* one node in normal form: canonical, and no operand absorbs another *)
Definition node_ok (o : bop) (xs : list expr) : Prop :=
  canonical (mk o xs) /\ forall a t, In a xs -> In t xs -> a <> t -> ~ abs o a t.

Fixpoint hnf (e : expr) : Prop :=
  match e with
  | Lit _ => True
  | And xs => node_ok OpAnd xs /\ (fix all (l : list expr) : Prop := match l with [] => True | x :: l' => hnf x /\ all l' end) xs
  | Or xs => node_ok OpOr xs /\ (fix all (l : list expr) : Prop := match l with [] => True | x :: l' => hnf x /\ all l' end) xs
  end.

Lemma hnf_mk o xs : hnf (mk o xs) <-> node_ok o xs /\ Forall hnf xs.
Proof.
  assert (H : forall l, (fix all (l : list expr) : Prop := match l with [] => True | x :: l' => hnf x /\ all l' end) l <-> Forall hnf l).
  { induction l as [|x l IH]; [split; [constructor | exact (fun _ => I)]|]. split.
    - intros [A B]. constructor; [exact A | apply IH; exact B].
    - intro F. inversion F; subst. split; [assumption | apply IH; assumption]. }
  destruct o; cbn [mk hnf]; rewrite H; reflexivity.
Qed.

Lemma flatten_id o xs : Forall (fun x => is_op o x = false) xs -> flatten o xs = xs.
Proof.
  induction 1 as [|x l Hx _ IH]; [reflexivity|]. unfold flatten in *. cbn [flat_map]. rewrite Hx, IH. reflexivity.
Qed.

Lemma dedupe_acc_id : forall xs acc, distinct (acc ++ xs) -> dedupe_acc acc xs = acc ++ xs.
Proof.
  induction xs as [|x xs IH]; intros acc D; cbn [dedupe_acc]; [rewrite app_nil_r; reflexivity|].
  assert (E : existsb (fun y => expr_eqb y x) acc = false).
  { destruct (existsb (fun y => expr_eqb y x) acc) eqn:E; [|reflexivity]. exfalso.
    apply existsb_exists in E as [y [Hy Exy]]. clear IH.
    induction acc as [|a acc IHa]; [destruct Hy|]. cbn [app] in D. inversion D as [|? ? Ha D']; subst.
    destruct Hy as [<-|Hy]; [|apply IHa; assumption].
    rewrite (Ha x) in Exy; [discriminate | apply in_or_app; right; left; reflexivity]. }
  rewrite E. rewrite IH by (rewrite <- app_assoc; exact D). rewrite <- app_assoc. reflexivity.
Qed.

Lemma dedupe_id xs : distinct xs -> dedupe xs = xs.
Proof. intro D. unfold dedupe. apply (dedupe_acc_id xs [] D). Qed.

Lemma filter_all_id {A} (f : A -> bool) l : (forall x, In x l -> f x = true) -> filter f l = l.
Proof. induction l as [|a l IH]; intro H; [reflexivity|]. cbn [filter]. rewrite (H a (or_introl eq_refl)). f_equal. apply IH. intros x Hx. apply H. right; exact Hx. Qed.

Lemma absorb_loop_id o : forall fuel done todo,
  (forall a t, In a (done ++ todo) -> In t (done ++ todo) -> a <> t -> ~ abs o a t) -> NoDup (done ++ todo) ->
  absorb_loop fuel o done todo = done ++ todo.
Proof.
  induction fuel as [|f IH]; intros done todo H N; cbn [absorb_loop]; [reflexivity|].
  destruct todo as [|a rest]; [rewrite app_nil_r; reflexivity|].
  assert (Hna := N). apply NoDup_remove in Hna as [_ Hna].
  assert (K : forall l, incl l (done ++ rest) -> filter (fun t => negb (absorbed_by o a t)) l = l).
  { intros l Hl. apply filter_all_id. intros t Ht. apply negb_true_iff.
    destruct (absorbed_by o a t) eqn:E; [|reflexivity]. exfalso.
    assert (Hin : In t (done ++ a :: rest)).
    { apply Hl in Ht. apply in_app_or in Ht as [Ht|Ht]; apply in_or_app; [left; exact Ht | right; right; exact Ht]. }
    apply (H a t); [apply in_or_app; right; left; reflexivity | exact Hin | | exact E].
    intro Eq. subst t. apply Hna. apply Hl. exact Ht. }
  rewrite (K done) by (apply incl_appl, incl_refl). rewrite (K rest) by (apply incl_appr, incl_refl).
  rewrite IH; [rewrite <- app_assoc; reflexivity | |].
  - intros x t Hx Ht. rewrite <- app_assoc in Hx, Ht. apply H; assumption.
  - rewrite <- app_assoc. exact N.
Qed.

Lemma canonical_ssorted o xs : canonical (mk o xs) -> ssorted expr_ltb xs.
Proof.
  intro C. destruct (canonical_node_inv o xs C) as [_ [D [Or [Cs _]]]]. rewrite Forall_forall in Cs.
  apply ordered_ssorted; [| |exact D | exact Or].
  - intros x y Hx Hy. unfold tri_ok. apply canon_tri; apply Cs; assumption.
  - intros x y z Hx Hy Hz. unfold trans_ok. apply canon_trans; apply Cs; assumption.
Qed.

(* a normal form is a fixed point *)
Theorem hnf_fixed : forall c, hnf c -> simplify c = c.
Proof.
  assert (Node : forall o xs, Forall (fun x => hnf x -> simplify x = x) xs -> hnf (mk o xs) -> simplify (mk o xs) = mk o xs).
  { intros o xs IH H. apply hnf_mk in H as [[C Hfree] Hch]. rewrite simplify_mk.
    assert (Em : map simplify xs = xs).
    { rewrite <- (map_id xs) at 2. apply map_ext_in. intros x Hx. rewrite Forall_forall in IH, Hch. apply IH; [exact Hx | apply Hch; exact Hx]. }
    rewrite Em. destruct (canonical_node_inv o xs C) as [Hlen [D [_ [_ Hno]]]].
    assert (Ea : absorb o xs = xs).
    { unfold absorb. rewrite absorb_loop_id; [reflexivity | cbn [app]; exact Hfree | cbn [app]; apply distinct_NoDup; exact D]. }
    unfold simp_node. rewrite (flatten_id o xs Hno). rewrite (dedupe_id xs D).
    destruct xs as [|x [|y l]]; [cbn in Hlen; lia | cbn in Hlen; lia |]. cbv iota. rewrite Ea.
    rewrite (sort_sorted_id _ (canonical_ssorted o _ C)). reflexivity. }
  induction c as [a|xs IH|xs IH] using expr_ind'; intro H; [reflexivity | apply (Node OpAnd xs IH H) | apply (Node OpOr xs IH H)].
Qed.

(* simplify returns a normal form *)
Lemma hnf_children o x : hnf x -> Forall hnf (flat1 o x).
Proof.
  intro H. unfold flat1. destruct (is_op o x) eqn:E; [|constructor; [exact H | constructor]].
  destruct (is_op_mk o x E) as [xs ->]. apply hnf_mk in H as [_ H]. destruct o; exact H.
Qed.

Lemma simp_node_hnf o Y : Forall canonical Y -> Y <> [] -> Forall (fun x => args_of x <> [] \/ is_op o x = false) Y ->
  Forall hnf Y -> hnf (simp_node o Y).
Proof.
  intros CY Hne Hargs HY. pose proof (simp_node_canonical o Y CY Hne Hargs) as Cn.
  unfold simp_node in *. set (F := flatten o Y) in *.
  assert (HF : Forall hnf F).
  { apply Forall_forall. intros z Hz. apply flatten_in in Hz as [x [Hx Hz]]. rewrite Forall_forall in HY.
    pose proof (hnf_children o x (HY x Hx)) as Hc. rewrite Forall_forall in Hc. apply Hc; exact Hz. }
  assert (GF : Forall (goodarg o) F) by (apply flatten_good; exact CY).
  assert (CF : Forall canonical F) by (apply Forall_forall; intros x Hx; rewrite Forall_forall in GF; apply GF; exact Hx).
  assert (Md : forall x, In x (dedupe F) <-> In x F) by (apply dedupe_in; exact CF).
  pose proof (dedupe_distinct F) as Dd.
  assert (Cd : Forall canonical (dedupe F)) by (apply Forall_forall; intros x Hx; rewrite Forall_forall in CF; apply CF, Md, Hx).
  rewrite Forall_forall in HF.
  destruct (dedupe F) as [|x [|y l]] eqn:Edd.
  - (* cannot happen for a non-empty operand list, but the statement holds: an empty node *)
    change (absorb o []) with (@nil expr) in *. cbv iota in *. change (sort_args []) with (@nil expr) in *.
    apply hnf_mk. split; [split; [exact Cn | intros a t []] | constructor].
  - apply HF. apply Md. left; reflexivity.
  - set (dd := x :: y :: l) in *.
    assert (Ha : forall t, In t (absorb o dd) -> In t F) by (intros t Ht; apply Md; apply (absorb_incl o dd); exact Ht).
    pose proof (absorb_spec o dd Cd Dd) as Hspec.
    destruct (absorb o dd) as [|x2 [|y2 l2]] eqn:Ea.
    + change (sort_args []) with (@nil expr) in *. apply hnf_mk. split; [split; [exact Cn | intros a t []] | constructor].
    + apply HF. apply Ha. left; reflexivity.
    + apply hnf_mk. split; [split; [exact Cn|] |].
      * intros a t Hin_a Hin_t Hat. apply (proj1 (sort_in _ a)) in Hin_a. apply (proj1 (sort_in _ t)) in Hin_t.
        destruct (proj1 (Hspec t) Hin_t) as [_ Hun]. apply Hun; [|exact Hat].
        apply (absorb_incl o dd). rewrite Ea. exact Hin_a.
      * apply Forall_forall. intros z Hz. apply (proj1 (sort_in _ z)) in Hz. apply HF. apply Ha. exact Hz.
Qed.

Theorem simplify_hnf : forall e, wf e = true -> hnf (simplify e).
Proof.
  assert (Node : forall o xs, Forall (fun x => wf x = true -> hnf (simplify x)) xs -> wf (mk o xs) = true -> hnf (simplify (mk o xs))).
  { intros o xs IH W. rewrite simplify_mk. apply wf_mk in W as [Wl Wx].
    pose proof (children_canonical xs Wx) as C.
    apply simp_node_hnf; [exact C | destruct xs; [cbn in Wl; lia | discriminate] | |].
    - apply Forall_forall. intros y Hy. rewrite Forall_forall in C.
      destruct (canonical_args_nonempty y (C y Hy)) as [N|N]; [left; exact N | right; apply N].
    - apply Forall_forall. intros y Hy. apply in_map_iff in Hy as [x [<- Hx]]. rewrite Forall_forall in IH. apply IH; [exact Hx | apply Wx; exact Hx]. }
  induction e as [a|xs IH|xs IH] using expr_ind'; intro W; [exact I | apply (Node OpAnd xs IH W) | apply (Node OpOr xs IH W)].
Qed.

Theorem simplify_idempotent e : wf e = true -> simplify (simplify e) = simplify e.
Proof. intro W. apply hnf_fixed. apply simplify_hnf. exact W. Qed.

(* C08: rewritten variants are equivalent *)
Corollary rewrites_equivalent e e' : rewrites e e' -> is_equivalent e e' = true.
Proof. intro H. unfold is_equivalent. rewrite (simplify_rewrite_invariant e e' H). apply expr_eqb_refl. Qed.

(* the text of the result does not change either *)
Corollary rewrites_same_text f wrap e e' : rewrites e e' -> render_with f wrap (simplify e) = render_with f wrap (simplify e').
Proof. intro H. rewrite (simplify_rewrite_invariant e e' H). reflexivity. Qed.
