(* C10: listings are projections of the literals in text order. C11: validation verdicts agree. *)
Require Import Model.Base Model.Expr Model.Simplify Model.Split Model.Trie Model.Overlap Model.LicTok Model.BoolParse Model.Licensing.
Require Import Proofs.Symbol Proofs.Strict Proofs.NoLeak Proofs.OU.
From Coq Require Import Lia.


(* ---- C10 ---- *)
Theorem symbols_all_occurrences e d :
  license_symbols e false d = if d then map Plain (flat_map decompose (literals e)) else literals e.
Proof. unfold license_symbols. destruct d; reflexivity. Qed.

Theorem symbols_unique_first_occurrences e d :
  let all := license_symbols e false d in
  let u := license_symbols e true d in
  NoDup u /\ (forall a, In a u <-> In a all).
Proof.
  unfold license_symbols. destruct d; simpl; (split; [apply (ou_nodup atom_eqb atom_eqb_eq); constructor |
    intro a; rewrite (ou_in atom_eqb atom_eqb_eq); simpl; tauto]).
Qed.

Theorem with_pair_listed_license_then_exception l r :
  license_symbols (Lit (With l r)) false true = [Plain l; Plain r] /\
  license_symbols (Lit (With l r)) false false = [With l r].
Proof. split; reflexivity. Qed.

Theorem primary_is_first e d :
  primary_license_symbol e d = hd_error (license_symbols e true d).
Proof. unfold primary_license_symbol. destruct (license_symbols e true d); reflexivity. Qed.

Lemma keys_of_filter T (ss : list sym) :
  keys_of (filter (is_unknown T) (map Plain ss)) = filter (fun k => negb (known_key T k)) (keys_of (map Plain ss)).
Proof.
  induction ss as [|s ss IH]; [reflexivity|]. simpl. destruct (negb (known_key T (key s))); simpl; rewrite IH; reflexivity.
Qed.

(* the unknown-license listing is the key listing restricted to keys that are not in the table,
   in the same order and under the same uniqueness switch *)
Theorem unknown_commutes T e u :
  unknown_license_keys T e u = filter (fun k => negb (known_key T k)) (license_keys e u).
Proof.
  unfold unknown_license_keys, license_keys, unknown_license_symbols, license_symbols.
  rewrite keys_of_filter. unfold uniq_keys. destruct u; [|reflexivity].
  apply (ou_filter str_eqb str_eqb_eq (fun k => negb (known_key T k)) _ []).
Qed.

Theorem unknown_symbols_are_filtered T e u :
  unknown_license_symbols T e u = filter (is_unknown T) (license_symbols e u true).
Proof. reflexivity. Qed.

(* ---- C11 ---- *)
Section Validate.
Variable O : oracle.

Definition no_unknown_err {A} (o : outcome A) : Prop :=
  match o with ExprErr (EUnknownKeys _) => False | _ => True end.

Lemma obind_nue {A B} (x : outcome A) (f : A -> outcome B) :
  no_unknown_err x -> (forall a, no_unknown_err (f a)) -> no_unknown_err (obind x f).
Proof. intros Hx Hf. destruct x; simpl in *; try tauto. apply Hf. Qed.

Lemma mk_key_nue k : no_unknown_err (mk_key O k).
Proof.
  unfold mk_key. destruct k; [exact I|]. destruct (strip O (n :: k)); [exact I|].
  destruct (negb (forallb (valid_key_char O) (n0 :: s))); [exact I|]. destruct (is_keyword_str _); exact I.
Qed.
Lemma mk_symbol_nue k e : no_unknown_err (mk_symbol O k e).
Proof. unfold mk_symbol. apply obind_nue; [apply mk_key_nue | intros; exact I]. Qed.
Lemma flush_nue unm : no_unknown_err (flush_unknown O unm).
Proof.
  unfold flush_unknown. destruct unm as [|u unm]; [exact I|]. destruct (split_trailing O (u :: unm) []) as [tr core].
  destruct core; [exact I|]. apply obind_nue; [apply mk_symbol_nue | intros; exact I].
Qed.
Lemma build_nue : forall ts unm, no_unknown_err (build_unknown O unm ts).
Proof.
  induction ts as [|t ts IH]; intro unm; simpl; [apply flush_nue|].
  destruct (tvalue t).
  - apply obind_nue; [apply flush_nue|]. intros. apply obind_nue; [apply IH | intros; exact I].
  - destruct unm; [|apply IH]. destruct (tok_blank O t); [|apply IH]. apply obind_nue; [apply IH | intros; exact I].
Qed.
Lemma replace_nue strict : forall gs, no_unknown_err (replace_with O strict gs).
Proof.
  induction gs as [|g gs IH]; [exact I|]. destruct g as [t|a w b]; cbn [replace_with].
  - destruct (tvalue t) as [[k|s]|]; [| |exact I].
    + destruct (tk_of_kw k); [|exact I]. apply obind_nue; [exact IH | intros; exact I].
    + destruct (strict && exc s); [exact I|]. apply obind_nue; [exact IH | intros; exact I].
  - destruct (tvalue a) as [[ka|l]|]; try exact I. destruct (tvalue b) as [[kb|r]|]; try exact I.
    destruct (strict && exc l); [exact I|]. destruct (strict && negb (exc r)); [exact I|].
    apply obind_nue; [exact IH | intros; exact I].
Qed.
Lemma simple_tokens_nue T : forall ps, no_unknown_err (simple_tokens O T ps).
Proof.
  induction ps as [|p ps IH]; [exact I|]. simpl. apply obind_nue.
  - unfold simple_token. destruct (piece_cls O p); try exact I.
    destruct (str_eqb _ s_and); [exact I|]. destruct (str_eqb _ s_or); [exact I|]. destruct (str_eqb _ s_with); [exact I|].
    destruct (lookup_lower O T _); [exact I|]. apply obind_nue; [apply mk_symbol_nue | intros; exact I].
  - intros. apply obind_nue; [exact IH | intros; exact I].
Qed.
Lemma parse_tokens_nue T strict simple s : no_unknown_err (parse_tokens O T strict simple s).
Proof.
  unfold parse_tokens. apply obind_nue.
  - unfold lic_tokenize. destruct s; [exact I|]. apply obind_nue.
    + destruct simple; [apply simple_tokens_nue | exact I].
    + intros. apply obind_nue; [apply build_nue | intros; apply replace_nue].
  - intro toks. destruct (bparse toks); exact I.
Qed.

(* parse(validate=True) raises "Unknown license key(s)" exactly when the unknown-license listing
   of the expression is non-empty, and names those keys in order *)
Theorem validate_keys_iff T strict simple s ks :
  parse O T true strict simple s = ExprErr (EUnknownKeys ks) <->
  exists e, parse O T false strict simple s = Ok (Some e) /\ unknown_license_keys T e true = ks /\ ks <> [].
Proof.
  unfold parse. destruct (blank O s).
  - split; [discriminate | intros [e [H _]]; discriminate].
  - pose proof (parse_tokens_nue T strict simple s) as N.
    destruct (parse_tokens O T strict simple s) as [e| | | | |]; cbn [obind] in *;
      try (split; [discriminate | intros [e' [H _]]; discriminate]).
    + destruct (unknown_license_keys T e true) as [|k ks'] eqn:U.
      * split; [discriminate|]. intros [e' [H [H2 H3]]]. injection H as He. rewrite <- He, U in H2. exfalso. apply H3. symmetry. exact H2.
      * split.
        -- intro H. injection H as Hk. exists e. split; [reflexivity|]. split; [rewrite U; exact Hk | rewrite <- Hk; discriminate].
        -- intros [e' [H [H2 _]]]. injection H as He. rewrite <- He, U in H2. rewrite H2. reflexivity.
    + destruct k; try (split; [discriminate | intros [e' [H _]]; discriminate]). contradiction.
Qed.

Theorem parse_validate_ok_iff T strict simple s r :
  parse O T true strict simple s = Ok r <->
  parse O T false strict simple s = Ok r /\ match r with Some e => unknown_license_keys T e true = [] | None => True end.
Proof.
  unfold parse. destruct (blank O s).
  - split; [intro H; inversion H; subst; split; [reflexivity | exact I] | intros [H _]; exact H].
  - destruct (parse_tokens O T strict simple s) as [e| | | | |]; cbn [obind];
      try (split; [discriminate | intros [H _]; discriminate]).
    destruct (unknown_license_keys T e true) as [|k ks'] eqn:U.
    + split; [intro H; inversion H; subst; split; [reflexivity | exact U] | intros [H _]; exact H].
    + split; [discriminate | intros [H H2]; inversion H; subst; rewrite U in H2; discriminate].
Qed.

(* validate() has no error exactly when parse(validate=True) with the same strictness succeeds;
   then the normalized expression is the rendering of that parse; otherwise it is absent *)
Theorem validate_agree T strict s : blank O s = false ->
  (errors (validate O T strict s) = [] <-> exists e, parse O T true strict false s = Ok (Some e)).
Proof.
  intro B. unfold validate.
  destruct (parse O T false strict false s) as [[e|]| | | | |] eqn:P; cbn beta iota.
  - assert (P2 : parse O T false false false s = Ok (Some e)).
    { destruct strict; [apply parse_strict_then_lenient; exact P | exact P]. }
    rewrite P2. destruct (unknown_license_keys T e true) as [|k ks] eqn:U; cbn [errors].
    + split; [intros _|reflexivity]. exists e. apply parse_validate_ok_iff. split; [exact P | exact U].
    + split; [discriminate|]. intros [e' H]. apply parse_validate_ok_iff in H as [H1 H2].
      rewrite P in H1. inversion H1; subst. rewrite U in H2. discriminate.
  - unfold parse in P. rewrite B in P. destruct (parse_tokens O T strict false s); discriminate.
  - cbn [errors]. split; [discriminate|]. intros [e' H]. apply parse_validate_ok_iff in H as [H1 _]. rewrite P in H1. discriminate.
  - cbn [errors]. split; [discriminate|]. intros [e' H]. apply parse_validate_ok_iff in H as [H1 _]. rewrite P in H1. discriminate.
  - cbn [errors]. split; [discriminate|]. intros [e' H]. apply parse_validate_ok_iff in H as [H1 _]. rewrite P in H1. discriminate.
  - cbn [errors]. split; [discriminate|]. intros [e' H]. apply parse_validate_ok_iff in H as [H1 _]. rewrite P in H1. discriminate.
  - cbn [errors]. split; [discriminate|]. intros [e' H]. apply parse_validate_ok_iff in H as [H1 _]. rewrite P in H1. discriminate.
Qed.

Lemma validate_norm_or_errors T strict s :
  normalized (validate O T strict s) = None \/ errors (validate O T strict s) = [].
Proof.
  unfold validate. destruct (parse O T false strict false s) as [[e|]| | | | |]; cbn beta iota; try (left; reflexivity).
  - destruct (parse O T false false false s) as [[e'|]| | | | |]; cbn beta iota; try (left; reflexivity).
    destruct (unknown_license_keys T e' true); [right; reflexivity | left; reflexivity].
Qed.

Theorem validate_norm T strict s : blank O s = false ->
  match parse O T true strict false s with
  | Ok (Some e) => normalized (validate O T strict s) = Some (render e) /\ invalid_symbols (validate O T strict s) = []
  | _ => normalized (validate O T strict s) = None /\ errors (validate O T strict s) <> []
  end.
Proof.
  intro B. pose proof (validate_agree T strict s B) as A.
  assert (Hbad : (forall e, parse O T true strict false s <> Ok (Some e)) ->
                 normalized (validate O T strict s) = None /\ errors (validate O T strict s) <> []).
  { intro Hn. assert (He : errors (validate O T strict s) <> []).
    { intro E. apply A in E as [e He]. exact (Hn e He). }
    split; [|exact He]. destruct (validate_norm_or_errors T strict s) as [H|H]; [exact H | contradiction]. }
  destruct (parse O T true strict false s) as [[e|]| | | | |] eqn:PV; try (apply Hbad; intros e0 H0; discriminate).
  apply parse_validate_ok_iff in PV as [P U]. unfold validate. rewrite P.
  assert (P2 : parse O T false false false s = Ok (Some e)).
  { destruct strict; [apply parse_strict_then_lenient; exact P | exact P]. }
  rewrite P2, U. split; reflexivity.
Qed.

(* for unknown licenses the invalid symbols are the unknown keys in order *)
Theorem validate_unknown_symbols T strict s e ks :
  parse O T false strict false s = Ok (Some e) -> unknown_license_keys T e true = ks -> ks <> [] ->
  invalid_symbols (validate O T strict s) = ks /\ errors (validate O T strict s) = [VExpr (EUnknownKeys ks)].
Proof.
  intros P U Hne. unfold validate. rewrite P.
  assert (P2 : parse O T false false false s = Ok (Some e)).
  { destruct strict; [apply parse_strict_then_lenient; exact P | exact P]. }
  rewrite P2, U. destruct ks; [contradiction|]. split; reflexivity.
Qed.

End Validate.
