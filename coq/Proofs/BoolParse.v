(* C02: completeness of the boolean parser (the stack machine of Model/BoolParse.v) for the grammar
   prim ::= license | ( orexp )      andexp ::= prim (AND prim)*      orexp ::= andexp (OR andexp)*
   Every token carries an arbitrary token string and position (type info); licenses are atoms
   (a "license WITH exception" pair is one atom here; its grouping is Proofs/WithGroup.v). *)
Require Import Model.Base Model.Expr Model.LicTok Model.BoolParse.
From Coq Require Import Lia Arith.
Open Scope nat_scope.

Definition info := (str * Z)%type.
Definition mkt (t : tk) (i : info) : ptok := {| pt := t; pstr := fst i; ppos := snd i |}.

Lemma run_app s prev ts1 ts2 :
  run s prev (ts1 ++ ts2) = match run s prev ts1 with RErr e => RErr e | ROk s' p' => run s' p' ts2 end.
Proof.
  revert s prev; induction ts1 as [|t ts1 IH]; intros s prev; simpl; [reflexivity|].
  destruct (step1 s prev t); [apply IH | reflexivity].
Qed.

(* ---------- surface syntax (grammar) ---------- *)
Inductive prim := PA (n : atom) (i : info) | PP (il ir : info) (e : orx)
with andx := A1 (p : prim) | ACons (p : prim) (i : info) (a : andx)
with orx := O1 (a : andx) | OCons (a : andx) (i : info) (o : orx).
Scheme prim_mind := Induction for prim Sort Prop
with andx_mind := Induction for andx Sort Prop
with orx_mind := Induction for orx Sort Prop.
Combined Scheme syntax_mind from prim_mind, andx_mind, orx_mind.

Fixpoint tok_prim (p: prim) : list ptok :=
  match p with PA n i => [mkt (TS n) i] | PP il ir e => mkt TL il :: tok_or e ++ [mkt TR ir] end
with tok_and (a: andx) : list ptok :=
  match a with A1 p => tok_prim p | ACons p i a' => tok_prim p ++ mkt TA i :: tok_and a' end
with tok_or (e: orx) : list ptok :=
  match e with O1 a => tok_and a | OCons a i e' => tok_and a ++ mkt TO i :: tok_or e' end.

Definition mkAnd (l: list expr) : expr := match l with [x] => x | _ => And l end.
Definition mkOr (l: list expr) : expr := match l with [x] => x | _ => Or l end.
Arguments mkAnd : simpl never.
Arguments mkOr : simpl never.

Fixpoint tree_prim (p: prim) : expr :=
  match p with PA n _ => Lit n | PP _ _ e => mkOr (trees_or e) end
with trees_and (a: andx) : list expr :=
  match a with A1 p => [tree_prim p] | ACons p _ a' => tree_prim p :: trees_and a' end
with trees_or (e: orx) : list expr :=
  match e with O1 a => [mkAnd (trees_and a)] | OCons a _ e' => mkAnd (trees_and a) :: trees_or e' end.
Definition tree_and a := mkAnd (trees_and a).
Definition tree_or e := mkOr (trees_or e).

Definition last_prim (p: prim) : tk := match p with PA n _ => TS n | PP _ _ _ => TR end.
Fixpoint last_and (a: andx) : tk := match a with A1 p => last_prim p | ACons _ _ a' => last_and a' end.
Fixpoint last_or (e: orx) : tk := match e with O1 a => last_and a | OCons _ _ e' => last_or e' end.

Definition okprev (prev: option tk) : Prop :=
  prev = None \/ prev = Some TA \/ prev = Some TO \/ prev = Some TL.
Definition endtok (t: tk) : Prop := (exists n, t = TS n) \/ t = TR.

Lemma last_prim_end p : endtok (last_prim p). Proof. destruct p; [left; eexists; reflexivity | right; reflexivity]. Qed.
Lemma last_and_end a : endtok (last_and a). Proof. induction a; simpl; [apply last_prim_end | assumption]. Qed.
Lemma last_or_end e : endtok (last_or e). Proof. induction e; simpl; [apply last_and_end | assumption]. Qed.

Lemma check_sym prev n : okprev prev -> check prev (TS n) = None.
Proof. intros [->|[->|[->| ->]]]; reflexivity. Qed.
Lemma check_lpar prev : okprev prev -> check prev TL = None.
Proof. intros [->|[->|[->| ->]]]; reflexivity. Qed.
Lemma check_after_end t u : endtok t -> (u = TA \/ u = TO \/ u = TR) -> check (Some t) u = None.
Proof. intros [[n ->]| ->] [->|[->| ->]]; reflexivity. Qed.

Lemma trees_and_len a : 1 <= length (trees_and a). Proof. destruct a; simpl; lia. Qed.
Lemma trees_or_len e : 1 <= length (trees_or e). Proof. destruct e; simpl; lia. Qed.

(* stack after an AND chain has been fed on top frame (o,args), o <> FAnd *)
Definition and_on (o: fop) (args: list expr) (sg: list frame) (a: andx) : list frame :=
  match a with
  | A1 p => (o, args ++ [tree_prim p]) :: sg
  | ACons p _ a' =>
      match o with
      | FNone => (FAnd, args ++ tree_prim p :: trees_and a') :: sg
      | _ => (FAnd, tree_prim p :: trees_and a') :: (o, args) :: sg
      end
  end.

Fixpoint or_pending (acc: list expr) (e: orx) (base: list frame) : list frame :=
  match e with
  | O1 a => and_on FOr acc base a
  | OCons a _ e' => or_pending (acc ++ [tree_and a]) e' base
  end.

Definition or_on (b: fop) (rest: list frame) (e: orx) : list frame :=
  match e with
  | O1 a => and_on b [] rest a
  | OCons a _ e' => or_pending [tree_and a] e' (match b with FNone => [] | _ => (b, []) :: rest end)
  end.

Lemma mkf_and l : 2 <= length l -> mkf FAnd l = Some (And l).
Proof. intro H. unfold mkf. destruct (Nat.ltb_spec (length l) 2); [lia|reflexivity]. Qed.
Lemma mkf_or l : 2 <= length l -> mkf FOr l = Some (Or l).
Proof. intro H. unfold mkf. destruct (Nat.ltb_spec (length l) 2); [lia|reflexivity]. Qed.
Lemma mkOr_2 l : 2 <= length l -> mkOr l = Or l.
Proof. destruct l as [|x [|y l]]; simpl; intros; try lia; reflexivity. Qed.
Lemma mkAnd_2 l : 2 <= length l -> mkAnd l = And l.
Proof. destruct l as [|x [|y l]]; simpl; intros; try lia; reflexivity. Qed.

(* closing a parenthesis / finishing on a pending OR state *)
Lemma close_and_on_lpar a o args sg ts tp :
  close_par (S (length (and_on FLpar [] ((o,args)::sg) a))) (and_on FLpar [] ((o,args)::sg) a) ts tp
  = SOk ((o, args ++ [tree_and a]) :: sg).
Proof.
  destruct a as [p|p i a']; simpl.
  - reflexivity.
  - rewrite mkf_and by (simpl; pose proof (trees_and_len a'); lia). simpl.
    unfold tree_and. simpl trees_and. rewrite mkAnd_2 by (simpl; pose proof (trees_and_len a'); lia). reflexivity.
Qed.

Lemma close_or_pending e ts tp : forall acc o args sg, 1 <= length acc ->
  close_par (S (length (or_pending acc e ((FLpar,[])::(o,args)::sg)))) (or_pending acc e ((FLpar,[])::(o,args)::sg)) ts tp
  = SOk ((o, args ++ [Or (acc ++ trees_or e)]) :: sg).
Proof.
  induction e as [a|a i e' IH]; intros acc o args sg Hacc.
  - destruct a as [p|p j a']; simpl.
    + rewrite mkf_or by (rewrite app_length; simpl; lia). simpl. reflexivity.
    + rewrite mkf_and by (simpl; pose proof (trees_and_len a'); lia). simpl.
      rewrite mkf_or by (rewrite app_length; simpl; lia). simpl.
      rewrite mkAnd_2 by (simpl; pose proof (trees_and_len a'); lia). reflexivity.
  - simpl or_pending. rewrite IH by (rewrite app_length; simpl; lia).
    rewrite <- app_assoc. reflexivity.
Qed.

Lemma finish_and_on_none a :
  finish (S (length (and_on FNone [] [] a))) (and_on FNone [] [] a) = POk (tree_and a).
Proof.
  destruct a as [p|p i a']; simpl.
  - reflexivity.
  - rewrite mkf_and by (simpl; pose proof (trees_and_len a'); lia).
    unfold tree_and. simpl trees_and. rewrite mkAnd_2 by (simpl; pose proof (trees_and_len a'); lia). reflexivity.
Qed.

Lemma finish_or_pending e : forall acc, 1 <= length acc ->
  finish (S (length (or_pending acc e []))) (or_pending acc e []) = POk (Or (acc ++ trees_or e)).
Proof.
  induction e as [a|a i e' IH]; intros acc Hacc.
  - destruct a as [p|p j a']; simpl.
    + rewrite mkf_or by (rewrite app_length; simpl; lia). reflexivity.
    + rewrite mkf_and by (simpl; pose proof (trees_and_len a'); lia).
      rewrite mkf_or by (rewrite app_length; simpl; lia).
      rewrite mkAnd_2 by (simpl; pose proof (trees_and_len a'); lia). reflexivity.
  - simpl or_pending. rewrite IH by (rewrite app_length; simpl; lia).
    rewrite <- app_assoc. reflexivity.
Qed.

Lemma run_cons s prev t ts :
  run s prev (t :: ts) = match step1 s prev t with SErr e => RErr e | SOk s' => run s' (Some (pt t)) ts end.
Proof. reflexivity. Qed.

Lemma step_sym o args sg prev n i : okprev prev ->
  step1 ((o,args)::sg) prev (mkt (TS n) i) = SOk ((o, args ++ [Lit n]) :: sg).
Proof. intro H. unfold step1. cbn [mkt pt]. rewrite check_sym by assumption. reflexivity. Qed.

Lemma step_lpar s prev i : okprev prev -> step1 s prev (mkt TL i) = SOk ((FLpar, []) :: s).
Proof. intros [->|[->|[->| ->]]]; reflexivity. Qed.

Lemma step_rpar s t i : endtok t -> step1 s (Some t) (mkt TR i) = close_par (S (length s)) s (fst i) (snd i).
Proof. intro H. unfold step1. cbn [mkt pt]. rewrite check_after_end by (auto). reflexivity. Qed.

Lemma step_and_same acc sg t i : endtok t ->
  step1 ((FAnd,acc)::sg) (Some t) (mkt TA i) = SOk ((FAnd,acc)::sg).
Proof. intro H. unfold step1. cbn [mkt pt]. rewrite check_after_end by auto. reflexivity. Qed.

Lemma step_and_new o args x sg t i : endtok t -> o <> FAnd ->
  step1 ((o, args ++ [x])::sg) (Some t) (mkt TA i) =
  SOk (match o with FNone => (FAnd, args ++ [x]) :: sg | _ => (FAnd,[x]) :: (o,args) :: sg end).
Proof.
  intros H Ho. unfold step1. cbn [mkt pt]. rewrite check_after_end by auto.
  destruct o; try congruence; simpl; try reflexivity;
    rewrite rev_unit, rev_involutive; reflexivity.
Qed.

Lemma step_or_same acc sg t i : endtok t ->
  step1 ((FOr,acc)::sg) (Some t) (mkt TO i) = SOk ((FOr,acc)::sg).
Proof. intro H. unfold step1. cbn [mkt pt]. rewrite check_after_end by auto. reflexivity. Qed.

(* TO arriving on the state left by an AND chain fed on a frame (o,args) *)
Lemma step_or_after_and_on_or a acc base i :
  step1 (and_on FOr acc base a) (Some (last_and a)) (mkt TO i) = SOk ((FOr, acc ++ [tree_and a]) :: base).
Proof.
  unfold step1. cbn [mkt pt]. rewrite check_after_end by (auto using last_and_end).
  destruct a as [p|p j a']; simpl.
  - reflexivity.
  - rewrite mkf_and by (simpl; pose proof (trees_and_len a'); lia). simpl.
    unfold tree_and. simpl trees_and. rewrite mkAnd_2 by (simpl; pose proof (trees_and_len a'); lia). reflexivity.
Qed.

Lemma step_or_after_and_on_fresh a b rest i : (b = FNone /\ rest = [] \/ b = FLpar) ->
  step1 (and_on b [] rest a) (Some (last_and a)) (mkt TO i) =
  SOk ((FOr, [tree_and a]) :: (match b with FNone => [] | _ => (b,[]) :: rest end)).
Proof.
  intros Hb. unfold step1. cbn [mkt pt]. rewrite check_after_end by (auto using last_and_end).
  destruct Hb as [[-> ->]| ->]; destruct a as [p|p j a']; simpl.
  - reflexivity.
  - rewrite mkf_and by (simpl; pose proof (trees_and_len a'); lia).
    unfold tree_and. simpl trees_and. rewrite mkAnd_2 by (simpl; pose proof (trees_and_len a'); lia). reflexivity.
  - reflexivity.
  - rewrite mkf_and by (simpl; pose proof (trees_and_len a'); lia). simpl.
    unfold tree_and. simpl trees_and. rewrite mkAnd_2 by (simpl; pose proof (trees_and_len a'); lia). reflexivity.
Qed.

Theorem feed_all :
  (forall p, forall o args sg prev, okprev prev ->
      run ((o,args)::sg) prev (tok_prim p) = ROk ((o, args ++ [tree_prim p]) :: sg) (Some (last_prim p)))
  /\ (forall a,
      (forall acc sg, run ((FAnd,acc)::sg) (Some TA) (tok_and a)
                      = ROk ((FAnd, acc ++ trees_and a)::sg) (Some (last_and a)))
      /\ (forall o args sg prev, okprev prev -> o <> FAnd ->
            run ((o,args)::sg) prev (tok_and a) = ROk (and_on o args sg a) (Some (last_and a))))
  /\ (forall e,
      (forall acc base, run ((FOr,acc)::base) (Some TO) (tok_or e)
                        = ROk (or_pending acc e base) (Some (last_or e)))
      /\ (forall b rest prev, okprev prev -> (b = FNone /\ rest = [] \/ b = FLpar) ->
            run ((b,[])::rest) prev (tok_or e) = ROk (or_on b rest e) (Some (last_or e)))).
Proof.
  apply syntax_mind.
  - (* PA *) intros n i o args sg prev Hp. cbn [tok_prim]. rewrite run_cons, step_sym by assumption. reflexivity.
  - (* PP *) intros il ir e [_ IHe] o args sg prev Hp.
    cbn [tok_prim]. rewrite run_cons, step_lpar by assumption. cbn [mkt pt].
    rewrite run_app. rewrite IHe by (unfold okprev; auto).
    rewrite run_cons, step_rpar by apply last_or_end. cbn [last_prim].
    destruct e as [a|a j e']; cbn [or_on].
    + rewrite close_and_on_lpar. reflexivity.
    + rewrite close_or_pending by (simpl; lia). simpl run.
      cbn [tree_prim trees_or]. rewrite mkOr_2 by (simpl; pose proof (trees_or_len e'); lia). reflexivity.
  - (* A1 *) intros p IHp. split.
    + intros acc sg. cbn [tok_and trees_and last_and]. apply IHp. unfold okprev; auto.
    + intros o args sg prev Hp Ho. cbn [tok_and and_on last_and]. apply IHp; assumption.
  - (* ACons *) intros p IHp i a [IHa1 _]. split.
    + intros acc sg. cbn [tok_and]. rewrite run_app, IHp by (unfold okprev; auto).
      rewrite run_cons, step_and_same by apply last_prim_end. cbn [mkt pt].
      rewrite IHa1. cbn [trees_and last_and]. rewrite <- app_assoc. reflexivity.
    + intros o args sg prev Hp Ho. cbn [tok_and]. rewrite run_app, IHp by assumption.
      rewrite run_cons, step_and_new by (auto using last_prim_end). cbn [mkt pt].
      cbn [and_on last_and].
      destruct o; try congruence; rewrite IHa1; try reflexivity.
      rewrite <- app_assoc. reflexivity.
  - (* O1 *) intros a [_ IHa2]. split.
    + intros acc base. cbn [tok_or or_pending last_or]. apply IHa2; [unfold okprev; auto | discriminate].
    + intros b rest prev Hp Hb. cbn [tok_or or_on last_or]. apply IHa2; [assumption|].
      destruct Hb as [[-> _]| ->]; discriminate.
  - (* OCons *) intros a [_ IHa2] i e [IHe1 _]. split.
    + intros acc base. cbn [tok_or]. rewrite run_app, IHa2 by (unfold okprev; auto; discriminate).
      rewrite run_cons, step_or_after_and_on_or. cbn [mkt pt]. rewrite IHe1. reflexivity.
    + intros b rest prev Hp Hb. cbn [tok_or]. rewrite run_app.
      rewrite IHa2 by (auto; destruct Hb as [[-> _]| ->]; discriminate).
      rewrite run_cons, step_or_after_and_on_fresh by assumption. cbn [mkt pt].
      rewrite IHe1. reflexivity.
Qed.

Theorem bparse_complete e : bparse (tok_or e) = POk (tree_or e).
Proof.
  unfold bparse. destruct feed_all as [_ [_ H]]. destruct (H e) as [_ H2].
  rewrite H2 by (unfold okprev; auto).
  destruct e as [a|a i e']; cbn [or_on].
  - rewrite finish_and_on_none. unfold tree_or. simpl trees_or. reflexivity.
  - rewrite finish_or_pending by (simpl; lia).
    unfold tree_or. cbn [trees_or]. rewrite mkOr_2 by (simpl; pose proof (trees_or_len e'); lia). reflexivity.
Qed.
