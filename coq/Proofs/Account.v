(* C01: the words of the text are the concatenation, in order, of the words each token stands for:
   an operator or parenthesis for itself, an unknown license for the words of its key verbatim, a
   known license for the words of its key or of one of its aliases (ignoring case). *)
Require Import Model.Base Model.Expr Model.Split Model.Trie Model.Overlap Model.LicTok Model.BoolParse Model.Licensing.
Require Import Proofs.Symbol Proofs.Strings Proofs.Split Proofs.Overlap Proofs.Trie Proofs.Recognise Proofs.Cover Proofs.Select
               Proofs.WithGroup Proofs.SimpleAgree Proofs.ParseLits.
From Coq Require Import Lia ZifyBool.
Open Scope Z_scope.

(* ---- position-ordered piece lists ---- *)
Lemma incr_lists_equal : forall l1 l2, incr l1 -> incr l2 -> (forall p, In p l1 <-> In p l2) -> l1 = l2.
Proof.
  induction l1 as [|a l1 IH]; intros l2 I1 I2 Hm.
  - destruct l2 as [|b l2]; [reflexivity|]. exfalso. apply (proj2 (Hm b)). left; reflexivity.
  - destruct l2 as [|b l2]; [exfalso; apply (proj1 (Hm a)); left; reflexivity|].
    destruct I1 as [Na [A1 I1]]. destruct I2 as [Nb [A2 I2]].
    assert (Hab : a = b).
    { destruct (proj1 (Hm a) (or_introl eq_refl)) as [E|Ha]; [symmetry; exact E|].
      destruct (proj2 (Hm b) (or_introl eq_refl)) as [E|Hb]; [exact E|].
      specialize (A2 a Ha). specialize (A1 b Hb). lia. }
    subst b. f_equal. apply IH; [exact I1 | exact I2|].
    intro p. split; intro Hp.
    + destruct (proj1 (Hm p) (or_intror Hp)) as [E|H]; [|exact H]. subst p. specialize (A1 a Hp). lia.
    + destruct (proj2 (Hm p) (or_intror Hp)) as [E|H]; [|exact H]. subst p. specialize (A2 a Hp). lia.
Qed.

Lemma incr_app_intro : forall l1 l2, incr l1 -> incr l2 -> (forall p q, In p l1 -> In q l2 -> pend p < pstart q) -> incr (l1 ++ l2).
Proof.
  induction l1 as [|a l1 IH]; intros l2 I1 I2 H; [exact I2|]. destruct I1 as [Na [A1 I1]]. cbn [app incr].
  split; [exact Na|]. split.
  - intros q Hq. apply in_app_or in Hq as [Hq|Hq]; [apply A1; exact Hq | apply H; [left; reflexivity | exact Hq]].
  - apply IH; [exact I1 | exact I2|]. intros p q Hp Hq. apply H; [right; exact Hp | exact Hq].
Qed.

Lemma filter_none {A} (f : A -> bool) l : (forall x, In x l -> f x = false) -> filter f l = [].
Proof. induction l as [|a l IH]; intro H; [reflexivity|]. cbn [filter]. rewrite (H a (or_introl eq_refl)). apply IH. intros x Hx. apply H. right; exact Hx. Qed.
Lemma filter_all {A} (f : A -> bool) l : (forall x, In x l -> f x = true) -> filter f l = l.
Proof. induction l as [|a l IH]; intro H; [reflexivity|]. cbn [filter]. rewrite (H a (or_introl eq_refl)). f_equal. apply IH. intros x Hx. apply H. right; exact Hx. Qed.

(* the pieces of an increasing list that lie inside a window delimited by a contiguous part are that part *)
Lemma filter_window (pre mid post : list piece) (lo hi : Z) :
  incr (pre ++ mid ++ post) -> mid <> [] -> lo = pstart (hd dpiece mid) -> hi = pend (last mid dpiece) ->
  filter (fun p => (lo <=? pstart p) && (pend p <=? hi)) (pre ++ mid ++ post) = mid.
Proof.
  intros Hi Hne -> ->.
  apply incr_app in Hi as [Ipre [Imp Hpm]]. apply incr_app in Imp as [Imid [Ipost Hmp]].
  pose proof (hd_in dpiece mid Hne) as Hh. pose proof (last_in dpiece mid Hne) as Hl.
  rewrite !filter_app.
  assert (E1 : filter (fun p => (pstart (hd dpiece mid) <=? pstart p) && (pend p <=? pend (last mid dpiece))) pre = []).
  { apply filter_none. intros p Hp.
    specialize (Hpm p (hd dpiece mid) Hp (in_or_app _ _ _ (or_introl Hh))).
    pose proof (incr_piece_nonempty pre p Ipre Hp). lia. }
  assert (E3 : filter (fun p => (pstart (hd dpiece mid) <=? pstart p) && (pend p <=? pend (last mid dpiece))) post = []).
  { apply filter_none. intros p Hp.
    specialize (Hmp (last mid dpiece) p Hl Hp).
    pose proof (incr_piece_nonempty post p Ipost Hp). lia. }
  assert (E2 : filter (fun p => (pstart (hd dpiece mid) <=? pstart p) && (pend p <=? pend (last mid dpiece))) mid = mid).
  { apply filter_all. intros p Hp.
    destruct (incr_first_last mid dpiece Imid Hne p Hp) as [A B]. pose proof (incr_piece_nonempty mid p Imid Hp). lia. }
  rewrite E1, E2, E3. rewrite app_nil_r. reflexivity.
Qed.

(* a token string is made of a run of pieces: it is the stretch of the text they span, or their texts joined by
   single spaces, or - for a WITH pair - the three strings of its parts joined by single spaces *)
Inductive made_of (O : oracle) (text : str) : str -> list piece -> Prop :=
  | MSlice g : g <> [] -> made_of O text (slice text (pstart (hd dpiece g)) (pend (last g dpiece))) g
  | MJoin g : made_of O text (join_sp (map ptext g)) g
  | MWith a ga w gw b gb : made_of O text a ga -> made_of O text w gw -> made_of O text b gb ->
      made_of O text (a ++ sp ++ strip O w ++ sp ++ b) (ga ++ gw ++ gb).

(* ---- every token of the matcher owns a run of consecutive word pieces ---- *)
Section Groups.
Context {V : Type}.
Variable O : oracle.
Variable tr : trie V.
Hypothesis W : wf_trie tr.
Variable text : str.
Notation tok := (Trie.tok V).
Notation P := (pieces O text).
Notation wps := (filter (is_word_piece O) (pieces O text)).

Definition inside (t : tok) (p : piece) : bool := (tstart t <=? pstart p) && (pend p <=? tend t).
Definition grp (t : tok) : list piece := filter (inside t) wps.

Lemma grp_incr t : incr (grp t).
Proof. apply incr_filter. apply word_pieces_incr. Qed.

Lemma grps_incr : forall toks : list tok, chain_after toks -> incr (flat_map grp toks).
Proof.
  induction toks as [|t toks IH]; intro Hc; [exact I|]. destruct Hc as [Ha Hc]. cbn [flat_map].
  apply incr_app_intro; [apply grp_incr | apply IH; exact Hc|].
  intros p q Hp Hq. apply filter_In in Hp as [_ Hp]. apply in_flat_map in Hq as [t' [Ht' Hq]]. apply filter_In in Hq as [_ Hq].
  specialize (Ha t' Ht'). unfold is_after, inside in *. lia.
Qed.

(* the groups of the tokens, in order, are the word pieces of the text *)
Theorem groups_partition : flat_map grp (t_tokenize O tr text) = wps.
Proof.
  apply incr_lists_equal.
  - apply grps_incr. apply (tokenize_ordered_disjoint O tr W text).
  - apply word_pieces_incr.
  - intro p. split.
    + intro Hp. apply in_flat_map in Hp as [t [_ Hp]]. apply filter_In in Hp as [Hp _]. exact Hp.
    + intro Hp. pose proof Hp as Hp0. apply filter_In in Hp as [HpP Hw].
      destruct (tokenize_covers_once O tr W text p HpP Hw) as [pre [t [post [E [[C1 C2] _]]]]].
      apply in_flat_map. exists t. split; [rewrite E; apply in_or_app; right; left; reflexivity|].
      apply filter_In. split; [exact Hp0 | unfold inside; lia].
Qed.

(* the string of a token starts with a character that is not white space *)
Definition starts_word (t : tok) : Prop := exists c0 r, tstring t = c0 :: r /\ is_space O c0 = false.

(* a match owns exactly the word pieces whose words spell the stored name *)
Lemma matched_group (t : tok) : In t (t_iter O tr text) ->
  exists sp v, tvalue t = Some v /\ grp t <> [] /\ get_out (lws O (grp t)) (outs tr) = Some (sp, v) /\
               tstart t = pstart (hd dpiece (grp t)) /\ starts_word t /\ made_of O text (tstring t) (grp t).
Proof.
  intro H. pose proof (match_inside O tr W text t H) as [_ [_ [_ Hwf]]].
  apply (scan_exact O tr W text) in H as [pre [mid [post [sp [v [E [Hne [G ->]]]]]]]].
  change {| pstart := 0; ptext := [] |} with dpiece in *.
  assert (Hst : starts_word (occurrence_tok text mid (last mid dpiece) v)).
  { assert (Hin : In (hd dpiece mid) wps) by (rewrite E; apply in_or_app; right; apply in_or_app; left; apply hd_in; exact Hne).
    apply filter_In in Hin as [Hp0 Wp0].
    destruct (word_piece_head O _ Wp0) as [c0 [r [Ht Hs]]].
    pose proof (piece_is_slice O text _ Hp0) as Sl. rewrite Ht in Sl. symmetry in Sl.
    assert (Cs : tstart (occurrence_tok text mid (last mid dpiece) v) = pstart (hd dpiece mid)) by (apply occ_start; exact Hne).
    destruct (slice_head text (pstart (hd dpiece mid)) _ (tend (occurrence_tok text mid (last mid dpiece) v)) c0 r Sl ltac:(lia)) as [r2 E2].
    exists c0, r2. split; [|exact Hs]. cbn [tstring occurrence_tok]. cbn [tend occurrence_tok] in E2.
    destruct mid; [contradiction | exact E2]. }
  assert (Eg : grp (occurrence_tok text mid (last mid dpiece) v) = mid).
  { unfold grp. rewrite E. apply filter_window.
    - rewrite <- E. apply word_pieces_incr.
    - exact Hne.
    - unfold inside. apply occ_start; exact Hne.
    - reflexivity. }
  exists sp, v. rewrite Eg. split; [reflexivity|]. split; [exact Hne|]. split; [exact G|]. split; [apply occ_start; exact Hne|].
  split; [exact Hst|]. cbn [tstring occurrence_tok].
  replace (match mid with [] => -1 | q :: _ => pstart q end) with (pstart (hd dpiece mid)) by (destruct mid; [contradiction | reflexivity]).
  apply MSlice. exact Hne.
Qed.

(* an unmatched token owns its piece *)
Lemma unmatched_group (p : piece) : In p P -> is_word_piece O p = true -> grp (unmatched p : tok) = [p].
Proof.
  intros Hp Hw. assert (Hin : In p wps) by (apply filter_In; split; assumption).
  apply in_split in Hin as [pre [post E]]. unfold grp. rewrite E.
  change (pre ++ p :: post) with (pre ++ [p] ++ post).
  apply (filter_window pre [p] post); [|discriminate | reflexivity | reflexivity].
  change (pre ++ [p] ++ post) with (pre ++ p :: post). rewrite <- E. apply word_pieces_incr.
Qed.

(* what each token of Trie.tokenize stands for *)
Definition tok_acc (t : tok) (g : list piece) : Prop :=
  match tvalue t with
  | Some v => g <> [] /\ (exists sp, get_out (lws O g) (outs tr) = Some (sp, v)) /\ tstart t = pstart (hd dpiece g) /\ starts_word t /\
              made_of O text (tstring t) g
  | None => exists p, g = [p] /\ In p P /\ is_word_piece O p = true /\ t = unmatched p /\ In t (t_tokenize O tr text)
  end.

Theorem tokens_accounted : Forall (fun t => tok_acc t (grp t)) (t_tokenize O tr text).
Proof.
  apply Forall_forall. intros t Ht. pose proof Ht as Ht0. unfold t_tokenize in Ht. apply retok_from_word in Ht as [Hm|[p [Hp [Hw ->]]]].
  - apply fo_sub in Hm. destruct (matched_group t Hm) as [sp [v [Ev [Hne [G [Hs [Hw Hmo]]]]]]].
    unfold tok_acc. rewrite Ev. split; [exact Hne|]. split; [exists sp; exact G|]. split; [exact Hs|]. split; [exact Hw | exact Hmo].
  - unfold tok_acc. cbn [tvalue unmatched]. exists p. split; [apply unmatched_group; assumption|]. repeat split; assumption.
Qed.

End Groups.

(* ---- runs of unmatched tokens become one unknown license ---- *)
Section Merge.
Variable O : oracle.
Hypothesis sp_is_space : is_space O 32%N = true.
Variable T : list entry.
Variable text : str.
Notation ltok := (Trie.tok kv).
Notation tr := (build_trie O T).
Notation P := (pieces O text).

Definition wordp (p : piece) : Prop := In p P /\ is_word_piece O p = true.
(* the piece was left unmatched by Trie.tokenize: it is one of its value-less tokens *)
Definition unm_p (p : piece) : Prop := In (unmatched p : ltok) (t_tokenize O tr text).

Lemma wordp_word p : wordp p -> word O (ptext p).
Proof.
  intros [Hp Hw]. destruct (piece_cls_spec O text p Hp) as [Hall _].
  unfold is_word_piece, piece_cls in *. destruct (ptext p) as [|c r] eqn:E; [discriminate|]. split; [discriminate|].
  unfold nospace. apply forallb_forall. intros x Hx. specialize (Hall x Hx). cbn in Hall.
  unfold cls_of in *. destruct (is_space O x); [|reflexivity]. destruct (is_space O c); [discriminate|].
  destruct (is_paren c); discriminate.
Qed.

Lemma mk_symbol_words ws sy : Forall (word O) ws -> ws <> [] -> mk_symbol O (join_sp ws) false = Ok sy ->
  key sy = join_sp ws /\ exc sy = false.
Proof.
  intros Hw Hne. unfold mk_symbol, mk_key.
  destruct (join_sp ws) as [|c0 s0] eqn:E; [exfalso; apply (join_sp_nonempty O ws Hw Hne); exact E|]. rewrite <- E.
  rewrite (strip_join O ws Hw). rewrite E. rewrite <- E.
  destruct (negb (forallb (valid_key_char O) (join_sp ws))); [discriminate|].
  rewrite (norm_spaces_join O sp_is_space ws Hw).
  destruct (is_keyword_str (lower O (join_sp ws))); [discriminate|]. cbn [obind]. intro H. inversion H; subst. split; reflexivity.
Qed.

Lemma flush_nonblank (u : ltok) (rest : list ltok) : (forall t, In t (u :: rest) -> tok_blank O t = false) ->
  flush_unknown O (u :: rest) =
  obind (mk_symbol O (join_sp (map (fun t => tstring t) (rev (u :: rest)))) false) (fun sy =>
    Ok [{| tstart := match rev (u :: rest) with t :: _ => tstart t | [] => 0 end; tend := tend u;
           tstring := join_sp (map (fun t => tstring t) (rev (u :: rest))); tvalue := Some (VSym sy) |}]).
Proof.
  intro H. unfold flush_unknown. cbn [split_trailing]. rewrite (H u (or_introl eq_refl)).
  assert (Ef : filter (fun t => negb (tok_blank O t)) (rev (u :: rest)) = rev (u :: rest)).
  { apply filter_all. intros t Ht. apply in_rev in Ht. rewrite (H t Ht). reflexivity. }
  rewrite Ef. destruct (mk_symbol O (join_sp (map (fun t => tstring t) (rev (u :: rest)))) false); reflexivity.
Qed.

(* after the merger: a token stands for a stored name, or is a new symbol whose key is its words *)
Definition tok_acc1 (t : ltok) (g : list piece) : Prop :=
  g <> [] /\ tstart t = pstart (hd dpiece g) /\ starts_word O t /\ made_of O text (tstring t) g /\
  match tvalue t with
  | Some v => (exists sp, get_out (lws O g) (outs tr) = Some (sp, v)) \/
              (exists sy, v = VSym sy /\ exc sy = false /\ key sy = join_sp (map ptext g) /\ Forall wordp g /\
                          tstring t = join_sp (map ptext g) /\ Forall unm_p g /\ mk_key O (key sy) = Ok (key sy))
  | None => False
  end.

Definition pending_ok (unm : list ltok) (gu : list piece) : Prop :=
  map (fun t => tstring t) (rev unm) = map ptext gu /\ Forall wordp gu /\
  (forall t, In t unm -> tok_blank O t = false) /\
  match rev unm with t0 :: _ => tstart t0 = pstart (hd dpiece gu) | [] => True end /\ Forall unm_p gu.

Lemma pending_nil : pending_ok [] [].
Proof. repeat split; [constructor | intros t [] | constructor]. Qed.

Lemma flush_acc unm gu r : pending_ok unm gu -> flush_unknown O unm = Ok r ->
  exists gs', Forall2 tok_acc1 r gs' /\ concat gs' = gu.
Proof.
  intros [Hs [Hw [Hb [Hst Hun]]]] Hf. destruct unm as [|u rest].
  - cbn in Hf. inversion Hf; subst. destruct gu; [|discriminate]. exists []. split; [constructor | reflexivity].
  - pose proof (flush_nonblank u rest Hb) as Hfl. rewrite Hfl in Hf. clear Hfl.
    remember (rev (u :: rest)) as ru eqn:Eru.
    assert (Hru : ru <> []).
    { intro E. rewrite E in Eru. apply (f_equal (@length ltok)) in Eru. rewrite rev_length in Eru. discriminate. }
    rewrite Hs in Hf.
    assert (Hne : gu <> []).
    { intro E. subst gu. destruct ru; [contradiction | discriminate]. }
    assert (Hww : Forall (word O) (map ptext gu)).
    { apply Forall_forall. intros w Hin. apply in_map_iff in Hin as [p [<- Hp]]. apply wordp_word. rewrite Forall_forall in Hw. apply Hw; exact Hp. }
    assert (Hne' : map ptext gu <> []) by (destruct gu; [contradiction | discriminate]).
    destruct (mk_symbol O (join_sp (map ptext gu)) false) as [sy| | | | |] eqn:Em; try discriminate. cbn [obind] in Hf. inversion Hf; subst r.
    destruct (mk_symbol_words _ sy Hww Hne' Em) as [Hk He].
    exists [gu]. split; [|cbn; rewrite app_nil_r; reflexivity]. constructor; [|constructor].
    unfold tok_acc1. cbn [tstart tvalue tstring]. split; [exact Hne|]. split; [|split; [|split]].
    + destruct ru as [|t0 l]; [contradiction | exact Hst].
    + destruct (join_words_head O (map ptext gu) Hww Hne') as [c0 [r0 [Ej Hc0]]]. exists c0, r0. cbn [tstring]. split; assumption.
    + apply MJoin.
    + right. exists sy. assert (Hmk : mk_key O (key sy) = Ok (key sy)).
      { unfold mk_symbol in Em. destruct (mk_key O (join_sp (map ptext gu))) as [k'| | | | |] eqn:Ek; try discriminate.
        cbn [obind] in Em. inversion Em; subst sy. cbn [key] in *. rewrite Hk. rewrite Hk in Ek. exact Ek. }
      repeat split; assumption.
Qed.

Lemma build_unknown_acc : forall (ts : list ltok) gs unm gu r,
  Forall2 (tok_acc O tr text) ts gs -> pending_ok unm gu -> build_unknown O unm ts = Ok r ->
  exists gs', Forall2 tok_acc1 r gs' /\ concat gs' = gu ++ concat gs.
Proof.
  induction ts as [|t ts IH]; intros gs unm gu r HF Hp Hb.
  - inversion HF; subst. cbn [build_unknown] in Hb. destruct (flush_acc unm gu r Hp Hb) as [gs' [F E]].
    exists gs'. split; [exact F | rewrite E; cbn; rewrite app_nil_r; reflexivity].
  - inversion HF as [|? g ? gs0 Ht HF']; subst. cbn [build_unknown] in Hb. unfold tok_acc in Ht.
    destruct (tvalue t) as [v|] eqn:Ev.
    + destruct (flush_unknown O unm) as [pre| | | | |] eqn:Ef; try discriminate. cbn [obind] in Hb.
      destruct (build_unknown O [] ts) as [post| | | | |] eqn:Eb; try discriminate. cbn [obind] in Hb. inversion Hb; subst r.
      destruct (flush_acc unm gu pre Hp Ef) as [g1 [F1 E1]].
      destruct (IH gs0 [] [] post HF' pending_nil Eb) as [g2 [F2 E2]].
      exists (g1 ++ g :: g2). split.
      * apply Forall2_app; [exact F1|]. constructor; [|exact F2].
        destruct Ht as [Hne [Hg [Hs [Hsw Hmo]]]]. unfold tok_acc1. rewrite Ev. split; [exact Hne|]. split; [exact Hs|]. split; [exact Hsw|].
        split; [exact Hmo | left; exact Hg].
      * rewrite concat_app. cbn [concat]. rewrite E1, E2. reflexivity.
    + destruct Ht as [p [-> [HpP [Hw [-> Hin]]]]].
      assert (Hnb : tok_blank O (unmatched p : ltok) = false).
      { unfold tok_blank, unmatched. cbn [tstring]. destruct (wordp_word p (conj HpP Hw)) as [Hne Hns].
        destruct (ptext p) as [|c r0]; [contradiction|]. unfold blank. cbn [forallb]. unfold nospace in Hns. cbn [forallb] in Hns.
        apply andb_true_iff in Hns as [Hc _]. apply negb_true_iff in Hc. rewrite Hc. reflexivity. }
      destruct Hp as [Hs [Hww [Hbl [Hst Hun]]]].
      assert (Hp' : pending_ok (unmatched p :: unm) (gu ++ [p])).
      { split; [|split; [|split; [|split]]]; [| | | |apply Forall_app; split; [exact Hun | constructor; [exact Hin | constructor]]].
        - cbn [rev]. rewrite !map_app. rewrite Hs. reflexivity.
        - apply Forall_app. split; [exact Hww | constructor; [split; assumption | constructor]].
        - intros t [<-|Ht]; [exact Hnb | apply Hbl; exact Ht].
        - cbn [rev]. destruct (rev unm) as [|t0 l] eqn:Er.
          + assert (unm = []) by (apply (f_equal (@rev ltok)) in Er; rewrite rev_involutive in Er; exact Er). subst unm.
            cbn in Hs. destruct gu; [|discriminate]. reflexivity.
          + cbn [app]. rewrite Hst. destruct gu as [|q gu']; [|reflexivity]. exfalso.
            apply (f_equal (@length str)) in Hs. rewrite !map_length in Hs. discriminate. }
      cbn [concat]. destruct unm as [|u rest].
      * rewrite Hnb in Hb. destruct gu; [|discriminate Hs].
        destruct (IH gs0 [unmatched p] ([] ++ [p]) r HF' Hp' Hb) as [gs' [F E]]. exists gs'. split; [exact F | exact E].
      * destruct (IH gs0 (unmatched p :: u :: rest) (gu ++ [p]) r HF' Hp' Hb) as [gs' [F E]]. exists gs'. split; [exact F|].
        rewrite E. rewrite <- app_assoc. reflexivity.
Qed.


(* ---- the blank filter drops nothing here ---- *)
Lemma drop_blank_id : forall (r : list ltok) gs, Forall2 tok_acc1 r gs -> drop_blank O r = r.
Proof.
  induction r as [|t r IH]; intros gs HF; [reflexivity|]. inversion HF as [|? g ? gs0 Ht HF']; subst.
  unfold drop_blank in *. cbn [filter]. destruct Ht as [_ [_ [[c0 [r0 [Es Hc]]] _]]]. rewrite Es.
  unfold tok_blank, blank. rewrite Es. cbn [forallb]. rewrite Hc. cbn [andb negb]. f_equal. apply (IH gs0 HF').
Qed.

(* ---- what a (type, string, position) triple of Licensing.tokenize stands for ---- *)
Section Triples.
(* what a keyword value / a symbol value accounts for, left abstract: the two tokenizers differ here *)
Variable A_kw : kw -> list piece -> Prop.
Variable A_sym : sym -> list piece -> Prop.

Definition vtok_acc (t : ltok) (g : list piece) : Prop :=
  g <> [] /\ tstart t = pstart (hd dpiece g) /\ made_of O text (tstring t) g /\
  match tvalue t with Some (VKw k) => A_kw k g | Some (VSym s) => A_sym s g | None => False end.

Definition ptok_acc (p : ptok) (g : list piece) : Prop :=
  g <> [] /\ ppos p = pstart (hd dpiece g) /\ made_of O text (pstr p) g /\
  match pt p with
  | TA => A_kw KAnd g | TO => A_kw KOr g | TL => A_kw KLp g | TR => A_kw KRp g
  | TS (Plain s) => A_sym s g
  | TS (With l r) => exists gl gw gr, g = gl ++ gw ++ gr /\ A_kw KWith gw /\ A_sym l gl /\ A_sym r gr
  end.

Lemma hd_app_ne (a b : list piece) : a <> [] -> hd dpiece (a ++ b) = hd dpiece a.
Proof. destruct a; [contradiction | reflexivity]. Qed.

Lemma replace_acc strict : forall n (toks : list ltok) gs ptoks, (length toks <= n)%nat ->
  Forall2 vtok_acc toks gs -> replace_with O strict (greedy toks) = Ok ptoks ->
  exists gs', Forall2 ptok_acc ptoks gs' /\ concat gs' = concat gs.
Proof.
  induction n as [|n IH]; intros toks gs ptoks Hl HF Hr.
  - destruct toks; [|simpl in Hl; lia]. inversion HF; subst. cbn in Hr. inversion Hr; subst. exists []. split; [constructor | reflexivity].
  - destruct toks as [|a rest]; [inversion HF; subst; cbn in Hr; inversion Hr; subst; exists []; split; [constructor | reflexivity]|].
    inversion HF as [|? ga ? gs0 Ha HF0]; subst.
    (* one token taken *)
    assert (One : replace_with O strict (G1 a :: greedy rest) = Ok ptoks ->
                  exists gs', Forall2 ptok_acc ptoks gs' /\ concat gs' = concat (ga :: gs0)).
    { cbn [replace_with]. intro H1. destruct Ha as [Hne [Hs [Hmo Hv]]]. destruct (tvalue a) as [[k|s]|] eqn:Ev; [| |discriminate].
      - destruct (tk_of_kw k) as [ty|] eqn:Ek; [|discriminate].
        destruct (replace_with O strict (greedy rest)) as [r0| | | | |] eqn:Er; try discriminate. cbn [obind] in H1. inversion H1; subst ptoks.
        destruct (IH rest gs0 r0 ltac:(simpl in Hl; lia) HF0 Er) as [g' [F' E']].
        exists (ga :: g'). split; [|cbn [concat]; rewrite E'; reflexivity]. constructor; [|exact F'].
        unfold ptok_acc. cbn [pt ppos pstr]. split; [exact Hne|]. split; [exact Hs|]. split; [exact Hmo|].
        destruct k; inversion Ek; subst; exact Hv.
      - destruct (strict && exc s); [discriminate|].
        destruct (replace_with O strict (greedy rest)) as [r0| | | | |] eqn:Er; try discriminate. cbn [obind] in H1. inversion H1; subst ptoks.
        destruct (IH rest gs0 r0 ltac:(simpl in Hl; lia) HF0 Er) as [g' [F' E']].
        exists (ga :: g'). split; [|cbn [concat]; rewrite E'; reflexivity]. constructor; [|exact F'].
        unfold ptok_acc. cbn [pt ppos pstr]. split; [exact Hne|]. split; [exact Hs|]. split; [exact Hmo | exact Hv]. }
    cbn [greedy] in Hr. destruct rest as [|w [|b rest']]; [apply One; exact Hr | apply One; exact Hr |].
    destruct (is_with3 a w b) eqn:E3; [|apply One; exact Hr].
    inversion HF0 as [|? gw ? gs1 Hw HF1]; subst. inversion HF1 as [|? gb ? gs2 Hb HF2]; subst.
    cbn [replace_with] in Hr.
    unfold is_with3, is_sym_tok, is_with_tok in E3.
    destruct Ha as [Hne [Hs [Hmoa Hva]]]. destruct Hw as [_ [_ [Hmow Hvw]]]. destruct Hb as [_ [_ [Hmob Hvb]]].
    destruct (tvalue a) as [[ka|l]|] eqn:Eva; try discriminate.
    destruct (tvalue w) as [[[]|sw]|] eqn:Evw; try discriminate.
    destruct (tvalue b) as [[kb|r]|] eqn:Evb; try discriminate.
    destruct (strict && exc l); [discriminate|]. destruct (strict && negb (exc r)); [discriminate|].
    destruct (replace_with O strict (greedy rest')) as [r0| | | | |] eqn:Er; try discriminate. cbn [obind] in Hr. inversion Hr; subst ptoks.
    destruct (IH rest' gs2 r0 ltac:(simpl in Hl; lia) HF2 Er) as [g' [F' E']].
    exists ((ga ++ gw ++ gb) :: g'). split.
    + constructor; [|exact F'].
      unfold ptok_acc. cbn [pt ppos pstr]. split; [destruct ga; [contradiction | discriminate]|].
      split; [rewrite hd_app_ne by exact Hne; exact Hs|]. split; [apply MWith; assumption|]. exists ga, gw, gb. repeat split; assumption.
    + cbn [concat]. rewrite E'. rewrite <- !app_assoc. reflexivity.
Qed.

End Triples.

(* the default tokenizer: a keyword / a known license stands for the words under which it is stored,
   an unknown license for the words of its key *)
Definition kw_acc (k : kw) (g : list piece) : Prop :=
  exists name, In (name, VKw k) keyword_adds /\ lws O g = lwords O name.
Definition sym_acc (s : sym) (g : list piece) : Prop :=
  (exists name, In (name, VSym s) (flat_map (entry_adds O) T) /\ lws O g = lwords O name) \/
  (exc s = false /\ key s = join_sp (map ptext g) /\ Forall wordp g /\ g <> [] /\ Forall unm_p g /\ mk_key O (key s) = Ok (key s)).

Lemma stored_in_table g sp v : get_out (lws O g) (outs tr) = Some (sp, v) ->
  In (sp, v) (keyword_adds ++ flat_map (entry_adds O) T) /\ lwords O sp = lws O g.
Proof.
  unfold build_trie. cbn [outs t_make_automaton].
  change (add_all O t_empty (keyword_adds ++ flat_map (entry_adds O) T)) with (add_ops O t_empty (keyword_adds ++ flat_map (entry_adds O) T)).
  rewrite (get_out_add_ops O _ t_empty (lws O g) eq_refl).
  destruct (stored O (keyword_adds ++ flat_map (entry_adds O) T) (lws O g)) as [[n w]|] eqn:Es; [|cbn; discriminate].
  intro H. inversion H; subst. destruct (stored_words O _ _ _ _ Es) as [A B]. split; assumption.
Qed.

Lemma entry_adds_sym e n v : In (n, v) (entry_adds O e) -> exists s, v = VSym s.
Proof.
  unfold entry_adds. intros [H|H]; [inversion H; eexists; reflexivity|].
  apply in_flat_map in H as [a [_ H]]. destruct a; [destruct H|]. destruct H as [H|[]]. inversion H. eexists; reflexivity.
Qed.

Lemma value_kw g sp k : get_out (lws O g) (outs tr) = Some (sp, VKw k) -> kw_acc k g.
Proof.
  intro G. destruct (stored_in_table g sp (VKw k) G) as [Hin Hl]. exists sp. split; [|symmetry; exact Hl].
  apply in_app_or in Hin as [H|H]; [exact H|]. exfalso.
  apply in_flat_map in H as [e [_ H]]. destruct (entry_adds_sym e sp _ H) as [s Hs]. discriminate.
Qed.

Lemma value_sym g sp s : get_out (lws O g) (outs tr) = Some (sp, VSym s) -> sym_acc s g.
Proof.
  intro G. destruct (stored_in_table g sp (VSym s) G) as [Hin Hl]. left. exists sp. split; [|symmetry; exact Hl].
  apply in_app_or in Hin as [H|H]; [|exact H]. exfalso. unfold keyword_adds in H. simpl in H.
  repeat (destruct H as [H|H]; [discriminate|]). destruct H.
Qed.

Lemma tok_acc1_vtok t g : tok_acc1 t g -> vtok_acc kw_acc sym_acc t g.
Proof.
  intros [Hne [Hs [_ [Hmo Hv]]]]. split; [exact Hne|]. split; [exact Hs|]. split; [exact Hmo|].
  destruct (tvalue t) as [[k|s]|]; [| |exact Hv].
  - destruct Hv as [[sp G]|[sy [E _]]]; [apply (value_kw g sp k G) | discriminate].
  - destruct Hv as [[sp G]|[sy [E [He [Hk [Hw [_ [Hun Hmk]]]]]]]]; [apply (value_sym g sp s G)|].
    inversion E; subst sy. right. repeat split; try assumption.
Qed.

(* ---- C01, default tokenizer: the words of the text are accounted for by the tokens, in order ---- *)
Theorem words_accounted strict ptoks : lic_tokenize O T strict false text = Ok ptoks ->
  exists gs, concat gs = filter (is_word_piece O) (pieces O text) /\ Forall2 (ptok_acc kw_acc sym_acc) ptoks gs.
Proof.
  unfold lic_tokenize. destruct text as [|c0 s0] eqn:Etext.
  - intro H. inversion H; subst. exists []. split; [reflexivity | constructor].
  - rewrite <- Etext in *. cbn [obind]. intro H.
    set (toks := t_tokenize O tr text) in *.
    destruct (build_unknown O [] toks) as [r| | | | |] eqn:Eb; try discriminate. cbn [obind] in H.
    assert (HF : Forall2 (tok_acc O tr text) toks (map (grp O text) toks)).
    { pose proof (tokens_accounted O tr (build_trie_wf O T) text) as Ha. fold toks in Ha.
      clear -Ha. induction toks as [|t l IH]; [constructor|]. inversion Ha; subst. constructor; [assumption | apply IH; assumption]. }
    destruct (build_unknown_acc toks _ [] [] r HF pending_nil Eb) as [gs1 [F1 E1]].
    rewrite (drop_blank_id r gs1 F1) in H. rewrite group_with_greedy in H.
    assert (F1v : Forall2 (vtok_acc kw_acc sym_acc) r gs1).
    { clear -F1. induction F1; constructor; [apply tok_acc1_vtok; assumption | assumption]. }
    destruct (replace_acc kw_acc sym_acc strict (length r) r gs1 ptoks (le_n _) F1v H) as [gs' [F' E']].
    exists gs'. split; [|exact F']. rewrite E', E1. cbn [app]. rewrite <- flat_map_concat_map.
    apply (groups_partition O tr (build_trie_wf O T) text).
Qed.


(* ---- C01, simple tokenizer: one token per non-blank piece ---- *)
Definition kw_word (k : kw) : str :=
  match k with KAnd => s_and | KOr => s_or | KWith => s_with | KLp => s_lpar | KRp => s_rpar end.
Definition kw_acc_s (k : kw) (g : list piece) : Prop :=
  exists p, g = [p] /\ (lower O (ptext p) = kw_word k \/ ptext p = kw_word k).
Definition sym_acc_s (s : sym) (g : list piece) : Prop :=
  exists p, g = [p] /\ ((exists e, In e T /\ s = entry_sym e /\ lower O (ptext p) = lower O (ekey e)) \/
                        (exc s = false /\ key s = ptext p)).

Lemma lookup_lower_in : forall T' l s, lookup_lower O T' l = Some s ->
  exists e, In e T' /\ s = entry_sym e /\ lower O (ekey e) = l.
Proof.
  induction T' as [|e T' IH]; intros l s H; [discriminate|]. cbn [lookup_lower] in H.
  destruct (lookup_lower O T' l) as [s'|] eqn:E.
  - inversion H; subst. destruct (IH l s E) as [e' [He [Hs Hl]]]. exists e'. split; [right; exact He | split; assumption].
  - destruct (str_eqb (lower O (ekey e)) l) eqn:Eq; [|discriminate]. inversion H; subst.
    exists e. split; [left; reflexivity | split; [reflexivity | apply str_eqb_eq; exact Eq]].
Qed.

Lemma simple_token_acc p t : In p P -> is_word_piece O p = true -> simple_token O T p = Ok t ->
  vtok_acc kw_acc_s sym_acc_s t [p].
Proof.
  intros Hp Hw. unfold simple_token. destruct (piece_cls O p) eqn:Ec.
  - unfold is_word_piece in Hw. rewrite Ec in Hw. discriminate.
  - intro H. inversion H; subst t. split; [discriminate|]. split; [reflexivity|]. split; [exact (MJoin O text [p])|]. cbn [tvalue].
    exists p. split; [reflexivity|]. right.
    destruct (piece_cls_spec O text p Hp) as [Hall Hlen]. specialize (Hlen Ec).
    destruct (ptext p) as [|c [|c2 r]] eqn:Et; try discriminate.
    assert (Hcp : is_paren c = true).
    { specialize (Hall c (or_introl eq_refl)). rewrite Ec in Hall. unfold cls_of in Hall.
      destruct (is_space O c); [discriminate|]. destruct (is_paren c); [reflexivity | discriminate]. }
    unfold is_paren, c_lpar, c_rpar in Hcp. apply orb_true_iff in Hcp as [H1|H1]; apply N.eqb_eq in H1; subst c; reflexivity.
  - destruct (str_eqb (lower O (ptext p)) s_and) eqn:E1.
    { intro H. inversion H; subst t. split; [discriminate|]. split; [reflexivity|]. split; [exact (MJoin O text [p])|]. cbn [tvalue].
      exists p. split; [reflexivity|]. left. apply str_eqb_eq. exact E1. }
    destruct (str_eqb (lower O (ptext p)) s_or) eqn:E2.
    { intro H. inversion H; subst t. split; [discriminate|]. split; [reflexivity|]. split; [exact (MJoin O text [p])|]. cbn [tvalue].
      exists p. split; [reflexivity|]. left. apply str_eqb_eq. exact E2. }
    destruct (str_eqb (lower O (ptext p)) s_with) eqn:E3.
    { intro H. inversion H; subst t. split; [discriminate|]. split; [reflexivity|]. split; [exact (MJoin O text [p])|]. cbn [tvalue].
      exists p. split; [reflexivity|]. left. apply str_eqb_eq. exact E3. }
    destruct (lookup_lower O T (lower O (ptext p))) as [s|] eqn:El.
    + intro H. inversion H; subst t. split; [discriminate|]. split; [reflexivity|]. split; [exact (MJoin O text [p])|]. cbn [tvalue].
      exists p. split; [reflexivity|]. left. destruct (lookup_lower_in T _ s El) as [e [He [Hs Hl]]].
      exists e. repeat split; try assumption. symmetry; exact Hl.
    + destruct (mk_symbol O (ptext p) false) as [sy| | | | |] eqn:Em; cbn [obind]; try discriminate.
      intro H. inversion H; subst t. split; [discriminate|]. split; [reflexivity|]. split; [exact (MJoin O text [p])|]. cbn [tvalue].
      exists p. split; [reflexivity|]. right.
      assert (Hww : Forall (word O) [ptext p]) by (constructor; [apply wordp_word; split; assumption | constructor]).
      destruct (mk_symbol_words [ptext p] sy Hww ltac:(discriminate) Em) as [Hk He]. split; [exact He | exact Hk].
Qed.

Lemma simple_tokens_acc : forall ps S, (forall p, In p ps -> In p P) -> mapo (simple_token O T) ps = Ok S ->
  Forall2 (vtok_acc kw_acc_s sym_acc_s) (drop_blank O S) (map (fun p => [p]) (filter (is_word_piece O) ps)).
Proof.
  induction ps as [|p ps IH]; intros S Hsub Hm; cbn [mapo] in Hm.
  - inversion Hm; subst. constructor.
  - destruct (simple_token O T p) as [t| | | | |] eqn:Eg; try discriminate. cbn [obind] in Hm.
    destruct (mapo (simple_token O T) ps) as [S0| | | | |] eqn:Em; try discriminate. cbn [obind] in Hm. inversion Hm; subst S.
    assert (Hsub' : forall q, In q ps -> In q P) by (intros q Hq; apply Hsub; right; exact Hq).
    specialize (IH S0 Hsub' eq_refl). cbn [filter]. destruct (is_word_piece O p) eqn:Ew.
    + destruct (simple_token_shape O T p t Eg) as [Hs _].
      destruct (word_piece_nonblank O text p (Hsub p (or_introl eq_refl)) Ew) as [Hne Hnb].
      rewrite drop_blank_cons_keep; [|rewrite Hs; exact Hne | unfold tok_blank; rewrite Hs; exact Hnb].
      cbn [map]. constructor; [|exact IH]. apply (simple_token_acc p t (Hsub p (or_introl eq_refl)) Ew Eg).
    + destruct (space_piece_token O T text p (Hsub p (or_introl eq_refl)) Ew) as [t' [Eg' Hb]].
      rewrite Eg in Eg'. inversion Eg'; subst t'. rewrite drop_blank_cons_drop by exact Hb. exact IH.
Qed.

Theorem words_accounted_simple strict ptoks : lic_tokenize O T strict true text = Ok ptoks ->
  exists gs, concat gs = filter (is_word_piece O) (pieces O text) /\ Forall2 (ptok_acc kw_acc_s sym_acc_s) ptoks gs.
Proof.
  unfold lic_tokenize. destruct text as [|c0 s0] eqn:Etext.
  - intro H. inversion H; subst. exists []. split; [reflexivity | constructor].
  - rewrite <- Etext in *. rewrite simple_tokens_mapo.
    destruct (mapo (simple_token O T) P) as [S| | | | |] eqn:Em; try discriminate. cbn [obind].
    rewrite (build_unknown_valued O S (simple_valued O T text P S (fun p H => H) Em)). cbn [obind].
    rewrite group_with_greedy. intro H.
    pose proof (simple_tokens_acc P S (fun p H => H) Em) as HF.
    destruct (replace_acc kw_acc_s sym_acc_s strict _ _ _ ptoks (le_n _) HF H) as [gs' [F' E']].
    exists gs'. split; [|exact F']. rewrite E'. clear. induction (filter (is_word_piece O) P) as [|p l IH]; [reflexivity|].
    cbn [map concat app]. rewrite IH. reflexivity.
Qed.


(* ---- the whole statement for parse() ---- *)
Theorem parse_accounted strict e : parse_tokens O T strict false text = Ok e ->
  exists ptoks gs, lic_tokenize O T strict false text = Ok ptoks /\ literals e = tok_atoms ptoks /\
                   concat gs = filter (is_word_piece O) (pieces O text) /\ Forall2 (ptok_acc kw_acc sym_acc) ptoks gs.
Proof.
  unfold parse_tokens. destruct (lic_tokenize O T strict false text) as [ptoks| | | | |] eqn:El; try discriminate. cbn [obind].
  intro H. destruct (bparse ptoks) as [e'| | |] eqn:Eb; try discriminate. cbn [of_pres] in H. inversion H; subst e'.
  destruct (words_accounted strict ptoks El) as [gs [E F]].
  exists ptoks, gs. split; [reflexivity|]. split; [apply bparse_literals; exact Eb|]. split; assumption.
Qed.

Theorem parse_accounted_simple strict e : parse_tokens O T strict true text = Ok e ->
  exists ptoks gs, lic_tokenize O T strict true text = Ok ptoks /\ literals e = tok_atoms ptoks /\
                   concat gs = filter (is_word_piece O) (pieces O text) /\ Forall2 (ptok_acc kw_acc_s sym_acc_s) ptoks gs.
Proof.
  unfold parse_tokens. destruct (lic_tokenize O T strict true text) as [ptoks| | | | |] eqn:El; try discriminate. cbn [obind].
  intro H. destruct (bparse ptoks) as [e'| | |] eqn:Eb; try discriminate. cbn [of_pres] in H. inversion H; subst e'.
  destruct (words_accounted_simple strict ptoks El) as [gs [E F]].
  exists ptoks, gs. split; [reflexivity|]. split; [apply bparse_literals; exact Eb|]. split; assumption.
Qed.

End Merge.
