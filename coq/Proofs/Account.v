(* C01: the words of the text are the concatenation, in order, of the words each token stands for:
   an operator or parenthesis for itself, an unknown license for the words of its key verbatim, a
   known license for the words of its key or of one of its aliases (ignoring case). *)
Require Import Model.Base Model.Expr Model.Split Model.Trie Model.Overlap Model.LicTok Model.BoolParse Model.Licensing.
Require Import Proofs.Symbol Proofs.Strings Proofs.Split Proofs.Overlap Proofs.Trie Proofs.Recognise Proofs.Cover Proofs.Select
               Proofs.WithGroup Proofs.SimpleAgree.
From Coq Require Import Lia ZifyBool.
Open Scope Z_scope.

(* ---- position-ordered piece lists ---- *)
Lemma incr_lists_equal : forall l1 l2, incr l1 -> incr l2 -> (forall p, In p l1 <-> In p l2) -> l1 = l2.
Proof.
  induction l1 as [|a l1 IH]; intros l2 I1 I2 Hm.
  - destruct l2 as [|b l2]; [reflexivity|]. exfalso. apply (proj2 (Hm b)). left; reflexivity.
  - destruct l2 as [|b l2]; [exfalso; apply (proj1 (Hm a)); left; reflexivity|].
    destruct I1 as [Na [A1 I1]]. destruct I2 as [Nb [A2 I2]].
    assert (Hab : a = b).
    { destruct (proj1 (Hm a) (or_introl eq_refl)) as [E|Ha]; [symmetry; exact E|].
      destruct (proj2 (Hm b) (or_introl eq_refl)) as [E|Hb]; [exact E|].
      specialize (A2 a Ha). specialize (A1 b Hb). lia. }
    subst b. f_equal. apply IH; [exact I1 | exact I2|].
    intro p. split; intro Hp.
    + destruct (proj1 (Hm p) (or_intror Hp)) as [E|H]; [|exact H]. subst p. specialize (A1 a Hp). lia.
    + destruct (proj2 (Hm p) (or_intror Hp)) as [E|H]; [|exact H]. subst p. specialize (A2 a Hp). lia.
Qed.

Lemma incr_app_intro : forall l1 l2, incr l1 -> incr l2 -> (forall p q, In p l1 -> In q l2 -> pend p < pstart q) -> incr (l1 ++ l2).
Proof.
  induction l1 as [|a l1 IH]; intros l2 I1 I2 H; [exact I2|]. destruct I1 as [Na [A1 I1]]. cbn [app incr].
  split; [exact Na|]. split.
  - intros q Hq. apply in_app_or in Hq as [Hq|Hq]; [apply A1; exact Hq | apply H; [left; reflexivity | exact Hq]].
  - apply IH; [exact I1 | exact I2|]. intros p q Hp Hq. apply H; [right; exact Hp | exact Hq].
Qed.

Lemma filter_none {A} (f : A -> bool) l : (forall x, In x l -> f x = false) -> filter f l = [].
Proof. induction l as [|a l IH]; intro H; [reflexivity|]. cbn [filter]. rewrite (H a (or_introl eq_refl)). apply IH. intros x Hx. apply H. right; exact Hx. Qed.
Lemma filter_all {A} (f : A -> bool) l : (forall x, In x l -> f x = true) -> filter f l = l.
Proof. induction l as [|a l IH]; intro H; [reflexivity|]. cbn [filter]. rewrite (H a (or_introl eq_refl)). f_equal. apply IH. intros x Hx. apply H. right; exact Hx. Qed.

(* the pieces of an increasing list that lie inside a window delimited by a contiguous part are that part *)
Lemma filter_window (pre mid post : list piece) (lo hi : Z) :
  incr (pre ++ mid ++ post) -> mid <> [] -> lo = pstart (hd dpiece mid) -> hi = pend (last mid dpiece) ->
  filter (fun p => (lo <=? pstart p) && (pend p <=? hi)) (pre ++ mid ++ post) = mid.
Proof.
  intros Hi Hne -> ->.
  apply incr_app in Hi as [Ipre [Imp Hpm]]. apply incr_app in Imp as [Imid [Ipost Hmp]].
  pose proof (hd_in dpiece mid Hne) as Hh. pose proof (last_in dpiece mid Hne) as Hl.
  rewrite !filter_app.
  assert (E1 : filter (fun p => (pstart (hd dpiece mid) <=? pstart p) && (pend p <=? pend (last mid dpiece))) pre = []).
  { apply filter_none. intros p Hp.
    specialize (Hpm p (hd dpiece mid) Hp (in_or_app _ _ _ (or_introl Hh))).
    pose proof (incr_piece_nonempty pre p Ipre Hp). lia. }
  assert (E3 : filter (fun p => (pstart (hd dpiece mid) <=? pstart p) && (pend p <=? pend (last mid dpiece))) post = []).
  { apply filter_none. intros p Hp.
    specialize (Hmp (last mid dpiece) p Hl Hp).
    pose proof (incr_piece_nonempty post p Ipost Hp). lia. }
  assert (E2 : filter (fun p => (pstart (hd dpiece mid) <=? pstart p) && (pend p <=? pend (last mid dpiece))) mid = mid).
  { apply filter_all. intros p Hp.
    destruct (incr_first_last mid dpiece Imid Hne p Hp) as [A B]. pose proof (incr_piece_nonempty mid p Imid Hp). lia. }
  rewrite E1, E2, E3. rewrite app_nil_r. reflexivity.
Qed.

(* ---- every token of the matcher owns a run of consecutive word pieces ---- *)
Section Groups.
Context {V : Type}.
Variable O : oracle.
Variable tr : trie V.
Hypothesis W : wf_trie tr.
Variable text : str.
Notation tok := (Trie.tok V).
Notation P := (pieces O text).
Notation wps := (filter (is_word_piece O) (pieces O text)).

Definition inside (t : tok) (p : piece) : bool := (tstart t <=? pstart p) && (pend p <=? tend t).
Definition grp (t : tok) : list piece := filter (inside t) wps.

Lemma grp_incr t : incr (grp t).
Proof. apply incr_filter. apply word_pieces_incr. Qed.

Lemma grps_incr : forall toks : list tok, chain_after toks -> incr (flat_map grp toks).
Proof.
  induction toks as [|t toks IH]; intro Hc; [exact I|]. destruct Hc as [Ha Hc]. cbn [flat_map].
  apply incr_app_intro; [apply grp_incr | apply IH; exact Hc|].
  intros p q Hp Hq. apply filter_In in Hp as [_ Hp]. apply in_flat_map in Hq as [t' [Ht' Hq]]. apply filter_In in Hq as [_ Hq].
  specialize (Ha t' Ht'). unfold is_after, inside in *. lia.
Qed.

(* the groups of the tokens, in order, are the word pieces of the text *)
Theorem groups_partition : flat_map grp (t_tokenize O tr text) = wps.
Proof.
  apply incr_lists_equal.
  - apply grps_incr. apply (tokenize_ordered_disjoint O tr W text).
  - apply word_pieces_incr.
  - intro p. split.
    + intro Hp. apply in_flat_map in Hp as [t [_ Hp]]. apply filter_In in Hp as [Hp _]. exact Hp.
    + intro Hp. pose proof Hp as Hp0. apply filter_In in Hp as [HpP Hw].
      destruct (tokenize_covers_once O tr W text p HpP Hw) as [pre [t [post [E [[C1 C2] _]]]]].
      apply in_flat_map. exists t. split; [rewrite E; apply in_or_app; right; left; reflexivity|].
      apply filter_In. split; [exact Hp0 | unfold inside; lia].
Qed.

(* a match owns exactly the word pieces whose words spell the stored name *)
Lemma matched_group (t : tok) : In t (t_iter O tr text) ->
  exists sp v, tvalue t = Some v /\ grp t <> [] /\ get_out (lws O (grp t)) (outs tr) = Some (sp, v) /\
               tstart t = pstart (hd dpiece (grp t)).
Proof.
  intro H. apply (scan_exact O tr W text) in H as [pre [mid [post [sp [v [E [Hne [G ->]]]]]]]].
  change {| pstart := 0; ptext := [] |} with dpiece.
  assert (Eg : grp (occurrence_tok text mid (last mid dpiece) v) = mid).
  { unfold grp. rewrite E. apply filter_window.
    - rewrite <- E. apply word_pieces_incr.
    - exact Hne.
    - unfold inside. apply occ_start; exact Hne.
    - reflexivity. }
  exists sp, v. rewrite Eg. split; [reflexivity|]. split; [exact Hne|]. split; [exact G | apply occ_start; exact Hne].
Qed.

(* an unmatched token owns its piece *)
Lemma unmatched_group (p : piece) : In p P -> is_word_piece O p = true -> grp (unmatched p : tok) = [p].
Proof.
  intros Hp Hw. assert (Hin : In p wps) by (apply filter_In; split; assumption).
  apply in_split in Hin as [pre [post E]]. unfold grp. rewrite E.
  change (pre ++ p :: post) with (pre ++ [p] ++ post).
  apply (filter_window pre [p] post); [|discriminate | reflexivity | reflexivity].
  change (pre ++ [p] ++ post) with (pre ++ p :: post). rewrite <- E. apply word_pieces_incr.
Qed.

(* what each token of Trie.tokenize stands for *)
Definition tok_acc (t : tok) (g : list piece) : Prop :=
  match tvalue t with
  | Some v => g <> [] /\ (exists sp, get_out (lws O g) (outs tr) = Some (sp, v)) /\ tstart t = pstart (hd dpiece g)
  | None => exists p, g = [p] /\ In p P /\ is_word_piece O p = true /\ t = unmatched p
  end.

Theorem tokens_accounted : Forall (fun t => tok_acc t (grp t)) (t_tokenize O tr text).
Proof.
  apply Forall_forall. intros t Ht. unfold t_tokenize in Ht. apply retok_from_word in Ht as [Hm|[p [Hp [Hw ->]]]].
  - apply fo_sub in Hm. destruct (matched_group t Hm) as [sp [v [Ev [Hne [G Hs]]]]].
    unfold tok_acc. rewrite Ev. split; [exact Hne|]. split; [exists sp; exact G | exact Hs].
  - unfold tok_acc. cbn [tvalue unmatched]. exists p. split; [apply unmatched_group; assumption|]. repeat split; assumption.
Qed.

End Groups.

(* ---- runs of unmatched tokens become one unknown license ---- *)
Section Merge.
Variable O : oracle.
Hypothesis sp_is_space : is_space O 32%N = true.
Variable T : list entry.
Variable text : str.
Notation ltok := (Trie.tok kv).
Notation tr := (build_trie O T).
Notation P := (pieces O text).

Definition wordp (p : piece) : Prop := In p P /\ is_word_piece O p = true.

Lemma wordp_word p : wordp p -> word O (ptext p).
Proof.
  intros [Hp Hw]. destruct (piece_cls_spec O text p Hp) as [Hall _].
  unfold is_word_piece, piece_cls in *. destruct (ptext p) as [|c r] eqn:E; [discriminate|]. split; [discriminate|].
  unfold nospace. apply forallb_forall. intros x Hx. specialize (Hall x Hx). cbn in Hall.
  unfold cls_of in *. destruct (is_space O x); [|reflexivity]. destruct (is_space O c); [discriminate|].
  destruct (is_paren c); discriminate.
Qed.

Lemma mk_symbol_words ws sy : Forall (word O) ws -> ws <> [] -> mk_symbol O (join_sp ws) false = Ok sy ->
  key sy = join_sp ws /\ exc sy = false.
Proof.
  intros Hw Hne. unfold mk_symbol, mk_key.
  destruct (join_sp ws) as [|c0 s0] eqn:E; [exfalso; apply (join_sp_nonempty O ws Hw Hne); exact E|]. rewrite <- E.
  rewrite (strip_join O sp_is_space ws Hw). rewrite E. rewrite <- E.
  destruct (negb (forallb (valid_key_char O) (join_sp ws))); [discriminate|].
  rewrite (norm_spaces_join O sp_is_space ws Hw).
  destruct (is_keyword_str (lower O (join_sp ws))); [discriminate|]. cbn [obind]. intro H. inversion H; subst. split; reflexivity.
Qed.

Lemma flush_nonblank (u : ltok) (rest : list ltok) : (forall t, In t (u :: rest) -> tok_blank O t = false) ->
  flush_unknown O (u :: rest) =
  obind (mk_symbol O (join_sp (map (fun t => tstring t) (rev (u :: rest)))) false) (fun sy =>
    Ok [{| tstart := match rev (u :: rest) with t :: _ => tstart t | [] => 0 end; tend := tend u;
           tstring := join_sp (map (fun t => tstring t) (rev (u :: rest))); tvalue := Some (VSym sy) |}]).
Proof.
  intro H. unfold flush_unknown. cbn [split_trailing]. rewrite (H u (or_introl eq_refl)).
  assert (Ef : filter (fun t => negb (tok_blank O t)) (rev (u :: rest)) = rev (u :: rest)).
  { apply filter_all. intros t Ht. apply in_rev in Ht. rewrite (H t Ht). reflexivity. }
  rewrite Ef. destruct (mk_symbol O (join_sp (map (fun t => tstring t) (rev (u :: rest)))) false); reflexivity.
Qed.

(* after the merger: a token stands for a stored name, or is a new symbol whose key is its words *)
Definition tok_acc1 (t : ltok) (g : list piece) : Prop :=
  g <> [] /\ tstart t = pstart (hd dpiece g) /\
  match tvalue t with
  | Some v => (exists sp, get_out (lws O g) (outs tr) = Some (sp, v)) \/
              (exists sy, v = VSym sy /\ exc sy = false /\ key sy = join_sp (map ptext g) /\ Forall wordp g /\
                          tstring t = join_sp (map ptext g))
  | None => False
  end.

Definition pending_ok (unm : list ltok) (gu : list piece) : Prop :=
  map (fun t => tstring t) (rev unm) = map ptext gu /\ Forall wordp gu /\
  (forall t, In t unm -> tok_blank O t = false) /\
  match rev unm with t0 :: _ => tstart t0 = pstart (hd dpiece gu) | [] => True end.

Lemma pending_nil : pending_ok [] [].
Proof. repeat split; [constructor | intros t []]. Qed.

Lemma flush_acc unm gu r : pending_ok unm gu -> flush_unknown O unm = Ok r ->
  exists gs', Forall2 tok_acc1 r gs' /\ concat gs' = gu.
Proof.
  intros [Hs [Hw [Hb Hst]]] Hf. destruct unm as [|u rest].
  - cbn in Hf. inversion Hf; subst. destruct gu; [|discriminate]. exists []. split; [constructor | reflexivity].
  - rewrite (flush_nonblank u rest Hb) in Hf. rewrite Hs in Hf.
    assert (Hne : gu <> []).
    { intro E. subst gu. cbn in Hs. apply (f_equal (@length str)) in Hs. rewrite map_length, rev_length in Hs. discriminate. }
    assert (Hww : Forall (word O) (map ptext gu)).
    { apply Forall_forall. intros w Hin. apply in_map_iff in Hin as [p [<- Hp]]. apply wordp_word. rewrite Forall_forall in Hw. apply Hw; exact Hp. }
    assert (Hne' : map ptext gu <> []) by (destruct gu; [contradiction | discriminate]).
    destruct (mk_symbol O (join_sp (map ptext gu)) false) as [sy| | | | |] eqn:Em; try discriminate. cbn [obind] in Hf. inversion Hf; subst r.
    destruct (mk_symbol_words _ sy Hww Hne' Em) as [Hk He].
    exists [gu]. split; [|cbn; rewrite app_nil_r; reflexivity]. constructor; [|constructor].
    unfold tok_acc1. cbn [tstart tvalue tstring]. split; [exact Hne|]. split.
    + destruct (rev (u :: rest)) as [|t0 l] eqn:Er; [|exact Hst]. exfalso.
      apply (f_equal (@length ltok)) in Er. rewrite rev_length in Er. discriminate.
    + right. exists sy. repeat split; assumption.
Qed.

Lemma build_unknown_acc : forall (ts : list ltok) gs unm gu r,
  Forall2 (tok_acc O tr text) ts gs -> pending_ok unm gu -> build_unknown O unm ts = Ok r ->
  exists gs', Forall2 tok_acc1 r gs' /\ concat gs' = gu ++ concat gs.
Proof.
  induction ts as [|t ts IH]; intros gs unm gu r HF Hp Hb.
  - inversion HF; subst. cbn [build_unknown] in Hb. destruct (flush_acc unm gu r Hp Hb) as [gs' [F E]].
    exists gs'. split; [exact F | rewrite E; cbn; rewrite app_nil_r; reflexivity].
  - inversion HF as [|? g ? gs0 Ht HF']; subst. cbn [build_unknown] in Hb. unfold tok_acc in Ht.
    destruct (tvalue t) as [v|] eqn:Ev.
    + destruct (flush_unknown O unm) as [pre| | | | |] eqn:Ef; try discriminate. cbn [obind] in Hb.
      destruct (build_unknown O [] ts) as [post| | | | |] eqn:Eb; try discriminate. cbn [obind] in Hb. inversion Hb; subst r.
      destruct (flush_acc unm gu pre Hp Ef) as [g1 [F1 E1]].
      destruct (IH gs0 [] [] post HF' pending_nil Eb) as [g2 [F2 E2]].
      exists (g1 ++ g :: g2). split.
      * apply Forall2_app; [exact F1|]. constructor; [|exact F2].
        destruct Ht as [Hne [Hg Hs]]. unfold tok_acc1. rewrite Ev. split; [exact Hne|]. split; [exact Hs | left; exact Hg].
      * rewrite concat_app. cbn [concat]. rewrite E1, E2. reflexivity.
    + destruct Ht as [p [-> [HpP [Hw ->]]]].
      assert (Hnb : tok_blank O (unmatched p : ltok) = false).
      { unfold tok_blank, unmatched. cbn [tstring]. destruct (wordp_word p (conj HpP Hw)) as [Hne Hns].
        destruct (ptext p) as [|c r0]; [contradiction|]. unfold blank. cbn [forallb]. unfold nospace in Hns. cbn [forallb] in Hns.
        apply andb_true_iff in Hns as [Hc _]. apply negb_true_iff in Hc. rewrite Hc. reflexivity. }
      destruct Hp as [Hs [Hww [Hbl Hst]]].
      assert (Hp' : pending_ok (unmatched p :: unm) (gu ++ [p])).
      { split; [|split; [|split]].
        - cbn [rev]. rewrite !map_app. rewrite Hs. reflexivity.
        - apply Forall_app. split; [exact Hww | constructor; [split; assumption | constructor]].
        - intros t [<-|Ht]; [exact Hnb | apply Hbl; exact Ht].
        - cbn [rev]. destruct (rev unm) as [|t0 l] eqn:Er.
          + assert (unm = []) by (apply (f_equal (@rev ltok)) in Er; rewrite rev_involutive in Er; exact Er). subst unm.
            cbn in Hs. destruct gu; [|discriminate]. reflexivity.
          + cbn [app]. rewrite Hst. destruct gu as [|q gu']; [|reflexivity]. exfalso.
            apply (f_equal (@length str)) in Hs. rewrite !map_length in Hs. discriminate. }
      cbn [concat]. destruct unm as [|u rest].
      * rewrite Hnb in Hb. destruct gu; [|destruct Hs as [Hs]; discriminate].
        destruct (IH gs0 [unmatched p] ([] ++ [p]) r HF' Hp' Hb) as [gs' [F E]]. exists gs'. split; [exact F | exact E].
      * destruct (IH gs0 (unmatched p :: u :: rest) (gu ++ [p]) r HF' Hp' Hb) as [gs' [F E]]. exists gs'. split; [exact F|].
        rewrite E. rewrite <- app_assoc. reflexivity.
Qed.

End Merge.
