(* C03, last clause: a parse error that carries a token string and a position points at a run of
   consecutive words of the text: the position is the start of the first of them and the token
   string is made of them (the stretch of text itself, or their single-space join). *)
Require Import Model.Base Model.Expr Model.Split Model.Trie Model.Overlap Model.LicTok Model.BoolParse Model.Licensing.
Require Import Proofs.Symbol Proofs.Strings Proofs.Split Proofs.Overlap Proofs.Trie Proofs.Recognise Proofs.Cover Proofs.Select
               Proofs.WithGroup Proofs.SimpleAgree Proofs.ParseLits Proofs.Account.
From Coq Require Import Lia.
Open Scope Z_scope.

(* ---- where the boolean parser takes the token and position of its errors from ---- *)
Section ParserErrors.
Open Scope nat_scope.

Lemma start_op_no_perr o c tok pos : forall fuel s, start_op fuel s o <> SErr (PErr c tok pos).
Proof.
  induction fuel as [|fuel IH]; intro s; cbn [start_op]; [discriminate|].
  destruct s as [|[co a] rest]; [discriminate|]. destruct co; try discriminate.
  all: match goal with |- context [Nat.ltb ?x ?y] => destruct (Nat.ltb x y) end;
       [match goal with |- context [rev ?aa] => destruct (rev aa) end; discriminate|];
       match goal with |- context [Nat.eqb ?x ?y] => destruct (Nat.eqb x y) end; [discriminate|];
       match goal with |- context [match ?rr with [] => _ | _ :: _ => _ end] => destruct rr as [|[po pa] rest'] end;
       match goal with |- context [mkf ?cc ?aa] => destruct (mkf cc aa) end; try discriminate; apply IH.
Qed.

Lemma close_par_perr ts tp c tok pos : forall fuel s, close_par fuel s ts tp = SErr (PErr c tok pos) -> tok = ts /\ pos = tp.
Proof.
  induction fuel as [|fuel IH]; intros s H; cbn [close_par] in H; [discriminate|].
  destruct s as [|[co a] [|[po pa] rest]]; [discriminate | destruct co; inversion H; subst; split; reflexivity |].
  destruct co.
  - inversion H; subst; split; reflexivity.
  - destruct (mkf FAnd a); [apply IH in H; exact H | discriminate].
  - destruct (mkf FOr a); [apply IH in H; exact H | discriminate].
  - destruct a; discriminate.
Qed.

Lemma step1_perr s prev t c tok pos : step1 s prev t = SErr (PErr c tok pos) -> tok = pstr t /\ pos = ppos t.
Proof.
  unfold step1. destruct (check prev (pt t)); [intro H; inversion H; subst; split; reflexivity|].
  destruct (pt t).
  - destruct s as [|[o args] rest]; discriminate.
  - intro H. exfalso. apply (start_op_no_perr FAnd c tok pos _ _ H).
  - intro H. exfalso. apply (start_op_no_perr FOr c tok pos _ _ H).
  - destruct prev as [[a| | | |]|]; intro H; try discriminate; inversion H; subst; split; reflexivity.
  - apply close_par_perr.
Qed.

Lemma run_perr c tok pos : forall ts s prev, run s prev ts = RErr (PErr c tok pos) ->
  exists t, In t ts /\ tok = pstr t /\ pos = ppos t.
Proof.
  induction ts as [|t ts IH]; intros s prev H; cbn [run] in H; [discriminate|].
  destruct (step1 s prev t) as [s'|e] eqn:Es.
  - destruct (IH _ _ H) as [t' [Hin E]]. exists t'. split; [right; exact Hin | exact E].
  - inversion H; subst e. exists t. split; [left; reflexivity | apply (step1_perr s prev t c tok pos Es)].
Qed.

Lemma finish_perr c tok pos : forall fuel s, finish fuel s = PErr c tok pos -> tok = no_tok /\ pos = no_pos.
Proof.
  induction fuel as [|fuel IH]; intros s H; cbn [finish] in H; [discriminate|].
  destruct s as [|[co a] [|[po pa] rest]]; [discriminate | |].
  - destruct co.
    + destruct a as [|x [|y a']]; try discriminate; inversion H; subst; split; reflexivity.
    + destruct (mkf FAnd a); discriminate.
    + destruct (mkf FOr a); discriminate.
    + inversion H; subst; split; reflexivity.
  - destruct co.
    + destruct (mkf FNone a); [apply IH in H; exact H | discriminate].
    + destruct (mkf FAnd a); [apply IH in H; exact H | discriminate].
    + destruct (mkf FOr a); [apply IH in H; exact H | discriminate].
    + inversion H; subst; split; reflexivity.
Qed.

Theorem bparse_perr ts c tok pos : bparse ts = PErr c tok pos ->
  (tok = no_tok /\ pos = no_pos) \/ exists t, In t ts /\ tok = pstr t /\ pos = ppos t.
Proof.
  unfold bparse. destruct (run [(FNone, [])] None ts) as [s p|e] eqn:R.
  - intro H. left. apply (finish_perr c tok pos _ _ H).
  - intro H. subst e. right. apply (run_perr c tok pos ts _ _ R).
Qed.

End ParserErrors.

Section Located.
Variable O : oracle.
Hypothesis sp_is_space : is_space O 32%N = true.
Variable T : list entry.
Variable text : str.
Notation ltok := (Trie.tok kv).
Notation wps := (filter (is_word_piece O) (pieces O text)).

(* the error points at a run of consecutive words of the text *)
Definition located (tok : str) (pos : Z) : Prop :=
  (tok = no_tok /\ pos = no_pos) \/
  exists pre g post, wps = pre ++ g ++ post /\ g <> [] /\ pos = pstart (hd dpiece g) /\ made_of O text tok g.

Lemma located_in_groups gs gs1 g gs2 tok pos : concat gs = wps -> gs = gs1 ++ g :: gs2 ->
  g <> [] -> pos = pstart (hd dpiece g) -> made_of O text tok g -> located tok pos.
Proof.
  intros Hc E Hne Hp Hm. right. exists (concat gs1), g, (concat gs2). split; [|repeat split; assumption].
  rewrite <- Hc, E. rewrite concat_app. cbn [concat]. reflexivity.
Qed.

Section Generic.
Variable A_kw : kw -> list piece -> Prop.
Variable A_sym : sym -> list piece -> Prop.
Notation vacc := (vtok_acc O text A_kw A_sym).
Notation pacc := (ptok_acc O text A_kw A_sym).

(* errors of the WITH replacement carry the string and start of one of the tokens *)
Lemma replace_err strict c tok pos : forall n (toks : list ltok) gs, (length toks <= n)%nat ->
  Forall2 vacc toks gs -> replace_with O strict (greedy toks) = ParseErr c tok pos ->
  exists gs1 g gs2, gs = gs1 ++ g :: gs2 /\ g <> [] /\ pos = pstart (hd dpiece g) /\ made_of O text tok g.
Proof.
  induction n as [|n IH]; intros toks gs Hl HF Hr.
  - destruct toks; [|simpl in Hl; lia]. cbn in Hr. discriminate.
  - destruct toks as [|a rest]; [cbn in Hr; discriminate|].
    inversion HF as [|? ga ? gs0 Ha HF0]; subst.
    assert (Lift : forall rest' gsr k, (length rest' <= n)%nat -> Forall2 vacc rest' gsr -> gs0 = k ++ gsr ->
              replace_with O strict (greedy rest') = ParseErr c tok pos ->
              exists gs1 g gs2, ga :: gs0 = gs1 ++ g :: gs2 /\ g <> [] /\ pos = pstart (hd dpiece g) /\ made_of O text tok g).
    { intros rest' gsr k Hl' HF' Ek Hr'. destruct (IH rest' gsr Hl' HF' Hr') as [g1 [g [g2 [E R]]]].
      exists (ga :: k ++ g1), g, g2. split; [|exact R]. rewrite Ek, E. cbn [app]. rewrite <- app_assoc. reflexivity. }
    assert (One : replace_with O strict (G1 a :: greedy rest) = ParseErr c tok pos ->
                  exists gs1 g gs2, ga :: gs0 = gs1 ++ g :: gs2 /\ g <> [] /\ pos = pstart (hd dpiece g) /\ made_of O text tok g).
    { cbn [replace_with]. intro H1. destruct Ha as [Hne [Hs [Hmo Hv]]].
      assert (Here : tok = tstring a -> pos = tstart a ->
                exists gs1 g gs2, ga :: gs0 = gs1 ++ g :: gs2 /\ g <> [] /\ pos = pstart (hd dpiece g) /\ made_of O text tok g).
      { intros -> ->. exists [], ga, gs0. split; [reflexivity|]. repeat split; assumption. }
      destruct (tvalue a) as [[k|s]|]; [| |discriminate].
      - destruct (tk_of_kw k); [|inversion H1; subst; apply Here; reflexivity].
        destruct (replace_with O strict (greedy rest)) eqn:Er; try discriminate. cbn [obind] in H1. inversion H1; subst.
        apply (Lift rest gs0 []); [simpl in Hl; lia | exact HF0 | reflexivity | exact Er].
      - destruct (strict && exc s); [inversion H1; subst; apply Here; reflexivity|].
        destruct (replace_with O strict (greedy rest)) eqn:Er; try discriminate. cbn [obind] in H1. inversion H1; subst.
        apply (Lift rest gs0 []); [simpl in Hl; lia | exact HF0 | reflexivity | exact Er]. }
    cbn [greedy] in Hr. destruct rest as [|w [|b rest']]; [apply One; exact Hr | apply One; exact Hr |].
    destruct (is_with3 a w b) eqn:E3; [|apply One; exact Hr].
    inversion HF0 as [|? gw ? gs1 Hw HF1]; subst. inversion HF1 as [|? gb ? gs2 Hb HF2]; subst.
    cbn [replace_with] in Hr.
    destruct Ha as [Hnea [Hsa [Hmoa _]]]. destruct Hb as [Hneb [Hsb [Hmob _]]].
    destruct (tvalue a) as [[ka|l]|]; try discriminate. destruct (tvalue b) as [[kb|r]|]; try discriminate.
    destruct (strict && exc l).
    { inversion Hr; subst. exists [], ga, (gw :: gb :: gs2). split; [reflexivity|]. repeat split; assumption. }
    destruct (strict && negb (exc r)).
    { inversion Hr; subst. exists [ga; gw], gb, gs2. split; [reflexivity|]. repeat split; assumption. }
    destruct (replace_with O strict (greedy rest')) eqn:Er; try discriminate. cbn [obind] in Hr. inversion Hr; subst.
    apply (Lift rest' gs2 [gw; gb]); [simpl in Hl; lia | exact HF2 | reflexivity | exact Er].
Qed.

Lemma in_forall2_split {A B} (R : A -> B -> Prop) : forall l1 l2 a, Forall2 R l1 l2 -> In a l1 ->
  exists k1 b k2, l2 = k1 ++ b :: k2 /\ R a b.
Proof.
  induction l1 as [|x l1 IH]; intros l2 a HF Hin; [destruct Hin|]. inversion HF as [|? y ? l2' Hxy HF']; subst.
  destruct Hin as [<-|Hin]; [exists [], y, l2'; split; [reflexivity | exact Hxy]|].
  destruct (IH l2' a HF' Hin) as [k1 [b [k2 [E R']]]]. exists (y :: k1), b, k2. split; [rewrite E; reflexivity | exact R'].
Qed.

(* everything after the token list: errors of the replacement or of the boolean parser are located *)
Lemma after_tokens_located strict (toks : list ltok) gs c tok pos : concat gs = wps -> Forall2 vacc toks gs ->
  obind (replace_with O strict (group_with toks)) (fun ptoks => of_pres (bparse ptoks)) = ParseErr c tok pos ->
  located tok pos.
Proof.
  intros Hc HF H. rewrite group_with_greedy in H.
  destruct (replace_with O strict (greedy toks)) as [ptoks| | | | |] eqn:Er; try discriminate; cbn [obind] in H.
  - destruct (replace_acc O sp_is_space text A_kw A_sym strict _ toks gs ptoks (le_n _) HF Er) as [gs' [F' E']].
    destruct (bparse ptoks) as [e|c' tok' pos'| |] eqn:Eb; try discriminate. cbn [of_pres] in H. inversion H; subst c' tok' pos'.
    destruct (bparse_perr ptoks c tok pos Eb) as [N|[t [Hin [Et Ep]]]]; [left; exact N|].
    destruct (in_forall2_split _ ptoks gs' t F' Hin) as [k1 [g [k2 [E [Hne [Hp [Hm _]]]]]]].
    apply (located_in_groups gs' k1 g k2); [rewrite E'; exact Hc | exact E | exact Hne | rewrite Ep; exact Hp | rewrite Et; exact Hm].
  - inversion H; subst code tok0 pos0.
    destruct (replace_err strict c tok pos _ toks gs (le_n _) HF Er) as [g1 [g [g2 [E [Hne [Hp Hm]]]]]].
    apply (located_in_groups gs g1 g g2); assumption.
Qed.

End Generic.

Lemma mk_symbol_no_perr s f c tok pos : mk_symbol O s f <> ParseErr c tok pos.
Proof.
  unfold mk_symbol, mk_key. destruct s; [discriminate|]. destruct (strip O (n :: s)); [discriminate|].
  destruct (negb (forallb (valid_key_char O) (n0 :: s0))); [discriminate|].
  destruct (is_keyword_str (lower O (norm_spaces O (n0 :: s0)))); discriminate.
Qed.

Lemma flush_no_perr (unm : list ltok) c tok pos : flush_unknown O unm <> ParseErr c tok pos.
Proof.
  unfold flush_unknown. destruct unm; [discriminate|]. destruct (split_trailing O (t :: unm) []) as [tr0 cr].
  destruct cr; [discriminate|]. intro H.
  destruct (mk_symbol O _ false) eqn:Em; try discriminate. exfalso. apply (mk_symbol_no_perr _ _ _ _ _ Em).
Qed.

Lemma build_unknown_no_perr : forall (ts unm : list ltok) c tok pos, build_unknown O unm ts <> ParseErr c tok pos.
Proof.
  induction ts as [|t ts IH]; intros unm c tok pos; cbn [build_unknown]; [apply flush_no_perr|].
  destruct (tvalue t).
  - intro H. destruct (flush_unknown O unm) eqn:Ef; try discriminate.
    + cbn [obind] in H. destruct (build_unknown O [] ts) eqn:Eb; try discriminate. exfalso. apply (IH [] _ _ _ Eb).
    + exfalso. apply (flush_no_perr unm _ _ _ Ef).
  - destruct unm.
    + destruct (tok_blank O t); [|apply IH]. intro H. destruct (build_unknown O [] ts) eqn:Eb; try discriminate. exfalso. apply (IH [] _ _ _ Eb).
    + apply IH.
Qed.

(* ---- C03: parse errors of the default tokenizer are located ---- *)
Theorem error_located_default strict c tok pos :
  parse_tokens O T strict false text = ParseErr c tok pos -> located tok pos.
Proof.
  unfold parse_tokens, lic_tokenize. destruct text as [|c0 s0] eqn:Etext; [intro H; vm_compute in H; inversion H; left; split; reflexivity|]. rewrite <- Etext in *. cbn [obind].
  set (toks := t_tokenize O (build_trie O T) text).
  destruct (build_unknown O [] toks) as [r| | | | |] eqn:Eb; try (cbn; discriminate).
  - cbn [obind]. intro H.
    assert (HF : Forall2 (tok_acc O (build_trie O T) text) toks (map (grp O text) toks)).
    { pose proof (tokens_accounted O (build_trie O T) (build_trie_wf O T) text) as Ha. fold toks in Ha.
      clear -Ha. induction toks as [|t l IH]; [constructor|]. inversion Ha; subst. constructor; [assumption | apply IH; assumption]. }
    destruct (build_unknown_acc O sp_is_space T text toks _ [] [] r HF (pending_nil O T text) Eb) as [gs1 [F1 E1]].
    rewrite (drop_blank_id O T text r gs1 F1) in H.
    assert (F1v : Forall2 (vtok_acc O text (kw_acc O) (sym_acc O T text)) r gs1).
    { clear -F1. induction F1; constructor; [apply tok_acc1_vtok; assumption | assumption]. }
    apply (after_tokens_located (kw_acc O) (sym_acc O T text) strict r gs1 c tok pos); [|exact F1v | exact H].
    rewrite E1. cbn [app]. rewrite <- flat_map_concat_map. apply (groups_partition O (build_trie O T) (build_trie_wf O T) text).
  - cbn [obind]. intro H. inversion H; subst. exfalso. apply (build_unknown_no_perr _ _ _ _ _ Eb).
Qed.

Lemma simple_token_no_perr p c tok pos : simple_token O T p <> ParseErr c tok pos.
Proof.
  unfold simple_token. destruct (piece_cls O p); try discriminate.
  destruct (str_eqb _ s_and); [discriminate|]. destruct (str_eqb _ s_or); [discriminate|]. destruct (str_eqb _ s_with); [discriminate|].
  destruct (lookup_lower O T _); [discriminate|]. intro H. destruct (mk_symbol O (ptext p) false) eqn:Em; try discriminate.
  exfalso. apply (mk_symbol_no_perr _ _ _ _ _ Em).
Qed.

Lemma mapo_simple_no_perr : forall ps c tok pos, mapo (simple_token O T) ps <> ParseErr c tok pos.
Proof.
  induction ps as [|p ps IH]; intros c tok pos; cbn [mapo]; [discriminate|]. intro H.
  destruct (simple_token O T p) eqn:Eg; try discriminate.
  - cbn [obind] in H. destruct (mapo (simple_token O T) ps) eqn:Em; try discriminate. exfalso. apply (IH code tok0 pos0). reflexivity.
  - exfalso. apply (simple_token_no_perr p _ _ _ Eg).
Qed.

Theorem error_located_simple strict c tok pos :
  parse_tokens O T strict true text = ParseErr c tok pos -> located tok pos.
Proof.
  unfold parse_tokens, lic_tokenize. destruct text as [|c0 s0] eqn:Etext; [intro H; vm_compute in H; inversion H; left; split; reflexivity|]. rewrite <- Etext in *.
  rewrite simple_tokens_mapo.
  destruct (mapo (simple_token O T) (pieces O text)) as [S| | | | |] eqn:Em; try (cbn; discriminate).
  - cbn [obind]. rewrite (build_unknown_valued O S (simple_valued O T text _ S (fun p H => H) Em)). cbn [obind]. intro H.
    pose proof (simple_tokens_acc O sp_is_space T text _ S (fun p H => H) Em) as HF.
    apply (after_tokens_located (kw_acc_s O) (sym_acc_s O T) strict (drop_blank O S) (map (fun p : piece => [p]) wps) c tok pos); [|exact HF | exact H].
    clear. induction (filter (is_word_piece O) (pieces O text)) as [|p l IH]; [reflexivity|]. cbn [map concat app]. rewrite IH. reflexivity.
  - cbn [obind]. intro H. inversion H; subst. exfalso. apply (mapo_simple_no_perr _ _ _ _ Em).
Qed.

(* parse() adds no parse error of its own *)
Theorem parse_error_located validate strict simple c tok pos :
  parse O T validate strict simple text = ParseErr c tok pos -> located tok pos.
Proof.
  unfold parse. destruct (blank O text); [discriminate|].
  destruct (parse_tokens O T strict simple text) as [e| | | | |] eqn:Ep; cbn [obind]; try discriminate.
  - destruct validate; [|discriminate]. destruct (unknown_license_keys T e true); discriminate.
  - intro H. inversion H; subst. destruct simple; [apply (error_located_simple strict c tok pos Ep) | apply (error_located_default strict c tok pos Ep)].
Qed.

End Located.
