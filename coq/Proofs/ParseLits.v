(* C01 / C10: the licenses of the parsed expression, left to right, are the license tokens of the
   token sequence, in order. *)
Require Import Model.Base Model.Expr Model.LicTok Model.BoolParse.
Require Proofs.ParseSound.
From Coq Require Import Lia.
Open Scope nat_scope.

Definition frame_lits (f : frame) : list atom := flat_map literals (snd f).
(* the licenses held by the stack, outermost frame first *)
Definition stack_lits (s : list frame) : list atom := flat_map frame_lits (rev s).

Fixpoint tok_atoms (ts : list ptok) : list atom :=
  match ts with
  | [] => []
  | t :: ts' => match pt t with TS a => a :: tok_atoms ts' | _ => tok_atoms ts' end
  end.

Lemma tok_atoms_app a b : tok_atoms (a ++ b) = tok_atoms a ++ tok_atoms b.
Proof. induction a as [|t a IH]; [reflexivity|]. simpl. destruct (pt t); rewrite IH; reflexivity. Qed.

Lemma stack_lits_cons f s : stack_lits (f :: s) = stack_lits s ++ frame_lits f.
Proof. unfold stack_lits. simpl. rewrite flat_map_app. simpl. rewrite app_nil_r. reflexivity. Qed.

Lemma frame_lits_app o a b : frame_lits (o, a ++ b) = frame_lits (o, a) ++ frame_lits (o, b).
Proof. unfold frame_lits. simpl. apply flat_map_app. Qed.

Lemma mkf_lits o a e : mkf o a = Some e -> literals e = flat_map literals a.
Proof.
  unfold mkf. destruct o; try discriminate; destruct (Nat.ltb (length a) 2); try discriminate; intro H; inversion H; reflexivity.
Qed.

(* grouping frames ("(" and the bottom frame) hold at most one operand, none unless they are on top *)
Definition grouping (o : fop) : bool := match o with FLpar | FNone => true | _ => false end.
Definition after_operand (prev : option tk) : Prop :=
  match prev with Some (TS _) | Some TR => True | _ => False end.

Definition below_ok (s : list frame) : Prop := Forall (fun f => grouping (fst f) = true -> snd f = []) s.
Definition tidy (s : list frame) (prev : option tk) : Prop :=
  match s with
  | [] => False
  | (o, a) :: rest =>
      below_ok rest /\
      (grouping o = true -> length a <= 1 /\ (a <> [] -> after_operand prev)) /\
      (a = [] -> ~ after_operand prev)
  end.

Lemma app_one_nonempty {A} (l : list A) x : l ++ [x] <> [].
Proof. destruct l; discriminate. Qed.

(* after an operand the top frame is not empty; start_op / close_par are only reached then *)
Lemma start_op_tidy o : o = FAnd \/ o = FOr -> forall fuel s s' prev, start_op fuel s o = SOk s' ->
  tidy s prev -> after_operand prev ->
  stack_lits s' = stack_lits s /\ (forall t, ~ after_operand (Some t) -> tidy s' (Some t)).
Proof.
  intro Ho. induction fuel as [|fuel IH]; intros s s' prev H T Hp; [discriminate|]. simpl in H.
  destruct s as [|[co a] rest]; [discriminate|]. destruct T as [Tb [Tg Te]].
  assert (Ane : a <> []) by (intro E; exact (Te E Hp)).
  assert (Push : forall x ra, rev a = x :: ra ->
            stack_lits ((o, [x]) :: (co, rev ra) :: rest) = stack_lits ((co, a) :: rest)).
  { intros x ra E. rewrite !stack_lits_cons. rewrite <- app_assoc. f_equal.
    assert (Ea : a = rev ra ++ [x]).
    { apply (f_equal (@rev expr)) in E. rewrite rev_involutive in E. simpl in E. exact E. }
    rewrite Ea, frame_lits_app. reflexivity. }
  assert (Fold : forall po pa rest' e, mkf co a = Some e ->
            stack_lits ((po, pa ++ [e]) :: rest') = stack_lits ((co, a) :: (po, pa) :: rest')).
  { intros po pa rest' e E. rewrite !stack_lits_cons. rewrite <- app_assoc. f_equal.
    rewrite frame_lits_app. f_equal. unfold frame_lits. simpl. rewrite app_nil_r. apply (mkf_lits co a e E). }
  assert (Og : grouping o = false) by (destruct Ho; subst; reflexivity).
  destruct co.
  - (* bottom frame: the operator takes it over *)
    inversion H; subst. split; [rewrite !stack_lits_cons; reflexivity|].
    intros t Ht. split; [exact Tb|]. split; [rewrite Og; discriminate | intros E; contradiction].
  - destruct (Nat.ltb (prec o) (prec FAnd)) eqn:L.
    { destruct Ho; subst; simpl in L; discriminate. }
    destruct (Nat.eqb (prec o) (prec FAnd)) eqn:E0.
    { inversion H; subst. split; [reflexivity|]. intros t Ht. split; [exact Tb|]. split; [discriminate | intros E; contradiction]. }
    destruct rest as [|[po pa] rest']; destruct (mkf FAnd a) as [e|] eqn:E; try discriminate.
    + inversion H; subst. split.
      * rewrite !stack_lits_cons. unfold stack_lits. simpl. unfold frame_lits. simpl. rewrite app_nil_r. apply (mkf_lits FAnd a e E).
      * intros t Ht. split; [constructor|]. split; [rewrite Og; discriminate | discriminate].
    + inversion Tb as [|? ? Hpo Tb']; subst.
      destruct (IH ((po, pa ++ [e]) :: rest') s' (Some TR) H) as [I1 I2].
      * split; [exact Tb'|]. split; [|intro E1; exfalso; eapply app_one_nonempty; exact E1].
        intro G. simpl in Hpo. rewrite (Hpo G). simpl. split; [lia | intros _; exact I].
      * exact I.
      * split; [rewrite I1; apply Fold; reflexivity | exact I2].
  - destruct (Nat.ltb (prec o) (prec FOr)) eqn:L.
    { destruct (rev a) as [|x ra] eqn:E; [discriminate|]. inversion H; subst. split; [apply Push; reflexivity|].
      intros t Ht. split; [constructor; [discriminate | exact Tb]|]. split; [rewrite Og; discriminate | discriminate]. }
    destruct (Nat.eqb (prec o) (prec FOr)) eqn:E0.
    { inversion H; subst. split; [reflexivity|]. intros t Ht. split; [exact Tb|]. split; [discriminate | intros E; contradiction]. }
    destruct Ho; subst; simpl in L, E0; discriminate.
  - (* "(" frame on top: the operator starts a frame above it with the operand *)
    assert (L : Nat.ltb (prec o) (prec FLpar) = true) by (destruct Ho; subst; reflexivity).
    rewrite L in H. destruct (rev a) as [|x ra] eqn:E; [discriminate|]. inversion H; subst.
    split; [apply Push; reflexivity|].
    intros t Ht. destruct (Tg eq_refl) as [Tl _].
    assert (Hra : ra = []).
    { assert (La : length (rev a) = length a) by apply rev_length. rewrite E in La. simpl in La. destruct ra; [reflexivity | simpl in La; lia]. }
    subst ra. split; [constructor; [intros _; reflexivity | exact Tb]|]. split; [rewrite Og; discriminate | discriminate].
Qed.

Lemma close_par_tidy ts tp : forall fuel s s' prev, close_par fuel s ts tp = SOk s' ->
  tidy s prev -> after_operand prev ->
  stack_lits s' = stack_lits s /\ tidy s' (Some TR).
Proof.
  induction fuel as [|fuel IH]; intros s s' prev H T Hp; [discriminate|]. simpl in H.
  destruct s as [|[co a] [|[po pa] rest']]; try discriminate; destruct co; try discriminate; destruct T as [Tb [Tg Te]];
    inversion Tb as [|? ? Hpo Tb']; subst.
  - destruct (mkf FAnd a) as [e|] eqn:E; [|discriminate].
    destruct (IH ((po, pa ++ [e]) :: rest') s' (Some TR) H) as [I1 I2].
    + split; [exact Tb'|]. split; [|intro E1; exfalso; eapply app_one_nonempty; exact E1].
      intro G. simpl in Hpo. rewrite (Hpo G). simpl. split; [lia | intros _; exact I].
    + exact I.
    + split; [|exact I2]. rewrite I1. rewrite !stack_lits_cons. rewrite <- app_assoc. f_equal. rewrite frame_lits_app. f_equal.
      unfold frame_lits. simpl. rewrite app_nil_r. apply (mkf_lits FAnd a e E).
  - destruct (mkf FOr a) as [e|] eqn:E; [|discriminate].
    destruct (IH ((po, pa ++ [e]) :: rest') s' (Some TR) H) as [I1 I2].
    + split; [exact Tb'|]. split; [|intro E1; exfalso; eapply app_one_nonempty; exact E1].
      intro G. simpl in Hpo. rewrite (Hpo G). simpl. split; [lia | intros _; exact I].
    + exact I.
    + split; [|exact I2]. rewrite I1. rewrite !stack_lits_cons. rewrite <- app_assoc. f_equal. rewrite frame_lits_app. f_equal.
      unfold frame_lits. simpl. rewrite app_nil_r. apply (mkf_lits FOr a e E).
  - destruct a as [|x a']; [discriminate|]. inversion H; subst. clear H.
    destruct (Tg eq_refl) as [Tl _]. assert (a' = []) by (destruct a'; [reflexivity | simpl in Tl; lia]). subst a'.
    split.
    + rewrite !stack_lits_cons. rewrite <- app_assoc. f_equal. rewrite frame_lits_app. reflexivity.
    + split; [exact Tb'|]. split; [|intro E1; exfalso; eapply app_one_nonempty; exact E1].
      intro G. simpl in Hpo. rewrite (Hpo G). simpl. split; [lia | intros _; exact I].
Qed.

Lemma step1_tidy s prev t s' : step1 s prev t = SOk s' -> tidy s prev -> (prev = None -> s = [(FNone, [])]) ->
  tidy s' (Some (pt t)) /\
  stack_lits s' = stack_lits s ++ (match pt t with TS a => [a] | _ => [] end).
Proof.
  unfold step1. destruct (check prev (pt t)) as [c|] eqn:C; [discriminate|]. intros H T Hstart.
  destruct (pt t) as [a| | | |] eqn:Et.
  - (* a license: the previous token is not an operand, so the top frame is empty or an operator frame *)
    destruct s as [|[o args] rest]; [discriminate|]. inversion H; subst. destruct T as [Tb [Tg Te]].
    assert (Hnp : ~ after_operand prev).
    { unfold check in C. destruct prev as [[pa| | | |]|]; simpl in *; try discriminate; intros []. }
    split.
    + split; [exact Tb|]. split; [|intro E1; exfalso; eapply app_one_nonempty; exact E1].
      intro G. destruct (Tg G) as [Tl Tn]. destruct args as [|y args]; [simpl; split; [lia | intros _; exact I]|].
      exfalso. apply Hnp. apply Tn. discriminate.
    + rewrite !stack_lits_cons, frame_lits_app. unfold frame_lits at 2. simpl. rewrite app_assoc. reflexivity.
  - assert (Hprev : after_operand prev).
    { unfold check in C. destruct prev as [[pa| | | |]|]; simpl in *; try discriminate; exact I. }
    destruct (start_op_tidy FAnd (or_introl eq_refl) _ _ _ _ H T Hprev) as [I1 I2].
    split; [apply I2; intros [] | rewrite I1, app_nil_r; reflexivity].
  - assert (Hprev : after_operand prev).
    { unfold check in C. destruct prev as [[pa| | | |]|]; simpl in *; try discriminate; exact I. }
    destruct (start_op_tidy FOr (or_intror eq_refl) _ _ _ _ H T Hprev) as [I1 I2].
    split; [apply I2; intros [] | rewrite I1, app_nil_r; reflexivity].
  - (* "(": allowed only where an operand may start, so the frame below is empty or an operator frame *)
    assert (Hnp : ~ after_operand prev).
    { destruct prev as [[pa| | | |]|]; try discriminate; intros []. }
    assert (Hs : s' = (FLpar, []) :: s) by (destruct prev as [[pa| | | |]|]; inversion H; reflexivity).
    subst s'. destruct s as [|[o args] rest]; [destruct T|]. destruct T as [Tb [Tg Te]]. split.
    + split; [|split; [intros _; split; [simpl; lia | intro E; contradiction] | intros _ []]].
      constructor; [|exact Tb]. simpl. intro G. destruct (Tg G) as [Tl Tn]. destruct args as [|y args]; [reflexivity|].
      exfalso. apply Hnp. apply Tn. discriminate.
    + rewrite stack_lits_cons. unfold frame_lits. simpl. reflexivity.
  - assert (Hprev : after_operand prev).
    { unfold check in C. destruct prev as [[pa| | | |]|]; simpl in *; try discriminate; try exact I.
      (* first token ")" : the stack is the bottom frame alone and close_par fails *)
      rewrite (Hstart eq_refl) in H. simpl in H. discriminate. }
    destruct (close_par_tidy _ _ _ _ _ _ H T Hprev) as [I1 I2].
    split; [exact I2 | rewrite I1, app_nil_r; reflexivity].
Qed.

Lemma run_tidy : forall ts s prev s' p', run s prev ts = ROk s' p' -> tidy s prev -> (prev = None -> s = [(FNone, [])]) ->
  tidy s' p' /\ stack_lits s' = stack_lits s ++ tok_atoms ts.
Proof.
  induction ts as [|t ts IH]; intros s prev s' p' H T Hs.
  - simpl in H. inversion H; subst. split; [exact T | rewrite app_nil_r; reflexivity].
  - simpl in H. destruct (step1 s prev t) as [s1|e] eqn:E; [|discriminate].
    destruct (step1_tidy _ _ _ _ E T Hs) as [T1 L1].
    destruct (IH _ _ _ _ H T1 ltac:(discriminate)) as [T2 L2].
    split; [exact T2|]. rewrite L2, L1, <- app_assoc. simpl. destruct (pt t); reflexivity.
Qed.

Lemma finish_lits : forall fuel s e, finish fuel s = POk e -> below_ok (tl s) ->
  (match s with (o, a) :: _ => grouping o = true -> length a <= 1 | [] => True end) ->
  literals e = stack_lits s.
Proof.
  induction fuel as [|fuel IH]; intros s e H Tb Tg; [discriminate|]. simpl in H.
  destruct s as [|[co a] rest]; [discriminate|].
  destruct rest as [|[po pa] rest'].
  - destruct co.
    + destruct a as [|x [|y a']]; try discriminate. inversion H; subst.
      unfold stack_lits, frame_lits. simpl. rewrite !app_nil_r. reflexivity.
    + destruct (mkf FAnd a) as [e'|] eqn:E; [|discriminate]. inversion H; subst.
      unfold stack_lits, frame_lits. simpl. rewrite app_nil_r. apply (mkf_lits FAnd a e E).
    + destruct (mkf FOr a) as [e'|] eqn:E; [|discriminate]. inversion H; subst.
      unfold stack_lits, frame_lits. simpl. rewrite app_nil_r. apply (mkf_lits FOr a e E).
    + discriminate.
  - simpl in Tb. inversion Tb as [|? ? Hpo Tb']; subst. destruct co; try discriminate.
    + destruct (mkf FAnd a) as [e'|] eqn:E; [|discriminate]. apply IH in H.
      * rewrite H. rewrite !stack_lits_cons. rewrite <- app_assoc. f_equal. rewrite frame_lits_app. f_equal.
        unfold frame_lits. simpl. rewrite app_nil_r. apply (mkf_lits FAnd a e' E).
      * exact Tb'.
      * intro G. simpl in Hpo. rewrite (Hpo G). simpl. lia.
    + destruct (mkf FOr a) as [e'|] eqn:E; [|discriminate]. apply IH in H.
      * rewrite H. rewrite !stack_lits_cons. rewrite <- app_assoc. f_equal. rewrite frame_lits_app. f_equal.
        unfold frame_lits. simpl. rewrite app_nil_r. apply (mkf_lits FOr a e' E).
      * exact Tb'.
      * intro G. simpl in Hpo. rewrite (Hpo G). simpl. lia.
Qed.

(* the licenses of the parsed expression are the license tokens, in order, with repetitions *)
Theorem bparse_literals ts e : bparse ts = POk e -> literals e = tok_atoms ts.
Proof.
  unfold bparse. destruct (run [(FNone, [])] None ts) as [s p|r] eqn:R.
  - intro F.
    assert (T0 : tidy [(FNone, [])] None).
    { split; [constructor|]. split; [intros _; split; [simpl; lia | intro E; contradiction] | intros _ []]. }
    destruct (run_tidy ts _ _ _ _ R T0 ltac:(reflexivity)) as [T1 L1].
    destruct s as [|[o a] rest]; [destruct T1|]. destruct T1 as [Tb [Tg _]].
    rewrite (finish_lits _ _ _ F Tb (fun G => proj1 (Tg G))). rewrite L1. reflexivity.
  - intro H. subst r. exfalso. eapply Proofs.ParseSound.run_err; exact R.
Qed.
