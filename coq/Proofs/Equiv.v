(* C08: laws of is_equivalent and contains on parsed expressions. *)
Require Import Model.Base Model.Expr Model.Simplify Proofs.Symbol Proofs.ExprEq Proofs.SimplifySound.
From Coq Require Import Lia.

Theorem equiv_refl a : is_equivalent a a = true.
Proof. apply expr_eqb_refl. Qed.

Theorem equiv_sym a b : is_equivalent a b = is_equivalent b a.
Proof. apply expr_eqb_sym. Qed.

Theorem equiv_trans a b c : is_equivalent a b = true -> is_equivalent b c = true -> is_equivalent a c = true.
Proof. apply expr_eqb_trans. Qed.

Theorem equiv_sound a b : is_equivalent a b = true -> forall v, eval v a = eval v b.
Proof.
  intros H v. rewrite <- (simplify_sound v a), <- (simplify_sound v b). apply expr_eqb_sound. exact H.
Qed.

(* ---- containment ---- *)
Lemma existsb_eqb_l ys x x' :
  expr_eqb x x' = true -> existsb (fun y => expr_eqb y x) ys = existsb (fun y => expr_eqb y x') ys.
Proof.
  intro E. apply bool_eq_iff. split; intro H; apply existsb_exists in H as [y [Hy Ey]]; apply existsb_exists; exists y; split; try exact Hy.
  - eapply expr_eqb_trans; eassumption.
  - eapply expr_eqb_trans; [exact Ey | rewrite expr_eqb_sym; exact E].
Qed.

Lemma existsb_eqb_r ys ys' x :
  sub_eqb ys ys' = true -> existsb (fun y => expr_eqb y x) ys = true -> existsb (fun y => expr_eqb y x) ys' = true.
Proof.
  intros S H. apply existsb_exists in H as [y [Hy Ey]]. rewrite sub_eqb_spec in S.
  destruct (S y Hy) as [y' [Hy' E]]. apply existsb_exists. exists y'. split; [exact Hy'|].
  eapply expr_eqb_trans; [rewrite expr_eqb_sym; exact E | exact Ey].
Qed.

Lemma sup_as_sub xs ys : sup_eqb xs ys = true -> sub_eqb ys xs = true.
Proof.
  intro H. rewrite sup_eqb_spec in H. apply sub_eqb_spec. intros y Hy. destruct (H y Hy) as [x [Hx E]].
  exists x. split; [exact Hx | rewrite expr_eqb_sym; exact E].
Qed.

Lemma forallb_ext {A} (f g : A -> bool) l : (forall a, f a = g a) -> forallb f l = forallb g l.
Proof. intro H. induction l as [|x l IH]; simpl; [reflexivity | rewrite H, IH; reflexivity]. Qed.

(* "x in y" does not distinguish equal expressions on either side *)
Lemma in_expr_eqb_r x y y' : expr_eqb y y' = true -> in_expr x y = in_expr x y'.
Proof.
  intro E. destruct y as [ya|ys|ys], y' as [ya'|ys'|ys']; try discriminate.
  - simpl in E. apply atom_eqb_eq in E. subst. reflexivity.
  - rewrite expr_eqb_and in E. apply andb_true_iff in E as [S1 S2]. apply sup_as_sub in S2.
    assert (K : forall z, existsb (fun y => expr_eqb y z) ys = existsb (fun y => expr_eqb y z) ys').
    { intro z. apply bool_eq_iff. split; apply existsb_eqb_r; assumption. }
    simpl. rewrite K. destruct x as [xa|xs|xs]; try reflexivity.
    f_equal. apply forallb_ext. intro a. apply K.
  - rewrite expr_eqb_or in E. apply andb_true_iff in E as [S1 S2]. apply sup_as_sub in S2.
    assert (K : forall z, existsb (fun y => expr_eqb y z) ys = existsb (fun y => expr_eqb y z) ys').
    { intro z. apply bool_eq_iff. split; apply existsb_eqb_r; assumption. }
    simpl. rewrite K. destruct x as [xa|xs|xs]; try reflexivity.
    f_equal. apply forallb_ext. intro a. apply K.
Qed.

Lemma forallb_sub_in ys xs xs' :
  sub_eqb xs' xs = true ->
  forallb (fun a => existsb (fun y => expr_eqb y a) ys) xs = true ->
  forallb (fun a => existsb (fun y => expr_eqb y a) ys) xs' = true.
Proof.
  intros S H. apply forallb_forall. intros a' Ha'. rewrite sub_eqb_spec in S. destruct (S a' Ha') as [a [Ha E]].
  rewrite forallb_forall in H. specialize (H a Ha). rewrite (existsb_eqb_l ys a' a E). exact H.
Qed.

Lemma in_expr_eqb_l x x' y : expr_eqb x x' = true -> in_expr x y = in_expr x' y.
Proof.
  intro E. destruct y as [ya|ys|ys].
  - destruct x as [xa|xs|xs], x' as [xa'|xs'|xs']; try discriminate; try reflexivity.
    simpl in E. apply atom_eqb_eq in E. subst. reflexivity.
  - simpl. rewrite (existsb_eqb_l ys x x' E). destruct x as [xa|xs|xs], x' as [xa'|xs'|xs']; try discriminate; try reflexivity.
    f_equal. rewrite expr_eqb_and in E. apply andb_true_iff in E as [S1 S2]. apply sup_as_sub in S2.
    apply bool_eq_iff. split; apply forallb_sub_in; assumption.
  - simpl. rewrite (existsb_eqb_l ys x x' E). destruct x as [xa|xs|xs], x' as [xa'|xs'|xs']; try discriminate; try reflexivity.
    f_equal. rewrite expr_eqb_or in E. apply andb_true_iff in E as [S1 S2]. apply sup_as_sub in S2.
    apply bool_eq_iff. split; apply forallb_sub_in; assumption.
Qed.

Theorem contains_respects_equiv_left a a' b : is_equivalent a a' = true -> contains a b = contains a' b.
Proof. unfold is_equivalent, contains. apply in_expr_eqb_r. Qed.
Theorem contains_respects_equiv_right a b b' : is_equivalent b b' = true -> contains a b = contains a b'.
Proof. unfold is_equivalent, contains. apply in_expr_eqb_l. Qed.

Lemma in_expr_refl s : in_expr s s = true.
Proof.
  destruct s as [a|xs|xs]; simpl.
  - rewrite atom_eqb_refl. reflexivity.
  - apply orb_true_iff. right. apply forallb_forall. intros a Ha. apply existsb_exists. exists a. split; [exact Ha | apply expr_eqb_refl].
  - apply orb_true_iff. right. apply forallb_forall. intros a Ha. apply existsb_exists. exists a. split; [exact Ha | apply expr_eqb_refl].
Qed.

Theorem contains_refl a : contains a a = true.
Proof. apply in_expr_refl. Qed.

Theorem with_contains_parts l r :
  contains (Lit (With l r)) (Lit (Plain l)) = true /\ contains (Lit (With l r)) (Lit (Plain r)) = true.
Proof.
  unfold contains. simpl. assert (El : sym_eqb l l = true) by (apply sym_eqb_eq; reflexivity).
  assert (Er : sym_eqb r r = true) by (apply sym_eqb_eq; reflexivity).
  rewrite El, Er. split; [reflexivity | apply orb_true_r].
Qed.

(* every license of the contained expression occurs in the container, possibly as a part of a WITH pair *)
Definition atoms_dec (e : expr) : list atom := literals e ++ map Plain (flat_map decompose (literals e)).

Lemma in_expr_atoms x y : in_expr x y = true -> incl (literals x) (atoms_dec y).
Proof.
  intro H. destruct y as [ya|ys|ys].
  - destruct x as [xa|xs|xs]; try discriminate. simpl in H. apply orb_true_iff in H as [H|H].
    + apply atom_eqb_eq in H. subst. intros a [<-|[]]. left; reflexivity.
    + destruct xa as [s|l r]; [|discriminate]. apply existsb_exists in H as [m [Hm E]]. apply sym_eqb_eq in E. subst m.
      intros a [<-|[]]. unfold atoms_dec. simpl. right. rewrite app_nil_r. apply in_map. exact Hm.
  - simpl in H. apply orb_true_iff in H as [H|H].
    + apply existsb_exists in H as [y [Hy E]]. rewrite expr_eqb_sym in E. apply expr_eqb_literals in E.
      intros a Ha. apply in_or_app. left. simpl. apply in_flat_map. exists y. split; [exact Hy | apply E; exact Ha].
    + destruct x as [xa|xs|xs]; try discriminate. rewrite forallb_forall in H.
      intros a Ha. simpl in Ha. apply in_flat_map in Ha as [x [Hx Ha]]. specialize (H x Hx).
      apply existsb_exists in H as [y [Hy E]]. rewrite expr_eqb_sym in E. apply expr_eqb_literals in E.
      apply in_or_app. left. simpl. apply in_flat_map. exists y. split; [exact Hy | apply E; exact Ha].
  - simpl in H. apply orb_true_iff in H as [H|H].
    + apply existsb_exists in H as [y [Hy E]]. rewrite expr_eqb_sym in E. apply expr_eqb_literals in E.
      intros a Ha. apply in_or_app. left. simpl. apply in_flat_map. exists y. split; [exact Hy | apply E; exact Ha].
    + destruct x as [xa|xs|xs]; try discriminate. rewrite forallb_forall in H.
      intros a Ha. simpl in Ha. apply in_flat_map in Ha as [x [Hx Ha]]. specialize (H x Hx).
      apply existsb_exists in H as [y [Hy E]]. rewrite expr_eqb_sym in E. apply expr_eqb_literals in E.
      apply in_or_app. left. simpl. apply in_flat_map. exists y. split; [exact Hy | apply E; exact Ha].
Qed.

Lemma atoms_dec_incl e e' : incl (literals e) (literals e') -> incl (atoms_dec e) (atoms_dec e').
Proof.
  intros H a Ha. unfold atoms_dec in *. apply in_app_or in Ha as [Ha|Ha]; apply in_or_app; [left; apply H; exact Ha|right].
  apply in_map_iff in Ha as [s [<- Hs]]. apply in_map. apply in_flat_map in Hs as [l [Hl Hs]].
  apply in_flat_map. exists l. split; [apply H; exact Hl | exact Hs].
Qed.

Theorem contains_atoms a b : contains a b = true -> incl (literals (simplify b)) (atoms_dec a).
Proof.
  intro H. unfold contains in H. eapply incl_tran; [apply in_expr_atoms; exact H|].
  apply atoms_dec_incl. apply simplify_atoms.
Qed.
