(* C07: shape of the result of simplify: no operand of the node's own kind, no two equal
   operands, operands in non-decreasing order of the comparison used by list.sort(). *)
Require Import Model.Base Model.Expr Model.Simplify Proofs.Symbol Proofs.ExprEq Proofs.SimplifySound.
From Coq Require Import Lia.

(* ---- the comparison of two nodes of the same kind ---- *)
Fixpoint lex_ltb (xs ys : list expr) : bool :=
  match xs, ys with
  | [], [] => false
  | [], _ :: _ => true
  | _ :: _, [] => false
  | x :: xs', y :: ys' => if expr_eqb x y then lex_ltb xs' ys' else expr_ltb x y
  end.

Lemma ltb_and xs : forall ys, expr_ltb (And xs) (And ys) = lex_ltb xs ys.
Proof. induction xs as [|x xs IH]; destruct ys as [|y ys]; reflexivity. Qed.
Lemma ltb_or xs : forall ys, expr_ltb (Or xs) (Or ys) = lex_ltb xs ys.
Proof. induction xs as [|x xs IH]; destruct ys as [|y ys]; reflexivity. Qed.

Lemma lex_asym xs :
  Forall (fun x => forall b, expr_ltb x b = true -> expr_ltb b x = false) xs ->
  forall ys, lex_ltb xs ys = true -> lex_ltb ys xs = false.
Proof.
  intro H. induction H as [|x xs Hx _ IH]; intros [|y ys] L; simpl in *; try reflexivity; try discriminate.
  rewrite (expr_eqb_sym y x). destruct (expr_eqb x y); [apply IH; exact L | apply Hx; exact L].
Qed.

Theorem expr_ltb_asym : forall a b, expr_ltb a b = true -> expr_ltb b a = false.
Proof.
  induction a as [x|xs IH|xs IH] using expr_ind'; intros b L; destruct b as [y|ys|ys]; try reflexivity; try discriminate.
  - simpl in *. apply atom_ltb_asym; exact L.
  - rewrite ltb_and in *. apply (lex_asym xs IH); exact L.
  - rewrite ltb_or in *. apply (lex_asym xs IH); exact L.
Qed.

Lemma expr_ltb_irrefl a : expr_ltb a a = false.
Proof. destruct (expr_ltb a a) eqn:E; [|reflexivity]. rewrite (expr_ltb_asym _ _ E) in E. discriminate. Qed.

(* ---- shape predicates ---- *)
Fixpoint flatb (e : expr) : bool :=
  match e with
  | Lit _ => true
  | And xs => forallb (fun x => negb (is_op OpAnd x) && flatb x) xs
  | Or xs => forallb (fun x => negb (is_op OpOr x) && flatb x) xs
  end.

Definition okarg (o : bop) (x : expr) : bool := negb (is_op o x) && flatb x.

Lemma flatb_mk o xs : flatb (mk o xs) = forallb (okarg o) xs.
Proof. destruct o; reflexivity. Qed.

Lemma flatten_ok o xs : forallb flatb xs = true -> forallb (okarg o) (flatten o xs) = true.
Proof.
  intro H. unfold flatten. apply forallb_forall. intros e He. apply in_flat_map in He as [x [Hx He]].
  rewrite forallb_forall in H. specialize (H x Hx).
  destruct (is_op o x) eqn:E.
  - destruct o, x as [a|ys|ys]; simpl in E; try discriminate; simpl in He, H;
      rewrite forallb_forall in H; apply (H e He).
  - destruct He as [<-|[]]. unfold okarg. rewrite E, H. reflexivity.
Qed.

Lemma forallb_incl {A} (f : A -> bool) l l' : incl l' l -> forallb f l = true -> forallb f l' = true.
Proof. intros Hi H. apply forallb_forall. intros x Hx. rewrite forallb_forall in H. apply H, Hi, Hx. Qed.

Lemma okarg_flatb o x : okarg o x = true -> flatb x = true.
Proof. unfold okarg. intro H. apply andb_true_iff in H as [_ H]. exact H. Qed.

Lemma finish_flat o a1 :
  forallb (okarg o) a1 = true ->
  flatb (match absorb o a1 with [x] => x | a2 => mk o (sort_args a2) end) = true.
Proof.
  intro H. pose proof (forallb_incl _ _ _ (absorb_incl o a1) H) as H2.
  destruct (absorb o a1) as [|x [|y l]] eqn:E.
  - destruct o; reflexivity.
  - simpl in H2. rewrite andb_true_r in H2. apply (okarg_flatb o); exact H2.
  - rewrite flatb_mk. apply (forallb_incl _ _ _ (sort_incl _) H2).
Qed.

Lemma simp_node_flat o args : forallb flatb args = true -> flatb (simp_node o args) = true.
Proof.
  intro H. unfold simp_node.
  pose proof (forallb_incl _ _ _ (dedupe_incl (flatten o args)) (flatten_ok o args H)) as H1.
  destruct (dedupe (flatten o args)) as [|x [|y l]] eqn:E.
  - apply (finish_flat o []); exact H1.
  - simpl in H1. rewrite andb_true_r in H1. apply (okarg_flatb o); exact H1.
  - apply (finish_flat o (x :: y :: l)); exact H1.
Qed.

Theorem simplify_flat : forall e, flatb (simplify e) = true.
Proof.
  induction e as [a|xs IH|xs IH] using expr_ind'; [reflexivity| |];
    cbn [simplify]; apply simp_node_flat; apply forallb_forall; intros x Hx;
    apply in_map_iff in Hx as [x0 [<- Hx0]]; rewrite Forall_forall in IH; apply IH; exact Hx0.
Qed.

(* ---- no two equal operands ---- *)
Inductive distinct : list expr -> Prop :=
  | distinct_nil : distinct []
  | distinct_cons x l : (forall y, In y l -> expr_eqb x y = false) -> distinct l -> distinct (x :: l).

Lemma distinct_app_inv l1 l2 :
  distinct (l1 ++ l2) <-> distinct l1 /\ distinct l2 /\ (forall x y, In x l1 -> In y l2 -> expr_eqb x y = false).
Proof.
  induction l1 as [|a l1 IH]; simpl.
  - split; [intro H; repeat split; [constructor | exact H | intros x y []] | intros [_ [H _]]; exact H].
  - split.
    + intro H. inversion H as [|? ? Ha Hd]; subst. apply IH in Hd as [D1 [D2 D3]]. repeat split.
      * constructor; [intros y Hy; apply Ha; apply in_or_app; left; exact Hy | exact D1].
      * exact D2.
      * intros x y [<-|Hx] Hy; [apply Ha; apply in_or_app; right; exact Hy | apply D3; assumption].
    + intros [D1 [D2 D3]]. inversion D1 as [|? ? Ha Hd]; subst. constructor.
      * intros y Hy. apply in_app_or in Hy as [Hy|Hy]; [apply Ha; exact Hy | apply D3; [left; reflexivity | exact Hy]].
      * apply IH. repeat split; [exact Hd | exact D2 | intros x y Hx Hy; apply D3; [right; exact Hx | exact Hy]].
Qed.

Lemma distinct_filter f l : distinct l -> distinct (filter f l).
Proof.
  intro D. induction D as [|x l Hx D IH]; simpl; [constructor|].
  destruct (f x); [|exact IH]. constructor; [|exact IH].
  intros y Hy. apply filter_In in Hy as [Hy _]. apply Hx; exact Hy.
Qed.

Lemma existsb_eqb_false acc x :
  existsb (fun y => expr_eqb y x) acc = false -> forall y, In y acc -> expr_eqb y x = false.
Proof.
  intros H y Hy. destruct (expr_eqb y x) eqn:E; [|reflexivity].
  assert (existsb (fun y => expr_eqb y x) acc = true) by (apply existsb_exists; exists y; split; assumption). congruence.
Qed.

Lemma dedupe_acc_distinct : forall xs acc, distinct acc -> distinct (dedupe_acc acc xs).
Proof.
  induction xs as [|x xs IH]; intros acc D; simpl; [exact D|].
  destruct (existsb (fun y => expr_eqb y x) acc) eqn:E; [apply IH; exact D|].
  apply IH. apply distinct_app_inv. repeat split; [exact D | constructor; [intros ? [] | constructor] |].
  intros a b Ha [<-|[]]. apply (existsb_eqb_false acc x E); exact Ha.
Qed.
Lemma dedupe_distinct xs : distinct (dedupe xs).
Proof. apply dedupe_acc_distinct. constructor. Qed.

Lemma absorb_loop_distinct o : forall fuel done todo,
  distinct (done ++ todo) -> distinct (absorb_loop fuel o done todo).
Proof.
  induction fuel as [|fuel IH]; intros done todo D; [exact D|].
  destruct todo as [|a rest]; [simpl; rewrite app_nil_r in D; exact D|].
  cbn [absorb_loop]. apply IH.
  apply distinct_app_inv in D as [D1 [D2 D3]]. inversion D2 as [|? ? Ha Dr]; subst.
  rewrite <- app_assoc. apply distinct_app_inv. repeat split.
  - apply distinct_filter; exact D1.
  - simpl. constructor; [|apply distinct_filter; exact Dr].
    intros y Hy. apply filter_In in Hy as [Hy _]. apply Ha; exact Hy.
  - intros x y Hx Hy. apply filter_In in Hx as [Hx _]. apply D3; [exact Hx|].
    destruct Hy as [<-|Hy]; [left; reflexivity | right; apply filter_In in Hy as [Hy _]; exact Hy].
Qed.
Lemma absorb_distinct o xs : distinct xs -> distinct (absorb o xs).
Proof. intro D. apply absorb_loop_distinct. exact D. Qed.

Lemma insert_sorted_distinct x : forall l,
  distinct l -> (forall y, In y l -> expr_eqb x y = false) -> distinct (insert_sorted x l).
Proof.
  induction l as [|y l IH]; intros D Hx; simpl.
  - constructor; [intros ? [] | constructor].
  - destruct (expr_ltb x y); [constructor; assumption|].
    inversion D as [|? ? Hy Dl]; subst. constructor.
    + intros z Hz. apply insert_sorted_incl in Hz. destruct Hz as [<-|Hz].
      * rewrite expr_eqb_sym. apply Hx; left; reflexivity.
      * apply Hy; exact Hz.
    + apply IH; [exact Dl | intros z Hz; apply Hx; right; exact Hz].
Qed.

Lemma sort_fold_distinct : forall xs acc,
  distinct (acc ++ xs) -> distinct (fold_left (fun acc x => insert_sorted x acc) xs acc).
Proof.
  induction xs as [|x xs IH]; intros acc D; simpl; [rewrite app_nil_r in D; exact D|].
  apply IH. apply distinct_app_inv in D as [D1 [D2 D3]]. inversion D2 as [|? ? Hx Dx]; subst.
  apply distinct_app_inv. repeat split.
  - apply insert_sorted_distinct; [exact D1|]. intros y Hy. rewrite expr_eqb_sym. apply D3; [exact Hy | left; reflexivity].
  - exact Dx.
  - intros a b Ha Hb. apply insert_sorted_incl in Ha. destruct Ha as [<-|Ha]; [apply Hx; exact Hb | apply D3; [exact Ha | right; exact Hb]].
Qed.
Lemma sort_distinct xs : distinct xs -> distinct (sort_args xs).
Proof. intro D. apply sort_fold_distinct. exact D. Qed.

(* ---- operands in order ---- *)
Inductive ordered : list expr -> Prop :=
  | ordered_nil : ordered []
  | ordered_one x : ordered [x]
  | ordered_cons x y l : expr_ltb y x = false -> ordered (y :: l) -> ordered (x :: y :: l).

Lemma insert_sorted_ordered x : forall l, ordered l -> ordered (insert_sorted x l).
Proof.
  induction l as [|y l IH]; intro H; simpl; [constructor|].
  destruct (expr_ltb x y) eqn:E.
  - constructor; [apply expr_ltb_asym; exact E | exact H].
  - inversion H as [| |? z l' Hzy Hl]; subst; simpl.
    + constructor; [exact E | constructor].
    + specialize (IH Hl). simpl in IH. destruct (expr_ltb x z) eqn:E2.
      * constructor; [exact E | exact IH].
      * constructor; [exact Hzy | exact IH].
Qed.
Lemma sort_fold_ordered : forall xs acc, ordered acc -> ordered (fold_left (fun acc x => insert_sorted x acc) xs acc).
Proof. induction xs as [|x xs IH]; intros acc H; simpl; [exact H | apply IH, insert_sorted_ordered, H]. Qed.
Lemma sort_ordered xs : ordered (sort_args xs).
Proof. apply sort_fold_ordered. constructor. Qed.

(* canonical shape of one node, recursively *)
Inductive canonical : expr -> Prop :=
  | canon_lit a : canonical (Lit a)
  | canon_and xs : (2 <= length xs)%nat -> distinct xs -> ordered xs -> Forall canonical xs ->
                   Forall (fun x => is_op OpAnd x = false) xs -> canonical (And xs)
  | canon_or xs : (2 <= length xs)%nat -> distinct xs -> ordered xs -> Forall canonical xs ->
                  Forall (fun x => is_op OpOr x = false) xs -> canonical (Or xs).

Lemma canonical_mk o xs :
  (2 <= length xs)%nat -> distinct xs -> ordered xs -> Forall canonical xs ->
  Forall (fun x => is_op o x = false) xs -> canonical (mk o xs).
Proof. destruct o; intros; constructor; assumption. Qed.

Definition goodarg (o : bop) (x : expr) : Prop := canonical x /\ is_op o x = false.

Lemma canonical_args o x : canonical x -> is_op o x = true -> Forall (goodarg o) (args_of x).
Proof.
  intros C E. destruct C as [a|xs _ _ _ Hc Hk|xs _ _ _ Hc Hk]; destruct o; simpl in E; try discriminate; simpl;
    apply Forall_forall; intros y Hy; rewrite Forall_forall in Hc, Hk; split; [apply Hc | apply Hk | apply Hc | apply Hk]; exact Hy.
Qed.

Lemma flatten_good o xs : Forall canonical xs -> Forall (goodarg o) (flatten o xs).
Proof.
  intro H. unfold flatten. apply Forall_forall. intros e He. apply in_flat_map in He as [x [Hx He]].
  rewrite Forall_forall in H. specialize (H x Hx).
  destruct (is_op o x) eqn:E.
  - pose proof (canonical_args o x H E) as G. rewrite Forall_forall in G. apply G; exact He.
  - destruct He as [<-|[]]. split; assumption.
Qed.

Lemma Forall_incl {A} (P : A -> Prop) l l' : incl l' l -> Forall P l -> Forall P l'.
Proof. intros Hi H. apply Forall_forall. intros x Hx. rewrite Forall_forall in H. apply H, Hi, Hx. Qed.

Lemma sort_length : forall xs acc, length (fold_left (fun acc x => insert_sorted x acc) xs acc) = (length acc + length xs)%nat.
Proof.
  induction xs as [|x xs IH]; intros acc; simpl; [lia|]. rewrite IH.
  assert (L : forall l, length (insert_sorted x l) = S (length l)).
  { induction l as [|y l IHl]; simpl; [reflexivity|]. destruct (expr_ltb x y); simpl; [reflexivity | rewrite IHl; reflexivity]. }
  rewrite L. lia.
Qed.

Lemma finish_canonical o a1 :
  distinct a1 -> Forall (goodarg o) a1 ->
  canonical (match absorb o a1 with [x] => x | a2 => mk o (sort_args a2) end) \/ absorb o a1 = [].
Proof.
  intros D G. pose proof (absorb_distinct o a1 D) as D2. pose proof (Forall_incl _ _ _ (absorb_incl o a1) G) as G2.
  destruct (absorb o a1) as [|x [|y l]] eqn:E.
  - right; reflexivity.
  - left. inversion G2 as [|? ? [Hc _] _]; subst. exact Hc.
  - left. apply canonical_mk.
    + unfold sort_args. rewrite sort_length. simpl. lia.
    + apply sort_distinct; exact D2.
    + apply sort_ordered.
    + apply (Forall_incl _ _ _ (sort_incl _)). apply Forall_forall. intros z Hz. rewrite Forall_forall in G2. apply G2; exact Hz.
    + apply (Forall_incl _ _ _ (sort_incl _)). apply Forall_forall. intros z Hz. rewrite Forall_forall in G2. apply G2; exact Hz.
Qed.

Lemma filter_len_le {A} (f : A -> bool) l : (length (filter f l) <= length l)%nat.
Proof. induction l as [|x l IH]; simpl; [lia|]. destruct (f x); simpl; lia. Qed.

(* absorb never empties a non-empty list: the first absorber that is reached survives *)
Lemma absorb_loop_nonempty o : forall fuel done todo,
  (length todo <= fuel)%nat -> done ++ todo <> [] -> absorb_loop fuel o done todo <> [].
Proof.
  induction fuel as [|fuel IH]; intros done todo Hl Hne.
  - destruct todo; [|simpl in Hl; lia]. simpl. exact Hne.
  - destruct todo as [|a rest]; [simpl; rewrite app_nil_r in Hne; exact Hne|].
    cbn [absorb_loop]. apply IH.
    + simpl in Hl. pose proof (filter_len_le (fun t => negb (absorbed_by o a t)) rest). lia.
    + intro H. apply app_eq_nil in H as [H _]. apply app_eq_nil in H as [_ H]. discriminate.
Qed.
Lemma absorb_nonempty o xs : xs <> [] -> absorb o xs <> [].
Proof. intro H. apply absorb_loop_nonempty; [lia | exact H]. Qed.

Lemma dedupe_acc_nonempty : forall xs acc, acc ++ xs <> [] -> dedupe_acc acc xs <> [].
Proof.
  induction xs as [|x xs IH]; intros acc H; simpl; [rewrite app_nil_r in H; exact H|].
  destruct (existsb (fun y => expr_eqb y x) acc) eqn:E.
  - apply IH. destruct acc; [discriminate | discriminate].
  - apply IH. intro H2. apply app_eq_nil in H2 as [H2 _]. apply app_eq_nil in H2 as [_ H2]. discriminate.
Qed.

Lemma simp_node_canonical o args :
  Forall canonical args -> args <> [] -> Forall (fun x => args_of x <> [] \/ is_op o x = false) args ->
  canonical (simp_node o args).
Proof.
  intros H Hne Hargs. unfold simp_node.
  pose proof (flatten_good o args H) as G0.
  pose proof (Forall_incl _ _ _ (dedupe_incl (flatten o args)) G0) as G1.
  pose proof (dedupe_distinct (flatten o args)) as D1.
  assert (Fne : flatten o args <> []).
  { destruct args as [|x args]; [contradiction|]. unfold flatten. simpl. inversion Hargs as [|? ? Hx _]; subst.
    destruct (is_op o x) eqn:E.
    - destruct Hx as [Hx|Hx]; [|congruence]. destruct (args_of x); [contradiction | discriminate].
    - discriminate. }
  assert (Dne : dedupe (flatten o args) <> []) by (apply dedupe_acc_nonempty; exact Fne).
  destruct (dedupe (flatten o args)) as [|x [|y l]] eqn:E.
  - contradiction.
  - inversion G1 as [|? ? [Hc _] _]; subst. exact Hc.
  - destruct (finish_canonical o (x :: y :: l) D1 G1) as [C|C]; [exact C|].
    exfalso. apply (absorb_nonempty o (x :: y :: l)); [discriminate | exact C].
Qed.

(* the result of simplify on a well-formed expression is canonical *)
Lemma canonical_args_nonempty x : canonical x -> args_of x <> [] \/ forall o, is_op o x = false.
Proof.
  intro C. destruct C as [a|xs Hl _ _ _ _|xs Hl _ _ _ _]; [right; intros []; reflexivity | left | left];
    simpl; destruct xs; simpl in Hl; [lia | discriminate | lia | discriminate].
Qed.

Theorem simplify_canonical : forall e, wf e = true -> canonical (simplify e).
Proof.
  induction e as [a|xs IH|xs IH] using expr_ind'; intro W; [simpl; apply canon_lit| |];
    cbn [simplify]; cbn [wf] in W; apply andb_true_iff in W as [Wl Wx]; apply Nat.leb_le in Wl;
    rewrite forallb_forall in Wx; rewrite Forall_forall in IH.
  - assert (C : Forall canonical (map simplify xs)).
    { apply Forall_forall. intros y Hy. apply in_map_iff in Hy as [x [<- Hx]]. apply IH; [exact Hx | apply Wx; exact Hx]. }
    apply simp_node_canonical; [exact C | destruct xs; [simpl in Wl; lia | discriminate] |].
    apply Forall_forall. intros y Hy. rewrite Forall_forall in C.
    destruct (canonical_args_nonempty y (C y Hy)) as [N|N]; [left; exact N | right; apply N].
  - assert (C : Forall canonical (map simplify xs)).
    { apply Forall_forall. intros y Hy. apply in_map_iff in Hy as [x [<- Hx]]. apply IH; [exact Hx | apply Wx; exact Hx]. }
    apply simp_node_canonical; [exact C | destruct xs; [simpl in Wl; lia | discriminate] |].
    apply Forall_forall. intros y Hy. rewrite Forall_forall in C.
    destruct (canonical_args_nonempty y (C y Hy)) as [N|N]; [left; exact N | right; apply N].
Qed.
