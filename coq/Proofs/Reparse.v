(* C05 at the level of the text: the rendering of an expression, tokenized and parsed again by the same
   table, gives the expression back.  The word pieces of the rendered text are cut along the items
   render() wrote (keys, AND / OR / WITH, parentheses); a table whose names hold no operator word
   cannot match across an operator, so every match lies inside one key; parse_blocks_gen and
   render_kinds_roundtrip do the rest. *)
Require Import Model.Base Model.Expr Model.Split Model.Trie Model.Overlap Model.LicTok Model.BoolParse Model.Licensing.
Require Import Proofs.Symbol Proofs.Strings Proofs.Split Proofs.Overlap Proofs.Trie Proofs.Recognise Proofs.Cover Proofs.Select
               Proofs.WithGroup Proofs.SimpleAgree Proofs.Account Proofs.Segments Proofs.BoolParse Proofs.Blocks
               Proofs.Render Proofs.Kinds Proofs.RenderKinds Proofs.Resplit Proofs.RenderWords.
From Coq Require Import Lia.
Open Scope Z_scope.

(* ---- lists cut into groups ---- *)
Section Groups.
Context {A B U : Type}.

Lemma split_units (f : A -> B) (uw : U -> list B) : forall us ps, map f ps = flat_map uw us ->
  exists gus : list (list A * U), concat (map fst gus) = ps /\ map snd gus = us /\ forall g u, In (g, u) gus -> map f g = uw u.
Proof.
  induction us as [|u us IH]; intros ps H.
  - exists []. cbn in H. apply map_eq_nil in H. subst. split; [reflexivity|]. split; [reflexivity|]. intros g u [].
  - cbn [flat_map] in H. apply map_eq_app in H as [g [ps' [-> [Hg Hps]]]]. destruct (IH ps' Hps) as [gus [E1 [E2 E3]]].
    exists ((g, u) :: gus). cbn [map fst snd concat]. split; [rewrite E1; reflexivity|]. split; [rewrite E2; reflexivity|].
    intros g0 u0 [E|Hin]; [inversion E; subst; exact Hg | apply E3; exact Hin].
Qed.

Variable sepu : U -> bool.
Variable sepa : A -> Prop.

(* no two groups that are not separators next to each other *)
Fixpoint alt (us : list U) : Prop :=
  match us with a :: ((b :: _) as r) => (sepu a = true \/ sepu b = true) /\ alt r | _ => True end.

Lemma alt_tail u us : alt (u :: us) -> alt us.
Proof. destruct us as [|b r]; [intros; exact I | intros [_ H]; exact H]. Qed.

Lemma alt_app : forall l1 l2 d, alt l1 -> alt l2 ->
  (l1 <> [] -> l2 <> [] -> sepu (last l1 d) = true \/ sepu (hd d l2) = true) -> alt (l1 ++ l2).
Proof.
  induction l1 as [|a l1 IH]; intros l2 d A1 A2 H; [exact A2|]. cbn [app].
  destruct l1 as [|b l1].
  - cbn [app]. destruct l2 as [|c l2]; [exact I|]. split; [apply (H ltac:(discriminate) ltac:(discriminate)) | exact A2].
  - destruct A1 as [P A1]. cbn [app]. split; [exact P|]. apply (IH l2 d A1 A2). intros _ Hn. apply H; [discriminate | exact Hn].
Qed.

(* a run without separator elements lies inside one group that is not a separator *)
Lemma mid_in_group : forall (gus : list (list A * U)) pre mid post,
  concat (map fst gus) = pre ++ mid ++ post -> mid <> [] -> (forall x, In x mid -> ~ sepa x) ->
  (forall g u, In (g, u) gus -> g <> []) ->
  (forall g u, In (g, u) gus -> sepu u = true -> exists x, g = [x] /\ sepa x) ->
  alt (map snd gus) ->
  exists g u a c, In (g, u) gus /\ sepu u = false /\ g = a ++ mid ++ c.
Proof.
  induction gus as [|[g u] r IH]; intros pre mid post E Hne Hns Hgne Hsep Halt.
  - cbn in E. symmetry in E. apply app_eq_nil in E as [_ E]. apply app_eq_nil in E as [E _]. contradiction.
  - cbn [map fst snd concat] in E, Halt.
    assert (IHr : forall pre', concat (map fst r) = pre' ++ mid ++ post ->
              exists g' u' a c, In (g', u') ((g, u) :: r) /\ sepu u' = false /\ g' = a ++ mid ++ c).
    { intros pre' E'. destruct (IH pre' mid post E' Hne Hns) as [g' [u' [a [c [Hin R]]]]].
      - intros g0 u0 H0. apply (Hgne g0 u0). right; exact H0.
      - intros g0 u0 H0. apply (Hsep g0 u0). right; exact H0.
      - apply (alt_tail u). exact Halt.
      - exists g', u', a, c. split; [right; exact Hin | exact R]. }
    apply app_eq_app in E as [l [[Eg El]|[Ep Er]]].
    + destruct l as [|x l'].
      * cbn in El. apply (IHr []). symmetry. exact El.
      * destruct mid as [|m mid']; [contradiction|]. cbn [app] in El. injection El as Em El'. subst x.
        destruct (sepu u) eqn:Su.
        { exfalso. destruct (Hsep g u (or_introl eq_refl) Su) as [y [Ey Hy]]. rewrite Ey in Eg.
          destruct pre as [|p0 pre']; cbn [app] in Eg.
          - injection Eg as Ey' _. subst y. apply (Hns m (or_introl eq_refl)). exact Hy.
          - injection Eg as _ Eg. destruct pre'; discriminate. }
        apply app_eq_app in El' as [l2 [[E1 E2]|[E1 E2]]].
        { destruct l2 as [|z l2'].
          - exists g, u, pre, []. split; [left; reflexivity|]. split; [exact Su|]. rewrite Eg, E1, !app_nil_r. reflexivity.
          - exfalso. destruct r as [|[g2 u2] r2]; [discriminate|].
            cbn [map fst snd concat] in E2, Halt. destruct Halt as [[Hu|Hu2] _]; [congruence|].
            destruct (Hsep g2 u2 (or_intror (or_introl eq_refl)) Hu2) as [y [Ey Hy]]. rewrite Ey in E2. cbn [app] in E2.
            injection E2 as Eyz _. subst y. apply (Hns z); [|exact Hy]. right. rewrite E1. apply in_or_app. right. left. reflexivity. }
        { exists g, u, pre, l2. split; [left; reflexivity|]. split; [exact Su|]. rewrite Eg, E1. reflexivity. }
    + apply (IHr l). exact Er.
Qed.

End Groups.

Section Reparse.
Variable O : oracle.
Hypothesis sp_is_space : is_space O 32%N = true.
(* the letters of AND / OR / WITH and the parentheses are not white space *)
Hypothesis upper_plain : forall c, In c [65; 78; 68; 79; 82; 87; 73; 84; 72; 40; 41]%N -> is_space O c = false.
(* lower-casing the operator words gives the keywords *)
Hypothesis lower_kw : lower O S_AND = s_and /\ lower O S_OR = s_or /\ lower O S_WITH = s_with /\
                      lower O s_lpar = s_lpar /\ lower O s_rpar = s_rpar.
Variable T : list entry.
Variable kwords : sym -> list str.
Notation ltok := (Trie.tok kv).
Notation tr := (build_trie O T).

Definition look (p : path) : option (str * kv) := get_out p (outs tr).

Definition kw_str (k : kw) : str :=
  match k with KAnd => s_and | KOr => s_or | KWith => s_with | KLp => s_lpar | KRp => s_rpar end.
Definition KW (k : kw) : str :=
  match k with KAnd => S_AND | KOr => S_OR | KWith => S_WITH | KLp => s_lpar | KRp => s_rpar end.
Lemma lower_KW k : lower O (KW k) = kw_str k.
Proof. destruct lower_kw as [H1 [H2 [H3 [H4 H5]]]]. destruct k; assumption. Qed.
Lemma kw_str_keyword k : is_keyword_str (kw_str k) = true.
Proof. destruct k; reflexivity. Qed.

(* the table as the trie sees it: the keywords are stored, and every other stored name is free of operator words *)
Hypothesis KWS : forall k, exists sp, look [kw_str k] = Some (sp, VKw k).
Hypothesis OF : forall p sp v, look p = Some (sp, v) ->
  (exists k, v = VKw k /\ p = [kw_str k]) \/ (forall w, In w p -> is_keyword_str w = false).

(* a license of the expression: its key is made of plain words, none an operator word, and either the
   table recognises these words as this very license, or no stored name occurs among them and the key
   is what an unknown license made of these words gets *)
Definition sym_ok (s : sym) : Prop :=
  key_ok O kwords s /\ (forall w, In w (kwords s) -> is_keyword_str (lower O w) = false) /\
  match look (map (lower O) (kwords s)) with
  | Some (_, v) => v = VSym s
  | None => exc s = false /\ mk_key O (key s) = Ok (key s) /\
            forall a m c, map (lower O) (kwords s) = a ++ m ++ c -> m <> [] -> look m = None
  end.
Definition renderable (e : expr) : Prop := forall a, In a (literals e) -> forall s, In s (decompose a) -> sym_ok s.

(* ---- units: the items with WITH pairs taken apart ---- *)
Inductive unit_ := UK (k : kw) | US (s : sym).
Definition units_of (t : rtok) : list unit_ :=
  match t with
  | RSym (Plain s) => [US s]
  | RSym (With l r) => [US l; UK KWith; US r]
  | RAnd => [UK KAnd] | ROr => [UK KOr] | RLp => [UK KLp] | RRp => [UK KRp]
  end.
Definition uwords (u : unit_) : list str := match u with UK k => [KW k] | US s => kwords s end.
Definition uval (u : unit_) : kv := match u with UK k => VKw k | US s => VSym s end.
Definition sepu (u : unit_) : bool := match u with UK _ => true | US _ => false end.
Definition kwp (p : piece) : Prop := is_keyword_str (lower O (ptext p)) = true.

Lemma rwords_units t : rwords kwords t = flat_map uwords (units_of t).
Proof. destruct t as [[s|l r]| | | |]; cbn [rwords units_of flat_map uwords KW app]; rewrite ?app_nil_r; reflexivity. Qed.

Lemma flat_map_units : forall its, flat_map (rwords kwords) its = flat_map uwords (flat_map units_of its).
Proof.
  induction its as [|t its IH]; [reflexivity|]. cbn [flat_map]. rewrite flat_map_app, <- IH, rwords_units. reflexivity.
Qed.

Lemma alt_units_of t : alt sepu (units_of t).
Proof. destruct t as [[s|l r]| | | |]; cbn; auto. Qed.

Lemma alt_units : forall its, adjok its -> alt sepu (flat_map units_of its).
Proof.
  induction its as [|t its IH]; intro Ha; [exact I|]. cbn [flat_map].
  assert (Ha' : adjok its) by (destruct its; [exact I | destruct Ha as [_ H]; exact H]).
  apply (alt_app sepu _ _ (UK KAnd)); [apply alt_units_of | apply IH; exact Ha'|].
  intros _ Hne. destruct its as [|t2 its2]; [contradiction|]. destruct Ha as [Hp _]. cbn [flat_map].
  destruct t as [a| | | |]; try (left; reflexivity).
  destruct t2 as [a2| | | |]; try (right; reflexivity).
  exfalso. apply Hp. split; [reflexivity | discriminate].
Qed.

(* tokens regrouped along the items *)
Fixpoint witems (its : list rtok) (ts : list ltok) : list item :=
  match its with
  | [] => []
  | t :: r =>
    match t, ts with
    | RSym (Plain s), a :: ts' => ISym a s :: witems r ts'
    | RSym (With l r0), a :: w :: b :: ts' => IWith a w b l r0 :: witems r ts'
    | RAnd, a :: ts' => IKw a KAnd :: witems r ts'
    | ROr, a :: ts' => IKw a KOr :: witems r ts'
    | RLp, a :: ts' => IKw a KLp :: witems r ts'
    | RRp, a :: ts' => IKw a KRp :: witems r ts'
    | _, _ => []
    end
  end.

Lemma witems_spec : forall its (ts : list ltok),
  map (fun t => tvalue t) ts = map (fun u => Some (uval u)) (flat_map units_of its) ->
  flat_map flat (witems its ts) = ts /\ Forall item_ok (witems its ts) /\
  map kind_of (map (ptok_of O) (witems its ts)) = its.
Proof.
  induction its as [|t its IH]; intros ts H.
  - cbn in H. apply map_eq_nil in H. subst. split; [reflexivity|]. split; [constructor | reflexivity].
  - destruct t as [[s|l r0]| | | |]; cbn [flat_map units_of app map uval] in H.
    + destruct ts as [|a ts']; [discriminate|]. cbn [map] in H. injection H as Ha H. destruct (IH ts' H) as [I1 [I2 I3]].
      cbn [witems flat_map flat app map]. split; [rewrite I1; reflexivity|]. split; [constructor; [exact Ha | exact I2]|].
      rewrite I3. reflexivity.
    + destruct ts as [|a [|w [|b ts']]]; try discriminate. cbn [map] in H. injection H as Ha Hw Hb H. destruct (IH ts' H) as [I1 [I2 I3]].
      cbn [witems flat_map flat app map]. split; [rewrite I1; reflexivity|]. split; [constructor; [repeat split; assumption | exact I2]|].
      rewrite I3. reflexivity.
    + destruct ts as [|a ts']; [discriminate|]. cbn [map] in H. injection H as Ha H. destruct (IH ts' H) as [I1 [I2 I3]].
      cbn [witems flat_map flat app map]. split; [rewrite I1; reflexivity|]. split; [constructor; [split; [exact Ha | discriminate] | exact I2]|].
      rewrite I3. reflexivity.
    + destruct ts as [|a ts']; [discriminate|]. cbn [map] in H. injection H as Ha H. destruct (IH ts' H) as [I1 [I2 I3]].
      cbn [witems flat_map flat app map]. split; [rewrite I1; reflexivity|]. split; [constructor; [split; [exact Ha | discriminate] | exact I2]|].
      rewrite I3. reflexivity.
    + destruct ts as [|a ts']; [discriminate|]. cbn [map] in H. injection H as Ha H. destruct (IH ts' H) as [I1 [I2 I3]].
      cbn [witems flat_map flat app map]. split; [rewrite I1; reflexivity|]. split; [constructor; [split; [exact Ha | discriminate] | exact I2]|].
      rewrite I3. reflexivity.
    + destruct ts as [|a ts']; [discriminate|]. cbn [map] in H. injection H as Ha H. destruct (IH ts' H) as [I1 [I2 I3]].
      cbn [witems flat_map flat app map]. split; [rewrite I1; reflexivity|]. split; [constructor; [split; [exact Ha | discriminate] | exact I2]|].
      rewrite I3. reflexivity.
Qed.

(* ---- the blocks of a rendered text ---- *)
Definition blk (g : list piece) : block := match look (lws O g) with Some (_, v) => BM g v | None => BU g end.
Definition ublock (gu : list piece * unit_) : block :=
  match snd gu with UK k => BM (fst gu) (VKw k) | US _ => blk (fst gu) end.

Lemma bpieces_ublock gu : bpieces (ublock gu) = fst gu.
Proof. destruct gu as [g [k|s]]; cbn; [reflexivity|]. unfold blk. destruct (look _) as [[? ?]|]; reflexivity. Qed.

Definition is_bm (b : block) : bool := match b with BM _ _ => true | BU _ => false end.
Lemma separated_cons b1 b2 r : is_bm b1 = true \/ is_bm b2 = true -> separated (b2 :: r) -> separated (b1 :: b2 :: r).
Proof. destruct b1, b2; cbn; intros [H|H] S; try discriminate; exact S. Qed.

Lemma separated_units : forall l : list (list piece * unit_), alt sepu (map snd l) -> separated (map ublock l).
Proof.
  induction l as [|[g u] l IH]; intro Ha; [exact I|]. destruct l as [|[g2 u2] l2]; [cbn [map]; destruct (ublock (g, u)); exact I|].
  cbn [map snd] in Ha. destruct Ha as [Hs Ha]. change (map ublock ((g, u) :: (g2, u2) :: l2)) with (ublock (g, u) :: ublock (g2, u2) :: map ublock l2).
  apply separated_cons; [|apply IH; exact Ha].
  destruct Hs as [Hs|Hs]; [left; destruct u; [reflexivity | discriminate] | right; destruct u2; [reflexivity | discriminate]].
Qed.

Section Rendered.
Variable wrap : bool.
Variable e : expr.
Hypothesis W : wf e = true.
Hypothesis R : renderable e.
Notation text := (render_with key wrap e).
Notation wps := (filter (is_word_piece O) (pieces O text)).
Notation items := (render_items wrap e).
Notation units := (flat_map units_of items).

Lemma keys_ok : expr_keys_ok O kwords e.
Proof. intros a Ha s Hs. exact (proj1 (R a Ha s Hs)). Qed.

Lemma wps_words : map ptext wps = flat_map uwords units.
Proof.
  pose proof (render_words O sp_is_space upper_plain kwords wrap e W keys_ok) as H. unfold words in H.
  rewrite H. apply flat_map_units.
Qed.

Lemma unit_sym_ok s : In (US s) units -> sym_ok s.
Proof.
  intro H. apply in_flat_map in H as [t [Ht Hu]]. destruct t as [[s0|l r]| | | |]; cbn in Hu.
  - destruct Hu as [E|[]]. inversion E; subst s0. apply (R (Plain s) (render_items_syms wrap e _ Ht)). left; reflexivity.
  - pose proof (render_items_syms wrap e _ Ht) as Hl.
    destruct Hu as [E|[E|[E|[]]]]; try discriminate; injection E as <-; apply (R (With _ _) Hl); [left; reflexivity | right; left; reflexivity].
  - destruct Hu as [E|[]]; discriminate.
  - destruct Hu as [E|[]]; discriminate.
  - destruct Hu as [E|[]]; discriminate.
  - destruct Hu as [E|[]]; discriminate.
Qed.

Section Cut.
Variable gus : list (list piece * unit_).
Hypothesis G1 : concat (map fst gus) = wps.
Hypothesis G2 : map snd gus = units.
Hypothesis G3 : forall g u, In (g, u) gus -> map ptext g = uwords u.

Definition blocks : list block := map ublock gus.

Lemma blocks_cat : concat (map bpieces blocks) = wps.
Proof. unfold blocks. rewrite map_map. rewrite (map_ext _ fst bpieces_ublock). exact G1. Qed.

Lemma group_kw g k : In (g, UK k) gus -> exists p, g = [p] /\ ptext p = KW k.
Proof.
  intro H. pose proof (G3 g (UK k) H) as E. cbn [uwords] in E.
  destruct g as [|p [|q g]]; try discriminate. exists p. split; [reflexivity|]. injection E as E. exact E.
Qed.

Lemma group_unit g u : In (g, u) gus -> In u units.
Proof. intro H. rewrite <- G2. change u with (snd (g, u)). apply in_map. exact H. Qed.

Lemma group_sym g s : In (g, US s) gus -> map ptext g = kwords s /\ sym_ok s /\ g <> [] /\ lws O g = map (lower O) (kwords s).
Proof.
  intro H. pose proof (G3 g (US s) H) as E. cbn [uwords] in E. pose proof (unit_sym_ok s (group_unit _ _ H)) as Hs.
  split; [exact E|]. split; [exact Hs|]. split.
  - intro Eg. subst g. cbn in E. destruct Hs as [[_ [Hne _]] _]. apply Hne. symmetry. exact E.
  - unfold lws. rewrite <- E, map_map. reflexivity.
Qed.

Lemma group_nonempty g u : In (g, u) gus -> g <> [].
Proof.
  destruct u as [k|s]; intro H.
  - destruct (group_kw g k H) as [p [-> _]]. discriminate.
  - exact (proj1 (proj2 (proj2 (group_sym g s H)))).
Qed.

Lemma lws_kw p k : ptext p = KW k -> lws O [p] = [kw_str k].
Proof. intro E. unfold lws. cbn [map]. rewrite E, lower_KW. reflexivity. Qed.

Lemma blocks_match g v : In (BM g v) blocks -> g <> [] /\ exists sp, get_out (lws O g) (outs tr) = Some (sp, v).
Proof.
  intro H. unfold blocks in H. apply in_map_iff in H as [[g0 u] [E Hin]]. destruct u as [k|s]; cbn [ublock fst snd] in E.
  - inversion E; subst g0 v. destruct (group_kw g k Hin) as [p [-> Hp]]. split; [discriminate|].
    rewrite (lws_kw p k Hp). apply KWS.
  - unfold blk in E. destruct (look (lws O g0)) as [[sp v0]|] eqn:L; [|discriminate]. inversion E; subst g0 v0.
    split; [exact (group_nonempty g _ Hin) | exists sp; exact L].
Qed.

Lemma blocks_unknown g : In (BU g) blocks -> g <> [].
Proof.
  intro H. unfold blocks in H. apply in_map_iff in H as [[g0 u] [E Hin]]. destruct u as [k|s]; cbn [ublock fst snd] in E; [discriminate|].
  unfold blk in E. destruct (look (lws O g0)) as [[sp v0]|]; [discriminate|]. inversion E; subst g0. exact (group_nonempty g _ Hin).
Qed.

Lemma blocks_separated : separated blocks.
Proof.
  unfold blocks. apply separated_units. rewrite G2. apply alt_units. exact (proj2 (render_items_shape wrap e W)).
Qed.

Lemma incr_group g u : In (g, u) gus -> incr g.
Proof.
  intro H. pose proof (word_pieces_incr O text) as Hi. rewrite <- G1 in Hi.
  apply in_split in H as [l1 [l2 E]]. rewrite E, map_app, concat_app in Hi. cbn [map fst concat] in Hi.
  apply incr_app in Hi as [_ [Hi _]]. apply incr_app in Hi as [Hi _]. exact Hi.
Qed.

(* every match of the table in the rendered text lies inside a block that is a stored name *)
Lemma blocks_inside t : In t (t_iter O tr text) ->
  exists g v, In (BM g v) blocks /\ lo g <= tstart t /\ tend t <= hi g.
Proof.
  intro Ht. apply (scan_exact O tr (build_trie_wf O T) text) in Ht as [pre [mid [post [sp [v [E [Hne [G ->]]]]]]]].
  change {| pstart := 0; ptext := [] |} with dpiece in *.
  rewrite (occ_start text mid _ v Hne). cbn [tend occurrence_tok].
  destruct (OF (lws O mid) sp v G) as [[k [-> Ep]]|Hfree].
  - (* a keyword: one piece, which is an operator unit *)
    destruct mid as [|p0 [|q mid']]; try discriminate. clear Hne. cbn [lws map] in Ep. injection Ep as Ep.
    assert (Hin : In p0 (concat (map fst gus))) by (rewrite G1, E; apply in_or_app; right; left; reflexivity).
    apply in_concat in Hin as [g [Hg Hp]]. apply in_map_iff in Hg as [[g0 u] [Eg Hgu]]. cbn [fst] in Eg. subst g0.
    destruct u as [k'|s].
    + destruct (group_kw g k' Hgu) as [p [-> Hpk]]. destruct Hp as [<-|[]].
      exists [p], (VKw k'). split; [unfold blocks; apply in_map_iff; exists ([p], UK k'); split; [reflexivity | exact Hgu]|].
      cbn [hd last]. unfold lo, hi. cbn [hd last]. lia.
    + exfalso. destruct (group_sym g s Hgu) as [Ew [[_ [Hnk _]] _]].
      assert (Hw : In (ptext p0) (kwords s)) by (rewrite <- Ew; apply in_map; exact Hp).
      specialize (Hnk _ Hw). rewrite Ep, kw_str_keyword in Hnk. discriminate.
  - (* a name of the table: inside one license *)
    rewrite <- G1 in E.
    destruct (mid_in_group sepu kwp gus pre mid post E Hne) as [g [u [a [c [Hgu [Su Eg]]]]]].
    + intros p Hp Hk. unfold kwp in Hk. rewrite Hfree in Hk; [discriminate|]. unfold lws. apply in_map_iff. exists p. split; [reflexivity | exact Hp].
    + exact group_nonempty.
    + intros g u Hgu Su. destruct u as [k|s]; [|discriminate]. destruct (group_kw g k Hgu) as [p [-> Hp]]. exists p. split; [reflexivity|].
      unfold kwp. rewrite Hp, lower_KW. apply kw_str_keyword.
    + rewrite G2. apply alt_units. exact (proj2 (render_items_shape wrap e W)).
    + destruct u as [k|s]; [discriminate|]. destruct (group_sym g s Hgu) as [Ew [[_ [_ Hlook]] [Hgne El]]].
      assert (Ell : map (lower O) (kwords s) = lws O a ++ lws O mid ++ lws O c).
      { rewrite <- El, Eg. unfold lws. rewrite !map_app. reflexivity. }
      destruct (look (map (lower O) (kwords s))) as [[sp' v']|] eqn:L.
      * exists g, v'. split.
        -- unfold blocks. apply in_map_iff. exists (g, US s). split; [|exact Hgu]. cbn [ublock fst snd]. unfold blk. rewrite El, L. reflexivity.
        -- pose proof (incr_group g _ Hgu) as Hi.
           assert (H1 : In (hd dpiece mid) g) by (rewrite Eg; apply in_or_app; right; apply in_or_app; left; apply hd_in; exact Hne).
           assert (H2 : In (last mid dpiece) g) by (rewrite Eg; apply in_or_app; right; apply in_or_app; left; apply last_in; exact Hne).
           unfold lo, hi. split.
           ++ apply (incr_first_last g dpiece Hi Hgne _ H1).
           ++ apply (incr_first_last g dpiece Hi Hgne _ H2).
      * exfalso. destruct Hlook as [_ [_ Hno]]. specialize (Hno (lws O a) (lws O mid) (lws O c) Ell).
        unfold look in Hno. rewrite G in Hno. assert (Hm : lws O mid <> []) by (destruct mid; [contradiction | discriminate]).
        specialize (Hno Hm). discriminate.
Qed.

(* one token per block, carrying the value of its unit *)
Lemma btok_ublock g u : In (g, u) gus -> exists t, btok O text (ublock (g, u)) = Ok t /\ tvalue t = Some (uval u).
Proof.
  intro H. destruct u as [k|s]; cbn [ublock fst snd].
  - eexists. split; reflexivity.
  - destruct (group_sym g s H) as [Ew [[[Ek _] [_ Hlook]] [_ El]]]. unfold blk. rewrite El.
    destruct (look (map (lower O) (kwords s))) as [[sp v]|].
    + subst v. eexists. split; reflexivity.
    + destruct Hlook as [Hx [Hk _]]. cbn [btok]. rewrite Ew, <- Ek. unfold mk_symbol. rewrite Hk. cbn [obind].
      eexists. split; [reflexivity|]. cbn [tvalue unk_tok]. destruct s as [k0 x0]. cbn in Hx. subst x0. reflexivity.
Qed.

Lemma tokens_exist : forall l, (forall g u, In (g, u) l -> In (g, u) gus) ->
  exists ts, mapo (btok O text) (map ublock l) = Ok ts /\ map (fun t => tvalue t) ts = map (fun u => Some (uval u)) (map snd l).
Proof.
  induction l as [|[g u] l IH]; intro Hl.
  - exists []. split; reflexivity.
  - destruct (btok_ublock g u (Hl g u (or_introl eq_refl))) as [t [Et Vt]].
    destruct IH as [ts [Ets Vts]]; [intros g0 u0 H0; apply Hl; right; exact H0|].
    exists (t :: ts). cbn [map mapo snd]. rewrite Et. cbn [obind]. rewrite Ets. cbn [obind]. split; [reflexivity|]. rewrite Vt, Vts. reflexivity.
Qed.

Lemma reparse_cut : parse_tokens O T false false text = Ok e.
Proof.
  destruct (tokens_exist gus (fun g u H => H)) as [ltoks [Etoks Vals]]. rewrite G2 in Vals.
  destruct (witems_spec items ltoks Vals) as [I1 [I2 I3]].
  apply (parse_blocks_gen O sp_is_space T text blocks ltoks (witems items ltoks) e).
  - exact blocks_cat.
  - exact blocks_match.
  - exact blocks_inside.
  - exact blocks_unknown.
  - exact blocks_separated.
  - exact Etoks.
  - symmetry. exact I1.
  - exact I2.
  - unfold blocks. intro E. apply map_eq_nil in E. subst gus. cbn in G2.
    destruct (render_items_shape wrap e W) as [[Hne _] _]. destruct items as [|t its]; [contradiction|].
    cbn in G2. destruct t as [[s|l r]| | | |]; discriminate.
  - apply (render_kinds_roundtrip ([], 0) wrap e _ W). exact I3.
Qed.

End Cut.

(* C05: the rendering of a renderable expression parses back to it *)
Theorem render_reparses : parse_tokens O T false false text = Ok e.
Proof.
  destruct (split_units ptext uwords units wps wps_words) as [gus [G1 [G2 G3]]].
  exact (reparse_cut gus G1 G2 G3).
Qed.

End Rendered.
End Reparse.

(* ---- from a property of the table to the two facts about the trie ---- *)
Section Table.
Variable O : oracle.
Hypothesis sp_is_space : is_space O 32%N = true.
Hypothesis upper_plain : forall c, In c [65; 78; 68; 79; 82; 87; 73; 84; 72; 40; 41]%N -> is_space O c = false.
Hypothesis lower_kw : lower O S_AND = s_and /\ lower O S_OR = s_or /\ lower O S_WITH = s_with /\
                      lower O s_lpar = s_lpar /\ lower O s_rpar = s_rpar.
Hypothesis kw_plain : forall c, In c [97; 110; 100; 111; 114; 119; 105; 116; 104; 40; 41]%N ->
  is_space O c = false /\ lower_ch O c = [c].
Variable T : list entry.
(* no key and no alias of the table has an operator word or a parenthesis among its words *)
Hypothesis names_opfree : forall n v, In (n, v) (flat_map (entry_adds O) T) ->
  forall w, In w (lwords O n) -> is_keyword_str w = false.

Lemma look_stored p : look O T p = stored O (keyword_adds ++ flat_map (entry_adds O) T) p.
Proof.
  unfold look, build_trie. cbn [t_make_automaton outs].
  change (add_all O t_empty (keyword_adds ++ flat_map (entry_adds O) T))
    with (add_ops O t_empty (keyword_adds ++ flat_map (entry_adds O) T)).
  rewrite (get_out_add_ops O _ t_empty p eq_refl). destruct (stored O _ p); reflexivity.
Qed.

Lemma table_keywords k : exists sp, look O T [kw_str k] = Some (sp, VKw k).
Proof.
  rewrite look_stored, stored_app. destruct (stored O (flat_map (entry_adds O) T) [kw_str k]) as [[n v]|] eqn:Es.
  - exfalso. destruct (stored_words O _ _ _ _ Es) as [Ew Hin].
    assert (H : is_keyword_str (kw_str k) = false) by (apply (names_opfree n v Hin); rewrite Ew; left; reflexivity).
    rewrite kw_str_keyword in H. discriminate.
  - pose proof (stored_keywords O kw_plain (kw_str k)) as H.
    destruct (stored O keyword_adds [kw_str k]) as [[sp v]|]; cbn [option_map snd] in H.
    + exists sp. destruct k; cbn in H; inversion H; reflexivity.
    + destruct k; cbn in H; discriminate.
Qed.

Lemma table_opfree p sp v : look O T p = Some (sp, v) ->
  (exists k, v = VKw k /\ p = [kw_str k]) \/ (forall w, In w p -> is_keyword_str w = false).
Proof.
  rewrite look_stored, stored_app. destruct (stored O (flat_map (entry_adds O) T) p) as [[n v']|] eqn:Es.
  - intro H. inversion H; subst n v'. right. destruct (stored_words O _ _ _ _ Es) as [Ew Hin].
    intros w Hw. apply (names_opfree sp v Hin). rewrite Ew. exact Hw.
  - intro H. left. destruct (stored_words O _ _ _ _ H) as [Ew Hin]. unfold keyword_adds in Hin.
    destruct Hin as [E|[E|[E|[E|[E|[]]]]]]; inversion E; subst sp v.
    + exists KAnd. split; [reflexivity|]. rewrite <- Ew. apply (kw_lwords O kw_plain). simpl; tauto.
    + exists KOr. split; [reflexivity|]. rewrite <- Ew. apply (kw_lwords O kw_plain). simpl; tauto.
    + exists KLp. split; [reflexivity|]. rewrite <- Ew. apply (kw_lwords O kw_plain). simpl; tauto.
    + exists KRp. split; [reflexivity|]. rewrite <- Ew. apply (kw_lwords O kw_plain). simpl; tauto.
    + exists KWith. split; [reflexivity|]. rewrite <- Ew. apply (kw_lwords O kw_plain). simpl; tauto.
Qed.

(* C05: over a table without operator words, the rendering of a renderable expression (plain or
   readable) parses back to the expression itself - hence with the same rendering *)
Theorem render_parse_roundtrip kwords wrap e : wf e = true -> renderable O T kwords e ->
  parse_tokens O T false false (render_with key wrap e) = Ok e.
Proof.
  intros W R. exact (render_reparses O sp_is_space upper_plain lower_kw T kwords table_keywords table_opfree wrap e W R).
Qed.

Lemma renderable_incl kwords e e' : incl (literals e') (literals e) -> renderable O T kwords e -> renderable O T kwords e'.
Proof. intros Hi R a Ha. apply R. apply Hi. exact Ha. Qed.

End Table.

(* ---- a decidable form of "no stored name occurs among these words" ---- *)
Section Subruns.
Context {A : Type}.
Fixpoint inits (l : list A) : list (list A) := match l with [] => [] | x :: r => [x] :: map (cons x) (inits r) end.
Fixpoint subruns (l : list A) : list (list A) := match l with [] => [] | x :: r => inits l ++ subruns r end.

Lemma inits_in : forall m c, m <> [] -> In m (inits (m ++ c)).
Proof.
  induction m as [|x m IH]; intros c H; [contradiction|]. cbn [app inits]. destruct m as [|y m'].
  - left. reflexivity.
  - right. apply in_map. apply IH. discriminate.
Qed.

Lemma subruns_in : forall a m c, m <> [] -> In m (subruns (a ++ m ++ c)).
Proof.
  induction a as [|x a IH]; intros m c H.
  - cbn [app]. destruct m as [|y m']; [contradiction|]. cbn [app subruns]. apply in_or_app. left. apply (inits_in (y :: m') c). discriminate.
  - cbn [app subruns]. apply in_or_app. right. apply IH. exact H.
Qed.
End Subruns.

Lemma no_occurrence_check O T ws :
  forallb (fun m => match look O T m with None => true | Some _ => false end) (subruns ws) = true ->
  forall a m c, ws = a ++ m ++ c -> m <> [] -> look O T m = None.
Proof.
  intros H a m c E Hne. rewrite forallb_forall in H. specialize (H m). rewrite E in H. specialize (H (subruns_in a m c Hne)).
  destruct (look O T m); [discriminate | reflexivity].
Qed.
