(* C05: the token types of the surface syntax to_or e are exactly the items render() writes. *)
Require Import Model.Base Model.Expr Model.LicTok Model.BoolParse.
Require Import Proofs.BoolParse Proofs.Render Proofs.Kinds.
From Coq Require Import Lia.

Section RenderKinds.
Variable i0 : info.
Variable wrap : bool.       (* render_as_readable: WITH pairs in parentheses *)

Notation kinds l := (map kind_of l).

Lemma kinds_list_and : forall ps, ps <> [] ->
  kinds (tok_and (list_and i0 ps)) = intersperse RAnd (map (fun p => kinds (tok_prim p)) ps).
Proof.
  induction ps as [|p ps IH]; intro H; [contradiction|]. destruct ps as [|q ps]; [reflexivity|].
  change (list_and i0 (p :: q :: ps)) with (ACons p i0 (list_and i0 (q :: ps))). cbn [tok_and].
  rewrite map_app. cbn [map]. rewrite IH by discriminate. reflexivity.
Qed.

Lemma kinds_list_or : forall ps, ps <> [] ->
  kinds (tok_or (list_or i0 ps)) = intersperse ROr (map (fun p => kinds (tok_prim p)) ps).
Proof.
  induction ps as [|p ps IH]; intro H; [contradiction|]. destruct ps as [|q ps]; [reflexivity|].
  change (list_or i0 (p :: q :: ps)) with (OCons (A1 p) i0 (list_or i0 (q :: ps))). cbn [tok_or tok_and].
  rewrite map_app. cbn [map]. rewrite IH by discriminate. reflexivity.
Qed.

Definition part (x : expr) : list rtok := if is_lit x then render_items wrap x else RLp :: render_items wrap x ++ [RRp].

Lemma kinds_prim : forall x, wf x = true -> kinds (tok_prim (to_prim i0 wrap x)) = part x.
Proof.
  induction x as [a|xs IH|xs IH] using expr_ind'; intro W.
  - destruct a as [s|l r]; unfold part; cbn [is_lit render_items atom_items to_prim]; unfold atom_prim; [reflexivity|]. destruct wrap; reflexivity.
  - cbn [wf] in W. apply andb_true_iff in W as [Wl Wx]. apply Nat.leb_le in Wl. rewrite forallb_forall in Wx.
    unfold part. cbn [is_lit to_prim tok_prim tok_or render_items]. cbn [map]. rewrite map_app. cbn [map]. f_equal. f_equal.
    rewrite kinds_list_and by (destruct xs; [cbn in Wl; lia | discriminate]). rewrite map_map. f_equal.
    apply map_ext_in. intros x Hx. rewrite Forall_forall in IH. apply IH; [exact Hx | apply Wx; exact Hx].
  - cbn [wf] in W. apply andb_true_iff in W as [Wl Wx]. apply Nat.leb_le in Wl. rewrite forallb_forall in Wx.
    unfold part. cbn [is_lit to_prim tok_prim render_items]. cbn [map]. rewrite map_app. cbn [map]. f_equal. f_equal.
    rewrite kinds_list_or by (destruct xs; [cbn in Wl; lia | discriminate]). rewrite map_map. f_equal.
    apply map_ext_in. intros x Hx. rewrite Forall_forall in IH. apply IH; [exact Hx | apply Wx; exact Hx].
Qed.

Theorem kinds_to_or e : wf e = true -> kinds (tok_or (to_or i0 wrap e)) = render_items wrap e.
Proof.
  intro W. destruct e as [a|xs|xs].
  - destruct a as [s|l r]; cbn [to_or render_items atom_items]; unfold atom_prim; [reflexivity|]. destruct wrap; reflexivity.
  - cbn [wf] in W. apply andb_true_iff in W as [Wl Wx]. apply Nat.leb_le in Wl. rewrite forallb_forall in Wx.
    cbn [to_or tok_or render_items]. rewrite kinds_list_and by (destruct xs; [cbn in Wl; lia | discriminate]). rewrite map_map. f_equal.
    apply map_ext_in. intros x Hx. apply kinds_prim. apply Wx; exact Hx.
  - cbn [wf] in W. apply andb_true_iff in W as [Wl Wx]. apply Nat.leb_le in Wl. rewrite forallb_forall in Wx.
    cbn [to_or render_items]. rewrite kinds_list_or by (destruct xs; [cbn in Wl; lia | discriminate]). rewrite map_map. f_equal.
    apply map_ext_in. intros x Hx. apply kinds_prim. apply Wx; exact Hx.
Qed.

(* any token list whose types are the items of render(e) parses back to e, whatever strings and positions it carries *)
Theorem render_kinds_roundtrip e (ts : list ptok) : wf e = true -> kinds ts = render_items wrap e -> bparse ts = POk e.
Proof.
  intros W H. apply (bparse_kinds (tok_or (to_or i0 wrap e)) ts e); [|apply render_tokens_roundtrip; exact W].
  rewrite <- (kinds_to_or e W) in H.
  clear -H. revert ts H. induction (tok_or (to_or i0 wrap e)) as [|t l IH]; intros [|t' ts] H; try discriminate; [reflexivity|].
  cbn [map] in *. injection H as Ht Hl. f_equal; [|apply IH; exact Hl].
  unfold kind_of in Ht. destruct (pt t), (pt t'); try discriminate; try reflexivity. inversion Ht. reflexivity.
Qed.

End RenderKinds.
