(* The facts about white space and lower-casing that the string-level theorems take as premises, for the ASCII tables
   (the shipped index is ASCII; the harness checks the same facts on the interpreter's full tables). *)
Require Import Model.Base Model.Expr Model.Split Model.LicTok Model.Licensing Model.Index.
Require Import Proofs.Strings.
From Coq Require Import Lia.

Lemma ascii_sp_is_space : is_space ascii_oracle 32%N = true.
Proof. reflexivity. Qed.

Lemma ascii_kw_plain : forall c, In c [97; 110; 100; 111; 114; 119; 105; 116; 104; 40; 41]%N ->
  is_space ascii_oracle c = false /\ lower_ch ascii_oracle c = [c].
Proof. intros c Hc. simpl in Hc. repeat (destruct Hc as [<-|Hc]; [split; reflexivity|]). destruct Hc. Qed.

Lemma ascii_paren_not_word : is_wordch ascii_oracle 40%N = false /\ is_wordch ascii_oracle 41%N = false.
Proof. split; reflexivity. Qed.

Lemma ascii_lower_space : forall c, is_space ascii_oracle c = true -> lower_ch ascii_oracle c = [c].
Proof.
  intros c H. cbn [is_space lower_ch ascii_oracle] in *. destruct (N.leb 65 c && N.leb c 90) eqn:E; [|reflexivity]. exfalso.
  apply andb_true_iff in E as [E1 E2]. apply N.leb_le in E1, E2.
  apply orb_true_iff in H as [H|H]; apply andb_true_iff in H as [A B]; apply N.leb_le in A, B; lia.
Qed.

Lemma ascii_lower_nospace : forall c, is_space ascii_oracle c = false ->
  lower_ch ascii_oracle c <> [] /\ nospace ascii_oracle (lower_ch ascii_oracle c).
Proof.
  intros c H. cbn [lower_ch ascii_oracle]. destruct (N.leb 65 c && N.leb c 90) eqn:E; (split; [discriminate|]); unfold nospace; cbn [forallb].
  - apply andb_true_iff in E as [E1 E2]. apply N.leb_le in E1, E2. rewrite andb_true_r. apply negb_true_iff.
    cbn [is_space ascii_oracle]. apply orb_false_iff. split; apply andb_false_iff.
    + right. apply N.leb_gt. lia.
    + right. apply N.leb_gt. lia.
  - rewrite H. reflexivity.
Qed.
