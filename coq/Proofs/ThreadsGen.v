(* C20, any statement order: if every statement that publishes or returns the thread's own tokenizer stands where that tokenizer
   is complete, and no statement changes it once it is published (safe_order, decidable), then under every interleaving of any
   number of threads every call that has returned obtained a complete tokenizer. *)
Require Import Model.Base Model.Threads Proofs.Threads.
From Coq Require Import Lia Arith.

Lemma abs_at_S_gen : forall (q : prog) n i, nth_error q n = Some i -> abs_at q (S n) = astep (abs_at q n) i.
Proof.
  intros q n i H. unfold abs_at. revert n H. generalize a0. induction q as [|x q IH]; intros s n H; [destruct n; discriminate|].
  destruct n as [|n]; cbn [nth_error] in H.
  - inversion H; subst. reflexivity.
  - cbn [firstn fold_left]. apply (IH (astep s x) n H).
Qed.

Section Gen.
Variable p : prog.
Hypothesis SAFE : safe_order p = true.

Lemma safe_at n i : nth_error p n = Some i -> ok_at p n i = true.
Proof.
  intro H. unfold safe_order in SAFE. rewrite forallb_forall in SAFE.
  assert (Hn : n < length p) by (apply nth_error_Some; rewrite H; discriminate).
  specialize (SAFE n (proj2 (in_seq (length p) 0 n) (conj (Nat.le_0_l n) Hn))). rewrite H in SAFE. exact SAFE.
Qed.

Lemma abs_at_S n i : nth_error p n = Some i -> abs_at p (S n) = astep (abs_at p n) i.
Proof. apply abs_at_S_gen. Qed.

Lemma pub_step s i : a_pub s = true -> a_pub (astep s i) = true.
Proof. intro H. destruct i; cbn; try exact H; reflexivity. Qed.

Definition local_ok (th : thread) : Prop :=
  allocated th = a_alloc (abs_at p (pc th)) /\ adds th = a_adds (abs_at p (pc th)) /\ fin th = a_fin (abs_at p (pc th)) /\
  (result th = None \/ result th = Some true).

Definition inv (g : gstate) : Prop :=
  Forall local_ok (threads g) /\
  (forall j, slot g = Some j -> exists th, nth_error (threads g) j = Some th /\ a_pub (abs_at p (pc th)) = true /\ complete p th = true).

Lemma complete_abs th : local_ok th -> complete p th = a_complete p (abs_at p (pc th)).
Proof. intros [A [B [C _]]]. unfold complete, a_complete. rewrite A, B, C. reflexivity. Qed.

Lemma inv_start n : inv (start n).
Proof.
  split; [|intros j H; discriminate]. apply Forall_forall. intros th Hin. apply repeat_spec in Hin. subst.
  unfold local_ok. cbn [pc allocated adds fin result]. unfold abs_at. cbn. repeat split. left; reflexivity.
Qed.

Theorem tstep_inv g t : inv g -> inv (tstep p g t).
Proof.
  intros [HL HS]. unfold tstep. destruct (nth_error (threads g) t) as [th|] eqn:Et; [|split; assumption].
  destruct (result th) eqn:Er; [split; assumption|].
  assert (Hth : local_ok th) by (rewrite Forall_forall in HL; apply HL; eapply nth_error_In; exact Et).
  destruct (nth_error p (pc th)) as [i|] eqn:Ei; [|split; assumption].
  pose proof (safe_at (pc th) i Ei) as OK. pose proof (abs_at_S (pc th) i Ei) as AS.
  destruct Hth as [A [B [C R]]].
  (* the slot fact survives a step of thread t that keeps its tokenizer and does not unpublish *)
  assert (Slot_keep : forall th', allocated th' = allocated th -> adds th' = adds th -> fin th' = fin th ->
            (a_pub (abs_at p (pc th)) = true -> a_pub (abs_at p (pc th')) = true) ->
            forall j, slot g = Some j ->
            exists th2, nth_error (upd t (fun _ => th') (threads g)) j = Some th2 /\ a_pub (abs_at p (pc th2)) = true /\ complete p th2 = true).
  { intros th' E1 E2 E3 Hp j Hj. destruct (HS j Hj) as [thj [Hn [Pj Cj]]]. rewrite upd_nth. destruct (Nat.eqb_spec j t) as [->|Ne].
    - rewrite Hn. simpl. exists th'. rewrite Et in Hn. inversion Hn; subst thj. split; [reflexivity|]. split; [apply Hp; exact Pj|].
      unfold complete in *. rewrite E1, E2, E3. exact Cj.
    - exists thj. repeat split; assumption. }
  (* a step that changes the own tokenizer is not taken by the published thread *)
  assert (Not_pub : a_pub (abs_at p (pc th)) = false -> forall th' j, slot g = Some j ->
            exists th2, nth_error (upd t (fun _ => th') (threads g)) j = Some th2 /\ a_pub (abs_at p (pc th2)) = true /\ complete p th2 = true).
  { intros NP th' j Hj. destruct (HS j Hj) as [thj [Hn [Pj Cj]]]. rewrite upd_nth. destruct (Nat.eqb_spec j t) as [->|Ne].
    - rewrite Et in Hn. inversion Hn; subst thj. rewrite Pj in NP. discriminate.
    - exists thj. repeat split; assumption. }
  destruct i; cbn [ok_at] in OK.
  - (* IRead *)
    destruct (slot g) as [j|] eqn:Es.
    + split.
      * apply Forall_upd; [exact HL|]. intros x _. unfold local_ok. cbn [pc allocated adds fin result].
        repeat split; try assumption. right. f_equal. destruct (HS j eq_refl) as [thj [Hn [_ Cj]]]. unfold tok_complete. rewrite Hn. exact Cj.
      * cbn [slot threads]. apply Slot_keep; try reflexivity. cbn [pc]. tauto.
    + split.
      * apply Forall_upd; [exact HL|]. intros x _. unfold local_ok. cbn [pc allocated adds fin result]. rewrite AS. cbn [astep].
        repeat split; try assumption. left; reflexivity.
      * cbn [slot]. intros j Hj. discriminate.
  - (* IAlloc *)
    apply negb_true_iff in OK. split.
    + apply Forall_upd; [exact HL|]. intros x _. unfold local_ok. cbn [pc allocated adds fin result]. rewrite AS. cbn.
      repeat split. left; reflexivity.
    + cbn [slot threads]. apply (Not_pub OK).
  - (* IAdd *)
    apply negb_true_iff in OK. split.
    + apply Forall_upd; [exact HL|]. intros x _. unfold local_ok. cbn [pc allocated adds fin result]. rewrite AS. cbn.
      repeat split; try assumption; [rewrite B; reflexivity | left; reflexivity].
    + cbn [slot threads]. apply (Not_pub OK).
  - (* IFinalize *)
    apply negb_true_iff in OK. split.
    + apply Forall_upd; [exact HL|]. intros x _. unfold local_ok. cbn [pc allocated adds fin result]. rewrite AS. cbn.
      repeat split; try assumption. left; reflexivity.
    + cbn [slot threads]. apply (Not_pub OK).
  - (* IPublish *)
    split.
    + cbn [threads]. apply Forall_upd; [exact HL|]. intros x _. unfold local_ok. cbn [pc allocated adds fin result]. rewrite AS. cbn.
      repeat split; try assumption. left; reflexivity.
    + cbn [slot threads]. intros j Hj. inversion Hj; subst j. rewrite upd_nth, Nat.eqb_refl, Et. simpl.
      eexists. split; [reflexivity|]. cbn [pc]. rewrite AS. cbn. split; [reflexivity|].
      unfold complete. cbn [allocated adds fin]. unfold a_complete in OK. rewrite A, B, C. exact OK.
  - (* IReturn *)
    split.
    + apply Forall_upd; [exact HL|]. intros x _. unfold local_ok. cbn [pc allocated adds fin result].
      repeat split; try assumption. right. f_equal. unfold complete. unfold a_complete in OK. rewrite A, B, C. exact OK.
    + cbn [slot threads]. apply Slot_keep; try reflexivity. cbn [pc]. tauto.
Qed.

Theorem run_inv : forall sched g, inv g -> inv (run_sched p g sched).
Proof.
  induction sched as [|t sched IH]; intros g H; [exact H|]. simpl. apply IH. apply tstep_inv. exact H.
Qed.

Theorem threads_safe_order n sched th : In th (threads (run_sched p (start n) sched)) ->
  result th = None \/ result th = Some true.
Proof.
  intro H. destruct (run_inv sched (start n) (inv_start n)) as [HL _].
  rewrite Forall_forall in HL. destruct (HL th H) as [_ [_ [_ R]]]. exact R.
Qed.

End Gen.

(* the orders the criterion accepts and refuses *)
Example order_of_the_code : safe_order [IRead; IAlloc; IAdd; IAdd; IFinalize; IPublish; IReturn] = true.
Proof. reflexivity. Qed.
Example double_checked_order : safe_order [IRead; IRead; IAlloc; IAdd; IAdd; IFinalize; IPublish; IReturn] = true.
Proof. reflexivity. Qed.
Example publish_first_refused : safe_order [IRead; IAlloc; IPublish; IAdd; IAdd; IFinalize; IReturn] = false.
Proof. reflexivity. Qed.
Example unfinished_refused : safe_order [IRead; IAlloc; IAdd; IAdd; IPublish; IFinalize; IReturn] = false.
Proof. reflexivity. Qed.
Example change_after_publish_refused : safe_order [IRead; IAlloc; IAdd; IFinalize; IPublish; IAdd; IReturn] = false.
Proof. reflexivity. Qed.
