(* C17, selection rules of filter_overlapping: a token survives when every other token is either apart
   from it or beaten by it (shorter, or as long and starting later). Corollaries: the leftmost of
   the longest matches is kept; a match that touches no other is kept; of two matches that overlap
   only each other the longer (the earlier on a tie) is kept. *)
Require Import Model.Base Model.Split Model.Trie Model.Overlap.
Require Import Proofs.Overlap Proofs.Recognise.
From Coq Require Import Lia ZifyBool.
Open Scope Z_scope.

Section Select.
Context {V : Type}.
Notation tok := (Trie.tok V).
Variable x : tok.

(* what the inner loop needs from a token that is examined while x waits further right *)
Definition cond_before (c : tok) : Prop :=
  tcontains c x = false /\ (overlap c x = true -> tok_len c < tok_len x).
(* what it needs from a token examined while x is the current one *)
Definition cond_after (n : tok) : Prop :=
  overlap x n = true -> tcontains x n = true \/ tok_len n <= tok_len x.

Lemma inner_mid_prefix (c : tok) : forall rest mid, exists q,
  snd (fo_inner c mid rest) = mid ++ q /\ incl q rest.
Proof.
  induction rest as [|n rest IH]; intro mid; simpl.
  - exists []. split; [rewrite app_nil_r; reflexivity | intros z []].
  - destruct (is_after n c).
    + exists (n :: rest). split; [reflexivity | apply incl_refl].
    + destruct (tcontains c n).
      * destruct (IH mid) as [q [E I]]. exists q. split; [exact E | apply incl_tl; exact I].
      * destruct (overlap c n).
        -- destruct (tok_len n <=? tok_len c).
           ++ destruct (IH mid) as [q [E I]]. exists q. split; [exact E | apply incl_tl; exact I].
           ++ exists (n :: rest). split; [reflexivity | apply incl_refl].
        -- destruct (IH (mid ++ [n])) as [q [E I]]. exists (n :: q). split.
           ++ rewrite E. rewrite <- app_assoc. reflexivity.
           ++ intros z [<-|Hz]; [left; reflexivity | right; apply I; exact Hz].
Qed.

(* x waits in the rest: the inner loop for another current token leaves it in place *)
Lemma inner_keeps_waiting (c : tok) : cond_before c -> forall r1 mid r2, exists q1 q2,
  snd (fo_inner c mid (r1 ++ x :: r2)) = q1 ++ x :: q2 /\ incl q1 (mid ++ r1) /\ incl q2 r2.
Proof.
  intros [Hc Ho]. induction r1 as [|n r1 IH]; intros mid r2.
  - cbn [app fo_inner]. destruct (is_after x c).
    + exists mid, r2. split; [reflexivity|]. split; [rewrite app_nil_r; apply incl_refl | apply incl_refl].
    + rewrite Hc. destruct (overlap c x) eqn:Eo.
      * specialize (Ho eq_refl). replace (tok_len x <=? tok_len c) with false by lia.
        exists mid, r2. split; [reflexivity|]. split; [rewrite app_nil_r; apply incl_refl | apply incl_refl].
      * destruct (inner_mid_prefix c r2 (mid ++ [x])) as [q [E I]]. exists mid, q. split.
        -- rewrite E. rewrite <- app_assoc. reflexivity.
        -- split; [rewrite app_nil_r; apply incl_refl | exact I].
  - cbn [app fo_inner]. destruct (is_after n c).
    + exists (mid ++ n :: r1), r2. split; [rewrite <- app_assoc; reflexivity|].
      split; [apply incl_refl | apply incl_refl].
    + destruct (tcontains c n).
      * destruct (IH mid r2) as [q1 [q2 [E [I1 I2]]]]. exists q1, q2. split; [exact E|]. split; [|exact I2].
        intros z Hz. apply I1 in Hz. apply in_app_or in Hz as [Hz|Hz]; apply in_or_app; [left; exact Hz | right; right; exact Hz].
      * destruct (overlap c n).
        -- destruct (tok_len n <=? tok_len c).
           ++ destruct (IH mid r2) as [q1 [q2 [E [I1 I2]]]]. exists q1, q2. split; [exact E|]. split; [|exact I2].
              intros z Hz. apply I1 in Hz. apply in_app_or in Hz as [Hz|Hz]; apply in_or_app; [left; exact Hz | right; right; exact Hz].
           ++ exists (mid ++ n :: r1), r2. split; [rewrite <- app_assoc; reflexivity|]. split; apply incl_refl.
        -- destruct (IH (mid ++ [n]) r2) as [q1 [q2 [E [I1 I2]]]]. exists q1, q2. split; [exact E|]. split; [|exact I2].
           intros z Hz. apply I1 in Hz. rewrite <- app_assoc in Hz. exact Hz.
Qed.

(* x is the current token: it is kept *)
Lemma inner_current_kept : forall rest mid, (forall n, In n rest -> cond_after n) ->
  fst (fo_inner x mid rest) = true.
Proof.
  induction rest as [|n rest IH]; intros mid H; [reflexivity|]. simpl.
  destruct (is_after n x); [reflexivity|].
  assert (Hr : forall m, In m rest -> cond_after m) by (intros m Hm; apply H; right; exact Hm).
  destruct (tcontains x n) eqn:Ec; [apply IH; exact Hr|].
  destruct (overlap x n) eqn:Eo; [|apply IH; exact Hr].
  destruct (H n (or_introl eq_refl) Eo) as [C|C]; [congruence|].
  replace (tok_len n <=? tok_len x) with true by lia. apply IH; exact Hr.
Qed.

Lemma inner_length (c : tok) : forall rest mid, (length (snd (fo_inner c mid rest)) <= length mid + length rest)%nat.
Proof.
  induction rest as [|n rest IH]; intro mid; simpl; [lia|].
  destruct (is_after n c); [simpl; rewrite app_length; simpl; lia|].
  destruct (tcontains c n); [specialize (IH mid); lia|].
  destruct (overlap c n).
  - destruct (tok_len n <=? tok_len c); [specialize (IH mid); lia | simpl; rewrite app_length; simpl; lia].
  - specialize (IH (mid ++ [n])). rewrite app_length in IH. simpl in IH. lia.
Qed.

Lemma outer_survives : forall fuel p1 p2,
  (length (p1 ++ x :: p2) <= fuel)%nat ->
  (forall c, In c p1 -> cond_before c) -> (forall n, In n p2 -> cond_after n) ->
  In x (fo_outer fuel (p1 ++ x :: p2)).
Proof.
  induction fuel as [|f IH]; intros p1 p2 Hl H1 H2.
  - rewrite app_length in Hl. simpl in Hl. lia.
  - destruct p1 as [|c p1].
    + cbn [app fo_outer]. destruct p2 as [|n p2]; [left; reflexivity|].
      pose proof (inner_current_kept (n :: p2) [] H2) as Hk.
      destruct (fo_inner x [] (n :: p2)) as [keep rem]. simpl in Hk. subst keep. left; reflexivity.
    + cbn [app fo_outer].
      destruct (p1 ++ x :: p2) as [|n0 r0] eqn:E0; [destruct p1; discriminate|]. rewrite <- E0.
      destruct (inner_keeps_waiting c (H1 c (or_introl eq_refl)) p1 [] p2) as [q1 [q2 [E [I1 I2]]]].
      pose proof (inner_length c (p1 ++ x :: p2) []) as Hlen.
      destruct (fo_inner c [] (p1 ++ x :: p2)) as [keep rem]. cbn [snd] in E, Hlen. subst rem.
      assert (Hin : In x (fo_outer f (q1 ++ x :: q2))).
      { apply IH.
        - simpl in Hl, Hlen. lia.
        - intros d Hd. apply H1. right. apply I1 in Hd. exact Hd.
        - intros d Hd. apply H2. apply I2. exact Hd. }
      destruct keep; [right; exact Hin | exact Hin].
Qed.

(* sorting keeps the marked occurrence *)
Lemma insert_keeps_marked (y : tok) : forall p1 p2, exists q1 q2,
  insert_tok y (p1 ++ x :: p2) = q1 ++ x :: q2 /\ (forall z, In z (q1 ++ q2) -> z = y \/ In z (p1 ++ p2)).
Proof.
  induction p1 as [|a p1 IH]; intro p2.
  - cbn [app insert_tok]. destruct (key_ltb y x).
    + exists [y], p2. split; [reflexivity|]. intros z [<-|Hz]; [left; reflexivity | right; exact Hz].
    + exists [], (insert_tok y p2). split; [reflexivity|]. intros z Hz. simpl in Hz. apply insert_tok_in in Hz as [<-|Hz]; [left; reflexivity | right; exact Hz].
  - cbn [app insert_tok]. destruct (key_ltb y a).
    + exists (y :: a :: p1), p2. split; [reflexivity|]. intros z [<-|Hz]; [left; reflexivity | right; exact Hz].
    + destruct (IH p2) as [q1 [q2 [E Hq]]]. exists (a :: q1), q2. split; [rewrite E; reflexivity|].
      intros z [<-|Hz]; [right; left; reflexivity|]. destruct (Hq z Hz) as [->|Hz']; [left; reflexivity | right; right; exact Hz'].
Qed.

Lemma insert_new_marked : forall l, exists q1 q2, insert_tok x l = q1 ++ x :: q2 /\ (forall z, In z (q1 ++ q2) -> In z l).
Proof.
  induction l as [|a l IH]; simpl.
  - exists [], []. split; [reflexivity | intros z []].
  - destruct (key_ltb x a).
    + exists [], (a :: l). split; [reflexivity | intros z Hz; exact Hz].
    + destruct IH as [q1 [q2 [E Hq]]]. exists (a :: q1), q2. split; [rewrite E; reflexivity|].
      intros z [<-|Hz]; [left; reflexivity | right; apply Hq; exact Hz].
Qed.

Lemma fold_keeps_marked : forall l p1 p2, exists q1 q2,
  fold_left (fun acc y => insert_tok y acc) l (p1 ++ x :: p2) = q1 ++ x :: q2 /\
  (forall z, In z (q1 ++ q2) -> In z l \/ In z (p1 ++ p2)).
Proof.
  induction l as [|y l IH]; intros p1 p2; simpl.
  - exists p1, p2. split; [reflexivity | intros z Hz; right; exact Hz].
  - destruct (insert_keeps_marked y p1 p2) as [r1 [r2 [E Hr]]]. rewrite E.
    destruct (IH r1 r2) as [q1 [q2 [E2 Hq]]]. exists q1, q2. split; [exact E2|].
    intros z Hz. destruct (Hq z Hz) as [Hz'|Hz']; [left; right; exact Hz'|].
    destruct (Hr z Hz') as [->|Hz'']; [left; left; reflexivity | right; exact Hz''].
Qed.

Lemma sort_keeps_marked l1 l2 : exists q1 q2,
  sort_tokens (l1 ++ x :: l2) = q1 ++ x :: q2 /\ (forall z, In z (q1 ++ q2) -> In z (l1 ++ l2)).
Proof.
  unfold sort_tokens. rewrite fold_left_app. cbn [fold_left].
  destruct (insert_new_marked (fold_left (fun acc y => insert_tok y acc) l1 [])) as [r1 [r2 [E Hr]]]. rewrite E.
  destruct (fold_keeps_marked l2 r1 r2) as [q1 [q2 [E2 Hq]]]. exists q1, q2. split; [exact E2|].
  intros z Hz. apply in_or_app. destruct (Hq z Hz) as [Hz'|Hz']; [right; exact Hz'|].
  left. apply Hr in Hz'. apply sort_fold_in in Hz' as [[]|Hz']. exact Hz'.
Qed.

Lemma sorted_key_app (p1 : list tok) y p2 : sorted_key (p1 ++ y :: p2) ->
  (forall c, In c p1 -> key_le c y) /\ (forall n, In n p2 -> key_le y n).
Proof.
  induction p1 as [|a p1 IH]; intro H.
  - destruct H as [H _]. split; [intros c [] | exact H].
  - destruct H as [Ha Hs]. destruct (IH Hs) as [I1 I2]. split; [|exact I2].
    intros c [<-|Hc]; [apply Ha; apply in_or_app; right; left; reflexivity | apply I1; exact Hc].
Qed.

(* every other token is apart from x, or beaten by x *)
Definition apart (a b : tok) : Prop := tend a < tstart b \/ tend b < tstart a.
Definition beaten (y : tok) : Prop := tok_len y < tok_len x \/ (tok_len y = tok_len x /\ tstart x < tstart y).
Definition wf_tok (t : tok) : Prop := tstart t <= tend t.

Theorem fo_keeps (l1 l2 : list tok) :
  wf_tok x -> (forall y, In y (l1 ++ l2) -> wf_tok y /\ (apart x y \/ beaten y)) ->
  In x (filter_overlapping (l1 ++ x :: l2)).
Proof.
  intros Hx Hall. unfold filter_overlapping.
  pose proof (sort_tokens_sorted_key (l1 ++ x :: l2)) as Hs.
  destruct (sort_keeps_marked l1 l2) as [q1 [q2 [E Hq]]]. rewrite E in *.
  destruct (sorted_key_app q1 x q2 Hs) as [S1 S2].
  apply outer_survives; [lia | |].
  - intros c Hc. specialize (S1 c Hc).
    destruct (Hall c (Hq c (in_or_app _ _ _ (or_introl Hc)))) as [Hw [Ha|Hb]];
      unfold cond_before, key_le, apart, beaten, wf_tok, key_ltb, tcontains, overlap, tok_len in *; lia.
  - intros n Hn. specialize (S2 n Hn).
    destruct (Hall n (Hq n (in_or_app _ _ _ (or_intror Hn)))) as [Hw [Ha|Hb]];
      unfold cond_after, key_le, apart, beaten, wf_tok, key_ltb, tcontains, overlap, tok_len in *; lia.
Qed.

End Select.

Section Rules.
Context {V : Type}.
Notation tok := (Trie.tok V).

(* the leftmost of the longest matches is always kept *)
Theorem fo_keeps_leftmost_longest (x : tok) l1 l2 :
  wf_tok x -> (forall y, In y (l1 ++ l2) -> wf_tok y) ->
  (forall y, In y (l1 ++ l2) -> tok_len y < tok_len x \/ (tok_len y = tok_len x /\ tstart x < tstart y)) ->
  In x (filter_overlapping (l1 ++ x :: l2)).
Proof. intros Hx Hw H. apply fo_keeps; [exact Hx|]. intros y Hy. split; [apply Hw; exact Hy | right; apply H; exact Hy]. Qed.

(* a match that touches no other match is kept *)
Theorem fo_keeps_isolated (x : tok) l1 l2 :
  wf_tok x -> (forall y, In y (l1 ++ l2) -> wf_tok y /\ apart x y) ->
  In x (filter_overlapping (l1 ++ x :: l2)).
Proof. intros Hx H. apply fo_keeps; [exact Hx|]. intros y Hy. destruct (H y Hy) as [A B]. split; [exact A | left; exact B]. Qed.

(* of two matches that overlap only each other, the longer (the earlier on a tie) is kept, the other is not *)
Theorem fo_pair_rule (x z : tok) l1 l2 l3 :
  wf_tok x -> wf_tok z -> ~ apart x z ->
  (tok_len z < tok_len x \/ (tok_len z = tok_len x /\ tstart x < tstart z)) ->
  (forall y, In y (l1 ++ l2 ++ l3) -> wf_tok y /\ apart x y) ->
  forall l, (l = l1 ++ x :: l2 ++ z :: l3 \/ l = l1 ++ z :: l2 ++ x :: l3) ->
  In x (filter_overlapping l) /\
  (forall i j, nth_error (filter_overlapping l) i = Some x -> nth_error (filter_overlapping l) j = Some z -> i = j).
Proof.
  intros Hx Hz Hxz Hbeat Hoth l Hl.
  assert (Hin : In x (filter_overlapping l)).
  { destruct Hl as [->| ->].
    - apply fo_keeps; [exact Hx|]. intros y Hy. apply in_app_or in Hy as [Hy|Hy].
      + destruct (Hoth y) as [A B]; [apply in_or_app; left; exact Hy|]. split; [exact A | left; exact B].
      + apply in_app_or in Hy as [Hy|[<-|Hy]].
        * destruct (Hoth y) as [A B]; [apply in_or_app; right; apply in_or_app; left; exact Hy|]. split; [exact A | left; exact B].
        * split; [exact Hz | right; exact Hbeat].
        * destruct (Hoth y) as [A B]; [apply in_or_app; right; apply in_or_app; right; exact Hy|]. split; [exact A | left; exact B].
    - replace (l1 ++ z :: l2 ++ x :: l3) with ((l1 ++ z :: l2) ++ x :: l3) by (rewrite <- app_assoc; reflexivity).
      apply fo_keeps; [exact Hx|]. intros y Hy. rewrite <- app_assoc in Hy. apply in_app_or in Hy as [Hy|[<-|Hy]].
      + destruct (Hoth y) as [A B]; [apply in_or_app; left; exact Hy|]. split; [exact A | left; exact B].
      + split; [exact Hz | right; exact Hbeat].
      + destruct (Hoth y) as [A B]; [apply in_or_app; right; exact Hy|]. split; [exact A | left; exact B]. }
  split; [exact Hin|].
  intros i j Hi Hj. pose proof (fo_disjoint l) as Hc.
  destruct (Nat.lt_trichotomy i j) as [Hlt|[He|Hgt]]; [|exact He|].
  - exfalso. pose proof (chain_after_disjoint _ Hc i j x z Hlt Hi Hj). apply Hxz. left. lia.
  - exfalso. pose proof (chain_after_disjoint _ Hc j i z x Hgt Hj Hi). apply Hxz. right. lia.
Qed.

(* duplicates allowed: a token from which every other token is apart (or which it equals) is kept *)
Lemma inner_keeps_untouched (c : tok) : forall rest mid n,
  In n (mid ++ rest) -> tcontains c n = false -> overlap c n = false -> In n (snd (fo_inner c mid rest)).
Proof.
  induction rest as [|a rest IH]; intros mid n Hn Hc Ho; simpl.
  - rewrite app_nil_r in Hn. exact Hn.
  - destruct (is_after a c); [exact Hn|].
    assert (Hskip : In n (mid ++ rest) \/ n = a).
    { apply in_app_or in Hn as [Hn|[->|Hn]]; [left; apply in_or_app; left; exact Hn | right; reflexivity | left; apply in_or_app; right; exact Hn]. }
    destruct (tcontains c a) eqn:Ec.
    + destruct Hskip as [H| ->]; [apply IH; assumption | congruence].
    + destruct (overlap c a) eqn:Eo.
      * destruct (tok_len a <=? tok_len c); [|exact Hn].
        destruct Hskip as [H| ->]; [apply IH; assumption | congruence].
      * apply IH; [|assumption|assumption]. rewrite <- app_assoc. exact Hn.
Qed.

Lemma outer_keeps_apart (x : tok) : wf_tok x -> forall fuel toks, (length toks <= fuel)%nat -> In x toks ->
  (forall y, In y toks -> y = x \/ (wf_tok y /\ apart x y)) -> In x (fo_outer fuel toks).
Proof.
  intros Hx. induction fuel as [|f IH]; intros toks Hl Hin Hall.
  - destruct toks; [destruct Hin | simpl in Hl; lia].
  - cbn [fo_outer]. destruct toks as [|c [|n rest]]; [destruct Hin | exact Hin |].
    pose proof (inner_length c (n :: rest) []) as Hlen.
    assert (Hsub : forall y, In y (snd (fo_inner c [] (n :: rest))) -> In y (n :: rest)).
    { intros y Hy. destruct (inner_mid_prefix c (n :: rest) []) as [q [E I]]. rewrite E in Hy. apply I. exact Hy. }
    destruct (Hall c (or_introl eq_refl)) as [->|[Hwc Hac]].
    + (* the current token is (a copy of) x: it is kept *)
      assert (Hk : fst (fo_inner x [] (n :: rest)) = true).
      { apply inner_current_kept. intros m Hm Hov.
        destruct (Hall m (or_intror Hm)) as [->|[Hwm Ham]].
        - left. unfold tcontains. lia.
        - exfalso. unfold overlap, apart, wf_tok in *. lia. }
      destruct (fo_inner x [] (n :: rest)) as [keep rem]. simpl in Hk. subst keep. left; reflexivity.
    + assert (Hxr : In x (n :: rest)).
      { destruct Hin as [->|H]; [|exact H]. exfalso. unfold apart, wf_tok in *. lia. }
      assert (Hx' : In x (snd (fo_inner c [] (n :: rest)))).
      { apply inner_keeps_untouched; [exact Hxr | |]; unfold tcontains, overlap, apart, wf_tok in *; lia. }
      destruct (fo_inner c [] (n :: rest)) as [keep rem]. cbn [snd] in *.
      assert (Hrec : In x (fo_outer f rem)).
      { apply IH; [simpl in Hl, Hlen; lia | exact Hx' |]. intros y Hy. apply Hall. right. apply Hsub. exact Hy. }
      destruct keep; [right; exact Hrec | exact Hrec].
Qed.

Theorem fo_keeps_apart (x : tok) l : wf_tok x -> In x l ->
  (forall y, In y l -> y = x \/ (wf_tok y /\ apart x y)) -> In x (filter_overlapping l).
Proof.
  intros Hx Hin Hall. unfold filter_overlapping. apply outer_keeps_apart; [exact Hx | lia | apply sort_tokens_in; exact Hin |].
  intros y Hy. apply Hall. apply sort_tokens_in. exact Hy.
Qed.

(* duplicates allowed: every other token is a copy of x, apart from x, or strictly shorter than x *)
Lemma inner_keeps_dominant (x c : tok) : tcontains c x = false -> (overlap c x = true -> tok_len c < tok_len x) ->
  forall rest mid, In x (mid ++ rest) -> In x (snd (fo_inner c mid rest)).
Proof.
  intros Hc Ho. induction rest as [|a rest IH]; intros mid Hin; simpl.
  - rewrite app_nil_r in Hin. exact Hin.
  - destruct (is_after a c); [exact Hin|].
    assert (Hskip : In x (mid ++ rest) \/ x = a).
    { apply in_app_or in Hin as [H|[->|H]]; [left; apply in_or_app; left; exact H | right; reflexivity | left; apply in_or_app; right; exact H]. }
    destruct (tcontains c a) eqn:Ec.
    + destruct Hskip as [H| ->]; [apply IH; exact H | congruence].
    + destruct (overlap c a) eqn:Eo.
      * destruct (tok_len a <=? tok_len c) eqn:El; [|exact Hin].
        destruct Hskip as [H| ->]; [apply IH; exact H|]. specialize (Ho Eo). lia.
      * apply IH. rewrite <- app_assoc. exact Hin.
Qed.

Lemma outer_keeps_dominant (x : tok) : wf_tok x -> forall fuel toks, (length toks <= fuel)%nat -> In x toks ->
  (forall y, In y toks -> y = x \/ (wf_tok y /\ (apart x y \/ tok_len y < tok_len x))) -> In x (fo_outer fuel toks).
Proof.
  intros Hx. induction fuel as [|f IH]; intros toks Hl Hin Hall.
  - destruct toks; [destruct Hin | simpl in Hl; lia].
  - cbn [fo_outer]. destruct toks as [|c [|n rest]]; [destruct Hin | exact Hin |].
    pose proof (inner_length c (n :: rest) []) as Hlen.
    assert (Hsub : forall y, In y (snd (fo_inner c [] (n :: rest))) -> In y (n :: rest)).
    { intros y Hy. destruct (inner_mid_prefix c (n :: rest) []) as [q [E I]]. rewrite E in Hy. apply I. exact Hy. }
    destruct (Hall c (or_introl eq_refl)) as [->|[Hwc Hdc]].
    + assert (Hk : fst (fo_inner x [] (n :: rest)) = true).
      { apply inner_current_kept. intros m Hm Hov.
        destruct (Hall m (or_intror Hm)) as [->|[Hwm [Ham|Hsm]]].
        - left. unfold tcontains. lia.
        - exfalso. unfold overlap, apart, wf_tok in *. lia.
        - right. lia. }
      destruct (fo_inner x [] (n :: rest)) as [keep rem]. simpl in Hk. subst keep. left; reflexivity.
    + assert (Hxr : In x (n :: rest)).
      { destruct Hin as [->|H]; [|exact H]. exfalso. destruct Hdc as [A|A]; [unfold apart, wf_tok in *; lia | lia]. }
      assert (Hx' : In x (snd (fo_inner c [] (n :: rest)))).
      { apply inner_keeps_dominant; [| |exact Hxr].
        - destruct Hdc as [A|A]; unfold tcontains, apart, wf_tok, tok_len in *; lia.
        - intro Ho. destruct Hdc as [A|A]; [exfalso; unfold overlap, apart, wf_tok in *; lia | exact A]. }
      destruct (fo_inner c [] (n :: rest)) as [keep rem]. cbn [snd] in *.
      assert (Hrec : In x (fo_outer f rem)).
      { apply IH; [simpl in Hl, Hlen; lia | exact Hx' |]. intros y Hy. apply Hall. right. apply Hsub. exact Hy. }
      destruct keep; [right; exact Hrec | exact Hrec].
Qed.

Theorem fo_keeps_dominant (x : tok) l : wf_tok x -> In x l ->
  (forall y, In y l -> y = x \/ (wf_tok y /\ (apart x y \/ tok_len y < tok_len x))) -> In x (filter_overlapping l).
Proof.
  intros Hx Hin Hall. unfold filter_overlapping. apply outer_keeps_dominant; [exact Hx | lia | apply sort_tokens_in; exact Hin |].
  intros y Hy. apply Hall. apply sort_tokens_in. exact Hy.
Qed.

(* the same with ties: in the sorted list a token as long as x that starts later is deleted while x is the current one,
   and none can stand before x *)
Lemma outer_keeps_dominant_tie (x : tok) : wf_tok x -> forall fuel toks, (length toks <= fuel)%nat -> sorted_st toks -> In x toks ->
  (forall y, In y toks -> y = x \/ (wf_tok y /\ (apart x y \/ tok_len y < tok_len x \/ (tok_len y = tok_len x /\ tstart x < tstart y)))) ->
  In x (fo_outer fuel toks).
Proof.
  intros Hx. induction fuel as [|f IH]; intros toks Hl Hs Hin Hall.
  - destruct toks; [destruct Hin | simpl in Hl; lia].
  - cbn [fo_outer]. destruct toks as [|c [|n rest]]; [destruct Hin | exact Hin |].
    pose proof (inner_length c (n :: rest) []) as Hlen.
    assert (Hsub : forall y, In y (snd (fo_inner c [] (n :: rest))) -> In y (n :: rest)).
    { intros y Hy. destruct (inner_mid_prefix c (n :: rest) []) as [q [E I]]. rewrite E in Hy. apply I. exact Hy. }
    destruct (Hall c (or_introl eq_refl)) as [->|[Hwc Hdc]].
    + assert (Hk : fst (fo_inner x [] (n :: rest)) = true).
      { apply inner_current_kept. intros m Hm Hov.
        destruct (Hall m (or_intror Hm)) as [->|[Hwm [Ham|[Hsm|Htm]]]].
        - left. unfold tcontains. lia.
        - exfalso. unfold overlap, apart, wf_tok in *. lia.
        - right. lia.
        - right. lia. }
      destruct (fo_inner x [] (n :: rest)) as [keep rem]. simpl in Hk. subst keep. left; reflexivity.
    + assert (Hxr : In x (n :: rest)).
      { destruct Hin as [->|H]; [|exact H]. exfalso. destruct Hdc as [A|[A|A]]; [unfold apart, wf_tok in *; lia | lia | lia]. }
      assert (Hcx : tstart c <= tstart x) by (destruct Hs as [Hc _]; apply Hc; exact Hxr).
      assert (Hdc' : apart x c \/ tok_len c < tok_len x) by (destruct Hdc as [A|[A|A]]; [left; exact A | right; exact A | lia]).
      assert (Hx' : In x (snd (fo_inner c [] (n :: rest)))).
      { apply inner_keeps_dominant; [| |exact Hxr].
        - destruct Hdc' as [A|A]; unfold tcontains, apart, wf_tok, tok_len in *; lia.
        - intro Ho. destruct Hdc' as [A|A]; [exfalso; unfold overlap, apart, wf_tok in *; lia | exact A]. }
      destruct (fo_inner c [] (n :: rest)) as [keep rem] eqn:Ei. cbn [snd] in *.
      pose proof (inner_spec c (n :: rest) keep rem Hs Ei) as [I1 _].
      assert (Hrec : In x (fo_outer f rem)).
      { apply IH; [simpl in Hl, Hlen; lia | exact I1 | exact Hx' |]. intros y Hy. apply Hall. right. apply Hsub. exact Hy. }
      destruct keep; [right; exact Hrec | exact Hrec].
Qed.

(* duplicates and ties allowed: every other token is a copy of x, apart from x, shorter than x, or as long and starting later *)
Theorem fo_keeps_dominant_tie (x : tok) l : wf_tok x -> In x l ->
  (forall y, In y l -> y = x \/ (wf_tok y /\ (apart x y \/ tok_len y < tok_len x \/ (tok_len y = tok_len x /\ tstart x < tstart y)))) ->
  In x (filter_overlapping l).
Proof.
  intros Hx Hin Hall. unfold filter_overlapping.
  apply outer_keeps_dominant_tie; [exact Hx | lia | apply sort_tokens_sorted | apply sort_tokens_in; exact Hin |].
  intros y Hy. apply Hall. apply sort_tokens_in. exact Hy.
Qed.

End Rules.
