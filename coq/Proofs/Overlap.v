(* C17: filter_overlapping on any input returns tokens in text order that are pairwise disjoint
   and all taken from the input. *)
Require Import Model.Base Model.Split Model.Trie Model.Overlap.
From Coq Require Import Lia ZifyBool.
Open Scope Z_scope.

Section OverlapProofs.
Context {V : Type}.
Notation tok := (Trie.tok V).

(* sortedness by start (the secondary key is not needed for disjointness) *)
Fixpoint sorted_st (l : list tok) : Prop :=
  match l with
  | [] => True
  | a :: l' => (forall b, In b l' -> tstart a <= tstart b) /\ sorted_st l'
  end.

Definition all_after (c : tok) (l : list tok) : Prop := forall x, In x l -> is_after x c = true.

(* ---- Token.sort ---- *)
Lemma insert_tok_in (x : tok) l y : In y (insert_tok x l) <-> x = y \/ In y l.
Proof.
  induction l as [|z l IH]; simpl; [tauto|].
  destruct (key_ltb x z); simpl; [tauto|]. rewrite IH. tauto.
Qed.

Lemma insert_tok_sorted (x : tok) l : sorted_st l -> sorted_st (insert_tok x l).
Proof.
  induction l as [|y l IH]; intro H; simpl; [split; [intros b []|exact I]|].
  destruct H as [Hy Hl]. destruct (key_ltb x y) eqn:E.
  - simpl. split; [|split; assumption].
    intros b [<-|Hb]; unfold key_ltb in E; [lia|]. specialize (Hy b Hb). lia.
  - simpl. split; [|apply IH; exact Hl].
    intros b Hb. apply insert_tok_in in Hb as [<-|Hb]; [unfold key_ltb in E; lia | apply Hy; exact Hb].
Qed.

Lemma sort_fold_sorted : forall (l acc : list tok), sorted_st acc -> sorted_st (fold_left (fun acc x => insert_tok x acc) l acc).
Proof. induction l as [|x l IH]; intros acc H; simpl; [exact H | apply IH, insert_tok_sorted, H]. Qed.
Lemma sort_tokens_sorted (l : list tok) : sorted_st (sort_tokens l).
Proof. apply sort_fold_sorted. exact I. Qed.

Lemma sort_fold_in : forall (l acc : list tok) y, In y (fold_left (fun acc x => insert_tok x acc) l acc) <-> In y acc \/ In y l.
Proof.
  induction l as [|x l IH]; intros acc y; simpl; [tauto|]. rewrite IH, insert_tok_in. tauto.
Qed.
Lemma sort_tokens_in (l : list tok) y : In y (sort_tokens l) <-> In y l.
Proof. unfold sort_tokens. rewrite sort_fold_in. simpl. tauto. Qed.

(* ---- the inner loop ---- *)
Lemma inner_spec (c : tok) : forall rest keep rem,
  sorted_st (c :: rest) -> fo_inner c [] rest = (keep, rem) ->
  sorted_st rem /\ (forall x, In x rem -> In x rest) /\ (length rem <= length rest)%nat /\
  (keep = true -> all_after c rem).
Proof.
  induction rest as [|n rest IH]; intros keep rem Hs H; simpl in H.
  - inversion H; subst. split; [exact I|]. split; [intros x []|]. split; [simpl; lia|]. intros _ x [].
  - destruct Hs as [Hc [Hn Hs']].
    assert (Hsr : sorted_st (c :: rest)).
    { split; [intros b Hb; apply Hc; right; exact Hb | exact Hs']. }
    assert (Hlift : forall keep rem, fo_inner c [] rest = (keep, rem) ->
       sorted_st rem /\ (forall x, In x rem -> In x (n :: rest)) /\
       (length rem <= length (n :: rest))%nat /\ (keep = true -> all_after c rem)).
    { intros k r Hi. specialize (IH k r Hsr Hi) as [I1 [I2 [I3 I4]]].
      split; [exact I1|]. split; [intros x Hx; right; apply I2, Hx|]. split; [simpl; lia|exact I4]. }
    destruct (is_after n c) eqn:Ea.
    + inversion H; subst. simpl app.
      split; [split; assumption|]. split; [auto|]. split; [lia|].
      intros _ x [<-|Hx]; [exact Ea|].
      unfold is_after in *. specialize (Hn x Hx). lia.
    + destruct (tcontains c n) eqn:Ec; [apply Hlift; exact H|].
      destruct (overlap c n) eqn:Eo.
      * destruct (tok_len n <=? tok_len c) eqn:El; [apply Hlift; exact H|].
        inversion H; subst. simpl app.
        split; [split; assumption|]. split; [auto|]. split; [lia|]. intros; discriminate.
      * exfalso. specialize (Hc n (or_introl eq_refl)).
        unfold is_after, overlap in *. lia.
Qed.

(* output: each token starts after the end of every earlier one *)
Fixpoint chain_after (l : list tok) : Prop :=
  match l with
  | [] => True
  | a :: l' => all_after a l' /\ chain_after l'
  end.

Lemma outer_in fuel : forall (toks : list tok) x, sorted_st toks -> In x (fo_outer fuel toks) -> In x toks.
Proof.
  induction fuel as [|f IH]; intros toks x Hs Hx; simpl in Hx; [exact Hx|].
  destruct toks as [|c [|n rest]]; [exact Hx | exact Hx |].
  destruct (fo_inner c [] (n :: rest)) as [keep rem] eqn:Ei.
  pose proof (inner_spec c (n :: rest) keep rem Hs Ei) as [I1 [I2 _]].
  destruct keep.
  - destruct Hx as [<-|Hx]; [left; reflexivity|]. right. apply I2. apply (IH rem x I1 Hx).
  - right. apply I2. apply (IH rem x I1 Hx).
Qed.

Lemma outer_disjoint fuel : forall (toks : list tok),
  (length toks <= fuel)%nat -> sorted_st toks -> chain_after (fo_outer fuel toks).
Proof.
  induction fuel as [|f IH]; intros toks Hl Hs.
  - destruct toks; [exact I | simpl in Hl; lia].
  - simpl. destruct toks as [|c [|n rest]]; [exact I | simpl; split; [intros x []|exact I] |].
    destruct (fo_inner c [] (n :: rest)) as [keep rem] eqn:Ei.
    pose proof (inner_spec c (n :: rest) keep rem Hs Ei) as [I1 [I2 [I3 I4]]].
    assert (Hlr : (length rem <= f)%nat) by (simpl in Hl, I3; simpl; lia).
    destruct keep.
    + simpl. split; [|apply IH; assumption].
      intros x Hx. apply (I4 eq_refl). apply (outer_in f rem x I1 Hx).
    + apply IH; assumption.
Qed.

Lemma outer_sorted fuel : forall (toks : list tok), sorted_st toks -> sorted_st (fo_outer fuel toks).
Proof.
  induction fuel as [|f IH]; intros toks Hs; [exact Hs|].
  simpl. destruct toks as [|c [|n rest]]; [exact I | exact Hs |].
  destruct (fo_inner c [] (n :: rest)) as [keep rem] eqn:Ei.
  pose proof (inner_spec c (n :: rest) keep rem Hs Ei) as [I1 [I2 _]].
  destruct keep; [|apply IH; exact I1].
  simpl. split; [|apply IH; exact I1].
  intros b Hb. apply (outer_in f rem b I1) in Hb. apply I2 in Hb. destruct Hs as [Hc _]. apply Hc; exact Hb.
Qed.

Theorem fo_disjoint (l : list tok) : chain_after (filter_overlapping l).
Proof. unfold filter_overlapping. apply outer_disjoint; [lia | apply sort_tokens_sorted]. Qed.

Theorem fo_in_order (l : list tok) : sorted_st (filter_overlapping l).
Proof. unfold filter_overlapping. apply outer_sorted, sort_tokens_sorted. Qed.

Theorem fo_sub (l : list tok) x : In x (filter_overlapping l) -> In x l.
Proof.
  unfold filter_overlapping. intro H. apply outer_in in H; [|apply sort_tokens_sorted].
  apply sort_tokens_in; exact H.
Qed.

(* pairwise: any two distinct positions of the output are disjoint intervals *)
Lemma chain_after_disjoint (l : list tok) : chain_after l ->
  forall i j a b, (i < j)%nat -> nth_error l i = Some a -> nth_error l j = Some b -> tend a < tstart b.
Proof.
  induction l as [|x l IH]; intros H i j a b Hij Ha Hb; [destruct i; discriminate|].
  destruct H as [Hx Hl]. destruct i as [|i]; destruct j as [|j]; try lia.
  - simpl in Ha, Hb. inversion Ha; subst. apply nth_error_In in Hb. specialize (Hx b Hb). unfold is_after in Hx. lia.
  - simpl in Ha, Hb. eapply IH; [exact Hl | | exact Ha | exact Hb]. lia.
Qed.

End OverlapProofs.

(* ---- every token of Trie.tokenize carries the slice of the text at its positions ---- *)
Require Import Proofs.Split.
Section Slices.
Context {V : Type}.
Variable O : oracle.
Notation tok := (Trie.tok V).

Definition slice_ok (text : str) (t : tok) : Prop := tstring t = slice text (tstart t) (tend t).

Lemma iter_go_slices (tr : trie V) text md : forall ps state starts t,
  In t (iter_go O tr text md state starts ps) -> slice_ok text t.
Proof.
  induction ps as [|p ps IH]; intros state starts t H; [destruct H|].
  simpl in H. destruct (negb (is_word_piece O p)); [eapply IH; exact H|].
  destruct (negb (existsb (str_eqb (lower O (ptext p))) (known tr))); [eapply IH; exact H|].
  apply in_app_or in H as [H|H]; [|eapply IH; exact H].
  apply in_flat_map in H as [node [_ H]].
  destruct (get_out node (outs tr)) as [[sp v]|]; [|destruct H].
  destruct H as [<-|[]]. reflexivity.
Qed.

Lemma retok_from : forall ps m (t : tok), In t (retok O ps m) ->
  In t m \/ exists p, In p ps /\ t = {| tstart := pstart p; tend := pend p; tstring := ptext p; tvalue := None |}.
Proof.
  induction ps as [|p ps IH]; intros m t H; [destruct H|].
  assert (Hd : forall x, In x (drop_ended m (pstart p)) -> In x m).
  { clear. induction m as [|y m IHm]; intros x Hx; [destruct Hx|]. simpl in Hx.
    destruct (tend y <? pstart p); [right; apply IHm; exact Hx | exact Hx]. }
  assert (Hrec : forall t, In t (retok O ps (drop_ended m (pstart p))) ->
                 In t m \/ exists q, In q (p :: ps) /\ t = {| tstart := pstart q; tend := pend q; tstring := ptext q; tvalue := None |}).
  { intros t0 H0. apply IH in H0 as [H0|[q [Hq E]]]; [left; apply Hd; exact H0 | right; exists q; split; [right; exact Hq | exact E]]. }
  simpl in H. destruct (drop_ended m (pstart p)) as [|y m'] eqn:E.
  - destruct (is_word_piece O p).
    + destruct H as [<-|H]; [right; exists p; split; [left; reflexivity | reflexivity] | apply Hrec; exact H].
    + apply Hrec; exact H.
  - destruct (tstart y <=? pstart p).
    + destruct (tstart y =? pstart p).
      * destruct H as [<-|H]; [left; apply Hd; left; reflexivity | apply Hrec; exact H].
      * apply Hrec; exact H.
    + destruct (is_word_piece O p).
      * destruct H as [<-|H]; [right; exists p; split; [left; reflexivity | reflexivity] | apply Hrec; exact H].
      * apply Hrec; exact H.
Qed.

Theorem tokenize_slices (tr : trie V) text t : In t (t_tokenize O tr text) -> slice_ok text t.
Proof.
  unfold t_tokenize. intro H. apply retok_from in H as [H|[p [Hp ->]]].
  - apply fo_sub in H. unfold t_iter in H. eapply iter_go_slices; exact H.
  - unfold slice_ok. simpl. apply (piece_is_slice O); exact Hp.
Qed.

End Slices.
