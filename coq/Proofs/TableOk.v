(* C05: the premise on the table from three plain conditions: the keys are what LicenseSymbol() makes of them, no name
   holds an operator word, and no two names of different licenses have the same lower-cased words. *)
Require Import Model.Base Model.Expr Model.Split Model.Trie Model.Overlap Model.LicTok Model.BoolParse Model.Licensing.
Require Import Proofs.Symbol Proofs.Strings Proofs.Split Proofs.Trie Proofs.Recognise Proofs.SimpleAgree Proofs.Account
               Proofs.Render Proofs.Resplit Proofs.RenderWords Proofs.Reparse Proofs.ParseRenderable.
From Coq Require Import Lia.
Open Scope Z_scope.

Section StoredOwner.
Context {V : Type}.
Variable O : oracle.

(* the value stored under the words of a name is the value of that name when every name with these words has it *)
Lemma stored_owner : forall (ops : list (str * V)) n v, In (n, v) ops -> n <> [] -> lwords O n <> [] ->
  (forall n' v', In (n', v') ops -> lwords O n' = lwords O n -> v' = v) ->
  exists sp, stored O ops (lwords O n) = Some (sp, v).
Proof.
  induction ops as [|[n0 v0] ops IH]; intros n v Hin Hn Hw Hall; [destruct Hin|]. cbn [stored].
  destruct (stored O ops (lwords O n)) as [[n' v']|] eqn:S.
  - destruct (stored_words O _ _ _ _ S) as [Ew Hin']. exists n'. f_equal. f_equal. apply (Hall n' v'); [right; exact Hin' | exact Ew].
  - destruct Hin as [E|Hin].
    + inversion E; subst n0 v0. destruct n as [|c n1]; [contradiction|].
      destruct (lwords O (c :: n1)) as [|w ws] eqn:El; [contradiction|]. rewrite path_eqb_refl. exists (c :: n1). reflexivity.
    + exfalso. destruct (IH n v Hin Hn Hw) as [sp Es]; [intros n' v' H' E'; apply (Hall n' v'); [right; exact H' | exact E']|].
      rewrite S in Es. discriminate.
Qed.
End StoredOwner.

Section TableOk.
Variable O : oracle.
Hypothesis sp_is_space : is_space O 32%N = true.
(* the parentheses are not word characters (so they are not allowed in keys) *)
Hypothesis paren_not_word : is_wordch O 40%N = false /\ is_wordch O 41%N = false.
Variable T : list entry.
Hypothesis names_opfree : forall n v, In (n, v) (flat_map (entry_adds O) T) ->
  forall w, In w (lwords O n) -> is_keyword_str w = false.
(* the keys are what LicenseSymbol() makes of them (as in every table built by Licensing()) *)
Hypothesis keys_valid : forall e, In e T -> mk_key O (ekey e) = Ok (ekey e).
(* no two names of different licenses (or a license and an operator) have the same lower-cased words (blank aliases, which
   have no words and are never stored, aside) *)
Hypothesis names_unambiguous : forall n1 v1 n2 v2,
  In (n1, v1) (keyword_adds ++ flat_map (entry_adds O) T) -> In (n2, v2) (keyword_adds ++ flat_map (entry_adds O) T) ->
  lwords O n1 <> [] -> lwords O n1 = lwords O n2 -> v1 = v2.

Lemma entry_value e n v : In (n, v) (entry_adds O e) -> v = VSym (entry_sym e).
Proof.
  unfold entry_adds. intros [H|H]; [inversion H; reflexivity|].
  apply in_flat_map in H as [a [_ H]]. destruct a; [destruct H|]. destruct H as [H|[]]. inversion H. reflexivity.
Qed.

Lemma join_chars : forall ws w c, In w ws -> In c w -> In c (join_sp ws).
Proof.
  induction ws as [|x ws IH]; intros w c Hw Hc; [destruct Hw|]. destruct ws as [|y ws'].
  - destruct Hw as [<-|[]]. exact Hc.
  - change (join_sp (x :: y :: ws')) with (x ++ sp ++ join_sp (y :: ws')). destruct Hw as [<-|Hw].
    + apply in_or_app. left. exact Hc.
    + apply in_or_app. right. apply in_or_app. right. apply (IH w c Hw Hc).
Qed.

Theorem table_ok_from_conditions : forall n s, In (n, VSym s) (flat_map (entry_adds O) T) -> sym_ok O T (kwords O) s.
Proof.
  intros n s Hin. apply in_flat_map in Hin as [e [He Hn]].
  pose proof (entry_value e n _ Hn) as Ev. injection Ev as Es. subst s. set (s := entry_sym e).
  set (k := ekey e).
  assert (Hk : key s = k) by reflexivity.
  destruct (proj1 (mk_key_iff O k k) (keys_valid e He)) as [[Kne [Sne [Val Nkw]]] Enorm].
  set (ws := split_ws O (strip O k)).
  assert (Hws : Forall (word O) ws) by (apply split_words).
  assert (Ej : k = join_sp ws) by (rewrite Enorm at 1; reflexivity).
  assert (Wne : ws <> []) by (intro C; rewrite C in Ej; cbn in Ej; contradiction).
  assert (Estrip : strip O k = k) by (rewrite Ej at 1; rewrite (strip_join O ws Hws); symmetry; exact Ej).
  rewrite Estrip in Val.
  assert (Hct : Forall (ctext_word O) ws).
  { apply Forall_forall. intros w Hw. rewrite Forall_forall in Hws. destruct (Hws w Hw) as [Wn Ns]. split; [exact Wn|].
    intros c Hc. assert (Hck : In c k) by (rewrite Ej; apply (join_chars ws w c Hw Hc)).
    rewrite forallb_forall in Val. specialize (Val c Hck).
    unfold nospace in Ns. rewrite forallb_forall in Ns. specialize (Ns c Hc). apply negb_true_iff in Ns.
    unfold cls_of. rewrite Ns. destruct (is_paren c) eqn:Ep; [|reflexivity]. exfalso.
    unfold valid_key_char in Val. rewrite Ns in Val. destruct paren_not_word as [P1 P2].
    unfold is_paren, c_lpar, c_rpar in Ep. apply orb_true_iff in Ep as [Ep|Ep]; apply N.eqb_eq in Ep; subst c;
      [rewrite P1 in Val | rewrite P2 in Val]; cbn in Val; discriminate. }
  assert (Ekw : kwords O s = ws) by (unfold kwords; rewrite Hk, Ej; apply (words_join O sp_is_space ws Hct)).
  assert (Hkin : In (k, VSym s) (flat_map (entry_adds O) T)).
  { apply in_flat_map. exists e. split; [exact He|]. unfold entry_adds. left. reflexivity. }
  assert (Elw : lwords O k = map (lower O) ws) by (unfold lwords; fold (kwords O s) || idtac; unfold kwords in Ekw; rewrite Hk in Ekw; rewrite Ekw; reflexivity).
  split; [|split].
  - unfold key_ok. rewrite Ekw. split; [rewrite Hk; exact Ej|]. split; [exact Wne | exact Hct].
  - intros w Hw. rewrite Ekw in Hw. apply (names_opfree k (VSym s) Hkin). rewrite Elw. apply in_map. exact Hw.
  - rewrite Ekw, <- Elw. rewrite (look_stored O T).
    destruct (stored_owner O (keyword_adds ++ flat_map (entry_adds O) T) k (VSym s)) as [sp0 E0].
    + apply in_or_app. right. exact Hkin.
    + exact Kne.
    + rewrite Elw. destruct ws; [contradiction | discriminate].
    + intros n' v' H' E'. apply (names_unambiguous n' v' k (VSym s) H'); [apply in_or_app; right; exact Hkin | | exact E'].
      rewrite E', Elw. destruct ws; [contradiction | discriminate].
    + rewrite E0. reflexivity.
Qed.

End TableOk.

(* C05 over plain tables: keys as LicenseSymbol() makes them, no operator word in a name, no two names of different licenses
   with the same lower-cased words *)
Section PlainTables.
Variable O : oracle.
Hypothesis sp_is_space : is_space O 32%N = true.
Hypothesis upper_plain : forall c, In c [65; 78; 68; 79; 82; 87; 73; 84; 72; 40; 41]%N -> is_space O c = false.
Hypothesis lower_kw : lower O S_AND = s_and /\ lower O S_OR = s_or /\ lower O S_WITH = s_with /\
                      lower O s_lpar = s_lpar /\ lower O s_rpar = s_rpar.
Hypothesis kw_plain : forall c, In c [97; 110; 100; 111; 114; 119; 105; 116; 104; 40; 41]%N ->
  is_space O c = false /\ lower_ch O c = [c].
Hypothesis paren_not_word : is_wordch O 40%N = false /\ is_wordch O 41%N = false.
Variable T : list entry.
Hypothesis names_opfree : forall n v, In (n, v) (flat_map (entry_adds O) T) ->
  forall w, In w (lwords O n) -> is_keyword_str w = false.
Hypothesis keys_valid : forall e, In e T -> mk_key O (ekey e) = Ok (ekey e).
Hypothesis names_unambiguous : forall n1 v1 n2 v2,
  In (n1, v1) (keyword_adds ++ flat_map (entry_adds O) T) -> In (n2, v2) (keyword_adds ++ flat_map (entry_adds O) T) ->
  lwords O n1 <> [] -> lwords O n1 = lwords O n2 -> v1 = v2.

Theorem plain_table_round_trip text wrap e : parse_tokens O T false false text = Ok e ->
  parse_tokens O T false false (render_with key wrap e) = Ok e.
Proof.
  apply (parse_render_parse O sp_is_space upper_plain lower_kw kw_plain T names_opfree).
  apply (table_ok_from_conditions O sp_is_space paren_not_word T names_opfree keys_valid names_unambiguous).
Qed.

Theorem plain_table_round_trip_derived text wrap e e' : parse_tokens O T false false text = Ok e ->
  wf e' = true -> incl (literals e') (literals e) ->
  parse_tokens O T false false (render_with key wrap e') = Ok e'.
Proof.
  apply (derived_render_parse O sp_is_space upper_plain lower_kw kw_plain T names_opfree).
  apply (table_ok_from_conditions O sp_is_space paren_not_word T names_opfree keys_valid names_unambiguous).
Qed.

End PlainTables.
