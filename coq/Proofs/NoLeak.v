(* C03: no exception other than ExpressionError / ExpressionParseError escapes from parse and
   validate, for every symbol table, every flag combination and every string. *)
Require Import Model.Base Model.Expr Model.Split Model.Trie Model.Overlap Model.LicTok Model.BoolParse Model.Licensing.
Require Import Proofs.WithGroup Proofs.ParseSound Proofs.Strict.
From Coq Require Import Lia.

Section NoLeak.
Variable O : oracle.

Definition valued (t : ltok) : Prop := tvalue t <> None.
Definition valued_or_blank (t : ltok) : Prop := tvalue t <> None \/ tok_blank O t = true.

Lemma split_trailing_blank : forall l acc tr core,
  Forall (fun t => tok_blank O t = true) acc -> split_trailing O l acc = (tr, core) ->
  Forall (fun t => tok_blank O t = true) tr.
Proof.
  induction l as [|t l IH]; intros acc tr core Ha H; simpl in H.
  - inversion H; subst. exact Ha.
  - destruct (tok_blank O t) eqn:B.
    + eapply IH; [|exact H]. apply Forall_app. split; [exact Ha | constructor; [exact B | constructor]].
    + inversion H; subst. exact Ha.
Qed.

Lemma flush_valued unm l : flush_unknown O unm = Ok l -> Forall valued_or_blank l.
Proof.
  unfold flush_unknown. destruct unm as [|u unm]; [intro H; inversion H; constructor|].
  destruct (split_trailing O (u :: unm) []) as [tr core] eqn:S.
  assert (Htr : Forall valued_or_blank tr).
  { eapply Forall_impl; [|eapply split_trailing_blank; [constructor | exact S]]. intros t Ht. right; exact Ht. }
  destruct core as [|lastt core']; [intro H; inversion H; subst; exact Htr|].
  destruct (mk_symbol O _ false) as [sy| | | | |]; simpl; try discriminate.
  intro H. inversion H; subst. constructor; [left; simpl; discriminate | exact Htr].
Qed.

Lemma build_valued : forall ts unm l, build_unknown O unm ts = Ok l -> Forall valued_or_blank l.
Proof.
  induction ts as [|t ts IH]; intros unm l H; simpl in H.
  - eapply flush_valued; exact H.
  - destruct (tvalue t) as [v|] eqn:V.
    + destruct (flush_unknown O unm) as [pre| | | | |] eqn:F; simpl in H; try discriminate.
      destruct (build_unknown O [] ts) as [post| | | | |] eqn:B; simpl in H; try discriminate.
      inversion H; subst. apply Forall_app. split; [eapply flush_valued; exact F|].
      constructor; [left; rewrite V; discriminate | eapply IH; exact B].
    + destruct unm as [|u unm'].
      * destruct (tok_blank O t) eqn:Bt.
        -- destruct (build_unknown O [] ts) as [post| | | | |] eqn:B; simpl in H; try discriminate.
           inversion H; subst. constructor; [right; exact Bt | eapply IH; exact B].
        -- eapply IH; exact H.
      * eapply IH; exact H.
Qed.

Lemma drop_blank_valued l : Forall valued_or_blank l -> Forall valued (drop_blank O l).
Proof.
  intro H. unfold drop_blank. apply Forall_forall. intros t Ht. apply filter_In in Ht as [Hin Hk].
  rewrite Forall_forall in H. destruct (H t Hin) as [Hv|Hb]; [exact Hv|].
  destruct (tstring t); [discriminate|]. rewrite Hb in Hk. discriminate.
Qed.

(* groups built by the greedy rule from valued tokens never make replace_with fail internally *)
Definition group_fine (g : group) : Prop :=
  match g with
  | G1 t => valued t
  | G3 a w b => is_with3 a w b = true
  end.

Lemma greedy_fine : forall n ts, length ts <= n -> Forall valued ts -> Forall group_fine (greedy ts).
Proof.
  induction n as [|n IH]; intros ts Hl H.
  - destruct ts; [constructor | simpl in Hl; lia].
  - destruct ts as [|a rest]; [constructor|]. inversion H as [|? ? Ha Hr]; subst. cbn [greedy].
    destruct rest as [|w [|b rest']].
    + constructor; [exact Ha | constructor].
    + constructor; [exact Ha|]. apply IH; [simpl in *; lia | exact Hr].
    + destruct (is_with3 a w b) eqn:E.
      * constructor; [exact E|]. apply IH; [simpl in *; lia|].
        inversion Hr as [|? ? _ Hr2]; subst. inversion Hr2; subst. assumption.
      * constructor; [exact Ha|]. apply IH; [simpl in *; lia | exact Hr].
Qed.

Definition foreign {A} (o : outcome A) : Prop :=
  match o with ValueErr | TypeErr | Leak _ => True | _ => False end.

(* obind propagates foreign outcomes only from its parts *)
Lemma obind_foreign {A B} (x : outcome A) (f : A -> outcome B) :
  ~ foreign x -> (forall a, x = Ok a -> ~ foreign (f a)) -> ~ foreign (obind x f).
Proof. intros Hx Hf. destruct x; simpl in *; try tauto. apply Hf. reflexivity. Qed.

Lemma replace_with_no_leak strict : forall gs, Forall group_fine gs -> ~ foreign (replace_with O strict gs).
Proof.
  induction gs as [|g gs IH]; intros H; [simpl; tauto|].
  inversion H as [|? ? Hg Hr]; subst. specialize (IH Hr).
  rewrite replace_with_cons.
  apply obind_foreign.
  - destruct g as [t|a w b]; cbn [head].
    + simpl in Hg. unfold valued in Hg. destruct (tvalue t) as [[k|s]|]; [| |contradiction].
      * destruct (tk_of_kw k); simpl; tauto.
      * destruct (strict && exc s); simpl; tauto.
    + simpl in Hg. unfold is_with3, is_sym_tok in Hg.
      destruct (tvalue a) as [[ka|l]|]; try discriminate. destruct (tvalue b) as [[kb|r]|].
      * rewrite andb_false_r in Hg. discriminate.
      * destruct (strict && exc l); [simpl; tauto|]. destruct (strict && negb (exc r)); simpl; tauto.
      * rewrite andb_false_r in Hg. discriminate.
  - intros p _. apply obind_foreign; [exact IH | intros; simpl; tauto].
Qed.

Lemma mk_key_no_leak k : ~ foreign (mk_key O k).
Proof.
  unfold mk_key. destruct k; [simpl; tauto|]. destruct (strip O (n :: k)); [simpl; tauto|].
  destruct (negb (forallb (valid_key_char O) (n0 :: s))); [simpl; tauto|].
  destruct (is_keyword_str _); simpl; tauto.
Qed.

Lemma mk_symbol_no_leak k e : ~ foreign (mk_symbol O k e).
Proof. unfold mk_symbol. apply obind_foreign; [apply mk_key_no_leak | intros; simpl; tauto]. Qed.

Lemma flush_no_leak unm : ~ foreign (flush_unknown O unm).
Proof.
  unfold flush_unknown. destruct unm as [|u unm]; [simpl; tauto|].
  destruct (split_trailing O (u :: unm) []) as [tr core]. destruct core as [|lastt core']; [simpl; tauto|].
  apply obind_foreign; [apply mk_symbol_no_leak | intros; simpl; tauto].
Qed.

Lemma build_no_leak : forall ts unm, ~ foreign (build_unknown O unm ts).
Proof.
  induction ts as [|t ts IH]; intros unm; simpl.
  - apply flush_no_leak.
  - destruct (tvalue t).
    + apply obind_foreign; [apply flush_no_leak|]. intros pre _.
      apply obind_foreign; [apply IH | intros; simpl; tauto].
    + destruct unm as [|u unm'].
      * destruct (tok_blank O t); [|apply IH].
        apply obind_foreign; [apply IH | intros; simpl; tauto].
      * apply IH.
Qed.

Lemma simple_tokens_no_leak T : forall ps, ~ foreign (simple_tokens O T ps).
Proof.
  induction ps as [|p ps IH]; simpl; [tauto|].
  apply obind_foreign.
  - unfold simple_token. destruct (piece_cls O p); try (simpl; tauto).
    destruct (str_eqb _ s_and); [simpl; tauto|]. destruct (str_eqb _ s_or); [simpl; tauto|].
    destruct (str_eqb _ s_with); [simpl; tauto|]. destruct (lookup_lower O T _); [simpl; tauto|].
    apply obind_foreign; [apply mk_symbol_no_leak | intros; simpl; tauto].
  - intros t _. apply obind_foreign; [exact IH | intros; simpl; tauto].
Qed.

Theorem lic_tokenize_no_leak T strict simple s : ~ foreign (lic_tokenize O T strict simple s).
Proof.
  unfold lic_tokenize. destruct s as [|c s]; [simpl; tauto|].
  apply obind_foreign.
  - destruct simple; [apply simple_tokens_no_leak | simpl; tauto].
  - intros toks _. apply obind_foreign; [apply build_no_leak|].
    intros toks1 B. apply replace_with_no_leak. rewrite group_with_greedy.
    apply (greedy_fine (length (drop_blank O toks1))); [lia|].
    apply drop_blank_valued. eapply build_valued; exact B.
Qed.

Theorem parse_no_leak T validate strict simple s : ~ foreign (parse O T validate strict simple s).
Proof.
  unfold parse. destruct (blank O s); [simpl; tauto|].
  apply obind_foreign.
  - unfold parse_tokens. apply obind_foreign; [apply lic_tokenize_no_leak|].
    intros toks _. destruct (bparse toks) as [x| | |pe] eqn:B; simpl; try tauto.
    intros _. eapply bparse_no_leak; exact B.
  - intros e _. destruct validate; [|simpl; tauto]. destruct (unknown_license_keys T e true); simpl; tauto.
Qed.

(* validate() never reports an internal failure: its error list holds parse / expression errors only *)
Theorem validate_total T strict s : ~ In VLeak (errors (validate O T strict s)).
Proof.
  unfold validate. pose proof (parse_no_leak T false strict false s) as NL.
  destruct (parse O T false strict false s) as [[x|]| | | | |] eqn:P; cbn beta iota; cbn [errors In];
    try (intros [H|H]; [discriminate | exact H]); try (intro H; exact H); try (exfalso; apply NL; exact I).
  assert (P2 : parse O T false false false s = Ok (Some x)).
  { destruct strict; [apply parse_strict_then_lenient; exact P | exact P]. }
  rewrite P2. destruct (unknown_license_keys T x true); cbn [errors In]; [intro H; exact H | intros [H|H]; [discriminate | exact H]].
Qed.

End NoLeak.
