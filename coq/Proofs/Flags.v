(* C12: non-strict parsing does not look at exception flags. The matcher, the overlap filter, the
   piece walk, the unknown-run merger, WITH grouping, the non-strict replacement and the boolean
   parser all commute with a map on the values they carry; so two tables with the same keys and
   aliases give, non-strictly, the same outcome up to the flags of the symbols. *)
Require Import Model.Base Model.Expr Model.Split Model.Trie Model.Overlap Model.LicTok Model.BoolParse Model.Licensing.
From Coq Require Import Lia.
Open Scope Z_scope.

(* ---- the matcher is parametric in its values ---- *)
Section TrieMap.
Context {V W : Type}.
Variable O : oracle.
Variable g : V -> W.

Definition omap (e : path * (str * V)) : path * (str * W) := (fst e, (fst (snd e), g (snd (snd e)))).
Definition tmap (t : trie V) : trie W := {| outs := map omap (outs t); known := known t; conv := conv t |}.
Definition tok_map (t : Trie.tok V) : Trie.tok W :=
  {| tstart := tstart t; tend := tend t; tstring := tstring t; tvalue := option_map g (tvalue t) |}.

Lemma get_out_map p l : get_out p (map omap l) = option_map (fun o => (fst o, g (snd o))) (get_out p l).
Proof.
  induction l as [|[q [n v]] l IH]; [reflexivity|]. cbn [map omap get_out fst snd].
  destruct (path_eqb p q); [reflexivity | exact IH].
Qed.

Lemma set_out_map p n v l : set_out p (n, g v) (map omap l) = map omap (set_out p (n, v) l).
Proof.
  induction l as [|[q [n' v']] l IH]; [reflexivity|]. cbn [map omap set_out fst snd].
  destruct (path_eqb p q); [reflexivity|]. rewrite IH. reflexivity.
Qed.

Lemma existsb_fst_map (f : path -> bool) l : existsb (fun e => f (fst e)) (map omap l) = existsb (fun e => f (fst e)) l.
Proof. induction l as [|e l IH]; [reflexivity|]. cbn [map existsb]. rewrite IH. reflexivity. Qed.

Lemma in_nodes_map t p : in_nodes (tmap t) p = in_nodes t p.
Proof. unfold in_nodes. destruct p; [reflexivity|]. cbn [outs tmap]. apply (existsb_fst_map (is_prefix_of (s :: p))). Qed.

Lemma in_nodes_ext t : forall p, in_nodes (tmap t) p = in_nodes t p.
Proof. intro p. apply in_nodes_map. Qed.

Lemma max_depth_map t : max_depth (tmap t) = max_depth t.
Proof.
  unfold max_depth. cbn [outs tmap]. induction (outs t) as [|e l IH]; [reflexivity|]. cbn [map fold_right]. rewrite IH. reflexivity.
Qed.

Lemma t_add_map t name v :
  t_add O (tmap t) name (g v) = match t_add O t name v with Added t' => Added (tmap t') | Refused => Refused end.
Proof.
  unfold t_add. cbn [conv tmap]. destruct (conv t); [reflexivity|]. destruct name as [|c n]; [reflexivity|].
  destruct (lwords O (c :: n)) as [|w ws]; [reflexivity|]. unfold tmap. cbn [outs known conv]. rewrite set_out_map. reflexivity.
Qed.

Lemma climb_ext (inP inP' : path -> bool) (f f' : path -> path) :
  (forall p, inP p = inP' p) -> (forall s, f s = f' s) -> forall k s w, climb inP f k s w = climb inP' f' k s w.
Proof.
  intros HP Hf. induction k as [|k IH]; intros s w; cbn [climb]; rewrite HP; destruct (inP' (s ++ [w])); try reflexivity.
  destruct s; [reflexivity|]. rewrite Hf. apply IH.
Qed.

Lemma failn_ext (inP inP' : path -> bool) : (forall p, inP p = inP' p) -> forall n p, failn inP n p = failn inP' n p.
Proof.
  intro HP. induction n as [|n IH]; intro p; [reflexivity|]. cbn [failn].
  destruct (rev p) as [|w rq]; [reflexivity|]. destruct rq; [reflexivity|].
  rewrite IH. apply climb_ext; [exact HP | exact IH].
Qed.

Lemma chain_ext (f f' : path -> path) : (forall s, f s = f' s) -> forall k s, chain f k s = chain f' k s.
Proof.
  intro Hf. induction k as [|k IH]; intro s; cbn [chain]; [reflexivity|]. destruct s; [reflexivity|]. rewrite Hf, IH. reflexivity.
Qed.

Lemma iter_go_map t text md : forall ps state starts,
  iter_go O (tmap t) text md state starts ps = map tok_map (iter_go O t text md state starts ps).
Proof.
  induction ps as [|p ps IH]; intros state starts; [reflexivity|]. cbn [iter_go].
  destruct (negb (is_word_piece O p)); [apply IH|]. cbn [known tmap].
  destruct (negb (existsb (str_eqb (lower O (ptext p))) (known t))); [apply IH|].
  assert (Hf : forall s, failn (in_nodes (tmap t)) md s = failn (in_nodes t) md s) by (intro s; apply failn_ext; apply in_nodes_map).
  rewrite (climb_ext (in_nodes (tmap t)) (in_nodes t) _ _ (in_nodes_map t) Hf).
  rewrite (chain_ext _ _ Hf). rewrite map_app. rewrite IH. f_equal.
  cbn [outs tmap].
  induction (chain (failn (in_nodes t) md) md (climb (in_nodes t) (failn (in_nodes t) md) md state (lower O (ptext p)))) as [|node l IHl];
    [reflexivity|].
  cbn [flat_map]. rewrite map_app. rewrite IHl. f_equal. rewrite get_out_map.
  destruct (get_out node (outs t)) as [[n v]|]; reflexivity.
Qed.

Lemma t_iter_map t text : t_iter O (tmap t) text = map tok_map (t_iter O t text).
Proof. unfold t_iter. rewrite max_depth_map. apply iter_go_map. Qed.

(* sorting and the overlap filter look at positions only *)
Lemma insert_tok_map (x : Trie.tok V) l : insert_tok (tok_map x) (map tok_map l) = map tok_map (insert_tok x l).
Proof.
  induction l as [|y l IH]; [reflexivity|]. cbn [map insert_tok].
  change (key_ltb (tok_map x) (tok_map y)) with (key_ltb x y). destruct (key_ltb x y); [reflexivity|]. rewrite IH. reflexivity.
Qed.

Lemma sort_tokens_map (l : list (Trie.tok V)) : sort_tokens (map tok_map l) = map tok_map (sort_tokens l).
Proof.
  unfold sort_tokens. change (@nil (Trie.tok W)) with (map tok_map (@nil (Trie.tok V))). generalize (@nil (Trie.tok V)).
  induction l as [|x l IH]; intro acc; [reflexivity|]. cbn [map fold_left]. rewrite insert_tok_map. apply IH.
Qed.

Lemma fo_inner_map (c : Trie.tok V) : forall rest mid,
  fo_inner (tok_map c) (map tok_map mid) (map tok_map rest) = (fst (fo_inner c mid rest), map tok_map (snd (fo_inner c mid rest))).
Proof.
  induction rest as [|n rest IH]; intro mid; [reflexivity|]. cbn [map fo_inner].
  change (is_after (tok_map n) (tok_map c)) with (is_after n c).
  change (tcontains (tok_map c) (tok_map n)) with (tcontains c n).
  change (overlap (tok_map c) (tok_map n)) with (overlap c n).
  change (tok_len (tok_map n)) with (tok_len n). change (tok_len (tok_map c)) with (tok_len c).
  destruct (is_after n c); [cbn [fst snd]; rewrite map_app; reflexivity|].
  destruct (tcontains c n); [apply IH|].
  destruct (overlap c n).
  - destruct (tok_len n <=? tok_len c); [apply IH | cbn [fst snd]; rewrite map_app; reflexivity].
  - specialize (IH (mid ++ [n])). rewrite map_app in IH. exact IH.
Qed.

Lemma fo_outer_map : forall fuel (l : list (Trie.tok V)), fo_outer fuel (map tok_map l) = map tok_map (fo_outer fuel l).
Proof.
  induction fuel as [|f IH]; intro l; [reflexivity|]. cbn [fo_outer].
  destruct l as [|c [|n rest]]; [reflexivity | reflexivity |]. cbn [map].
  pose proof (fo_inner_map c (n :: rest) []) as H. cbn [map] in H. rewrite H.
  destruct (fo_inner c [] (n :: rest)) as [keep rem]. cbn [fst snd].
  destruct keep; cbn [map]; rewrite IH; reflexivity.
Qed.

Lemma filter_overlapping_map (l : list (Trie.tok V)) : filter_overlapping (map tok_map l) = map tok_map (filter_overlapping l).
Proof. unfold filter_overlapping. rewrite sort_tokens_map, map_length. apply fo_outer_map. Qed.

Lemma drop_ended_map (m : list (Trie.tok V)) s : drop_ended (map tok_map m) s = map tok_map (drop_ended m s).
Proof. induction m as [|t m IH]; [reflexivity|]. cbn [map drop_ended tend tok_map]. destruct (tend t <? s); [exact IH | reflexivity]. Qed.

Lemma retok_map : forall ps (m : list (Trie.tok V)), retok O ps (map tok_map m) = map tok_map (retok O ps m).
Proof.
  induction ps as [|p ps IH]; intro m; [reflexivity|]. cbn [retok]. rewrite drop_ended_map.
  destruct (drop_ended m (pstart p)) as [|t m'] eqn:E.
  - cbn [map]. destruct (is_word_piece O p); [cbn [map]; f_equal|]; rewrite <- IH; reflexivity.
  - cbn [map]. change (tstart (tok_map t)) with (tstart t).
    destruct (tstart t <=? pstart p).
    + destruct (tstart t =? pstart p); [cbn [map]; f_equal|]; rewrite <- IH; reflexivity.
    + destruct (is_word_piece O p); [cbn [map]; f_equal|]; rewrite <- IH; reflexivity.
Qed.

Theorem t_tokenize_map t text : t_tokenize O (tmap t) text = map tok_map (t_tokenize O t text).
Proof. unfold t_tokenize. rewrite t_iter_map, filter_overlapping_map. apply retok_map. Qed.

End TrieMap.

(* ---- erasing the exception flags ---- *)
Definition esym (s : sym) : sym := {| key := key s; exc := false |}.
Definition ekv (v : kv) : kv := match v with VKw k => VKw k | VSym s => VSym (esym s) end.
Definition eatom (a : atom) : atom := match a with Plain s => Plain (esym s) | With l r => With (esym l) (esym r) end.
Fixpoint eexpr (e : expr) : expr :=
  match e with
  | Lit a => Lit (eatom a)
  | And xs => And (map eexpr xs)
  | Or xs => Or (map eexpr xs)
  end.
Definition etk (t : tk) : tk := match t with TS a => TS (eatom a) | x => x end.
Definition eptok (t : ptok) : ptok := {| pt := etk (pt t); pstr := pstr t; ppos := ppos t |}.
Definition eout {A} (f : A -> A) (o : outcome A) : outcome A :=
  match o with Ok a => Ok (f a) | ParseErr c t p => ParseErr c t p | ExprErr k => ExprErr k
             | ValueErr => ValueErr | TypeErr => TypeErr | Leak e => Leak e end.

Lemma eout_obind {A B} (f : A -> A) (h : B -> B) (x : outcome A) (k k' : A -> outcome B) :
  (forall a, k' (f a) = eout h (k a)) -> obind (eout f x) k' = eout h (obind x k).
Proof. intro H. destruct x; cbn; [apply H | reflexivity..]. Qed.

Section Pipeline.
Variable O : oracle.
Notation ltok := (Trie.tok kv).
Notation tm := (tok_map ekv).

Lemma tm_blank (t : ltok) : tok_blank O (tm t) = tok_blank O t. Proof. reflexivity. Qed.

Lemma split_trailing_map : forall (l acc : list ltok),
  split_trailing O (map tm l) (map tm acc) = (map tm (fst (split_trailing O l acc)), map tm (snd (split_trailing O l acc))).
Proof.
  induction l as [|t l IH]; intro acc; [reflexivity|]. cbn [map split_trailing]. rewrite tm_blank.
  destruct (tok_blank O t); [|reflexivity]. specialize (IH (acc ++ [t])). rewrite map_app in IH. exact IH.
Qed.

Lemma filter_nonblank_map (l : list ltok) :
  filter (fun t => negb (tok_blank O t)) (map tm l) = map tm (filter (fun t => negb (tok_blank O t)) l).
Proof. induction l as [|t l IH]; [reflexivity|]. cbn [map filter]. rewrite tm_blank. destruct (negb (tok_blank O t)); cbn [map]; rewrite IH; reflexivity. Qed.

Lemma mk_symbol_flag s : forall sy, mk_symbol O s false = Ok sy -> esym sy = sy.
Proof. unfold mk_symbol. destruct (mk_key O s); cbn; intros sy H; inversion H; subst. reflexivity. Qed.

Lemma flush_unknown_map (unm : list ltok) : flush_unknown O (map tm unm) = eout (map tm) (flush_unknown O unm).
Proof.
  unfold flush_unknown. destruct unm as [|u unm]; [reflexivity|]. cbn [map].
  pose proof (split_trailing_map (u :: unm) []) as H. cbn [map] in H. rewrite H.
  destruct (split_trailing O (u :: unm) []) as [trailing core_rev]. cbn [fst snd].
  destruct core_rev as [|lastt cr]; [reflexivity|]. cbn [map].
  change (tm lastt :: map tm cr) with (map tm (lastt :: cr)). rewrite <- !map_rev.
  rewrite !filter_nonblank_map. rewrite !map_map. cbn [tstring tok_map].
  set (s := join_sp (map (fun x => tstring x) (filter (fun t => negb (tok_blank O t)) (rev (lastt :: cr))))).
  assert (Est : match map tm (rev (lastt :: cr)) with t :: _ => tstart t | [] => 0 end =
                match rev (lastt :: cr) with t :: _ => tstart t | [] => 0 end) by (destruct (rev (lastt :: cr)); reflexivity).
  rewrite Est. destruct (mk_symbol O s false) as [sy| | | | |] eqn:Em; try reflexivity. cbn [obind eout map].
  unfold tok_map at 3. cbn [tstart tend tstring tvalue option_map ekv]. rewrite (mk_symbol_flag s sy Em). reflexivity.
Qed.

Lemma build_unknown_map : forall (ts unm : list ltok),
  build_unknown O (map tm unm) (map tm ts) = eout (map tm) (build_unknown O unm ts).
Proof.
  induction ts as [|t ts IH]; intro unm; cbn [map build_unknown]; [apply flush_unknown_map|].
  pose proof (IH []) as IH0. cbn [map] in IH0.
  change (tvalue (tm t)) with (option_map ekv (tvalue t)). destruct (tvalue t) as [v|]; cbn [option_map].
  - rewrite flush_unknown_map. rewrite IH0.
    destruct (flush_unknown O unm) as [pre| | | | |]; try reflexivity. cbn [obind eout].
    destruct (build_unknown O [] ts) as [post| | | | |]; try reflexivity. cbn [obind eout].
    rewrite map_app. reflexivity.
  - destruct unm as [|u unm]; cbn [map].
    + rewrite tm_blank. destruct (tok_blank O t).
      * rewrite IH0. destruct (build_unknown O [] ts); reflexivity.
      * apply (IH [t]).
    + apply (IH (t :: u :: unm)).
Qed.

Lemma drop_blank_map (ts : list ltok) : drop_blank O (map tm ts) = map tm (drop_blank O ts).
Proof.
  unfold drop_blank. induction ts as [|t ts IH]; [reflexivity|]. cbn [map filter]. cbn [tstring tok_map]. rewrite tm_blank.
  destruct (match tstring t with [] => false | _ :: _ => negb (tok_blank O t) end); cbn [map]; rewrite IH; reflexivity.
Qed.

Definition gmap (g : group) : group :=
  match g with G1 t => G1 (tm t) | G3 a w b => G3 (tm a) (tm w) (tm b) end.

Lemma is_with3_map a w b : is_with3 (tm a) (tm w) (tm b) = is_with3 a w b.
Proof.
  unfold is_with3, is_sym_tok, is_with_tok. cbn [tvalue tok_map].
  destruct (tvalue a) as [[k|s]|]; destruct (tvalue w) as [[[]|s']|]; destruct (tvalue b) as [[k''|s'']|]; reflexivity.
Qed.

Lemma group_go_map : forall (ts win : list ltok), group_go (map tm win) (map tm ts) = map gmap (group_go win ts).
Proof.
  induction ts as [|t ts IH]; intro win.
  - cbn [map group_go]. destruct win as [|a [|w [|b [|x win]]]]; cbn [map]; try reflexivity.
    + rewrite is_with3_map. destruct (is_with3 a w b); reflexivity.
    + rewrite map_map. cbn. f_equal. f_equal. f_equal. f_equal. rewrite map_map. reflexivity.
  - cbn [map group_go]. destruct win as [|a [|w [|b [|x win]]]]; cbn [map].
    + apply (IH [t]).
    + apply (IH [a; t]).
    + apply (IH [a; w; t]).
    + rewrite is_with3_map. destruct (is_with3 a w b); cbn [map]; f_equal; [apply (IH [t]) | apply (IH [w; b; t])].
    + specialize (IH ((a :: w :: b :: x :: win) ++ [t])). rewrite map_app in IH. exact IH.
Qed.

Lemma group_with_map (ts : list ltok) : group_with (map tm ts) = map gmap (group_with ts).
Proof.
  unfold group_with. rewrite map_length. destruct (Nat.ltb (length ts) 3).
  - rewrite !map_map. reflexivity.
  - apply (group_go_map ts []).
Qed.

Lemma replace_with_map : forall gs, replace_with O false (map gmap gs) = eout (map eptok) (replace_with O false gs).
Proof.
  induction gs as [|g gs IH]; [reflexivity|]. cbn [map]. destruct g as [t|a w b]; cbn [gmap replace_with].
  - cbn [tvalue tok_map tstring tstart]. destruct (tvalue t) as [[k|s]|]; cbn [option_map ekv andb].
    + destruct (tk_of_kw k) as [ty|] eqn:Ek; [|reflexivity]. rewrite IH.
      destruct (replace_with O false gs); try reflexivity. cbn [obind eout map]. unfold eptok at 2. cbn [pt pstr ppos].
      destruct k; inversion Ek; subst; reflexivity.
    + rewrite IH. destruct (replace_with O false gs); reflexivity.
    + reflexivity.
  - cbn [tvalue tok_map tstring tstart]. destruct (tvalue a) as [[ka|l]|]; destruct (tvalue b) as [[kb|r]|]; cbn [option_map ekv andb]; try reflexivity.
    rewrite IH. destruct (replace_with O false gs); reflexivity.
Qed.

End Pipeline.

(* ---- the boolean parser is parametric in the symbols ---- *)
Section Parser.
Open Scope nat_scope.

Definition fm (f : frame) : frame := (fst f, map eexpr (snd f)).
Definition epres (r : pres) : pres := match r with POk e => POk (eexpr e) | x => x end.
Definition esres (r : sres) : sres := match r with SOk s => SOk (map fm s) | SErr e => SErr (epres e) end.

Lemma fm_snoc po pa e rest : map fm ((po, pa ++ [e]) :: rest) = (po, map eexpr pa ++ [eexpr e]) :: map fm rest.
Proof. cbn [map]. unfold fm at 1. cbn [fst snd]. rewrite map_app. reflexivity. Qed.
Lemma fm_cons o a rest : map fm ((o, a) :: rest) = (o, map eexpr a) :: map fm rest.
Proof. reflexivity. Qed.

Lemma mkf_map o a : mkf o (map eexpr a) = option_map eexpr (mkf o a).
Proof. unfold mkf. rewrite map_length. destruct o; try reflexivity; destruct (Nat.ltb (length a) 2); reflexivity. Qed.

Lemma start_op_map : forall fuel s o, start_op fuel (map fm s) o = esres (start_op fuel s o).
Proof.
  induction fuel as [|fuel IH]; intros s o; [reflexivity|]. cbn [start_op].
  destruct s as [|[co a] rest]; [reflexivity|]. cbn [map fm fst snd].
  assert (Hcase : forall c, c <> FNone ->
    (if Nat.ltb (prec o) (prec c)
     then match rev (map eexpr a) with [] => SErr (PLeak IndexError) | x :: ra => SOk ((o, [x]) :: (c, rev ra) :: map fm rest) end
     else if Nat.eqb (prec o) (prec c) then SOk ((c, map eexpr a) :: map fm rest)
     else match map fm rest with
          | [] => match mkf c (map eexpr a) with Some e => SOk [(o, [e])] | None => SErr PArity end
          | (po, pa) :: rest' => match mkf c (map eexpr a) with Some e => start_op fuel ((po, pa ++ [e]) :: rest') o | None => SErr PArity end
          end) =
    esres (if Nat.ltb (prec o) (prec c)
     then match rev a with [] => SErr (PLeak IndexError) | x :: ra => SOk ((o, [x]) :: (c, rev ra) :: rest) end
     else if Nat.eqb (prec o) (prec c) then SOk ((c, a) :: rest)
     else match rest with
          | [] => match mkf c a with Some e => SOk [(o, [e])] | None => SErr PArity end
          | (po, pa) :: rest' => match mkf c a with Some e => start_op fuel ((po, pa ++ [e]) :: rest') o | None => SErr PArity end
          end)).
  { intros c _. destruct (Nat.ltb (prec o) (prec c)).
    - rewrite <- map_rev. destruct (rev a) as [|x ra]; [reflexivity|]. cbn [map esres]. unfold fm. cbn [fst snd map]. rewrite map_rev. reflexivity.
    - destruct (Nat.eqb (prec o) (prec c)); [reflexivity|].
      destruct rest as [|[po pa] rest']; cbn [map fm fst snd]; rewrite mkf_map; destruct (mkf c a) as [e|]; cbn [option_map]; try reflexivity.
      specialize (IH ((po, pa ++ [e]) :: rest') o). rewrite fm_snoc in IH. exact IH. }
  destruct co; [reflexivity | apply Hcase; discriminate | apply Hcase; discriminate | apply Hcase; discriminate].
Qed.

Lemma close_par_map : forall fuel s ts tp, close_par fuel (map fm s) ts tp = esres (close_par fuel s ts tp).
Proof.
  induction fuel as [|fuel IH]; intros s ts tp; [reflexivity|].
  destruct s as [|[co a] [|[po pa] rest]]; [reflexivity | destruct co; reflexivity |].
  rewrite !fm_cons. cbn [close_par].
  destruct co.
  - reflexivity.
  - rewrite mkf_map. destruct (mkf FAnd a) as [e|]; cbn [option_map]; [|reflexivity].
    specialize (IH ((po, pa ++ [e]) :: rest) ts tp). rewrite fm_snoc in IH. exact IH.
  - rewrite mkf_map. destruct (mkf FOr a) as [e|]; cbn [option_map]; [|reflexivity].
    specialize (IH ((po, pa ++ [e]) :: rest) ts tp). rewrite fm_snoc in IH. exact IH.
  - destruct a as [|x a']; [reflexivity|]. cbn [esres]. rewrite fm_snoc. reflexivity.
Qed.

Lemma check_map prev t : check (option_map etk prev) (etk t) = check prev t.
Proof. destruct prev as [[a| | | |]|]; destruct t; reflexivity. Qed.

Lemma step1_map s prev t : step1 (map fm s) (option_map etk prev) (eptok t) = esres (step1 s prev t).
Proof.
  unfold step1. cbn [pt pstr ppos eptok]. rewrite check_map. destruct (check prev (pt t)); [reflexivity|].
  rewrite map_length. destruct (pt t) eqn:Et; cbn [etk].
  - destruct s as [|[o args] rest]; [reflexivity|]. rewrite fm_cons. cbn [esres]. rewrite fm_snoc. reflexivity.
  - apply start_op_map.
  - apply start_op_map.
  - destruct prev as [[a| | | |]|]; reflexivity.
  - apply close_par_map.
Qed.

Lemma run_map : forall ts s prev,
  run (map fm s) (option_map etk prev) (map eptok ts) =
  match run s prev ts with ROk s' p' => ROk (map fm s') (option_map etk p') | RErr e => RErr (epres e) end.
Proof.
  induction ts as [|t ts IH]; intros s prev; [reflexivity|]. cbn [map run]. rewrite step1_map.
  destruct (step1 s prev t) as [s'|e]; cbn [esres]; [|reflexivity].
  specialize (IH s' (Some (pt t))). cbn [option_map] in IH. exact IH.
Qed.

Lemma finish_map : forall fuel s, finish fuel (map fm s) = epres (finish fuel s).
Proof.
  induction fuel as [|fuel IH]; intro s; [reflexivity|].
  destruct s as [|[co a] [|[po pa] rest]]; [reflexivity | |].
  - rewrite fm_cons. cbn [map finish]. destruct co.
    + destruct a as [|x [|y a']]; reflexivity.
    + rewrite mkf_map. destruct (mkf FAnd a); reflexivity.
    + rewrite mkf_map. destruct (mkf FOr a); reflexivity.
    + reflexivity.
  - rewrite !fm_cons. cbn [finish]. destruct co.
    + rewrite mkf_map. destruct (mkf FNone a) as [e|]; cbn [option_map]; [|reflexivity].
      specialize (IH ((po, pa ++ [e]) :: rest)). rewrite fm_snoc in IH. exact IH.
    + rewrite mkf_map. destruct (mkf FAnd a) as [e|]; cbn [option_map]; [|reflexivity].
      specialize (IH ((po, pa ++ [e]) :: rest)). rewrite fm_snoc in IH. exact IH.
    + rewrite mkf_map. destruct (mkf FOr a) as [e|]; cbn [option_map]; [|reflexivity].
      specialize (IH ((po, pa ++ [e]) :: rest)). rewrite fm_snoc in IH. exact IH.
    + reflexivity.
Qed.

Theorem bparse_map ts : bparse (map eptok ts) = epres (bparse ts).
Proof.
  unfold bparse. pose proof (run_map ts [(FNone, [])] None) as H. change (map fm [(FNone, [])]) with [(FNone, @nil expr)] in H. cbn [option_map] in H. rewrite H.
  destruct (run [(FNone, [])] None ts) as [s p|e]; [|reflexivity]. rewrite map_length. apply finish_map.
Qed.

End Parser.

(* ---- two tables with the same keys and aliases ---- *)
Section Tables.
Variable O : oracle.
Notation ltok := (Trie.tok kv).
Notation tm := (tok_map ekv).

Definition names_of_entry (e : entry) : str * list str := (ekey e, ealiases e).
Definition same_names (T T' : list entry) : Prop := map names_of_entry T = map names_of_entry T'.
Definition second (nv : str * kv) : str * kv := (fst nv, ekv (snd nv)).

Lemma add_all_map : forall l t, tmap ekv (add_all O t l) = add_all O (tmap ekv t) (map second l).
Proof.
  induction l as [|[n v] l IH]; intro t; [reflexivity|]. cbn [map]. unfold add_all in *. cbn [fold_left].
  change (snd (second (n, v))) with (ekv v). change (fst (second (n, v))) with n. cbn [fst snd].
  rewrite (t_add_map O ekv t n v). destruct (t_add O t n v) as [t'|]; apply IH.
Qed.

Lemma entry_adds_erased e e' : names_of_entry e = names_of_entry e' ->
  map second (entry_adds O e) = map second (entry_adds O e').
Proof.
  unfold names_of_entry. intro H. inversion H as [[Hk Ha]]. unfold entry_adds. rewrite Ha, Hk.
  assert (Es : esym (entry_sym e) = esym (entry_sym e')) by (unfold entry_sym, esym; cbn; rewrite Hk; reflexivity).
  cbn [map]. f_equal.
  - unfold second. cbn [fst snd ekv]. rewrite Es. reflexivity.
  - clear H Ha. generalize (ealiases e'). intro als.
    induction als as [|a l IH]; [reflexivity|]. cbn [flat_map]. rewrite !map_app. rewrite IH. f_equal.
    destruct a; [reflexivity|]. cbn [map]. unfold second. cbn [fst snd ekv]. rewrite Es. reflexivity.
Qed.

Lemma adds_erased : forall T T', same_names T T' ->
  map second (flat_map (entry_adds O) T) = map second (flat_map (entry_adds O) T').
Proof.
  unfold same_names. induction T as [|e T IH]; intros [|e' T'] H; try discriminate; [reflexivity|].
  cbn [map] in H. injection H as Hk Ha Ht. cbn [flat_map]. rewrite !map_app. rewrite (IH T' Ht).
  rewrite (entry_adds_erased e e'); [reflexivity|]. unfold names_of_entry. rewrite Hk, Ha. reflexivity.
Qed.

Lemma build_trie_erased T T' : same_names T T' -> tmap ekv (build_trie O T) = tmap ekv (build_trie O T').
Proof.
  intro H. unfold build_trie.
  assert (Hm : forall t : trie kv, tmap ekv (t_make_automaton t) = t_make_automaton (tmap ekv t)) by reflexivity.
  rewrite !Hm. rewrite !add_all_map. rewrite !map_app. rewrite (adds_erased T T' H). reflexivity.
Qed.

Lemma lookup_lower_erased : forall T T', same_names T T' -> forall l,
  option_map esym (lookup_lower O T l) = option_map esym (lookup_lower O T' l).
Proof.
  unfold same_names. induction T as [|e T IH]; intros [|e' T'] H l; try discriminate; [reflexivity|].
  cbn [map] in H. injection H as Hk Ha Ht. cbn [lookup_lower]. specialize (IH T' Ht l).
  destruct (lookup_lower O T l); destruct (lookup_lower O T' l); cbn [option_map] in *; try discriminate; [exact IH|].
  rewrite Hk. destruct (str_eqb (lower O (ekey e')) l); [|reflexivity]. cbn [option_map]. unfold entry_sym, esym. cbn. rewrite Hk. reflexivity.
Qed.

Lemma simple_token_erased T T' p : same_names T T' ->
  eout tm (simple_token O T p) = eout tm (simple_token O T' p).
Proof.
  intro H. unfold simple_token. destruct (piece_cls O p); try reflexivity.
  destruct (str_eqb (lower O (ptext p)) s_and); [reflexivity|].
  destruct (str_eqb (lower O (ptext p)) s_or); [reflexivity|].
  destruct (str_eqb (lower O (ptext p)) s_with); [reflexivity|].
  pose proof (lookup_lower_erased T T' H (lower O (ptext p))) as Hl.
  destruct (lookup_lower O T (lower O (ptext p))); destruct (lookup_lower O T' (lower O (ptext p))); cbn [option_map] in Hl; try discriminate.
  - cbn [eout]. unfold tok_map. cbn [tstart tend tstring tvalue option_map ekv]. injection Hl as Hs. unfold esym. rewrite Hs. reflexivity.
  - reflexivity.
Qed.

Lemma simple_tokens_erased T T' : same_names T T' -> forall ps,
  eout (map tm) (simple_tokens O T ps) = eout (map tm) (simple_tokens O T' ps).
Proof.
  intros H. induction ps as [|p ps IH]; [reflexivity|]. cbn [simple_tokens].
  pose proof (simple_token_erased T T' p H) as Hp.
  destruct (simple_token O T p) as [t| | | | |]; destruct (simple_token O T' p) as [t'| | | | |]; cbn [eout] in Hp; try discriminate;
    try (cbn [obind eout]; inversion Hp; reflexivity).
  cbn [obind]. destruct (simple_tokens O T ps) as [r| | | | |]; destruct (simple_tokens O T' ps) as [r'| | | | |]; cbn [eout] in IH; try discriminate; try exact IH.
  cbn [obind eout map]. assert (Ht : tm t = tm t') by congruence. assert (Hr : map tm r = map tm r') by congruence.
  rewrite Ht, Hr. reflexivity.
Qed.

(* everything after the tokenizer, non-strictly *)
Definition after_tokens (toks : list ltok) : outcome (list ptok) :=
  obind (build_unknown O [] toks) (fun toks1 => replace_with O false (group_with (drop_blank O toks1))).

Lemma after_tokens_map toks : after_tokens (map tm toks) = eout (map eptok) (after_tokens toks).
Proof.
  unfold after_tokens. pose proof (build_unknown_map O toks []) as H. cbn [map] in H. rewrite H.
  destruct (build_unknown O [] toks) as [t1| | | | |]; try reflexivity. cbn [obind eout].
  rewrite drop_blank_map, group_with_map. apply replace_with_map.
Qed.

Theorem tokenize_flag_free T T' simple s : same_names T T' ->
  eout (map eptok) (lic_tokenize O T false simple s) = eout (map eptok) (lic_tokenize O T' false simple s).
Proof.
  intro H. unfold lic_tokenize. destruct s as [|c s]; [reflexivity|].
  fold after_tokens.
  assert (G : forall X X' : outcome (list ltok), eout (map tm) X = eout (map tm) X' ->
              eout (map eptok) (obind X after_tokens) = eout (map eptok) (obind X' after_tokens)).
  { intros X X' E. rewrite <- (eout_obind (map tm) (map eptok) X after_tokens after_tokens after_tokens_map).
    rewrite <- (eout_obind (map tm) (map eptok) X' after_tokens after_tokens after_tokens_map). rewrite E. reflexivity. }
  apply G. destruct simple.
  - apply simple_tokens_erased; exact H.
  - cbn [eout]. rewrite <- !(t_tokenize_map O ekv). rewrite (build_trie_erased T T' H). reflexivity.
Qed.

Lemma of_pres_map r : of_pres (epres r) = eout eexpr (of_pres r).
Proof. destruct r; reflexivity. Qed.

Theorem parse_tokens_flag_free T T' simple s : same_names T T' ->
  eout eexpr (parse_tokens O T false simple s) = eout eexpr (parse_tokens O T' false simple s).
Proof.
  intro H. unfold parse_tokens.
  set (K := fun toks : list ptok => of_pres (bparse toks)).
  assert (HK : forall toks, K (map eptok toks) = eout eexpr (K toks)) by (intro toks; unfold K; rewrite bparse_map; apply of_pres_map).
  rewrite <- (eout_obind (map eptok) eexpr (lic_tokenize O T false simple s) K K HK).
  rewrite <- (eout_obind (map eptok) eexpr (lic_tokenize O T' false simple s) K K HK).
  rewrite (tokenize_flag_free T T' simple s H). reflexivity.
Qed.


(* the unknown-key listing looks at keys only *)
Lemma literals_erased : forall e, literals (eexpr e) = map eatom (literals e).
Proof.
  induction e as [a|xs IH|xs IH] using expr_ind'; [reflexivity| |]; cbn [eexpr literals];
    induction IH as [|x l Hx _ IHl]; [reflexivity | cbn [map flat_map]; rewrite map_app, Hx, IHl; reflexivity
                                     | reflexivity | cbn [map flat_map]; rewrite map_app, Hx, IHl; reflexivity].
Qed.

Lemma decompose_keys l : map key (flat_map decompose (map eatom l)) = map key (flat_map decompose l).
Proof. induction l as [|a l IH]; [reflexivity|]. cbn [map flat_map]. rewrite !map_app, IH. destruct a; reflexivity. Qed.

Lemma unknown_keys_norm T e :
  keys_of (unknown_license_symbols T e false) =
  filter (fun k => negb (known_key T k)) (map key (flat_map decompose (literals e))).
Proof.
  unfold unknown_license_symbols, license_symbols, keys_of. generalize (flat_map decompose (literals e)). intro l.
  induction l as [|s l IH]; [reflexivity|]. cbn [map filter is_unknown]. destruct (negb (known_key T (key s))); cbn [map atom_str]; rewrite IH; reflexivity.
Qed.

Lemma known_key_same T T' : same_names T T' -> forall k, known_key T k = known_key T' k.
Proof.
  unfold same_names, known_key. revert T'. induction T as [|e T IH]; intros [|e' T'] H k; try discriminate; [reflexivity|].
  cbn [map] in H. injection H as Hk Ha Ht. cbn [existsb]. rewrite Hk. rewrite (IH T' Ht k). reflexivity.
Qed.

Lemma unknown_keys_erased T T' e e' : same_names T T' -> eexpr e = eexpr e' ->
  unknown_license_keys T e true = unknown_license_keys T' e' true.
Proof.
  intros H E. unfold unknown_license_keys. rewrite !unknown_keys_norm.
  assert (Hk : map key (flat_map decompose (literals e)) = map key (flat_map decompose (literals e'))).
  { rewrite <- (decompose_keys (literals e)), <- (decompose_keys (literals e')). rewrite <- !literals_erased. rewrite E. reflexivity. }
  rewrite Hk. f_equal. apply filter_ext. intro k. rewrite (known_key_same T T' H k). reflexivity.
Qed.

(* C12: non-strict parse() does not depend on the exception flags of the table *)
Theorem parse_flag_free T T' validate simple s : same_names T T' ->
  eout (option_map eexpr) (parse O T validate false simple s) = eout (option_map eexpr) (parse O T' validate false simple s).
Proof.
  intro H. unfold parse. destruct (blank O s); [reflexivity|].
  pose proof (parse_tokens_flag_free T T' simple s H) as Hp.
  destruct (parse_tokens O T false simple s) as [e| | | | |]; destruct (parse_tokens O T' false simple s) as [e'| | | | |];
    cbn [eout] in Hp; try discriminate; try (cbn [obind eout]; inversion Hp; reflexivity).
  assert (E : eexpr e = eexpr e') by congruence. cbn [obind]. destruct validate.
  - rewrite (unknown_keys_erased T T' e e' H E). destruct (unknown_license_keys T' e' true); [|reflexivity].
    cbn [eout option_map]. rewrite E. reflexivity.
  - cbn [eout option_map]. rewrite E. reflexivity.
Qed.

(* in particular both tables accept the same strings *)
Corollary parse_accepts_same T T' validate simple s : same_names T T' ->
  (exists r, parse O T validate false simple s = Ok r) <-> (exists r, parse O T' validate false simple s = Ok r).
Proof.
  intro H. pose proof (parse_flag_free T T' validate simple s H) as E.
  split; intros [r Hr]; rewrite Hr in E; cbn [eout] in E.
  - destruct (parse O T' validate false simple s) as [r'| | | | |]; cbn [eout] in E; try discriminate. exists r'. reflexivity.
  - destruct (parse O T validate false simple s) as [r'| | | | |]; cbn [eout] in E; try discriminate. exists r'. reflexivity.
Qed.

End Tables.
