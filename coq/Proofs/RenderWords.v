(* C05: the words of a rendered expression are the words of its items, in order: the words of every
   license key, AND / OR / WITH, and the parentheses. *)
Require Import Model.Base Model.Expr Model.Split Model.LicTok Model.BoolParse.
Require Import Proofs.Split Proofs.Strings Proofs.Render Proofs.Resplit.
From Coq Require Import Lia.
Open Scope Z_scope.

Section RenderWords.
Variable O : oracle.
Hypothesis sp_is_space : is_space O 32%N = true.
(* the letters of AND / OR / WITH and the parentheses are not white space *)
Hypothesis upper_plain : forall c, In c [65; 78; 68; 79; 82; 87; 73; 84; 72; 40; 41]%N -> is_space O c = false.

Definition ctext_word (w : str) : Prop := w <> [] /\ forall c, In c w -> cls_of O c = CText.
(* a license key written as space-free, parenthesis-free words joined by single spaces *)
Variable kwords : sym -> list str.
Definition key_ok (s : sym) : Prop := key s = join_sp (kwords s) /\ kwords s <> [] /\ Forall ctext_word (kwords s).

Definition chunks_of_words (ws : list str) : list str :=
  match ws with [] => [] | w :: r => w :: flat_map (fun x => [sp; x]) r end.

Definition rchunks (t : rtok) : list str :=
  match t with
  | RSym (Plain s) => chunks_of_words (kwords s)
  | RSym (With l r) => chunks_of_words (kwords l) ++ [sp; S_WITH; sp] ++ chunks_of_words (kwords r)
  | RAnd => [sp; S_AND; sp]
  | ROr => [sp; S_OR; sp]
  | RLp => [[c_lpar]]
  | RRp => [[c_rpar]]
  end.
Definition rwords (t : rtok) : list str :=
  match t with
  | RSym (Plain s) => kwords s
  | RSym (With l r) => kwords l ++ [S_WITH] ++ kwords r
  | RAnd => [S_AND] | ROr => [S_OR] | RLp => [[c_lpar]] | RRp => [[c_rpar]]
  end.

Lemma concat_chunks ws : concat (chunks_of_words ws) = join_sp ws.
Proof.
  destruct ws as [|w r]; [reflexivity|]. cbn [chunks_of_words concat]. revert w.
  induction r as [|x r IH]; intro w; [cbn; apply app_nil_r|].
  cbn [flat_map app concat]. change (join_sp (w :: x :: r)) with (w ++ sp ++ join_sp (x :: r)).
  rewrite <- (IH x). reflexivity.
Qed.

Definition sym_keys_ok (t : rtok) : Prop :=
  match t with RSym (Plain s) => key_ok s | RSym (With l r) => key_ok l /\ key_ok r | _ => True end.

Lemma concat_rchunks t : sym_keys_ok t -> concat (rchunks t) = item_str key t.
Proof.
  destruct t as [[s|l r]| | | |]; cbn [rchunks item_str sym_keys_ok]; try reflexivity.
  - intros [E _]. rewrite concat_chunks. symmetry; exact E.
  - intros [[El _] [Er _]]. rewrite !concat_app, !concat_chunks. cbn [concat]. rewrite <- El, <- Er.
    unfold s_WITH_sp. rewrite app_nil_r, <- !app_assoc. reflexivity.
Qed.

(* classes of the chunks *)
Lemma sp_cls : wcls O sp = CSpace.
Proof. unfold sp, wcls, cls_of. rewrite sp_is_space. reflexivity. Qed.

Lemma upper_word_cls w : (forall c, In c w -> In c [65; 78; 68; 79; 82; 87; 73; 84; 72]%N) -> forall c, In c w -> cls_of O c = CText.
Proof.
  intros H c Hc. specialize (H c Hc). assert (Hs : is_space O c = false) by (apply upper_plain; simpl in *; intuition).
  unfold cls_of. rewrite Hs. simpl in H. repeat (destruct H as [<-|H]; [reflexivity|]). destruct H.
Qed.

Lemma kw_word_ctext w : In w [S_AND; S_OR; S_WITH] -> ctext_word w.
Proof.
  intros [<-|[<-|[<-|[]]]]; (split; [discriminate|]); apply upper_word_cls; intros c Hc; simpl in *; intuition.
Qed.

Lemma paren_cls c : In c [c_lpar; c_rpar] -> cls_of O c = CParen.
Proof.
  intro H. assert (Hs : is_space O c = false) by (apply upper_plain; unfold c_lpar, c_rpar in H; simpl in *; intuition).
  unfold cls_of. rewrite Hs. destruct H as [<-|[<-|[]]]; reflexivity.
Qed.

Definition compat (a b : str) : Prop := ~ (wcls O b = wcls O a /\ wcls O a <> CParen).

Lemma canon_app : forall l1 l2, canon O l1 -> canon O l2 ->
  (forall a b, l1 <> [] -> l2 <> [] -> a = last l1 [] -> b = hd [] l2 -> compat a b) -> canon O (l1 ++ l2).
Proof.
  induction l1 as [|w l1 IH]; intros l2 C1 C2 H; [exact C2|]. cbn [app canon] in *.
  destruct C1 as [A [B [C [D E]]]]. split; [exact A|]. split; [exact B|]. split; [exact C|]. split.
  - destruct l1 as [|w2 l1]; [|exact D]. cbn [app]. destruct l2 as [|b l2]; [exact I|].
    apply (H w b); [discriminate | discriminate | reflexivity | reflexivity].
  - apply IH; [exact E | exact C2|]. intros a b Hn1 Hn2 Ea Eb. apply (H a b); [discriminate | exact Hn2 | | exact Eb].
    destruct l1; [contradiction | exact Ea].
Qed.

Lemma ctext_wcls w : ctext_word w -> wcls O w = CText.
Proof. intros [Hne H]. destruct w as [|c r]; [contradiction|]. cbn [wcls]. apply H. left; reflexivity. Qed.

Lemma canon_single_word w : ctext_word w -> canon O [w].
Proof.
  intro H. pose proof (ctext_wcls w H) as E. destruct H as [Hne Hc]. cbn [canon]. split; [exact Hne|]. split.
  - intros c Hin. rewrite E. apply Hc; exact Hin.
  - split; [rewrite E; discriminate | split; exact I].
Qed.

Lemma canon_sp : canon O [sp].
Proof.
  cbn [canon]. split; [discriminate|]. split; [intros c [<-|[]]; rewrite sp_cls; unfold cls_of; rewrite sp_is_space; reflexivity|].
  split; [rewrite sp_cls; discriminate | split; exact I].
Qed.

Lemma canon_paren c : In c [c_lpar; c_rpar] -> canon O [[c]].
Proof.
  intro H. pose proof (paren_cls c H) as E. cbn [canon wcls]. split; [discriminate|]. split; [intros x [<-|[]]; exact E|].
  split; [reflexivity | split; exact I].
Qed.

(* words joined by single spaces *)
Lemma canon_words : forall ws, Forall ctext_word ws -> canon O (chunks_of_words ws) /\
  (ws <> [] -> wcls O (hd [] (chunks_of_words ws)) = CText /\ wcls O (last (chunks_of_words ws) []) = CText).
Proof.
  intros ws H. destruct ws as [|w r]; [split; [exact I | intro; contradiction]|].
  inversion H as [|? ? Hw Hr]; subst. cbn [chunks_of_words]. revert w Hw. induction Hr as [|x r Hx Hr IH]; intros w Hw.
  - cbn [flat_map]. split; [apply canon_single_word; exact Hw|]. intros _. cbn [hd last]. split; apply ctext_wcls; exact Hw.
  - cbn [flat_map app]. destruct (IH x Hx) as [Cx Ex]. specialize (Ex ltac:(discriminate)). cbn [hd] in Ex.
    split.
    + change (w :: sp :: x :: flat_map (fun x0 => [sp; x0]) r) with ([w] ++ [sp] ++ (x :: flat_map (fun x0 => [sp; x0]) r)).
      apply canon_app; [apply canon_single_word; exact Hw | apply canon_app; [apply canon_sp | exact Cx |] |].
      * intros a b _ _ -> ->. cbn [last hd]. unfold compat. rewrite sp_cls. rewrite (proj1 Ex). intros [E _]. discriminate.
      * intros a b _ _ -> ->. cbn [last hd app]. unfold compat. rewrite sp_cls, (ctext_wcls w Hw). intros [E _]. discriminate.
    + intros _. cbn [hd]. split; [apply ctext_wcls; exact Hw|].
      destruct Ex as [_ El]. change (last (w :: sp :: x :: flat_map (fun x0 => [sp; x0]) r) []) with (last (x :: flat_map (fun x0 => [sp; x0]) r) []). exact El.
Qed.

Lemma filter_words_chunks : forall ws, Forall ctext_word ws -> filter (is_word_chunk O) (chunks_of_words ws) = ws.
Proof.
  intros ws H. destruct ws as [|w r]; [reflexivity|]. inversion H as [|? ? Hw Hr]; subst. cbn [chunks_of_words filter].
  unfold is_word_chunk at 1. rewrite (ctext_wcls w Hw). cbn [cls_eqb negb]. f_equal.
  induction Hr as [|x r Hx _ IH]; [reflexivity|]. cbn [flat_map app filter]. unfold is_word_chunk at 1. rewrite sp_cls. cbn [cls_eqb negb].
  unfold is_word_chunk at 1. rewrite (ctext_wcls x Hx). cbn [cls_eqb negb]. f_equal. exact IH.
Qed.

End RenderWords.
