(* C05: the words of a rendered expression are the words of its items, in order: the words of every
   license key, AND / OR / WITH, and the parentheses. *)
Require Import Model.Base Model.Expr Model.Split Model.LicTok Model.BoolParse.
Require Import Proofs.Split Proofs.Strings Proofs.Render Proofs.Resplit.
From Coq Require Import Lia.
Open Scope Z_scope.

Section RenderWords.
Variable O : oracle.
Hypothesis sp_is_space : is_space O 32%N = true.
(* the letters of AND / OR / WITH and the parentheses are not white space *)
Hypothesis upper_plain : forall c, In c [65; 78; 68; 79; 82; 87; 73; 84; 72; 40; 41]%N -> is_space O c = false.

Definition ctext_word (w : str) : Prop := w <> [] /\ forall c, In c w -> cls_of O c = CText.
(* a license key written as space-free, parenthesis-free words joined by single spaces *)
Variable kwords : sym -> list str.
Definition key_ok (s : sym) : Prop := key s = join_sp (kwords s) /\ kwords s <> [] /\ Forall ctext_word (kwords s).

Definition chunks_of_words (ws : list str) : list str :=
  match ws with [] => [] | w :: r => w :: flat_map (fun x => [sp; x]) r end.

Definition rchunks (t : rtok) : list str :=
  match t with
  | RSym (Plain s) => chunks_of_words (kwords s)
  | RSym (With l r) => chunks_of_words (kwords l) ++ [sp; S_WITH; sp] ++ chunks_of_words (kwords r)
  | RAnd => [sp; S_AND; sp]
  | ROr => [sp; S_OR; sp]
  | RLp => [[c_lpar]]
  | RRp => [[c_rpar]]
  end.
Definition rwords (t : rtok) : list str :=
  match t with
  | RSym (Plain s) => kwords s
  | RSym (With l r) => kwords l ++ [S_WITH] ++ kwords r
  | RAnd => [S_AND] | ROr => [S_OR] | RLp => [[c_lpar]] | RRp => [[c_rpar]]
  end.

Lemma concat_chunks ws : concat (chunks_of_words ws) = join_sp ws.
Proof.
  destruct ws as [|w r]; [reflexivity|]. cbn [chunks_of_words concat]. revert w.
  induction r as [|x r IH]; intro w; [cbn; apply app_nil_r|].
  cbn [flat_map app concat]. change (join_sp (w :: x :: r)) with (w ++ sp ++ join_sp (x :: r)).
  rewrite <- (IH x). reflexivity.
Qed.

Definition sym_keys_ok (t : rtok) : Prop :=
  match t with RSym (Plain s) => key_ok s | RSym (With l r) => key_ok l /\ key_ok r | _ => True end.

Lemma concat_rchunks t : sym_keys_ok t -> concat (rchunks t) = item_str key t.
Proof.
  destruct t as [[s|l r]| | | |]; cbn [rchunks item_str sym_keys_ok]; try reflexivity.
  - intros [E _]. rewrite concat_chunks. symmetry; exact E.
  - intros [[El _] [Er _]]. rewrite !concat_app, !concat_chunks. cbn [concat]. rewrite <- El, <- Er.
    unfold s_WITH_sp. rewrite app_nil_r, <- !app_assoc. reflexivity.
Qed.

(* classes of the chunks *)
Lemma sp_cls : wcls O sp = CSpace.
Proof. unfold sp, wcls, cls_of. rewrite sp_is_space. reflexivity. Qed.

Lemma upper_word_cls w : (forall c, In c w -> In c [65; 78; 68; 79; 82; 87; 73; 84; 72]%N) -> forall c, In c w -> cls_of O c = CText.
Proof.
  intros H c Hc. specialize (H c Hc). assert (Hs : is_space O c = false) by (apply upper_plain; simpl in *; intuition).
  unfold cls_of. rewrite Hs. simpl in H. repeat (destruct H as [<-|H]; [reflexivity|]). destruct H.
Qed.

Lemma kw_word_ctext w : In w [S_AND; S_OR; S_WITH] -> ctext_word w.
Proof.
  intros [<-|[<-|[<-|[]]]]; (split; [discriminate|]); apply upper_word_cls; intros c Hc; simpl in *; intuition.
Qed.

Lemma paren_cls c : In c [c_lpar; c_rpar] -> cls_of O c = CParen.
Proof.
  intro H. assert (Hs : is_space O c = false) by (apply upper_plain; unfold c_lpar, c_rpar in H; simpl in *; intuition).
  unfold cls_of. rewrite Hs. destruct H as [<-|[<-|[]]]; reflexivity.
Qed.

Definition compat (a b : str) : Prop := ~ (wcls O b = wcls O a /\ wcls O a <> CParen).

Lemma canon_app : forall l1 l2, canon O l1 -> canon O l2 ->
  (forall a b, l1 <> [] -> l2 <> [] -> a = last l1 [] -> b = hd [] l2 -> compat a b) -> canon O (l1 ++ l2).
Proof.
  induction l1 as [|w l1 IH]; intros l2 C1 C2 H; [exact C2|]. cbn [app canon] in *.
  destruct C1 as [A [B [C [D E]]]]. split; [exact A|]. split; [exact B|]. split; [exact C|]. split.
  - destruct l1 as [|w2 l1]; [|exact D]. cbn [app]. destruct l2 as [|b l2]; [exact I|].
    apply (H w b); [discriminate | discriminate | reflexivity | reflexivity].
  - apply IH; [exact E | exact C2|]. intros a b Hn1 Hn2 Ea Eb. apply (H a b); [discriminate | exact Hn2 | | exact Eb].
    destruct l1; [contradiction | exact Ea].
Qed.

Lemma ctext_wcls w : ctext_word w -> wcls O w = CText.
Proof. intros [Hne H]. destruct w as [|c r]; [contradiction|]. cbn [wcls]. apply H. left; reflexivity. Qed.

Lemma canon_single_word w : ctext_word w -> canon O [w].
Proof.
  intro H. pose proof (ctext_wcls w H) as E. destruct H as [Hne Hc]. cbn [canon]. split; [exact Hne|]. split.
  - intros c Hin. rewrite E. apply Hc; exact Hin.
  - split; [rewrite E; discriminate | split; exact I].
Qed.

Lemma canon_sp : canon O [sp].
Proof.
  cbn [canon]. split; [discriminate|]. split; [intros c [<-|[]]; rewrite sp_cls; unfold cls_of; rewrite sp_is_space; reflexivity|].
  split; [rewrite sp_cls; discriminate | split; exact I].
Qed.

Lemma canon_paren c : In c [c_lpar; c_rpar] -> canon O [[c]].
Proof.
  intro H. pose proof (paren_cls c H) as E. cbn [canon wcls]. split; [discriminate|]. split; [intros x [<-|[]]; reflexivity|].
  split; [reflexivity | split; exact I].
Qed.

(* words joined by single spaces *)
Lemma canon_words_ne : forall r w, ctext_word w -> Forall ctext_word r ->
  canon O (w :: flat_map (fun x => [sp; x]) r) /\ wcls O (last (w :: flat_map (fun x => [sp; x]) r) []) = CText.
Proof.
  induction r as [|x r IH]; intros w Hw Hr.
  - cbn [flat_map]. split; [apply canon_single_word; exact Hw | cbn [last]; apply ctext_wcls; exact Hw].
  - inversion Hr as [|? ? Hx Hr']; subst. cbn [flat_map app]. destruct (IH x Hx Hr') as [Cx El]. split.
    + change (w :: sp :: x :: flat_map (fun x0 => [sp; x0]) r) with ([w] ++ [sp] ++ (x :: flat_map (fun x0 => [sp; x0]) r)).
      apply canon_app; [apply canon_single_word; exact Hw | apply canon_app; [apply canon_sp | exact Cx |] |].
      * intros a b _ _ -> ->. cbn [last hd]. unfold compat. rewrite sp_cls. rewrite (ctext_wcls x Hx). intros [E _]. discriminate.
      * intros a b _ _ -> ->. cbn [last hd app]. unfold compat. rewrite sp_cls, (ctext_wcls w Hw). intros [E _]. discriminate.
    + change (last (w :: sp :: x :: flat_map (fun x0 => [sp; x0]) r) []) with (last (x :: flat_map (fun x0 => [sp; x0]) r) []). exact El.
Qed.

Lemma canon_words : forall ws, Forall ctext_word ws -> canon O (chunks_of_words ws) /\
  (ws <> [] -> wcls O (hd [] (chunks_of_words ws)) = CText /\ wcls O (last (chunks_of_words ws) []) = CText).
Proof.
  intros ws H. destruct ws as [|w r]; [split; [exact I | intro; contradiction]|].
  inversion H as [|? ? Hw Hr]; subst. cbn [chunks_of_words]. destruct (canon_words_ne r w Hw Hr) as [C L].
  split; [exact C|]. intros _. split; [cbn [hd]; apply ctext_wcls; exact Hw | exact L].
Qed.

Lemma filter_words_tail : forall r, Forall ctext_word r -> filter (is_word_chunk O) (flat_map (fun x => [sp; x]) r) = r.
Proof.
  induction 1 as [|x r Hx _ IH]; [reflexivity|]. cbn [flat_map app filter]. unfold is_word_chunk at 1. rewrite sp_cls. cbn [cls_eqb negb].
  unfold is_word_chunk at 1. rewrite (ctext_wcls x Hx). cbn [cls_eqb negb]. f_equal. exact IH.
Qed.

Lemma filter_words_chunks : forall ws, Forall ctext_word ws -> filter (is_word_chunk O) (chunks_of_words ws) = ws.
Proof.
  intros ws H. destruct ws as [|w r]; [reflexivity|]. inversion H as [|? ? Hw Hr]; subst. cbn [chunks_of_words filter].
  unfold is_word_chunk at 1. rewrite (ctext_wcls w Hw). cbn [cls_eqb negb]. f_equal. apply filter_words_tail; exact Hr.
Qed.


(* one item *)
Definition fcls (t : rtok) : cls :=
  match t with RSym _ => CText | RAnd | ROr => CSpace | RLp | RRp => CParen end.

Lemma op_chunks_canon w : In w [S_AND; S_OR; S_WITH] -> canon O [sp; w; sp].
Proof.
  intro H. pose proof (kw_word_ctext w H) as Hw.
  change [sp; w; sp] with ([sp] ++ [w] ++ [sp]). apply canon_app; [apply canon_sp | apply canon_app; [apply canon_single_word; exact Hw | apply canon_sp |] |].
  - intros a b _ _ -> ->. cbn [last hd]. unfold compat. rewrite sp_cls, (ctext_wcls w Hw). intros [E _]. discriminate.
  - intros a b _ _ -> ->. cbn [last hd app]. unfold compat. rewrite sp_cls, (ctext_wcls w Hw). intros [E _]. discriminate.
Qed.

Lemma last_app_ne {A} (l1 l2 : list A) d : l2 <> [] -> last (l1 ++ l2) d = last l2 d.
Proof.
  intro H. induction l1 as [|a l1 IH]; [reflexivity|]. cbn [app]. destruct (l1 ++ l2) as [|a0 l] eqn:E; [apply app_eq_nil in E as [_ E]; contradiction|].
  cbn [last] in *. exact IH.
Qed.

Lemma hd_app_ne' {A} (l1 l2 : list A) d : l1 <> [] -> hd d (l1 ++ l2) = hd d l1.
Proof. destruct l1; [contradiction | reflexivity]. Qed.

Lemma chunks_nonempty ws : ws <> [] -> chunks_of_words ws <> [].
Proof. destruct ws; [contradiction | discriminate]. Qed.

Lemma rchunks_canon t : sym_keys_ok t ->
  canon O (rchunks t) /\ rchunks t <> [] /\ wcls O (hd [] (rchunks t)) = fcls t /\ wcls O (last (rchunks t) []) = fcls t.
Proof.
  destruct t as [[s|l r]| | | |]; cbn [rchunks sym_keys_ok fcls].
  - intros [_ [Hne Hw]]. destruct (canon_words _ Hw) as [C E]. destruct (E Hne) as [E1 E2].
    split; [exact C|]. split; [apply chunks_nonempty; exact Hne|]. split; assumption.
  - intros [[_ [Hnl Hwl]] [_ [Hnr Hwr]]].
    destruct (canon_words _ Hwl) as [Cl El]. destruct (El Hnl) as [El1 El2].
    destruct (canon_words _ Hwr) as [Cr Er]. destruct (Er Hnr) as [Er1 Er2].
    pose proof (chunks_nonempty _ Hnl) as Nl. pose proof (chunks_nonempty _ Hnr) as Nr.
    split; [|split; [|split]].
    + apply canon_app; [exact Cl | apply canon_app; [apply op_chunks_canon; right; right; left; reflexivity | exact Cr |] |].
      * intros a b _ _ -> ->. cbn [last]. unfold compat. rewrite sp_cls, Er1. intros [E _]. discriminate.
      * intros a b _ _ -> ->. cbn [hd app]. unfold compat. rewrite sp_cls, El2. intros [E _]. discriminate.
    + intro E. apply app_eq_nil in E as [E _]. contradiction.
    + rewrite hd_app_ne' by exact Nl. exact El1.
    + rewrite last_app_ne by (intro E; apply app_eq_nil in E as [E _]; discriminate). rewrite last_app_ne by exact Nr. exact Er2.
  - intros _. split; [apply op_chunks_canon; left; reflexivity|]. split; [discriminate|]. cbn [hd last]. split; apply sp_cls.
  - intros _. split; [apply op_chunks_canon; right; left; reflexivity|]. split; [discriminate|]. cbn [hd last]. split; apply sp_cls.
  - intros _. split; [apply canon_paren; left; reflexivity|]. split; [discriminate|]. cbn [hd last wcls]. split; apply paren_cls; left; reflexivity.
  - intros _. split; [apply canon_paren; right; left; reflexivity|]. split; [discriminate|]. cbn [hd last wcls]. split; apply paren_cls; right; left; reflexivity.
Qed.

Lemma rchunks_words t : sym_keys_ok t -> filter (is_word_chunk O) (rchunks t) = rwords t.
Proof.
  assert (Hsp : is_word_chunk O sp = false) by (unfold is_word_chunk; rewrite sp_cls; reflexivity).
  assert (Hkw : forall w, In w [S_AND; S_OR; S_WITH] -> is_word_chunk O w = true).
  { intros w H. unfold is_word_chunk. rewrite (ctext_wcls w (kw_word_ctext w H)). reflexivity. }
  assert (Hp : forall c, In c [c_lpar; c_rpar] -> is_word_chunk O [c] = true).
  { intros c H. unfold is_word_chunk. cbn [wcls]. rewrite (paren_cls c H). reflexivity. }
  destruct t as [[s|l r]| | | |]; cbn [rchunks sym_keys_ok rwords].
  - intros [_ [_ Hw]]. apply filter_words_chunks; exact Hw.
  - intros [[_ [_ Hwl]] [_ [_ Hwr]]]. rewrite !filter_app. rewrite (filter_words_chunks _ Hwl), (filter_words_chunks _ Hwr).
    cbn [filter]. rewrite Hsp, (Hkw S_WITH) by (right; right; left; reflexivity). reflexivity.
  - intros _. cbn [filter]. rewrite Hsp, (Hkw S_AND) by (left; reflexivity). reflexivity.
  - intros _. cbn [filter]. rewrite Hsp, (Hkw S_OR) by (right; left; reflexivity). reflexivity.
  - intros _. cbn [filter]. rewrite (Hp c_lpar) by (left; reflexivity). reflexivity.
  - intros _. cbn [filter]. rewrite (Hp c_rpar) by (right; left; reflexivity). reflexivity.
Qed.

(* a list of items: no two licenses and no two operators next to each other *)
Definition okpair (a b : rtok) : Prop := ~ (fcls a = fcls b /\ fcls a <> CParen).
Fixpoint adjok (l : list rtok) : Prop :=
  match l with a :: ((b :: _) as r) => okpair a b /\ adjok r | _ => True end.

Lemma canon_items : forall items, Forall sym_keys_ok items -> adjok items -> canon O (flat_map rchunks items).
Proof.
  induction items as [|t items IH]; intros Hk Ha; [exact I|]. inversion Hk as [|? ? Ht Hks]; subst. cbn [flat_map].
  destruct (rchunks_canon t Ht) as [Ct [Nt [_ Lt]]].
  assert (Ha' : adjok items) by (destruct items; [exact I | destruct Ha as [_ H]; exact H]).
  apply canon_app; [exact Ct | apply IH; assumption|].
  intros a b _ Hne -> ->. destruct items as [|t2 items2]; [contradiction|]. inversion Hks as [|? ? Ht2 _]; subst.
  destruct (rchunks_canon t2 Ht2) as [_ [Nt2 [Ft2 _]]]. cbn [flat_map]. rewrite hd_app_ne' by exact Nt2.
  destruct Ha as [Hp _]. unfold compat. rewrite Lt, Ft2. intros [E1 E2]. apply Hp. split; [symmetry; exact E1 | exact E2].
Qed.

Lemma concat_items : forall items, Forall sym_keys_ok items -> concat (flat_map rchunks items) = flat_map (item_str key) items.
Proof.
  induction items as [|t items IH]; intro H; [reflexivity|]. inversion H as [|? ? Ht Hs]; subst. cbn [flat_map].
  rewrite concat_app, (concat_rchunks t Ht), (IH Hs). reflexivity.
Qed.

Lemma words_items : forall items, Forall sym_keys_ok items -> filter (is_word_chunk O) (flat_map rchunks items) = flat_map rwords items.
Proof.
  induction items as [|t items IH]; intro H; [reflexivity|]. inversion H as [|? ? Ht Hs]; subst. cbn [flat_map].
  rewrite filter_app, (rchunks_words t Ht), (IH Hs). reflexivity.
Qed.

(* the words of a text made of items *)
Theorem items_words items : Forall sym_keys_ok items -> adjok items ->
  words O (flat_map (item_str key) items) = flat_map rwords items.
Proof.
  intros Hk Ha. rewrite <- (concat_items items Hk). rewrite (words_chunks O _ (canon_items items Hk Ha)). apply words_items; exact Hk.
Qed.


(* ---- the items of a rendered expression ---- *)
Lemma adjok_app : forall l1 l2, adjok l1 -> adjok l2 -> (l1 <> [] -> l2 <> [] -> okpair (last l1 RLp) (hd RLp l2)) -> adjok (l1 ++ l2).
Proof.
  induction l1 as [|a l1 IH]; intros l2 A1 A2 H; [exact A2|]. cbn [app].
  destruct l1 as [|b l1].
  - cbn [app]. destruct l2 as [|c l2]; [exact I|]. split; [apply (H ltac:(discriminate) ltac:(discriminate)) | exact A2].
  - destruct A1 as [P A1]. cbn [app]. split; [exact P|]. apply (IH l2 A1 A2). intros _ Hn. apply H; [discriminate | exact Hn].
Qed.

Definition nonspace_ends (l : list rtok) : Prop := l <> [] /\ fcls (hd RLp l) <> CSpace /\ fcls (last l RLp) <> CSpace.

Lemma okpair_par_l b : okpair RLp b. Proof. unfold okpair. cbn. intros [_ H]. apply H. reflexivity. Qed.
Lemma okpair_par_r a : okpair a RRp. Proof. unfold okpair. cbn. intros [E H]. apply H. exact E. Qed.

Lemma wrap_shape l : nonspace_ends l -> adjok l -> nonspace_ends (RLp :: l ++ [RRp]) /\ adjok (RLp :: l ++ [RRp]).
Proof.
  intros [Hne _] Ha. split.
  - split; [discriminate|]. split; [cbn; discriminate|]. change (RLp :: l ++ [RRp]) with ((RLp :: l) ++ [RRp]).
    rewrite last_app_ne by discriminate. cbn. discriminate.
  - change (RLp :: l ++ [RRp]) with ([RLp] ++ (l ++ [RRp])). apply adjok_app; [exact I | apply adjok_app; [exact Ha | exact I | intros _ _; apply okpair_par_r] |].
    intros _ _. apply okpair_par_l.
Qed.

Lemma intersperse_shape sep parts : fcls sep = CSpace -> parts <> [] ->
  Forall (fun p => nonspace_ends p /\ adjok p) parts ->
  nonspace_ends (intersperse sep parts) /\ adjok (intersperse sep parts).
Proof.
  intros Hs Hne H. induction H as [|p parts [Np Ap] Hr IH]; [contradiction|]. destruct parts as [|q parts].
  - cbn [intersperse]. split; assumption.
  - specialize (IH ltac:(discriminate)). destruct IH as [[Nq [Fq Lq]] Aq]. destruct Np as [Npne [Fp Lp]].
    change (intersperse sep (p :: q :: parts)) with (p ++ sep :: intersperse sep (q :: parts)). split.
    + split; [intro E; apply app_eq_nil in E as [E _]; contradiction|]. split.
      * rewrite hd_app_ne' by exact Npne. exact Fp.
      * rewrite last_app_ne by discriminate.
        change (last (sep :: intersperse sep (q :: parts)) RLp) with (last (intersperse sep (q :: parts)) RLp) || idtac.
        destruct (intersperse sep (q :: parts)) as [|x l] eqn:E; [contradiction|]. exact Lq.
    + apply adjok_app; [exact Ap | |].
      * destruct (intersperse sep (q :: parts)) as [|x l] eqn:E; [contradiction|]. split; [|exact Aq].
        unfold okpair. rewrite Hs. intros [E1 _]. cbn [hd] in Fq. apply Fq. symmetry. exact E1.
      * intros _ _. cbn [hd]. unfold okpair. rewrite Hs. intros [E1 _]. apply Lp. exact E1.
Qed.

Lemma render_items_shape wrap : forall e, wf e = true -> nonspace_ends (render_items wrap e) /\ adjok (render_items wrap e).
Proof.
  assert (Part : forall x, (wf x = true -> nonspace_ends (render_items wrap x) /\ adjok (render_items wrap x)) -> wf x = true ->
            nonspace_ends (if is_lit x then render_items wrap x else RLp :: render_items wrap x ++ [RRp]) /\
            adjok (if is_lit x then render_items wrap x else RLp :: render_items wrap x ++ [RRp])).
  { intros x IH W. destruct (IH W) as [N A]. destruct (is_lit x); [split; assumption | apply wrap_shape; assumption]. }
  induction e as [a|xs IH|xs IH] using expr_ind'; intro W.
  - cbn [render_items]. destruct a as [s|l r]; cbn [atom_items].
    + split; [split; [discriminate | split; cbn; discriminate] | exact I].
    + destruct wrap.
      * split; [split; [discriminate | split; cbn; discriminate]|]. cbn [adjok]. split; [apply okpair_par_l | split; [apply okpair_par_r | exact I]].
      * split; [split; [discriminate | split; cbn; discriminate] | exact I].
  - cbn [render_items]. cbn [wf] in W. apply andb_true_iff in W as [Wl Wx]. apply Nat.leb_le in Wl. rewrite forallb_forall in Wx.
    apply intersperse_shape; [reflexivity | destruct xs; [cbn in Wl; lia | discriminate]|].
    apply Forall_forall. intros p Hp. apply in_map_iff in Hp as [x [<- Hx]]. rewrite Forall_forall in IH. apply Part; [apply IH; exact Hx | apply Wx; exact Hx].
  - cbn [render_items]. cbn [wf] in W. apply andb_true_iff in W as [Wl Wx]. apply Nat.leb_le in Wl. rewrite forallb_forall in Wx.
    apply intersperse_shape; [reflexivity | destruct xs; [cbn in Wl; lia | discriminate]|].
    apply Forall_forall. intros p Hp. apply in_map_iff in Hp as [x [<- Hx]]. rewrite Forall_forall in IH. apply Part; [apply IH; exact Hx | apply Wx; exact Hx].
Qed.

(* the license items of a rendering are the literals of the expression *)
Lemma render_items_syms wrap : forall e a, In (RSym a) (render_items wrap e) -> In a (literals e).
Proof.
  assert (Inter : forall sep parts t, In t (intersperse sep parts) -> t = sep \/ exists p, In p parts /\ In t p).
  { intros sep. induction parts as [|p parts IHp]; intros t Ht; [destruct Ht|]. destruct parts as [|q parts].
    - right. exists p. split; [left; reflexivity | exact Ht].
    - change (intersperse sep (p :: q :: parts)) with (p ++ sep :: intersperse sep (q :: parts)) in Ht.
      apply in_app_or in Ht as [Ht|[Ht|Ht]]; [right; exists p; split; [left; reflexivity | exact Ht] | left; symmetry; exact Ht|].
      destruct (IHp t Ht) as [E|[p' [Hp' Ht']]]; [left; exact E | right; exists p'; split; [right; exact Hp' | exact Ht']]. }
  induction e as [a0|xs IH|xs IH] using expr_ind'; intros a Ha.
  - cbn [render_items literals] in *. destruct a0 as [s|l r]; cbn [atom_items] in Ha.
    + destruct Ha as [E|[]]. inversion E. left; reflexivity.
    + destruct wrap; cbn in Ha; [destruct Ha as [E|[E|[E|[]]]] | destruct Ha as [E|[]]]; try discriminate; inversion E; left; reflexivity.
  - cbn [render_items literals] in *. destruct (Inter _ _ _ Ha) as [E|[p [Hp Ht]]]; [discriminate|].
    apply in_map_iff in Hp as [x [<- Hx]]. apply in_flat_map. exists x. split; [exact Hx|]. rewrite Forall_forall in IH. apply (IH x Hx).
    destruct (is_lit x); [exact Ht|]. destruct Ht as [E|Ht]; [discriminate|]. apply in_app_or in Ht as [Ht|[E|[]]]; [exact Ht | discriminate].
  - cbn [render_items literals] in *. destruct (Inter _ _ _ Ha) as [E|[p [Hp Ht]]]; [discriminate|].
    apply in_map_iff in Hp as [x [<- Hx]]. apply in_flat_map. exists x. split; [exact Hx|]. rewrite Forall_forall in IH. apply (IH x Hx).
    destruct (is_lit x); [exact Ht|]. destruct Ht as [E|Ht]; [discriminate|]. apply in_app_or in Ht as [Ht|[E|[]]]; [exact Ht | discriminate].
Qed.

Definition expr_keys_ok (e : expr) : Prop := forall a, In a (literals e) -> forall s, In s (decompose a) -> key_ok s.

(* C05: the words of the rendering are the words of its items *)
Theorem render_words wrap e : wf e = true -> expr_keys_ok e ->
  words O (render_with key wrap e) = flat_map rwords (render_items wrap e).
Proof.
  intros W K. rewrite render_is_items. destruct (render_items_shape wrap e W) as [_ A]. apply items_words; [|exact A].
  apply Forall_forall. intros t Ht. destruct t as [[s|l r]| | | |]; cbn [sym_keys_ok]; try exact I.
  - apply (K (Plain s) (render_items_syms wrap e _ Ht)). left; reflexivity.
  - pose proof (render_items_syms wrap e _ Ht) as Hl. split; apply (K (With l r) Hl); [left; reflexivity | right; left; reflexivity].
Qed.

End RenderWords.
