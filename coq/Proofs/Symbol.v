(* C13: license symbols as values: equality, hashing, ordering. *)
Require Import Model.Base Model.Expr Model.Simplify.
From Coq Require Import Lia.

Lemma str_eqb_eq a : forall b, str_eqb a b = true <-> a = b.
Proof.
  induction a as [|x a IH]; destruct b as [|y b]; simpl; split; intro H; try reflexivity; try discriminate.
  - apply andb_true_iff in H as [H1 H2]. apply N.eqb_eq in H1. apply IH in H2. congruence.
  - inversion H; subst. rewrite N.eqb_refl. simpl. apply IH. reflexivity.
Qed.

Lemma str_eqb_refl a : str_eqb a a = true.
Proof. apply str_eqb_eq. reflexivity. Qed.

Lemma str_eqb_neq a b : str_eqb a b = false <-> a <> b.
Proof.
  split; intro H.
  - intro E. apply str_eqb_eq in E. congruence.
  - destruct (str_eqb a b) eqn:E; [apply str_eqb_eq in E; contradiction | reflexivity].
Qed.

Lemma str_eqb_sym a b : str_eqb a b = str_eqb b a.
Proof.
  destruct (str_eqb a b) eqn:E.
  - apply str_eqb_eq in E. subst. symmetry. apply str_eqb_refl.
  - symmetry. apply str_eqb_neq. apply str_eqb_neq in E. congruence.
Qed.

Lemma str_ltb_irrefl a : str_ltb a a = false.
Proof. induction a as [|x a IH]; simpl; [reflexivity|]. rewrite N.ltb_irrefl, N.eqb_refl. exact IH. Qed.

Lemma str_ltb_asym a : forall b, str_ltb a b = true -> str_ltb b a = false.
Proof.
  induction a as [|x a IH]; destruct b as [|y b]; simpl; intro H; try reflexivity; try discriminate.
  destruct (N.ltb x y) eqn:L.
  - apply N.ltb_lt in L. assert (N.ltb y x = false) as -> by (apply N.ltb_ge; lia).
    assert (N.eqb y x = false) as -> by (apply N.eqb_neq; lia). reflexivity.
  - destruct (N.eqb x y) eqn:E; [|discriminate]. apply N.eqb_eq in E. subst y.
    rewrite N.ltb_irrefl, N.eqb_refl. apply IH. exact H.
Qed.

Lemma str_ltb_total a : forall b, a <> b -> str_ltb a b = true \/ str_ltb b a = true.
Proof.
  induction a as [|x a IH]; destruct b as [|y b]; simpl; intro H; try (left; reflexivity); try (right; reflexivity).
  - contradiction.
  - destruct (N.ltb x y) eqn:L; [left; reflexivity|].
    destruct (N.eqb x y) eqn:E.
    + apply N.eqb_eq in E. subst y. rewrite N.ltb_irrefl, N.eqb_refl.
      apply IH. intro; subst; contradiction.
    + right. apply N.ltb_ge in L. apply N.eqb_neq in E.
      assert (N.ltb y x = true) as -> by (apply N.ltb_lt; lia). reflexivity.
Qed.

Lemma str_ltb_trans a : forall b c, str_ltb a b = true -> str_ltb b c = true -> str_ltb a c = true.
Proof.
  induction a as [|x a IH]; destruct b as [|y b]; destruct c as [|z c]; simpl; intros H1 H2;
    try reflexivity; try discriminate.
  destruct (N.ltb x y) eqn:L1.
  - apply N.ltb_lt in L1. destruct (N.ltb y z) eqn:L2.
    + apply N.ltb_lt in L2. assert (N.ltb x z = true) as -> by (apply N.ltb_lt; lia). reflexivity.
    + destruct (N.eqb y z) eqn:E2; [|discriminate]. apply N.eqb_eq in E2. subst z.
      assert (N.ltb x y = true) as -> by (apply N.ltb_lt; lia). reflexivity.
  - destruct (N.eqb x y) eqn:E1; [|discriminate]. apply N.eqb_eq in E1. subst y.
    destruct (N.ltb x z) eqn:L2; [reflexivity|].
    destruct (N.eqb x z) eqn:E2; [|discriminate]. eapply IH; eassumption.
Qed.

Lemma sym_eqb_eq a b : sym_eqb a b = true <-> a = b.
Proof.
  destruct a as [ka ea], b as [kb eb]. unfold sym_eqb. simpl. split; intro H.
  - apply andb_true_iff in H as [H1 H2]. apply str_eqb_eq in H1. apply eqb_prop in H2. congruence.
  - inversion H; subst. rewrite str_eqb_refl, eqb_reflx. reflexivity.
Qed.

Lemma atom_eqb_eq a b : atom_eqb a b = true <-> a = b.
Proof.
  destruct a as [s|l r], b as [s'|l' r']; simpl; split; intro H; try discriminate.
  - apply sym_eqb_eq in H. congruence.
  - inversion H; subst. apply sym_eqb_eq. reflexivity.
  - apply andb_true_iff in H as [H1 H2]. apply sym_eqb_eq in H1, H2. congruence.
  - inversion H; subst. apply andb_true_iff. split; apply sym_eqb_eq; reflexivity.
Qed.

(* two plain symbols are equal exactly when key and flag are *)
Lemma sym_eq_fields a b : sym_eqb a b = true <-> key a = key b /\ exc a = exc b.
Proof.
  rewrite sym_eqb_eq. destruct a, b; simpl. split; [intro H; inversion H; auto | intros [-> ->]; reflexivity].
Qed.

Lemma with_eq_parts l r l' r' :
  atom_eqb (With l r) (With l' r') = true <-> sym_eqb l l' = true /\ sym_eqb r r' = true.
Proof. simpl. apply andb_true_iff. Qed.

Lemma plain_ne_with s l r : atom_eqb (Plain s) (With l r) = false /\ atom_eqb (With l r) (Plain s) = false.
Proof. split; reflexivity. Qed.

Lemma atom_eqb_refl a : atom_eqb a a = true.
Proof. apply atom_eqb_eq. reflexivity. Qed.
Lemma atom_eqb_sym a b : atom_eqb a b = atom_eqb b a.
Proof.
  destruct (atom_eqb a b) eqn:E.
  - apply atom_eqb_eq in E. subst. symmetry. apply atom_eqb_refl.
  - destruct (atom_eqb b a) eqn:E'; [|reflexivity]. apply atom_eqb_eq in E'. subst.
    rewrite atom_eqb_refl in E. discriminate.
Qed.
Lemma atom_eqb_trans a b c : atom_eqb a b = true -> atom_eqb b c = true -> atom_eqb a c = true.
Proof. rewrite !atom_eqb_eq. congruence. Qed.

(* equal symbols hash equally: the hashed tuples are equal *)
Lemma hash_consistent a b : atom_eqb a b = true -> atom_hash_input a = atom_hash_input b.
Proof. intro H. apply atom_eqb_eq in H. subst. reflexivity. Qed.

(* ---- ordering ---- *)
Lemma bool_ltb_irrefl b : bool_ltb b b = false. Proof. destruct b; reflexivity. Qed.
Lemma bool_ltb_asym a b : bool_ltb a b = true -> bool_ltb b a = false. Proof. destruct a, b; cbv; congruence. Qed.
Lemma bool_ltb_total a b : a <> b -> bool_ltb a b = true \/ bool_ltb b a = true.
Proof. destruct a, b; cbv; intro H; auto; contradiction. Qed.
Lemma bool_ltb_trans a b c : bool_ltb a b = true -> bool_ltb b c = true -> bool_ltb a c = true.
Proof. destruct a, b, c; cbv; congruence. Qed.
Lemma eqb_neq_false a b : Bool.eqb a b = false <-> a <> b.
Proof. destruct a, b; simpl; split; intro H; try congruence; try (exfalso; apply H; reflexivity). Qed.

(* for symbols with different renderings the order is the string order of the renderings *)
Lemma sort_key_str a : fst (fst (fst (fst (fst (sort_key a))))) = atom_str a.
Proof. destruct a; reflexivity. Qed.

Lemma lt_string_order a b :
  atom_str a <> atom_str b ->
  atom_ltb a b = str_ltb (atom_str a) (atom_str b) /\ atom_ltb a b = negb (atom_ltb b a).
Proof.
  intro H. unfold atom_ltb.
  pose proof (sort_key_str a) as Ha. pose proof (sort_key_str b) as Hb.
  destruct (sort_key a) as [[[[[s1 k1] a1] e1] b1] f1]. destruct (sort_key b) as [[[[[s2 k2] a2] e2] b2] f2].
  simpl in Ha, Hb. subst s1 s2.
  assert (E1 : str_eqb (atom_str a) (atom_str b) = false) by (apply str_eqb_neq; exact H).
  assert (E2 : str_eqb (atom_str b) (atom_str a) = false) by (apply str_eqb_neq; congruence).
  rewrite E1, E2. simpl. split; [reflexivity|].
  destruct (str_ltb_total _ _ H) as [L|L].
  - rewrite L, (str_ltb_asym _ _ L). reflexivity.
  - rewrite L, (str_ltb_asym _ _ L). reflexivity.
Qed.

(* sort_key is injective: different symbols have different keys *)
Lemma sort_key_inj a b : sort_key a = sort_key b -> a = b.
Proof.
  destruct a as [[k e]|[lk le] [rk re]], b as [[k' e']|[lk' le'] [rk' re']]; simpl; intro H; inversion H; subst; reflexivity.
Qed.

(* the tuple comparison is a strict total order on keys *)
Definition key6 := (str * bool * str * bool * str * bool)%type.
Definition key6_ltb (x y : key6) : bool :=
  let '(s1, k1, a1, e1, b1, f1) := x in
  let '(s2, k2, a2, e2, b2, f2) := y in
  if negb (str_eqb s1 s2) then str_ltb s1 s2
  else if negb (Bool.eqb k1 k2) then bool_ltb k1 k2
  else if negb (str_eqb a1 a2) then str_ltb a1 a2
  else if negb (Bool.eqb e1 e2) then bool_ltb e1 e2
  else if negb (str_eqb b1 b2) then str_ltb b1 b2
  else bool_ltb f1 f2.

Lemma atom_ltb_key a b : atom_ltb a b = key6_ltb (sort_key a) (sort_key b).
Proof. reflexivity. Qed.

Ltac keycases :=
  repeat match goal with
  | |- context [str_eqb ?x ?y] =>
      let E := fresh "E" in destruct (str_eqb x y) eqn:E;
      [apply str_eqb_eq in E; subst | apply str_eqb_neq in E]; simpl
  | |- context [Bool.eqb ?x ?y] =>
      let E := fresh "E" in destruct (Bool.eqb x y) eqn:E;
      [apply eqb_prop in E; subst | apply eqb_neq_false in E]; simpl
  end.

Lemma key6_ltb_irrefl x : key6_ltb x x = false.
Proof.
  destruct x as [[[[[s k] a] e] b] f]. unfold key6_ltb.
  rewrite !str_eqb_refl, !eqb_reflx. simpl. apply bool_ltb_irrefl.
Qed.

Lemma key6_ltb_asym x y : key6_ltb x y = true -> key6_ltb y x = false.
Proof.
  destruct x as [[[[[s k] a] e] b] f], y as [[[[[s' k'] a'] e'] b'] f']. unfold key6_ltb.
  destruct (str_eqb s s') eqn:E1; simpl.
  2:{ intro L. rewrite str_eqb_sym, E1. simpl. apply str_ltb_asym; exact L. }
  apply str_eqb_eq in E1. subst s'. rewrite str_eqb_refl. simpl.
  destruct (Bool.eqb k k') eqn:E2; simpl.
  2:{ intro L. assert (Bool.eqb k' k = false) as -> by (destruct k, k'; simpl in *; congruence). simpl.
      apply bool_ltb_asym; exact L. }
  apply eqb_prop in E2. subst k'. rewrite eqb_reflx. simpl.
  destruct (str_eqb a a') eqn:E3; simpl.
  2:{ intro L. rewrite str_eqb_sym, E3. simpl. apply str_ltb_asym; exact L. }
  apply str_eqb_eq in E3. subst a'. rewrite str_eqb_refl. simpl.
  destruct (Bool.eqb e e') eqn:E4; simpl.
  2:{ intro L. assert (Bool.eqb e' e = false) as -> by (destruct e, e'; simpl in *; congruence). simpl.
      apply bool_ltb_asym; exact L. }
  apply eqb_prop in E4. subst e'. rewrite eqb_reflx. simpl.
  destruct (str_eqb b b') eqn:E5; simpl.
  2:{ intro L. rewrite str_eqb_sym, E5. simpl. apply str_ltb_asym; exact L. }
  apply str_eqb_eq in E5. subst b'. rewrite str_eqb_refl. simpl.
  apply bool_ltb_asym.
Qed.

Lemma key6_ltb_total x y : x <> y -> key6_ltb x y = true \/ key6_ltb y x = true.
Proof.
  destruct x as [[[[[s k] a] e] b] f], y as [[[[[s' k'] a'] e'] b'] f']. unfold key6_ltb. intro H.
  destruct (str_eqb s s') eqn:E1; simpl.
  2:{ rewrite str_eqb_sym, E1. simpl. apply str_ltb_total. apply str_eqb_neq; exact E1. }
  apply str_eqb_eq in E1. subst s'. rewrite str_eqb_refl. simpl.
  destruct (Bool.eqb k k') eqn:E2; simpl.
  2:{ assert (Bool.eqb k' k = false) as -> by (destruct k, k'; simpl in *; congruence). simpl.
      apply bool_ltb_total. apply eqb_neq_false; exact E2. }
  apply eqb_prop in E2. subst k'. rewrite eqb_reflx. simpl.
  destruct (str_eqb a a') eqn:E3; simpl.
  2:{ rewrite str_eqb_sym, E3. simpl. apply str_ltb_total. apply str_eqb_neq; exact E3. }
  apply str_eqb_eq in E3. subst a'. rewrite str_eqb_refl. simpl.
  destruct (Bool.eqb e e') eqn:E4; simpl.
  2:{ assert (Bool.eqb e' e = false) as -> by (destruct e, e'; simpl in *; congruence). simpl.
      apply bool_ltb_total. apply eqb_neq_false; exact E4. }
  apply eqb_prop in E4. subst e'. rewrite eqb_reflx. simpl.
  destruct (str_eqb b b') eqn:E5; simpl.
  2:{ rewrite str_eqb_sym, E5. simpl. apply str_ltb_total. apply str_eqb_neq; exact E5. }
  apply str_eqb_eq in E5. subst b'. rewrite str_eqb_refl. simpl.
  apply bool_ltb_total. intro; subst. apply H. reflexivity.
Qed.

Lemma key6_ltb_trans x y z : key6_ltb x y = true -> key6_ltb y z = true -> key6_ltb x z = true.
Proof.
  destruct x as [[[[[s k] a] e] b] f], y as [[[[[s' k'] a'] e'] b'] f'], z as [[[[[s'' k''] a''] e''] b''] f''].
  unfold key6_ltb.
  (* level 1 *)
  destruct (str_eqb s s') eqn:E1; simpl.
  2:{ intro L1. destruct (str_eqb s' s'') eqn:F1; simpl.
      - apply str_eqb_eq in F1. subst s''. intros _. rewrite E1. simpl. exact L1.
      - intro L2. pose proof (str_ltb_trans _ _ _ L1 L2) as L3.
        destruct (str_eqb s s'') eqn:G1; simpl; [|exact L3].
        apply str_eqb_eq in G1. subst s''. rewrite (str_ltb_asym _ _ L1) in L2. discriminate. }
  apply str_eqb_eq in E1. subst s'.
  destruct (str_eqb s s'') eqn:F1; simpl; [|intros _ L; exact L].
  apply str_eqb_eq in F1. subst s''.
  (* level 2 *)
  destruct (Bool.eqb k k') eqn:E2; simpl.
  2:{ intro L1. destruct (Bool.eqb k' k'') eqn:F2; simpl.
      - apply eqb_prop in F2. subst k''. intros _. rewrite E2. simpl. exact L1.
      - intro L2. pose proof (bool_ltb_trans _ _ _ L1 L2) as L3.
        destruct (Bool.eqb k k'') eqn:G2; simpl; [|exact L3].
        apply eqb_prop in G2. subst k''. rewrite (bool_ltb_asym _ _ L1) in L2. discriminate. }
  apply eqb_prop in E2. subst k'.
  destruct (Bool.eqb k k'') eqn:F2; simpl; [|intros _ L; exact L].
  apply eqb_prop in F2. subst k''.
  (* level 3 *)
  destruct (str_eqb a a') eqn:E3; simpl.
  2:{ intro L1. destruct (str_eqb a' a'') eqn:F3; simpl.
      - apply str_eqb_eq in F3. subst a''. intros _. rewrite E3. simpl. exact L1.
      - intro L2. pose proof (str_ltb_trans _ _ _ L1 L2) as L3.
        destruct (str_eqb a a'') eqn:G3; simpl; [|exact L3].
        apply str_eqb_eq in G3. subst a''. rewrite (str_ltb_asym _ _ L1) in L2. discriminate. }
  apply str_eqb_eq in E3. subst a'.
  destruct (str_eqb a a'') eqn:F3; simpl; [|intros _ L; exact L].
  apply str_eqb_eq in F3. subst a''.
  (* level 4 *)
  destruct (Bool.eqb e e') eqn:E4; simpl.
  2:{ intro L1. destruct (Bool.eqb e' e'') eqn:F4; simpl.
      - apply eqb_prop in F4. subst e''. intros _. rewrite E4. simpl. exact L1.
      - intro L2. pose proof (bool_ltb_trans _ _ _ L1 L2) as L3.
        destruct (Bool.eqb e e'') eqn:G4; simpl; [|exact L3].
        apply eqb_prop in G4. subst e''. rewrite (bool_ltb_asym _ _ L1) in L2. discriminate. }
  apply eqb_prop in E4. subst e'.
  destruct (Bool.eqb e e'') eqn:F4; simpl; [|intros _ L; exact L].
  apply eqb_prop in F4. subst e''.
  (* level 5 *)
  destruct (str_eqb b b') eqn:E5; simpl.
  2:{ intro L1. destruct (str_eqb b' b'') eqn:F5; simpl.
      - apply str_eqb_eq in F5. subst b''. intros _. rewrite E5. simpl. exact L1.
      - intro L2. pose proof (str_ltb_trans _ _ _ L1 L2) as L3.
        destruct (str_eqb b b'') eqn:G5; simpl; [|exact L3].
        apply str_eqb_eq in G5. subst b''. rewrite (str_ltb_asym _ _ L1) in L2. discriminate. }
  apply str_eqb_eq in E5. subst b'.
  destruct (str_eqb b b'') eqn:F5; simpl; [|intros _ L; exact L].
  apply str_eqb_eq in F5. subst b''.
  apply bool_ltb_trans.
Qed.

Lemma atom_ltb_irrefl a : atom_ltb a a = false.
Proof. rewrite atom_ltb_key. apply key6_ltb_irrefl. Qed.
Lemma atom_ltb_asym a b : atom_ltb a b = true -> atom_ltb b a = false.
Proof. rewrite !atom_ltb_key. apply key6_ltb_asym. Qed.
Lemma atom_ltb_trans a b c : atom_ltb a b = true -> atom_ltb b c = true -> atom_ltb a c = true.
Proof. rewrite !atom_ltb_key. apply key6_ltb_trans. Qed.
Lemma atom_ltb_total a b : a <> b -> atom_ltb a b = true \/ atom_ltb b a = true.
Proof. rewrite !atom_ltb_key. intro H. apply key6_ltb_total. intro E. apply H, sort_key_inj, E. Qed.

(* ---- creating a symbol: LicenseSymbol.__init__ on a text key ---- *)
Require Import Model.LicTok.

Definition key_accepted (O : oracle) (k : str) : Prop :=
  k <> [] /\ strip O k <> [] /\ forallb (valid_key_char O) (strip O k) = true /\
  is_keyword_str (lower O (norm_spaces O (strip O k))) = false.

Lemma mk_key_iff O k k' :
  mk_key O k = Ok k' <-> key_accepted O k /\ k' = norm_spaces O (strip O k).
Proof.
  unfold mk_key, key_accepted. destruct k as [|c k0]; [split; [discriminate | intros [[H _] _]; contradiction]|].
  set (k := c :: k0). destruct (strip O k) as [|d k1] eqn:Es.
  - split; [discriminate | intros [[_ [H _]] _]; contradiction].
  - destruct (forallb (valid_key_char O) (d :: k1)) eqn:Ev; simpl.
    + destruct (is_keyword_str (lower O (norm_spaces O (d :: k1)))) eqn:Ek.
      * split; [discriminate | intros [[_ [_ [_ H]]] _]; discriminate].
      * split.
        -- intro H. inversion H. split; [|reflexivity]. repeat split; try discriminate; reflexivity.
        -- intros [_ ->]. reflexivity.
    + split; [discriminate | intros [[_ [_ [H _]]] _]; discriminate].
Qed.

Lemma mk_key_rejects O k :
  (forall k', mk_key O k <> Ok k') <-> ~ key_accepted O k.
Proof.
  split.
  - intros H A. apply (H (norm_spaces O (strip O k))). apply mk_key_iff. split; [exact A | reflexivity].
  - intros H k' E. apply mk_key_iff in E as [A _]. contradiction.
Qed.
