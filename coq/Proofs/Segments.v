(* C02 / C05, from the text to the tokens: when the non-blank pieces of a text are cut into segments -
   runs that spell a stored name, and single pieces that no reported match touches - and every reported
   match lies inside a name segment, Trie.tokenize yields exactly one token per segment. *)
Require Import Model.Base Model.Expr Model.Split Model.Trie Model.Overlap.
Require Import Proofs.Split Proofs.Overlap Proofs.Trie Proofs.Recognise Proofs.Cover Proofs.Select Proofs.SimpleAgree Proofs.Account.
From Coq Require Import Lia ZifyBool.
Open Scope Z_scope.

Section Segments.
Context {V : Type}.
Variable O : oracle.
Variable tr : trie V.
Hypothesis W : wf_trie tr.
Variable text : str.
Notation tok := (Trie.tok V).
Notation P := (pieces O text).
Notation wps := (filter (is_word_piece O) (pieces O text)).

Inductive seg := SM (g : list piece) (v : V) | SU (p : piece).
Definition spieces (s : seg) : list piece := match s with SM g _ => g | SU p => [p] end.
Definition stok (s : seg) : tok :=
  match s with SM g v => occurrence_tok text g (last g dpiece) v | SU p => unmatched p end.

Definition lo (g : list piece) : Z := pstart (hd dpiece g).
Definition hi (g : list piece) : Z := pend (last g dpiece).

Variable segs : list seg.
Hypothesis S_cat : concat (map spieces segs) = wps.
Hypothesis S_match : forall g v, In (SM g v) segs -> g <> [] /\ exists sp, get_out (lws O g) (outs tr) = Some (sp, v).
Hypothesis S_inside : forall t, In t (t_iter O tr text) ->
  exists g v, In (SM g v) segs /\ lo g <= tstart t /\ tend t <= hi g.

Lemma concat_split {A} (l : list (list A)) x : In x l -> exists l1 l2, l = l1 ++ x :: l2.
Proof. apply in_split. Qed.

(* a segment sits in the word pieces between the segments before and after it *)
Lemma seg_position s : In s segs -> exists l1 l2, segs = l1 ++ s :: l2 /\
  wps = concat (map spieces l1) ++ spieces s ++ concat (map spieces l2).
Proof.
  intro H. apply in_split in H as [l1 [l2 E]]. exists l1, l2. split; [exact E|].
  rewrite <- S_cat, E. rewrite map_app, concat_app. cbn [map concat]. reflexivity.
Qed.

Lemma spieces_nonempty s : In s segs -> spieces s <> [].
Proof. destruct s as [g v|p]; intro H; [apply (S_match g v H) | discriminate]. Qed.

Lemma stok_span s : In s segs -> tstart (stok s) = lo (spieces s) /\ tend (stok s) = hi (spieces s).
Proof.
  destruct s as [g v|p]; intro H; cbn [stok spieces].
  - split; [apply occ_start; apply (S_match g v H) | reflexivity].
  - split; reflexivity.
Qed.

Lemma sub_incr pre g post : incr (pre ++ g ++ post) -> g <> [] ->
  lo g <= hi g /\ (forall p, In p pre -> pend p < lo g) /\ (forall p, In p post -> hi g < pstart p) /\
  (forall p, In p g -> lo g <= pstart p /\ pend p <= hi g).
Proof.
  intros Hi Hne. apply incr_app in Hi as [Ipre [Imp Hpm]]. apply incr_app in Imp as [Ig [Ipost Hgp]].
  unfold lo, hi. split; [apply incr_hd_le_last; assumption|]. split; [|split].
  - intros p Hp. apply Hpm; [exact Hp | apply in_or_app; left; apply hd_in; exact Hne].
  - intros p Hp. apply Hgp; [apply last_in; exact Hne | exact Hp].
  - intros p Hp. apply (incr_first_last g dpiece Ig Hne p Hp).
Qed.

(* the match of a name segment is reported *)
Lemma seg_match_reported g v : In (SM g v) segs -> In (stok (SM g v)) (t_iter O tr text).
Proof.
  intro H. destruct (S_match g v H) as [Hne [sp G]]. destruct (seg_position _ H) as [l1 [l2 [_ E]]].
  apply (scan_exact O tr W text). exists (concat (map spieces l1)), g, (concat (map spieces l2)), sp, v.
  split; [exact E|]. split; [exact Hne|]. split; [exact G | reflexivity].
Qed.

Lemma wps_incr : incr wps. Proof. apply word_pieces_incr. Qed.

(* the pieces of the segments before / after a segment lie before / after its span *)
Lemma seg_neighbours l1 s l2 : segs = l1 ++ s :: l2 ->
  spieces s <> [] /\ lo (spieces s) <= hi (spieces s) /\
  (forall s', In s' l1 -> hi (spieces s') < lo (spieces s)) /\
  (forall s', In s' l2 -> hi (spieces s) < lo (spieces s')) /\
  (forall p, In p (spieces s) -> In p wps /\ lo (spieces s) <= pstart p /\ pend p <= hi (spieces s)).
Proof.
  intro E.
  assert (Hs : In s segs) by (rewrite E; apply in_or_app; right; left; reflexivity).
  pose proof (spieces_nonempty s Hs) as Hne. split; [exact Hne|].
  assert (Ew : wps = concat (map spieces l1) ++ spieces s ++ concat (map spieces l2)).
  { rewrite <- S_cat, E. rewrite map_app, concat_app. reflexivity. }
  pose proof wps_incr as Hi. rewrite Ew in Hi.
  destruct (sub_incr _ _ _ Hi Hne) as [A [B [C D]]]. split; [exact A|]. split; [|split; [|]].
  - intros s' Hs'. assert (Hs'' : In s' segs) by (rewrite E; apply in_or_app; left; exact Hs').
    pose proof (spieces_nonempty s' Hs'') as Hne'. apply B. apply in_concat. exists (spieces s'). split; [apply in_map; exact Hs' | apply last_in; exact Hne'].
  - intros s' Hs'. assert (Hs'' : In s' segs) by (rewrite E; apply in_or_app; right; right; exact Hs').
    pose proof (spieces_nonempty s' Hs'') as Hne'. apply C. apply in_concat. exists (spieces s'). split; [apply in_map; exact Hs' | apply hd_in; exact Hne'].
  - intros p Hp. split; [rewrite Ew; apply in_or_app; right; apply in_or_app; left; exact Hp | apply D; exact Hp].
Qed.

(* two reported matches with the same span are the same token *)
Lemma same_span_same_match g v t : In (SM g v) segs -> In t (t_iter O tr text) ->
  tstart t = lo g -> tend t = hi g -> t = stok (SM g v).
Proof.
  intros Hs Ht Hst Hen. destruct (S_match g v Hs) as [Hne [sp G]]. destruct (seg_position _ Hs) as [l1 [l2 [_ E]]]. cbn [spieces] in E.
  apply (scan_exact O tr W text) in Ht as [pre [mid [post [sp' [v' [E' [Hne' [G' ->]]]]]]]].
  change {| pstart := 0; ptext := [] |} with dpiece in *.
  assert (Emid : mid = g).
  { pose proof wps_incr as Hi.
    rewrite <- (filter_window pre mid post (lo mid) (hi mid)); [|rewrite <- E'; exact Hi | exact Hne' | reflexivity | reflexivity].
    rewrite <- (filter_window (concat (map spieces l1)) g (concat (map spieces l2)) (lo g) (hi g)); [|rewrite <- E; exact Hi | exact Hne | reflexivity | reflexivity].
    rewrite <- E', <- E.
    assert (L : lo mid = lo g) by (rewrite <- Hst; symmetry; apply occ_start; exact Hne').
    assert (H : hi mid = hi g) by (rewrite <- Hen; reflexivity).
    rewrite L, H. reflexivity. }
  subst mid. rewrite G in G'. inversion G'; subst. reflexivity.
Qed.

(* every other reported match is a copy of the match of a name segment, apart from it, or strictly shorter *)
Lemma seg_match_dominant g v : In (SM g v) segs -> forall y, In y (t_iter O tr text) ->
  y = stok (SM g v) \/ (wf_tok y /\ (apart (stok (SM g v)) y \/ tok_len y < tok_len (stok (SM g v)))).
Proof.
  intros Hs y Hy. pose proof (match_inside O tr W text y Hy) as [_ [_ [_ Hwf]]].
  destruct (stok_span _ Hs) as [Xs Xe]. cbn [spieces] in Xs, Xe.
  destruct (S_inside y Hy) as [g' [v' [Hs' [Hlo Hhi]]]].
  destruct (seg_position _ Hs) as [l1 [l2 [E _]]]. destruct (seg_neighbours l1 _ l2 E) as [_ [_ [Hbef [Haft _]]]]. cbn [spieces] in *.
  rewrite E in Hs'. apply in_app_or in Hs' as [H1|[H1|H1]].
  - right. split; [exact Hwf|]. left. right. specialize (Hbef _ H1). cbn [spieces] in Hbef. lia.
  - inversion H1; subst g' v'.
    destruct (Z_lt_le_dec (tok_len y) (tok_len (stok (SM g v)))) as [L|L]; [right; split; [exact Hwf | right; exact L]|].
    left. apply (same_span_same_match g v y Hs Hy); unfold tok_len in L; lia.
  - right. split; [exact Hwf|]. left. left. specialize (Haft _ H1). cbn [spieces] in Haft. lia.
Qed.

Lemma stok_wf s : In s segs -> wf_tok (stok s).
Proof.
  intro Hs. destruct (stok_span s Hs) as [A B]. destruct (seg_position _ Hs) as [l1 [l2 [E _]]].
  destruct (seg_neighbours l1 s l2 E) as [_ [C _]]. unfold wf_tok. lia.
Qed.

Lemma seg_match_emitted g v : In (SM g v) segs -> In (stok (SM g v)) (t_tokenize O tr text).
Proof.
  intro Hs. apply (tokenize_keeps_matches O tr W text). apply fo_keeps_dominant.
  - apply stok_wf; exact Hs.
  - apply seg_match_reported; exact Hs.
  - apply seg_match_dominant; exact Hs.
Qed.

Lemma seg_unmatched_emitted p : In (SU p) segs -> In (stok (SU p)) (t_tokenize O tr text).
Proof.
  intro Hs. destruct (seg_position _ Hs) as [l1 [l2 [E _]]].
  destruct (seg_neighbours l1 _ l2 E) as [_ [_ [Hbef [Haft Hin]]]]. cbn [spieces] in *.
  destruct (Hin p (or_introl eq_refl)) as [Hw _]. apply filter_In in Hw as [HpP Hww].
  apply (tokenize_unmatched_word O tr W text p HpP Hww).
  intros t Ht [C1 C2]. apply fo_sub in Ht. destruct (S_inside t Ht) as [g' [v' [Hs' [Hlo Hhi]]]].
  pose proof (incr_piece_nonempty P p (pieces_incr O text) HpP) as Np.
  rewrite E in Hs'. apply in_app_or in Hs' as [H1|[H1|H1]].
  - specialize (Hbef _ H1). cbn [spieces] in Hbef. unfold lo, hi in *. cbn [hd last] in *. lia.
  - discriminate.
  - specialize (Haft _ H1). cbn [spieces] in Haft. unfold lo, hi in *. cbn [hd last] in *. lia.
Qed.

Lemma seg_emitted s : In s segs -> In (stok s) (t_tokenize O tr text).
Proof. destruct s; [apply seg_match_emitted | apply seg_unmatched_emitted]. Qed.

(* tokens of the result that share a position are the same token *)
Lemma out_overlap_eq (a b : tok) : In a (t_tokenize O tr text) -> In b (t_tokenize O tr text) ->
  wf_tok a -> wf_tok b -> ~ apart a b -> a = b.
Proof.
  intros Ha Hb Wa Wb Hn. pose proof (tokenize_ordered_disjoint O tr W text) as Hc.
  apply In_nth_error in Ha as [i Hi]. apply In_nth_error in Hb as [j Hj].
  destruct (Nat.lt_trichotomy i j) as [L|[E|L]].
  - exfalso. apply Hn. left. apply (chain_after_disjoint _ Hc i j a b L Hi Hj).
  - subst j. rewrite Hi in Hj. inversion Hj. reflexivity.
  - exfalso. apply Hn. right. apply (chain_after_disjoint _ Hc j i b a L Hj Hi).
Qed.

Lemma segs_chain : forall l1 l2, segs = l1 ++ l2 -> chain_after (map stok l2).
Proof.
  intros l1 l2. revert l1. induction l2 as [|s l2 IH]; intros l1 E; [exact I|]. cbn [map chain_after]. split.
  - intros y Hy. apply in_map_iff in Hy as [s' [<- Hs']].
    destruct (seg_neighbours l1 s l2 E) as [_ [_ [_ [Haft _]]]]. specialize (Haft s' Hs').
    assert (In s segs) by (rewrite E; apply in_or_app; right; left; reflexivity).
    assert (In s' segs) by (rewrite E; apply in_or_app; right; right; exact Hs').
    destruct (stok_span s H) as [_ B]. destruct (stok_span s' H0) as [A _]. unfold is_after. lia.
  - apply (IH (l1 ++ [s])). rewrite <- app_assoc. exact E.
Qed.

(* C02 / C05: the matcher cuts the text into exactly the segments *)
Theorem tokenize_segments : t_tokenize O tr text = map stok segs.
Proof.
  apply chain_lists_equal.
  - intros t Ht. unfold t_tokenize in Ht. apply retok_from_word in Ht as [Hm|[p [Hp [_ ->]]]].
    + apply fo_sub in Hm. exact (proj2 (proj2 (proj2 (match_inside O tr W text t Hm)))).
    + unfold wf_tok, unmatched. cbn. apply (incr_piece_nonempty P p (pieces_incr O text) Hp).
  - intros t Ht. apply in_map_iff in Ht as [s [<- Hs]]. apply stok_wf; exact Hs.
  - apply (tokenize_ordered_disjoint O tr W text).
  - apply (segs_chain [] segs eq_refl).
  - intro t. split.
    + intro Ht. pose proof Ht as Ht0. unfold t_tokenize in Ht. apply retok_from_word in Ht as [Hm|[p [Hp [Hw ->]]]].
      * apply fo_sub in Hm. pose proof (match_inside O tr W text t Hm) as [_ [_ [_ Hwf]]].
        destruct (S_inside t Hm) as [g [v [Hs [Hlo Hhi]]]].
        assert (E : t = stok (SM g v)).
        { apply out_overlap_eq; [exact Ht0 | apply seg_match_emitted; exact Hs | exact Hwf | apply stok_wf; exact Hs|].
          destruct (stok_span _ Hs) as [A B]. cbn [spieces] in A, B. unfold apart, wf_tok in *. lia. }
        rewrite E. apply in_map. exact Hs.
      * assert (Hpw : In p wps) by (apply filter_In; split; assumption).
        rewrite <- S_cat in Hpw. apply in_concat in Hpw as [gp [Hgp Hin]]. apply in_map_iff in Hgp as [s [<- Hs]].
        destruct s as [g v|p'].
        -- exfalso. destruct (seg_position _ Hs) as [l1 [l2 [E _]]]. destruct (seg_neighbours l1 _ l2 E) as [_ [_ [_ [_ Hpin]]]].
           destruct (Hpin p Hin) as [_ [A B]]. cbn [spieces] in A, B.
           pose proof (incr_piece_nonempty P p (pieces_incr O text) Hp) as Np.
           assert (Eq : (unmatched p : tok) = stok (SM g v)).
           { apply out_overlap_eq; [exact Ht0 | apply seg_match_emitted; exact Hs | unfold wf_tok, unmatched; cbn; exact Np | apply stok_wf; exact Hs|].
             destruct (stok_span _ Hs) as [A' B']. cbn [spieces] in A', B'. unfold apart, unmatched. cbn [tstart tend]. lia. }
           cbn [stok] in Eq. unfold unmatched, occurrence_tok in Eq. inversion Eq.
        -- cbn [spieces] in Hin. destruct Hin as [<-|[]]. apply in_map_iff. exists (SU p'). split; [reflexivity | exact Hs].
    + intro Ht. apply in_map_iff in Ht as [s [<- Hs]]. apply seg_emitted; exact Hs.
Qed.

End Segments.
