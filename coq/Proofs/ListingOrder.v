(* C10 with C01: the listings of what parse returns are the license tokens recognised in the text, in text order. *)
Require Import Model.Base Model.Expr Model.Split Model.Trie Model.Overlap Model.LicTok Model.BoolParse Model.Licensing.
Require Import Proofs.ParseLits Proofs.Listings Proofs.Account.

Theorem listings_follow_text_order : forall O, is_space O 32%N = true -> forall T text strict simple e,
  Licensing.parse_tokens O T strict simple text = Ok e ->
  exists ptoks, lic_tokenize O T strict simple text = Ok ptoks /\
    license_symbols e false false = tok_atoms ptoks /\
    license_symbols e false true = map Plain (flat_map decompose (tok_atoms ptoks)) /\
    license_keys e false = map atom_str (map Plain (flat_map decompose (tok_atoms ptoks))) /\
    exists gs, concat gs = filter (is_word_piece O) (pieces O text) /\
      (if simple then Forall2 (ptok_acc O text (kw_acc_s O) (sym_acc_s O T)) ptoks gs
       else Forall2 (ptok_acc O text (kw_acc O) (sym_acc O T text)) ptoks gs).
Proof.
  intros O Hsp T text strict simple e H. destruct simple.
  - destruct (parse_accounted_simple O Hsp T text strict e H) as [ptoks [gs [El [Lit [Ec F]]]]].
    exists ptoks. split; [exact El|]. rewrite !symbols_all_occurrences. unfold license_keys, uniq_keys, keys_of.
    rewrite symbols_all_occurrences, Lit. repeat split. exists gs. split; assumption.
  - destruct (parse_accounted O Hsp T text strict e H) as [ptoks [gs [El [Lit [Ec F]]]]].
    exists ptoks. split; [exact El|]. rewrite !symbols_all_occurrences. unfold license_keys, uniq_keys, keys_of.
    rewrite symbols_all_occurrences, Lit. repeat split. exists gs. split; assumption.
Qed.
