(* Aho-Corasick core over an abstract prefix-closed node set: the fail-following loop computes the
   longest suffix that is a node; the failure link computed from the parent's link is the longest
   proper suffix; the output chain lists exactly the suffixes that are nodes. *)
Require Import Model.Base Model.Trie Proofs.Symbol.
From Coq Require Import Arith Lia.
Open Scope nat_scope.

Section AC.
Notation W := str.

Variable inP : path -> bool.
Hypothesis P_root : inP [] = true.
Hypothesis P_prefix : forall p w, inP (p ++ [w]) = true -> inP p = true.

(* suffixes *)
Definition suffix (u t : path) : Prop := exists v, t = v ++ u.

Lemma suffix_refl t : suffix t t. Proof. exists []; reflexivity. Qed.
Lemma suffix_nil t : suffix [] t. Proof. exists t; rewrite app_nil_r; reflexivity. Qed.
Lemma suffix_cons u x t : suffix u t -> suffix u (x :: t).
Proof. intros [v ->]. exists (x :: v); reflexivity. Qed.
Lemma suffix_trans a b c : suffix a b -> suffix b c -> suffix a c.
Proof. intros [v ->] [v' ->]. exists (v' ++ v). rewrite app_assoc; reflexivity. Qed.
Lemma suffix_length u t : suffix u t -> length u <= length t.
Proof. intros [v ->]. rewrite app_length; lia. Qed.
Lemma suffix_same_length u t : suffix u t -> length u = length t -> u = t.
Proof.
  intros [v ->] H. rewrite app_length in H. destruct v; [reflexivity | simpl in H; lia].
Qed.
Lemma suffix_cons_inv u x t : suffix u (x :: t) -> u = x :: t \/ suffix u t.
Proof.
  intros [v H]. destruct v as [|y v]; simpl in H.
  - left; congruence.
  - right. inversion H; subst. exists v; reflexivity.
Qed.
Lemma suffix_snoc u t w : suffix u t -> suffix (u ++ [w]) (t ++ [w]).
Proof. intros [v ->]. exists v. rewrite app_assoc; reflexivity. Qed.
Lemma suffix_snoc_inv x t w : suffix x (t ++ [w]) -> x = [] \/ exists u, x = u ++ [w] /\ suffix u t.
Proof.
  intros [v H]. destruct x as [|a x'] using rev_ind; [left; reflexivity|right].
  rewrite app_assoc in H. apply app_inj_tail in H as [H1 H2]. subst a.
  exists x'. split; [reflexivity| exists v; assumption].
Qed.
(* two suffixes of the same list are nested *)
Lemma suffix_nested u v t : suffix u t -> suffix v t -> length u <= length v -> suffix u v.
Proof.
  revert u v. induction t as [|x t IH]; intros u v Hu Hv Hl.
  - destruct Hu as [a Ha]. symmetry in Ha. apply app_eq_nil in Ha as [_ ->]. apply suffix_nil.
  - apply suffix_cons_inv in Hu as [->|Hu]; apply suffix_cons_inv in Hv as [->|Hv].
    + apply suffix_refl.
    + apply suffix_length in Hv. simpl in Hl. lia.
    + apply suffix_cons; assumption.
    + apply IH; assumption.
Qed.

(* longest suffix of t that is a node *)
Fixpoint ls (t : path) : path :=
  if inP t then t else match t with [] => [] | _ :: t' => ls t' end.

Lemma ls_inP t : inP (ls t) = true.
Proof.
  induction t as [|x t IH]; simpl.
  - rewrite P_root. exact P_root.
  - destruct (inP (x :: t)) eqn:E; [exact E | exact IH].
Qed.
Lemma ls_suffix t : suffix (ls t) t.
Proof.
  induction t as [|x t IH]; simpl.
  - destruct (inP []); apply suffix_refl.
  - destruct (inP (x :: t)); [apply suffix_refl | apply suffix_cons; exact IH].
Qed.
Lemma ls_longest t u : suffix u t -> inP u = true -> suffix u (ls t).
Proof.
  induction t as [|x t IH]; intros Hs Hu; simpl.
  - destruct Hs as [a Ha]. symmetry in Ha. apply app_eq_nil in Ha as [_ ->]. apply suffix_nil.
  - destruct (inP (x :: t)) eqn:E; [assumption|].
    apply suffix_cons_inv in Hs as [->|Hs]; [congruence | apply IH; assumption].
Qed.
Lemma ls_fix t : inP t = true -> ls t = t.
Proof. destruct t; simpl; intros ->; reflexivity. Qed.
Lemma ls_unique t x : suffix x t -> inP x = true -> (forall u, suffix u t -> inP u = true -> length u <= length x) -> ls t = x.
Proof.
  intros Hs Hx Hmax.
  assert (H1 : suffix x (ls t)) by (apply ls_longest; assumption).
  assert (H2 : length (ls t) <= length x) by (apply Hmax; [apply ls_suffix | apply ls_inP]).
  symmetry. apply suffix_same_length; [assumption|]. apply suffix_length in H1. lia.
Qed.

(* longest proper suffix *)
Definition lps (p : path) : path := match p with [] => [] | _ :: p' => ls p' end.

Notation climb := (Trie.climb inP).
Notation failn := (Trie.failn inP).

Lemma suffix_nil_inv u : suffix u [] -> u = [].
Proof. intros [v Hv]. symmetry in Hv. apply app_eq_nil in Hv as [_ ->]. reflexivity. Qed.

Lemma ls_snoc_unique t w x :
  suffix x (t ++ [w]) -> inP x = true ->
  (forall u, suffix u (ls t) -> inP (u ++ [w]) = true -> length (u ++ [w]) <= length x) ->
  ls (t ++ [w]) = x.
Proof.
  intros Hs Hx Hb. apply ls_unique; [assumption|assumption|].
  intros u0 Hu0 Hin. apply suffix_snoc_inv in Hu0 as [->|[u' [-> Hu']]]; [simpl; lia|].
  apply Hb; [|assumption].
  apply ls_longest; [assumption|]. eapply P_prefix; eassumption.
Qed.

Lemma step_hit s t w : ls t = s -> inP (s ++ [w]) = true -> ls (t ++ [w]) = s ++ [w].
Proof.
  intros Hs E. apply ls_snoc_unique.
  - rewrite <- Hs. apply suffix_snoc, ls_suffix.
  - exact E.
  - intros u Hu _. rewrite Hs in Hu. apply suffix_length in Hu. rewrite !app_length; simpl; lia.
Qed.

Lemma step_root_miss t w : ls t = [] -> inP [w] = false -> ls (t ++ [w]) = [].
Proof.
  intros Hs E. apply ls_snoc_unique; [apply suffix_nil | exact P_root |].
  intros u Hu Hin. rewrite Hs in Hu. apply suffix_nil_inv in Hu. subst u. simpl in Hin. congruence.
Qed.

Lemma step_miss a s' t w :
  ls t = a :: s' -> inP ((a :: s') ++ [w]) = false -> ls (t ++ [w]) = ls (s' ++ [w]).
Proof.
  intros Hs E.
  assert (Hsuf : suffix s' t).
  { apply (suffix_trans s' (a :: s') t); [exists [a]; reflexivity | rewrite <- Hs; apply ls_suffix]. }
  apply ls_snoc_unique.
  - eapply suffix_trans; [apply ls_suffix | apply suffix_snoc; exact Hsuf].
  - apply ls_inP.
  - intros u Hu Hin. rewrite Hs in Hu. apply suffix_cons_inv in Hu as [->|Hu]; [congruence|].
    apply suffix_length. apply ls_longest; [apply suffix_snoc; assumption | assumption].
Qed.

Lemma step_lemma (f : path -> path) :
  forall k s t w,
    (forall s', length s' <= length s -> inP s' = true -> s' <> [] -> f s' = lps s') ->
    ls t = s -> length s <= k ->
    climb f k s w = ls (t ++ [w]).
Proof.
  induction k as [|k IH]; intros s t w Hf Hs Hk.
  - destruct s as [|a s']; [|simpl in Hk; lia].
    simpl. destruct (inP [w]) eqn:E; symmetry.
    + apply (step_hit [] t w); assumption.
    + apply step_root_miss; assumption.
  - simpl. destruct (inP (s ++ [w])) eqn:E.
    + symmetry. apply step_hit; assumption.
    + destruct s as [|a s'].
      * symmetry. apply step_root_miss; assumption.
      * assert (Hfs : f (a :: s') = ls s').
        { apply Hf; [lia | rewrite <- Hs; apply ls_inP | discriminate]. }
        rewrite Hfs. rewrite (step_miss a s' t w Hs E).
        pose proof (suffix_length _ _ (ls_suffix s')) as Hlen.
        apply IH.
        -- intros s'' Hl Hin Hne. apply Hf; [simpl; lia|assumption|assumption].
        -- reflexivity.
        -- simpl in Hk. lia.
Qed.

Lemma lps_snoc q w : q <> [] -> lps (q ++ [w]) = ls (tl q ++ [w]).
Proof. destruct q as [|a q]; [congruence|]. reflexivity. Qed.

Theorem failn_lps : forall n p, length p <= n -> failn n p = lps p.
Proof.
  induction n as [|n IH]; intros p Hl.
  - destruct p; [reflexivity | simpl in Hl; lia].
  - simpl. destruct (rev p) as [|w rq] eqn:Er.
    + apply (f_equal (@rev W)) in Er. rewrite rev_involutive in Er. subst p. reflexivity.
    + assert (Hp : p = rev rq ++ [w]).
      { apply (f_equal (@rev W)) in Er. rewrite rev_involutive in Er. simpl in Er. exact Er. }
      destruct rq as [|b rq'] eqn:Erq.
      * subst p. simpl. destruct (inP []); reflexivity.
      * set (q := rev (b :: rq')) in *.
        assert (Hq : q <> []).
        { unfold q. simpl. intro H. apply app_eq_nil in H as [_ H]. discriminate. }
        rewrite Hp, lps_snoc by assumption.
        assert (Hlq : length q < length p) by (rewrite Hp, app_length; simpl; lia).
        rewrite (IH q) by lia.
        destruct q as [|a q'] eqn:Eq; [congruence|]. simpl lps. simpl tl.
        pose proof (suffix_length _ _ (ls_suffix q')) as Hlen.
        apply step_lemma.
        -- intros s' Hs' Hin Hne. apply IH. simpl in Hlq. lia.
        -- reflexivity.
        -- rewrite app_length. simpl. lia.
Qed.


Lemma chain_spec (f : path -> path) :
  forall k s,
    (forall s', length s' <= length s -> inP s' = true -> s' <> [] -> f s' = lps s') ->
    inP s = true -> length s <= k ->
    forall u, In u (chain f k s) <-> (suffix u s /\ inP u = true).
Proof.
  induction k as [|k IH]; intros s Hf Hin Hk u.
  - destruct s as [|a s']; [|simpl in Hk; lia]. simpl. split.
    + intros [<-|[]]. split; [apply suffix_refl | exact P_root].
    + intros [Hu _]. apply suffix_nil_inv in Hu. left; congruence.
  - destruct s as [|a s'].
    + simpl. split.
      * intros [<-|[]]. split; [apply suffix_refl | exact P_root].
      * intros [Hu _]. apply suffix_nil_inv in Hu. left; congruence.
    + cbn [chain]. assert (Hfs : f (a :: s') = ls s') by (apply Hf; [lia | assumption | discriminate]).
      rewrite Hfs. pose proof (suffix_length _ _ (ls_suffix s')) as Hlen.
      split.
      * intros [<-|Hu]; [split; [apply suffix_refl | assumption]|].
        apply IH in Hu.
        -- destruct Hu as [Hu1 Hu2]. split; [|assumption].
           apply suffix_cons. eapply suffix_trans; [eassumption | apply ls_suffix].
        -- intros s'' Hl Hi Hne. apply Hf; [simpl; lia|assumption|assumption].
        -- apply ls_inP.
        -- simpl in Hk. lia.
      * intros [Hu1 Hu2]. apply suffix_cons_inv in Hu1 as [->|Hu1]; [left; reflexivity|right].
        apply IH.
        -- intros s'' Hl Hi Hne. apply Hf; [simpl; lia|assumption|assumption].
        -- apply ls_inP.
        -- simpl in Hk. lia.
        -- split; [apply ls_longest; assumption | assumption].
Qed.

End AC.
