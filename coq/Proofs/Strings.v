(* Lemmas on str.strip / str.split / ' '.join over the oracle's white-space predicate. *)
Require Import Model.Base.
From Coq Require Import Lia.

Section Strings.
Variable O : oracle.
Hypothesis sp_is_space : is_space O 32%N = true.

Definition nospace (w : str) : Prop := forallb (fun c => negb (is_space O c)) w = true.
Definition word (w : str) : Prop := w <> [] /\ nospace w.

Lemma nospace_app a b : nospace (a ++ b) <-> nospace a /\ nospace b.
Proof. unfold nospace. rewrite forallb_app, andb_true_iff. reflexivity. Qed.
Lemma nospace_cons c w : nospace (c :: w) <-> is_space O c = false /\ nospace w.
Proof. unfold nospace. simpl. rewrite andb_true_iff, negb_true_iff. reflexivity. Qed.
Lemma nospace_rev w : nospace (rev w) <-> nospace w.
Proof.
  unfold nospace. rewrite !forallb_forall. split; intros H c Hc; apply H; [apply (proj1 (in_rev w c)); exact Hc | apply (proj2 (in_rev w c)); exact Hc].
Qed.

(* split: a run of non-space characters is accumulated *)
Lemma split_acc_word : forall w acc s, nospace w ->
  split_ws_acc O acc (w ++ s) = split_ws_acc O (rev w ++ acc) s.
Proof.
  induction w as [|c w IH]; intros acc s H; [reflexivity|].
  apply nospace_cons in H as [Hc Hw]. simpl. rewrite Hc. rewrite IH by exact Hw.
  rewrite <- app_assoc. reflexivity.
Qed.

Lemma split_acc_space c acc s : is_space O c = true ->
  split_ws_acc O acc (c :: s) = match acc with [] => split_ws_acc O [] s | _ => rev acc :: split_ws_acc O [] s end.
Proof. intro H. simpl. rewrite H. reflexivity. Qed.

Lemma split_word_then w s : word w ->
  split_ws O (w ++ 32%N :: s) = w :: split_ws O s.
Proof.
  intros [Hne Hw]. unfold split_ws. rewrite split_acc_word by exact Hw. rewrite app_nil_r.
  rewrite split_acc_space by exact sp_is_space.
  destruct (rev w) eqn:E.
  - apply (f_equal (@rev N)) in E. rewrite rev_involutive in E. contradiction.
  - rewrite <- E, rev_involutive. reflexivity.
Qed.

Lemma split_word_end w : word w -> split_ws O w = [w].
Proof.
  intros [Hne Hw]. unfold split_ws. rewrite <- (app_nil_r w) at 1. rewrite split_acc_word by exact Hw.
  simpl. rewrite app_nil_r. destruct (rev w) eqn:E.
  - apply (f_equal (@rev N)) in E. rewrite rev_involutive in E. contradiction.
  - rewrite <- E, rev_involutive. reflexivity.
Qed.

(* ' '.join(ws).split() = ws for words *)
Theorem split_join ws : Forall word ws -> split_ws O (join_sp ws) = ws.
Proof.
  induction ws as [|w ws IH]; intro H; [reflexivity|].
  inversion H as [|? ? Hw Hws]; subst. destruct ws as [|w2 ws].
  - simpl. apply split_word_end; exact Hw.
  - change (join_sp (w :: w2 :: ws)) with (w ++ sp ++ join_sp (w2 :: ws)).
    unfold sp. simpl app. rewrite split_word_then by exact Hw. rewrite IH by exact Hws. reflexivity.
Qed.

(* the words that split() returns are words *)
Lemma split_acc_words : forall s acc, nospace acc -> Forall word (split_ws_acc O acc s).
Proof.
  induction s as [|c s IH]; intros acc Ha; simpl.
  - destruct acc as [|a acc]; [constructor|]. constructor; [|constructor].
    split; [intro E; apply (f_equal (@length N)) in E; rewrite rev_length in E; discriminate | apply nospace_rev; exact Ha].
  - destruct (is_space O c) eqn:Ec.
    + destruct acc as [|a acc]; [apply IH; reflexivity|]. constructor; [|apply IH; reflexivity].
      split; [intro E; apply (f_equal (@length N)) in E; rewrite rev_length in E; discriminate | apply nospace_rev; exact Ha].
    + apply IH. apply nospace_cons. split; assumption.
Qed.
Lemma split_words s : Forall word (split_ws O s).
Proof. apply split_acc_words. reflexivity. Qed.

(* ' '.join(s.split()) is a fixed point of the normalisation *)
Theorem norm_spaces_idem s : norm_spaces O (norm_spaces O s) = norm_spaces O s.
Proof. unfold norm_spaces. rewrite split_join by apply split_words. reflexivity. Qed.

Theorem norm_spaces_join ws : Forall word ws -> norm_spaces O (join_sp ws) = join_sp ws.
Proof. intro H. unfold norm_spaces. rewrite split_join by exact H. reflexivity. Qed.

(* strip on a text that starts and ends with a non-space character *)
Lemma lstrip_nospace_head c s : is_space O c = false -> lstrip O (c :: s) = c :: s.
Proof. intro H. simpl. rewrite H. reflexivity. Qed.

Lemma join_words_head ws : Forall word ws -> ws <> [] ->
  exists c s, join_sp ws = c :: s /\ is_space O c = false.
Proof.
  intros H Hne. destruct ws as [|w ws]; [contradiction|]. inversion H as [|? ? [Hw1 Hw2] _]; subst.
  destruct w as [|c w]; [contradiction|]. apply nospace_cons in Hw2 as [Hc _].
  destruct ws as [|w2 ws]; [exists c, w; split; [reflexivity | exact Hc]|].
  exists c, (w ++ sp ++ join_sp (w2 :: ws)). split; [reflexivity | exact Hc].
Qed.

Lemma join_words_last ws : Forall word ws -> ws <> [] ->
  exists c s, rev (join_sp ws) = c :: s /\ is_space O c = false.
Proof.
  induction ws as [|w ws IH]; intros H Hne; [contradiction|].
  inversion H as [|? ? [Hw1 Hw2] Hws]; subst. destruct ws as [|w2 ws].
  - simpl. destruct (rev w) as [|c r] eqn:E.
    + apply (f_equal (@rev N)) in E. rewrite rev_involutive in E. contradiction.
    + exists c, r. split; [exact E|]. apply nospace_rev in Hw2. rewrite E in Hw2. apply nospace_cons in Hw2 as [Hc _]. exact Hc.
  - destruct (IH Hws ltac:(discriminate)) as [c [s [E Hc]]].
    change (join_sp (w :: w2 :: ws)) with (w ++ sp ++ join_sp (w2 :: ws)).
    rewrite !rev_app_distr, E. simpl. eauto.
Qed.

Theorem strip_join ws : Forall word ws -> strip O (join_sp ws) = join_sp ws.
Proof.
  intro H. destruct ws as [|w ws]; [reflexivity|].
  destruct (join_words_head (w :: ws) H ltac:(discriminate)) as [c [s [E Hc]]].
  destruct (join_words_last (w :: ws) H ltac:(discriminate)) as [d [r [E2 Hd]]].
  unfold strip, rstrip.
  assert (L1 : lstrip O (join_sp (w :: ws)) = join_sp (w :: ws)) by (rewrite E; apply lstrip_nospace_head; exact Hc).
  rewrite L1.
  assert (L2 : lstrip O (rev (join_sp (w :: ws))) = rev (join_sp (w :: ws))) by (rewrite E2; apply lstrip_nospace_head; exact Hd).
  rewrite L2, rev_involutive. reflexivity.
Qed.

Lemma join_sp_nonempty ws : Forall word ws -> ws <> [] -> join_sp ws <> [].
Proof. intros H Hne. destruct (join_words_head ws H Hne) as [c [s [E _]]]. rewrite E. discriminate. Qed.

End Strings.
