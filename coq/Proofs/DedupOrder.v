(* C09: dedup keeps the operands in the order of the first occurrence of their renderings. *)
Require Import Model.Base Model.Expr Model.Simplify Model.Licensing Proofs.Symbol Proofs.Dedup.
From Coq Require Import Lia.

Lemma existsb_keys (k : str) (acc : list (str * expr)) :
  existsb (fun kv => str_eqb (fst kv) k) acc = existsb (fun y => str_eqb y k) (keys acc).
Proof. unfold keys. induction acc as [|[k0 x0] acc IH]; [reflexivity|]. cbn. rewrite IH. reflexivity. Qed.

(* the keys of the dictionary {str(x): x} are the renderings in first-occurrence order *)
Lemma dict_keys_order : forall xs acc,
  keys (dict_by_str acc xs) = ordered_unique str_eqb (keys acc) (map render xs).
Proof.
  induction xs as [|x xs IH]; intro acc; [reflexivity|]. cbn [dict_by_str map ordered_unique].
  rewrite existsb_keys. destruct (existsb (fun y => str_eqb y (render x)) (keys acc)) eqn:E.
  - rewrite IH. f_equal. unfold keys. rewrite map_map. apply map_ext_in. intros [k0 x0] _. cbn.
    destruct (str_eqb k0 (render x)) eqn:E0; [apply str_eqb_eq in E0; subst; reflexivity | reflexivity].
  - rewrite IH. unfold keys. rewrite map_app. reflexivity.
Qed.

Theorem uniq_order xs : map render (uniq_by_str xs) = ordered_unique str_eqb [] (map render xs).
Proof.
  unfold uniq_by_str.
  destruct (dict_by_str_spec xs [] (NoDup_nil _) ltac:(intros ? ? [])) as [_ [I2 _]].
  change (@nil str) with (keys []). rewrite <- (dict_keys_order xs []). unfold keys. rewrite map_map. apply map_ext_in. intros [k x] Hin. cbn. apply I2; exact Hin.
Qed.

(* every operand kept is one of the operands given, rendered as the kept position says *)
Theorem uniq_members xs y : In y (uniq_by_str xs) -> In y xs.
Proof. destruct (uniq_facts xs) as [_ [H _]]. apply H. Qed.

(* dedup at one node: the deduplicated operands, unique by rendering in first-occurrence order; one left -> that operand *)
Theorem dedup_node_order o xs e' : dedup (mk o xs) = Ok e' ->
  exists ys, dedup_children xs = Ok ys /\
             map render (uniq_by_str ys) = ordered_unique str_eqb [] (map render ys) /\
             (uniq_by_str ys = [e'] \/ e' = mk o (uniq_by_str ys)).
Proof.
  destruct o; cbn [mk]; [rewrite dedup_and | rewrite dedup_or];
    (destruct (dedup_children xs) as [ys| | | | |]; cbn [obind]; try discriminate; intro H; exists ys; split; [reflexivity|];
     split; [apply uniq_order|]; unfold combine_parsed in H; destruct ys as [|y0 ys0]; [cbn in H; discriminate|];
     destruct (uniq_by_str (y0 :: ys0)) as [|u [|u2 us]] eqn:Eu).
  all: cbn in H.
  all: try (inversion H; subst; left; reflexivity).
  all: try discriminate.
  all: unfold mk_and, mk_or in H; cbn in H; inversion H; subst; right; reflexivity.
Qed.
