(* The boolean parser reads token strings and positions only to report errors: two token lists with
   the same token types parse alike. *)
Require Import Model.Base Model.Expr Model.LicTok Model.BoolParse Proofs.ParseSound.
From Coq Require Import Lia.
Open Scope nat_scope.

Definition same_kind (r r' : sres) : Prop :=
  match r, r' with
  | SOk s, SOk s' => s = s'
  | SErr (PErr c _ _), SErr (PErr c' _ _) => c = c'
  | SErr e, SErr e' => e = e'
  | _, _ => False
  end.

Lemma close_par_kinds ts tp ts' tp' : forall fuel s, same_kind (close_par fuel s ts tp) (close_par fuel s ts' tp').
Proof.
  induction fuel as [|fuel IH]; intro s; cbn [close_par]; [reflexivity|].
  destruct s as [|[co a] [|[po pa] rest]]; [reflexivity | destruct co; reflexivity |].
  destruct co; try reflexivity.
  - destruct (mkf FAnd a); [apply IH | reflexivity].
  - destruct (mkf FOr a); [apply IH | reflexivity].
  - destruct a; reflexivity.
Qed.

Lemma same_kind_refl r : same_kind r r.
Proof. destruct r as [s|[e|c t p| |x]]; cbn; reflexivity. Qed.

Lemma step1_kinds s prev t t' : pt t = pt t' -> same_kind (step1 s prev t) (step1 s prev t').
Proof.
  intro E. unfold step1. rewrite <- E. destruct (check prev (pt t)); [cbn; reflexivity|].
  destruct (pt t).
  - apply same_kind_refl.
  - apply same_kind_refl.
  - apply same_kind_refl.
  - destruct prev as [[a| | | |]|]; cbn; reflexivity.
  - apply close_par_kinds.
Qed.

Lemma run_kinds : forall ts ts' s prev, map pt ts = map pt ts' ->
  match run s prev ts with
  | ROk a p => run s prev ts' = ROk a p
  | RErr _ => exists r, run s prev ts' = RErr r
  end.
Proof.
  induction ts as [|t ts IH]; intros [|t' ts'] s prev E; try discriminate; [reflexivity|].
  cbn [map] in E. injection E as Et Ets. cbn [run].
  pose proof (step1_kinds s prev t t' Et) as K.
  destruct (step1 s prev t) as [s1|e1]; destruct (step1 s prev t') as [s1'|e1']; cbn in K; try contradiction.
  - subst s1'. rewrite <- Et. apply IH. exact Ets.
  - destruct e1; contradiction.
  - eexists; reflexivity.
Qed.

Theorem bparse_kinds : forall ts ts' e, map pt ts = map pt ts' -> bparse ts = POk e -> bparse ts' = POk e.
Proof.
  intros ts ts' e E H. unfold bparse in *. pose proof (run_kinds ts ts' [(FNone, [])] None E) as R.
  destruct (run [(FNone, [])] None ts) as [a p|r] eqn:Er.
  - rewrite R. exact H.
  - subst r. exfalso. apply (run_err ts _ _ e Er).
Qed.
