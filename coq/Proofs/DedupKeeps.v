(* C09: nothing but repetitions is removed - every operand's rendering survives, none survives twice;
   combine_expressions returns a sole input as it is and keeps duplicates when asked to. *)
Require Import Model.Base Model.Expr Model.Simplify Model.Licensing Proofs.Symbol Proofs.OU Proofs.Dedup Proofs.DedupOrder.

(* every distinct alternative is kept: each operand given has a kept operand with its rendering *)
Theorem uniq_keeps_every_rendering xs x :
  In x xs -> exists y, In y (uniq_by_str xs) /\ render y = render x.
Proof.
  intro Hin.
  assert (H : In (render x) (map render (uniq_by_str xs))).
  { rewrite uniq_order. apply (ou_in str_eqb (fun a b => str_eqb_eq a b)). right. apply in_map. exact Hin. }
  apply in_map_iff in H as [y [E Hy]]. exists y. split; [exact Hy | exact E].
Qed.

(* and none of them twice *)
Theorem uniq_no_repeated_rendering xs : NoDup (map render (uniq_by_str xs)).
Proof. rewrite uniq_order. apply (ou_nodup str_eqb (fun a b => str_eqb_eq a b)). constructor. Qed.

(* a rendering that occurs once among the operands keeps its own operand *)
Theorem uniq_same_renderings xs s :
  In s (map render (uniq_by_str xs)) <-> In s (map render xs).
Proof.
  rewrite uniq_order. rewrite (ou_in str_eqb (fun a b => str_eqb_eq a b)). split; [intros [[]|H]; exact H | intro H; right; exact H].
Qed.

(* combine_expressions on parsed inputs *)
Theorem combine_sole_input x o u : combine_parsed [x] o u = Ok (Some x).
Proof. destruct u; reflexivity. Qed.

Theorem combine_keeps_duplicates_when_asked x y zs o :
  combine_parsed (x :: y :: zs) o false =
  omap Some (match o with OpAnd => mk_and (x :: y :: zs) | OpOr => mk_or (x :: y :: zs) end).
Proof. reflexivity. Qed.

Theorem combine_unique_rule xs o : xs <> [] ->
  combine_parsed xs o true =
  match uniq_by_str xs with
  | [y] => Ok (Some y)
  | ys => omap Some (match o with OpAnd => mk_and ys | OpOr => mk_or ys end)
  end.
Proof.
  destruct xs as [|x xs]; [congruence | intros _]. unfold combine_parsed. cbv zeta.
  destruct (uniq_by_str (x :: xs)) as [|y [|z l]]; reflexivity.
Qed.

Theorem combine_nothing o u : combine_parsed [] o u = Ok None.
Proof. reflexivity. Qed.

(* ---- dedup never mentions a license that the input does not mention ---- *)
Lemma flat_map_incl {A B} (f : A -> list B) (l1 l2 : list A) :
  (forall y, In y l1 -> In y l2) -> incl (flat_map f l1) (flat_map f l2).
Proof.
  intros H b Hb. apply in_flat_map in Hb as [y [Hy Hb]]. apply in_flat_map. exists y. split; [apply H; exact Hy | exact Hb].
Qed.

Lemma combine_literals ys o e : combine_parsed ys o true = Ok (Some e) ->
  incl (literals e) (flat_map literals ys).
Proof.
  intro H. destruct ys as [|y0 ys0]; [discriminate|].
  rewrite combine_unique_rule in H by discriminate.
  pose proof (uniq_members (y0 :: ys0)) as M.
  destruct (uniq_by_str (y0 :: ys0)) as [|u [|u2 us]].
  - destruct o; simpl in H; discriminate.
  - inversion H; subst. intros a Ha. apply in_flat_map. exists e. split; [apply M; left; reflexivity | exact Ha].
  - destruct o; simpl in H; inversion H; subst; simpl literals;
      change (literals u ++ literals u2 ++ flat_map literals us) with (flat_map literals (u :: u2 :: us));
      apply flat_map_incl; exact M.
Qed.

Lemma dedup_children_literals : forall xs ys,
  Forall (fun x => forall x', dedup x = Ok x' -> incl (literals x') (literals x)) xs ->
  dedup_children xs = Ok ys -> incl (flat_map literals ys) (flat_map literals xs).
Proof.
  induction xs as [|x xs IH]; intros ys HF H; simpl in H.
  - inversion H; subst. intros a [].
  - inversion HF as [|? ? Hx Hr]; subst. rewrite dedup_child_lit in H.
    destruct (dedup x) as [x'| | | | |] eqn:Ex; simpl in H; try discriminate.
    destruct (dedup_children xs) as [r| | | | |] eqn:Er; simpl in H; try discriminate.
    inversion H; subst. simpl. apply incl_app_app; [apply Hx; reflexivity | apply IH; [exact Hr | reflexivity]].
Qed.

Theorem dedup_literals : forall e e', dedup e = Ok e' -> incl (literals e') (literals e).
Proof.
  induction e as [a|xs IH|xs IH] using expr_ind'; intros e' H.
  - simpl in H. inversion H; subst. apply incl_refl.
  - rewrite dedup_and in H. destruct (dedup_children xs) as [ys| | | | |] eqn:E; simpl in H; try discriminate.
    unfold unsome in H. destruct (combine_parsed ys OpAnd true) as [[c|]| | | | |] eqn:C; simpl in H; try discriminate.
    inversion H; subst. simpl. eapply incl_tran; [apply (combine_literals ys OpAnd e' C) | apply dedup_children_literals; assumption].
  - rewrite dedup_or in H. destruct (dedup_children xs) as [ys| | | | |] eqn:E; simpl in H; try discriminate.
    unfold unsome in H. destruct (combine_parsed ys OpOr true) as [[c|]| | | | |] eqn:C; simpl in H; try discriminate.
    inversion H; subst. simpl. eapply incl_tran; [apply (combine_literals ys OpOr e' C) | apply dedup_children_literals; assumption].
Qed.
