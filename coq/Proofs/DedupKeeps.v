(* C09: nothing but repetitions is removed - every operand's rendering survives, none survives twice;
   combine_expressions returns a sole input as it is and keeps duplicates when asked to. *)
Require Import Model.Base Model.Expr Model.Simplify Model.Licensing Proofs.Symbol Proofs.OU Proofs.Dedup Proofs.DedupOrder.

(* every distinct alternative is kept: each operand given has a kept operand with its rendering *)
Theorem uniq_keeps_every_rendering xs x :
  In x xs -> exists y, In y (uniq_by_str xs) /\ render y = render x.
Proof.
  intro Hin.
  assert (H : In (render x) (map render (uniq_by_str xs))).
  { rewrite uniq_order. apply (ou_in str_eqb (fun a b => str_eqb_eq a b)). right. apply in_map. exact Hin. }
  apply in_map_iff in H as [y [E Hy]]. exists y. split; [exact Hy | exact E].
Qed.

(* and none of them twice *)
Theorem uniq_no_repeated_rendering xs : NoDup (map render (uniq_by_str xs)).
Proof. rewrite uniq_order. apply (ou_nodup str_eqb (fun a b => str_eqb_eq a b)). constructor. Qed.

(* a rendering that occurs once among the operands keeps its own operand *)
Theorem uniq_same_renderings xs s :
  In s (map render (uniq_by_str xs)) <-> In s (map render xs).
Proof.
  rewrite uniq_order. rewrite (ou_in str_eqb (fun a b => str_eqb_eq a b)). split; [intros [[]|H]; exact H | intro H; right; exact H].
Qed.

(* combine_expressions on parsed inputs *)
Theorem combine_sole_input x o u : combine_parsed [x] o u = Ok (Some x).
Proof. destruct u; reflexivity. Qed.

Theorem combine_keeps_duplicates_when_asked x y zs o :
  combine_parsed (x :: y :: zs) o false =
  omap Some (match o with OpAnd => mk_and (x :: y :: zs) | OpOr => mk_or (x :: y :: zs) end).
Proof. reflexivity. Qed.

Theorem combine_unique_rule xs o : xs <> [] ->
  combine_parsed xs o true =
  match uniq_by_str xs with
  | [y] => Ok (Some y)
  | ys => omap Some (match o with OpAnd => mk_and ys | OpOr => mk_or ys end)
  end.
Proof.
  destruct xs as [|x xs]; [congruence | intros _]. unfold combine_parsed. cbv zeta.
  destruct (uniq_by_str (x :: xs)) as [|y [|z l]]; reflexivity.
Qed.

Theorem combine_nothing o u : combine_parsed [] o u = Ok None.
Proof. reflexivity. Qed.
