(* C01 / C17: the tokens of Trie.tokenize cover every non-blank word of the text exactly once, in
   text order, and start and end on word boundaries. *)
Require Import Model.Base Model.Split Model.Trie Model.Overlap.
Require Import Proofs.Split Proofs.Overlap Proofs.Trie Proofs.Recognise.
From Coq Require Import Lia ZifyBool.
Open Scope Z_scope.

Section Walk.
Context {V : Type}.
Variable O : oracle.
Notation tok := (Trie.tok V).

Definition covers (t : tok) (p : piece) : Prop := tstart t <= pstart p /\ pend p <= tend t.
Definition unmatched (p : piece) : tok :=
  {| tstart := pstart p; tend := pend p; tstring := ptext p; tvalue := None |}.

Lemma incr_piece_nonempty : forall ps p, incr ps -> In p ps -> pstart p <= pend p.
Proof.
  induction ps as [|y l IH]; intros p Hi Hp; [destruct Hp|]. destruct Hi as [A [_ C]].
  destruct Hp as [<-|Hp]; [exact A | apply IH; assumption].
Qed.

(* pieces of an increasing list are ordered by their positions *)
Lemma incr_pos_order : forall ps p q, incr ps -> In p ps -> In q ps -> pstart p <= pend q -> pend p <= pend q.
Proof.
  induction ps as [|x ps IH]; intros p q Hi Hp Hq Hle; [destruct Hp|].
  pose proof Hi as Hi0. destruct Hi as [H1 [H2 H3]]. destruct Hp as [<-|Hp]; destruct Hq as [<-|Hq].
  - lia.
  - specialize (H2 q Hq). pose proof (incr_piece_nonempty ps q H3 Hq). lia.
  - specialize (H2 p Hp). pose proof (incr_piece_nonempty ps p H3 Hp). lia.
  - apply (IH p q H3 Hp Hq Hle).
Qed.

Variable P : list piece.          (* all pieces of the text *)
Hypothesis P_incr : incr P.

(* state of the walk: [ps] the pieces still to visit, [m] the kept matches that have not ended.
   A match is pending when it starts at a piece still to visit, active when it started before
   all of them. Only the head of [m] can be active. *)
Definition ends_on_piece (t : tok) : Prop := exists b, In b P /\ tend t = pend b.
Definition pending (ps : list piece) (t : tok) : Prop := exists a, In a ps /\ tstart t = pstart a.
Definition active (ps : list piece) (t : tok) : Prop := forall q, In q ps -> tstart t < pstart q.

Definition state_ok (ps : list piece) (m : list tok) : Prop :=
  chain_after m /\ Forall ends_on_piece m /\
  match m with
  | [] => True
  | t :: rest => (pending ps t \/ active ps t) /\ Forall (pending ps) rest
  end.

Lemma chain_after_tail (x : tok) l : chain_after (x :: l) -> chain_after l.
Proof. intros [_ H]; exact H. Qed.

Lemma drop_ended_spec : forall (m : list tok) s,
  exists pre, m = pre ++ drop_ended m s /\ (forall x, In x pre -> tend x < s) /\
              match drop_ended m s with [] => True | t :: _ => s <= tend t end.
Proof.
  induction m as [|x m IH]; intro s; simpl.
  - exists []. split; [reflexivity|]. split; [intros x []|exact I].
  - destruct (tend x <? s) eqn:E.
    + destruct (IH s) as [pre [E1 [E2 E3]]]. exists (x :: pre). split; [simpl; rewrite <- E1; reflexivity|].
      split; [|exact E3]. intros y [<-|Hy]; [lia | apply E2; exact Hy].
    + exists []. split; [reflexivity|]. split; [intros y []|lia].
Qed.

Lemma chain_after_app_r (l1 l2 : list tok) : chain_after (l1 ++ l2) -> chain_after l2.
Proof. induction l1 as [|x l1 IH]; intro H; [exact H|]. apply IH. destruct H as [_ H]. exact H. Qed.

Lemma state_ok_drop ps m s : state_ok ps m -> state_ok ps (drop_ended m s).
Proof.
  intros [Hc [He Hs]]. destruct (drop_ended_spec m s) as [pre [E _]].
  remember (drop_ended m s) as m' eqn:Em. clear Em.
  split; [rewrite E in Hc; apply (chain_after_app_r pre m' Hc)|].
  split; [rewrite E in He; apply Forall_app in He as [_ He]; exact He|].
  destruct m' as [|t rest]; [exact I|].
  destruct pre as [|x pre].
  - simpl in E. subst m. exact Hs.
  - subst m. simpl in Hs. destruct Hs as [_ Hr]. apply Forall_app in Hr as [_ Hr].
    inversion Hr as [|? ? Ht Hrest]; subst. split; [left; exact Ht | exact Hrest].
Qed.

(* the head of the remaining matches is the old head unless it was pending *)
Lemma drop_head ps (m : list tok) s t rest : state_ok ps m -> drop_ended m s = t :: rest ->
  m = t :: rest \/ pending ps t.
Proof.
  intros [_ [_ Hs]] E. destruct (drop_ended_spec m s) as [pre [E1 _]]. rewrite E in E1.
  destruct pre as [|x pre]; [left; exact E1|]. right. subst m. simpl in Hs. destruct Hs as [_ Hr].
  apply Forall_app in Hr as [_ Hr]. inversion Hr; subst; assumption.
Qed.

(* one step of the walk keeps the state *)
Lemma state_ok_step p ps (m' : list tok) : incr (p :: ps) -> state_ok (p :: ps) m' ->
  match m' with [] => True | t :: _ => pstart p <= tend t end -> state_ok ps m'.
Proof.
  intros [Hp [Hq Hi]] [Hc [He Hs]] Hlive. split; [exact Hc|]. split; [exact He|].
  destruct m' as [|t rest]; [exact I|]. destruct Hs as [Ht Hr]. split.
  - destruct Ht as [[a [[<-|Ha] Ea]]|Ha].
    + right. intros q Hq'. specialize (Hq q Hq'). lia.
    + left. exists a. split; assumption.
    + right. intros q Hq'. apply Ha. right; exact Hq'.
  - destruct Hc as [Haft _]. rewrite Forall_forall in *. intros x Hx. destruct (Hr x Hx) as [a [[<-|Ha] Ea]].
    + exfalso. specialize (Haft x Hx). unfold is_after in Haft. lia.
    + exists a. split; assumption.
Qed.


(* every token emitted from a state starts at one of the pieces still to visit *)
Lemma retok_starts : forall ps (m : list tok) x, incr ps -> state_ok ps m -> In x (retok O ps m) ->
  exists q, In q ps /\ tstart x = pstart q.
Proof.
  induction ps as [|p ps IH]; intros m x Hi Hs Hx; [destruct Hx|].
  cbn [retok] in Hx. pose proof (state_ok_drop _ _ (pstart p) Hs) as Hs'.
  destruct (drop_ended_spec m (pstart p)) as [_ [_ [_ Hlive]]].
  remember (drop_ended m (pstart p)) as m' eqn:Em. clear Em.
  pose proof (state_ok_step p ps m' Hi Hs' Hlive) as Hn.
  assert (Hrec : In x (retok O ps m') -> exists q, In q (p :: ps) /\ tstart x = pstart q).
  { intro H. destruct Hi as [_ [_ Hi]]. destruct (IH m' x Hi Hn H) as [q [Hq E]]. exists q. split; [right; exact Hq | exact E]. }
  assert (Hun : In x (if is_word_piece O p then unmatched p :: retok O ps m' else retok O ps m') ->
                exists q, In q (p :: ps) /\ tstart x = pstart q).
  { destruct (is_word_piece O p); [|exact Hrec]. intros [<-|H]; [exists p; split; [left; reflexivity | reflexivity] | apply Hrec; exact H]. }
  destruct m' as [|t rest]; [apply Hun; exact Hx|].
  destruct (tstart t <=? pstart p) eqn:E1; [|apply Hun; exact Hx].
  destruct (tstart t =? pstart p) eqn:E2; [|apply Hrec; exact Hx].
  destruct Hx as [<-|Hx]; [exists p; split; [left; reflexivity | lia] | apply Hrec; exact Hx].
Qed.

(* tokens emitted while a match is active start after its end *)
Lemma retok_after_active : forall ps (m : list tok) t rest x, incr ps -> state_ok ps m -> m = t :: rest -> active ps t ->
  In x (retok O ps m) -> tend t < tstart x.
Proof.
  induction ps as [|p ps IH]; intros m t rest x Hi Hs Em Ha Hx; [destruct Hx|].
  pose proof (state_ok_drop _ _ (pstart p) Hs) as Hs'.
  destruct (drop_ended_spec m (pstart p)) as [_ [_ [_ Hlive]]].
  pose proof (state_ok_step p ps _ Hi Hs' Hlive) as Hn.
  subst m. cbn [retok] in Hx. cbn [drop_ended] in Hx, Hs', Hlive, Hn.
  destruct (tend t <? pstart p) eqn:Ed.
  - (* the active match has ended: everything emitted starts at or after the current piece *)
    destruct (retok_starts (p :: ps) (t :: rest) x Hi Hs) as [q [Hq E]].
    { cbn [retok drop_ended]. rewrite Ed. exact Hx. }
    destruct Hi as [Hp [Hlt _]]. destruct Hq as [<-|Hq]; [lia | specialize (Hlt q Hq); lia].
  - assert (Hlt : tstart t < pstart p) by (apply Ha; left; reflexivity).
    replace (tstart t <=? pstart p) with true in Hx by lia.
    replace (tstart t =? pstart p) with false in Hx by lia.
    destruct Hi as [_ [_ Hi]].
    apply (IH (t :: rest) t rest x Hi Hn eq_refl); [|exact Hx].
    intros q Hq. apply Ha. right; exact Hq.
Qed.

(* order and disjointness of the output *)
Lemma retok_chain : forall ps (m : list tok), incr ps -> state_ok ps m -> chain_after (retok O ps m).
Proof.
  induction ps as [|p ps IH]; intros m Hi Hs; [exact I|].
  pose proof (state_ok_drop _ _ (pstart p) Hs) as Hs'.
  destruct (drop_ended_spec m (pstart p)) as [_ [_ [_ Hlive]]].
  cbn [retok]. remember (drop_ended m (pstart p)) as m' eqn:Em. clear Em.
  pose proof (state_ok_step p ps m' Hi Hs' Hlive) as Hn.
  pose proof Hi as Hi0. destruct Hi as [Hp [Hlt Hi]].
  pose proof (IH m' Hi Hn) as Hrec.
  assert (Hun : chain_after (if is_word_piece O p then unmatched p :: retok O ps m' else retok O ps m')).
  { destruct (is_word_piece O p); [|exact Hrec]. split; [|exact Hrec].
    intros y Hy. destruct (retok_starts ps m' y Hi Hn Hy) as [q [Hq E]]. specialize (Hlt q Hq).
    unfold is_after, unmatched. cbn [tend]. lia. }
  destruct m' as [|t rest]; [exact Hun|].
  destruct (tstart t <=? pstart p) eqn:E1; [|exact Hun].
  destruct (tstart t =? pstart p) eqn:E2; [|exact Hrec].
  split; [|exact Hrec]. intros y Hy. unfold is_after.
  assert (Hact : active ps t) by (intros q Hq; specialize (Hlt q Hq); lia).
  pose proof (retok_after_active ps (t :: rest) t rest y Hi Hn eq_refl Hact Hy). lia.
Qed.

(* coverage: every word piece still to visit is inside an emitted token, or inside the active match *)
Lemma retok_cover : forall ps (m : list tok), incr ps -> (forall q, In q ps -> In q P) -> state_ok ps m ->
  forall p, In p ps -> is_word_piece O p = true ->
  (exists t, In t (retok O ps m) /\ covers t p) \/
  (exists t rest, m = t :: rest /\ active ps t /\ covers t p).
Proof.
  induction ps as [|p0 ps IH]; intros m Hi Hsub Hs p Hp Hw; [destruct Hp|].
  pose proof (state_ok_drop _ _ (pstart p0) Hs) as Hs'.
  destruct (drop_ended_spec m (pstart p0)) as [_ [_ [_ Hlive]]].
  pose proof (fun t rest => drop_head (p0 :: ps) m (pstart p0) t rest Hs) as Hhead.
  cbn [retok]. remember (drop_ended m (pstart p0)) as m' eqn:Em. clear Em.
  pose proof (state_ok_step p0 ps m' Hi Hs' Hlive) as Hn.
  pose proof Hi as Hi0. destruct Hi as [Hp0 [Hlt Hi]].
  assert (Hsub' : forall q, In q ps -> In q P) by (intros q Hq; apply Hsub; right; exact Hq).
  (* an active head of m' that is the old head of m, or was emitted at p0 *)
  assert (Hold : forall t rest, m' = t :: rest -> tstart t < pstart p0 -> m = t :: rest /\ active (p0 :: ps) t).
  { intros t rest E Hl. destruct (Hhead t rest E) as [Hm|[a [Ha Ea]]].
    - split; [exact Hm|]. intros q [<-|Hq]; [exact Hl | specialize (Hlt q Hq); lia].
    - exfalso. destruct Ha as [<-|Ha]; [lia | specialize (Hlt a Ha); lia]. }
  destruct Hp as [<-|Hp].
  - (* the current piece *)
    destruct m' as [|t rest].
    + rewrite Hw. left. exists (unmatched p0). split; [left; reflexivity | unfold covers, unmatched; cbn; lia].
    + destruct (tstart t <=? pstart p0) eqn:E1.
      * assert (Hcov : covers t p0).
        { split; [lia|]. destruct Hs' as [_ [He _]]. inversion He as [|? ? [b [Hb Eb]] _]; subst.
          rewrite Eb. apply (incr_pos_order P p0 b P_incr); [apply Hsub; left; reflexivity | exact Hb | lia]. }
        destruct (tstart t =? pstart p0) eqn:E2.
        -- left. exists t. split; [left; reflexivity | exact Hcov].
        -- right. destruct (Hold t rest eq_refl ltac:(lia)) as [Hm Ha]. exists t, rest. repeat split; try assumption; apply Hcov.
      * rewrite Hw. left. exists (unmatched p0). split; [left; reflexivity | unfold covers, unmatched; cbn; lia].
  - (* a later piece *)
    destruct (IH m' Hi Hsub' Hn p Hp Hw) as [[t [Ht Hc]]|[t [rest [Em [Ha Hc]]]]].
    + left. exists t. split; [|exact Hc].
      destruct m' as [|t0 rest0]; [destruct (is_word_piece O p0); [right|]; exact Ht|].
      destruct (tstart t0 <=? pstart p0); [destruct (tstart t0 =? pstart p0); [right|]; exact Ht|].
      destruct (is_word_piece O p0); [right|]; exact Ht.
    + subst m'. destruct (Z.compare_spec (tstart t) (pstart p0)) as [Heq|Hl|Hg].
      * left. exists t. replace (tstart t <=? pstart p0) with true by lia. replace (tstart t =? pstart p0) with true by lia.
        split; [left; reflexivity | exact Hc].
      * right. destruct (Hold t rest eq_refl Hl) as [Hm Hact]. exists t, rest. repeat split; try assumption; apply Hc.
      * exfalso. destruct Hs' as [_ [_ [[[a [Hain Ea]]|Hact] _]]].
        -- destruct Hain as [<-|Hain]; [lia | specialize (Ha a Hain); lia].
        -- specialize (Hact p0 (or_introl eq_refl)). lia.
Qed.

(* every pending match is emitted *)
Lemma retok_emits : forall ps (m : list tok), incr ps -> state_ok ps m ->
  forall t, In t m -> pending ps t -> tstart t <= tend t -> In t (retok O ps m).
Proof.
  induction ps as [|p ps IH]; intros m Hi Hs t Ht [a [Ha Ea]] Hwf; [destruct Ha|].
  pose proof (state_ok_drop _ _ (pstart p) Hs) as Hs'.
  destruct (drop_ended_spec m (pstart p)) as [pre [Epre [Hended Hlive]]].
  assert (Ht' : In t (drop_ended m (pstart p))).
  { rewrite Epre in Ht. apply in_app_or in Ht as [Ht|Ht]; [|exact Ht]. exfalso. specialize (Hended t Ht).
    destruct Hi as [Hp [Hlt _]]. destruct Ha as [<-|Ha]; [lia | specialize (Hlt a Ha); lia]. }
  cbn [retok]. remember (drop_ended m (pstart p)) as m' eqn:Em. clear Em Epre Hended.
  pose proof (state_ok_step p ps m' Hi Hs' Hlive) as Hn.
  pose proof Hi as Hi0. destruct Hi as [Hp [Hlt Hi]].
  destruct m' as [|h rest]; [destruct Ht'|].
  (* unless t is emitted here, it is still pending for the remaining pieces *)
  assert (Hlater : tstart t <> pstart p -> In t (retok O ps (h :: rest))).
  { intro Hne. apply IH; [exact Hi | exact Hn | exact Ht' | | exact Hwf].
    destruct Ha as [<-|Ha]; [contradiction | exists a; split; assumption]. }
  destruct Ht' as [->|Hrest].
  - (* t is the head *)
    destruct (Z.eq_dec (tstart t) (pstart p)) as [E|Hne].
    + replace (tstart t <=? pstart p) with true by lia. replace (tstart t =? pstart p) with true by lia. left; reflexivity.
    + assert (Hgt : pstart p < tstart t).
      { destruct Ha as [<-|Ha]; [contradiction | specialize (Hlt a Ha); lia]. }
      replace (tstart t <=? pstart p) with false by lia.
      destruct (is_word_piece O p); [right|]; apply Hlater; exact Hne.
  - (* t is behind the head: it starts after the head ends, which is at or after this piece *)
    assert (Hne : tstart t <> pstart p).
    { destruct Hs' as [[Haft _] _]. specialize (Haft t Hrest). unfold is_after in Haft. simpl in Hlive. lia. }
    destruct (tstart h <=? pstart p); [destruct (tstart h =? pstart p); [right|]; apply Hlater; exact Hne|].
    destruct (is_word_piece O p); [right|]; apply Hlater; exact Hne.
Qed.

(* unmatched tokens are made of non-blank pieces only *)
Lemma retok_from_word : forall ps m (t : tok), In t (retok O ps m) ->
  In t m \/ exists p, In p ps /\ is_word_piece O p = true /\ t = unmatched p.
Proof.
  induction ps as [|p ps IH]; intros m t H; [destruct H|].
  assert (Hd : forall x, In x (drop_ended m (pstart p)) -> In x m).
  { intros x Hx. destruct (drop_ended_spec m (pstart p)) as [pre [E _]]. rewrite E. apply in_or_app. right; exact Hx. }
  assert (Hrec : forall t, In t (retok O ps (drop_ended m (pstart p))) ->
                 In t m \/ exists q, In q (p :: ps) /\ is_word_piece O q = true /\ t = unmatched q).
  { intros t0 H0. apply IH in H0 as [H0|[q [Hq E]]]; [left; apply Hd; exact H0 | right; exists q; split; [right; exact Hq | exact E]]. }
  cbn [retok] in H. destruct (drop_ended m (pstart p)) as [|y m'] eqn:E.
  - destruct (is_word_piece O p) eqn:Ew; [|apply Hrec; exact H].
    destruct H as [<-|H]; [right; exists p; split; [left; reflexivity | split; [exact Ew | reflexivity]] | apply Hrec; exact H].
  - destruct (tstart y <=? pstart p).
    + destruct (tstart y =? pstart p); [|apply Hrec; exact H].
      destruct H as [<-|H]; [left; apply Hd; left; reflexivity | apply Hrec; exact H].
    + destruct (is_word_piece O p) eqn:Ew; [|apply Hrec; exact H].
      destruct H as [<-|H]; [right; exists p; split; [left; reflexivity | split; [exact Ew | reflexivity]] | apply Hrec; exact H].
Qed.

(* every emitted token starts and ends on a piece boundary *)
Definition on_boundaries (t : tok) : Prop :=
  exists a b, In a P /\ In b P /\ tstart t = pstart a /\ tend t = pend b.

Lemma retok_boundaries : forall ps (m : list tok), (forall q, In q ps -> In q P) ->
  Forall on_boundaries m -> forall x, In x (retok O ps m) -> on_boundaries x.
Proof.
  induction ps as [|p ps IH]; intros m Hsub Hm x Hx; [destruct Hx|].
  cbn [retok] in Hx.
  assert (Hm' : Forall on_boundaries (drop_ended m (pstart p))).
  { destruct (drop_ended_spec m (pstart p)) as [pre [E _]]. rewrite E in Hm. apply Forall_app in Hm as [_ Hm]. exact Hm. }
  remember (drop_ended m (pstart p)) as m' eqn:Em. clear Em.
  assert (Hsub' : forall q, In q ps -> In q P) by (intros q Hq; apply Hsub; right; exact Hq).
  assert (Hun : In x (if is_word_piece O p then unmatched p :: retok O ps m' else retok O ps m') -> on_boundaries x).
  { destruct (is_word_piece O p); [|apply IH; assumption]. intros [<-|H]; [|apply (IH m'); assumption].
    exists p, p. repeat split; apply Hsub; left; reflexivity. }
  destruct m' as [|t rest]; [apply Hun; exact Hx|].
  destruct (tstart t <=? pstart p); [|apply Hun; exact Hx].
  destruct (tstart t =? pstart p); [|apply (IH (t :: rest)); assumption].
  destruct Hx as [<-|Hx]; [inversion Hm'; assumption | apply (IH (t :: rest)); assumption].
Qed.

End Walk.

(* ---- Trie.tokenize ---- *)
Section Tokenize.
Context {V : Type}.
Variable O : oracle.
Variable tr : trie V.
Hypothesis W : wf_trie tr.
Variable text : str.
Notation tok := (Trie.tok V).
Notation P := (pieces O text).

Lemma pieces_incr : incr P.
Proof. eapply contig_incr. apply pieces_contig. Qed.

(* a reported match starts at a word piece and ends at a word piece *)
Lemma match_on_pieces (t : tok) : In t (t_iter O tr text) ->
  exists a b, In a P /\ In b P /\ tstart t = pstart a /\ tend t = pend b.
Proof.
  intro H. apply (scan_exact O tr W text) in H as [pre [mid [post [sp [v [E [Hne [G ->]]]]]]]].
  assert (Hm : forall q, In q mid -> In q P).
  { intros q Hq. assert (Hq' : In q (filter (is_word_piece O) P)) by (rewrite E; apply in_or_app; right; apply in_or_app; left; exact Hq).
    apply filter_In in Hq' as [Hq' _]. exact Hq'. }
  exists (hd dpiece mid), (last mid dpiece).
  split; [apply Hm, hd_in; exact Hne|]. split; [apply Hm, last_in; exact Hne|].
  split; [apply occ_start; exact Hne | reflexivity].
Qed.

Lemma initial_state_ok : state_ok P P (filter_overlapping (t_iter O tr text)).
Proof.
  split; [apply fo_disjoint|].
  assert (Hall : forall t, In t (filter_overlapping (t_iter O tr text)) ->
                           ends_on_piece P t /\ pending P t).
  { intros t Ht. apply fo_sub in Ht. destruct (match_on_pieces t Ht) as [a [b [Ha [Hb [Ea Eb]]]]].
    split; [exists b; split; assumption | exists a; split; assumption]. }
  split; [apply Forall_forall; intros t Ht; apply Hall; exact Ht|].
  destruct (filter_overlapping (t_iter O tr text)) as [|t rest]; [exact I|]. split.
  - left. apply Hall. left; reflexivity.
  - apply Forall_forall. intros x Hx. apply Hall. right; exact Hx.
Qed.

(* C17: the tokens are in text order, each starting after the end of the one before *)
Theorem tokenize_ordered_disjoint : chain_after (t_tokenize O tr text).
Proof. unfold t_tokenize. apply (retok_chain O P); [apply pieces_incr | apply initial_state_ok]. Qed.

(* C17: every token starts at the start of a piece of the text and ends at the end of one *)
Theorem tokenize_on_boundaries (t : tok) : In t (t_tokenize O tr text) -> on_boundaries P t.
Proof.
  unfold t_tokenize. apply (retok_boundaries O P); [intros q Hq; exact Hq|].
  apply Forall_forall. intros x Hx. apply fo_sub in Hx. apply match_on_pieces; exact Hx.
Qed.

(* C01 / C17: every non-blank piece of the text lies inside exactly one token *)
Theorem tokenize_covers_once (p : piece) : In p P -> is_word_piece O p = true ->
  exists pre t post, t_tokenize O tr text = pre ++ t :: post /\ covers t p /\
                     (forall t', In t' (pre ++ post) -> ~ covers t' p).
Proof.
  intros Hp Hw.
  destruct (retok_cover O P pieces_incr P (filter_overlapping (t_iter O tr text)) pieces_incr (fun q H => H) initial_state_ok p Hp Hw)
    as [[t [Ht Hc]]|[t [rest [Em [Ha _]]]]].
  - apply in_split in Ht as [pre [post E]]. exists pre, t, post. fold (t_tokenize O tr text) in E.
    split; [exact E|]. split; [exact Hc|].
    pose proof tokenize_ordered_disjoint as Hch. rewrite E in Hch.
    pose proof (incr_piece_nonempty P p pieces_incr Hp) as Hne.
    intros t' Ht' [C1 C2]. destruct Hc as [D1 D2]. apply in_app_or in Ht' as [Ht'|Ht'].
    + apply In_nth_error in Ht' as [i Hi].
      assert (Hi' : nth_error (pre ++ t :: post) i = Some t').
      { rewrite nth_error_app1; [exact Hi|]. apply nth_error_Some. rewrite Hi. discriminate. }
      assert (Hj : nth_error (pre ++ t :: post) (length pre) = Some t).
      { rewrite nth_error_app2 by lia. rewrite Nat.sub_diag. reflexivity. }
      assert (Hlt : (i < length pre)%nat) by (apply nth_error_Some; rewrite Hi; discriminate).
      pose proof (chain_after_disjoint _ Hch i (length pre) t' t Hlt Hi' Hj). lia.
    + apply In_nth_error in Ht' as [j Hj].
      assert (Hj' : nth_error (pre ++ t :: post) (length pre + S j) = Some t').
      { rewrite nth_error_app2 by lia. replace (length pre + S j - length pre)%nat with (S j) by lia. exact Hj. }
      assert (Hi : nth_error (pre ++ t :: post) (length pre) = Some t).
      { rewrite nth_error_app2 by lia. rewrite Nat.sub_diag. reflexivity. }
      pose proof (chain_after_disjoint _ Hch (length pre) (length pre + S j)%nat t t' ltac:(lia) Hi Hj'). lia.
  - exfalso.
    assert (Ht : In t (filter_overlapping (t_iter O tr text))) by (rewrite Em; left; reflexivity).
    apply fo_sub in Ht. destruct (match_on_pieces t Ht) as [a [_ [Hain [_ [Ea _]]]]].
    specialize (Ha a Hain). lia.
Qed.

(* C17: every match kept by the overlap filter is a token of the result *)
Theorem tokenize_keeps_matches (t : tok) : In t (filter_overlapping (t_iter O tr text)) -> In t (t_tokenize O tr text).
Proof.
  intro Ht. unfold t_tokenize. pose proof Ht as Ht0. apply fo_sub in Ht0.
  destruct (match_on_pieces t Ht0) as [a [_ [Ha [_ [Ea _]]]]].
  apply (retok_emits O P P _ pieces_incr initial_state_ok t Ht); [exists a; split; assumption|].
  exact (proj2 (proj2 (proj2 (match_inside O tr W text t Ht0)))).
Qed.

(* two pieces of the text that share a position are the same piece *)
Lemma incr_same : forall ps p q, incr ps -> In p ps -> In q ps -> pstart q <= pstart p <= pend q -> p = q.
Proof.
  induction ps as [|a ps IH]; intros p q Hi Hp Hq Hle; [destruct Hp|].
  pose proof (incr_piece_nonempty _ p Hi Hp) as Np. pose proof (incr_piece_nonempty _ q Hi Hq) as Nq.
  destruct Hi as [Ha [Hlt Hi]]. destruct Hp as [<-|Hp]; destruct Hq as [<-|Hq].
  - reflexivity.
  - specialize (Hlt q Hq). lia.
  - specialize (Hlt p Hp). lia.
  - apply (IH p q Hi Hp Hq Hle).
Qed.

(* C17: a word that no kept match covers reappears as an unmatched token of its own *)
Theorem tokenize_unmatched_word (p : piece) : In p P -> is_word_piece O p = true ->
  (forall t, In t (filter_overlapping (t_iter O tr text)) -> ~ covers t p) ->
  In (unmatched p) (t_tokenize O tr text).
Proof.
  intros Hp Hw Hno. destruct (tokenize_covers_once p Hp Hw) as [pre [t [post [E [Hc _]]]]].
  assert (Ht : In t (t_tokenize O tr text)) by (rewrite E; apply in_or_app; right; left; reflexivity).
  pose proof Ht as Ht0. unfold t_tokenize in Ht. apply retok_from in Ht as [Hm|[q [Hq Eq]]].
  - exfalso. apply (Hno t Hm Hc).
  - assert (p = q).
    { apply (incr_same P p q pieces_incr Hp Hq). subst t. destruct Hc as [C1 C2]. cbn in C1, C2.
      pose proof (incr_piece_nonempty P p pieces_incr Hp). lia. }
    subst q. unfold unmatched. rewrite <- Eq. exact Ht0.
Qed.

End Tokenize.
