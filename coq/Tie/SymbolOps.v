(* The sort keys and the hashed tuples of the license symbols, as generated from the source on this run, are the ones
   the model and the proofs of C13 / C07 use: sort_key() of a plain (or wrapped) symbol is (str, 0, key, flag, '', False),
   of a WITH symbol (str, 1, key, flag, key, flag); __hash__ hashes (key, flag), resp. the two parts; __eq__ compares
   exactly these fields (checked by the translator, which refuses anything else). *)
Require Import Model.Base Model.Expr Model.Simplify Gen.SymbolOps.

Lemma sort_key_plain_ok (s : sym) : sort_key (Plain s) = g_sort_key_plain (atom_str (Plain s)) (key s) (exc s).
Proof. reflexivity. Qed.

Lemma sort_key_with_ok (l r : sym) :
  sort_key (With l r) = g_sort_key_with (atom_str (With l r)) (key l) (exc l) (key r) (exc r).
Proof. reflexivity. Qed.

Lemma hash_plain_ok (s : sym) : atom_hash_input (Plain s) = g_hash_plain (key s) (exc s) /\ atom_hash_input (Plain s) = g_hash_like (key s) (exc s).
Proof. split; reflexivity. Qed.

Lemma hash_with_ok (l r : sym) : atom_hash_input (With l r) = g_hash_with (sym_hash_input l) (sym_hash_input r).
Proof. reflexivity. Qed.

(* the fields compared by __eq__: the key and the flag, for plain and wrapped symbols alike *)
Lemma eq_fields_ok : g_eq_fields_plain = [true; false] /\ g_eq_fields_like = [true; false].
Proof. split; reflexivity. Qed.
