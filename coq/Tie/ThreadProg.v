(* The statement order of Licensing.get_advanced_tokenizer, as generated from the source on this
   run, satisfies the hypothesis of the thread-safety theorem: every statement that publishes or returns the thread's own
   tokenizer stands where that tokenizer is complete, and none changes it once it is published (safe_order; the body of a
   "with self.<lock>:" block is read as if it stood alone - the criterion does not rely on a lock). *)
Require Import Model.Base Model.Threads Proofs.Threads Proofs.ThreadsGen Gen.ThreadProg.

Lemma thread_prog_safe : safe_order thread_prog = true.
Proof. vm_compute. reflexivity. Qed.

Theorem threads_safe_repo : forall n sched th,
  In th (threads (run_sched thread_prog (start n) sched)) -> result th = None \/ result th = Some true.
Proof. exact (threads_safe_order thread_prog thread_prog_safe). Qed.
