(* The statement order of Licensing.get_advanced_tokenizer, as generated from the source on this
   run, satisfies the hypothesis of the thread-safety theorem. *)
Require Import Model.Base Model.Threads Proofs.Threads Gen.ThreadProg.

Lemma thread_prog_safe : shape_safe thread_prog = true.
Proof. reflexivity. Qed.

Theorem threads_safe_repo : forall n sched th,
  In th (threads (run_sched thread_prog (start n) sched)) -> result th = None \/ result th = Some true.
Proof. exact (threads_safe thread_prog thread_prog_safe). Qed.
