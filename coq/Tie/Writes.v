(* Every statement of the two source files, as read on this run, that can change an object the running call did not create
   stands where the thread model and the history model allow it. *)
Require Import Model.Writes Gen.Writes.

Lemma writes_confined : confined writes = true /\ constants_untouched writes = true.
Proof. split; vm_compute; reflexivity. Qed.
