(* The constants the model hard-wires equal the ones found in the sources on this run. *)
Require Import Model.Base Model.Expr Model.LicTok Model.BoolParse Gen.Consts.

Lemma codes :
  g_PARSE_UNKNOWN_TOKEN = PARSE_UNKNOWN_TOKEN /\
  g_PARSE_UNBALANCED_CLOSING_PARENS = PARSE_UNBALANCED_CLOSING_PARENS /\
  g_PARSE_INVALID_EXPRESSION = PARSE_INVALID_EXPRESSION /\
  g_PARSE_INVALID_NESTING = PARSE_INVALID_NESTING /\
  g_PARSE_INVALID_SYMBOL_SEQUENCE = PARSE_INVALID_SYMBOL_SEQUENCE /\
  g_PARSE_INVALID_OPERATOR_SEQUENCE = PARSE_INVALID_OPERATOR_SEQUENCE /\
  g_PARSE_EXPRESSION_NOT_UNICODE = PARSE_EXPRESSION_NOT_UNICODE /\
  g_PARSE_INVALID_EXCEPTION = PARSE_INVALID_EXCEPTION /\
  g_PARSE_INVALID_SYMBOL_AS_EXCEPTION = PARSE_INVALID_SYMBOL_AS_EXCEPTION /\
  g_PARSE_INVALID_SYMBOL = PARSE_INVALID_SYMBOL.
Proof. repeat split; reflexivity. Qed.

Lemma keywords :
  g_KW_AND = s_and /\ g_KW_OR = s_or /\ g_KW_WITH = s_with /\ g_KW_LPAR = s_lpar /\ g_KW_RPAR = s_rpar /\
  map fst keyword_adds = [g_KW_AND; g_KW_OR; g_KW_LPAR; g_KW_RPAR; g_KW_WITH].
Proof. repeat split; reflexivity. Qed.

Lemma operators : g_op_and = s_AND_sp /\ g_op_or = s_OR_sp.
Proof. split; reflexivity. Qed.

Lemma precedences :
  g_prec_and = prec FAnd /\ g_prec_or = prec FOr /\ g_prec_lpar = prec FLpar /\
  (g_order_symbol < g_order_and)%nat /\ (g_order_and < g_order_or)%nat.
Proof. repeat split; try reflexivity; unfold g_order_symbol, g_order_and, g_order_or; apply PeanoNat.Nat.ltb_lt; reflexivity. Qed.

(* the splitter of the model (three disjoint classes: white space, single parentheses, other text)
   is the reading of exactly these three patterns *)
Definition re_tokenizer_expected : str :=
  [40; 63; 80; 60; 116; 101; 120; 116; 62; 91; 94; 92; 115; 92; 40; 92; 41; 93; 43; 41; 124; 40; 63; 80; 60; 115; 112; 97; 99; 101; 62; 92; 115; 43; 41; 124; 40; 63; 80; 60; 112; 97; 114; 101; 110; 115; 62; 91; 92; 40; 92; 41; 93; 41]%N.
Definition re_simple_expected : str :=
  [40; 63; 80; 60; 115; 121; 109; 111; 112; 62; 91; 94; 92; 115; 92; 40; 92; 41; 93; 43; 41; 124; 40; 63; 80; 60; 115; 112; 97; 99; 101; 62; 92; 115; 43; 41; 124; 40; 63; 80; 60; 108; 112; 97; 114; 62; 92; 40; 41; 124; 40; 63; 80; 60; 114; 112; 97; 114; 62; 92; 41; 41]%N.
Definition re_valid_key_expected : str := [94; 91; 45; 58; 92; 119; 92; 115; 92; 46; 92; 43; 93; 43; 36]%N.

Lemma regexes :
  g_re_tokenizer = re_tokenizer_expected /\ g_re_simple_tokenizer = re_simple_expected /\ g_re_valid_key = re_valid_key_expected.
Proof. repeat split; reflexivity. Qed.
