(* The interval predicates of Token, as generated from their return expressions on this run, are
   extensionally the predicates the model and the proofs of C17 use. A semantics-preserving rewrite
   of the source still checks; a changed comparison does not. *)
Require Import Model.Base Model.Split Model.Trie Model.Overlap Gen.Preds.
From Coq Require Import ZArith Lia ZifyBool.
Open Scope Z_scope.

Section Tie.
Context {V : Type}.
Notation tok := (Trie.tok V).

Lemma len_ok (a : tok) : g_len (tstart a) (tend a) = tok_len a.
Proof. unfold g_len, tok_len. lia. Qed.

Lemma is_after_ok (a b : tok) : g_is_after (tstart a) (tend a) (tstart b) (tend b) = is_after a b.
Proof. unfold g_is_after, is_after. lia. Qed.

Lemma contains_ok (a b : tok) : g_contains (tstart a) (tend a) (tstart b) (tend b) = tcontains a b.
Proof. unfold g_contains, tcontains. lia. Qed.

Lemma overlap_ok (a b : tok) : g_overlap (tstart a) (tend a) (tstart b) (tend b) = overlap a b.
Proof. unfold g_overlap, overlap. lia. Qed.

(* sorted(tokens, key=...) : a sorts before b iff its key is smaller (tuple order) *)
Lemma sort_key_ok (a b : tok) :
  key_ltb a b =
  (let '(k1, k2) := g_sort_key (tstart a) (tend a) in
   let '(l1, l2) := g_sort_key (tstart b) (tend b) in
   (k1 <? l1) || ((k1 =? l1) && (k2 <? l2))).
Proof. unfold key_ltb, g_sort_key, g_len, tok_len. lia. Qed.

(* on a length tie the current (earlier) token is kept *)
Lemma keep_curr_ok (c n : tok) : g_keep_curr (tok_len c) (tok_len n) = (tok_len n <=? tok_len c).
Proof. reflexivity. Qed.

End Tie.
