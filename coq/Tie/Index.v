(* Facts about the shipped license index, computed by the kernel on the file generated from the JSON
   on this run: both bundled tables build without error (every key is accepted by LicenseSymbol and
   the table is unambiguous), the known keys are exactly the keys of the retained entries, and no
   deprecated key (nor, for SPDX, any entry without an SPDX key) is a known key. *)
Require Import Model.Base Model.Expr Model.LicTok Model.Licensing Model.Index Gen.Index.

Definition is_ok {A} (o : outcome A) : bool := match o with Ok _ => true | _ => false end.
Definition table_of (o : outcome (list entry)) : list entry := match o with Ok T => T | _ => [] end.

(* evaluated once *)
Definition scancode_result := Eval vm_compute in build_licensing ascii_oracle shipped_index.
Definition spdx_result := Eval vm_compute in build_spdx_licensing ascii_oracle shipped_index.

Lemma scancode_result_eq : build_licensing ascii_oracle shipped_index = scancode_result.
Proof. vm_compute. reflexivity. Qed.
Lemma spdx_result_eq : build_spdx_licensing ascii_oracle shipped_index = spdx_result.
Proof. vm_compute. reflexivity. Qed.

Lemma shipped_scancode_builds : is_ok (build_licensing ascii_oracle shipped_index) = true.
Proof. rewrite scancode_result_eq. vm_compute. reflexivity. Qed.

Lemma shipped_spdx_builds : is_ok (build_spdx_licensing ascii_oracle shipped_index) = true.
Proof. rewrite spdx_result_eq. vm_compute. reflexivity. Qed.

(* the known keys are exactly the keys of the retained entries, in order, unchanged *)
Lemma shipped_scancode_keys :
  map ekey (table_of (build_licensing ascii_oracle shipped_index)) = map ekey (scancode_raw shipped_index).
Proof. rewrite scancode_result_eq. vm_compute. reflexivity. Qed.

Lemma shipped_spdx_keys :
  map ekey (table_of (build_spdx_licensing ascii_oracle shipped_index)) = map ekey (spdx_raw shipped_index).
Proof. rewrite spdx_result_eq. vm_compute. reflexivity. Qed.

(* deprecated entries are unknown *)
Lemma shipped_deprecated_unknown :
  (let T := table_of (build_licensing ascii_oracle shipped_index) in
   forallb (fun l => negb (deprecated l) || negb (known_key T (license_key l))) shipped_index) = true.
Proof. rewrite scancode_result_eq. vm_compute. reflexivity. Qed.

Lemma shipped_spdx_excluded_unknown :
  (let T := table_of (build_spdx_licensing ascii_oracle shipped_index) in
   forallb (fun l => (negb (deprecated l) && negb (match spdx_key l with [] => true | _ => false end)) ||
                     match spdx_key l with
                     | [] => true
                     | k => negb (known_key T k)
                     end)
           shipped_index) = true.
Proof. rewrite spdx_result_eq. vm_compute. reflexivity. Qed.

(* no name of the two tables holds an operator word or a parenthesis, and every name has words *)
Lemma shipped_scancode_opfree :
  names_opfree_b ascii_oracle (table_of (build_licensing ascii_oracle shipped_index)) = true /\
  names_have_words_b ascii_oracle (table_of (build_licensing ascii_oracle shipped_index)) = true.
Proof. rewrite scancode_result_eq. split; vm_compute; reflexivity. Qed.

Lemma shipped_spdx_opfree :
  names_opfree_b ascii_oracle (table_of (build_spdx_licensing ascii_oracle shipped_index)) = true /\
  names_have_words_b ascii_oracle (table_of (build_spdx_licensing ascii_oracle shipped_index)) = true.
Proof. rewrite spdx_result_eq. split; vm_compute; reflexivity. Qed.
