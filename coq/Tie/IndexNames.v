(* Every name of the two shipped tables - any letter case, any white space - is recognised as its entry, renders as the
   canonical key and validates without errors: the general theorem over accepted tables (Proofs/Accepted.v) instantiated with
   what the kernel computed about the shipped index (Tie/Index.v). *)
Require Import Model.Base Model.Expr Model.Split Model.LicTok Model.Licensing Model.Index Gen.Index Tie.Index.
Require Import Proofs.Strings Proofs.Accepted Proofs.AsciiOracle.

Lemma opfree_reflect O T : names_opfree_b O T = true ->
  forall n v, In (n, v) (flat_map (entry_adds O) T) -> forall w, In w (lwords O n) -> is_keyword_str w = false.
Proof.
  unfold names_opfree_b. intros H n v Hin w Hw. rewrite forallb_forall in H. specialize (H (n, v) Hin). cbn [fst] in H.
  rewrite forallb_forall in H. specialize (H w Hw). apply negb_true_iff in H. exact H.
Qed.

Lemma have_words_reflect O T : names_have_words_b O T = true ->
  forall n v, In (n, v) (flat_map (entry_adds O) T) -> lwords O n <> [].
Proof.
  unfold names_have_words_b. intros H n v Hin. rewrite forallb_forall in H. specialize (H (n, v) Hin). cbn [fst] in H.
  destruct (lwords O n); [discriminate | discriminate].
Qed.

Lemma built_of_is_ok (x : outcome (list entry)) : is_ok x = true -> x = Ok (table_of x).
Proof. destruct x; try discriminate. reflexivity. Qed.

(* nothing below computes on the index: the constants that hold it stay folded *)
Opaque shipped_index new_licensing scancode_raw spdx_raw names_opfree_b names_have_words_b parse validate lwords entry_adds.

Definition resolves (T : list entry) : Prop :=
  forall e n v text, In e T -> In (n, v) (entry_adds ascii_oracle e) -> lwords ascii_oracle text = lwords ascii_oracle n ->
  parse ascii_oracle T false false false text = Ok (Some (Lit (Plain (entry_sym e)))) /\
  render (Lit (Plain (entry_sym e))) = ekey e /\
  validate ascii_oracle T false text = {| normalized := Some (ekey e); errors := []; invalid_symbols := [] |}.

Lemma resolves_from raw T : new_licensing ascii_oracle raw = Ok T ->
  names_have_words_b ascii_oracle T = true -> resolves T.
Proof.
  intros HB H2 e n v text He Hn Et.
  apply (accepted_name_resolves ascii_oracle ascii_sp_is_space ascii_kw_plain ascii_paren_not_word ascii_lower_space ascii_lower_nospace raw T HB
           e n v text He Hn); [|exact Et].
  apply (have_words_reflect ascii_oracle T H2 n v). apply in_flat_map. exists e. split; assumption.
Qed.


Lemma sc_built : new_licensing ascii_oracle (scancode_raw shipped_index) = Ok (table_of (build_licensing ascii_oracle shipped_index)).
Proof. exact (built_of_is_ok (build_licensing ascii_oracle shipped_index) shipped_scancode_builds). Qed.

Lemma sp_built : new_licensing ascii_oracle (spdx_raw shipped_index) = Ok (table_of (build_spdx_licensing ascii_oracle shipped_index)).
Proof. exact (built_of_is_ok (build_spdx_licensing ascii_oracle shipped_index) shipped_spdx_builds). Qed.

Theorem shipped_scancode_names_resolve : resolves (table_of (build_licensing ascii_oracle shipped_index)).
Proof.
  exact (resolves_from (scancode_raw shipped_index) (table_of (build_licensing ascii_oracle shipped_index)) sc_built
           (proj2 shipped_scancode_opfree)).
Qed.

Theorem shipped_spdx_names_resolve : resolves (table_of (build_spdx_licensing ascii_oracle shipped_index)).
Proof.
  exact (resolves_from (spdx_raw shipped_index) (table_of (build_spdx_licensing ascii_oracle shipped_index)) sp_built
           (proj2 shipped_spdx_opfree)).
Qed.

Theorem shipped_names_resolve :
  resolves (table_of (build_licensing ascii_oracle shipped_index)) /\
  resolves (table_of (build_spdx_licensing ascii_oracle shipped_index)).
Proof. exact (conj shipped_scancode_names_resolve shipped_spdx_names_resolve). Qed.
