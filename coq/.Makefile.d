Model/Base.vo Model/Base.glob Model/Base.v.beautified Model/Base.required_vo: Model/Base.v 
Model/Base.vio: Model/Base.v 
Model/Base.vos Model/Base.vok Model/Base.required_vos: Model/Base.v 
Model/Expr.vo Model/Expr.glob Model/Expr.v.beautified Model/Expr.required_vo: Model/Expr.v Model/Base.vo
Model/Expr.vio: Model/Expr.v Model/Base.vio
Model/Expr.vos Model/Expr.vok Model/Expr.required_vos: Model/Expr.v Model/Base.vos
Model/Simplify.vo Model/Simplify.glob Model/Simplify.v.beautified Model/Simplify.required_vo: Model/Simplify.v Model/Base.vo Model/Expr.vo
Model/Simplify.vio: Model/Simplify.v Model/Base.vio Model/Expr.vio
Model/Simplify.vos Model/Simplify.vok Model/Simplify.required_vos: Model/Simplify.v Model/Base.vos Model/Expr.vos
Model/Split.vo Model/Split.glob Model/Split.v.beautified Model/Split.required_vo: Model/Split.v Model/Base.vo
Model/Split.vio: Model/Split.v Model/Base.vio
Model/Split.vos Model/Split.vok Model/Split.required_vos: Model/Split.v Model/Base.vos
Model/Trie.vo Model/Trie.glob Model/Trie.v.beautified Model/Trie.required_vo: Model/Trie.v Model/Base.vo Model/Split.vo
Model/Trie.vio: Model/Trie.v Model/Base.vio Model/Split.vio
Model/Trie.vos Model/Trie.vok Model/Trie.required_vos: Model/Trie.v Model/Base.vos Model/Split.vos
Model/Overlap.vo Model/Overlap.glob Model/Overlap.v.beautified Model/Overlap.required_vo: Model/Overlap.v Model/Base.vo Model/Split.vo Model/Trie.vo
Model/Overlap.vio: Model/Overlap.v Model/Base.vio Model/Split.vio Model/Trie.vio
Model/Overlap.vos Model/Overlap.vok Model/Overlap.required_vos: Model/Overlap.v Model/Base.vos Model/Split.vos Model/Trie.vos
Model/LicTok.vo Model/LicTok.glob Model/LicTok.v.beautified Model/LicTok.required_vo: Model/LicTok.v Model/Base.vo Model/Expr.vo Model/Split.vo Model/Trie.vo Model/Overlap.vo
Model/LicTok.vio: Model/LicTok.v Model/Base.vio Model/Expr.vio Model/Split.vio Model/Trie.vio Model/Overlap.vio
Model/LicTok.vos Model/LicTok.vok Model/LicTok.required_vos: Model/LicTok.v Model/Base.vos Model/Expr.vos Model/Split.vos Model/Trie.vos Model/Overlap.vos
Model/BoolParse.vo Model/BoolParse.glob Model/BoolParse.v.beautified Model/BoolParse.required_vo: Model/BoolParse.v Model/Base.vo Model/Expr.vo Model/LicTok.vo
Model/BoolParse.vio: Model/BoolParse.v Model/Base.vio Model/Expr.vio Model/LicTok.vio
Model/BoolParse.vos Model/BoolParse.vok Model/BoolParse.required_vos: Model/BoolParse.v Model/Base.vos Model/Expr.vos Model/LicTok.vos
Model/Licensing.vo Model/Licensing.glob Model/Licensing.v.beautified Model/Licensing.required_vo: Model/Licensing.v Model/Base.vo Model/Expr.vo Model/Simplify.vo Model/Split.vo Model/Trie.vo Model/Overlap.vo Model/LicTok.vo Model/BoolParse.vo
Model/Licensing.vio: Model/Licensing.v Model/Base.vio Model/Expr.vio Model/Simplify.vio Model/Split.vio Model/Trie.vio Model/Overlap.vio Model/LicTok.vio Model/BoolParse.vio
Model/Licensing.vos Model/Licensing.vok Model/Licensing.required_vos: Model/Licensing.v Model/Base.vos Model/Expr.vos Model/Simplify.vos Model/Split.vos Model/Trie.vos Model/Overlap.vos Model/LicTok.vos Model/BoolParse.vos
Model/Codec.vo Model/Codec.glob Model/Codec.v.beautified Model/Codec.required_vo: Model/Codec.v Model/Base.vo Model/Expr.vo Model/Simplify.vo Model/Split.vo Model/Trie.vo Model/Overlap.vo Model/LicTok.vo Model/BoolParse.vo Model/Licensing.vo
Model/Codec.vio: Model/Codec.v Model/Base.vio Model/Expr.vio Model/Simplify.vio Model/Split.vio Model/Trie.vio Model/Overlap.vio Model/LicTok.vio Model/BoolParse.vio Model/Licensing.vio
Model/Codec.vos Model/Codec.vok Model/Codec.required_vos: Model/Codec.v Model/Base.vos Model/Expr.vos Model/Simplify.vos Model/Split.vos Model/Trie.vos Model/Overlap.vos Model/LicTok.vos Model/BoolParse.vos Model/Licensing.vos
Model/Run.vo Model/Run.glob Model/Run.v.beautified Model/Run.required_vo: Model/Run.v Model/Base.vo Model/Expr.vo Model/Simplify.vo Model/Split.vo Model/Trie.vo Model/Overlap.vo Model/LicTok.vo Model/BoolParse.vo Model/Licensing.vo Model/Codec.vo
Model/Run.vio: Model/Run.v Model/Base.vio Model/Expr.vio Model/Simplify.vio Model/Split.vio Model/Trie.vio Model/Overlap.vio Model/LicTok.vio Model/BoolParse.vio Model/Licensing.vio Model/Codec.vio
Model/Run.vos Model/Run.vok Model/Run.required_vos: Model/Run.v Model/Base.vos Model/Expr.vos Model/Simplify.vos Model/Split.vos Model/Trie.vos Model/Overlap.vos Model/LicTok.vos Model/BoolParse.vos Model/Licensing.vos Model/Codec.vos
