(* Extraction of the executable model. Only ExtrOcamlBasic's directives are used: bool, option,
   unit, list, prod, sumbool, sumor to OCaml natives and andb/orb/negb/fst/snd inlined;
   N, Z, positive and nat stay the extracted inductive types. *)
Require Extraction.
Require Import ExtrOcamlBasic.
Require Import Model.Base Model.Codec Model.Run.
Extraction Language OCaml.
Extraction "model.ml" dispatch Build_oracle.
