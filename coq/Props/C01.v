(* C01 — Parsing never drops, duplicates or alters any word of the input.
   Full statement on the model, for every oracle with U+0020 a white-space character, every table,
   every text, strict or not, for both tokenizers: if parse succeeds with expression e then
   (1) the literals of e, left to right with repetitions, are the license tokens of
       Licensing.tokenize in order (literals e = tok_atoms ptoks), and
   (2) the non-blank pieces of the text (its words: split on white space and parentheses) are the
       concatenation, in order, of one group of pieces per token (concat gs = word pieces), where
       an operator or parenthesis token owns the pieces spelling that keyword, a known license the
       pieces whose lower-cased words are the lower-cased words of its key or of one of its aliases,
       an unknown license the pieces whose texts joined by single spaces are its key verbatim, and a
       WITH pair the three groups of its parts (ptok_acc); each token's position is the start of
       its first piece.
   With the default tokenizer "the words under which the matcher stores a name" are lwords of the
   key / alias (kw_acc, sym_acc); with the simple tokenizer a token owns one piece whose lower-cased
   text is the lower-cased key (kw_acc_s, sym_acc_s).
   Supporting theorems kept below: matcher-level coverage, order, slices. *)
Require Import Model.Base Model.Expr Model.Split Model.Trie Model.Overlap Model.LicTok Model.BoolParse.
Require Import Proofs.ParseLits Proofs.Trie Proofs.Overlap Proofs.Cover Proofs.Account.

Theorem C01_literals_are_the_license_tokens : forall ts e, bparse ts = POk e -> literals e = tok_atoms ts.
Proof. exact bparse_literals. Qed.
Print Assumptions C01_literals_are_the_license_tokens.

Theorem C01_matches_are_stored_names_partial : forall V O (tr : trie V), wf_trie tr -> forall text (t : Trie.tok V),
  In t (t_iter O tr text) ->
  exists pre mid post sp v,
    filter (is_word_piece O) (pieces O text) = pre ++ mid ++ post /\ mid <> [] /\
    get_out (lws O mid) (outs tr) = Some (sp, v) /\
    t = occurrence_tok text mid (List.last mid {| pstart := 0%Z; ptext := [] |}) v.
Proof. intros V O tr W text t H. apply (proj1 (@scan_exact V O tr W text t)). exact H. Qed.
Print Assumptions C01_matches_are_stored_names_partial.

Theorem C01_stored_under_its_words : forall V O (ops : list (str * V)) p n v,
  stored O ops p = Some (n, v) -> lwords O n = p /\ In (n, v) ops.
Proof. intros V O. exact (@stored_words V O). Qed.
Print Assumptions C01_stored_under_its_words.

Theorem C01_token_is_slice : forall V O (tr : trie V) text t,
  In t (t_tokenize O tr text) -> tstring t = slice text (tstart t) (tend t).
Proof. intros V O. exact (@tokenize_slices V O). Qed.
Print Assumptions C01_token_is_slice.

Theorem C01_every_word_in_exactly_one_token : forall V O (tr : trie V), wf_trie tr -> forall text p,
  In p (pieces O text) -> is_word_piece O p = true ->
  exists pre t post, t_tokenize O tr text = pre ++ t :: post /\ covers t p /\
                     (forall t', In t' (pre ++ post) -> ~ covers t' p).
Proof. intros V O. exact (@tokenize_covers_once V O). Qed.
Print Assumptions C01_every_word_in_exactly_one_token.

Theorem C01_tokens_in_text_order : forall V O (tr : trie V), wf_trie tr -> forall text,
  chain_after (t_tokenize O tr text).
Proof. intros V O. exact (@tokenize_ordered_disjoint V O). Qed.
Print Assumptions C01_tokens_in_text_order.

Theorem C01_words_and_licenses_accounted_default : forall O, is_space O 32%N = true -> forall T text strict e,
  Licensing.parse_tokens O T strict false text = Ok e ->
  exists ptoks gs, lic_tokenize O T strict false text = Ok ptoks /\ literals e = tok_atoms ptoks /\
                   concat gs = filter (is_word_piece O) (pieces O text) /\
                   Forall2 (ptok_acc O text (kw_acc O) (sym_acc O T text)) ptoks gs.
Proof. exact parse_accounted. Qed.
Print Assumptions C01_words_and_licenses_accounted_default.

Theorem C01_words_and_licenses_accounted_simple : forall O, is_space O 32%N = true -> forall T text strict e,
  Licensing.parse_tokens O T strict true text = Ok e ->
  exists ptoks gs, lic_tokenize O T strict true text = Ok ptoks /\ literals e = tok_atoms ptoks /\
                   concat gs = filter (is_word_piece O) (pieces O text) /\
                   Forall2 (ptok_acc O text (kw_acc_s O) (sym_acc_s O T)) ptoks gs.
Proof. exact parse_accounted_simple. Qed.
Print Assumptions C01_words_and_licenses_accounted_simple.

(* the statement says something: "GNU  gpl  or (zz yy)" over a table with the alias "gnu gpl" *)
Require Import Model.Index Model.Licensing.
Example C01_example :
  let T := [ {| ekey := [103; 112; 108]%N; ealiases := [[103; 110; 117; 32; 103; 112; 108]%N]; eexc := false |} ] in
  exists e, parse_tokens ascii_oracle T false false [71; 78; 85; 32; 32; 103; 112; 108; 32; 32; 111; 114; 32; 40; 122; 122; 32; 121; 121; 41]%N = Ok e /\
            literals e = [Plain {| key := [103; 112; 108]%N; exc := false |}; Plain {| key := [122; 122; 32; 121; 121]%N; exc := false |}].
Proof. eexists. split; vm_compute; reflexivity. Qed.
