(* C01 — Parsing never drops, duplicates or alters any word of the input (partial).
   Proved: (1) the licenses of the expression returned by the boolean parser, read left to right
   with repetitions, are exactly the license tokens of the token sequence, in order; (2) every
   match the scan reports covers a stretch of word pieces of the text whose lower-cased words are
   the stored word sequence of a name, and a name is stored under the lower-cased words of a key or
   alias that was added; (3) every token of Trie.tokenize carries the slice of the text between its
   positions; (4) the tokens of Trie.tokenize are in text order, disjoint, start and end on piece
   boundaries, and every non-blank piece of the text lies inside exactly one of them - so no word is
   dropped or duplicated by the matcher. The remaining link - from the token list of the matcher
   through unknown-run merging and WITH grouping to the statement about the words of the keys - is
   decided by the word accounting oracle and the correspondence on every case. *)
Require Import Model.Base Model.Expr Model.Split Model.Trie Model.Overlap Model.LicTok Model.BoolParse.
Require Import Proofs.ParseLits Proofs.Trie Proofs.Overlap Proofs.Cover.

Theorem C01_literals_are_the_license_tokens : forall ts e, bparse ts = POk e -> literals e = tok_atoms ts.
Proof. exact bparse_literals. Qed.
Print Assumptions C01_literals_are_the_license_tokens.

Theorem C01_matches_are_stored_names_partial : forall V O (tr : trie V), wf_trie tr -> forall text (t : Trie.tok V),
  In t (t_iter O tr text) ->
  exists pre mid post sp v,
    filter (is_word_piece O) (pieces O text) = pre ++ mid ++ post /\ mid <> [] /\
    get_out (lws O mid) (outs tr) = Some (sp, v) /\
    t = occurrence_tok text mid (List.last mid {| pstart := 0%Z; ptext := [] |}) v.
Proof. intros V O tr W text t H. apply (proj1 (@scan_exact V O tr W text t)). exact H. Qed.
Print Assumptions C01_matches_are_stored_names_partial.

Theorem C01_stored_under_its_words : forall V O (ops : list (str * V)) p n v,
  stored O ops p = Some (n, v) -> lwords O n = p /\ In (n, v) ops.
Proof. intros V O. exact (@stored_words V O). Qed.
Print Assumptions C01_stored_under_its_words.

Theorem C01_token_is_slice : forall V O (tr : trie V) text t,
  In t (t_tokenize O tr text) -> tstring t = slice text (tstart t) (tend t).
Proof. intros V O. exact (@tokenize_slices V O). Qed.
Print Assumptions C01_token_is_slice.

Theorem C01_every_word_in_exactly_one_token : forall V O (tr : trie V), wf_trie tr -> forall text p,
  In p (pieces O text) -> is_word_piece O p = true ->
  exists pre t post, t_tokenize O tr text = pre ++ t :: post /\ covers t p /\
                     (forall t', In t' (pre ++ post) -> ~ covers t' p).
Proof. intros V O. exact (@tokenize_covers_once V O). Qed.
Print Assumptions C01_every_word_in_exactly_one_token.

Theorem C01_tokens_in_text_order : forall V O (tr : trie V), wf_trie tr -> forall text,
  chain_after (t_tokenize O tr text).
Proof. intros V O. exact (@tokenize_ordered_disjoint V O). Qed.
Print Assumptions C01_tokens_in_text_order.
