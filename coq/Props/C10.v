(* C10 — License key and symbol listings follow text order.
   The listings of a parsed expression are projections of its literals, which are in text order
   (C01): every occurrence in order when uniqueness is off; each symbol once, at its first
   occurrence, when it is on; a WITH pair as license then exception, or as one entry; the primary
   license is the first entry; the unknown listings are the listings restricted to keys that are
   not in the table, in the same order and under the same uniqueness switch. *)
Require Import Model.Base Model.Expr Model.Licensing Proofs.Listings.

Theorem C10_all_occurrences : forall e d,
  license_symbols e false d = if d then map Plain (flat_map decompose (literals e)) else literals e.
Proof. exact symbols_all_occurrences. Qed.
Print Assumptions C10_all_occurrences.

Theorem C10_unique_is_each_once : forall e d,
  NoDup (license_symbols e true d) /\ (forall a, In a (license_symbols e true d) <-> In a (license_symbols e false d)).
Proof. exact symbols_unique_first_occurrences. Qed.
Print Assumptions C10_unique_is_each_once.

Theorem C10_with_pair : forall l r,
  license_symbols (Lit (With l r)) false true = [Plain l; Plain r] /\
  license_symbols (Lit (With l r)) false false = [With l r].
Proof. exact with_pair_listed_license_then_exception. Qed.
Print Assumptions C10_with_pair.

Theorem C10_primary_is_first : forall e d, primary_license_symbol e d = hd_error (license_symbols e true d).
Proof. exact primary_is_first. Qed.
Print Assumptions C10_primary_is_first.

Theorem C10_unknown_keys_are_filtered_keys : forall T e u,
  unknown_license_keys T e u = filter (fun k => negb (known_key T k)) (license_keys e u).
Proof. exact unknown_commutes. Qed.
Print Assumptions C10_unknown_keys_are_filtered_keys.

Theorem C10_unknown_symbols_are_filtered_symbols : forall T e u,
  unknown_license_symbols T e u = filter (is_unknown T) (license_symbols e u true).
Proof. exact unknown_symbols_are_filtered. Qed.
Print Assumptions C10_unknown_symbols_are_filtered_symbols.

(* in text order: the listings of what parse returns are the license tokens recognised in the text, left to right with
   repetitions - and these tokens account for the words of the text in order (C01), with either tokenizer *)
Require Import Model.Split Model.LicTok Model.BoolParse Proofs.ParseLits Proofs.Account Proofs.ListingOrder.
Theorem C10_listings_follow_text_order : forall O, is_space O 32%N = true -> forall T text strict simple e,
  Licensing.parse_tokens O T strict simple text = Ok e ->
  exists ptoks, lic_tokenize O T strict simple text = Ok ptoks /\
    license_symbols e false false = tok_atoms ptoks /\
    license_symbols e false true = map Plain (flat_map decompose (tok_atoms ptoks)) /\
    license_keys e false = map atom_str (map Plain (flat_map decompose (tok_atoms ptoks))) /\
    exists gs, concat gs = filter (is_word_piece O) (pieces O text) /\
      (if simple then Forall2 (ptok_acc O text (kw_acc_s O) (sym_acc_s O T)) ptoks gs
       else Forall2 (ptok_acc O text (kw_acc O) (sym_acc O T text)) ptoks gs).
Proof. exact listings_follow_text_order. Qed.
Print Assumptions C10_listings_follow_text_order.
