(* C18 — Simple and default tokenizers agree on space-free symbols (partial).
   Proved: on a matcher whose stored names are all single words (a table without aliases whose keys
   contain no white space, plus the five keywords), the scan of the default tokenizer degenerates
   to the per-word look-up the simple tokenizer performs: it reports one token for every word piece
   whose lower-cased text is stored, carrying that piece's positions, text and the stored value,
   and nothing else. The rest of the agreement (disjoint single-word matches pass the overlap filter
   unchanged; an isolated unknown word becomes the same symbol under both tokenizers; identical
   error kind, code, token and position) is decided by the exhaustive correspondence of both
   tokenizers on all token strings up to the bound. *)
Require Import Model.Base Model.Split Model.Trie Proofs.Trie.

Theorem C18_single_word_scan_partial : forall V O (tr : trie V), wf_trie tr -> forall text (t : Trie.tok V),
  (forall p o, In (p, o) (outs tr) -> length p = 1%nat) ->
  (In t (t_iter O tr text) <->
   exists p sp v, In p (filter (is_word_piece O) (pieces O text)) /\
                  get_out [lower O (ptext p)] (outs tr) = Some (sp, v) /\
                  t = {| tstart := pstart p; tend := pend p; tstring := slice text (pstart p) (pend p); tvalue := Some v |}).
Proof. intros V O tr W text. exact (@single_word_scan V O tr W text). Qed.
Print Assumptions C18_single_word_scan_partial.
