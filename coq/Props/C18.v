(* C18 — Simple and default tokenizers agree on space-free symbols.
   Proved for the model of both tokenizers, every table and every text: if the table has no aliases
   and each key is one word that is not an operator word, and the text has no two adjacent words
   that are neither operators nor parentheses, then Licensing.tokenize yields the same token list
   or the same error with simple=True as with simple=False, strict or not - hence parse() has the
   same outcome (same tree, or an error of the same kind, code, token and position).
   Oracle facts used (premises, checked on the interpreter's tables when the oracle table is
   dumped): the characters of "and or with ( )" are not white space and lower-case to themselves;
   lower-casing a character that is not a parenthesis never produces a parenthesis. *)
Require Import Model.Base Model.Expr Model.Split Model.Trie Model.Overlap Model.LicTok Model.Licensing Model.Index.
Require Import Proofs.Trie Proofs.SimpleAgree.

Definition oracle_keyword_facts (O : oracle) : Prop :=
  (forall c, In c [97; 110; 100; 111; 114; 119; 105; 116; 104; 40; 41]%N -> is_space O c = false /\ lower_ch O c = [c]) /\
  (forall c x, is_paren c = false -> In x (lower_ch O c) -> is_paren x = false).

Definition space_free_table (O : oracle) (T : list entry) : Prop :=
  (forall e, In e T -> ealiases e = []) /\
  (forall e, In e T -> ekey e <> [] /\ lwords O (ekey e) = [lower O (ekey e)] /\ is_keyword_str (lower O (ekey e)) = false).

Theorem C18_simple_and_default_tokenize_alike : forall O T, oracle_keyword_facts O -> space_free_table O T ->
  forall text, no_adjacent_plain O text -> forall strict,
  lic_tokenize O T strict false text = lic_tokenize O T strict true text.
Proof.
  intros O T [F1 F2] [T1 T2] text Hiso strict.
  exact (tokenizers_agree O T F1 F2 T1 T2 text (alt_from_text O T F1 T1 T2 text Hiso) strict).
Qed.
Print Assumptions C18_simple_and_default_tokenize_alike.

Theorem C18_simple_and_default_parse_alike : forall O T, oracle_keyword_facts O -> space_free_table O T ->
  forall text, no_adjacent_plain O text -> forall validate strict,
  parse O T validate strict false text = parse O T validate strict true text.
Proof.
  intros O T [F1 F2] [T1 T2] text Hiso validate strict.
  exact (parse_agrees O T F1 F2 T1 T2 text (alt_from_text O T F1 T1 T2 text Hiso) validate strict).
Qed.
Print Assumptions C18_simple_and_default_parse_alike.

(* the scan over single-word names is a per-word look-up (kept from the first version) *)
Theorem C18_single_word_scan : forall V O (tr : trie V), wf_trie tr -> forall text (t : Trie.tok V),
  (forall p o, In (p, o) (outs tr) -> length p = 1%nat) ->
  (In t (t_iter O tr text) <->
   exists p sp v, In p (filter (is_word_piece O) (pieces O text)) /\
                  get_out [lower O (ptext p)] (outs tr) = Some (sp, v) /\
                  t = {| tstart := pstart p; tend := pend p; tstring := slice text (pstart p) (pend p); tvalue := Some v |}).
Proof. intros V O tr W text. exact (@single_word_scan V O tr W text). Qed.
Print Assumptions C18_single_word_scan.

(* the premises are satisfiable: the ASCII oracle, the table {mit, GPL-2.0+ (exception)}, the text
   "MIT or (gpl-2.0+ WITH zz)" *)
Definition C18_example_table : list entry :=
  [ {| ekey := [109; 105; 116]%N; ealiases := []; eexc := false |};
    {| ekey := [71; 80; 76; 45; 50; 46; 48; 43]%N; ealiases := []; eexc := true |} ].
Definition C18_example_text : str :=
  [77; 73; 84; 32; 111; 114; 32; 40; 103; 112; 108; 45; 50; 46; 48; 43; 32; 87; 73; 84; 72; 32; 122; 122; 41]%N.

From Coq Require Import Lia ZifyBool NArith.
Example C18_example_oracle : oracle_keyword_facts ascii_oracle.
Proof.
  split.
  - intros c Hc. simpl in Hc. repeat (destruct Hc as [<-|Hc]; [split; reflexivity|]). destruct Hc.
  - intros c x Hc Hx. unfold ascii_oracle in Hx. cbn [lower_ch] in Hx.
    destruct (N.leb 65 c && N.leb c 90) eqn:E; destruct Hx as [<-|[]]; [|exact Hc].
    unfold is_paren, c_lpar, c_rpar. lia.
Qed.

Example C18_example_table_ok : space_free_table ascii_oracle C18_example_table.
Proof.
  split; intros e He; simpl in He.
  - destruct He as [<-|[<-|[]]]; reflexivity.
  - destruct He as [<-|[<-|[]]]; (split; [cbn; discriminate|]); split; vm_compute; reflexivity.
Qed.

Example C18_example_text_ok : no_adjacent_plain ascii_oracle C18_example_text.
Proof.
  unfold no_adjacent_plain. intros pre p q post E.
  assert (Hw : filter (is_word_piece ascii_oracle) (pieces ascii_oracle C18_example_text) =
     [ {| pstart := 0; ptext := [77; 73; 84]%N |}; {| pstart := 4; ptext := [111; 114]%N |}; {| pstart := 7; ptext := [40]%N |};
       {| pstart := 8; ptext := [103; 112; 108; 45; 50; 46; 48; 43]%N |}; {| pstart := 17; ptext := [87; 73; 84; 72]%N |};
       {| pstart := 22; ptext := [122; 122]%N |}; {| pstart := 24; ptext := [41]%N |} ]%Z) by (vm_compute; reflexivity).
  rewrite Hw in E. clear Hw. intros [Hp Hq].
  do 6 (destruct pre as [|? pre];
          [ cbn [app] in E; injection E as <- <- _; vm_compute in Hp; vm_compute in Hq; first [discriminate Hp | discriminate Hq]
          | cbn [app] in E; injection E as _ E ]).
  destruct pre as [|? [|? pre]]; cbn [app] in E; discriminate E.
Qed.

Example C18_example_outcome :
  parse ascii_oracle C18_example_table false false true C18_example_text =
  parse ascii_oracle C18_example_table false false false C18_example_text /\
  exists e, parse ascii_oracle C18_example_table false false true C18_example_text = Ok (Some e).
Proof. split; [vm_compute; reflexivity | eexists; vm_compute; reflexivity]. Qed.
