(* C09 — Deduplication removes exactly the repeated operands and nothing else.
   Proved for the model of Licensing.dedup / combine_expressions on parsed expressions:
   dedup is total on well-formed input; in its result no node, at any depth, has two operands with
   the same rendering and every node has two or more operands; it is idempotent; it preserves the
   truth table for every valuation that cannot tell identically rendered operands apart (all
   valuations when renderings identify operands); a relation other than AND / OR is refused with
   TypeError. Without the rendering proviso the truth table can change: dedup_truth_refuted is the
   known finding recorded in known_findings.txt. Operand order: at every node the renderings of the
   operands kept are the renderings of the (deduplicated) operands in the order of their first
   occurrence, each once; a node left with one operand is replaced by it. Nothing else goes: every
   rendering among the operands given is the rendering of a kept operand (every distinct
   alternative survives) and none is kept twice. combine_expressions on parsed inputs returns a
   sole input as it is, joins all inputs in the given order when duplicates are to be kept, and
   otherwise joins uniq_by_str of them (or returns the one left). *)
Require Import Model.Base Model.Expr Model.Simplify Model.Licensing Proofs.Dedup Proofs.DedupOrder Proofs.DedupKeeps.

Theorem C09_dedup_total : forall e, wf e = true -> exists e', dedup e = Ok e' /\ deduped e'.
Proof. exact dedup_total. Qed.
Print Assumptions C09_dedup_total.

Theorem C09_dedup_idempotent : forall e e', wf e = true -> dedup e = Ok e' -> dedup e' = Ok e'.
Proof. exact dedup_idempotent. Qed.
Print Assumptions C09_dedup_idempotent.

Theorem C09_dedup_truth : forall v, respects v -> forall e e', dedup e = Ok e' -> eval v e' = eval v e.
Proof. exact dedup_truth. Qed.
Print Assumptions C09_dedup_truth.

Theorem C09_dedup_truth_refuted :
  let a := {| key := [97%N]; exc := false |} in
  let ax := {| key := [97%N]; exc := true |} in
  let e := Or [Lit (Plain ax); Lit (Plain a)] in
  let v := fun x => match x with Plain s => exc s | _ => false end in
  dedup e = Ok (Lit (Plain a)) /\ eval v e = true /\ eval v (Lit (Plain a)) = false.
Proof. exact dedup_truth_refuted. Qed.
Print Assumptions C09_dedup_truth_refuted.

Theorem C09_combine_refuses : forall O l u, l <> [] -> combine_texts O l RelBad u = TypeErr.
Proof. exact combine_refuses. Qed.
Print Assumptions C09_combine_refuses.

Theorem C09_first_occurrence_order : forall xs,
  map render (uniq_by_str xs) = ordered_unique str_eqb [] (map render xs).
Proof. exact uniq_order. Qed.
Print Assumptions C09_first_occurrence_order.

Theorem C09_kept_operands_are_operands : forall xs y, In y (uniq_by_str xs) -> In y xs.
Proof. exact uniq_members. Qed.
Print Assumptions C09_kept_operands_are_operands.

Theorem C09_node_order : forall o xs e', dedup (mk o xs) = Ok e' ->
  exists ys, dedup_children xs = Ok ys /\
             map render (uniq_by_str ys) = ordered_unique str_eqb [] (map render ys) /\
             (uniq_by_str ys = [e'] \/ e' = mk o (uniq_by_str ys)).
Proof. exact dedup_node_order. Qed.
Print Assumptions C09_node_order.

Theorem C09_every_distinct_alternative_is_kept : forall xs x,
  In x xs -> exists y, In y (uniq_by_str xs) /\ render y = render x.
Proof. exact uniq_keeps_every_rendering. Qed.
Print Assumptions C09_every_distinct_alternative_is_kept.

Theorem C09_no_rendering_kept_twice : forall xs, NoDup (map render (uniq_by_str xs)).
Proof. exact uniq_no_repeated_rendering. Qed.
Print Assumptions C09_no_rendering_kept_twice.

Theorem C09_combine_sole_input : forall x o u, combine_parsed [x] o u = Ok (Some x).
Proof. exact combine_sole_input. Qed.
Print Assumptions C09_combine_sole_input.

Theorem C09_combine_keeps_duplicates_when_asked : forall x y zs o,
  combine_parsed (x :: y :: zs) o false =
  omap Some (match o with OpAnd => mk_and (x :: y :: zs) | OpOr => mk_or (x :: y :: zs) end).
Proof. exact combine_keeps_duplicates_when_asked. Qed.
Print Assumptions C09_combine_keeps_duplicates_when_asked.

Theorem C09_combine_unique_rule : forall xs o, xs <> [] ->
  combine_parsed xs o true =
  match uniq_by_str xs with
  | [y] => Ok (Some y)
  | ys => omap Some (match o with OpAnd => mk_and ys | OpOr => mk_or ys end)
  end.
Proof. exact combine_unique_rule. Qed.
Print Assumptions C09_combine_unique_rule.

Theorem C09_dedup_mentions_no_new_license : forall e e', dedup e = Ok e' -> incl (literals e') (literals e).
Proof. exact dedup_literals. Qed.
Print Assumptions C09_dedup_mentions_no_new_license.

(* an expression without repeated renderings among siblings (and with two or more operands per node) is returned as it is *)
Theorem C09_nothing_repeated_nothing_changes : forall e, deduped e -> dedup e = Ok e.
Proof. exact deduped_fixed. Qed.
Print Assumptions C09_nothing_repeated_nothing_changes.

Theorem C09_distinct_operands_all_kept : forall xs, NoDup (map render xs) -> uniq_by_str xs = xs.
Proof. exact uniq_distinct. Qed.
Print Assumptions C09_distinct_operands_all_kept.
