(* C11 — Validation verdicts agree with each other and with parsing. *)
Require Import Model.Base Model.Expr Model.Licensing Proofs.Listings.

Theorem C11_validate_keys_iff : forall O T strict simple s ks,
  parse O T true strict simple s = ExprErr (EUnknownKeys ks) <->
  exists e, parse O T false strict simple s = Ok (Some e) /\ unknown_license_keys T e true = ks /\ ks <> [].
Proof. exact validate_keys_iff. Qed.
Print Assumptions C11_validate_keys_iff.

Theorem C11_validate_agree : forall O T strict s, blank O s = false ->
  (errors (validate O T strict s) = [] <-> exists e, parse O T true strict false s = Ok (Some e)).
Proof. exact validate_agree. Qed.
Print Assumptions C11_validate_agree.

Theorem C11_validate_norm : forall O T strict s, blank O s = false ->
  match parse O T true strict false s with
  | Ok (Some e) => normalized (validate O T strict s) = Some (render e) /\ invalid_symbols (validate O T strict s) = []
  | _ => normalized (validate O T strict s) = None /\ errors (validate O T strict s) <> []
  end.
Proof. exact validate_norm. Qed.
Print Assumptions C11_validate_norm.

Theorem C11_unknown_symbols_in_order : forall O T strict s e ks,
  parse O T false strict false s = Ok (Some e) -> unknown_license_keys T e true = ks -> ks <> [] ->
  invalid_symbols (validate O T strict s) = ks /\ errors (validate O T strict s) = [VExpr (EUnknownKeys ks)].
Proof. exact validate_unknown_symbols. Qed.
Print Assumptions C11_unknown_symbols_in_order.
