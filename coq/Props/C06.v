(* C06 — Simplification preserves the meaning of the expression. *)
Require Import Model.Base Model.Expr Model.Simplify Proofs.SimplifySound.

(* every distinct atom (key, flag, plain / WITH pair) is an independent variable: v is arbitrary *)
Theorem C06_simplify_sound : forall (v : atom -> bool) e, eval v (simplify e) = eval v e.
Proof. exact simplify_sound. Qed.
Print Assumptions C06_simplify_sound.

Theorem C06_simplify_atoms : forall e, incl (literals (simplify e)) (literals e).
Proof. exact simplify_atoms. Qed.
Print Assumptions C06_simplify_atoms.

(* non-vacuity: a concrete expression on which simplify does something *)
Example C06_example :
  let a := Lit (Plain {| key := [97%N]; exc := false |}) in
  let b := Lit (Plain {| key := [98%N]; exc := false |}) in
  simplify (Or [a; And [a; b]; a]) = a.
Proof. reflexivity. Qed.
