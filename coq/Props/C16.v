(* C16 — The name matcher finds every occurrence of every stored name.
   The matcher built by a sequence of add() calls is a map from word sequences (lower-cased words
   of the name; case and spacing do not matter) to the last (spelling, value) stored; finalising
   changes no look-up and refuses further additions; and on a well-formed trie (every stored path
   non-empty and made of known words - which add() maintains), iter() reports exactly the
   occurrences: a token is reported iff the word pieces of the text split as pre ++ mid ++ post
   with mid non-empty and the lower-cased words of mid stored, the token spanning from the start of
   mid's first word to the end of its last word and carrying the stored value.
   The proof goes through the Aho-Corasick argument for the automaton the code builds: the state
   after each known word is the longest suffix that is a node (failure links computed from the
   parent's link are longest proper suffixes), an unknown word resets it, and the output chain
   lists exactly the suffixes that are nodes. *)
Require Import Model.Base Model.Split Model.Trie Proofs.Trie.

Theorem C16_get_after_adds : forall V O (ops : list (str * V)) name,
  t_get O (add_ops O t_empty ops) name = match name with [] => None | _ => stored O ops (lwords O name) end.
Proof. intros V O. exact (@get_after_adds V O). Qed.
Print Assumptions C16_get_after_adds.

Theorem C16_finalise_keeps_map : forall V O (t : trie V) name,
  t_get O (t_make_automaton t) name = t_get O t name /\
  t_is_prefix O (t_make_automaton t) name = t_is_prefix O t name /\
  t_items (t_make_automaton t) = t_items t.
Proof. intros V O. exact (@finalise_keeps_map V O). Qed.
Print Assumptions C16_finalise_keeps_map.

Theorem C16_add_after_finalise_refused : forall V O (t : trie V) name v,
  t_add O (t_make_automaton t) name v = Refused.
Proof. intros V O. exact (@add_after_finalise_refused V O). Qed.
Print Assumptions C16_add_after_finalise_refused.

Theorem C16_adds_keep_well_formed : forall V O (ops : list (str * V)),
  wf_trie (t_make_automaton (add_ops O t_empty ops)).
Proof. intros V O ops. apply wf_make, wf_add_ops, wf_empty. Qed.
Print Assumptions C16_adds_keep_well_formed.

Theorem C16_scan_exact : forall V O (tr : trie V), wf_trie tr -> forall text (t : Trie.tok V),
  let wps := filter (is_word_piece O) (pieces O text) in
  In t (t_iter O tr text) <->
  exists pre mid post sp v, wps = pre ++ mid ++ post /\ mid <> [] /\
      get_out (lws O mid) (outs tr) = Some (sp, v) /\
      t = occurrence_tok text mid (List.last mid {| pstart := 0%Z; ptext := [] |}) v.
Proof. intros V O tr W text. exact (@scan_exact V O tr W text). Qed.
Print Assumptions C16_scan_exact.

(* non-vacuity: names that are prefix, suffix and infix of each other, all found *)
Example C16_example :
  let O := {| is_space := fun c => N.eqb c 32; is_wordch := fun _ => true; lower_ch := fun c => [c] |} in
  let a := [97%N] in let b := [98%N] in let s := [32%N] in
  let tr := t_make_automaton (add_ops O t_empty [(a ++ s ++ b, 1%Z); (b, 2%Z); (b ++ s ++ a ++ s ++ b, 3%Z)]) in
  map (fun t => (tstart t, tend t, tvalue t)) (t_iter O tr (b ++ s ++ a ++ s ++ b))
  = [(0, 0, Some 2); (0, 4, Some 3); (2, 4, Some 1); (4, 4, Some 2)]%Z.
Proof. vm_compute. reflexivity. Qed.
