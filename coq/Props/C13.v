(* C13 — License symbols behave as values identified by key and exception flag.
   This file contains only the property theorems, each closed by a lemma of Proofs/. *)
Require Import Model.Base Model.Expr Model.Simplify Model.LicTok Proofs.Symbol.

Theorem C13_plain_eq_fields : forall a b, sym_eqb a b = true <-> key a = key b /\ exc a = exc b.
Proof. exact sym_eq_fields. Qed.
Print Assumptions C13_plain_eq_fields.

Theorem C13_with_eq_parts : forall l r l' r',
  atom_eqb (With l r) (With l' r') = true <-> sym_eqb l l' = true /\ sym_eqb r r' = true.
Proof. exact with_eq_parts. Qed.
Print Assumptions C13_with_eq_parts.

Theorem C13_plain_ne_with : forall s l r,
  atom_eqb (Plain s) (With l r) = false /\ atom_eqb (With l r) (Plain s) = false.
Proof. exact plain_ne_with. Qed.
Print Assumptions C13_plain_ne_with.

Theorem C13_eq_is_identity : forall a b, atom_eqb a b = true <-> a = b.
Proof. exact atom_eqb_eq. Qed.
Print Assumptions C13_eq_is_identity.

Theorem C13_hash_consistent : forall a b, atom_eqb a b = true -> atom_hash_input a = atom_hash_input b.
Proof. exact hash_consistent. Qed.
Print Assumptions C13_hash_consistent.

Theorem C13_lt_string_order : forall a b,
  atom_str a <> atom_str b ->
  atom_ltb a b = str_ltb (atom_str a) (atom_str b) /\ atom_ltb a b = negb (atom_ltb b a).
Proof. exact lt_string_order. Qed.
Print Assumptions C13_lt_string_order.

Theorem C13_lt_strict_total_order :
  (forall a, atom_ltb a a = false) /\
  (forall a b, atom_ltb a b = true -> atom_ltb b a = false) /\
  (forall a b c, atom_ltb a b = true -> atom_ltb b c = true -> atom_ltb a c = true) /\
  (forall a b, a <> b -> atom_ltb a b = true \/ atom_ltb b a = true).
Proof. exact (conj atom_ltb_irrefl (conj atom_ltb_asym (conj atom_ltb_trans atom_ltb_total))). Qed.
Print Assumptions C13_lt_strict_total_order.

Theorem C13_mk_key_iff : forall O k k',
  mk_key O k = Ok k' <-> key_accepted O k /\ k' = norm_spaces O (strip O k).
Proof. exact mk_key_iff. Qed.
Print Assumptions C13_mk_key_iff.
