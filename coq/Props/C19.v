(* C19 — Answers depend only on table and input; arguments are never mutated.
   Model: a world of Licensing instances (table + lazily built, cached tokenizer) and of shared
   expression objects; operations construct instances (valid or refused tables), parse texts in all
   modes, parse expression objects, list keys, simplify, dedup, compare and render.
   Proved: (1) the answers of any history equal the answers of the system in which no instance ever
   keeps a tokenizer (every call works on a freshly built instance with the same table); (2) an
   operation only appends to the store of expression objects: every existing object keeps its
   value through any history; (3) parsing an already parsed expression returns that very object.
   The class attributes that every Licensing() rewrites in boolean.py are not read by any modelled
   function (see DESIGN.md); interleaved constructions are exercised by the correspondence. *)
Require Import Model.Base Model.Expr Model.Licensing Model.History Proofs.History.

Theorem C19_history_independent : forall O ops, snd (run O init ops) = run_fresh O init ops.
Proof. exact history_independent_init. Qed.
Print Assumptions C19_history_independent.

Theorem C19_history_independent_from_any_state : forall O ops w, cache_inv O w -> snd (run O w ops) = run_fresh O w ops.
Proof. exact history_independent. Qed.
Print Assumptions C19_history_independent_from_any_state.

Theorem C19_exprs_immutable : forall O ops w h e, nth_error (exprs w) h = Some e ->
  nth_error (exprs (fst (run O w ops))) h = Some e.
Proof. exact exprs_immutable. Qed.
Print Assumptions C19_exprs_immutable.

Theorem C19_parse_identity : forall O w i h it e, nth_error (insts w) i = Some it -> nth_error (exprs w) h = Some e ->
  step O w (OParseExpr i h) = (w, ObExpr (Ok (Some h))).
Proof. exact parse_identity. Qed.
Print Assumptions C19_parse_identity.

(* The history model gives a query nothing to write to but the per-instance tokenizer cache, and keeps expression objects
   immutable. For the source as read on this run that is what the code says: every statement that can change an object the running
   call did not create itself (gen/Writes.v) stands in the tokenizer builders, in the publication of the tokenizer, or works on a
   copy the same call chain has just made - no query assigns to an attribute or item of its Licensing, of an argument, of a
   module-level name or of a class, nor calls a mutating method on one. *)
Require Import Model.Writes Gen.Writes Tie.Writes.
Theorem C19_no_hidden_state_for_this_source : confined writes = true /\ constants_untouched writes = true.
Proof. exact writes_confined. Qed.
Print Assumptions C19_no_hidden_state_for_this_source.
