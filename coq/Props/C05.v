(* C05 — Rendered expressions re-parse to themselves; rendering is a fixed point.
   Proved, for the model of the whole pipeline (splitter, Aho-Corasick scan, overlap filter, unknown
   merge, WITH grouping, boolean parser):
   (0) C05_rendering_parses_back: over a table none of whose keys and aliases has an operator word or a
   parenthesis among its words, for every well-formed expression e (every AND / OR has two or more
   operands, which the constructors enforce) whose licenses are renderable, parsing the default
   rendering of e - plain or readable (WITH pairs in parentheses) - with the same table returns e
   itself: identical structure, operand order and symbols, hence the same rendering again.
   A license is renderable when its key is made of space-free, parenthesis-free words joined by single
   spaces, none of them an operator word, and either the table stores these words as this very symbol
   (a known license: what parse returns for a key or alias of the table) or no stored name occurs
   among them, its flag is not "exception" and the key is what LicenseSymbol() makes of it (an unknown
   license as parse creates it).  simplify, dedup and combine_expressions only rearrange the licenses
   of their arguments (C06 - C09), so their results are renderable when the arguments are
   (C05_renderable_is_about_licenses).
   (0') C05_parse_render_parse: the premise on the expression is a theorem for what parse returns: over a table without
   operator words every license of which is renderable (its key made of plain words, stored as that very symbol), whatever
   text parses to e, the rendering of e - plain or readable - parses back to e; the same for every well-formed expression made
   of the licenses of e (C05_derived_render_parse: the results of simplify, dedup and combine_expressions).  The unknown
   licenses are where the work is (C05_parse_results_are_renderable): an unknown license is a run of words that Trie.tokenize
   left unmatched, standing between two operator words; were a stored name to occur among them, the longest, leftmost such
   occurrence would have survived the overlap filter (fo_keeps_dominant_tie) and been a token of its own.
   (0'') C05_round_trip_over_plain_tables: the premise on the table follows from three plain conditions - every key is what
   LicenseSymbol() makes of it (true of every table Licensing() builds), no key or alias has an operator word or a parenthesis
   among its words, and no two names of different licenses (or a license and an operator) have the same lower-cased words
   (what validate_symbols demands).  Under these, with no premise on the expression: whatever text parses to e, the plain
   and the readable rendering of e parse back to e, and so does every well-formed expression made of the licenses of e.
   (1) the token sequence of the rendering - licenses, AND / OR, and a pair of parentheses around every
   compound operand, WITH pairs optionally in parentheses as render_as_readable writes them - is
   parsed back to e by the boolean parser, whatever the token strings and positions; (2) the rendered
   string is the concatenation of the items of that sequence, where AND / OR / parentheses are fixed
   texts and every license is the template applied to it: a custom template changes the license
   items only; (3) the token types of that sequence are exactly the items render() writes, and any
   token list with these types parses back to e; (4) the words of the rendered string are, in order,
   the words of its items (splitting a concatenation of such words, single spaces and parentheses
   gives back exactly those chunks).
   Oracle facts used by (0) (checked on the running interpreter by the harness): U+0020 is white
   space; the letters of AND OR WITH and the parentheses are not; lower-casing AND / OR / WITH gives
   and / or / with; the letters of and / or / with and the parentheses are not white space and
   lower-case to themselves. *)
Require Import Model.Split Model.Trie Model.Licensing.
Require Import Model.Base Model.Expr Model.Split Model.LicTok Model.BoolParse Proofs.BoolParse Proofs.Render.
Require Import Proofs.Kinds Proofs.RenderKinds Proofs.RenderWords Proofs.Resplit Proofs.Reparse Proofs.ParseWf Proofs.ParseRenderable Proofs.TableOk
               Proofs.Strings Proofs.Accepted.

Theorem C05_render_tokens_roundtrip : forall i0 wrap e, wf e = true ->
  bparse (tok_or (to_or i0 wrap e)) = POk e.
Proof. exact render_tokens_roundtrip. Qed.
Print Assumptions C05_render_tokens_roundtrip.

Theorem C05_render_is_items : forall f wrap e, render_with f wrap e = flat_map (item_str f) (render_items wrap e).
Proof. exact render_is_items. Qed.
Print Assumptions C05_render_is_items.

Theorem C05_template_only_changes_licenses : forall f wrap e,
  render_with f wrap e = flat_map (item_str f) (render_items wrap e) /\
  render_with key wrap e = flat_map (item_str key) (render_items wrap e).
Proof. exact render_template. Qed.
Print Assumptions C05_template_only_changes_licenses.

Theorem C05_items_parse_back : forall (i0 : info) wrap e (ts : list ptok), wf e = true ->
  map kind_of ts = render_items wrap e -> bparse ts = POk e.
Proof. exact render_kinds_roundtrip. Qed.
Print Assumptions C05_items_parse_back.

Theorem C05_surface_syntax_is_what_render_writes : forall (i0 : info) wrap e, wf e = true ->
  map kind_of (tok_or (to_or i0 wrap e)) = render_items wrap e.
Proof. exact kinds_to_or. Qed.
Print Assumptions C05_surface_syntax_is_what_render_writes.

Theorem C05_words_of_the_rendering : forall O, is_space O 32%N = true ->
  (forall c, In c [65; 78; 68; 79; 82; 87; 73; 84; 72; 40; 41]%N -> is_space O c = false) ->
  forall (kwords : sym -> list str) wrap e, wf e = true -> expr_keys_ok O kwords e ->
  words O (render_with key wrap e) = flat_map (rwords kwords) (render_items wrap e).
Proof. exact render_words. Qed.
Print Assumptions C05_words_of_the_rendering.

Theorem C05_parser_ignores_token_strings : forall ts ts' e, map pt ts = map pt ts' -> bparse ts = POk e -> bparse ts' = POk e.
Proof. exact bparse_kinds. Qed.
Print Assumptions C05_parser_ignores_token_strings.

Theorem C05_resplit : forall O ws, canon O ws -> map ptext (pieces O (concat ws)) = ws.
Proof. exact resplit. Qed.
Print Assumptions C05_resplit.

Theorem C05_rendering_parses_back : forall O, is_space O 32%N = true ->
  (forall c, In c [65; 78; 68; 79; 82; 87; 73; 84; 72; 40; 41]%N -> is_space O c = false) ->
  (lower O S_AND = s_and /\ lower O S_OR = s_or /\ lower O S_WITH = s_with /\ lower O s_lpar = s_lpar /\ lower O s_rpar = s_rpar) ->
  (forall c, In c [97; 110; 100; 111; 114; 119; 105; 116; 104; 40; 41]%N -> is_space O c = false /\ lower_ch O c = [c]) ->
  forall T : list entry,
  (forall n v, In (n, v) (flat_map (entry_adds O) T) -> forall w, In w (lwords O n) -> is_keyword_str w = false) ->
  forall (kwords : sym -> list str) wrap e, wf e = true -> renderable O T kwords e ->
  parse_tokens O T false false (render_with key wrap e) = Ok e.
Proof. exact render_parse_roundtrip. Qed.
Print Assumptions C05_rendering_parses_back.

Theorem C05_renderable_is_about_licenses : forall O T kwords e e', incl (literals e') (literals e) ->
  renderable O T kwords e -> renderable O T kwords e'.
Proof. exact renderable_incl. Qed.
Print Assumptions C05_renderable_is_about_licenses.

(* non-vacuity: "gpl OR (mit WITH classpath AND zz yy)" over a table with a two-word alias; the premises hold and the
   conclusion is obtained through the theorem, for the plain and for the readable rendering *)
Require Import Model.Index.
Definition T5 : list entry :=
  [ {| ekey := [103; 112; 108]%N; ealiases := [[103; 110; 117; 32; 103; 112; 108]%N]; eexc := false |};
    {| ekey := [109; 105; 116]%N; ealiases := []; eexc := false |};
    {| ekey := [99; 108; 97; 115; 115; 112; 97; 116; 104]%N; ealiases := []; eexc := true |} ].
Definition gpl5 := {| key := [103; 112; 108]%N; exc := false |}.
Definition mit5 := {| key := [109; 105; 116]%N; exc := false |}.
Definition cp5 := {| key := [99; 108; 97; 115; 115; 112; 97; 116; 104]%N; exc := true |}.
Definition zzyy5 := {| key := [122; 122; 32; 121; 121]%N; exc := false |}.
Definition e5 : expr := Or [Lit (Plain gpl5); And [Lit (With mit5 cp5); Lit (Plain zzyy5)]].
Definition kw5 (s : sym) : list str := split_ws ascii_oracle (key s).

Ltac ctext5 := split; [discriminate | intros c Hc; simpl in Hc; repeat (destruct Hc as [<-|Hc]; [reflexivity|]); destruct Hc].
Ltac nokw5 := intros w Hw; vm_compute in Hw; repeat (destruct Hw as [<-|Hw]; [vm_compute; reflexivity|]); destruct Hw.

Example renderable5 : renderable ascii_oracle T5 kw5 e5.
Proof.
  intros a Ha s Hs. simpl in Ha. destruct Ha as [<-|[<-|[<-|[]]]]; simpl in Hs.
  - destruct Hs as [<-|[]]. split; [|split].
    + split; [reflexivity|]. split; [discriminate|]. apply Forall_forall; intros w Hw; vm_compute in Hw; repeat (destruct Hw as [<-|Hw]; [ctext5|]); destruct Hw.
    + nokw5.
    + assert (E : look ascii_oracle T5 (map (lower ascii_oracle) (kw5 gpl5)) = Some (key gpl5, VSym gpl5)) by (vm_compute; reflexivity).
      rewrite E. reflexivity.
  - destruct Hs as [<-|[<-|[]]]; (split; [|split]).
    + split; [reflexivity|]. split; [discriminate|]. apply Forall_forall; intros w Hw; vm_compute in Hw; repeat (destruct Hw as [<-|Hw]; [ctext5|]); destruct Hw.
    + nokw5.
    + assert (E : look ascii_oracle T5 (map (lower ascii_oracle) (kw5 mit5)) = Some (key mit5, VSym mit5)) by (vm_compute; reflexivity).
      rewrite E. reflexivity.
    + split; [reflexivity|]. split; [discriminate|]. apply Forall_forall; intros w Hw; vm_compute in Hw; repeat (destruct Hw as [<-|Hw]; [ctext5|]); destruct Hw.
    + nokw5.
    + assert (E : look ascii_oracle T5 (map (lower ascii_oracle) (kw5 cp5)) = Some (key cp5, VSym cp5)) by (vm_compute; reflexivity).
      rewrite E. reflexivity.
  - destruct Hs as [<-|[]]. split; [|split].
    + split; [reflexivity|]. split; [discriminate|]. apply Forall_forall; intros w Hw; vm_compute in Hw; repeat (destruct Hw as [<-|Hw]; [ctext5|]); destruct Hw.
    + nokw5.
    + assert (E : look ascii_oracle T5 (map (lower ascii_oracle) (kw5 zzyy5)) = None) by (vm_compute; reflexivity).
      rewrite E. split; [reflexivity|]. split; [vm_compute; reflexivity|].
      apply no_occurrence_check. vm_compute. reflexivity.
Qed.

Example C05_example : forall wrap, parse_tokens ascii_oracle T5 false false (render_with key wrap e5) = Ok e5.
Proof.
  intro wrap. apply (C05_rendering_parses_back ascii_oracle eq_refl) with (kwords := kw5).
  - intros c Hc. simpl in Hc. repeat (destruct Hc as [<-|Hc]; [reflexivity|]). destruct Hc.
  - repeat split; reflexivity.
  - intros c Hc. simpl in Hc. repeat (destruct Hc as [<-|Hc]; [split; reflexivity|]). destruct Hc.
  - intros n v Hin. vm_compute in Hin. repeat (destruct Hin as [Hin|Hin]; [inversion Hin; subst n v; nokw5|]). destruct Hin.
  - reflexivity.
  - exact renderable5.
Qed.

Theorem C05_parser_results_are_well_formed : forall ts e, bparse ts = POk e -> wf e = true.
Proof. exact bparse_wf. Qed.
Print Assumptions C05_parser_results_are_well_formed.

Theorem C05_parse_results_are_renderable : forall O, is_space O 32%N = true ->
  (lower O S_AND = s_and /\ lower O S_OR = s_or /\ lower O S_WITH = s_with /\ lower O s_lpar = s_lpar /\ lower O s_rpar = s_rpar) ->
  (forall c, In c [97; 110; 100; 111; 114; 119; 105; 116; 104; 40; 41]%N -> is_space O c = false /\ lower_ch O c = [c]) ->
  forall T : list entry,
  (forall n v, In (n, v) (flat_map (entry_adds O) T) -> forall w, In w (lwords O n) -> is_keyword_str w = false) ->
  forall text,
  (forall n s, In (n, VSym s) (flat_map (entry_adds O) T) -> sym_ok O T (kwords O) s) ->
  forall e, parse_tokens O T false false text = Ok e -> renderable O T (kwords O) e.
Proof. exact parse_renderable. Qed.
Print Assumptions C05_parse_results_are_renderable.

Theorem C05_parse_render_parse : forall O, is_space O 32%N = true ->
  (forall c, In c [65; 78; 68; 79; 82; 87; 73; 84; 72; 40; 41]%N -> is_space O c = false) ->
  (lower O S_AND = s_and /\ lower O S_OR = s_or /\ lower O S_WITH = s_with /\ lower O s_lpar = s_lpar /\ lower O s_rpar = s_rpar) ->
  (forall c, In c [97; 110; 100; 111; 114; 119; 105; 116; 104; 40; 41]%N -> is_space O c = false /\ lower_ch O c = [c]) ->
  forall T : list entry,
  (forall n v, In (n, v) (flat_map (entry_adds O) T) -> forall w, In w (lwords O n) -> is_keyword_str w = false) ->
  (forall n s, In (n, VSym s) (flat_map (entry_adds O) T) -> sym_ok O T (kwords O) s) ->
  forall text wrap e, parse_tokens O T false false text = Ok e ->
  parse_tokens O T false false (render_with key wrap e) = Ok e.
Proof. exact parse_render_parse. Qed.
Print Assumptions C05_parse_render_parse.

Theorem C05_derived_render_parse : forall O, is_space O 32%N = true ->
  (forall c, In c [65; 78; 68; 79; 82; 87; 73; 84; 72; 40; 41]%N -> is_space O c = false) ->
  (lower O S_AND = s_and /\ lower O S_OR = s_or /\ lower O S_WITH = s_with /\ lower O s_lpar = s_lpar /\ lower O s_rpar = s_rpar) ->
  (forall c, In c [97; 110; 100; 111; 114; 119; 105; 116; 104; 40; 41]%N -> is_space O c = false /\ lower_ch O c = [c]) ->
  forall T : list entry,
  (forall n v, In (n, v) (flat_map (entry_adds O) T) -> forall w, In w (lwords O n) -> is_keyword_str w = false) ->
  (forall n s, In (n, VSym s) (flat_map (entry_adds O) T) -> sym_ok O T (kwords O) s) ->
  forall text wrap e e', parse_tokens O T false false text = Ok e -> wf e' = true -> incl (literals e') (literals e) ->
  parse_tokens O T false false (render_with key wrap e') = Ok e'.
Proof. exact derived_render_parse. Qed.
Print Assumptions C05_derived_render_parse.

(* non-vacuity: the table T5 meets the premises, and a text with odd spacing, an alias and a two-word unknown license parses *)
Definition tx5 : str := [71; 78; 85; 32; 32; 103; 112; 108; 32; 111; 114; 32; 40; 109; 105; 116; 32; 119; 105; 116; 104; 32; 99; 108; 97; 115; 115; 112; 97; 116; 104; 32; 97; 110; 100; 32; 122; 122; 32; 32; 121; 121; 41]%N.
Example tx5_parses : parse_tokens ascii_oracle T5 false false tx5 = Ok e5.
Proof. vm_compute. reflexivity. Qed.

Ltac known5 sy := split; [|split];
  [ split; [reflexivity|]; split; [discriminate|]; apply Forall_forall; intros w Hw; vm_compute in Hw; repeat (destruct Hw as [<-|Hw]; [ctext5|]); destruct Hw
  | nokw5
  | vm_compute; reflexivity ].

Example table5_ok : forall n s, In (n, VSym s) (flat_map (entry_adds ascii_oracle) T5) -> sym_ok ascii_oracle T5 (kwords ascii_oracle) s.
Proof.
  intros n s Hin. vm_compute in Hin.
  destruct Hin as [H|[H|[H|[H|[]]]]]; inversion H; subst n s.
  - known5 gpl5.
  - known5 gpl5.
  - known5 mit5.
  - known5 cp5.
Qed.

Example C05_example_parse_render_parse : forall wrap e, parse_tokens ascii_oracle T5 false false tx5 = Ok e ->
  parse_tokens ascii_oracle T5 false false (render_with key wrap e) = Ok e.
Proof.
  intros wrap e. apply (C05_parse_render_parse ascii_oracle eq_refl).
  - intros c Hc. simpl in Hc. repeat (destruct Hc as [<-|Hc]; [reflexivity|]). destruct Hc.
  - repeat split; reflexivity.
  - intros c Hc. simpl in Hc. repeat (destruct Hc as [<-|Hc]; [split; reflexivity|]). destruct Hc.
  - intros n v Hin. vm_compute in Hin. repeat (destruct Hin as [Hin|Hin]; [inversion Hin; subst n v; nokw5|]). destruct Hin.
  - exact table5_ok.
Qed.

Theorem C05_round_trip_over_plain_tables : forall O, is_space O 32%N = true ->
  (forall c, In c [65; 78; 68; 79; 82; 87; 73; 84; 72; 40; 41]%N -> is_space O c = false) ->
  (lower O S_AND = s_and /\ lower O S_OR = s_or /\ lower O S_WITH = s_with /\ lower O s_lpar = s_lpar /\ lower O s_rpar = s_rpar) ->
  (forall c, In c [97; 110; 100; 111; 114; 119; 105; 116; 104; 40; 41]%N -> is_space O c = false /\ lower_ch O c = [c]) ->
  (is_wordch O 40%N = false /\ is_wordch O 41%N = false) ->
  forall T : list entry,
  (forall n v, In (n, v) (flat_map (entry_adds O) T) -> forall w, In w (lwords O n) -> is_keyword_str w = false) ->
  (forall e, In e T -> mk_key O (ekey e) = Ok (ekey e)) ->
  (forall n1 v1 n2 v2, In (n1, v1) (keyword_adds ++ flat_map (entry_adds O) T) -> In (n2, v2) (keyword_adds ++ flat_map (entry_adds O) T) ->
     lwords O n1 <> [] -> lwords O n1 = lwords O n2 -> v1 = v2) ->
  forall text wrap e, parse_tokens O T false false text = Ok e ->
  parse_tokens O T false false (render_with key wrap e) = Ok e /\
  forall e', wf e' = true -> incl (literals e') (literals e) -> parse_tokens O T false false (render_with key wrap e') = Ok e'.
Proof.
  intros O H1 H2 H3 H4 H5 T H6 H7 H8 text wrap e Hp. split.
  - exact (plain_table_round_trip O H1 H2 H3 H4 H5 T H6 H7 H8 text wrap e Hp).
  - intros e' W I. exact (plain_table_round_trip_derived O H1 H2 H3 H4 H5 T H6 H7 H8 text wrap e e' Hp W I).
Qed.
Print Assumptions C05_round_trip_over_plain_tables.

(* non-vacuity: the table T5 meets the three conditions *)
Example C05_example_plain_table : forall wrap e, parse_tokens ascii_oracle T5 false false tx5 = Ok e ->
  parse_tokens ascii_oracle T5 false false (render_with key wrap e) = Ok e.
Proof.
  intros wrap e Hp. apply (C05_round_trip_over_plain_tables ascii_oracle eq_refl) with (text := tx5); try exact Hp.
  - intros c Hc. simpl in Hc. repeat (destruct Hc as [<-|Hc]; [reflexivity|]). destruct Hc.
  - repeat split; reflexivity.
  - intros c Hc. simpl in Hc. repeat (destruct Hc as [<-|Hc]; [split; reflexivity|]). destruct Hc.
  - split; reflexivity.
  - intros n v Hin. vm_compute in Hin. repeat (destruct Hin as [Hin|Hin]; [inversion Hin; subst n v; nokw5|]). destruct Hin.
  - intros x Hx. simpl in Hx. repeat (destruct Hx as [<-|Hx]; [vm_compute; reflexivity|]). destruct Hx.
  - intros n1 v1 n2 v2 Hi1 Hi2 _ E. vm_compute in Hi1, Hi2.
    repeat (destruct Hi1 as [Hi1|Hi1];
            [inversion Hi1; subst n1 v1; repeat (destruct Hi2 as [Hi2|Hi2]; [inversion Hi2; subst n2 v2; first [reflexivity | vm_compute in E; discriminate E]|]); destruct Hi2|]).
    destruct Hi1.
Qed.

(* (0''') over every table Licensing() accepted: the table conditions but one are theorems.  LicenseSymbol() applied to a key it
   returned gives that key again (mk_key_idem), and a table validate_symbols let through has no two names of different licenses
   with the same lower-cased words (accepted_names_unambiguous, through the order-free rule of C14).  What remains is the one condition Licensing() does not check: no operator word inside a name. *)
Theorem C05_round_trip_over_accepted_tables : forall O, is_space O 32%N = true ->
  (forall c, In c [65; 78; 68; 79; 82; 87; 73; 84; 72; 40; 41]%N -> is_space O c = false) ->
  (lower O S_AND = s_and /\ lower O S_OR = s_or /\ lower O S_WITH = s_with /\ lower O s_lpar = s_lpar /\ lower O s_rpar = s_rpar) ->
  (forall c, In c [97; 110; 100; 111; 114; 119; 105; 116; 104; 40; 41]%N -> is_space O c = false /\ lower_ch O c = [c]) ->
  (is_wordch O 40%N = false /\ is_wordch O 41%N = false) ->
  (forall c, is_space O c = true -> lower_ch O c = [c]) ->
  (forall c, is_space O c = false -> lower_ch O c <> [] /\ nospace O (lower_ch O c)) ->
  forall raw T : list entry, new_licensing O raw = Ok T ->
  (forall n v, In (n, v) (flat_map (entry_adds O) T) -> forall w, In w (lwords O n) -> is_keyword_str w = false) ->
  forall text wrap e, parse_tokens O T false false text = Ok e ->
  parse_tokens O T false false (render_with key wrap e) = Ok e /\
  forall e', wf e' = true -> incl (literals e') (literals e) -> parse_tokens O T false false (render_with key wrap e') = Ok e'.
Proof.
  intros O H1 H2 H3 H4 H5 H6 H7 raw T HB HN text wrap e Hp. split.
  - exact (accepted_table_round_trip O H1 H2 H3 H4 H5 H6 H7 raw T HB HN text wrap e Hp).
  - intros e' W I. exact (accepted_table_round_trip_derived O H1 H2 H3 H4 H5 H6 H7 raw T HB HN text wrap e e' Hp W I).
Qed.
Print Assumptions C05_round_trip_over_accepted_tables.

(* non-vacuity: Licensing() accepts the entries of T5 as they are, and the ASCII tables meet the two facts on lower-casing *)
From Coq Require Import Lia.
Example ascii_lower_space : forall c, is_space ascii_oracle c = true -> lower_ch ascii_oracle c = [c].
Proof.
  intros c H. cbn [is_space lower_ch ascii_oracle] in *. destruct (N.leb 65 c && N.leb c 90) eqn:E; [|reflexivity]. exfalso.
  apply andb_true_iff in E as [E1 E2]. apply N.leb_le in E1, E2.
  apply orb_true_iff in H as [H|H]; apply andb_true_iff in H as [A B]; apply N.leb_le in A, B; lia.
Qed.
Example ascii_lower_nospace : forall c, is_space ascii_oracle c = false ->
  lower_ch ascii_oracle c <> [] /\ nospace ascii_oracle (lower_ch ascii_oracle c).
Proof.
  intros c H. cbn [lower_ch ascii_oracle]. destruct (N.leb 65 c && N.leb c 90) eqn:E; (split; [discriminate|]); unfold nospace; cbn [forallb].
  - apply andb_true_iff in E as [E1 E2]. apply N.leb_le in E1, E2. rewrite andb_true_r. apply negb_true_iff.
    cbn [is_space ascii_oracle]. apply orb_false_iff. split; apply andb_false_iff.
    + right. apply N.leb_gt. lia.
    + right. apply N.leb_gt. lia.
  - rewrite H. reflexivity.
Qed.
Example C05_example_accepted_table : forall wrap e, parse_tokens ascii_oracle T5 false false tx5 = Ok e ->
  parse_tokens ascii_oracle T5 false false (render_with key wrap e) = Ok e.
Proof.
  intros wrap e Hp.
  apply (C05_round_trip_over_accepted_tables ascii_oracle eq_refl) with (raw := T5) (text := tx5); try exact Hp.
  - intros c Hc. simpl in Hc. repeat (destruct Hc as [<-|Hc]; [reflexivity|]). destruct Hc.
  - repeat split; reflexivity.
  - intros c Hc. simpl in Hc. repeat (destruct Hc as [<-|Hc]; [split; reflexivity|]). destruct Hc.
  - split; reflexivity.
  - exact ascii_lower_space.
  - exact ascii_lower_nospace.
  - vm_compute. reflexivity.
  - intros n v Hin. vm_compute in Hin. repeat (destruct Hin as [Hin|Hin]; [inversion Hin; subst n v; nokw5|]). destruct Hin.
Qed.
