(* C05 — Rendered expressions re-parse to themselves; rendering is a fixed point.
   Proved: (1) for every well-formed expression e (every AND / OR has two or more operands, which
   the constructors enforce), the token sequence of its rendering - licenses, AND / OR, and a pair
   of parentheses around every compound operand, WITH pairs optionally in parentheses as
   render_as_readable writes them - is parsed back to e by the boolean parser, whatever the token
   strings and positions; (2) the rendered string is the concatenation of the items of that
   sequence, where AND / OR / parentheses are fixed texts and every license is the template
   applied to it: a custom template changes the license items only.
   (3) the token types of that sequence are exactly the items render() writes, and any token list
   with these types - whatever strings and positions it carries - parses back to e;
   (4) the words of the rendered string (split on white space and parentheses) are, in order, the
   words of its items: the words of every license key, AND / OR / WITH, and the parentheses - for
   keys that are space-free, parenthesis-free words joined by single spaces (splitting a
   concatenation of such words, single spaces and parentheses gives back exactly those chunks).
   What is left to the correspondence and the oracle is the step from these words to the tokens
   under a given table (each rendered key recognised again as one token, which needs the table to be
   free of operator words; C02_text_parses_to_its_tree reduces it to a segmentation of the words):
   hence _partial on the round trip of the string. *)
Require Import Model.Base Model.Expr Model.Split Model.LicTok Model.BoolParse Proofs.BoolParse Proofs.Render.
Require Import Proofs.Kinds Proofs.RenderKinds Proofs.RenderWords Proofs.Resplit.

Theorem C05_render_tokens_roundtrip_partial : forall i0 wrap e, wf e = true ->
  bparse (tok_or (to_or i0 wrap e)) = POk e.
Proof. exact render_tokens_roundtrip. Qed.
Print Assumptions C05_render_tokens_roundtrip_partial.

Theorem C05_render_is_items : forall f wrap e, render_with f wrap e = flat_map (item_str f) (render_items wrap e).
Proof. exact render_is_items. Qed.
Print Assumptions C05_render_is_items.

Theorem C05_template_only_changes_licenses : forall f wrap e,
  render_with f wrap e = flat_map (item_str f) (render_items wrap e) /\
  render_with key wrap e = flat_map (item_str key) (render_items wrap e).
Proof. exact render_template. Qed.
Print Assumptions C05_template_only_changes_licenses.

Theorem C05_items_parse_back : forall (i0 : info) e (ts : list ptok), wf e = true ->
  map kind_of ts = render_items false e -> bparse ts = POk e.
Proof. exact render_kinds_roundtrip. Qed.
Print Assumptions C05_items_parse_back.

Theorem C05_surface_syntax_is_what_render_writes : forall (i0 : info) e, wf e = true ->
  map kind_of (tok_or (to_or i0 false e)) = render_items false e.
Proof. exact kinds_to_or. Qed.
Print Assumptions C05_surface_syntax_is_what_render_writes.

Theorem C05_words_of_the_rendering : forall O, is_space O 32%N = true ->
  (forall c, In c [65; 78; 68; 79; 82; 87; 73; 84; 72; 40; 41]%N -> is_space O c = false) ->
  forall (kwords : sym -> list str) wrap e, wf e = true -> expr_keys_ok O kwords e ->
  words O (render_with key wrap e) = flat_map (rwords kwords) (render_items wrap e).
Proof. exact render_words. Qed.
Print Assumptions C05_words_of_the_rendering.

Theorem C05_parser_ignores_token_strings : forall ts ts' e, map pt ts = map pt ts' -> bparse ts = POk e -> bparse ts' = POk e.
Proof. exact bparse_kinds. Qed.
Print Assumptions C05_parser_ignores_token_strings.

Theorem C05_resplit : forall O ws, canon O ws -> map ptext (pieces O (concat ws)) = ws.
Proof. exact resplit. Qed.
Print Assumptions C05_resplit.
