(* C05 — Rendered expressions re-parse to themselves; rendering is a fixed point.
   Proved: (1) for every well-formed expression e (every AND / OR has two or more operands, which
   the constructors enforce), the token sequence of its rendering - licenses, AND / OR, and a pair
   of parentheses around every compound operand, WITH pairs optionally in parentheses as
   render_as_readable writes them - is parsed back to e by the boolean parser, whatever the token
   strings and positions; (2) the rendered string is the concatenation of the items of that
   sequence, where AND / OR / parentheses are fixed texts and every license is the template
   applied to it: a custom template changes the license items only.
   The step from the rendered string to these tokens (the tokenizer recognising each rendered key
   again, which needs the table to be free of operator words) is decided by the correspondence and
   the oracle; hence _partial on the round trip. *)
Require Import Model.Base Model.Expr Model.LicTok Model.BoolParse Proofs.BoolParse Proofs.Render.

Theorem C05_render_tokens_roundtrip_partial : forall i0 wrap e, wf e = true ->
  bparse (tok_or (to_or i0 wrap e)) = POk e.
Proof. exact render_tokens_roundtrip. Qed.
Print Assumptions C05_render_tokens_roundtrip_partial.

Theorem C05_render_is_items : forall f wrap e, render_with f wrap e = flat_map (item_str f) (render_items wrap e).
Proof. exact render_is_items. Qed.
Print Assumptions C05_render_is_items.

Theorem C05_template_only_changes_licenses : forall f wrap e,
  render_with f wrap e = flat_map (item_str f) (render_items wrap e) /\
  render_with key wrap e = flat_map (item_str key) (render_items wrap e).
Proof. exact render_template. Qed.
Print Assumptions C05_template_only_changes_licenses.
