(* C03 — Malformed input is rejected with an ExpressionError that locates the fault.
   Proved: (1) for every table, flag combination and string, parse returns a value, a parse error
   (code, token string, position) or an expression error - never another exception; validate
   reports instead of raising; (2) blank input parses to None; (3) the boolean parser accepts only
   token sequences that start with a license or "(", in which every adjacent pair is allowed (no
   two operands without an operator, also across a parenthesis; no adjacent operators; no operator
   after "(" or before ")"; no "()") and whose parentheses are balanced - up to one operator at the
   very end, the documented exception; (4) a WITH that is not between two licenses is refused.
   (5) a parse error of parse() either carries no token (the empty string and position -1: nothing
   left to parse / unclosed parenthesis at the end) or points at a run g of consecutive non-blank
   pieces of the text: its position is the start offset of the first piece of g and its token
   string is made of g - the stretch of the text that g spans, or the texts of g joined by single
   spaces (an unknown license), or "a WITH b" built from the strings of three such runs
   (located / made_of, for both tokenizers, strict or not; premise: U+0020 is white space). *)
Require Import Model.Base Model.Expr Model.Split Model.LicTok Model.BoolParse Model.Licensing.
Require Import Proofs.ParseSound Proofs.NoLeak Proofs.WithGroup Proofs.Account Proofs.Located.

Theorem C03_no_foreign_exception : forall O T validate strict simple s,
  ~ foreign (parse O T validate strict simple s).
Proof. exact parse_no_leak. Qed.
Print Assumptions C03_no_foreign_exception.

Theorem C03_validate_reports : forall O T strict s, ~ In VLeak (errors (validate O T strict s)).
Proof. exact validate_total. Qed.
Print Assumptions C03_validate_reports.

Theorem C03_blank_is_none : forall O T validate strict simple s,
  blank O s = true -> parse O T validate strict simple s = Ok None.
Proof. intros O T va st si s H. unfold parse. rewrite H. reflexivity. Qed.
Print Assumptions C03_blank_is_none.

Theorem C03_accepted_is_well_formed : forall ts e, bparse ts = POk e ->
  adj_all None (map pt ts) = true /\ balanced (map pt ts) = true /\ ts <> [].
Proof. exact bparse_sound. Qed.
Print Assumptions C03_accepted_is_well_formed.

Theorem C03_stray_with_refused : forall O strict gs r, replace_with O strict gs = Ok r ->
  Forall (fun g => match g with G1 t => is_with_tok t = false | G3 _ _ _ => True end) gs.
Proof. exact replace_with_ok_no_stray. Qed.
Print Assumptions C03_stray_with_refused.

(* the adjacency table, spelled out: what may follow what *)
Example C03_adjacency_table :
  forall a b, adj_ok (Some (TS a)) (TS b) = false /\ adj_ok (Some TR) (TS b) = false /\
              adj_ok (Some (TS a)) TL = false /\ adj_ok (Some TR) TL = false /\
              adj_ok (Some TA) TO = false /\ adj_ok (Some TO) TR = false /\ adj_ok None TA = false /\
              adj_ok (Some TL) TA = false /\ adj_ok (Some TL) TR = false /\
              adj_ok (Some TA) (TS b) = true /\ adj_ok (Some (TS a)) TO = true /\ adj_ok (Some TR) TR = true.
Proof. intros. repeat split. Qed.

Theorem C03_parse_error_is_located : forall O, is_space O 32%N = true -> forall T text validate strict simple c tok pos,
  parse O T validate strict simple text = ParseErr c tok pos -> located O text tok pos.
Proof. exact parse_error_located. Qed.
Print Assumptions C03_parse_error_is_located.

(* the statement says something: "mit (gpl" over the empty table is refused at the parenthesis *)
Require Import Model.Index.
Example C03_located_example :
  parse ascii_oracle [] false false false [109; 105; 116; 32; 40; 103; 112; 108]%N = ParseErr PARSE_INVALID_NESTING [40]%N 4.
Proof. vm_compute. reflexivity. Qed.
