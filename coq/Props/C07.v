(* C07 — Simplification yields one canonical form per rewrite class.
   Proved here: the shape of the result (every node has two or more operands, none of the node's
   own kind, no two equal operands, operands in the order of the comparison used for sorting, all
   recursively) and that this comparison is asymmetric. Idempotence and rewrite invariance are
   stated in DESIGN.md (C07, "F") and are carried by the correspondence and the oracle only:
   the theorem below is therefore named _partial. *)
Require Import Model.Base Model.Expr Model.Simplify Proofs.Canonical.

Theorem C07_canonical_partial : forall e, wf e = true -> canonical (simplify e).
Proof. exact simplify_canonical. Qed.
Print Assumptions C07_canonical_partial.

Theorem C07_no_own_kind : forall e, flatb (simplify e) = true.
Proof. exact simplify_flat. Qed.
Print Assumptions C07_no_own_kind.

Theorem C07_order_asymmetric : forall a b, expr_ltb a b = true -> expr_ltb b a = false.
Proof. exact expr_ltb_asym. Qed.
Print Assumptions C07_order_asymmetric.
