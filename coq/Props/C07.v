(* C07 — Simplification yields one canonical form per rewrite class.
   Full statement on the model of boolean.py's DualBase.simplify as license expressions reach it:
   (1) simplify is idempotent on well-formed expressions;
   (2) simplify e = simplify e' whenever e' is obtained from e by any sequence of the rewrites of
       the property applied at any node, in either direction: same operands in another order or
       multiplicity, regrouping by associativity, joining an operand of the dual kind that contains
       a license of the node (A OR (A AND B), A AND (A OR B)) - the inductive relation `rewrites`;
       hence the text of the result does not change either;
   (3) the result is canonical: every node has two or more operands, none of the node's own kind,
       no two equal operands, operands in strictly increasing order of the comparison used by
       list.sort(), recursively; on canonical forms the set-based == of boolean.py is identity
       and that comparison is a strict total order.
   Proofs/Normal.v: the result of one node depends only on the members of its flattened operands
   (what absorption leaves = the operands no other operand absorbs; absorption is transitive and
   antisymmetric on canonical operands; a strictly sorted list is determined by its members). *)
Require Import Model.Base Model.Expr Model.Simplify Proofs.Canonical Proofs.Normal.

Theorem C07_idempotent : forall e, wf e = true -> simplify (simplify e) = simplify e.
Proof. exact simplify_idempotent. Qed.
Print Assumptions C07_idempotent.

Theorem C07_rewrite_invariant : forall e e', rewrites e e' -> simplify e = simplify e'.
Proof. exact simplify_rewrite_invariant. Qed.
Print Assumptions C07_rewrite_invariant.

Theorem C07_rewrite_same_text : forall f wrap e e', rewrites e e' ->
  render_with f wrap (simplify e) = render_with f wrap (simplify e').
Proof. exact rewrites_same_text. Qed.
Print Assumptions C07_rewrite_same_text.

Theorem C07_same_operands : forall o xs ys, wf (mk o xs) = true -> wf (mk o ys) = true ->
  (forall x, In x xs <-> In x ys) -> simplify (mk o xs) = simplify (mk o ys).
Proof. exact simplify_same_operands. Qed.
Print Assumptions C07_same_operands.

Theorem C07_regroup : forall o l1 ys l2, wf (mk o (l1 ++ ys ++ l2)) = true -> wf (mk o (l1 ++ [mk o ys] ++ l2)) = true ->
  simplify (mk o (l1 ++ ys ++ l2)) = simplify (mk o (l1 ++ [mk o ys] ++ l2)).
Proof. exact simplify_group. Qed.
Print Assumptions C07_regroup.

Theorem C07_absorbed_operand : forall o l1 l2 a ys, wf (mk o (l1 ++ l2)) = true -> wf (mk o (l1 ++ [mk (dual o) ys] ++ l2)) = true ->
  In (Lit a) (l1 ++ l2) -> In (Lit a) ys ->
  simplify (mk o (l1 ++ l2)) = simplify (mk o (l1 ++ [mk (dual o) ys] ++ l2)).
Proof. exact simplify_absorbed. Qed.
Print Assumptions C07_absorbed_operand.

Theorem C07_canonical : forall e, wf e = true -> canonical (simplify e).
Proof. exact simplify_canonical. Qed.
Print Assumptions C07_canonical.

Theorem C07_normal_form : forall e, wf e = true -> hnf (simplify e).
Proof. exact simplify_hnf. Qed.
Print Assumptions C07_normal_form.

Theorem C07_no_own_kind : forall e, flatb (simplify e) = true.
Proof. exact simplify_flat. Qed.
Print Assumptions C07_no_own_kind.

Theorem C07_order_total_on_canonical : forall a b, canonical a -> canonical b ->
  a = b \/ expr_ltb a b = true \/ expr_ltb b a = true.
Proof. exact canon_tri. Qed.
Print Assumptions C07_order_total_on_canonical.

Theorem C07_order_transitive_on_canonical : forall a b c, canonical a -> canonical b -> canonical c ->
  expr_ltb a b = true -> expr_ltb b c = true -> expr_ltb a c = true.
Proof. exact canon_trans. Qed.
Print Assumptions C07_order_transitive_on_canonical.

Theorem C07_eq_is_identity_on_canonical : forall a b, canonical a -> canonical b -> expr_eqb a b = true -> a = b.
Proof. exact canon_eq. Qed.
Print Assumptions C07_eq_is_identity_on_canonical.

Theorem C07_order_asymmetric : forall a b, expr_ltb a b = true -> expr_ltb b a = false.
Proof. exact expr_ltb_asym. Qed.
Print Assumptions C07_order_asymmetric.

(* the rewrite relation is inhabited by the examples of the property text: A OR (A AND B) ~ A OR A *)
Example C07_example :
  let A := Lit (Plain {| key := [97%N]; exc := false |}) in let B := Lit (Plain {| key := [98%N]; exc := false |}) in
  rewrites (Or [A; A]) (Or [A; And [A; B]; A]) /\ simplify (Or [A; And [A; B]; A]) = A.
Proof.
  split; [|vm_compute; reflexivity].
  apply (RW_absorb OpOr [Lit (Plain {| key := [97%N]; exc := false |})] [Lit (Plain {| key := [97%N]; exc := false |})]
           (Plain {| key := [97%N]; exc := false |}) [Lit (Plain {| key := [97%N]; exc := false |}); Lit (Plain {| key := [98%N]; exc := false |})]);
    [reflexivity | reflexivity | left; reflexivity | left; reflexivity].
Qed.
