(* C12 — Strict mode enforces the license WITH exception roles exactly.
   gs are the token groups of the text (single tokens and LICENSE WITH LICENSE triples) as built by
   Licensing.tokenize before the strict checks; roles_ok gs says that every triple has a
   non-exception on the left and an exception on the right and that no single license is an
   exception. *)
Require Import Model.Base Model.Expr Model.LicTok Model.Licensing Proofs.WithGroup Proofs.Strict.

Theorem C12_strict_iff : forall O T simple s gs e, s <> [] -> token_groups O T simple s = Ok gs ->
  (parse_tokens O T true simple s = Ok e <->
   parse_tokens O T false simple s = Ok e /\ roles_ok gs = true).
Proof. exact parse_strict_iff. Qed.
Print Assumptions C12_strict_iff.

Theorem C12_strict_error_where : forall O T simple s gs e, s <> [] -> token_groups O T simple s = Ok gs ->
  parse_tokens O T false simple s = Ok e -> roles_ok gs = false ->
  exists c tok pos, first_offender gs = Some (c, tok, pos) /\
                    parse_tokens O T true simple s = ParseErr c tok pos.
Proof. exact parse_strict_error. Qed.
Print Assumptions C12_strict_error_where.

Theorem C12_same_failure_without_tokens : forall O T simple s, s <> [] ->
  (forall gs, token_groups O T simple s <> Ok gs) ->
  parse_tokens O T true simple s = parse_tokens O T false simple s.
Proof. exact parse_strict_same_failure. Qed.
Print Assumptions C12_same_failure_without_tokens.

Theorem C12_replace_strict_iff : forall O gs r,
  replace_with O true gs = Ok r <-> replace_with O false gs = Ok r /\ roles_ok gs = true.
Proof. exact strict_iff. Qed.
Print Assumptions C12_replace_strict_iff.
