(* C12 — Strict mode enforces the license WITH exception roles exactly.
   gs are the token groups of the text (single tokens and LICENSE WITH LICENSE triples) as built by
   Licensing.tokenize before the strict checks; roles_ok gs says that every triple has a
   non-exception on the left and an exception on the right and that no single license is an
   exception.
   Last clause of the property: two tables with the same keys and aliases (same_names), whatever
   their exception flags, give non-strictly the same outcome up to the flags carried by the symbols
   (eexpr erases them): the same error, or trees equal after erasure; they accept the same strings.
   Proved by showing that the matcher, the overlap filter, the piece walk, the unknown-run merger,
   WITH grouping, the non-strict replacement and the boolean parser commute with a map on the
   values they carry (Proofs/Flags.v). *)
Require Import Model.Base Model.Expr Model.LicTok Model.Licensing Proofs.WithGroup Proofs.Strict Proofs.Flags.

Theorem C12_strict_iff : forall O T simple s gs e, s <> [] -> token_groups O T simple s = Ok gs ->
  (parse_tokens O T true simple s = Ok e <->
   parse_tokens O T false simple s = Ok e /\ roles_ok gs = true).
Proof. exact parse_strict_iff. Qed.
Print Assumptions C12_strict_iff.

Theorem C12_strict_error_where : forall O T simple s gs e, s <> [] -> token_groups O T simple s = Ok gs ->
  parse_tokens O T false simple s = Ok e -> roles_ok gs = false ->
  exists c tok pos, first_offender gs = Some (c, tok, pos) /\
                    parse_tokens O T true simple s = ParseErr c tok pos.
Proof. exact parse_strict_error. Qed.
Print Assumptions C12_strict_error_where.

Theorem C12_same_failure_without_tokens : forall O T simple s, s <> [] ->
  (forall gs, token_groups O T simple s <> Ok gs) ->
  parse_tokens O T true simple s = parse_tokens O T false simple s.
Proof. exact parse_strict_same_failure. Qed.
Print Assumptions C12_same_failure_without_tokens.

Theorem C12_replace_strict_iff : forall O gs r,
  replace_with O true gs = Ok r <-> replace_with O false gs = Ok r /\ roles_ok gs = true.
Proof. exact strict_iff. Qed.
Print Assumptions C12_replace_strict_iff.

Theorem C12_nonstrict_parse_ignores_flags : forall O T T' validate simple s, same_names T T' ->
  eout (option_map eexpr) (parse O T validate false simple s) = eout (option_map eexpr) (parse O T' validate false simple s).
Proof. exact parse_flag_free. Qed.
Print Assumptions C12_nonstrict_parse_ignores_flags.

Theorem C12_nonstrict_accepts_same_strings : forall O T T' validate simple s, same_names T T' ->
  ((exists r, parse O T validate false simple s = Ok r) <-> (exists r, parse O T' validate false simple s = Ok r)).
Proof. exact parse_accepts_same. Qed.
Print Assumptions C12_nonstrict_accepts_same_strings.

Theorem C12_nonstrict_tokens_ignore_flags : forall O T T' simple s, same_names T T' ->
  eout (map eptok) (lic_tokenize O T false simple s) = eout (map eptok) (lic_tokenize O T' false simple s).
Proof. exact tokenize_flag_free. Qed.
Print Assumptions C12_nonstrict_tokens_ignore_flags.
