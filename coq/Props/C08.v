(* C08 — Equivalence and containment obey their algebraic laws (on parsed expressions; the
   functions take no symbol table, so the answer cannot depend on the Licensing instance).
   Expressions related by the rewrites of C07 (operands reordered / repeated, regrouped by
   associativity, joined by an absorbed operand, anywhere, in any sequence) are equivalent. *)
Require Import Model.Base Model.Expr Model.Simplify Proofs.Equiv Proofs.Normal.

Theorem C08_equiv_refl : forall a, is_equivalent a a = true.
Proof. exact equiv_refl. Qed.
Print Assumptions C08_equiv_refl.

Theorem C08_equiv_sym : forall a b, is_equivalent a b = is_equivalent b a.
Proof. exact equiv_sym. Qed.
Print Assumptions C08_equiv_sym.

Theorem C08_equiv_trans : forall a b c, is_equivalent a b = true -> is_equivalent b c = true -> is_equivalent a c = true.
Proof. exact equiv_trans. Qed.
Print Assumptions C08_equiv_trans.

Theorem C08_equiv_sound : forall a b, is_equivalent a b = true -> forall v, eval v a = eval v b.
Proof. exact equiv_sound. Qed.
Print Assumptions C08_equiv_sound.

Theorem C08_contains_refl : forall a, contains a a = true.
Proof. exact contains_refl. Qed.
Print Assumptions C08_contains_refl.

Theorem C08_contains_respects_equiv_left : forall a a' b, is_equivalent a a' = true -> contains a b = contains a' b.
Proof. exact contains_respects_equiv_left. Qed.
Print Assumptions C08_contains_respects_equiv_left.

Theorem C08_contains_respects_equiv_right : forall a b b', is_equivalent b b' = true -> contains a b = contains a b'.
Proof. exact contains_respects_equiv_right. Qed.
Print Assumptions C08_contains_respects_equiv_right.

Theorem C08_with_contains_parts : forall l r,
  contains (Lit (With l r)) (Lit (Plain l)) = true /\ contains (Lit (With l r)) (Lit (Plain r)) = true.
Proof. exact with_contains_parts. Qed.
Print Assumptions C08_with_contains_parts.

Theorem C08_contains_atoms : forall a b, contains a b = true -> incl (literals (simplify b)) (atoms_dec a).
Proof. exact contains_atoms. Qed.
Print Assumptions C08_contains_atoms.

Theorem C08_rewritten_variants_equivalent : forall e e', rewrites e e' -> is_equivalent e e' = true.
Proof. exact rewrites_equivalent. Qed.
Print Assumptions C08_rewritten_variants_equivalent.
