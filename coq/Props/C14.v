(* C14 — A Licensing accepts exactly the unambiguous symbol tables.
   For a table of valid symbols (keys accepted by LicenseSymbol; keyl e, the lower-cased key, is
   not empty) validate_symbols reports an error, and the constructor raises ValueError, exactly
   when: two different entries have the same key ignoring case; or some name (an alias normalised
   for case and spacing, or the lower-cased key) is claimed by two different entries with different
   keys - i.e. an alias belongs to two licenses or equals the key of another; or a name is a bare
   operator word. The statement does not depend on the order in which the code meets the entries,
   although the code's dictionary of seen aliases is order sensitive (last writer wins).
   Representation independence (strings / LicenseSymbol / arbitrary objects) is structural in the
   model (all three are mapped to (key, aliases, flag) entries) and is decided by the oracle. *)
Require Import Model.Base Model.Expr Model.LicTok Model.Licensing Proofs.Tables.

Theorem C14_validate_symbols_iff : forall O T, (forall e, In e T -> keyl O e <> []) ->
  (validate_symbols_err O T = true <-> ambiguous O T).
Proof. exact validate_symbols_ambiguous. Qed.
Print Assumptions C14_validate_symbols_iff.

Theorem C14_ctor_iff : forall O raw T, as_symbols O raw = Ok T -> (forall e, In e T -> keyl O e <> []) ->
  (new_licensing O raw = ValueErr <-> ambiguous O T) /\ (new_licensing O raw = Ok T <-> ~ ambiguous O T).
Proof. exact ctor_iff. Qed.
Print Assumptions C14_ctor_iff.
