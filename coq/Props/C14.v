(* C14 — A Licensing accepts exactly the unambiguous symbol tables.
   For a table of valid symbols (keys accepted by LicenseSymbol; keyl e, the lower-cased key, is
   not empty) validate_symbols reports an error, and the constructor raises ValueError, exactly
   when: two different entries have the same key ignoring case; or some name (an alias normalised
   for case and spacing, or the lower-cased key) is claimed by two different entries with different
   keys - i.e. an alias belongs to two licenses or equals the key of another; or a name is a bare
   operator word. The statement does not depend on the order in which the code meets the entries,
   although the code's dictionary of seen aliases is order sensitive (last writer wins).
   Representation independence (strings / LicenseSymbol / arbitrary objects) is structural in the
   model (all three are mapped to (key, aliases, flag) entries) and is decided by the oracle. *)
Require Import Model.Base Model.Expr Model.LicTok Model.Licensing Proofs.Tables.

Theorem C14_validate_symbols_iff : forall O T, (forall e, In e T -> keyl O e <> []) ->
  (validate_symbols_err O T = true <-> ambiguous O T).
Proof. exact validate_symbols_ambiguous. Qed.
Print Assumptions C14_validate_symbols_iff.

Theorem C14_ctor_iff : forall O raw T, as_symbols O raw = Ok T -> (forall e, In e T -> keyl O e <> []) ->
  (new_licensing O raw = ValueErr <-> ambiguous O T) /\ (new_licensing O raw = Ok T <-> ~ ambiguous O T).
Proof. exact ctor_iff. Qed.
Print Assumptions C14_ctor_iff.

(* without the premise on the keys: a table whose keys went through LicenseSymbol() (as_symbols succeeded) never has an empty
   lower-cased key, so the constructor raises ValueError exactly for the ambiguous tables and accepts exactly the others. Two facts
   about the interpreter's tables are premises (checked by the harness): lower-casing leaves white space as it is, and turns any
   other character into at least one character, none of them white space. *)
Require Import Proofs.Strings Proofs.Accepted.
Theorem C14_ctor_decides : forall O, is_space O 32%N = true ->
  (forall c, is_space O c = true -> lower_ch O c = [c]) ->
  (forall c, is_space O c = false -> lower_ch O c <> [] /\ nospace O (lower_ch O c)) ->
  forall raw T, as_symbols O raw = Ok T ->
  (new_licensing O raw = ValueErr <-> ambiguous O T) /\ (new_licensing O raw = Ok T <-> ~ ambiguous O T).
Proof. exact ctor_decides. Qed.
Print Assumptions C14_ctor_decides.

(* what acceptance buys: in an accepted table - whatever its names hold, operator words and parentheses included - no two names
   of different licenses (nor a license and an operator) are stored under the same lower-cased words: every name has one owner.
   (Before the repair of D11 this needed "no parenthesis in a name" and was false without it.) *)
Require Import Model.Split.
Theorem C14_accepted_names_have_one_owner : forall O, is_space O 32%N = true ->
  (forall c, is_space O c = true -> lower_ch O c = [c]) ->
  (forall c, is_space O c = false -> lower_ch O c <> [] /\ nospace O (lower_ch O c)) ->
  (forall c, In c [97; 110; 100; 111; 114; 119; 105; 116; 104; 40; 41]%N -> is_space O c = false /\ lower_ch O c = [c]) ->
  (is_wordch O 40%N = false /\ is_wordch O 41%N = false) ->
  forall T : list entry,
  (forall e, In e T -> mk_key O (ekey e) = Ok (ekey e)) ->
  validate_symbols_err O T = false ->
  forall n1 v1 n2 v2,
  In (n1, v1) (keyword_adds ++ flat_map (entry_adds O) T) -> In (n2, v2) (keyword_adds ++ flat_map (entry_adds O) T) ->
  lwords O n1 <> [] -> lwords O n1 = lwords O n2 -> v1 = v2.
Proof. exact accepted_names_unambiguous. Qed.
Print Assumptions C14_accepted_names_have_one_owner.

(* the rule compares aliases by their lower-cased matcher words (the repair of D11); on an alias without parentheses - the
   quantifier of this property - that is the normalisation the property words: lower-case, strip, split on white space, join *)
Theorem C14_alias_normalisation_on_plain_aliases : forall O,
  (forall c, is_space O c = true -> lower_ch O c = [c]) ->
  (forall c, is_space O c = false -> lower_ch O c <> [] /\ nospace O (lower_ch O c)) ->
  forall a, (forall c, In c a -> is_space O c = false -> is_paren c = false) ->
  norm_alias O a = norm_spaces O (strip O (lower O a)).
Proof. exact norm_alias_plain. Qed.
Print Assumptions C14_alias_normalisation_on_plain_aliases.
