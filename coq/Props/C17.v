(* C17 — Token selection yields disjoint, exactly positioned tokens covering the text.
   Proved: filter_overlapping, on any list of tokens, returns tokens of the input, in text order,
   each starting after the end of every earlier one; every token produced by Trie.tokenize (matched
   or unmatched) carries exactly the slice of the text between its start and end positions.
   For every well-formed trie (build_trie gives one) and every text: the tokens of Trie.tokenize are
   in text order, each starting after the end of the one before, each starts and ends on a piece
   boundary of the text, and every non-blank piece of the text lies inside exactly one of them.
   Selection rules, for any list of well-formed tokens (start <= end, as every reported match is):
   a token survives the filter when every other token is apart from it or beaten by it (shorter, or
   as long and starting later); hence the leftmost of the longest matches is kept, a match that
   touches no other is kept, and of two matches that overlap only each other the longer (the earlier
   on a tie) is kept and the other is not; a word that no kept match covers reappears as an unmatched
   token of its own. *)
Require Import Model.Base Model.Split Model.Trie Model.Overlap Proofs.Overlap Proofs.Trie Proofs.Cover Proofs.Select.

Theorem C17_disjoint_partial : forall V (l : list (Trie.tok V)), chain_after (filter_overlapping l).
Proof. intros V. exact (@fo_disjoint V). Qed.
Print Assumptions C17_disjoint_partial.

Theorem C17_pairwise_disjoint : forall V (l : list (Trie.tok V)) i j a b, (i < j)%nat ->
  nth_error (filter_overlapping l) i = Some a -> nth_error (filter_overlapping l) j = Some b ->
  (tend a < tstart b)%Z.
Proof. intros V l. exact (chain_after_disjoint (filter_overlapping l) (fo_disjoint l)). Qed.
Print Assumptions C17_pairwise_disjoint.

Theorem C17_text_order : forall V (l : list (Trie.tok V)), sorted_st (filter_overlapping l).
Proof. intros V. exact (@fo_in_order V). Qed.
Print Assumptions C17_text_order.

Theorem C17_only_input_tokens : forall V (l : list (Trie.tok V)) x, In x (filter_overlapping l) -> In x l.
Proof. intros V. exact (@fo_sub V). Qed.
Print Assumptions C17_only_input_tokens.

Theorem C17_token_is_slice : forall V O (tr : trie V) text t,
  In t (t_tokenize O tr text) -> tstring t = slice text (tstart t) (tend t).
Proof. intros V O. exact (@tokenize_slices V O). Qed.
Print Assumptions C17_token_is_slice.

Theorem C17_tokens_ordered_and_disjoint : forall V O (tr : trie V), wf_trie tr -> forall text,
  chain_after (t_tokenize O tr text).
Proof. intros V O. exact (@tokenize_ordered_disjoint V O). Qed.
Print Assumptions C17_tokens_ordered_and_disjoint.

Theorem C17_tokens_on_piece_boundaries : forall V O (tr : trie V), wf_trie tr -> forall text t,
  In t (t_tokenize O tr text) -> on_boundaries (pieces O text) t.
Proof. intros V O. exact (@tokenize_on_boundaries V O). Qed.
Print Assumptions C17_tokens_on_piece_boundaries.

Theorem C17_every_word_in_exactly_one_token : forall V O (tr : trie V), wf_trie tr -> forall text p,
  In p (pieces O text) -> is_word_piece O p = true ->
  exists pre t post, t_tokenize O tr text = pre ++ t :: post /\ covers t p /\
                     (forall t', In t' (pre ++ post) -> ~ covers t' p).
Proof. intros V O. exact (@tokenize_covers_once V O). Qed.
Print Assumptions C17_every_word_in_exactly_one_token.

Theorem C17_leftmost_longest_kept : forall V (x : Trie.tok V) l1 l2,
  wf_tok x -> (forall y, In y (l1 ++ l2) -> wf_tok y) ->
  (forall y, In y (l1 ++ l2) -> (tok_len y < tok_len x \/ (tok_len y = tok_len x /\ tstart x < tstart y))%Z) ->
  In x (filter_overlapping (l1 ++ x :: l2)).
Proof. intros V. exact (@fo_keeps_leftmost_longest V). Qed.
Print Assumptions C17_leftmost_longest_kept.

Theorem C17_isolated_kept : forall V (x : Trie.tok V) l1 l2,
  wf_tok x -> (forall y, In y (l1 ++ l2) -> wf_tok y /\ apart x y) ->
  In x (filter_overlapping (l1 ++ x :: l2)).
Proof. intros V. exact (@fo_keeps_isolated V). Qed.
Print Assumptions C17_isolated_kept.

Theorem C17_pair_rule : forall V (x z : Trie.tok V) l1 l2 l3,
  wf_tok x -> wf_tok z -> ~ apart x z ->
  (tok_len z < tok_len x \/ (tok_len z = tok_len x /\ tstart x < tstart z))%Z ->
  (forall y, In y (l1 ++ l2 ++ l3) -> wf_tok y /\ apart x y) ->
  forall l, (l = l1 ++ x :: l2 ++ z :: l3 \/ l = l1 ++ z :: l2 ++ x :: l3) ->
  In x (filter_overlapping l) /\
  (forall i j, nth_error (filter_overlapping l) i = Some x -> nth_error (filter_overlapping l) j = Some z -> i = j).
Proof. intros V. exact (@fo_pair_rule V). Qed.
Print Assumptions C17_pair_rule.

Theorem C17_general_survival : forall V (x : Trie.tok V) l1 l2,
  wf_tok x -> (forall y, In y (l1 ++ l2) -> wf_tok y /\ (apart x y \/ beaten x y)) ->
  In x (filter_overlapping (l1 ++ x :: l2)).
Proof. intros V. exact (@fo_keeps V). Qed.
Print Assumptions C17_general_survival.

Theorem C17_reported_matches_are_wellformed : forall V O (tr : trie V), wf_trie tr -> forall text t,
  In t (t_iter O tr text) -> wf_tok t.
Proof. intros V O tr W text t H. exact (proj2 (proj2 (proj2 (Proofs.Recognise.match_inside O tr W text t H)))). Qed.
Print Assumptions C17_reported_matches_are_wellformed.

Theorem C17_uncovered_word_reappears_unmatched : forall V O (tr : trie V), wf_trie tr -> forall text p,
  In p (pieces O text) -> is_word_piece O p = true ->
  (forall t, In t (filter_overlapping (t_iter O tr text)) -> ~ covers t p) ->
  In (unmatched p) (t_tokenize O tr text).
Proof. intros V O. exact (@tokenize_unmatched_word V O). Qed.
Print Assumptions C17_uncovered_word_reappears_unmatched.

(* the premises are satisfiable and the statements say something: three overlapping names
   "a b" / "b c d" / "d e" and the text "x (a b c d e) y" with glued parentheses *)
Require Import Model.Index.
Definition C17_example_trie : trie nat :=
  t_make_automaton (add_ops ascii_oracle t_empty
     [([97;32;98], 1%nat); ([98;32;99;32;100], 2%nat); ([100;32;101], 3%nat)]%N).
Example C17_example_wf : wf_trie C17_example_trie.
Proof. apply wf_make. apply (wf_add_ops ascii_oracle). apply wf_empty. Qed.
Example C17_example_tokens :
  map (fun t => (tstart t, tend t, tvalue t))
      (t_tokenize ascii_oracle C17_example_trie [120;32;40;97;32;98;32;99;32;100;32;101;41;32;121]%N)
  = [(0, 0, None); (2, 2, None); (3, 3, None); (5, 9, Some 2%nat); (11, 11, None); (12, 12, None); (14, 14, None)]%Z.
Proof. vm_compute. reflexivity. Qed.

(* duplicates and ties allowed: a token survives when every other token is a copy of it, apart from it, shorter, or as
   long and starting later (used by C05 to show that a stored name inside an unknown run would have become a token) *)
Theorem C17_kept_when_dominant : forall V (x : Trie.tok V) l, wf_tok x -> In x l ->
  (forall y, In y l -> y = x \/ (wf_tok y /\ (apart x y \/ (tok_len y < tok_len x)%Z \/ (tok_len y = tok_len x /\ (tstart x < tstart y)%Z)))) ->
  In x (filter_overlapping l).
Proof. intro V. exact (@fo_keeps_dominant_tie V). Qed.
Print Assumptions C17_kept_when_dominant.
