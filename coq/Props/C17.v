(* C17 — Token selection yields disjoint, exactly positioned tokens covering the text.
   Proved: filter_overlapping, on any list of tokens, returns tokens of the input, in text order,
   each starting after the end of every earlier one; every token produced by Trie.tokenize (matched
   or unmatched) carries exactly the slice of the text between its start and end positions.
   The coverage clause (every non-blank word in exactly one token) and the selection rules
   (leftmost longest kept, isolated kept, pair rule) are decided by the oracle on all interval
   configurations up to a bound and by the correspondence; hence the suffix _partial. *)
Require Import Model.Base Model.Split Model.Trie Model.Overlap Proofs.Overlap.

Theorem C17_disjoint_partial : forall V (l : list (Trie.tok V)), chain_after (filter_overlapping l).
Proof. intros V. exact (@fo_disjoint V). Qed.
Print Assumptions C17_disjoint_partial.

Theorem C17_pairwise_disjoint : forall V (l : list (Trie.tok V)) i j a b, (i < j)%nat ->
  nth_error (filter_overlapping l) i = Some a -> nth_error (filter_overlapping l) j = Some b ->
  (tend a < tstart b)%Z.
Proof. intros V l. exact (chain_after_disjoint (filter_overlapping l) (fo_disjoint l)). Qed.
Print Assumptions C17_pairwise_disjoint.

Theorem C17_text_order : forall V (l : list (Trie.tok V)), sorted_st (filter_overlapping l).
Proof. intros V. exact (@fo_in_order V). Qed.
Print Assumptions C17_text_order.

Theorem C17_only_input_tokens : forall V (l : list (Trie.tok V)) x, In x (filter_overlapping l) -> In x l.
Proof. intros V. exact (@fo_sub V). Qed.
Print Assumptions C17_only_input_tokens.

Theorem C17_token_is_slice : forall V O (tr : trie V) text t,
  In t (t_tokenize O tr text) -> tstring t = slice text (tstart t) (tend t).
Proof. intros V O. exact (@tokenize_slices V O). Qed.
Print Assumptions C17_token_is_slice.
