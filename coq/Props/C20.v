(* C20 — A shared Licensing is safe to use from several threads, first use included
   (partial: an interleaving model at statement granularity of Licensing.get_advanced_tokenizer,
   not the Python runtime).
   Any number of threads each run the statements of get_advanced_tokenizer - in the order
   generated from the source on this run (gen/ThreadProg.v) - under an arbitrary schedule. If the
   order is "check the slot, build a local tokenizer, add all names, finalise, publish, return"
   (shape_safe), then every call that has returned obtained a complete tokenizer, so it answers
   what it answers when run alone. More generally any order that meets the decidable criterion safe_order is safe
   (C20_threads_safe_any_order); Tie/ThreadProg.v proves safe_order for the generated order.
   For the order of the unrepaired code (publish before filling) a failing schedule exists
   (publish_first_refuted). *)
Require Import Model.Base Model.Threads Proofs.Threads Gen.ThreadProg Tie.ThreadProg.

Theorem C20_threads_safe_partial : forall p, shape_safe p = true -> forall n sched th,
  In th (threads (run_sched p (start n) sched)) -> result th = None \/ result th = Some true.
Proof. exact threads_safe. Qed.
Print Assumptions C20_threads_safe_partial.

(* any statement order: the criterion safe_order (decidable, Model/Threads.v) - a statement publishes or returns the thread's
   own tokenizer only where it is complete (allocated, every adding loop of the program run, finalised), and changes it only
   while it is unpublished - is enough, whatever else the order looks like (a second look at the slot under a lock, say) *)
Require Import Proofs.ThreadsGen.
Theorem C20_threads_safe_any_order : forall p, safe_order p = true -> forall n sched th,
  In th (threads (run_sched p (start n) sched)) -> result th = None \/ result th = Some true.
Proof. exact threads_safe_order. Qed.
Print Assumptions C20_threads_safe_any_order.

Theorem C20_threads_safe_for_this_source : forall n sched th,
  In th (threads (run_sched thread_prog (start n) sched)) -> result th = None \/ result th = Some true.
Proof. exact threads_safe_repo. Qed.
Print Assumptions C20_threads_safe_for_this_source.

Theorem C20_publish_first_refuted :
  let p := [IRead; IAlloc; IPublish; IAdd; IAdd; IFinalize; IReturn] in
  exists th, In th (threads (run_sched p (start 2) [0; 0; 0; 1])) /\ result th = Some false.
Proof. exact publish_first_refuted. Qed.
Print Assumptions C20_publish_first_refuted.

(* What the thread model leaves out is whatever else two calls could share. The inventory of gen/Writes.v - regenerated from both
   source files on this run - lists every statement that can change an object the running call did not create itself; all of
   them stand in the builders of a tokenizer (run before it is published: the order above), in the publication itself, or
   in three places that work on a list or set the same call has just made; none has a module-level constant as its receiver.
   Hence two calls share the published tokenizer and nothing else that anyone writes to. (A statement is judged by its text: a
   receiver reached through an alias of a shared object that is itself stored in a fresh local container is not seen.) *)
Require Import Model.Writes Gen.Writes Tie.Writes.
Theorem C20_shared_writes_confined_for_this_source : confined writes = true /\ constants_untouched writes = true.
Proof. exact writes_confined. Qed.
Print Assumptions C20_shared_writes_confined_for_this_source.
