(* C04 — Known keys and aliases are recognised whatever the case and spacing (operand contexts: partial).
   Proved: a text whose lower-cased words (split on white space and parentheses: any letter case,
   any amount and kind of white space, also around parentheses) are the words of a stored name is
   matched by the scan from its first to its last word with the value stored for that name; the
   names of a table are stored under the lower-cased words of the key and of every alias; among
   overlapping matches the overlap filter keeps tokens of its input only, in text order and
   disjoint. C04_recognise_alone: a text that spells a known name - whatever the letter case, the
   amount and kind of white space between its words and around parentheses - is tokenized to the one
   whole-span match (every other match is contained in it and removed by the overlap filter; the
   gap-filling walk adds nothing) and parsed to the symbol of the entry that owns these words, which
   renders as the canonical key; strictly too when that license is not an exception.
   C04_known_names_as_operands (tables without operator words): wherever a known name - any key or alias, in any letter
   case and spacing - stands as a complete operand of a derivation of the grammar, next to operators, parentheses, WITH and
   other licenses, it is resolved to the symbol of the entry that owns these words and the text parses to the tree of the
   derivation (the layout theorem of C02, Proofs/Layout.v).  For tables whose names hold operator words, and for the
   longest / leftmost rule among partially overlapping matches, the selection theorems of C17 apply and the operator contexts
   are decided by the oracle and the correspondence. *)
Require Import Model.Base Model.Expr Model.Split Model.Trie Model.Overlap Model.LicTok.
Require Import Model.Licensing Proofs.Trie Proofs.Overlap Proofs.Recognise.

Theorem C04_name_is_matched_partial : forall V O (tr : trie V), wf_trie tr -> forall text sp v,
  get_out (lwords O text) (outs tr) = Some (sp, v) ->
  let wps := filter (is_word_piece O) (pieces O text) in
  In (occurrence_tok text wps (List.last wps {| pstart := 0%Z; ptext := [] |}) v) (t_iter O tr text).
Proof. intros V O tr W text. exact (@whole_text_matched V O tr W text). Qed.
Print Assumptions C04_name_is_matched_partial.

Theorem C04_lookup_ignores_case_and_spacing : forall V O (ops : list (str * V)) name,
  t_get O (add_ops O t_empty ops) name = match name with [] => None | _ => stored O ops (lwords O name) end.
Proof. intros V O. exact (@get_after_adds V O). Qed.
Print Assumptions C04_lookup_ignores_case_and_spacing.

Theorem C04_filter_keeps_disjoint_input_tokens : forall V (l : list (Trie.tok V)),
  chain_after (filter_overlapping l) /\ sorted_st (filter_overlapping l) /\
  (forall x, In x (filter_overlapping l) -> In x l).
Proof. intros V l. split; [apply fo_disjoint | split; [apply fo_in_order | apply fo_sub]]. Qed.
Print Assumptions C04_filter_keeps_disjoint_input_tokens.

Theorem C04_recognise_alone : forall O T text sp s,
  stored O (keyword_adds ++ flat_map (entry_adds O) T) (lwords O text) = Some (sp, VSym s) ->
  parse O T false false false text = Ok (Some (Lit (Plain s))) /\ render (Lit (Plain s)) = key s.
Proof. exact recognise_name. Qed.
Print Assumptions C04_recognise_alone.

Theorem C04_recognise_alone_strict : forall O T text sp s,
  get_out (lwords O text) (outs (build_trie O T)) = Some (sp, VSym s) -> exc s = false ->
  parse O T false true false text = Ok (Some (Lit (Plain s))).
Proof. exact recognise_alone_strict. Qed.
Print Assumptions C04_recognise_alone_strict.

Theorem C04_tokenized_to_one_token : forall O T text sp v,
  get_out (lwords O text) (outs (build_trie O T)) = Some (sp, v) ->
  let wps := filter (is_word_piece O) (pieces O text) in
  t_tokenize O (build_trie O T) text = [occurrence_tok text wps (last wps dpiece) v].
Proof. exact tokenize_alone. Qed.
Print Assumptions C04_tokenized_to_one_token.

Require Import Model.BoolParse Proofs.BoolParse Proofs.Render Proofs.Reparse Proofs.Layout.
Theorem C04_known_names_as_operands : forall O, is_space O 32%N = true ->
  (lower O S_AND = s_and /\ lower O S_OR = s_or /\ lower O S_WITH = s_with /\ lower O s_lpar = s_lpar /\ lower O s_rpar = s_rpar) ->
  (forall c, In c [97; 110; 100; 111; 114; 119; 105; 116; 104; 40; 41]%N -> is_space O c = false /\ lower_ch O c = [c]) ->
  forall T : list entry,
  (forall n v, In (n, v) (flat_map (entry_adds O) T) -> forall w, In w (lwords O n) -> is_keyword_str w = false) ->
  forall text (gus : list (list piece * unit_)) (d : orx),
  concat (map fst gus) = filter (is_word_piece O) (pieces O text) ->
  (forall g k, In (g, UK k) gus -> exists p, g = [p] /\ lower O (ptext p) = kw_str k) ->
  (forall g s, In (g, US s) gus ->
     g <> [] /\ (forall p, In p g -> is_keyword_str (lower O (ptext p)) = false) /\ (known_group O T g s \/ unknown_group O T g s)) ->
  alt sepu (map snd gus) ->
  map snd gus = flat_map units_of (map kind_of (tok_or d)) ->
  parse_tokens O T false false text = Ok (tree_or d).
Proof. exact layout_parses_derivation. Qed.
Print Assumptions C04_known_names_as_operands.

(* over any table Licensing() accepted (names holding operator words or parentheses included): the license a name resolves
   to is the one that declares it - a text with the lower-cased words of a key or alias of an entry (any letter case, any white
   space) parses to that entry's symbol and renders as its canonical key. validate_symbols is what makes the owner unique
   (accepted_names_unambiguous). *)
Require Import Proofs.Strings Proofs.Accepted.
Theorem C04_names_of_an_accepted_table : forall O, is_space O 32%N = true ->
  (forall c, In c [97; 110; 100; 111; 114; 119; 105; 116; 104; 40; 41]%N -> is_space O c = false /\ lower_ch O c = [c]) ->
  (is_wordch O 40%N = false /\ is_wordch O 41%N = false) ->
  (forall c, is_space O c = true -> lower_ch O c = [c]) ->
  (forall c, is_space O c = false -> lower_ch O c <> [] /\ nospace O (lower_ch O c)) ->
  forall raw T : list entry, new_licensing O raw = Ok T ->
  forall e n v text, In e T -> In (n, v) (entry_adds O e) -> lwords O n <> [] -> lwords O text = lwords O n ->
  parse O T false false false text = Ok (Some (Lit (Plain (entry_sym e)))) /\
  render (Lit (Plain (entry_sym e))) = ekey e /\
  validate O T false text = {| normalized := Some (ekey e); errors := []; invalid_symbols := [] |}.
Proof. exact accepted_name_resolves. Qed.
Print Assumptions C04_names_of_an_accepted_table.

(* strict parsing gives the same for a name of a license that is not an exception *)
Theorem C04_names_of_an_accepted_table_strict : forall O, is_space O 32%N = true ->
  (forall c, In c [97; 110; 100; 111; 114; 119; 105; 116; 104; 40; 41]%N -> is_space O c = false /\ lower_ch O c = [c]) ->
  (is_wordch O 40%N = false /\ is_wordch O 41%N = false) ->
  (forall c, is_space O c = true -> lower_ch O c = [c]) ->
  (forall c, is_space O c = false -> lower_ch O c <> [] /\ nospace O (lower_ch O c)) ->
  forall raw T : list entry, new_licensing O raw = Ok T ->
  forall e n v text, In e T -> In (n, v) (entry_adds O e) -> lwords O n <> [] -> lwords O text = lwords O n -> eexc e = false ->
  parse O T false true false text = Ok (Some (Lit (Plain (entry_sym e)))).
Proof. exact accepted_name_resolves_strict. Qed.
Print Assumptions C04_names_of_an_accepted_table_strict.

(* non-vacuity, and the case the repair of D11 is about: A declares the alias "gpl (v2)", mit declares "mit or later" (an operator
   word inside a name); Licensing() accepts the table, and "GPL(V2)" - other case, no white space around the parentheses - is A *)
Require Import Model.Index Proofs.AsciiOracle.
Definition eA4 : entry := {| ekey := [65]%N; ealiases := [[103; 112; 108; 32; 40; 118; 50; 41]%N]; eexc := false |}.
Definition T4 : list entry :=
  [ eA4; {| ekey := [109; 105; 116]%N; ealiases := [[109; 105; 116; 32; 111; 114; 32; 108; 97; 116; 101; 114]%N]; eexc := false |} ].
Example C04_example_parenthesised_alias :
  parse ascii_oracle T4 false false false [71; 80; 76; 40; 86; 50; 41]%N = Ok (Some (Lit (Plain (entry_sym eA4)))) /\
  render (Lit (Plain (entry_sym eA4))) = ekey eA4 /\
  validate ascii_oracle T4 false [71; 80; 76; 40; 86; 50; 41]%N = {| normalized := Some (ekey eA4); errors := []; invalid_symbols := [] |}.
Proof.
  apply (C04_names_of_an_accepted_table ascii_oracle ascii_sp_is_space ascii_kw_plain ascii_paren_not_word ascii_lower_space
           ascii_lower_nospace T4 T4) with (n := [103; 112; 108; 32; 40; 118; 50; 41]%N) (v := VSym (entry_sym eA4)).
  - vm_compute. reflexivity.
  - left. reflexivity.
  - vm_compute. right. left. reflexivity.
  - vm_compute. discriminate.
  - vm_compute. reflexivity.
Qed.
