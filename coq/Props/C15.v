(* C15 — Bundled SPDX and ScanCode tables load and recognise every name.
   (1) For the index shipped in /repo (regenerated into gen/Index.v on every run) the kernel
   computes that both ready-made tables build without error, that their known keys are exactly the
   keys of the non-deprecated entries (for SPDX: with an SPDX key), unchanged, and that deprecated
   entries and entries without an SPDX key are unknown. (2) For a table built from any index of the
   same format the constructor succeeds exactly when the retained entries are unambiguous (C14), and
   (3) for every table, a text that spells a key or alias (any letter case and spacing) parses to the
   symbol of the entry owning these words and renders as its canonical key (C04_recognise_alone):
   with (1) this covers every name of the shipped tables. Validation of every name, the exception
   flags and random compounds are swept by the oracle over both bundled tables; synthetic indexes go
   through the correspondence. *)
Require Import Model.Base Model.Expr Model.Split Model.Trie Model.LicTok Model.Licensing Model.Index.
Require Import Proofs.Trie Proofs.Tables Proofs.Recognise Gen.Index Tie.Index.

Theorem C15_shipped_tables_build :
  is_ok (build_licensing ascii_oracle shipped_index) = true /\
  is_ok (build_spdx_licensing ascii_oracle shipped_index) = true.
Proof. exact (conj shipped_scancode_builds shipped_spdx_builds). Qed.
Print Assumptions C15_shipped_tables_build.

Theorem C15_shipped_known_keys :
  map ekey (table_of (build_licensing ascii_oracle shipped_index)) = map ekey (scancode_raw shipped_index) /\
  map ekey (table_of (build_spdx_licensing ascii_oracle shipped_index)) = map ekey (spdx_raw shipped_index).
Proof. exact (conj shipped_scancode_keys shipped_spdx_keys). Qed.
Print Assumptions C15_shipped_known_keys.

Theorem C15_shipped_deprecated_and_keyless_unknown :
  (let T := table_of (build_licensing ascii_oracle shipped_index) in
   forallb (fun l => negb (deprecated l) || negb (known_key T (license_key l))) shipped_index) = true /\
  (let T := table_of (build_spdx_licensing ascii_oracle shipped_index) in
   forallb (fun l => (negb (deprecated l) && negb (match spdx_key l with [] => true | _ => false end)) ||
                     match spdx_key l with [] => true | k => negb (known_key T k) end) shipped_index) = true.
Proof. exact (conj shipped_deprecated_unknown shipped_spdx_excluded_unknown). Qed.
Print Assumptions C15_shipped_deprecated_and_keyless_unknown.

Theorem C15_any_index_builds_iff_unambiguous : forall O idx T,
  as_symbols O (scancode_raw idx) = Ok T -> (forall e, In e T -> keyl O e <> []) ->
  (build_licensing O idx = ValueErr <-> ambiguous O T) /\ (build_licensing O idx = Ok T <-> ~ ambiguous O T).
Proof. intros O idx T. exact (ctor_iff O (scancode_raw idx) T). Qed.
Print Assumptions C15_any_index_builds_iff_unambiguous.

Theorem C15_name_is_matched_partial : forall V O (tr : trie V), wf_trie tr -> forall text sp v,
  get_out (lwords O text) (outs tr) = Some (sp, v) ->
  let wps := filter (is_word_piece O) (pieces O text) in
  In (occurrence_tok text wps (List.last wps {| pstart := 0%Z; ptext := [] |}) v) (t_iter O tr text).
Proof. intros V O tr W text. exact (@whole_text_matched V O tr W text). Qed.
Print Assumptions C15_name_is_matched_partial.

Theorem C15_every_name_parses_to_its_entry : forall O T text sp s,
  stored O (keyword_adds ++ flat_map (entry_adds O) T) (lwords O text) = Some (sp, VSym s) ->
  parse O T false false false text = Ok (Some (Lit (Plain s))) /\ render (Lit (Plain s)) = key s.
Proof. exact recognise_name. Qed.
Print Assumptions C15_every_name_parses_to_its_entry.

(* (4) every name of the two shipped tables: a text whose lower-cased words are those of a key or alias of an entry - any letter
   case, any white space - parses to that entry's symbol (its key and exception flag as the index has them), renders as the
   canonical key and validates without errors. Obtained from the theorem over accepted tables (C15_names_of_a_built_table) and
   what the kernel computed on the regenerated index: both tables are built, none of their names holds an operator word or a
   parenthesis, every name has words. *)
Require Import Proofs.Strings Proofs.Accepted Tie.IndexNames.
Theorem C15_every_shipped_name_resolves_and_validates :
  (forall e n v text, In e (table_of (build_licensing ascii_oracle shipped_index)) -> In (n, v) (entry_adds ascii_oracle e) ->
     lwords ascii_oracle text = lwords ascii_oracle n ->
     let T := table_of (build_licensing ascii_oracle shipped_index) in
     parse ascii_oracle T false false false text = Ok (Some (Lit (Plain (entry_sym e)))) /\
     render (Lit (Plain (entry_sym e))) = ekey e /\
     validate ascii_oracle T false text = {| normalized := Some (ekey e); errors := []; invalid_symbols := [] |}) /\
  (forall e n v text, In e (table_of (build_spdx_licensing ascii_oracle shipped_index)) -> In (n, v) (entry_adds ascii_oracle e) ->
     lwords ascii_oracle text = lwords ascii_oracle n ->
     let T := table_of (build_spdx_licensing ascii_oracle shipped_index) in
     parse ascii_oracle T false false false text = Ok (Some (Lit (Plain (entry_sym e)))) /\
     render (Lit (Plain (entry_sym e))) = ekey e /\
     validate ascii_oracle T false text = {| normalized := Some (ekey e); errors := []; invalid_symbols := [] |}).
Proof. exact shipped_names_resolve. Qed.
Print Assumptions C15_every_shipped_name_resolves_and_validates.

(* (5) the same for a Licensing built from any index of the same format (any table Licensing() accepted, whatever
   its names hold): every name with words, in any case and spacing, is its entry's license. *)
Theorem C15_names_of_a_built_table : forall O, is_space O 32%N = true ->
  (forall c, In c [97; 110; 100; 111; 114; 119; 105; 116; 104; 40; 41]%N -> is_space O c = false /\ lower_ch O c = [c]) ->
  (is_wordch O 40%N = false /\ is_wordch O 41%N = false) ->
  (forall c, is_space O c = true -> lower_ch O c = [c]) ->
  (forall c, is_space O c = false -> lower_ch O c <> [] /\ nospace O (lower_ch O c)) ->
  forall raw T : list entry, new_licensing O raw = Ok T ->
  forall e n v text, In e T -> In (n, v) (entry_adds O e) -> lwords O n <> [] -> lwords O text = lwords O n ->
  parse O T false false false text = Ok (Some (Lit (Plain (entry_sym e)))) /\
  render (Lit (Plain (entry_sym e))) = ekey e /\
  validate O T false text = {| normalized := Some (ekey e); errors := []; invalid_symbols := [] |}.
Proof. exact accepted_name_resolves. Qed.
Print Assumptions C15_names_of_a_built_table.
