(* C15 — Bundled SPDX and ScanCode tables load and recognise every name.
   (1) For the index shipped in /repo (regenerated into gen/Index.v on every run) the kernel
   computes that both ready-made tables build without error, that their known keys are exactly the
   keys of the non-deprecated entries (for SPDX: with an SPDX key), unchanged, and that deprecated
   entries and entries without an SPDX key are unknown. (2) For a table built from any index of the
   same format the constructor succeeds exactly when the retained entries are unambiguous (C14), and
   (3) for every table, a text that spells a key or alias (any letter case and spacing) parses to the
   symbol of the entry owning these words and renders as its canonical key (C04_recognise_alone):
   with (1) this covers every name of the shipped tables. Validation of every name, the exception
   flags and random compounds are swept by the oracle over both bundled tables; synthetic indexes go
   through the correspondence. *)
Require Import Model.Base Model.Expr Model.Split Model.Trie Model.LicTok Model.Licensing Model.Index.
Require Import Proofs.Trie Proofs.Tables Proofs.Recognise Gen.Index Tie.Index.

Theorem C15_shipped_tables_build :
  is_ok (build_licensing ascii_oracle shipped_index) = true /\
  is_ok (build_spdx_licensing ascii_oracle shipped_index) = true.
Proof. exact (conj shipped_scancode_builds shipped_spdx_builds). Qed.
Print Assumptions C15_shipped_tables_build.

Theorem C15_shipped_known_keys :
  map ekey (table_of (build_licensing ascii_oracle shipped_index)) = map ekey (scancode_raw shipped_index) /\
  map ekey (table_of (build_spdx_licensing ascii_oracle shipped_index)) = map ekey (spdx_raw shipped_index).
Proof. exact (conj shipped_scancode_keys shipped_spdx_keys). Qed.
Print Assumptions C15_shipped_known_keys.

Theorem C15_shipped_deprecated_and_keyless_unknown :
  (let T := table_of (build_licensing ascii_oracle shipped_index) in
   forallb (fun l => negb (deprecated l) || negb (known_key T (license_key l))) shipped_index) = true /\
  (let T := table_of (build_spdx_licensing ascii_oracle shipped_index) in
   forallb (fun l => (negb (deprecated l) && negb (match spdx_key l with [] => true | _ => false end)) ||
                     match spdx_key l with [] => true | k => negb (known_key T k) end) shipped_index) = true.
Proof. exact (conj shipped_deprecated_unknown shipped_spdx_excluded_unknown). Qed.
Print Assumptions C15_shipped_deprecated_and_keyless_unknown.

Theorem C15_any_index_builds_iff_unambiguous : forall O idx T,
  as_symbols O (scancode_raw idx) = Ok T -> (forall e, In e T -> keyl O e <> []) ->
  (build_licensing O idx = ValueErr <-> ambiguous O T) /\ (build_licensing O idx = Ok T <-> ~ ambiguous O T).
Proof. intros O idx T. exact (ctor_iff O (scancode_raw idx) T). Qed.
Print Assumptions C15_any_index_builds_iff_unambiguous.

Theorem C15_name_is_matched_partial : forall V O (tr : trie V), wf_trie tr -> forall text sp v,
  get_out (lwords O text) (outs tr) = Some (sp, v) ->
  let wps := filter (is_word_piece O) (pieces O text) in
  In (occurrence_tok text wps (List.last wps {| pstart := 0%Z; ptext := [] |}) v) (t_iter O tr text).
Proof. intros V O tr W text. exact (@whole_text_matched V O tr W text). Qed.
Print Assumptions C15_name_is_matched_partial.

Theorem C15_every_name_parses_to_its_entry : forall O T text sp s,
  stored O (keyword_adds ++ flat_map (entry_adds O) T) (lwords O text) = Some (sp, VSym s) ->
  parse O T false false false text = Ok (Some (Lit (Plain s))) /\ render (Lit (Plain s)) = key s.
Proof. exact recognise_name. Qed.
Print Assumptions C15_every_name_parses_to_its_entry.
