(* C02 — Valid expressions parse to the tree fixed by grammar and precedence.
   Token level: the token stream of any expression derivable from the grammar
     prim ::= license | ( orexp )     andexp ::= prim (AND prim)*     orexp ::= andexp (OR andexp)*
   (licenses being atoms, a "license WITH exception" triple being grouped first, greedily, into
   one atom) is parsed to tree_or e: AND binds tighter than OR, a run of one operator is one n-ary
   node in text order, a parenthesised compound is a nested node, parentheses around a single
   license vanish.
   Text level (C02_text_parses_to_its_tree): let the non-blank pieces of a text be cut into blocks -
   runs of pieces that spell a stored name (a key, an alias or one of and / or / with / ( / ), in
   any case) and non-empty runs of other pieces, no two of the latter adjacent - such that every
   occurrence of a stored name reported by the scan lies inside a name block (the "no crossing"
   proviso of the property: words that are part of a known name belong to one operand). Then every
   name block becomes the token of its name, every other run becomes one unknown license whose key
   is its words joined by single spaces, and if these tokens spell a derivation e of the grammar
   (WITH triples grouped first), parse returns tree_or e. Premise: U+0020 is white space.
   Proofs/Segments.v (the matcher yields exactly one token per segment) and Proofs/Blocks.v.
   Over tables without operator words the proviso is a theorem (C02_layout_parses_over_plain_tables, Proofs/Layout.v): cut the
   non-blank pieces of a text into groups, one per item of a derivation - an operator or parenthesis in any letter case, a
   known license spelled by any of its names in any case, or a run of other words in which no stored name occurs - and parse
   returns the tree of the derivation.  No premise about the matches reported by the scan is left: a name without operator
   words cannot match across an operator, and two licenses are never adjacent in a derivation. *)
Require Import Model.Base Model.Expr Model.Split Model.Trie Model.LicTok Model.BoolParse Model.Licensing.
Require Import Proofs.BoolParse Proofs.WithGroup Proofs.Trie Proofs.Segments Proofs.Blocks Proofs.SimpleAgree.

Theorem C02_bparse_complete : forall e : orx, bparse (tok_or e) = POk (tree_or e).
Proof. exact bparse_complete. Qed.
Print Assumptions C02_bparse_complete.

Theorem C02_with_binds_tightest : forall O items, Forall item_ok items ->
  replace_with O false (group_with (flat_map flat items)) = Ok (map (ptok_of O) items).
Proof. exact with_grouping_complete. Qed.
Print Assumptions C02_with_binds_tightest.

Theorem C02_grouping_is_greedy : forall ts, group_with ts = greedy ts.
Proof. exact group_with_greedy. Qed.
Print Assumptions C02_grouping_is_greedy.

Theorem C02_text_parses_to_its_tree : forall O, is_space O 32%N = true -> forall T text blocks ltoks items (e : orx),
  concat (map bpieces blocks) = filter (is_word_piece O) (pieces O text) ->
  (forall g v, In (BM g v) blocks -> g <> [] /\ exists sp, get_out (lws O g) (outs (build_trie O T)) = Some (sp, v)) ->
  (forall t, In t (t_iter O (build_trie O T) text) -> exists g v, In (BM g v) blocks /\ (lo g <= tstart t)%Z /\ (tend t <= hi g)%Z) ->
  (forall g, In (BU g) blocks -> g <> []) -> separated blocks ->
  mapo (btok O text) blocks = Ok ltoks -> ltoks = flat_map flat items -> Forall item_ok items ->
  map (ptok_of O) items = tok_or e ->
  parse_tokens O T false false text = Ok (tree_or e).
Proof. exact parse_blocks. Qed.
Print Assumptions C02_text_parses_to_its_tree.

Theorem C02_one_token_per_segment : forall V O (tr : trie V), wf_trie tr -> forall text (segs : list (@seg V)),
  concat (map (@spieces V) segs) = filter (is_word_piece O) (pieces O text) ->
  (forall g v, In (SM g v) segs -> g <> [] /\ exists sp, get_out (lws O g) (outs tr) = Some (sp, v)) ->
  (forall t, In t (t_iter O tr text) -> exists g v, In (SM g v) segs /\ (lo g <= tstart t)%Z /\ (tend t <= hi g)%Z) ->
  Overlap.t_tokenize O tr text = map (stok text) segs.
Proof. intros V O. exact (@tokenize_segments V O). Qed.
Print Assumptions C02_one_token_per_segment.

(* non-vacuity: a or (b and (c or d)) and e, with arbitrary token strings and positions *)
Example C02_example : forall i (a b c d e : atom),
  bparse (tok_or (OCons (A1 (PA a i)) i
                  (O1 (ACons (PP i i (O1 (ACons (PA b i) i (A1 (PP i i (OCons (A1 (PA c i)) i (O1 (A1 (PA d i))))))))) i
                             (A1 (PA e i))))))
  = POk (Or [Lit a; And [And [Lit b; Or [Lit c; Lit d]]; Lit e]]).
Proof. intros. apply bparse_complete. Qed.

(* the premises of the text-level theorem are satisfiable: "GNU  gpl or (zz yy)" over a table with the alias "gnu gpl",
   proved through C02_text_parses_to_its_tree *)
Require Import Model.Index Proofs.Recognise.
Open Scope Z_scope.
Definition C02_T0 : list entry := [ {| ekey := [103; 112; 108]%N; ealiases := [[103; 110; 117; 32; 103; 112; 108]%N]; eexc := false |} ].
Definition tx : str := [71; 78; 85; 32; 32; 103; 112; 108; 32; 111; 114; 32; 40; 122; 122; 32; 121; 121; 41]%N.
Definition p0 := {| pstart := 0; ptext := [71; 78; 85]%N |}.
Definition p1 := {| pstart := 5; ptext := [103; 112; 108]%N |}.
Definition p2 := {| pstart := 9; ptext := [111; 114]%N |}.
Definition p3 := {| pstart := 12; ptext := [40]%N |}.
Definition p4 := {| pstart := 13; ptext := [122; 122]%N |}.
Definition p5 := {| pstart := 16; ptext := [121; 121]%N |}.
Definition p6 := {| pstart := 18; ptext := [41]%N |}.
Definition gpl := {| key := [103; 112; 108]%N; exc := false |}.
Definition zzyy := {| key := [122; 122; 32; 121; 121]%N; exc := false |}.
Definition bl : list block := [BM [p0; p1] (VSym gpl); BM [p2] (VKw KOr); BM [p3] (VKw KLp); BU [p4; p5]; BM [p6] (VKw KRp)].
Definition lt := match mapo (btok ascii_oracle tx) bl with Ok l => l | _ => [] end.
Definition nth_t n := nth n lt {| tstart := 0; tend := 0; tstring := []; tvalue := None |}.
Definition its : list item := [ISym (nth_t 0) gpl; IKw (nth_t 1) KOr; IKw (nth_t 2) KLp; ISym (nth_t 3) zzyy; IKw (nth_t 4) KRp].
Definition inf n : info := (tstring (nth_t n), tstart (nth_t n)).
Definition ex : orx := OCons (A1 (PA (Plain gpl) (inf 0))) (inf 1) (O1 (A1 (PP (inf 2) (inf 4) (O1 (A1 (PA (Plain zzyy) (inf 3))))))).
Example C02_text_example : parse_tokens ascii_oracle C02_T0 false false tx = Ok (Or [Lit (Plain gpl); Lit (Plain zzyy)]).
Proof.
  change (Or [Lit (Plain gpl); Lit (Plain zzyy)]) with (tree_or ex).
  apply (C02_text_parses_to_its_tree ascii_oracle eq_refl C02_T0 tx bl lt its ex).
  - vm_compute. reflexivity.
  - intros g v H. simpl in H. destruct H as [H|[H|[H|[H|[H|[]]]]]]; try discriminate H; inversion H; subst; (split; [discriminate | eexists; vm_compute; reflexivity]).
  - intros t Ht. vm_compute in Ht.
    destruct Ht as [<-|[<-|[<-|[<-|[<-|[]]]]]].
    + exists [p0; p1], (VSym gpl). split; [left; reflexivity | vm_compute; split; discriminate].
    + exists [p0; p1], (VSym gpl). split; [left; reflexivity | vm_compute; split; discriminate].
    + exists [p2], (VKw KOr). split; [right; left; reflexivity | vm_compute; split; discriminate].
    + exists [p3], (VKw KLp). split; [right; right; left; reflexivity | vm_compute; split; discriminate].
    + exists [p6], (VKw KRp). split; [do 4 right; left; reflexivity | vm_compute; split; discriminate].
  - intros g H. simpl in H. destruct H as [H|[H|[H|[H|[H|[]]]]]]; try discriminate H; inversion H; subst; discriminate.
  - exact I.
  - vm_compute. reflexivity.
  - vm_compute. reflexivity.
  - repeat constructor; vm_compute; try reflexivity; try discriminate.
  - vm_compute. reflexivity.
Qed.

Require Import Proofs.Reparse Proofs.Layout Proofs.Render.
Theorem C02_layout_parses_over_plain_tables : forall O, is_space O 32%N = true ->
  (lower O S_AND = s_and /\ lower O S_OR = s_or /\ lower O S_WITH = s_with /\ lower O s_lpar = s_lpar /\ lower O s_rpar = s_rpar) ->
  (forall c, In c [97; 110; 100; 111; 114; 119; 105; 116; 104; 40; 41]%N -> is_space O c = false /\ lower_ch O c = [c]) ->
  forall T : list entry,
  (forall n v, In (n, v) (flat_map (entry_adds O) T) -> forall w, In w (lwords O n) -> is_keyword_str w = false) ->
  forall text (gus : list (list piece * unit_)) (d : orx),
  concat (map fst gus) = filter (is_word_piece O) (pieces O text) ->
  (forall g k, In (g, UK k) gus -> exists p, g = [p] /\ lower O (ptext p) = kw_str k) ->
  (forall g s, In (g, US s) gus ->
     g <> [] /\ (forall p, In p g -> is_keyword_str (lower O (ptext p)) = false) /\ (known_group O T g s \/ unknown_group O T g s)) ->
  alt sepu (map snd gus) ->
  map snd gus = flat_map units_of (map kind_of (tok_or d)) ->
  parse_tokens O T false false text = Ok (tree_or d).
Proof. exact layout_parses_derivation. Qed.
Print Assumptions C02_layout_parses_over_plain_tables.

(* the premises are satisfiable: the text of C02_text_example again, with no premise about matches *)
Definition gus0 : list (list piece * unit_) :=
  [([p0; p1], US gpl); ([p2], UK KOr); ([p3], UK KLp); ([p4; p5], US zzyy); ([p6], UK KRp)].
Example C02_layout_example : parse_tokens ascii_oracle C02_T0 false false tx = Ok (Or [Lit (Plain gpl); Lit (Plain zzyy)]).
Proof.
  change (Or [Lit (Plain gpl); Lit (Plain zzyy)]) with (tree_or ex).
  apply (C02_layout_parses_over_plain_tables ascii_oracle eq_refl) with (gus := gus0).
  - repeat split; reflexivity.
  - intros c Hc. simpl in Hc. repeat (destruct Hc as [<-|Hc]; [split; reflexivity|]). destruct Hc.
  - intros n v Hin w Hw. vm_compute in Hin. repeat (destruct Hin as [Hin|Hin]; [inversion Hin; subst n v; vm_compute in Hw; repeat (destruct Hw as [<-|Hw]; [vm_compute; reflexivity|]); destruct Hw|]). destruct Hin.
  - vm_compute. reflexivity.
  - intros g k Hin. simpl in Hin. repeat (destruct Hin as [Hin|Hin]; [inversion Hin; subst; eexists; split; reflexivity|]). destruct Hin.
  - intros g s Hin. simpl in Hin. destruct Hin as [Hin|[Hin|[Hin|[Hin|[Hin|[]]]]]]; inversion Hin; subst g s.
    + split; [discriminate|]. split; [intros p Hp; simpl in Hp; repeat (destruct Hp as [<-|Hp]; [vm_compute; reflexivity|]); destruct Hp|].
      left. eexists. vm_compute. reflexivity.
    + split; [discriminate|]. split; [intros p Hp; simpl in Hp; repeat (destruct Hp as [<-|Hp]; [vm_compute; reflexivity|]); destruct Hp|].
      right. split; [|vm_compute; reflexivity].
      intros a m c E Hm.
      apply (no_occurrence_check ascii_oracle C02_T0 (lws ascii_oracle [p4; p5]) ltac:(vm_compute; reflexivity)
               (lws ascii_oracle a) (lws ascii_oracle m) (lws ascii_oracle c));
        [rewrite E; unfold lws; rewrite !map_app; reflexivity | destruct m; [contradiction | discriminate]].
  - simpl. tauto.
  - vm_compute. reflexivity.
Qed.
