(* C02 — Valid expressions parse to the tree fixed by grammar and precedence.
   Token level: the token stream of any expression derivable from the grammar
     prim ::= license | ( orexp )     andexp ::= prim (AND prim)*     orexp ::= andexp (OR andexp)*
   (licenses being atoms, a "license WITH exception" triple being grouped first, greedily, into
   one atom) is parsed to tree_or e: AND binds tighter than OR, a run of one operator is one n-ary
   node in text order, a parenthesised compound is a nested node, parentheses around a single
   license vanish. The string level (layout, case, known names) rests on the tokenizer theorems of
   C01 / C04 / C16 and on the correspondence; see DESIGN.md. *)
Require Import Model.Base Model.Expr Model.LicTok Model.BoolParse Proofs.BoolParse Proofs.WithGroup.

Theorem C02_bparse_complete : forall e : orx, bparse (tok_or e) = POk (tree_or e).
Proof. exact bparse_complete. Qed.
Print Assumptions C02_bparse_complete.

Theorem C02_with_binds_tightest : forall O items, Forall item_ok items ->
  replace_with O false (group_with (flat_map flat items)) = Ok (map (ptok_of O) items).
Proof. exact with_grouping_complete. Qed.
Print Assumptions C02_with_binds_tightest.

Theorem C02_grouping_is_greedy : forall ts, group_with ts = greedy ts.
Proof. exact group_with_greedy. Qed.
Print Assumptions C02_grouping_is_greedy.

(* non-vacuity: a or (b and (c or d)) and e, with arbitrary token strings and positions *)
Example C02_example : forall i (a b c d e : atom),
  bparse (tok_or (OCons (A1 (PA a i)) i
                  (O1 (ACons (PP i i (O1 (ACons (PA b i) i (A1 (PP i i (OCons (A1 (PA c i)) i (O1 (A1 (PA d i))))))))) i
                             (A1 (PA e i))))))
  = POk (Or [Lit a; And [And [Lit b; Or [Lit c; Lit d]]; Lit e]]).
Proof. intros. apply bparse_complete. Qed.
