(* Threads calling parse on one shared Licensing: interleavings of Licensing.get_advanced_tokenizer
   at the granularity of its statements. The statement order is generated from the source
   (coq/gen/ThreadProg.v). Every call builds at most one tokenizer object, which is identified
   with the calling thread; the shared slot Licensing.advanced_tokenizer names the thread whose
   tokenizer is published. A call is answered correctly when the tokenizer it obtains is complete
   (all names added, automaton built). *)
Require Import Model.Base.

Inductive instr :=
  | IRead       (* if self.advanced_tokenizer is not None: return self.advanced_tokenizer *)
  | IAlloc      (* tokenizer = AdvancedTokenizer() *)
  | IAdd        (* one of the loops adding names *)
  | IFinalize   (* tokenizer.make_automaton() *)
  | IPublish    (* self.advanced_tokenizer = tokenizer *)
  | IReturn.    (* return tokenizer *)

Definition instr_eqb (a b : instr) : bool :=
  match a, b with
  | IRead, IRead | IAlloc, IAlloc | IAdd, IAdd | IFinalize, IFinalize | IPublish, IPublish | IReturn, IReturn => true
  | _, _ => false
  end.

Definition prog := list instr.

(* a thread: program counter, its own tokenizer (allocated? names added, finalised?), and the
   verdict on the tokenizer its call obtained, once it has returned *)
Record thread := { pc : nat; allocated : bool; adds : nat; fin : bool; result : option bool }.
Record gstate := { slot : option nat; threads : list thread }.

Definition nadds (p : prog) : nat := length (filter (instr_eqb IAdd) p).
Definition complete (p : prog) (th : thread) : bool := allocated th && Nat.eqb (adds th) (nadds p) && fin th.

Fixpoint upd {A} (n : nat) (f : A -> A) (l : list A) : list A :=
  match l, n with
  | [], _ => []
  | x :: l', 0 => f x :: l'
  | x :: l', S n' => x :: upd n' f l'
  end.

Definition tok_complete (p : prog) (g : gstate) (j : nat) : bool :=
  match nth_error (threads g) j with Some th => complete p th | None => false end.

(* one statement of thread [t] *)
Definition tstep (p : prog) (g : gstate) (t : nat) : gstate :=
  match nth_error (threads g) t with
  | None => g
  | Some th =>
    match result th with
    | Some _ => g          (* the call has returned *)
    | None =>
      match nth_error p (pc th) with
      | None => g
      | Some i =>
        let set th' := {| slot := slot g; threads := upd t (fun _ => th') (threads g) |} in
        match i with
        | IRead =>
            match slot g with
            | Some j => set {| pc := pc th; allocated := allocated th; adds := adds th; fin := fin th;
                               result := Some (tok_complete p g j) |}
            | None => set {| pc := S (pc th); allocated := allocated th; adds := adds th; fin := fin th; result := None |}
            end
        | IAlloc => set {| pc := S (pc th); allocated := true; adds := 0; fin := false; result := None |}
        | IAdd => set {| pc := S (pc th); allocated := allocated th; adds := S (adds th); fin := fin th; result := None |}
        | IFinalize => set {| pc := S (pc th); allocated := allocated th; adds := adds th; fin := true; result := None |}
        | IPublish =>
            {| slot := Some t;
               threads := upd t (fun _ => {| pc := S (pc th); allocated := allocated th; adds := adds th; fin := fin th;
                                             result := None |}) (threads g) |}
        | IReturn => set {| pc := pc th; allocated := allocated th; adds := adds th; fin := fin th;
                            result := Some (complete p th) |}
        end
      end
    end
  end.

Definition run_sched (p : prog) (g : gstate) (sched : list nat) : gstate := fold_left (tstep p) sched g.

Definition start (n : nat) : gstate :=
  {| slot := None; threads := repeat {| pc := 0; allocated := false; adds := 0; fin := false; result := None |} n |}.

(* the statement order that makes first use safe: check, build locally, publish last *)
Fixpoint all_adds (p : prog) : prog := match p with IAdd :: p' => all_adds p' | _ => p end.
Definition shape_safe (p : prog) : bool :=
  match p with
  | IRead :: IAlloc :: IAdd :: rest =>
      match all_adds rest with
      | [IFinalize; IPublish; IReturn] => true
      | _ => false
      end
  | _ => false
  end.

(* ---- any statement order: a decidable criterion ----
   What a thread has done to its own tokenizer after the first n statements, had it run them in a row (a read that finds the
   slot empty changes nothing; one that finds it filled ends the call). *)
Record astate := { a_alloc : bool; a_adds : nat; a_fin : bool; a_pub : bool }.
Definition a0 : astate := {| a_alloc := false; a_adds := 0; a_fin := false; a_pub := false |}.
Definition astep (s : astate) (i : instr) : astate :=
  match i with
  | IRead | IReturn => s
  | IAlloc => {| a_alloc := true; a_adds := 0; a_fin := false; a_pub := a_pub s |}
  | IAdd => {| a_alloc := a_alloc s; a_adds := S (a_adds s); a_fin := a_fin s; a_pub := a_pub s |}
  | IFinalize => {| a_alloc := a_alloc s; a_adds := a_adds s; a_fin := true; a_pub := a_pub s |}
  | IPublish => {| a_alloc := a_alloc s; a_adds := a_adds s; a_fin := a_fin s; a_pub := true |}
  end.
Definition abs_at (p : prog) (n : nat) : astate := fold_left astep (firstn n p) a0.
Definition a_complete (p : prog) (s : astate) : bool := a_alloc s && Nat.eqb (a_adds s) (nadds p) && a_fin s.

(* a statement may publish or return the own tokenizer only when it is complete, and may change the own tokenizer only as long
   as it has not been published *)
Definition ok_at (p : prog) (n : nat) (i : instr) : bool :=
  match i with
  | IPublish | IReturn => a_complete p (abs_at p n)
  | IAlloc | IAdd | IFinalize => negb (a_pub (abs_at p n))
  | IRead => true
  end.
Definition safe_order (p : prog) : bool :=
  forallb (fun n => match nth_error p n with Some i => ok_at p n i | None => true end) (seq 0 (length p)).
