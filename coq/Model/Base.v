(* Base definitions of the model: characters, strings, oracles, outcomes, generic data.
   No proofs here (so the model still builds and runs when a proof is broken). *)
From Coq Require Export List Bool NArith ZArith.
Export ListNotations.

Definition char := N.
Definition str := list N.

(* Python str == and < : code point lexicographic *)
Fixpoint str_eqb (a b : str) : bool :=
  match a, b with
  | [], [] => true
  | x :: a', y :: b' => N.eqb x y && str_eqb a' b'
  | _, _ => false
  end.

Fixpoint str_ltb (a b : str) : bool :=
  match a, b with
  | [], [] => false
  | [], _ :: _ => true
  | _ :: _, [] => false
  | x :: a', y :: b' => if N.ltb x y then true else if N.eqb x y then str_ltb a' b' else false
  end.

Definition bool_ltb (a b : bool) : bool := negb a && b.

(* sep.join(l) *)
Fixpoint join (sep : str) (l : list str) : str :=
  match l with
  | [] => []
  | [x] => x
  | x :: l' => x ++ sep ++ join sep l'
  end.

Definition sp : str := [32%N].
Definition join_sp := join sp.

(* The running interpreter's Unicode tables; never axioms: parameters of the definitions and
   premises (oracle facts) of the theorems that need them. *)
Record oracle := {
  is_space : char -> bool;        (* \s of re, str.isspace, str.split(), str.strip() *)
  is_wordch : char -> bool;       (* \w of re *)
  lower_ch : char -> str;         (* str.lower() of one character (context-free part) *)
}.

Definition lower (O : oracle) (s : str) : str := flat_map (lower_ch O) s.

Definition c_lpar : N := 40%N.
Definition c_rpar : N := 41%N.
Definition is_paren (c : char) : bool := N.eqb c c_lpar || N.eqb c c_rpar.

(* str.strip() *)
Fixpoint lstrip (O : oracle) (s : str) : str :=
  match s with
  | [] => []
  | c :: s' => if is_space O c then lstrip O s' else s
  end.
Definition rstrip (O : oracle) (s : str) : str := rev (lstrip O (rev s)).
Definition strip (O : oracle) (s : str) : str := rstrip O (lstrip O s).
Definition blank (O : oracle) (s : str) : bool := forallb (is_space O) s.

(* str.split(): maximal runs of non-space characters *)
Fixpoint split_ws_acc (O : oracle) (acc : str) (s : str) : list str :=
  match s with
  | [] => match acc with [] => [] | _ => [rev acc] end
  | c :: s' =>
      if is_space O c then
        match acc with [] => split_ws_acc O [] s' | _ => rev acc :: split_ws_acc O [] s' end
      else split_ws_acc O (c :: acc) s'
  end.
Definition split_ws (O : oracle) (s : str) : list str := split_ws_acc O [] s.

(* ' '.join(s.split()) *)
Definition norm_spaces (O : oracle) (s : str) : str := join_sp (split_ws O s).

(* generic tree-shaped data used to talk to the outside world (driver and harness) *)
Inductive data := DI (z : Z) | DL (l : list data).

(* Python exception classes that can escape; Leak marks an exception that is not an
   ExpressionError where one could be raised by the code *)
Inductive pyexc := IndexError | AssertionError | AttributeError | KeyError | PyTypeError | OtherExc.

Inductive ekind :=
  | EArity                          (* AND/OR requires two or more licenses *)
  | EBadKey (k : str)               (* LicenseSymbol(...) refused the key *)
  | EUnknownKeys (ks : list str)    (* validate_license_keys *)
  | ENotString                      (* expression must be a string *)
  | EOther.

Inductive outcome (A : Type) :=
  | Ok (a : A)
  | ParseErr (code : N) (tok : str) (pos : Z)
  | ExprErr (k : ekind)
  | ValueErr
  | TypeErr
  | Leak (e : pyexc).
Arguments Ok {A} a.
Arguments ParseErr {A} code tok pos.
Arguments ExprErr {A} k.
Arguments ValueErr {A}.
Arguments TypeErr {A}.
Arguments Leak {A} e.

Definition obind {A B} (x : outcome A) (f : A -> outcome B) : outcome B :=
  match x with
  | Ok a => f a
  | ParseErr c t p => ParseErr c t p
  | ExprErr k => ExprErr k
  | ValueErr => ValueErr
  | TypeErr => TypeErr
  | Leak e => Leak e
  end.

Definition omap {A B} (f : A -> B) (x : outcome A) : outcome B := obind x (fun a => Ok (f a)).

(* error codes: boolean.py PARSE_* and license_expression PARSE_*; tied by gen/Consts.v *)
Definition PARSE_UNKNOWN_TOKEN : N := 1.
Definition PARSE_UNBALANCED_CLOSING_PARENS : N := 2.
Definition PARSE_INVALID_EXPRESSION : N := 3.
Definition PARSE_INVALID_NESTING : N := 4.
Definition PARSE_INVALID_SYMBOL_SEQUENCE : N := 5.
Definition PARSE_INVALID_OPERATOR_SEQUENCE : N := 6.
Definition PARSE_EXPRESSION_NOT_UNICODE : N := 100.
Definition PARSE_INVALID_EXCEPTION : N := 101.
Definition PARSE_INVALID_SYMBOL_AS_EXCEPTION : N := 102.
Definition PARSE_INVALID_SYMBOL : N := 103.

(* keyword spellings (lower case) *)
Definition s_and : str := [97; 110; 100]%N.
Definition s_or : str := [111; 114]%N.
Definition s_with : str := [119; 105; 116; 104]%N.
Definition s_lpar : str := [40]%N.
Definition s_rpar : str := [41]%N.
Definition S_AND : str := [65; 78; 68]%N.
Definition S_OR : str := [79; 82]%N.
Definition S_WITH : str := [87; 73; 84; 72]%N.

Fixpoint list_eqb {A} (eqb : A -> A -> bool) (a b : list A) : bool :=
  match a, b with
  | [], [] => true
  | x :: a', y :: b' => eqb x y && list_eqb eqb a' b'
  | _, _ => false
  end.

Fixpoint last_opt {A} (l : list A) : option A :=
  match l with [] => None | [x] => Some x | _ :: l' => last_opt l' end.
