(* license_expression: LicenseSymbol key validation, build_symbols_from_unknown_tokens, the blank
   filter, build_token_groups_for_with_subexpression, is_with_subexpression,
   replace_with_subexpression_by_license_symbol, Licensing.get_advanced_tokenizer,
   Licensing.simple_tokenizer and Licensing.tokenize. *)
Require Import Model.Base Model.Expr Model.Split Model.Trie Model.Overlap.
Open Scope Z_scope.

Inductive kw := KAnd | KOr | KWith | KLp | KRp.
(* value of a token: a Keyword or a LicenseSymbol (plain, from the table or made from unknown words) *)
Inductive kv := VKw (k : kw) | VSym (s : sym).
Notation ltok := (Trie.tok kv).

(* what Licensing.tokenize yields: a TOKEN_* type or a symbol, the token string, the position *)
Inductive tk := TS (a : atom) | TA | TO | TL | TR.
Record ptok := { pt : tk; pstr : str; ppos : Z }.

Record entry := { ekey : str; ealiases : list str; eexc : bool }.

Section LicTok.
Variable O : oracle.

(* LicenseSymbol.__init__ on a text key: the normalised key or ExpressionError *)
Definition valid_key_char (c : char) : bool :=
  is_wordch O c || is_space O c || N.eqb c 45 || N.eqb c 58 || N.eqb c 46 || N.eqb c 43.
Definition is_keyword_str (s : str) : bool :=
  str_eqb s s_and || str_eqb s s_or || str_eqb s s_with || str_eqb s s_lpar || str_eqb s s_rpar.
Definition mk_key (k : str) : outcome str :=
  match k with
  | [] => ExprErr (EBadKey k)
  | _ =>
    let k1 := strip O k in
    match k1 with
    | [] => ExprErr (EBadKey k)
    | _ =>
      if negb (forallb valid_key_char k1) then ExprErr (EBadKey k1)
      else let k2 := norm_spaces O k1 in
           if is_keyword_str (lower O k2) then ExprErr (EBadKey k2) else Ok k2
    end
  end.
Definition mk_symbol (k : str) (e : bool) : outcome sym :=
  obind (mk_key k) (fun k' => Ok {| key := k'; exc := e |}).

(* ---- build_symbols_from_unknown_tokens ---- *)
Definition tok_blank (t : ltok) : bool := blank O (tstring t).

(* "while unmatched and not unmatched[-1].string.strip(): trailing_spaces.append(unmatched.pop())" *)
Fixpoint split_trailing (l : list ltok) (acc : list ltok) : list ltok * list ltok :=
  match l with
  | t :: l' => if tok_blank t then split_trailing l' (acc ++ [t]) else (acc, l)
  | [] => (acc, [])
  end.

(* build_token_with_symbol(): [unm] is the deque, most recent first *)
Definition flush_unknown (unm : list ltok) : outcome (list ltok) :=
  match unm with
  | [] => Ok []
  | _ =>
    let '(trailing, core_rev) := split_trailing unm [] in
    match core_rev with
    | [] => Ok trailing
    | lastt :: _ =>
      let core := rev core_rev in
      let s := join_sp (map (fun t => tstring t) (filter (fun t => negb (tok_blank t)) core)) in
      let st := match core with t :: _ => tstart t | [] => 0 end in
      obind (mk_symbol s false) (fun sy =>
        Ok ({| tstart := st; tend := tend lastt; tstring := s; tvalue := Some (VSym sy) |} :: trailing))
    end
  end.

Fixpoint build_unknown (unm : list ltok) (ts : list ltok) : outcome (list ltok) :=
  match ts with
  | [] => flush_unknown unm
  | t :: ts' =>
      match tvalue t with
      | Some _ =>
          obind (flush_unknown unm) (fun pre =>
          obind (build_unknown [] ts') (fun post => Ok (pre ++ t :: post)))
      | None =>
          match unm with
          | [] => if tok_blank t
                  then obind (build_unknown [] ts') (fun post => Ok (t :: post))
                  else build_unknown [t] ts'
          | _ => build_unknown (t :: unm) ts'
          end
      end
  end.

Definition drop_blank (ts : list ltok) : list ltok :=
  filter (fun t => match tstring t with [] => false | _ => negb (tok_blank t) end) ts.

(* ---- build_token_groups_for_with_subexpression ---- *)
Inductive group := G1 (t : ltok) | G3 (a w b : ltok).

Definition is_sym_tok (t : ltok) : bool := match tvalue t with Some (VSym _) => true | _ => false end.
Definition is_with_tok (t : ltok) : bool := match tvalue t with Some (VKw KWith) => true | _ => false end.
Definition is_with3 (a w b : ltok) : bool := is_sym_tok a && is_with_tok w && is_sym_tok b.

(* the deque [win] holds at most three tokens, oldest first *)
Fixpoint group_go (win : list ltok) (ts : list ltok) : list group :=
  match ts with
  | [] =>
      match win with
      | [a; w; b] => if is_with3 a w b then [G3 a w b] else [G1 a; G1 w; G1 b]
      | _ => map G1 win
      end
  | t :: ts' =>
      match win with
      | [a; w; b] =>
          if is_with3 a w b then G3 a w b :: group_go [t] ts'
          else G1 a :: group_go [w; b; t] ts'
      | _ => group_go (win ++ [t]) ts'
      end
  end.
Definition group_with (ts : list ltok) : list group :=
  if Nat.ltb (length ts) 3 then map G1 ts else group_go [] ts.

(* ---- replace_with_subexpression_by_license_symbol ---- *)
Definition tk_of_kw (k : kw) : option tk :=
  match k with KAnd => Some TA | KOr => Some TO | KLp => Some TL | KRp => Some TR | KWith => None end.

Fixpoint replace_with (strict : bool) (gs : list group) : outcome (list ptok) :=
  match gs with
  | [] => Ok []
  | G1 t :: gs' =>
      match tvalue t with
      | Some (VKw k) =>
          match tk_of_kw k with
          | None => ParseErr PARSE_INVALID_EXPRESSION (tstring t) (tstart t)
          | Some ty => obind (replace_with strict gs') (fun r =>
                         Ok ({| pt := ty; pstr := tstring t; ppos := tstart t |} :: r))
          end
      | Some (VSym s) =>
          if strict && exc s then ParseErr PARSE_INVALID_EXCEPTION (tstring t) (tstart t)
          else obind (replace_with strict gs') (fun r =>
                 Ok ({| pt := TS (Plain s); pstr := tstring t; ppos := tstart t |} :: r))
      | None => Leak OtherExc
      end
  | G3 a w b :: gs' =>
      match tvalue a, tvalue b with
      | Some (VSym l), Some (VSym r) =>
          if strict && exc l then ParseErr PARSE_INVALID_EXCEPTION (tstring a) (tstart a)
          else if strict && negb (exc r) then ParseErr PARSE_INVALID_SYMBOL_AS_EXCEPTION (tstring b) (tstart b)
          else obind (replace_with strict gs') (fun rest =>
                 Ok ({| pt := TS (With l r);
                        pstr := tstring a ++ sp ++ strip O (tstring w) ++ sp ++ tstring b;
                        ppos := tstart a |} :: rest))
      | _, _ => Leak OtherExc
      end
  end.

(* ---- the two tokenizers ---- *)
Definition keyword_adds : list (str * kv) :=
  [(s_and, VKw KAnd); (s_or, VKw KOr); (s_lpar, VKw KLp); (s_rpar, VKw KRp); (s_with, VKw KWith)].

Definition entry_sym (e : entry) : sym := {| key := ekey e; exc := eexc e |}.

Definition add_all (t : trie kv) (l : list (str * kv)) : trie kv :=
  fold_left (fun t nv => match t_add O t (fst nv) (snd nv) with Added t' => t' | Refused => t end) l t.

Definition entry_adds (e : entry) : list (str * kv) :=
  (ekey e, VSym (entry_sym e)) ::
  flat_map (fun a => match a with [] => [] | _ => [(norm_spaces O a, VSym (entry_sym e))] end) (ealiases e).

(* Licensing.get_advanced_tokenizer *)
Definition build_trie (T : list entry) : trie kv :=
  t_make_automaton (add_all t_empty (keyword_adds ++ flat_map entry_adds T)).

(* known_symbols_lowercase.get(lower) : the last entry with that lower-cased key wins *)
Fixpoint lookup_lower (T : list entry) (lw : str) : option sym :=
  match T with
  | [] => None
  | e :: T' =>
      match lookup_lower T' lw with
      | Some s => Some s
      | None => if str_eqb (lower O (ekey e)) lw then Some (entry_sym e) else None
      end
  end.

Definition simple_token (T : list entry) (p : piece) : outcome ltok :=
  let mk v := {| tstart := pstart p; tend := pend p; tstring := ptext p; tvalue := v |} in
  match piece_cls O p with
  | CSpace => Ok (mk None)
  | CParen => Ok (mk (Some (VKw (if str_eqb (ptext p) s_lpar then KLp else KRp))))
  | CText =>
      let l := lower O (ptext p) in
      if str_eqb l s_and then Ok (mk (Some (VKw KAnd)))
      else if str_eqb l s_or then Ok (mk (Some (VKw KOr)))
      else if str_eqb l s_with then Ok (mk (Some (VKw KWith)))
      else match lookup_lower T l with
           | Some s => Ok (mk (Some (VSym s)))
           | None => obind (mk_symbol (ptext p) false) (fun s => Ok (mk (Some (VSym s))))
           end
  end.

Fixpoint simple_tokens (T : list entry) (ps : list piece) : outcome (list ltok) :=
  match ps with
  | [] => Ok []
  | p :: ps' => obind (simple_token T p) (fun t => obind (simple_tokens T ps') (fun r => Ok (t :: r)))
  end.

(* Licensing.tokenize(expression, strict, simple) for a text *)
Definition lic_tokenize (T : list entry) (strict simple : bool) (s : str) : outcome (list ptok) :=
  match s with
  | [] => Ok []
  | _ =>
    obind (if simple then simple_tokens T (pieces O s)
           else Ok (t_tokenize O (build_trie T) s)) (fun toks =>
    obind (build_unknown [] toks) (fun toks1 =>
    replace_with strict (group_with (drop_blank toks1))))
  end.

End LicTok.
