(* _pyahocorasick._tokenizer.split and license_expression._simple_tokenizer: the text is cut into
   maximal runs of white space, maximal runs of other characters, and single parentheses.
   Both regexes have the same three classes; a piece carries its start offset. *)
Require Import Model.Base.
Open Scope Z_scope.

Inductive cls := CSpace | CParen | CText.
Definition cls_eqb (a b : cls) : bool :=
  match a, b with CSpace, CSpace | CParen, CParen | CText, CText => true | _, _ => false end.

Definition cls_of (O : oracle) (c : char) : cls :=
  if is_space O c then CSpace else if is_paren c then CParen else CText.

Record piece := { pstart : Z; ptext : str }.

(* the run being collected: start offset, class, characters so far (reversed) *)
Fixpoint split_acc (O : oracle) (start : Z) (k : cls) (acc : str) (pos : Z) (s : str) : list piece :=
  match s with
  | [] => [{| pstart := start; ptext := rev acc |}]
  | c :: s' =>
      let k' := cls_of O c in
      if cls_eqb k k' && negb (cls_eqb k CParen)
      then split_acc O start k (c :: acc) (pos + 1) s'
      else {| pstart := start; ptext := rev acc |} :: split_acc O pos k' [c] (pos + 1) s'
  end.

Definition pieces (O : oracle) (s : str) : list piece :=
  match s with
  | [] => []
  | c :: s' => split_acc O 0 (cls_of O c) [c] 1 s'
  end.

Definition pend (p : piece) : Z := pstart p + Z.of_nat (length (ptext p)) - 1.
Definition piece_cls (O : oracle) (p : piece) : cls :=
  match ptext p with [] => CSpace | c :: _ => cls_of O c end.
Definition is_word_piece (O : oracle) (p : piece) : bool := negb (cls_eqb (piece_cls O p) CSpace).

(* words of a text: the non-blank pieces (parentheses are words) *)
Definition words (O : oracle) (s : str) : list str := map ptext (filter (is_word_piece O) (pieces O s)).
(* get_tokens(s) filtered by t.strip(): lower-cased words *)
Definition lwords (O : oracle) (s : str) : list str := map (lower O) (words O s).
