(* Which statements of the library may change an object that the running call did not create itself.
   The inventory (coq/gen/Writes.v) is regenerated from the two source files on every run: every assignment to or deletion of an
   attribute or item, and every use of a mutating method, whose receiver is not a local variable bound only to freshly made
   objects; module-level names bound to mutable containers; module-level statements that assign through an attribute or item or
   call a mutating method; a write through a parameter is followed to the call sites of the function (it disappears where the
   argument is a fresh local, moves on where it is a parameter of the caller, is listed at the call site otherwise); decorators other than classmethod / staticmethod / property / total_ordering (a decorator can keep state
   between calls); class attributes bound to anything but constants; reflective writes.
   The policy below says where such statements may stand for the thread model (Model/Threads.v) and the history model
   (Model/History.v) to be models of this code: in the functions that build a tokenizer before it is published (their order is
   the subject of gen/ThreadProg.v), in the statement that publishes it, and in three places that work on a list or set the same
   call has just made. A query therefore shares nothing with another call but the published tokenizer, which no statement
   outside the builders writes to, and never writes to its arguments. *)
From Coq Require Import String List Bool.
Import ListNotations.
Open Scope string_scope.

Definition write := (string * string * string)%type.     (* function, kind of statement, target text *)

Definition in_list (s : string) (l : list string) : bool := existsb (String.eqb s) l.

(* run only by Licensing.get_advanced_tokenizer, on a tokenizer no other thread can see yet *)
Definition builders : list string := ["Trie.add"; "Trie.make_automaton"].

Definition write_allowed (w : write) : bool :=
  let '(f, k, t) := w in
  if String.eqb f "<module>"
  then (* constants: no statement of the inventory has one of them as receiver *)
       (String.eqb k "mutable" && in_list t ["KEYWORDS_STRINGS"; "OPERATORS"])
       (* done once, while the module is imported: the four error messages added to boolean.py's table, Keyword.__len__ *)
       || (String.eqb k "assign" &&
           in_list t ["Keyword.__len__"; "PARSE_ERRORS[PARSE_EXPRESSION_NOT_UNICODE]"; "PARSE_ERRORS[PARSE_INVALID_EXCEPTION]";
                      "PARSE_ERRORS[PARSE_INVALID_SYMBOL]"; "PARSE_ERRORS[PARSE_INVALID_SYMBOL_AS_EXCEPTION]"])
  else in_list f builders
       (* filling the local tokenizer, then the publication *)
       || (String.eqb f "Licensing.get_advanced_tokenizer" && in_list t ["self.advanced_tokenizer"; "tokenizer.add"])
       (* matched = list(self.iter(...)), then the list filter_overlapping returns (whose deletions are followed to this call
          site), then matched = deque(matched): all made by this call *)
       || (String.eqb f "Trie.tokenize" && in_list t ["matched.popleft"; "matched to filter_overlapping"])
       (* aliases = set(...) of the entry being validated *)
       || (String.eqb f "validate_symbols" && in_list t ["aliases.add"])
       (* a read of the instance dictionary for the repr *)
       || (String.eqb f "LicenseWithExceptionSymbol.__repr__" && String.eqb k "reflect" && in_list t ["self.__dict__"]).

Definition confined (ws : list write) : bool := forallb write_allowed ws.

(* no allowed statement has a module-level constant as its receiver *)
Definition receiver_is (name : string) (t : string) : bool :=
  String.eqb t name || prefix (name ++ ".") t || prefix (name ++ "[") t.
Definition constants_untouched (ws : list write) : bool :=
  forallb (fun w => let '(f, _, t) := w in
                    String.eqb f "<module>" || negb (receiver_is "KEYWORDS_STRINGS" t || receiver_is "OPERATORS" t)) ws.
