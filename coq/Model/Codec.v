(* Encoding of model values into the generic [data] trees exchanged with the harness.
   The Python side (harness/codec.py) mirrors these conventions. *)
Require Import Model.Base Model.Expr Model.Simplify Model.Split Model.Trie Model.Overlap
               Model.LicTok Model.BoolParse Model.Licensing.
Open Scope Z_scope.

(* ---- encoders ---- *)
Definition e_str (s : str) : data := DL (map (fun c => DI (Z.of_N c)) s).
Definition e_bool (b : bool) : data := DI (if b then 1 else 0).
Definition e_list {A} (f : A -> data) (l : list A) : data := DL (map f l).
Definition e_opt {A} (f : A -> data) (o : option A) : data := match o with None => DL [] | Some a => DL [f a] end.
Definition e_sym (s : sym) : data := DL [e_str (key s); e_bool (exc s)].
Definition e_atom (a : atom) : data :=
  match a with
  | Plain s => DL [DI 0; e_sym s]
  | With l r => DL [DI 1; e_sym l; e_sym r]
  end.
Fixpoint e_expr (e : expr) : data :=
  match e with
  | Lit a => DL [DI 0; e_atom a]
  | And xs => DL [DI 1; DL (map e_expr xs)]
  | Or xs => DL [DI 2; DL (map e_expr xs)]
  end.
Definition e_ekind (k : ekind) : data :=
  match k with
  | EArity => DL [DI 0]
  | EBadKey _ => DL [DI 1]
  | EUnknownKeys ks => DL [DI 2; e_list e_str ks]
  | ENotString => DL [DI 3]
  | EOther => DL [DI 4]
  end.
Definition e_outcome {A} (f : A -> data) (o : outcome A) : data :=
  match o with
  | Ok a => DL [DI 0; f a]
  | ParseErr c t p => DL [DI 1; DI (Z.of_N c); e_str t; DI p]
  | ExprErr k => DL [DI 2; e_ekind k]
  | ValueErr => DL [DI 3]
  | TypeErr => DL [DI 4]
  | Leak _ => DL [DI 5]
  end.
Definition e_tk (t : tk) : data :=
  match t with
  | TS a => DL [DI 0; e_atom a]
  | TA => DL [DI 1] | TO => DL [DI 2] | TL => DL [DI 3] | TR => DL [DI 4]
  end.
Definition e_ptok (t : ptok) : data := DL [e_tk (pt t); e_str (pstr t); DI (ppos t)].
Definition e_tok {V} (f : V -> data) (t : Trie.tok V) : data :=
  DL [DI (tstart t); DI (tend t); e_str (tstring t); e_opt f (tvalue t)].
Definition e_verr (v : verr) : data :=
  match v with
  | VParse c t p => DL [DI 1; DI (Z.of_N c); e_str t; DI p]
  | VExpr k => DL [DI 2; e_ekind k]
  | VLeak => DL [DI 5]
  end.
Definition e_info (i : info) : data :=
  DL [e_opt e_str (normalized i); e_list e_verr (errors i); e_list e_str (invalid_symbols i)].

(* ---- decoders ---- *)
Definition d_z (d : data) : option Z := match d with DI z => Some z | _ => None end.
Definition d_bool (d : data) : option bool := match d with DI z => Some (negb (z =? 0)) | _ => None end.
Fixpoint d_all {A} (f : data -> option A) (l : list data) : option (list A) :=
  match l with
  | [] => Some []
  | x :: l' => match f x, d_all f l' with Some a, Some r => Some (a :: r) | _, _ => None end
  end.
Definition d_list {A} (f : data -> option A) (d : data) : option (list A) :=
  match d with DL l => d_all f l | _ => None end.
Definition d_str (d : data) : option str :=
  d_list (fun x => match x with DI z => Some (Z.to_N z) | _ => None end) d.
Definition d_sym (d : data) : option sym :=
  match d with
  | DL [k; e] => match d_str k, d_bool e with Some k, Some e => Some {| key := k; exc := e |} | _, _ => None end
  | _ => None
  end.
Definition d_atom (d : data) : option atom :=
  match d with
  | DL [DI 0; s] => option_map Plain (d_sym s)
  | DL [DI 1; l; r] => match d_sym l, d_sym r with Some l, Some r => Some (With l r) | _, _ => None end
  | _ => None
  end.
Fixpoint d_expr (d : data) : option expr :=
  match d with
  | DL [DI 0; a] => option_map Lit (d_atom a)
  | DL [DI 1; DL xs] =>
      option_map And ((fix go (l : list data) : option (list expr) :=
                         match l with
                         | [] => Some []
                         | x :: l' => match d_expr x, go l' with Some a, Some r => Some (a :: r) | _, _ => None end
                         end) xs)
  | DL [DI 2; DL xs] =>
      option_map Or ((fix go (l : list data) : option (list expr) :=
                        match l with
                        | [] => Some []
                        | x :: l' => match d_expr x, go l' with Some a, Some r => Some (a :: r) | _, _ => None end
                        end) xs)
  | _ => None
  end.
Definition d_entry (d : data) : option entry :=
  match d with
  | DL [k; als; e] =>
      match d_str k, d_list d_str als, d_bool e with
      | Some k, Some als, Some e => Some {| ekey := k; ealiases := als; eexc := e |}
      | _, _, _ => None
      end
  | _ => None
  end.
Definition d_table := d_list d_entry.

(* an oracle given as finite tables: white space, word characters, lower-case map *)
Fixpoint zmem (z : N) (l : list N) : bool := match l with [] => false | x :: l' => N.eqb x z || zmem z l' end.
Fixpoint low_get (c : N) (l : list (N * str)) : str :=
  match l with [] => [c] | (k, v) :: l' => if N.eqb k c then v else low_get c l' end.
Definition table_oracle (spaces words : list N) (low : list (N * str)) : oracle :=
  {| is_space := fun c => zmem c spaces;
     is_wordch := fun c => zmem c words;
     lower_ch := fun c => low_get c low |}.
Definition d_oracle (d : data) : option oracle :=
  match d with
  | DL [sps; wds; low] =>
      match d_str sps, d_str wds,
            d_list (fun x => match x with
                             | DL [DI k; v] => option_map (fun v => (Z.to_N k, v)) (d_str v)
                             | _ => None end) low with
      | Some s, Some w, Some l => Some (table_oracle s w l)
      | _, _, _ => None
      end
  | _ => None
  end.
