(* boolean.py DualBase.simplify / flatten / absorb / __contains__ / __lt__, Expression.__eq__,
   and the symbol comparisons of license_expression, restricted to the branches that license
   expressions can reach (no NOT, TRUE, FALSE: see DESIGN.md). *)
Require Import Model.Base Model.Expr.

(* Expression.__eq__ : same class and frozenset(args) equal; symbols by value *)
Fixpoint expr_eqb (a b : expr) : bool :=
  match a, b with
  | Lit x, Lit y => atom_eqb x y
  | And xs, And ys =>
      forallb (fun x => existsb (expr_eqb x) ys) xs && forallb (fun y => existsb (fun x => expr_eqb x y) xs) ys
  | Or xs, Or ys =>
      forallb (fun x => existsb (expr_eqb x) ys) xs && forallb (fun y => existsb (fun x => expr_eqb x y) xs) ys
  | _, _ => false
  end.

(* sort_key() of the symbols, compared as Python tuples *)
Definition sort_key (a : atom) : str * bool * str * bool * str * bool :=
  match a with
  | Plain s => (key s, false, key s, exc s, [], false)
  | With l r => (atom_str a, true, key l, exc l, key r, exc r)
  end.

Definition atom_ltb (a b : atom) : bool :=
  let '(s1, k1, a1, e1, b1, f1) := sort_key a in
  let '(s2, k2, a2, e2, b2, f2) := sort_key b in
  if negb (str_eqb s1 s2) then str_ltb s1 s2
  else if negb (Bool.eqb k1 k2) then bool_ltb k1 k2
  else if negb (str_eqb a1 a2) then str_ltb a1 a2
  else if negb (Bool.eqb e1 e2) then bool_ltb e1 e2
  else if negb (str_eqb b1 b2) then str_ltb b1 b2
  else bool_ltb f1 f2.

(* Python "a < b" between expressions as list.sort() evaluates it *)
Fixpoint expr_ltb (a b : expr) : bool :=
  match a with
  | Lit x => match b with Lit y => atom_ltb x y | _ => true end
  | And xs =>
      match b with
      | Lit _ => false
      | And ys =>
          (fix lex (xs ys : list expr) {struct xs} : bool :=
             match xs, ys with
             | [], [] => false
             | [], _ :: _ => true
             | _ :: _, [] => false
             | x :: xs', y :: ys' => if expr_eqb x y then lex xs' ys' else expr_ltb x y
             end) xs ys
      | Or _ => true
      end
  | Or xs =>
      match b with
      | Or ys =>
          (fix lex (xs ys : list expr) {struct xs} : bool :=
             match xs, ys with
             | [], [] => false
             | [], _ :: _ => true
             | _ :: _, [] => false
             | x :: xs', y :: ys' => if expr_eqb x y then lex xs' ys' else expr_ltb x y
             end) xs ys
      | _ => false
      end
  end.

Inductive bop := OpAnd | OpOr.
Definition mk (o : bop) (xs : list expr) : expr := match o with OpAnd => And xs | OpOr => Or xs end.
Definition is_op (o : bop) (e : expr) : bool :=
  match o, e with OpAnd, And _ => true | OpOr, Or _ => true | _, _ => false end.
Definition dual (o : bop) : bop := match o with OpAnd => OpOr | OpOr => OpAnd end.
Definition args_of (e : expr) : list expr := match e with Lit _ => [] | And xs => xs | Or xs => xs end.

(* "x in y" : y.__contains__(x) *)
Definition in_expr (x y : expr) : bool :=
  match y with
  | Lit ya =>
      match x with
      | Lit xa =>
          atom_eqb ya xa ||
          match xa with
          | Plain s => existsb (fun m => sym_eqb m s) (decompose ya)
          | With _ _ => false
          end
      | _ => false
      end
  | And ys =>
      existsb (fun y => expr_eqb y x) ys ||
      match x with And xs => forallb (fun a => existsb (fun y => expr_eqb y a) ys) xs | _ => false end
  | Or ys =>
      existsb (fun y => expr_eqb y x) ys ||
      match x with Or xs => forallb (fun a => existsb (fun y => expr_eqb y a) ys) xs | _ => false end
  end.

(* DualBase.flatten (one level) *)
Definition flatten (o : bop) (xs : list expr) : list expr :=
  flat_map (fun x => if is_op o x then args_of x else [x]) xs.

(* idempotence step: for arg in args: if arg not in out: out.append(arg) *)
Fixpoint dedupe_acc (acc xs : list expr) : list expr :=
  match xs with
  | [] => acc
  | x :: xs' => if existsb (fun y => expr_eqb y x) acc then dedupe_acc acc xs' else dedupe_acc (acc ++ [x]) xs'
  end.
Definition dedupe (xs : list expr) : list expr := dedupe_acc [] xs.

(* DualBase.absorb: the index loops with "del args[j]" ; [done] = args[:i], [todo] = args[i:] *)
Definition absorbed_by (o : bop) (a t : expr) : bool := is_op (dual o) t && in_expr a t.
Fixpoint absorb_loop (fuel : nat) (o : bop) (done todo : list expr) : list expr :=
  match fuel with
  | O => done ++ todo
  | S fuel' =>
      match todo with
      | [] => done
      | a :: rest =>
          let keep t := negb (absorbed_by o a t) in
          absorb_loop fuel' o (filter keep done ++ [a]) (filter keep rest)
      end
  end.
Definition absorb (o : bop) (xs : list expr) : list expr := absorb_loop (length xs) o [] xs.

(* list.sort(): stable insertion sort with "<" *)
Fixpoint insert_sorted (x : expr) (l : list expr) : list expr :=
  match l with
  | [] => [x]
  | y :: l' => if expr_ltb x y then x :: l else y :: insert_sorted x l'
  end.
Definition sort_args (xs : list expr) : list expr := fold_left (fun acc x => insert_sorted x acc) xs [].

Definition simp_node (o : bop) (args : list expr) : expr :=
  match dedupe (flatten o args) with
  | [x] => x
  | a1 =>
      match absorb o a1 with
      | [x] => x
      | a2 => mk o (sort_args a2)
      end
  end.

Fixpoint simplify (e : expr) : expr :=
  match e with
  | Lit a => Lit a
  | And xs => simp_node OpAnd (map simplify xs)
  | Or xs => simp_node OpOr (map simplify xs)
  end.

(* Licensing.is_equivalent / contains on parsed expressions *)
Definition is_equivalent (a b : expr) : bool := expr_eqb (simplify a) (simplify b).
Definition contains (a b : expr) : bool := in_expr (simplify b) (simplify a).
