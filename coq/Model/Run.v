(* Entry points of the executable model: [dispatch O op input] for the extracted driver and for
   evaluation inside Coq. Each operation decodes its input, runs the model and encodes the result. *)
Require Import Model.Base Model.Expr Model.Simplify Model.Split Model.Trie Model.Overlap
               Model.LicTok Model.BoolParse Model.Licensing Model.Codec Model.History Model.Threads Model.Index.
Open Scope Z_scope.

Definition bad_input : data := DL [DI (-1)].

Definition e_kv (v : kv) : data :=
  match v with
  | VKw k => DL [DI 0; DI (match k with KAnd => 0 | KOr => 1 | KWith => 2 | KLp => 3 | KRp => 4 end)]
  | VSym s => DL [DI 1; e_sym s]
  end.

(* operations on a bare matcher whose values are positive integers *)
Inductive trie_op :=
  | TAdd (name : str) (v : Z) | TGet (name : str) | TExists (name : str) | TIsPrefix (name : str)
  | TItems | TMake | TIter (text : str) | TTokenize (text : str).
Definition d_trie_op (d : data) : option trie_op :=
  match d with
  | DL [DI 0; n; DI v] => option_map (fun n => TAdd n v) (d_str n)
  | DL [DI 1; n] => option_map TGet (d_str n)
  | DL [DI 2; n] => option_map TExists (d_str n)
  | DL [DI 3; n] => option_map TIsPrefix (d_str n)
  | DL [DI 4] => Some TItems
  | DL [DI 5] => Some TMake
  | DL [DI 6; t] => option_map TIter (d_str t)
  | DL [DI 7; t] => option_map TTokenize (d_str t)
  | _ => None
  end.
Definition e_zv (v : Z) : data := DI v.
Fixpoint run_trie_ops (O : oracle) (t : trie Z) (ops : list trie_op) : list data :=
  match ops with
  | [] => []
  | op :: ops' =>
      match op with
      | TAdd n v =>
          match t_add O t n v with
          | Added t' => DL [DI 0] :: run_trie_ops O t' ops'
          | Refused => DL [DI 1] :: run_trie_ops O t ops'
          end
      | TGet n => e_opt (fun o => DL [e_str (fst o); DI (snd o)]) (t_get O t n) :: run_trie_ops O t ops'
      | TExists n => e_bool (t_exists O t n) :: run_trie_ops O t ops'
      | TIsPrefix n => e_bool (t_is_prefix O t n) :: run_trie_ops O t ops'
      | TItems => e_list (fun o => DL [e_str (fst o); DI (snd o)]) (t_items t) :: run_trie_ops O t ops'
      | TMake => DL [] :: run_trie_ops O (t_make_automaton t) ops'
      | TIter text => e_list (e_tok e_zv) (t_iter O t text) :: run_trie_ops O t ops'
      | TTokenize text => e_list (e_tok e_zv) (t_tokenize O t text) :: run_trie_ops O t ops'
      end
  end.

Definition d_ztok (d : data) : option (Trie.tok Z) :=
  match d with
  | DL [DI s; DI e; DI v] => Some {| tstart := s; tend := e; tstring := []; tvalue := Some v |}
  | _ => None
  end.

Definition d_rel (d : data) : option relation :=
  match d with
  | DI 0 => Some (RelOp OpAnd)
  | DI 1 => Some (RelOp OpOr)
  | DI _ => Some RelBad
  | _ => None
  end.

Definition listings (T : list entry) (e : expr) : data :=
  let bb := [true; false] in
  DL [ e_list (fun u => e_list (fun d => e_list e_atom (license_symbols e u d)) bb) bb;
       e_list (fun u => e_list e_str (license_keys e u)) bb;
       e_list (fun d => e_opt e_atom (primary_license_symbol e d)) bb;
       e_opt e_str (primary_license_key e);
       e_list (fun u => e_list e_atom (unknown_license_symbols T e u)) bb;
       e_list (fun u => e_list e_str (unknown_license_keys T e u)) bb ].

Definition d_nat (d : data) : option nat := match d with DI z => Some (Z.to_nat z) | _ => None end.
Definition d_hop (d : data) : option History.op :=
  match d with
  | DL [DI 0; T] => option_map ONew (d_table T)
  | DL [DI 1; i; va; st; si; s] =>
      match d_nat i, d_bool va, d_bool st, d_bool si, d_str s with
      | Some i, Some va, Some st, Some si, Some s => Some (OParse i va st si s)
      | _, _, _, _, _ => None
      end
  | DL [DI 2; i; h] => match d_nat i, d_nat h with Some i, Some h => Some (OParseExpr i h) | _, _ => None end
  | DL [DI 3; i; h] => match d_nat i, d_nat h with Some i, Some h => Some (OKeys i h) | _, _ => None end
  | DL [DI 4; i; h] => match d_nat i, d_nat h with Some i, Some h => Some (OUnknownKeys i h) | _, _ => None end
  | DL [DI 5; h] => option_map OSimplify (d_nat h)
  | DL [DI 6; i; h] => match d_nat i, d_nat h with Some i, Some h => Some (ODedup i h) | _, _ => None end
  | DL [DI 7; i; a; b] => match d_nat i, d_nat a, d_nat b with Some i, Some a, Some b => Some (OEquiv i a b) | _, _, _ => None end
  | DL [DI 8; i; a; b] => match d_nat i, d_nat a, d_nat b with Some i, Some a, Some b => Some (OContains i a b) | _, _, _ => None end
  | DL [DI 9; h] => option_map ORender (d_nat h)
  | _ => None
  end.
Definition e_nat (n : nat) : data := DI (Z.of_nat n).
Definition e_obs (o : obs) : data :=
  match o with
  | ObNone => DL [DI 9]
  | ObNew r => DL [DI 0; e_outcome e_nat r]
  | ObExpr r => DL [DI 1; e_outcome (e_opt e_nat) r]
  | ObKeys l => DL [DI 2; e_list e_str l]
  | ObBool b => DL [DI 3; e_bool b]
  | ObText s => DL [DI 4; e_str s]
  end.

Definition d_ientry (d : data) : option ientry :=
  match d with
  | DL [k; s; o; x; dp] =>
      match d_str k, d_str s, d_list d_str o, d_bool x, d_bool dp with
      | Some k, Some s, Some o, Some x, Some dp =>
          Some {| license_key := k; spdx_key := s; other_spdx := o; iexc := x; deprecated := dp |}
      | _, _, _, _, _ => None
      end
  | _ => None
  end.
Definition e_entry (e : entry) : data := DL [e_str (ekey e); e_list e_str (ealiases e); e_bool (eexc e)].

Definition d_instr (d : data) : option instr :=
  match d with
  | DI 0 => Some IRead | DI 1 => Some IAlloc | DI 2 => Some IAdd | DI 3 => Some IFinalize
  | DI 4 => Some IPublish | DI 5 => Some IReturn | _ => None
  end.
Definition e_instr (i : instr) : data :=
  DI (match i with IRead => 0 | IAlloc => 1 | IAdd => 2 | IFinalize => 3 | IPublish => 4 | IReturn => 5 end).
(* the statement each scheduled step executes (none when the thread has returned), then the final state *)
Fixpoint sched_trace (p : prog) (g : gstate) (sched : list nat) : list data * gstate :=
  match sched with
  | [] => ([], g)
  | t :: sched' =>
      let cur := match nth_error (threads g) t with
                 | Some th => match result th with
                              | Some _ => DL []
                              | None => match nth_error p (pc th) with Some i => DL [e_instr i] | None => DL [] end
                              end
                 | None => DL []
                 end in
      let '(tr, g') := sched_trace p (tstep p g t) sched' in (cur :: tr, g')
  end.

Definition dispatch (O : oracle) (op : Z) (d : data) : data :=
  match op, d with
  | 1, DL [a; b] =>
      match d_atom a, d_atom b with
      | Some a, Some b =>
          DL [e_bool (atom_eqb a b); e_bool (atom_ltb a b); e_bool (atom_ltb b a);
              e_bool (expr_eqb (Lit a) (Lit b)); e_str (atom_str a)]
      | _, _ => bad_input
      end
  | 2, k => match d_str k with Some k => e_outcome e_str (mk_key O k) | None => bad_input end
  | 3, DL [T; st; si; s] =>
      match d_table T, d_bool st, d_bool si, d_str s with
      | Some T, Some st, Some si, Some s => e_outcome (e_list e_ptok) (lic_tokenize O T st si s)
      | _, _, _, _ => bad_input
      end
  | 4, DL [T; va; st; si; s] =>
      match d_table T, d_bool va, d_bool st, d_bool si, d_str s with
      | Some T, Some va, Some st, Some si, Some s => e_outcome (e_opt e_expr) (parse O T va st si s)
      | _, _, _, _, _ => bad_input
      end
  | 5, e => match d_expr e with Some e => e_expr (simplify e) | None => bad_input end
  | 6, DL [a; b] =>
      match d_expr a, d_expr b with
      | Some a, Some b =>
          DL [e_bool (is_equivalent a b); e_bool (contains a b); e_bool (expr_eqb a b); e_bool (expr_ltb a b)]
      | _, _ => bad_input
      end
  | 7, e => match d_expr e with Some e => e_outcome e_expr (dedup e) | None => bad_input end
  | 8, DL [l; r; u] =>
      match d_list d_str l, d_rel r, d_bool u with
      | Some l, Some r, Some u => e_outcome (e_opt e_expr) (combine_texts O l r u)
      | _, _, _ => bad_input
      end
  | 9, DL [T; e] =>
      match d_table T, d_expr e with
      | Some T, Some e => listings T e
      | _, _ => bad_input
      end
  | 10, DL [T; st; s] =>
      match d_table T, d_bool st, d_str s with
      | Some T, Some st, Some s => e_info (validate O T st s)
      | _, _, _ => bad_input
      end
  | 11, T =>
      match d_table T with
      | Some T => e_outcome (fun T' => e_list (fun e => e_str (ekey e)) T') (new_licensing O T)
      | None => bad_input
      end
  | 12, ops =>
      match d_list d_trie_op ops with
      | Some ops => DL (run_trie_ops O t_empty ops)
      | None => bad_input
      end
  | 13, toks =>
      match d_list d_ztok toks with
      | Some toks => e_list (fun t => DL [DI (tstart t); DI (tend t); e_opt e_zv (tvalue t)]) (filter_overlapping toks)
      | None => bad_input
      end
  | 14, e => match d_expr e with Some e => DL [e_str (render e); e_str (render_readable e)] | None => bad_input end
  | 15, s => match d_str s with
             | Some s => e_list (fun p => DL [DI (pstart p); e_str (ptext p)]) (pieces O s)
             | None => bad_input end
  | 16, DL [e; DI u] =>
      match d_expr e with
      | Some e => e_outcome (e_opt e_expr)
                    (combine_parsed (args_of e) (match e with Or _ => OpOr | _ => OpAnd end) (negb (u =? 0)))
      | None => bad_input
      end
  | 18, DL [p; DI n; sc] =>
      match d_list d_instr p, d_list d_nat sc with
      | Some p, Some sc =>
          let '(tr, g) := sched_trace p (start (Z.to_nat n)) sc in
          DL [DL tr;
              e_list (fun th => DL [e_nat (pc th); e_opt e_bool (result th)]) (threads g);
              e_opt e_nat (slot g); e_bool (safe_order p)]
      | _, _ => bad_input
      end
  | 19, idx =>
      match d_list d_ientry idx with
      | Some idx => DL [e_outcome (e_list e_entry) (build_licensing O idx);
                        e_outcome (e_list e_entry) (build_spdx_licensing O idx)]
      | None => bad_input
      end
  | 17, ops =>
      match d_list d_hop ops with
      | Some ops => let '(w, obs) := History.run O History.init ops in
                    DL [e_list e_obs obs; e_list e_expr (exprs w)]
      | None => bad_input
      end
  | _, _ => bad_input
  end.
