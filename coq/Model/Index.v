(* build_licensing / build_spdx_licensing: the table of a Licensing built from a license index. *)
Require Import Model.Base Model.Expr Model.Split Model.LicTok Model.Licensing.

(* the fields the loaders read; a missing license_key / spdx_license_key is the empty text,
   a missing is_exception is falsy, a missing is_deprecated is False *)
Record ientry := {
  license_key : str;
  spdx_key : str;
  other_spdx : list str;
  iexc : bool;
  deprecated : bool;
}.

Definition scancode_raw (idx : list ientry) : list entry :=
  map (fun l => {| ekey := license_key l; ealiases := []; eexc := iexc l |})
      (filter (fun l => negb (deprecated l)) idx).

Definition spdx_raw (idx : list ientry) : list entry :=
  map (fun l => {| ekey := spdx_key l; ealiases := other_spdx l; eexc := iexc l |})
      (filter (fun l => match spdx_key l with [] => false | _ => negb (deprecated l) end) idx).

(* LicenseSymbol from every mapping, then Licensing(symbols) *)
Definition build_licensing (O : oracle) (idx : list ientry) : outcome (list entry) := new_licensing O (scancode_raw idx).
Definition build_spdx_licensing (O : oracle) (idx : list ientry) : outcome (list entry) := new_licensing O (spdx_raw idx).

(* the ASCII part of the interpreter's tables (the shipped index is ASCII; the harness asserts it) *)
Definition ascii_oracle : oracle :=
  {| is_space := fun c => (N.leb 9 c && N.leb c 13) || (N.leb 28 c && N.leb c 32);
     is_wordch := fun c => (N.leb 48 c && N.leb c 57) || (N.leb 65 c && N.leb c 90) || (N.leb 97 c && N.leb c 122) || N.eqb c 95;
     lower_ch := fun c => if N.leb 65 c && N.leb c 90 then [(c + 32)%N] else [c] |}.

(* executable checks on a built table: no stored name has an operator word or a parenthesis among its lower-cased words; every
   stored name has words *)
Definition names_opfree_b (O : oracle) (T : list entry) : bool :=
  forallb (fun nv => forallb (fun w => negb (is_keyword_str w)) (lwords O (fst nv))) (flat_map (entry_adds O) T).
Definition names_have_words_b (O : oracle) (T : list entry) : bool :=
  forallb (fun nv => match lwords O (fst nv) with [] => false | _ => true end) (flat_map (entry_adds O) T).
