(* Histories of API calls on shared Licensing instances and shared expression objects.
   An instance keeps its table and the lazily built tokenizer (Licensing.advanced_tokenizer);
   get_advanced_tokenizer returns the cached one when present, otherwise builds, caches and returns. *)
Require Import Model.Base Model.Expr Model.Simplify Model.Split Model.Trie Model.Overlap Model.LicTok
               Model.BoolParse Model.Licensing.

Section History.
Variable O : oracle.

(* Licensing.tokenize / parse / validate with an explicit tokenizer object *)
Definition lic_tokenize_tr (T : list entry) (tr : trie kv) (strict simple : bool) (s : str) : outcome (list ptok) :=
  match s with
  | [] => Ok []
  | _ =>
    obind (if simple then simple_tokens O T (pieces O s) else Ok (t_tokenize O tr s)) (fun toks =>
    obind (build_unknown O [] toks) (fun toks1 =>
    replace_with O strict (group_with (drop_blank O toks1))))
  end.
Definition parse_tr (T : list entry) (tr : trie kv) (validate strict simple : bool) (s : str) : outcome (option expr) :=
  if blank O s then Ok None
  else obind (obind (lic_tokenize_tr T tr strict simple s) (fun toks => of_pres (bparse toks))) (fun e =>
         if validate then
           match unknown_license_keys T e true with
           | [] => Ok (Some e)
           | ks => ExprErr (EUnknownKeys ks)
           end
         else Ok (Some e)).

Record inst := { itable : list entry; icache : option (trie kv) }.
Record world := { insts : list inst; exprs : list expr }.

Inductive op :=
  | ONew (raw : list entry)
  | OParse (i : nat) (validate strict simple : bool) (s : str)
  | OParseExpr (i : nat) (h : nat)
  | OKeys (i : nat) (h : nat)
  | OUnknownKeys (i : nat) (h : nat)
  | OSimplify (h : nat)
  | ODedup (i : nat) (h : nat)
  | OEquiv (i : nat) (h1 h2 : nat)
  | OContains (i : nat) (h1 h2 : nat)
  | ORender (h : nat).

Inductive obs :=
  | ObNone                                   (* bad handle / index *)
  | ObNew (o : outcome nat)                  (* index of the new instance *)
  | ObExpr (o : outcome (option nat))        (* handle of the resulting expression *)
  | ObKeys (l : list str)
  | ObBool (b : bool)
  | ObText (s : str).

Definition init : world := {| insts := []; exprs := [] |}.

Fixpoint set_nth {A} (n : nat) (x : A) (l : list A) : list A :=
  match l, n with
  | [], _ => []
  | _ :: l', 0 => x :: l'
  | y :: l', S n' => y :: set_nth n' x l'
  end.

(* the tokenizer a call obtains, and the instance afterwards *)
Definition get_tokenizer (it : inst) : trie kv * inst :=
  match icache it with
  | Some tr => (tr, it)
  | None => let tr := build_trie O (itable it) in (tr, {| itable := itable it; icache := Some tr |})
  end.

Definition push_expr (w : world) (ins : list inst) (o : outcome (option expr)) : world * obs :=
  match o with
  | Ok (Some e) => ({| insts := ins; exprs := exprs w ++ [e] |}, ObExpr (Ok (Some (length (exprs w)))))
  | Ok None => ({| insts := ins; exprs := exprs w |}, ObExpr (Ok None))
  | ParseErr c t p => ({| insts := ins; exprs := exprs w |}, ObExpr (ParseErr c t p))
  | ExprErr k => ({| insts := ins; exprs := exprs w |}, ObExpr (ExprErr k))
  | ValueErr => ({| insts := ins; exprs := exprs w |}, ObExpr ValueErr)
  | TypeErr => ({| insts := ins; exprs := exprs w |}, ObExpr TypeErr)
  | Leak x => ({| insts := ins; exprs := exprs w |}, ObExpr (Leak x))
  end.

Definition step (w : world) (o : op) : world * obs :=
  match o with
  | ONew raw =>
      match new_licensing O raw with
      | Ok T => ({| insts := insts w ++ [{| itable := T; icache := None |}]; exprs := exprs w |},
                 ObNew (Ok (length (insts w))))
      | ParseErr c t p => (w, ObNew (ParseErr c t p))
      | ExprErr k => (w, ObNew (ExprErr k))
      | ValueErr => (w, ObNew ValueErr)
      | TypeErr => (w, ObNew TypeErr)
      | Leak x => (w, ObNew (Leak x))
      end
  | OParse i va st si s =>
      match nth_error (insts w) i with
      | None => (w, ObNone)
      | Some it =>
          (* the tokenizer is fetched (and cached) only when the default tokenizer runs *)
          if blank O s || si || (match s with [] => true | _ => false end)
          then push_expr w (insts w) (parse_tr (itable it) (build_trie O (itable it)) va st si s)
          else let '(tr, it') := get_tokenizer it in
               push_expr w (set_nth i it' (insts w)) (parse_tr (itable it) tr va st si s)
      end
  | OParseExpr i h =>
      match nth_error (insts w) i, nth_error (exprs w) h with
      | Some _, Some _ => (w, ObExpr (Ok (Some h)))        (* the very same object *)
      | _, _ => (w, ObNone)
      end
  | OKeys i h =>
      match nth_error (insts w) i, nth_error (exprs w) h with
      | Some _, Some e => (w, ObKeys (license_keys e true))
      | _, _ => (w, ObNone)
      end
  | OUnknownKeys i h =>
      match nth_error (insts w) i, nth_error (exprs w) h with
      | Some it, Some e => (w, ObKeys (unknown_license_keys (itable it) e true))
      | _, _ => (w, ObNone)
      end
  | OSimplify h =>
      match nth_error (exprs w) h with
      | Some e => ({| insts := insts w; exprs := exprs w ++ [simplify e] |}, ObExpr (Ok (Some (length (exprs w)))))
      | None => (w, ObNone)
      end
  | ODedup i h =>
      match nth_error (insts w) i, nth_error (exprs w) h with
      | Some _, Some e => push_expr w (insts w) (omap Some (dedup e))
      | _, _ => (w, ObNone)
      end
  | OEquiv i h1 h2 =>
      match nth_error (insts w) i, nth_error (exprs w) h1, nth_error (exprs w) h2 with
      | Some _, Some a, Some b => (w, ObBool (is_equivalent a b))
      | _, _, _ => (w, ObNone)
      end
  | OContains i h1 h2 =>
      match nth_error (insts w) i, nth_error (exprs w) h1, nth_error (exprs w) h2 with
      | Some _, Some a, Some b => (w, ObBool (contains a b))
      | _, _, _ => (w, ObNone)
      end
  | ORender h =>
      match nth_error (exprs w) h with
      | Some e => (w, ObText (render e))
      | None => (w, ObNone)
      end
  end.

Fixpoint run (w : world) (ops : list op) : world * list obs :=
  match ops with
  | [] => (w, [])
  | o :: ops' => let '(w1, ob) := step w o in let '(w2, obs) := run w1 ops' in (w2, ob :: obs)
  end.

(* the answer computed from the tables and expressions alone, with a freshly built tokenizer *)
Definition pure_step (w : world) (o : op) : world * obs :=
  step {| insts := map (fun it => {| itable := itable it; icache := None |}) (insts w); exprs := exprs w |} o.

End History.
