(* _pyahocorasick.Trie: add / get / exists / is_prefix / items / make_automaton / iter.
   Nodes are represented by their path from the root (the list of lower-cased words); the node
   set is the prefix closure of the stored paths. The failure link of a node is computed the way
   make_automaton computes it (from the failure link of the parent, following links until a
   state has a child for the word; the root has one for every known word). *)
Require Import Model.Base Model.Split.
Open Scope Z_scope.

Definition path := list str.

Fixpoint path_eqb (a b : path) : bool :=
  match a, b with
  | [], [] => true
  | x :: a', y :: b' => str_eqb x y && path_eqb a' b'
  | _, _ => false
  end.

Fixpoint is_prefix_of (p q : path) : bool :=
  match p, q with
  | [], _ => true
  | x :: p', y :: q' => str_eqb x y && is_prefix_of p' q'
  | _ :: _, [] => false
  end.

Record tok (V : Type) := { tstart : Z; tend : Z; tstring : str; tvalue : option V }.
Arguments tstart {V} t.
Arguments tend {V} t.
Arguments tstring {V} t.
Arguments tvalue {V} t.

(* "while w not in state.children: state = state.fail" then "state.children.get(w)":
   the root has every known word as a child (a real one or a link to itself).
   [inP] is the node set; [f] the failure function; [k] bounds the number of links followed. *)
Fixpoint climb (inP : path -> bool) (f : path -> path) (k : nat) (s : path) (w : str) : path :=
  if inP (s ++ [w]) then s ++ [w] else
  match s with
  | [] => []
  | _ => match k with 0%nat => [] | S k' => climb inP f k' (f s) w end
  end.

(* node.fail as make_automaton computes it: from the parent's link *)
Fixpoint failn (inP : path -> bool) (n : nat) (p : path) : path :=
  match n with
  | 0%nat => []
  | S n' =>
    match rev p with
    | [] => []
    | w :: rq =>
      match rq with
      | [] => []
      | _ => climb inP (failn inP n') (length p) (failn inP n' (rev rq)) w
      end
    end
  end.

(* match, match.fail, ... down to the root *)
Fixpoint chain (f : path -> path) (k : nat) (s : path) : list path :=
  s :: match s with
       | [] => []
       | _ => match k with 0%nat => [] | S k' => chain f k' (f s) end
       end.

Section Trie.
Context {V : Type}.
Variable O : oracle.

Record trie := {
  outs : list (path * (str * V));    (* node path -> output (stored spelling, value) *)
  known : list str;                  (* _known_tokens *)
  conv : bool;                       (* _converted *)
}.

Definition t_empty : trie := {| outs := []; known := []; conv := false |}.

Fixpoint set_out (p : path) (o : str * V) (l : list (path * (str * V))) : list (path * (str * V)) :=
  match l with
  | [] => [(p, o)]
  | (q, o') :: l' => if path_eqb p q then (q, o) :: l' else (q, o') :: set_out p o l'
  end.

Fixpoint get_out (p : path) (l : list (path * (str * V))) : option (str * V) :=
  match l with
  | [] => None
  | (q, o) :: l' => if path_eqb p q then Some o else get_out p l'
  end.

(* the node set *)
Definition in_nodes (t : trie) (p : path) : bool :=
  match p with [] => true | _ => existsb (fun e => is_prefix_of p (fst e)) (outs t) end.

Inductive add_result := Added (t : trie) | Refused.

(* Trie.add(tokens_string, value) for a text name and a truthy value *)
Definition t_add (t : trie) (name : str) (v : V) : add_result :=
  if conv t then Refused
  else match name with
       | [] => Added t
       | _ =>
         match lwords O name with
         | [] => Added t
         | ws => Added {| outs := set_out ws (name, v) (outs t);
                          known := known t ++ ws;
                          conv := false |}
         end
       end.

(* __get_node : None | Some path *)
Definition t_node (t : trie) (name : str) : option path :=
  match name with
  | [] => None
  | _ => let p := lwords O name in if in_nodes t p then Some p else None
  end.

(* Trie.get : None stands for KeyError / the default *)
Definition t_get (t : trie) (name : str) : option (str * V) :=
  match t_node t name with Some p => get_out p (outs t) | None => None end.
Definition t_exists (t : trie) (name : str) : bool :=
  match t_get t name with Some _ => true | None => false end.
Definition t_is_prefix (t : trie) (name : str) : bool :=
  match t_node t name with Some _ => true | None => false end.
(* Trie.items, as a set (the harness compares sorted lists) *)
Definition t_items (t : trie) : list (str * V) := map snd (outs t).

Definition t_make_automaton (t : trie) : trie :=
  {| outs := outs t; known := known t; conv := true |}.

Definition max_depth (t : trie) : nat := fold_right (fun e m => Nat.max (length (fst e)) m) 0%nat (outs t).

Definition slice (s : str) (a b : Z) : str :=      (* s[a : b+1] for 0 <= a *)
  firstn (Z.to_nat (b + 1 - a)) (skipn (Z.to_nat a) s).

(* Trie.iter(text) with include_unmatched=False, include_space=False.
   [starts] holds the start offsets of the words scanned so far, most recent first. *)
Fixpoint iter_go (t : trie) (text : str) (md : nat) (state : path) (starts : list Z)
         (ps : list piece) : list (tok V) :=
  match ps with
  | [] => []
  | p :: ps' =>
      if negb (is_word_piece O p) then iter_go t text md state starts ps'
      else
        let starts' := pstart p :: starts in
        let w := lower O (ptext p) in
        if negb (existsb (str_eqb w) (known t)) then iter_go t text md [] starts' ps'
        else
          let state' := climb (in_nodes t) (failn (in_nodes t) md) md state w in
          let found :=
            flat_map (fun node =>
                        match get_out node (outs t) with
                        | Some (_, v) =>
                            let st := nth (length node - 1) starts' (-1) in
                            [ {| tstart := st; tend := pend p; tstring := slice text st (pend p); tvalue := Some v |} ]
                        | None => []
                        end)
                     (chain (failn (in_nodes t) md) md state') in
          found ++ iter_go t text md state' starts' ps'
  end.

Definition t_iter (t : trie) (text : str) : list (tok V) :=
  iter_go t text (max_depth t) [] [] (pieces O text).

End Trie.
Arguments trie V : clear implicits.
