(* license_expression.Licensing: construction (as_symbols, validate_symbols), parse, the listings,
   validate_license_keys, validate, dedup, combine_expressions. *)
Require Import Model.Base Model.Expr Model.Simplify Model.Split Model.Trie Model.Overlap Model.LicTok Model.BoolParse.

(* items of a sequence, each once, in the order of first appearance (also used for Python sets, whose
   iteration order does not matter where they are used) *)
Fixpoint ordered_unique {A} (eqb : A -> A -> bool) (acc : list A) (l : list A) : list A :=
  match l with
  | [] => acc
  | x :: l' => if existsb (fun y => eqb y x) acc then ordered_unique eqb acc l' else ordered_unique eqb (acc ++ [x]) l'
  end.

Section Licensing.
Variable O : oracle.

(* ---- validate_symbols over (key, aliases, flag) entries with valid keys ---- *)
(* the lower-cased words of the alias as the matcher sees them (split on white space and on parentheses), joined by single
   spaces: aliases that differ only in letter case or in the white space between words and around parentheses are one alias *)
Definition norm_alias (a : str) : str := join_sp (lwords O a).

(* one entry: the set of names it claims (normalised non-empty aliases and its lower-cased key) *)
Definition entry_names (e : entry) : list str :=
  ordered_unique str_eqb []
    (filter (fun a => match a with [] => false | _ => true end) (map norm_alias (ealiases e))
     ++ [lower O (strip O (ekey e))]).

Fixpoint assoc_get (k : str) (l : list (str * str)) : option str :=
  match l with
  | [] => None
  | (k', v) :: l' => if str_eqb k k' then Some v else assoc_get k l'
  end.
(* dict[k] = v : the most recent binding is found first *)
Definition assoc_set (k v : str) (l : list (str * str)) : list (str * str) := (k, v) :: l.

(* the alias loop of one entry: returns (error seen?, seen_aliases') *)
Fixpoint alias_loop (keyl : str) (names : list str) (seen : list (str * str)) (err : bool)
  : bool * list (str * str) :=
  match names with
  | [] => (err, seen)
  | a :: names' =>
      let dup := match assoc_get a seen with
                 | Some k => negb (match k with [] => true | _ => false end) && negb (str_eqb k keyl)
                 | None => false
                 end in
      let kwd := is_keyword_str a in
      alias_loop keyl names' (assoc_set a keyl seen) (err || dup || kwd)
  end.

Fixpoint vs_loop (T : list entry) (seen_keys : list str) (seen : list (str * str)) (err : bool) : bool :=
  match T with
  | [] => err
  | e :: T' =>
      let keyl := lower O (strip O (ekey e)) in
      let dupk := existsb (str_eqb keyl) seen_keys in
      let kwk := is_keyword_str keyl in
      let '(err', seen') := alias_loop keyl (entry_names e) seen false in
      vs_loop T' (keyl :: seen_keys) seen' (err || dupk || kwk || err')
  end.

(* validate_symbols(symbols) reports at least one error *)
Definition validate_symbols_err (T : list entry) : bool := vs_loop T [] [] false.

(* Licensing(symbols) from (key text, aliases, flag): keys go through LicenseSymbol.__init__ *)
Fixpoint as_symbols (raw : list entry) : outcome (list entry) :=
  match raw with
  | [] => Ok []
  | e :: raw' =>
      obind (mk_key O (ekey e)) (fun k =>
      obind (as_symbols raw') (fun r => Ok ({| ekey := k; ealiases := ealiases e; eexc := eexc e |} :: r)))
  end.

Definition new_licensing (raw : list entry) : outcome (list entry) :=
  obind (as_symbols raw) (fun T => if validate_symbols_err T then ValueErr else Ok T).

(* ---- listings ---- *)
Definition license_symbols (e : expr) (unique decompose_ : bool) : list atom :=
  let lits := literals e in
  let syms := if decompose_ then map Plain (flat_map decompose lits) else lits in
  if unique then ordered_unique atom_eqb [] syms else syms.

Definition keys_of (l : list atom) : list str := map atom_str l.   (* only used on plain symbols *)
Definition uniq_keys (unique : bool) (ks : list str) : list str :=
  if unique then ordered_unique str_eqb [] ks else ks.

Definition license_keys (e : expr) (unique : bool) : list str :=
  uniq_keys unique (keys_of (license_symbols e false true)).

Definition primary_license_symbol (e : expr) (decompose_ : bool) : option atom :=
  match license_symbols e true decompose_ with [] => None | a :: _ => Some a end.
Definition primary_license_key (e : expr) : option str :=
  match primary_license_symbol e true with Some a => Some (atom_str a) | None => None end.

Definition known_key (T : list entry) (k : str) : bool := existsb (fun e => str_eqb (ekey e) k) T.
Definition is_unknown (T : list entry) (a : atom) : bool :=
  match a with Plain s => negb (known_key T (key s)) | With _ _ => false end.

Definition unknown_license_symbols (T : list entry) (e : expr) (unique : bool) : list atom :=
  filter (is_unknown T) (license_symbols e unique true).
Definition unknown_license_keys (T : list entry) (e : expr) (unique : bool) : list str :=
  uniq_keys unique (keys_of (unknown_license_symbols T e false)).

(* ---- parse ---- *)
Definition of_pres (r : pres) : outcome expr :=
  match r with
  | POk e => Ok e
  | PErr c t p => ParseErr c t p
  | PArity => ExprErr EArity
  | PLeak e => Leak e
  end.

Definition parse_tokens (T : list entry) (strict simple : bool) (s : str) : outcome expr :=
  obind (lic_tokenize O T strict simple s) (fun toks => of_pres (bparse toks)).

Definition parse (T : list entry) (validate strict simple : bool) (s : str) : outcome (option expr) :=
  if blank O s then Ok None
  else obind (parse_tokens T strict simple s) (fun e =>
         if validate then
           match unknown_license_keys T e true with
           | [] => Ok (Some e)
           | ks => ExprErr (EUnknownKeys ks)
           end
         else Ok (Some e)).

(* ---- validate ---- *)
Inductive verr := VParse (code : N) (tok : str) (pos : Z) | VExpr (k : ekind) | VLeak.
Record info := { normalized : option str; errors : list verr; invalid_symbols : list str }.

Definition validate (T : list entry) (strict : bool) (s : str) : info :=
  match parse T false strict false s with
  | ParseErr c t p => {| normalized := None; errors := [VParse c t p]; invalid_symbols := [t] |}
  | ExprErr k => {| normalized := None; errors := [VExpr k]; invalid_symbols := [] |}
  | ValueErr | TypeErr | Leak _ => {| normalized := None; errors := [VLeak]; invalid_symbols := [] |}
  | Ok None => {| normalized := None; errors := []; invalid_symbols := [] |}
  | Ok (Some e) =>
      (* validate_license_keys(expression) parses the text again, non-strictly *)
      match parse T false false false s with
      | Ok (Some e') =>
          match unknown_license_keys T e' true with
          | [] => {| normalized := Some (render e); errors := []; invalid_symbols := [] |}
          | ks => {| normalized := None; errors := [VExpr (EUnknownKeys ks)]; invalid_symbols := ks |}
          end
      | _ => {| normalized := None; errors := [VLeak]; invalid_symbols := [] |}
      end
  end.

(* ---- dedup / combine_expressions ---- *)
(* list({str(x): x for x in xs}.values()): first position, last object *)
Fixpoint dict_by_str (acc : list (str * expr)) (xs : list expr) : list (str * expr) :=
  match xs with
  | [] => acc
  | x :: xs' =>
      let k := render x in
      if existsb (fun kv => str_eqb (fst kv) k) acc
      then dict_by_str (map (fun kv => if str_eqb (fst kv) k then (k, x) else kv) acc) xs'
      else dict_by_str (acc ++ [(k, x)]) xs'
  end.
Definition uniq_by_str (xs : list expr) : list expr := map snd (dict_by_str [] xs).

Definition combine_parsed (xs : list expr) (o : bop) (unique : bool) : outcome (option expr) :=
  match xs with
  | [] => Ok None
  | _ =>
    let ys := if unique then uniq_by_str xs else xs in
    match ys with
    | [y] => Ok (Some y)
    | _ => omap Some (match o with OpAnd => mk_and ys | OpOr => mk_or ys end)
    end
  end.

Definition unsome (x : outcome (option expr)) : outcome expr :=
  obind x (fun o => match o with Some e => Ok e | None => Leak AttributeError end).

Fixpoint dedup (e : expr) : outcome expr :=
  match e with
  | Lit a => Ok (Lit a)
  | And xs =>
      obind ((fix go (l : list expr) : outcome (list expr) :=
                match l with
                | [] => Ok []
                | x :: l' => obind (match x with Lit _ => Ok x | _ => dedup x end) (fun x' =>
                             obind (go l') (fun r => Ok (x' :: r)))
                end) xs) (fun ys => unsome (combine_parsed ys OpAnd true))
  | Or xs =>
      obind ((fix go (l : list expr) : outcome (list expr) :=
                match l with
                | [] => Ok []
                | x :: l' => obind (match x with Lit _ => Ok x | _ => dedup x end) (fun x' =>
                             obind (go l') (fun r => Ok (x' :: r)))
                end) xs) (fun ys => unsome (combine_parsed ys OpOr true))
  end.

(* combine_expressions(list of texts, relation, unique) with the module's default Licensing() *)
Inductive relation := RelOp (o : bop) | RelBad.
Fixpoint parse_all (T : list entry) (l : list str) : outcome (list expr) :=
  match l with
  | [] => Ok []
  | s :: l' =>
      obind (parse T false false true s) (fun o =>
      match o with
      | None => Leak AssertionError      (* blank element: outside the property, see DESIGN *)
      | Some e => obind (parse_all T l') (fun r => Ok (e :: r))
      end)
  end.
Definition combine_texts (l : list str) (rel : relation) (unique : bool) : outcome (option expr) :=
  match l with
  | [] => Ok None
  | _ =>
    match rel with
    | RelBad => TypeErr
    | RelOp o => obind (parse_all [] l) (fun xs => combine_parsed xs o unique)
    end
  end.

End Licensing.
